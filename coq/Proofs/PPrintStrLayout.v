(* pformat_s (Model/PPrintStr.v: pprint.pformat with the splitting of long strs) writes a layout whose tokens are a
   rendering of the literal tree [pformat_s_lit] (Model/PPrintStrLit.v), and gin reads it back as the value repr denotes.
   1. induction principle, unfolding lemmas; the chunks of a str concatenate to the str
   2. the layout relation PPS (as PP of Proofs/PPrintProofs.v, with adjacent string literals); pformat_s is one
   3. lexing, rendering, meaning
   4. pformat_s_reads_back *)
From Coq Require Import List String ZArith NArith Bool Arith Ascii Lia.
From GinV Require Import Lib.Out Lib.PyStr Model.Parser Model.ParserSpec Model.Repr Model.ReprText.
From GinV Require Import Proofs.ParserLemmas Proofs.ParserSmall Proofs.ParserProofs Proofs.ParserSound Proofs.ParserApi.
From GinV Require Import Proofs.ParserSim Proofs.ReprProofs.
From GinV Require Import Model.Lexer Proofs.LexerProofs Proofs.LexerParser Proofs.ReprTextProofs.
From GinV Require Import Model.PPrint Proofs.PPrintProofs Model.StrLit Proofs.StrLitProofs Proofs.StrLitLex Model.PPrintStr Model.PPrintStrLit.
Import ListNotations.
Open Scope char_scope. Open Scope list_scope. Open Scope nat_scope.

(* ================================================================== *)
(* 1. *)
Section SvInd.
  Variable P : sv -> Prop.
  Hypothesis HAtom : forall t, P (SAtom t).
  Hypothesis HNeg : forall t, P (SNeg t).
  Hypothesis HStr : forall s, P (SStr s).
  Hypothesis HRaw : forall t, P (SRaw t).
  Hypothesis HList : forall l, Forall P l -> P (SList l).
  Hypothesis HTuple : forall l, Forall P l -> P (STuple l).
  Hypothesis HDict : forall l, Forall (fun kv => P (fst kv) /\ P (snd kv)) l -> P (SDict l).
  Fixpoint sv_ind' (v : sv) : P v :=
    match v with
    | SAtom t => HAtom t | SNeg t => HNeg t | SStr s => HStr s | SRaw t => HRaw t
    | SList l => HList l ((fix go (l : list sv) : Forall P l :=
                             match l with [] => Forall_nil P | x :: r => Forall_cons x (sv_ind' x) (go r) end) l)
    | STuple l => HTuple l ((fix go (l : list sv) : Forall P l :=
                               match l with [] => Forall_nil P | x :: r => Forall_cons x (sv_ind' x) (go r) end) l)
    | SDict l => HDict l ((fix go (l : list (sv * sv)) : Forall (fun kv => P (fst kv) /\ P (snd kv)) l :=
                             match l with [] => Forall_nil _ | (k, x) :: r => Forall_cons (k, x) (conj (sv_ind' k) (sv_ind' x)) (go r) end) l)
    end.
End SvInd.

Fixpoint ps_items (w ind alast : nat) (l : list sv) : string :=
  match l with
  | [] => EmptyString
  | x :: r => match r with
              | [] => pformat_s_at w x ind alast false
              | _ :: _ => (pformat_s_at w x ind 1 false ++ delimnl ind ++ ps_items w ind alast r)%string
              end
  end.
Fixpoint ps_lits (w ind alast : nat) (l : list sv) : list lit :=
  match l with
  | [] => []
  | x :: r => match r with
              | [] => [pformat_s_lit_at w x ind alast false]
              | _ :: _ => pformat_s_lit_at w x ind 1 false :: ps_lits w ind alast r
              end
  end.
Fixpoint ps_ditems (w ind alast : nat) (l : list (sv * sv)) : string :=
  match l with
  | [] => EmptyString
  | kx :: r =>
      let krep := repr_string_s (fst kx) in
      let col := ind + String.length krep + 2 in
      match r with
      | [] => (krep ++ ": " ++ pformat_s_at w (snd kx) col alast false)%string
      | _ :: _ => (krep ++ ": " ++ pformat_s_at w (snd kx) col 1 false ++ delimnl ind ++ ps_ditems w ind alast r)%string
      end
  end.
Fixpoint ps_dlits (w ind alast : nat) (l : list (sv * sv)) : list (lit * lit) :=
  match l with
  | [] => []
  | kx :: r =>
      let col := ind + String.length (repr_string_s (fst kx)) + 2 in
      match r with
      | [] => [(lit_of (erase (fst kx)), pformat_s_lit_at w (snd kx) col alast false)]
      | _ :: _ => (lit_of (erase (fst kx)), pformat_s_lit_at w (snd kx) col 1 false) :: ps_dlits w ind alast r
      end
  end.
Definition tup_end (l : list sv) : nat := match l with [_] => 2 | _ => 1 end.
Definition tup_tr (l : list sv) : string := match l with [_] => "," | _ => "" end%string.

Lemma pformat_s_at_SList : forall w l i a top,
  pformat_s_at w (SList l) i a top =
  if too_wide w (repr_string_s (SList l)) i a then ("[" ++ ps_items w (S i) (S a) l ++ "]")%string else repr_string_s (SList l).
Proof.
  intros w l i a top. cbn [pformat_s_at]. destruct (too_wide _ _ _ _); [|reflexivity].
  apply (f_equal (fun s => ("[" ++ s ++ "]")%string)).
  induction l as [|x r IH]; [reflexivity|]. cbn [ps_items]. destruct r as [|y r']; [reflexivity|]. rewrite IH. reflexivity.
Qed.
Lemma pformat_s_at_STuple : forall w l i a top,
  pformat_s_at w (STuple l) i a top =
  if too_wide w (repr_string_s (STuple l)) i a then ("(" ++ ps_items w (S i) (a + tup_end l) l ++ tup_tr l ++ ")")%string
  else repr_string_s (STuple l).
Proof.
  intros w l i a top. cbn [pformat_s_at]. destruct (too_wide _ _ _ _); [|reflexivity].
  fold (tup_end l). fold (tup_tr l). generalize (a + tup_end l). intro al. generalize (tup_tr l). intro tr.
  apply (f_equal (fun s => ("(" ++ s ++ tr ++ ")")%string)).
  induction l as [|x r IH]; [reflexivity|]. cbn [ps_items]. destruct r as [|y r']; [reflexivity|]. rewrite IH. reflexivity.
Qed.
Lemma pformat_s_at_SDict : forall w l i a top,
  pformat_s_at w (SDict l) i a top =
  if too_wide w (repr_string_s (SDict l)) i a then ("{" ++ ps_ditems w (S i) (S a) l ++ "}")%string else repr_string_s (SDict l).
Proof.
  intros w l i a top. cbn [pformat_s_at]. destruct (too_wide _ _ _ _); [|reflexivity].
  apply (f_equal (fun s => ("{" ++ s ++ "}")%string)).
  induction l as [|[k x] r IH]; [reflexivity|]. cbn [ps_ditems fst snd]. destruct r as [|y r']; [reflexivity|]. rewrite IH. reflexivity.
Qed.
Lemma lit_at_SList : forall w l i a top,
  pformat_s_lit_at w (SList l) i a top =
  if too_wide w (repr_string_s (SList l)) i a then LList (ps_lits w (S i) (S a) l) false else lit_of (erase (SList l)).
Proof.
  intros w l i a top. cbn [pformat_s_lit_at]. destruct (too_wide _ _ _ _); [|reflexivity].
  apply (f_equal (fun x => LList x false)).
  induction l as [|x r IH]; [reflexivity|]. cbn [ps_lits]. destruct r as [|y r']; [reflexivity|]. rewrite IH. reflexivity.
Qed.
Lemma lit_at_STuple : forall w l i a top,
  pformat_s_lit_at w (STuple l) i a top =
  if too_wide w (repr_string_s (STuple l)) i a then LTuple (ps_lits w (S i) (a + tup_end l) l) (match l with [_] => true | _ => false end)
  else lit_of (erase (STuple l)).
Proof.
  intros w l i a top. cbn [pformat_s_lit_at]. destruct (too_wide _ _ _ _); [|reflexivity].
  fold (tup_end l). generalize (a + tup_end l). intro al. generalize (match l with [_] => true | _ => false end). intro tb.
  apply (f_equal (fun x => LTuple x tb)).
  induction l as [|x r IH]; [reflexivity|]. cbn [ps_lits]. destruct r as [|y r']; [reflexivity|]. rewrite IH. reflexivity.
Qed.
Lemma lit_at_SDict : forall w l i a top,
  pformat_s_lit_at w (SDict l) i a top =
  if too_wide w (repr_string_s (SDict l)) i a then LDict (ps_dlits w (S i) (S a) l) false else lit_of (erase (SDict l)).
Proof.
  intros w l i a top. cbn [pformat_s_lit_at]. destruct (too_wide _ _ _ _); [|reflexivity].
  apply (f_equal (fun x => LDict x false)).
  induction l as [|[k x] r IH]; [reflexivity|]. cbn [ps_dlits fst snd]. destruct r as [|y r']; [reflexivity|]. rewrite IH. reflexivity.
Qed.

(* the chunks of a str concatenate to the str *)
Lemma concat_split_lines_n : forall n s, List.length s <= n -> forall cur, List.concat (split_lines s cur) = rev cur ++ s.
Proof.
  induction n as [|n IH]; intros s Hn cur.
  - destruct s; [|cbn in Hn; lia]. cbn [split_lines]. destruct cur; [reflexivity|]. cbn [List.concat]. rewrite !app_nil_r. reflexivity.
  - destruct s as [|c r]; cbn [split_lines].
    + destruct cur; [reflexivity|]. cbn [List.concat]. rewrite !app_nil_r. reflexivity.
    + cbn [List.length] in Hn. destruct (N.eqb c 13).
      * destruct r as [|d r'].
        -- cbn [List.concat rev]. rewrite app_nil_r. reflexivity.
        -- cbn [List.length] in Hn. destruct (N.eqb d 10); cbn [List.concat].
           ++ rewrite (IH r' ltac:(lia)). cbn [rev app]. rewrite <- ?app_assoc. reflexivity.
           ++ rewrite (IH (d :: r') ltac:(cbn [List.length]; lia)). cbn [rev app]. rewrite <- ?app_assoc. reflexivity.
      * destruct (is_linebreak c); cbn [List.concat].
        -- rewrite (IH r ltac:(lia)). cbn [rev app]. rewrite <- ?app_assoc. reflexivity.
        -- rewrite (IH r ltac:(lia)). cbn [rev]. rewrite <- ?app_assoc. reflexivity.
Qed.
Lemma concat_split_lines : forall s cur, List.concat (split_lines s cur) = rev cur ++ s.
Proof. intros s cur. exact (concat_split_lines_n _ s (le_n _) cur). Qed.
Lemma concat_parts_of : forall l cur b, List.concat (parts_of l cur b) = rev cur ++ l.
Proof.
  induction l as [|c r IH]; intros cur b; cbn [parts_of].
  - destruct cur; [reflexivity|]. cbn [List.concat]. rewrite !app_nil_r. reflexivity.
  - destruct (is_ws c); [rewrite IH; cbn [rev]; rewrite <- app_assoc; reflexivity|].
    destruct b; [cbn [List.concat]; rewrite IH; reflexivity | rewrite IH; cbn [rev]; rewrite <- app_assoc; reflexivity].
Qed.
Lemma concat_chunk_parts : forall ps cur mw al ll, List.concat (chunk_parts ps cur mw al ll) = cur ++ List.concat ps.
Proof.
  induction ps as [|p r IH]; intros cur mw al ll; cbn [chunk_parts List.concat].
  - destruct cur; cbn; rewrite ?app_nil_r; reflexivity.
  - destruct (Z.gtb _ _).
    + rewrite concat_app, IH. destruct cur; cbn [nonempty List.concat app]; rewrite ?app_nil_r; reflexivity.
    + rewrite IH, <- app_assoc. reflexivity.
Qed.
Lemma concat_chunk_lines : forall lines mw mw1 al, List.concat (chunk_lines lines mw mw1 al) = List.concat lines.
Proof.
  induction lines as [|line r IH]; intros mw mw1 al; cbn [chunk_lines List.concat]; [reflexivity|].
  rewrite concat_app, IH. f_equal. destruct (Z.leb _ _); [cbn; apply app_nil_r|].
  rewrite concat_chunk_parts, concat_parts_of. reflexivity.
Qed.
Theorem str_chunks_concat : forall w s i a top, List.concat (str_chunks w s i a top) = s.
Proof. intros. unfold str_chunks. rewrite concat_chunk_lines, concat_split_lines. reflexivity. Qed.

(* ================================================================== *)
(* 2. layouts with adjacent string literals *)
Inductive sfrag := SFV (v : sv) | SFItems (l : list sv) | SFDItems (l : list (sv * sv)).
Inductive slit := L1 (l : lit) | LN (l : list lit) | LD (l : list (lit * lit)).
Definition strail_c (l : list sv) : chars := match l with [_] => [","] | _ => [] end.
Definition strail_t (l : list sv) : list token := match l with [_] => [op_tok ","] | _ => [] end.
Definition tup_flag (l : list sv) : bool := match l with [_] => true | _ => false end.
(* a run of string literals, one per line, the continuation lines indented by [k] blanks *)
Fixpoint strs_chars (k : nat) (chunks : list (list N)) : chars :=
  match chunks with
  | [] => []
  | c :: r => match r with [] => cs (repr_str c) | _ :: _ => cs (repr_str c) ++ nl :: repeat " " k ++ strs_chars k r end
  end.
Fixpoint strs_toks (chunks : list (list N)) : list token :=
  match chunks with
  | [] => []
  | c :: r => match r with [] => [str_tok c] | _ :: _ => str_tok c :: nl_tok :: strs_toks r end
  end.
Fixpoint strs_slots (chunks : list (list N)) : list (list token) :=
  match chunks with
  | [] => []
  | c :: r => match r with [] => [[]] | _ :: _ => [nl_tok] :: strs_slots r end
  end.

Inductive PPS : sfrag -> chars -> list token -> list (list token) -> slit -> Prop :=
| S_atom : forall t, PPS (SFV (SAtom t)) (cs (text t)) [t] [[]; []] (L1 (LBasic false t))
| S_neg : forall t, PPS (SFV (SNeg t)) ("-" :: cs (text t)) [op_tok "-"; t] [[]; []] (L1 (LBasic true t))
| S_raw : forall t, PPS (SFV (SRaw t)) (cs (text t)) [t] [[]] (L1 (LStrs [t]))
| S_strs : forall s k chunks, chunks <> [] -> List.concat chunks = s ->
    PPS (SFV (SStr s)) (strs_chars k chunks) (strs_toks chunks) (strs_slots chunks) (L1 (LStrs (map str_tok chunks)))
| S_paren : forall s k chunks, chunks <> [] -> List.concat chunks = s ->
    PPS (SFV (SStr s)) ("(" :: strs_chars k chunks ++ [")"]) (op_tok "(" :: strs_toks chunks ++ [op_tok ")"])
        ([] :: strs_slots chunks ++ [[]]) (L1 (LParen (LStrs (map str_tok chunks))))
| S_list : forall l c ts sl L, PPS (SFItems l) c ts sl (LN L) ->
    PPS (SFV (SList l)) ("[" :: c ++ ["]"]) (op_tok "[" :: ts ++ [op_tok "]"]) ([] :: sl ++ [[]]) (L1 (LList L false))
| S_tuple : forall l c ts sl L, PPS (SFItems l) c ts sl (LN L) ->
    PPS (SFV (STuple l)) ("(" :: (c ++ strail_c l) ++ [")"]) (op_tok "(" :: (ts ++ strail_t l) ++ [op_tok ")"]) ([] :: sl ++ [[]])
        (L1 (LTuple L (tup_flag l)))
| S_dict : forall l c ts sl L, PPS (SFDItems l) c ts sl (LD L) ->
    PPS (SFV (SDict l)) ("{" :: c ++ ["}"]) (op_tok "{" :: ts ++ [op_tok "}"]) ([] :: sl ++ [[]]) (L1 (LDict L false))
| S_nil : PPS (SFItems []) [] [] [] (LN [])
| S_one : forall x c ts sl L, PPS (SFV x) c ts sl (L1 L) -> PPS (SFItems [x]) c ts (sl ++ [[]]) (LN [L])
| S_cons : forall s x y r cx tx slx Lx cr tr slr Lr, PPS (SFV x) cx tx slx (L1 Lx) -> PPS (SFItems (y :: r)) cr tr slr (LN Lr) ->
    PPS (SFItems (x :: y :: r)) (cx ++ sep_chars s ++ cr) (tx ++ [op_tok ","] ++ sep_slot s ++ tr) (slx ++ [sep_slot s] ++ slr) (LN (Lx :: Lr))
| S_dnil : PPS (SFDItems []) [] [] [] (LD [])
| S_done : forall k x ck tk slk Lk c ts sl L, PPS (SFV k) ck tk slk (L1 Lk) -> PPS (SFV x) c ts sl (L1 L) ->
    PPS (SFDItems [(k, x)]) (ck ++ [":"; " "] ++ c) (tk ++ [op_tok ":"] ++ ts) (slk ++ [[]] ++ sl ++ [[]]) (LD [(Lk, L)])
| S_dcons : forall s k x y r ck tk slk Lk cx tx slx Lx cr tr slr Lr,
    PPS (SFV k) ck tk slk (L1 Lk) -> PPS (SFV x) cx tx slx (L1 Lx) -> PPS (SFDItems (y :: r)) cr tr slr (LD Lr) ->
    PPS (SFDItems ((k, x) :: y :: r)) ((ck ++ [":"; " "] ++ cx) ++ sep_chars s ++ cr)
        ((tk ++ [op_tok ":"] ++ tx) ++ [op_tok ","] ++ sep_slot s ++ tr) (slk ++ [[]] ++ slx ++ [sep_slot s] ++ slr) (LD ((Lk, Lx) :: Lr)).

Definition has_PPS (f : sfrag) (c : chars) (L : slit) : Prop := exists ts sl, PPS f c ts sl L.

(* repr (of the erased tree) is the layout without line breaks, its literal tree lit_of *)
Lemma S_str1 : forall s, PPS (SFV (SStr s)) (cs (repr_str s)) [str_tok s] [[]] (L1 (LStrs [str_tok s])).
Proof. intro s. apply (S_strs s 0 [s]); [discriminate | cbn; apply app_nil_r]. Qed.
Lemma repr_items_PPS : forall l, Forall (fun x => has_PPS (SFV x) (repr_chars (erase x)) (L1 (lit_of (erase x)))) l ->
  has_PPS (SFItems l) (join_chars sepc (map repr_chars (map erase l))) (LN (map lit_of (map erase l))).
Proof.
  induction l as [|x r IH]; intro H; [exists [], []; constructor|].
  destruct (Forall_inv H) as [tx [slx Hx]]. specialize (IH (Forall_inv_tail H)).
  destruct r as [|y r']; [eexists _, _; cbn [map join_chars]; apply S_one; exact Hx|].
  destruct IH as [tr [slr Hr]]. eexists _, _.
  change (join_chars sepc (map repr_chars (map erase (x :: y :: r'))))
    with (repr_chars (erase x) ++ sep_chars SFlat ++ join_chars sepc (map repr_chars (map erase (y :: r')))).
  cbn [map]. apply S_cons; [exact Hx | exact Hr].
Qed.
Lemma repr_ditems_PPS : forall l,
  Forall (fun kv => has_PPS (SFV (fst kv)) (repr_chars (erase (fst kv))) (L1 (lit_of (erase (fst kv)))) /\
                    has_PPS (SFV (snd kv)) (repr_chars (erase (snd kv))) (L1 (lit_of (erase (snd kv))))) l ->
  has_PPS (SFDItems l)
    (join_chars sepc (map (fun kv => repr_chars (fst kv) ++ [":"; " "] ++ repr_chars (snd kv)) (map (fun kv => (erase (fst kv), erase (snd kv))) l)))
    (LD (map (fun kv => (lit_of (fst kv), lit_of (snd kv))) (map (fun kv => (erase (fst kv), erase (snd kv))) l))).
Proof.
  induction l as [|[k x] r IH]; intro H; [exists [], []; constructor|].
  destruct (Forall_inv H) as [[tk [slk Hk]] [tx [slx Hx]]]. cbn [fst snd] in Hk, Hx. specialize (IH (Forall_inv_tail H)).
  destruct r as [|y r']; [eexists _, _; cbn [map join_chars fst snd]; apply S_done; [exact Hk | exact Hx]|].
  destruct IH as [tr [slr Hr]]. eexists _, _.
  set (g := fun kv : pv * pv => repr_chars (fst kv) ++ [":"; " "] ++ repr_chars (snd kv)) in *.
  set (e := fun kv : sv * sv => (erase (fst kv), erase (snd kv))) in *.
  change (join_chars sepc (map g (map e ((k, x) :: y :: r'))))
    with ((repr_chars (erase k) ++ [":"; " "] ++ repr_chars (erase x)) ++ sep_chars SFlat ++ join_chars sepc (map g (map e (y :: r')))).
  cbn [map]. apply S_dcons; [exact Hk | exact Hx | exact Hr].
Qed.
Theorem repr_PPS : forall v, has_PPS (SFV v) (repr_chars (erase v)) (L1 (lit_of (erase v))).
Proof.
  induction v as [t|t|s|t|l IH|l IH|l IH] using sv_ind'; cbn [erase repr_chars lit_of].
  - eexists _, _. apply S_atom.
  - eexists _, _. apply S_neg.
  - eexists _, _. apply S_str1.
  - eexists _, _. apply S_raw.
  - destruct (repr_items_PPS l IH) as [ts [sl H]]. eexists _, _. apply S_list. exact H.
  - destruct (repr_items_PPS l IH) as [ts [sl H]]. eexists _, _.
    replace (match map erase l with [_] => [","] | _ => [] end) with (strail_c l) by (destruct l as [|? [|? ?]]; reflexivity).
    replace (match map erase l with [_] => true | _ => false end) with (tup_flag l) by (destruct l as [|? [|? ?]]; reflexivity).
    apply S_tuple. exact H.
  - destruct (repr_ditems_PPS l IH) as [ts [sl H]]. eexists _, _. apply S_dict. exact H.
Qed.

(* pformat_s_at *)
Lemma cs_strs : forall k chunks, cs (join_strs (nls ++ blanks k) (map repr_str chunks)) = strs_chars k chunks.
Proof.
  intros k. induction chunks as [|c r IH]; [reflexivity|]. destruct r as [|d r']; [reflexivity|].
  change (join_strs (nls ++ blanks k) (map repr_str (c :: d :: r')))
    with (repr_str c ++ (nls ++ blanks k) ++ join_strs (nls ++ blanks k) (map repr_str (d :: r')))%string.
  rewrite !cs_app, IH, cs_blanks. reflexivity.
Qed.
Lemma str_PPS : forall w s i a top, has_PPS (SFV (SStr s)) (cs (pprint_str w s i a top)) (L1 (str_lit w s i a top)).
Proof.
  intros w s i a top. unfold pprint_str, str_lit. destruct s as [|c0 s']; [eexists _, _; apply S_str1|].
  fold (str_chunks w (c0 :: s') i a top). pose proof (str_chunks_concat w (c0 :: s') i a top) as Hc.
  set (chunks := str_chunks w (c0 :: s') i a top) in *.
  destruct chunks as [|x [|y r]] eqn:E; [discriminate Hc | eexists _, _; apply S_str1|].
  destruct top.
  - eexists _, _. change ("(" ++ join_strs (nls ++ blanks (S i)) (map repr_str (x :: y :: r)) ++ ")")%string
      with (String "(" (join_strs (nls ++ blanks (S i)) (map repr_str (x :: y :: r)) ++ String ")" EmptyString)).
    rewrite cs_bracket, cs_strs. apply S_paren; [discriminate | exact Hc].
  - eexists _, _. change ("" ++ join_strs (nls ++ blanks i) (map repr_str (x :: y :: r)) ++ "")%string
      with (join_strs (nls ++ blanks i) (map repr_str (x :: y :: r)) ++ "")%string.
    rewrite cs_app, cs_strs. cbn [cs list_ascii_of_string]. rewrite app_nil_r. apply S_strs; [discriminate | exact Hc].
Qed.

Definition PPSall (w : nat) (x : sv) : Prop :=
  forall i a top, has_PPS (SFV x) (cs (pformat_s_at w x i a top)) (L1 (pformat_s_lit_at w x i a top)).
Lemma ps_items_PPS : forall w ind alast l, Forall (PPSall w) l ->
  has_PPS (SFItems l) (cs (ps_items w ind alast l)) (LN (ps_lits w ind alast l)).
Proof.
  intros w ind alast. induction l as [|x r IH]; intro H; [exists [], []; constructor|].
  pose proof (Forall_inv H) as Hx. specialize (IH (Forall_inv_tail H)). destruct r as [|y r'].
  - cbn [ps_items ps_lits]. destruct (Hx ind alast false) as [tx [slx Px]]. eexists _, _. apply S_one. exact Px.
  - destruct IH as [tr [slr Hr]]. destruct (Hx ind 1 false) as [tx [slx Px]]. eexists _, _.
    change (ps_items w ind alast (x :: y :: r')) with (pformat_s_at w x ind 1 false ++ delimnl ind ++ ps_items w ind alast (y :: r'))%string.
    change (ps_lits w ind alast (x :: y :: r')) with (pformat_s_lit_at w x ind 1 false :: ps_lits w ind alast (y :: r')).
    rewrite !cs_app, cs_delimnl. apply S_cons; [exact Px | exact Hr].
Qed.
Lemma ps_ditems_PPS : forall w ind alast l, Forall (fun kv => PPSall w (fst kv) /\ PPSall w (snd kv)) l ->
  has_PPS (SFDItems l) (cs (ps_ditems w ind alast l)) (LD (ps_dlits w ind alast l)).
Proof.
  intros w ind alast. induction l as [|[k x] r IH]; intro H; [exists [], []; constructor|].
  destruct (Forall_inv H) as [_ Hx]. cbn [fst snd] in Hx. specialize (IH (Forall_inv_tail H)).
  destruct (repr_PPS k) as [tk [slk Pk]]. destruct r as [|y r'].
  - cbn [ps_ditems ps_dlits fst snd]. destruct (Hx (ind + String.length (repr_string_s k) + 2) alast false) as [tx [slx Px]]. eexists _, _.
    unfold repr_string_s at 1. rewrite !cs_app, repr_chars_string. apply S_done; [exact Pk | exact Px].
  - destruct IH as [tr [slr Hr]]. destruct (Hx (ind + String.length (repr_string_s k) + 2) 1 false) as [tx [slx Px]]. eexists _, _.
    change (ps_ditems w ind alast ((k, x) :: y :: r'))
      with (repr_string_s k ++ ": " ++ pformat_s_at w x (ind + String.length (repr_string_s k) + 2) 1 false ++ delimnl ind ++
            ps_ditems w ind alast (y :: r'))%string.
    change (ps_dlits w ind alast ((k, x) :: y :: r'))
      with ((lit_of (erase k), pformat_s_lit_at w x (ind + String.length (repr_string_s k) + 2) 1 false) :: ps_dlits w ind alast (y :: r')).
    unfold repr_string_s at 1. rewrite !cs_app, cs_delimnl, repr_chars_string.
    change (cs ": ") with [":"; " "]. rewrite (app_assoc [":"; " "]), (app_assoc (repr_chars (erase k))).
    apply S_dcons; [exact Pk | exact Px | exact Hr].
Qed.

Theorem pformat_s_at_PPS : forall w v, PPSall w v.
Proof.
  intros w. induction v as [t|t|s|t|l IH|l IH|l IH] using sv_ind'; intros i a top.
  - cbn [pformat_s_at pformat_s_lit_at]. destruct (too_wide _ _ _ _); eexists _, _; apply S_atom.
  - cbn [pformat_s_at pformat_s_lit_at]. destruct (too_wide _ _ _ _); eexists _, _; apply S_neg.
  - cbn [pformat_s_at pformat_s_lit_at]. destruct (too_wide _ _ _ _); [apply str_PPS | eexists _, _; apply S_str1].
  - cbn [pformat_s_at pformat_s_lit_at]. destruct (too_wide _ _ _ _); eexists _, _; apply S_raw.
  - rewrite pformat_s_at_SList, lit_at_SList. destruct (too_wide _ _ _ _); [|unfold repr_string_s; rewrite repr_chars_string; apply repr_PPS].
    destruct (ps_items_PPS w (S i) (S a) l IH) as [ts [sl H]]. eexists _, _.
    change ("[" ++ ps_items w (S i) (S a) l ++ "]")%string with (String "[" (ps_items w (S i) (S a) l ++ String "]" EmptyString)).
    rewrite cs_bracket. apply S_list. exact H.
  - rewrite pformat_s_at_STuple, lit_at_STuple. destruct (too_wide _ _ _ _); [|unfold repr_string_s; rewrite repr_chars_string; apply repr_PPS].
    destruct (ps_items_PPS w (S i) (a + tup_end l) l IH) as [ts [sl H]]. eexists _, _.
    set (X := ps_items w (S i) (a + tup_end l) l) in *.
    replace (cs ("(" ++ X ++ tup_tr l ++ ")")) with ("(" :: (cs X ++ strail_c l) ++ [")"]).
    + apply (S_tuple l). exact H.
    + cbn [String.append cs list_ascii_of_string]. f_equal. fold (cs (X ++ tup_tr l ++ ")")).
      rewrite !cs_app. destruct l as [|? [|? ?]]; cbn [strail_c tup_tr]; rewrite <- ?app_assoc; reflexivity.
  - rewrite pformat_s_at_SDict, lit_at_SDict. destruct (too_wide _ _ _ _); [|unfold repr_string_s; rewrite repr_chars_string; apply repr_PPS].
    destruct (ps_ditems_PPS w (S i) (S a) l IH) as [ts [sl H]]. eexists _, _.
    change ("{" ++ ps_ditems w (S i) (S a) l ++ "}")%string with (String "{" (ps_ditems w (S i) (S a) l ++ String "}" EmptyString)).
    rewrite cs_bracket. apply S_dict. exact H.
Qed.

(* ================================================================== *)
(* 3. lexing, rendering, meaning *)
Definition ascii_str (s : list N) : Prop := Forall (fun c => (c < 128)%N) s.
Fixpoint sv_atoms (v : sv) : list token :=
  match v with
  | SAtom t | SNeg t | SRaw t => [t]
  | SStr _ => []
  | SList l | STuple l => flat_map sv_atoms l
  | SDict l => flat_map (fun kv => sv_atoms (fst kv) ++ sv_atoms (snd kv)) l
  end.
Fixpoint sv_strs (v : sv) : list (list N) :=
  match v with
  | SAtom _ | SNeg _ | SRaw _ => []
  | SStr s => [s]
  | SList l | STuple l => flat_map sv_strs l
  | SDict l => flat_map (fun kv => sv_strs (fst kv) ++ sv_strs (snd kv)) l
  end.
Fixpoint svd (v : sv) : nat :=
  match v with
  | SAtom _ | SNeg _ | SRaw _ | SStr _ => 0
  | SList l | STuple l => S (list_max (map svd l))
  | SDict l => S (list_max (map (fun kv => Nat.max (svd (fst kv)) (svd (snd kv))) l))
  end.
Definition sf_atoms (f : sfrag) : list token :=
  match f with SFV v => sv_atoms v | SFItems l => flat_map sv_atoms l
             | SFDItems l => flat_map (fun kv => sv_atoms (fst kv) ++ sv_atoms (snd kv)) l end.
Definition sf_strs (f : sfrag) : list (list N) :=
  match f with SFV v => sv_strs v | SFItems l => flat_map sv_strs l
             | SFDItems l => flat_map (fun kv => sv_strs (fst kv) ++ sv_strs (snd kv)) l end.
Definition sf_ne (f : sfrag) : Prop := match f with SFV _ => True | SFItems l => l <> [] | SFDItems l => l <> [] end.
Definition sf_depth (f : sfrag) : nat :=
  match f with
  | SFV v => svd v
  | SFItems l => list_max (map svd l)
  | SFDItems l => list_max (map (fun kv => Nat.max (svd (fst kv)) (svd (snd kv))) l)
  end.
Definition sf_ok (f : sfrag) : Prop := Forall atom_scans (sf_atoms f) /\ Forall ascii_str (sf_strs f).

Lemma Forall_concat_inv : forall (A : Type) (P : A -> Prop) l, Forall P (List.concat l) -> Forall (Forall P) l.
Proof. intros A P l. induction l as [|x r IH]; intro H; [constructor|]. cbn [List.concat] in H. apply Forall_app in H. constructor; tauto. Qed.
Lemma chunk_scans : forall c, ascii_str c -> atom_scans (str_tok c).
Proof. intros c H. exact (repr_str_atom_scans ascii_printable c H). Qed.
Lemma chunk_first : forall c, ascii_str c -> exists c0 r0, cs (repr_str c) = c0 :: r0 /\ bol_plain c0 = true.
Proof. intros c H. destruct (chunk_scans c H) as [c0 [r0 [E [Ha _]]]]. exists c0, r0. split; [exact E | exact (atom_start_bol _ _ Ha)]. Qed.
Lemma strs_first : forall k chunks, chunks <> [] -> Forall ascii_str chunks -> exists c0 r0, strs_chars k chunks = c0 :: r0 /\ bol_plain c0 = true.
Proof.
  intros k [|c r] Hne H; [congruence|]. destruct (chunk_first c (Forall_inv H)) as [c0 [r0 [E Hb]]]. cbn [strs_chars].
  destruct r; rewrite E; cbn [app]; eexists _, _; split; try reflexivity; exact Hb.
Qed.

Lemma PPS_items_nil : forall c ts sl L, PPS (SFItems []) c ts sl L -> c = [] /\ ts = [] /\ sl = [].
Proof. intros c ts sl L H. inversion H. auto. Qed.
Lemma PPS_ditems_nil : forall c ts sl L, PPS (SFDItems []) c ts sl L -> c = [] /\ ts = [] /\ sl = [].
Proof. intros c ts sl L H. inversion H. auto. Qed.

Lemma ok_atom : forall t, sf_ok (SFV (SAtom t)) -> atom_scans t. Proof. intros t [H _]. exact (Forall_inv H). Qed.
Lemma ok_neg : forall t, sf_ok (SFV (SNeg t)) -> atom_scans t. Proof. intros t [H _]. exact (Forall_inv H). Qed.
Lemma ok_raw : forall t, sf_ok (SFV (SRaw t)) -> atom_scans t. Proof. intros t [H _]. exact (Forall_inv H). Qed.
Lemma ok_str : forall s, sf_ok (SFV (SStr s)) -> ascii_str s. Proof. intros s [_ H]. exact (Forall_inv H). Qed.
Lemma ok_cons : forall x r, sf_ok (SFItems (x :: r)) -> sf_ok (SFV x) /\ sf_ok (SFItems r).
Proof. intros x r [H1 H2]. cbn [sf_atoms sf_strs flat_map] in *. apply Forall_app in H1, H2. unfold sf_ok. cbn [sf_atoms sf_strs]. tauto. Qed.
Lemma ok_dcons : forall k x r, sf_ok (SFDItems ((k, x) :: r)) -> sf_ok (SFV k) /\ sf_ok (SFV x) /\ sf_ok (SFDItems r).
Proof.
  intros k x r [H1 H2]. cbn [sf_atoms sf_strs flat_map fst snd] in *. apply Forall_app in H1, H2. destruct H1 as [H1 H1'], H2 as [H2 H2'].
  apply Forall_app in H1, H2. unfold sf_ok. cbn [sf_atoms sf_strs]. tauto.
Qed.
Lemma chunks_ascii : forall s chunks, List.concat chunks = s -> ascii_str s -> Forall ascii_str chunks.
Proof. intros s chunks E H. apply Forall_concat_inv. rewrite E. exact H. Qed.

Theorem PPS_first : forall f c ts sl L, PPS f c ts sl L -> sf_ok f -> sf_ne f -> exists c0 r0, c = c0 :: r0 /\ bol_plain c0 = true.
Proof.
  intros f c ts sl L H. induction H; intros Hok Hne; cbn [sf_ne] in Hne;
    try (eexists _, _; split; [reflexivity | reflexivity]); try congruence.
  - destruct (ok_atom t Hok) as [c [r [EX [Ha _]]]]. exists c, r. split; [exact EX | exact (atom_start_bol _ _ Ha)].
  - destruct (ok_raw t Hok) as [c [r [EX [Ha _]]]]. exists c, r. split; [exact EX | exact (atom_start_bol _ _ Ha)].
  - apply strs_first; [assumption|]. exact (chunks_ascii s chunks H0 (ok_str s Hok)).
  - exact (IHPPS (proj1 (ok_cons _ _ Hok)) I).
  - destruct (IHPPS1 (proj1 (ok_cons _ _ Hok)) I) as [c0 [r0 [-> Hc]]]. eexists _, _. split; [reflexivity | exact Hc].
  - destruct (IHPPS1 (proj1 (ok_dcons _ _ _ Hok)) I) as [c0 [r0 [-> Hc]]]. eexists _, _. split; [reflexivity | exact Hc].
  - destruct (IHPPS1 (proj1 (ok_dcons _ _ _ Hok)) I) as [c0 [r0 [-> Hc]]]. eexists _, _. split; [reflexivity | exact Hc].
Qed.

(* adjacent literals, one per line, inside brackets *)
Lemma lexes_in_strs : forall k chunks, chunks <> [] -> Forall ascii_str chunks -> lexes_in (strs_chars k chunks) (strs_toks chunks) 0.
Proof.
  intros k. induction chunks as [|c r IH]; intros Hne H; [congruence|]. pose proof (lexes_atom _ (chunk_scans c (Forall_inv H))) as Hc.
  destruct r as [|d r']; [cbn [strs_chars strs_toks]; apply lexes_as_in; exact Hc|].
  specialize (IH ltac:(discriminate) (Forall_inv_tail H)).
  destruct (strs_first k (d :: r') ltac:(discriminate) (Forall_inv_tail H)) as [c0 [r0 [E0 Hb0]]].
  change (strs_chars k (c :: d :: r')) with (cs (repr_str c) ++ nl :: repeat " " k ++ strs_chars k (d :: r')).
  change (strs_toks (c :: d :: r')) with (str_tok c :: nl_tok :: strs_toks (d :: r')).
  intros imp st ws rest Hb Hs Hv Hl Hf.
  destruct (Hc imp st ws (nl :: repeat " " k ++ strs_chars k (d :: r') ++ rest) Hb Hs ltac:(lia) (follows_cons nl _ eq_refl))
    as [t1 [st1 [S1 [Sp1 [B1 [L1' K1]]]]]].
  destruct (steps_break imp st1 k c0 (r0 ++ rest) B1 ltac:(rewrite L1'; lia)) as [tn [stn [Sn [Spn [Bn [Ln Kn]]]]]]; [exact Hb0|].
  destruct (IH imp stn [] rest Bn (Forall_nil _) ltac:(rewrite Ln, L1'; exact Hv) ltac:(rewrite Ln, L1'; exact Hl) Hf) as [t2 [st2 [S2 [Sp2 F2]]]].
  exists (t1 ++ [tn] ++ t2), st2. split; [|split].
  - replace (ws ++ (cs (repr_str c) ++ nl :: repeat " " k ++ strs_chars k (d :: r')) ++ rest)
      with (ws ++ cs (repr_str c) ++ nl :: repeat " " k ++ strs_chars k (d :: r') ++ rest) by (rewrite <- !app_assoc; cbn [app]; rewrite <- !app_assoc; reflexivity).
    eapply Steps_trans; [exact S1|]. eapply Steps_trans; [|exact S2]. rewrite E0. cbn [app]. exact Sn.
  - unfold spell in *. rewrite !map_app, Sp1, Sp2, Spn. reflexivity.
  - apply (same_frame_trans _ st1); [exact (conj B1 (conj L1' K1))|]. apply (same_frame_trans _ stn); [exact (conj Bn (conj Ln Kn)) | exact F2].
Qed.

Definition stop (L : slit) : Prop := match L with L1 (LStrs ts) => List.length ts <= 1 | _ => True end.
Theorem PPS_lex : forall f c ts sl L, PPS f c ts sl L -> sf_ok f ->
  match f with
  | SFV v => lexes_in c ts (S (svd v)) /\ (stop L -> lexes_as c ts (S (svd v)))
  | _ => sf_ne f -> lexes_in c ts (S (sf_depth f))
  end.
Proof.
  intros f c ts sl L H. induction H; intros Hok; cbn [sf_ne sf_depth svd].
  - pose proof (lexes_as_mono _ _ 0 1 (lexes_atom t (ok_atom t Hok)) ltac:(lia)) as X. split; [apply lexes_as_in; exact X | intros _; exact X].
  - pose proof (lexes_as_mono _ _ 0 1 (lexes_neg t (ok_neg t Hok)) ltac:(lia)) as X. split; [apply lexes_as_in; exact X | intros _; exact X].
  - pose proof (lexes_as_mono _ _ 0 1 (lexes_atom t (ok_raw t Hok)) ltac:(lia)) as X. split; [apply lexes_as_in; exact X | intros _; exact X].
  - pose proof (chunks_ascii s chunks H0 (ok_str s Hok)) as Hch.
    split; [apply (lexes_in_mono _ _ 0); [exact (lexes_in_strs k chunks H Hch) | lia]|].
    cbn [stop]. rewrite map_length. intro Hl. destruct chunks as [|c [|d r]]; [congruence | | cbn in Hl; lia].
    cbn [strs_chars strs_toks]. apply (lexes_as_mono _ _ 0); [exact (lexes_atom _ (chunk_scans c (Forall_inv Hch))) | lia].
  - pose proof (chunks_ascii s chunks H0 (ok_str s Hok)) as Hch.
    assert (X : lexes_as ("(" :: strs_chars k chunks ++ [")"]) (op_tok "(" :: strs_toks chunks ++ [op_tok ")"]) 1).
    { apply (lexes_brackets_in "(" ")"); try reflexivity. right. exact (lexes_in_strs k chunks H Hch). }
    split; [apply lexes_as_in; exact X | intros _; exact X].
  - assert (X : lexes_as ("[" :: c ++ ["]"]) (op_tok "[" :: ts ++ [op_tok "]"]) (S (S (list_max (map svd l))))).
    { apply (lexes_brackets_in "[" "]"); try reflexivity.
      destruct l as [|x l']; [left; destruct (PPS_items_nil _ _ _ _ H) as [-> [-> _]]; split; reflexivity|].
      right. apply (IHPPS Hok). discriminate. }
    split; [apply lexes_as_in; exact X | intros _; exact X].
  - assert (X : lexes_as ("(" :: (c ++ strail_c l) ++ [")"]) (op_tok "(" :: (ts ++ strail_t l) ++ [op_tok ")"]) (S (S (list_max (map svd l))))).
    { apply (lexes_brackets_in "(" ")"); try reflexivity.
      destruct l as [|x l']; [left; destruct (PPS_items_nil _ _ _ _ H) as [-> [-> _]]; split; reflexivity|].
      right. specialize (IHPPS Hok ltac:(discriminate)). cbn [sf_depth] in IHPPS.
      destruct l' as [|y l'']; cbn [strail_c strail_t]; [apply lexes_in_trailing_comma; exact IHPPS|]. rewrite !app_nil_r. exact IHPPS. }
    split; [apply lexes_as_in; exact X | intros _; exact X].
  - assert (X : lexes_as ("{" :: c ++ ["}"]) (op_tok "{" :: ts ++ [op_tok "}"])
                         (S (S (list_max (map (fun kv => Nat.max (svd (fst kv)) (svd (snd kv))) l))))).
    { apply (lexes_brackets_in "{" "}"); try reflexivity.
      destruct l as [|x l']; [left; destruct (PPS_ditems_nil _ _ _ _ H) as [-> [-> _]]; split; reflexivity|].
      right. apply (IHPPS Hok). discriminate. }
    split; [apply lexes_as_in; exact X | intros _; exact X].
  - intro Hne. congruence.
  - intros _. apply (lexes_in_mono _ _ (S (svd x))); [exact (proj1 (IHPPS (proj1 (ok_cons _ _ Hok))))|]. cbn [map]. rewrite list_max_cons. lia.
  - intros _. destruct (ok_cons _ _ Hok) as [Ox Or].
    change (map svd (x :: y :: r)) with (svd x :: map svd (y :: r)). rewrite list_max_cons.
    apply lexes_in_cons.
    + apply (lexes_in_mono _ _ (S (svd x))); [exact (proj1 (IHPPS1 Ox)) | lia].
    + apply (lexes_in_mono _ _ (S (list_max (map svd (y :: r))))); [apply (IHPPS2 Or); discriminate | lia].
    + apply (PPS_first _ _ _ _ _ H0 Or). discriminate.
  - intro Hne. congruence.
  - intros _. destruct (ok_dcons _ _ _ Hok) as [Ok [Ox _]]. cbn [map fst snd]. rewrite list_max_cons. apply lexes_in_item.
    + apply (lexes_in_mono _ _ (S (svd k))); [exact (proj1 (IHPPS1 Ok)) | lia].
    + apply (lexes_in_mono _ _ (S (svd x))); [exact (proj1 (IHPPS2 Ox)) | lia].
  - intros _. destruct (ok_dcons _ _ _ Hok) as [Ok [Ox Or]].
    set (g := fun kv : sv * sv => Nat.max (svd (fst kv)) (svd (snd kv))).
    change (map g ((k, x) :: y :: r)) with (Nat.max (svd k) (svd x) :: map g (y :: r)). rewrite list_max_cons.
    apply lexes_in_cons.
    + apply lexes_in_item.
      * apply (lexes_in_mono _ _ (S (svd k))); [exact (proj1 (IHPPS1 Ok)) | lia].
      * apply (lexes_in_mono _ _ (S (svd x))); [exact (proj1 (IHPPS2 Ox)) | lia].
    + apply (lexes_in_mono _ _ (S (list_max (map g (y :: r))))); [apply (IHPPS3 Or); discriminate | lia].
    + apply (PPS_first _ _ _ _ _ H1 Or). discriminate.
Qed.

(* rendering *)
Lemma render_strs_slots : forall lay chunks n, chunks <> [] -> window lay n (strs_slots chunks) ->
  render_strs lay (map str_tok chunks) n = (strs_toks chunks, n + List.length (strs_slots chunks)).
Proof.
  intros lay. induction chunks as [|c r IH]; intros n Hne Hw; [congruence|]. destruct r as [|d r'].
  - cbn [map render_strs strs_toks strs_slots List.length] in *. apply window_one in Hw. rewrite Hw. apply pair_eq; [reflexivity | lia].
  - change (strs_slots (c :: d :: r')) with ([nl_tok] :: strs_slots (d :: r')) in *. apply window_cons in Hw. destruct Hw as [E Hw].
    change (render_strs lay (map str_tok (c :: d :: r')) n)
      with (let '(rest, n') := render_strs lay (map str_tok (d :: r')) (S n) in (str_tok c :: lay n ++ rest, n')).
    rewrite (IH (S n) ltac:(discriminate) Hw), E. apply pair_eq; [reflexivity | cbn [List.length]; lia].
Qed.
Definition QSrender (f : sfrag) (ts : list token) (sl : list (list token)) (L : slit) : Prop :=
  forall lay n, window lay n sl ->
  match f, L with
  | SFV _, L1 l => forall inside, (inside = false -> stop L) -> render l lay n inside = (ts, n + List.length sl)
  | SFItems l0, LN ls => forall trailing, render_items lay trailing ls n = (ts ++ trail_if trailing l0, n + List.length sl)
  | SFDItems l0, LD ls => forall trailing, render_ditems lay trailing ls n = (ts ++ trail_if trailing l0, n + List.length sl)
  | _, _ => True
  end.
Theorem PPS_render : forall f c ts sl L, PPS f c ts sl L -> QSrender f ts sl L.
Proof.
  intros f c ts sl L H. induction H; unfold QSrender in *; intros lay n Hw.
  - intros inside _. apply window_cons in Hw. destruct Hw as [E1 Hw]. apply window_one in Hw.
    cbn [render]. rewrite Hw. apply pair_eq; [destruct inside; reflexivity | cbn [List.length]; lia].
  - intros inside _. apply window_cons in Hw. destruct Hw as [E1 Hw]. apply window_one in Hw.
    cbn [render]. rewrite E1, Hw. apply pair_eq; [destruct inside; reflexivity | cbn [List.length]; lia].
  - intros inside _. apply window_one in Hw. cbn [render]. rewrite Hw. apply pair_eq; [destruct inside; reflexivity | cbn [List.length]; lia].
  - intros inside Hst. rewrite render_LStrs. destruct inside.
    + exact (render_strs_slots lay chunks n H Hw).
    + specialize (Hst eq_refl). cbn [stop] in Hst. rewrite map_length in Hst. destruct chunks as [|c [|d r]]; [congruence | | cbn in Hst; lia].
      cbn [map render_strs strs_toks strs_slots List.length]. apply pair_eq; [reflexivity | lia].
  - intros inside _. apply window_cons in Hw. destruct Hw as [E1 Hw]. apply window_app in Hw. destruct Hw as [Hw E2]. apply window_one in E2.
    rewrite render_LParen, render_LStrs, (render_strs_slots (fun k => if true then lay k else []) chunks (S n) H Hw), E1, E2.
    apply pair_eq; [cbn [app]; destruct inside; reflexivity | len].
  - intros inside _. apply window_cons in Hw. destruct Hw as [E1 Hw]. apply window_app in Hw. destruct Hw as [Hw E2]. apply window_one in E2.
    rewrite render_LList, (IHPPS lay (S n) Hw false), E1, E2.
    apply pair_eq; [unfold trail_if; rewrite app_nil_r; cbn [app]; destruct inside; reflexivity | len].
  - intros inside _. apply window_cons in Hw. destruct Hw as [E1 Hw]. apply window_app in Hw. destruct Hw as [Hw E2]. apply window_one in E2.
    rewrite render_LTuple, (IHPPS lay (S n) Hw _), E1, E2. apply pair_eq.
    + replace (trail_if (tup_flag l) l) with (strail_t l) by (destruct l as [|? [|? ?]]; reflexivity). cbn [app]. destruct inside; reflexivity.
    + len.
  - intros inside _. apply window_cons in Hw. destruct Hw as [E1 Hw]. apply window_app in Hw. destruct Hw as [Hw E2]. apply window_one in E2.
    rewrite render_LDict, (IHPPS lay (S n) Hw false), E1, E2.
    apply pair_eq; [unfold trail_if; rewrite app_nil_r; cbn [app]; destruct inside; reflexivity | len].
  - intro trailing. cbn [render_items]. unfold trail_if. destruct trailing; rewrite Nat.add_0_r; reflexivity.
  - intro trailing. apply window_app in Hw. destruct Hw as [Hw E2]. apply window_one in E2.
    cbn [render_items]. rewrite (IHPPS lay n Hw true ltac:(discriminate)), E2.
    apply pair_eq; [unfold trail_if; destruct trailing; reflexivity | len].
  - intro trailing. apply window_app in Hw. destruct Hw as [Hw1 Hw]. apply window_cons in Hw. destruct Hw as [E Hw2].
    destruct Lr as [|Ly Lr']; [exfalso; inversion H0|].
    rewrite render_items_cons2, (IHPPS1 lay n Hw1 true ltac:(discriminate)), (IHPPS2 lay (S (n + List.length slx)) Hw2 trailing), E.
    apply pair_eq; [unfold trail_if; rewrite <- !app_assoc; reflexivity | len].
  - intro trailing. cbn [render_ditems]. unfold trail_if. destruct trailing; rewrite Nat.add_0_r; reflexivity.
  - intro trailing. apply window_app in Hw. destruct Hw as [Hw1 Hw]. apply window_cons in Hw. destruct Hw as [E1 Hw].
    apply window_app in Hw. destruct Hw as [Hw2 E2]. apply window_one in E2. cbn [render_ditems].
    rewrite (IHPPS1 lay n Hw1 true ltac:(discriminate)), E1, (IHPPS2 lay (S (n + List.length slk)) Hw2 true ltac:(discriminate)), E2.
    apply pair_eq; [unfold trail_if; cbn [app]; rewrite <- !app_assoc; destruct trailing; reflexivity | len].
  - intro trailing. apply window_app in Hw. destruct Hw as [Hw1 Hw]. apply window_cons in Hw. destruct Hw as [E1 Hw].
    apply window_app in Hw. destruct Hw as [Hw2 Hw]. apply window_cons in Hw. destruct Hw as [E2 Hw3].
    destruct Lr as [|Ly Lr']; [exfalso; inversion H1|].
    rewrite render_ditems_cons2, (IHPPS1 lay n Hw1 true ltac:(discriminate)), E1, (IHPPS2 lay (S (n + List.length slk)) Hw2 true ltac:(discriminate)).
    rewrite (IHPPS3 lay (S (S (n + List.length slk) + List.length slx)) Hw3 trailing), E2.
    apply pair_eq; [unfold trail_if; repeat (progress (rewrite <- ?app_assoc; cbn [app])); reflexivity | len].
Qed.

Theorem PPS_slots : forall f c ts sl L, PPS f c ts sl L -> Forall slot_ok sl.
Proof.
  assert (Hs : forall s, slot_ok (sep_slot s)) by (intros [|k]; [left | right]; reflexivity).
  assert (H0 : slot_ok []) by (left; reflexivity).
  assert (Hst : forall chunks, Forall slot_ok (strs_slots chunks)).
  { induction chunks as [|c r IH]; [constructor|]. destruct r; [repeat constructor; exact H0|]. constructor; [right; reflexivity | exact IH]. }
  intros f c ts sl L H. induction H; repeat ((apply Forall_app; split) || apply Forall_cons || apply Forall_nil); auto.
Qed.
Definition sf_okP (P : token -> Prop) (f : sfrag) : Prop := Forall P (sf_atoms f) /\ Forall ascii_str (sf_strs f).
Lemma okP_cons : forall P x r, sf_okP P (SFItems (x :: r)) -> sf_okP P (SFV x) /\ sf_okP P (SFItems r).
Proof. intros P x r [H1 H2]. cbn [sf_atoms sf_strs flat_map] in *. apply Forall_app in H1, H2. unfold sf_okP. cbn [sf_atoms sf_strs]. tauto. Qed.
Lemma okP_dcons : forall P k x r, sf_okP P (SFDItems ((k, x) :: r)) -> sf_okP P (SFV k) /\ sf_okP P (SFV x) /\ sf_okP P (SFDItems r).
Proof.
  intros P k x r [H1 H2]. cbn [sf_atoms sf_strs flat_map fst snd] in *. apply Forall_app in H1, H2. destruct H1 as [H1 H1'], H2 as [H2 H2'].
  apply Forall_app in H1, H2. unfold sf_okP. cbn [sf_atoms sf_strs]. tauto.
Qed.
Theorem PPS_toks_Forall : forall (P : token -> Prop), (forall s, punct s -> P (op_tok s)) -> P nl_tok ->
  (forall chunk, ascii_str chunk -> P (str_tok chunk)) ->
  forall f c ts sl L, PPS f c ts sl L -> sf_okP P f -> Forall P ts.
Proof.
  intros P HP Hnl Hch.
  assert (P1 : P (op_tok "[")) by (apply HP; unfold punct; cbn; tauto). assert (P2 : P (op_tok "]")) by (apply HP; unfold punct; cbn; tauto).
  assert (P3 : P (op_tok "(")) by (apply HP; unfold punct; cbn; tauto). assert (P4 : P (op_tok ")")) by (apply HP; unfold punct; cbn; tauto).
  assert (P5 : P (op_tok "{")) by (apply HP; unfold punct; cbn; tauto). assert (P6 : P (op_tok "}")) by (apply HP; unfold punct; cbn; tauto).
  assert (P7 : P (op_tok ",")) by (apply HP; unfold punct; cbn; tauto). assert (P8 : P (op_tok ":")) by (apply HP; unfold punct; cbn; tauto).
  assert (P9 : P (op_tok "-")) by (apply HP; unfold punct; cbn; tauto).
  assert (Hs : forall s, Forall P (sep_slot s)) by (intros [|k]; cbn [sep_slot]; repeat constructor; exact Hnl).
  assert (Hst : forall chunks, Forall ascii_str chunks -> Forall P (strs_toks chunks)).
  { induction chunks as [|x r IH]; intro H; [constructor|]. destruct r; [repeat constructor; apply Hch; exact (Forall_inv H)|].
    constructor; [apply Hch; exact (Forall_inv H)|]. constructor; [exact Hnl | exact (IH (Forall_inv_tail H))]. }
  intros f c ts sl L H. induction H; intro Hok.
  - constructor; [exact (Forall_inv (proj1 Hok)) | constructor].
  - constructor; [exact P9|]. constructor; [exact (Forall_inv (proj1 Hok)) | constructor].
  - constructor; [exact (Forall_inv (proj1 Hok)) | constructor].
  - apply Hst. exact (chunks_ascii s chunks H0 (Forall_inv (proj2 Hok))).
  - constructor; [exact P3|]. apply Forall_app. split; [|repeat constructor; exact P4]. apply Hst. exact (chunks_ascii s chunks H0 (Forall_inv (proj2 Hok))).
  - constructor; [exact P1|]. apply Forall_app. split; [exact (IHPPS Hok) | repeat constructor; exact P2].
  - constructor; [exact P3|]. apply Forall_app. split; [|repeat constructor; exact P4]. apply Forall_app. split; [exact (IHPPS Hok)|].
    destruct l as [|? [|? ?]]; cbn [strail_t]; repeat constructor; exact P7.
  - constructor; [exact P5|]. apply Forall_app. split; [exact (IHPPS Hok) | repeat constructor; exact P6].
  - constructor.
  - exact (IHPPS (proj1 (okP_cons _ _ _ Hok))).
  - destruct (okP_cons _ _ _ Hok) as [Ox Or]. apply Forall_app. split; [exact (IHPPS1 Ox)|]. constructor; [exact P7|].
    apply Forall_app. split; [apply Hs | exact (IHPPS2 Or)].
  - constructor.
  - destruct (okP_dcons _ _ _ _ Hok) as [Ok [Ox _]]. apply Forall_app. split; [exact (IHPPS1 Ok)|]. constructor; [exact P8 | exact (IHPPS2 Ox)].
  - destruct (okP_dcons _ _ _ _ Hok) as [Ok [Ox Or]]. apply Forall_app. split.
    + apply Forall_app. split; [exact (IHPPS1 Ok)|]. constructor; [exact P8 | exact (IHPPS2 Ox)].
    + constructor; [exact P7|]. apply Forall_app. split; [apply Hs | exact (IHPPS3 Or)].
Qed.
Theorem PPS_last : forall v c ts sl L, PPS (SFV v) c ts sl L -> sf_ok (SFV v) -> exists a x, c = a ++ [x] /\ x <> nl.
Proof.
  assert (Hatom : forall t, atom_scans t -> exists a x, cs (text t) = a ++ [x] /\ x <> nl).
  { intros t Ht. destruct (atom_scans_lexeme t Ht) as [Hl _].
    pose proof (lexeme_nonempty _ _ Hl) as Hne. pose proof (lexeme_not_nl_last _ _ Hl) as Hn.
    destruct (cs (text t)) as [|y X _] using rev_ind; [congruence|]. exists X, y. split; [reflexivity|]. intros ->. exact (Hn X eq_refl). }
  assert (Hstr : forall k chunks, chunks <> [] -> Forall ascii_str chunks -> exists a x, strs_chars k chunks = a ++ [x] /\ x <> nl).
  { intros k. induction chunks as [|c r IH]; intros Hne H; [congruence|]. destruct r as [|d r'].
    - cbn [strs_chars]. exact (Hatom (str_tok c) (chunk_scans c (Forall_inv H))).
    - destruct (IH ltac:(discriminate) (Forall_inv_tail H)) as [a [x [E Hx]]].
      change (strs_chars k (c :: d :: r')) with (cs (repr_str c) ++ nl :: repeat " " k ++ strs_chars k (d :: r')). rewrite E.
      exists (cs (repr_str c) ++ nl :: repeat " " k ++ a), x. split; [|exact Hx]. rewrite <- !app_assoc. cbn [app]. rewrite <- !app_assoc. reflexivity. }
  intros v c ts sl L H Hok. inversion H; subst.
  - exact (Hatom t (ok_atom t Hok)).
  - destruct (Hatom t (ok_neg t Hok)) as [a [x [E Hx]]]. exists ("-"%char :: a), x. rewrite E. auto.
  - exact (Hatom t (ok_raw t Hok)).
  - apply Hstr; [assumption|]. exact (chunks_ascii _ chunks eq_refl (ok_str _ Hok)).
  - eexists ("("%char :: _), ")"%char. split; [reflexivity | discriminate].
  - exists ("["%char :: c0), "]"%char. split; [reflexivity | discriminate].
  - eexists ("("%char :: _), ")"%char. split; [reflexivity | discriminate].
  - exists ("{"%char :: c0), "}"%char. split; [reflexivity | discriminate].
Qed.

(* meaning: the literal tree of the layout denotes what the literal tree of repr denotes *)
Lemma ascii_code : forall c, (c < 128)%N -> (c <= 0x10FFFF)%N /\ (is_surrogate c = true -> ascii_printable c = false).
Proof.
  intros c H. split; [lia|]. intro E. unfold is_surrogate in E. apply andb_true_iff in E. destruct E as [E _]. apply N.leb_le in E. lia.
Qed.
Lemma run_text_chunks : forall chunks, run_text (map (py_repr_str ascii_printable) chunks) = strs_text (map str_tok chunks).
Proof. intro chunks. unfold run_text. rewrite map_map. reflexivity. Qed.
Lemma prefixes_full : forall (A : Type) (l : list A), l <> [] -> In l (prefixes_ne l).
Proof.
  intros A. induction l as [|x r IH]; intro H; [congruence|]. cbn [prefixes_ne]. destruct r as [|y r']; [left; reflexivity|].
  right. apply in_map. apply IH. discriminate.
Qed.
Lemma strs_eval : forall o strv s chunks x, oracle_agrees_with_decode o strv -> ascii_str s -> chunks <> [] -> List.concat chunks = s ->
  lit_wf o (LStrs (map str_tok chunks)) -> py_eval o (LStrs [str_tok s]) = Some x -> py_eval o (LStrs (map str_tok chunks)) = Some x.
Proof.
  intros o strv s chunks x Hag Hs Hne Hc Hwf Hx.
  pose proof (chunks_ascii s chunks Hc Hs) as Hch.
  assert (Hdec : forall ps, ps <> [] -> Forall ascii_str ps -> decode_str_literals (map (py_repr_str ascii_printable) ps) = Some (List.concat ps)).
  { intros ps Hp Ha. apply concat_roundtrip; [exact Hp|]. eapply Forall_impl; [|exact Ha]. intros p Hp'. eapply Forall_impl; [|exact Hp']. exact ascii_code. }
  (* the repr side *)
  cbn [py_eval strs_text] in Hx. destruct (olookup o (text (str_tok s))) as [[x0|]|] eqn:E1; try discriminate. injection Hx as ->.
  pose proof (Hag (map (py_repr_str ascii_printable) [s]) s (Some x)) as A1. rewrite (Hdec [s] ltac:(discriminate) ltac:(repeat constructor; exact Hs)) in A1.
  cbn [List.concat] in A1. rewrite app_nil_r in A1. specialize (A1 eq_refl E1). injection A1 as ->.
  (* the split side *)
  destruct Hwf as [_ [_ Hpre]]. rewrite Forall_forall in Hpre.
  destruct (Hpre _ (prefixes_full _ (map str_tok chunks) ltac:(destruct chunks; [congruence | discriminate]))) as [y Hy].
  cbn [py_eval]. rewrite Hy. f_equal.
  pose proof (Hag (map (py_repr_str ascii_printable) chunks) s (Some y)) as A2. rewrite (Hdec chunks Hne Hch), Hc, run_text_chunks in A2.
  specialize (A2 eq_refl Hy). injection A2 as ->. reflexivity.
Qed.

Definition pair_erase (kv : sv * sv) : pv * pv := (erase (fst kv), erase (snd kv)).
Definition QSeval (o : oracle) (f : sfrag) (L : slit) : Prop :=
  match f, L with
  | SFV v, L1 l => lit_wf o l -> forall x, py_eval o (lit_of (erase v)) = Some x -> py_eval o l = Some x
  | SFItems l0, LN ls => Forall (lit_wf o) ls -> forall xs, eval_items o (map lit_of (map erase l0)) = Some xs -> eval_items o ls = Some xs
  | SFDItems l0, LD ls => Forall (fun kv => lit_wf o (fst kv) /\ lit_wf o (snd kv)) ls ->
      forall xs, eval_ditems o (map ditem_lit (map pair_erase l0)) = Some xs -> eval_ditems o ls = Some xs
  | _, _ => True
  end.
Theorem PPS_eval : forall o strv, oracle_agrees_with_decode o strv ->
  forall f c ts sl L, PPS f c ts sl L -> Forall ascii_str (sf_strs f) -> QSeval o f L.
Proof.
  intros o strv Hag f c ts sl L H. induction H; intro Hst; unfold QSeval in *.
  - intros _ x Hx. exact Hx.
  - intros _ x Hx. exact Hx.
  - intros _ x Hx. exact Hx.
  - intros Hwf x Hx. exact (strs_eval o strv s chunks x Hag (Forall_inv Hst) H H0 Hwf Hx).
  - intros Hwf x Hx. cbn [py_eval]. cbn [lit_wf] in Hwf. exact (strs_eval o strv s chunks x Hag (Forall_inv Hst) H H0 Hwf Hx).
  - intros Hwf x Hx. cbn [erase lit_of] in Hx. rewrite py_eval_LList in *.
    destruct (eval_items o (map lit_of (map erase l))) as [xs|] eqn:E; [|discriminate]. rewrite (IHPPS Hst (lit_wf_LList _ _ _ Hwf) xs eq_refl). exact Hx.
  - intros Hwf x Hx. cbn [erase lit_of] in Hx. rewrite py_eval_LTuple in *.
    destruct (eval_items o (map lit_of (map erase l))) as [xs|] eqn:E; [|discriminate].
    rewrite (IHPPS Hst (proj2 (lit_wf_LTuple _ _ _ Hwf)) xs eq_refl). exact Hx.
  - intros Hwf x Hx. cbn [erase lit_of] in Hx. change (map (fun kv : pv * pv => (lit_of (fst kv), lit_of (snd kv)))) with (map ditem_lit) in Hx.
    change (map (fun kv : sv * sv => (erase (fst kv), erase (snd kv))) l) with (map pair_erase l) in Hx. rewrite py_eval_LDict in *.
    destruct (eval_ditems o (map ditem_lit (map pair_erase l))) as [xs|] eqn:E; [|discriminate].
    rewrite (IHPPS Hst (lit_wf_LDict _ _ _ Hwf) xs eq_refl). exact Hx.
  - intros _ xs Hx. exact Hx.
  - intros Hwf xs Hx. cbn [map eval_items] in *. cbn [sf_strs flat_map] in Hst. rewrite app_nil_r in Hst.
    destruct (py_eval o (lit_of (erase x))) as [v|] eqn:E; [|discriminate]. rewrite (IHPPS Hst (Forall_inv Hwf) v eq_refl). exact Hx.
  - intros Hwf xs Hx. cbn [sf_strs flat_map] in Hst. apply Forall_app in Hst. destruct Hst as [Sx Sr].
    change (map lit_of (map erase (x :: y :: r))) with (lit_of (erase x) :: map lit_of (map erase (y :: r))) in Hx. cbn [eval_items] in Hx |- *.
    destruct (py_eval o (lit_of (erase x))) as [v|] eqn:E; [|discriminate].
    destruct (eval_items o (map lit_of (map erase (y :: r)))) as [vs|] eqn:E2; [|discriminate].
    rewrite (IHPPS1 Sx (Forall_inv Hwf) v eq_refl), (IHPPS2 Sr (Forall_inv_tail Hwf) vs eq_refl). exact Hx.
  - intros _ xs Hx. exact Hx.
  - intros Hwf xs Hx. cbn [sf_strs flat_map fst snd] in Hst. rewrite app_nil_r in Hst. apply Forall_app in Hst. destruct Hst as [Sk Sx].
    cbn [map eval_ditems pair_erase ditem_lit fst snd] in *. destruct (Forall_inv Hwf) as [Wk Wx]. cbn [fst snd] in Wk, Wx.
    destruct (py_eval o (lit_of (erase k))) as [a|] eqn:E1; [|discriminate]. destruct (py_eval o (lit_of (erase x))) as [b|] eqn:E2; [|discriminate].
    rewrite (IHPPS1 Sk Wk a eq_refl), (IHPPS2 Sx Wx b eq_refl). exact Hx.
  - intros Hwf xs Hx. cbn [sf_strs flat_map fst snd] in Hst. apply Forall_app in Hst. destruct Hst as [Skx Sr]. apply Forall_app in Skx. destruct Skx as [Sk Sx].
    change (map ditem_lit (map pair_erase ((k, x) :: y :: r))) with ((lit_of (erase k), lit_of (erase x)) :: map ditem_lit (map pair_erase (y :: r))) in Hx.
    cbn [eval_ditems] in Hx |- *. destruct (Forall_inv Hwf) as [Wk Wx]. cbn [fst snd] in Wk, Wx.
    destruct (py_eval o (lit_of (erase k))) as [a|] eqn:E1; [|discriminate]. destruct (py_eval o (lit_of (erase x))) as [b|] eqn:E2; [|discriminate].
    destruct (eval_ditems o (map ditem_lit (map pair_erase (y :: r)))) as [vs|] eqn:E3; [|discriminate].
    rewrite (IHPPS1 Sk Wk a eq_refl), (IHPPS2 Sx Wx b eq_refl), (IHPPS3 Sr (Forall_inv_tail Hwf) vs eq_refl). exact Hx.
Qed.

(* ================================================================== *)
(* 4. the statements *)
Lemma top_stop : forall w v i a, stop (L1 (pformat_s_lit_at w v i a true)).
Proof.
  intros w v i a. destruct v as [t|t|s|t|l|l|l].
  - cbn [pformat_s_lit_at]. destruct (too_wide _ _ _ _); exact I.
  - cbn [pformat_s_lit_at]. destruct (too_wide _ _ _ _); exact I.
  - cbn [pformat_s_lit_at]. destruct (too_wide _ _ _ _); [|cbn; lia]. unfold str_lit. destruct s as [|c0 s']; [cbn; lia|].
    destruct (str_chunks w (c0 :: s') i a true) as [|x [|y r]]; cbn; try lia; exact I.
  - cbn [pformat_s_lit_at]. destruct (too_wide _ _ _ _); cbn; lia.
  - rewrite lit_at_SList. destruct (too_wide _ _ _ _); exact I.
  - rewrite lit_at_STuple. destruct (too_wide _ _ _ _); exact I.
  - rewrite lit_at_SDict. destruct (too_wide _ _ _ _); exact I.
Qed.

Open Scope string_scope.
Open Scope list_scope.
(* pformat_s writes a rendering of its literal tree, in a layout of NL tokens *)
Theorem pformat_s_is_rendering : forall w v,
  Forall atom_lexable (sv_atoms v) -> Forall ascii_str (sv_strs v) -> svd v < 200 -> supported (pformat_s w v) = true ->
  exists toks n e lay rtoks n',
    lex (pformat_s w v) = Some (toks ++ [n; e]) /\
    lay_ok lay /\ (forall k, lay k = [] \/ lay k = [nl_tok]) /\ render (pformat_s_lit w v) lay 0 false = (rtoks, n') /\
    map ty toks = map ty rtoks /\ map text toks = map text rtoks /\
    ty n = NEWLINE /\ text n = "" /\ ty e = ENDMARKER /\ text e = "".
Proof.
  intros w v Hat Hst Hd Hs. unfold pformat_s, pformat_s_lit in *.
  assert (Hok : sf_ok (SFV v)) by (split; [eapply Forall_impl; [|exact Hat]; exact atom_lexable_scans | exact Hst]).
  destruct (pformat_s_at_PPS w v 0 0 true) as [ts [sl HPP]].
  destruct (PPS_first _ _ _ _ _ HPP Hok I) as [c0 [r0 [Ec Hc]]]. destruct (PPS_last _ _ _ _ _ HPP Hok) as [a0 [x [Ea Hx]]].
  destruct (lex_chars_lexes _ ts (S (svd v)) c0 r0 a0 x (proj2 (PPS_lex _ _ _ _ _ HPP Hok) (top_stop w v 0 0)) ltac:(unfold MAXLEVEL; lia) Ec Hc Ea Hx)
    as [toks [n [e [E [Sp [H1 [H2 [H3 H4]]]]]]]].
  pose proof (PPS_slots _ _ _ _ _ HPP) as Hsl.
  exists toks, n, e, (lay_of sl), ts, (0 + List.length sl).
  split; [unfold lex; rewrite Hs; unfold lex_raw; fold (cs (pformat_s_at w v 0 0 true)); rewrite E; reflexivity|].
  split; [intro k; apply slot_ok_trivia, lay_of_slot; exact Hsl|]. split; [intro k; exact (lay_of_slot sl Hsl k)|].
  split; [exact (PPS_render _ _ _ _ _ HPP (lay_of sl) 0 (lay_of_window sl) false (fun _ => top_stop w v 0 0))|].
  split; [exact (spell_ty _ _ Sp)|]. split; [exact (spell_text _ _ Sp)|]. repeat split; assumption.
Qed.

(* END TO END for values with long strings: the text pprint writes -- split strings included -- is read back by
   gin.config.parse_value as the value that repr denotes.  [lit_wf o (pformat_s_lit w v)]: the oracle has an answer for
   every text the parser hands to ast.literal_eval (every prefix run of the adjacent literals); [oracle_agrees_with_decode]:
   its answers for runs of str literals are the decoded concatenations *)
Theorem pformat_s_reads_back : forall o strv w v x,
  oracle_agrees_with_decode o strv -> lit_wf o (pformat_s_lit w v) -> denote o (erase v) = Some x ->
  Forall atom_lexable (sv_atoms v) -> Forall ascii_str (sv_strs v) -> svd v < 200 -> supported (pformat_s w v) = true ->
  exists ts, lex (pformat_s w v) = Some ts /\ run_value_api (o, ts) = OT "Value" [x].
Proof.
  intros o strv w v x Hag Hwf Hden Hat Hst Hd Hs. unfold pformat_s, pformat_s_lit, denote in *.
  assert (Hsc : Forall atom_scans (sv_atoms v)) by (eapply Forall_impl; [|exact Hat]; exact atom_lexable_scans).
  assert (Hok : sf_ok (SFV v)) by (split; assumption).
  destruct (pformat_s_at_PPS w v 0 0 true) as [rtoks [sl HPP]]. set (L := pformat_s_lit_at w v 0 0 true) in *.
  destruct (PPS_first _ _ _ _ _ HPP Hok I) as [c0 [r0 [Ec Hc]]]. destruct (PPS_last _ _ _ _ _ HPP Hok) as [a0 [x0 [Ea Hx]]].
  destruct (lex_chars_lexes _ rtoks (S (svd v)) c0 r0 a0 x0 (proj2 (PPS_lex _ _ _ _ _ HPP Hok) (top_stop w v 0 0)) ltac:(unfold MAXLEVEL; lia) Ec Hc Ea Hx)
    as [toks [n [e [E [Sp [H1 [H2 [H3 H4]]]]]]]].
  pose proof (PPS_slots _ _ _ _ _ HPP) as Hsl.
  exists (toks ++ [n; e]). split.
  { unfold lex. rewrite Hs. unfold lex_raw. fold (cs (pformat_s_at w v 0 0 true)). rewrite E. reflexivity. }
  assert (Hall : forall P : token -> Prop, (forall s, punct s -> P (op_tok s)) -> P nl_tok -> (forall t, atom_scans t -> P t) -> Forall P rtoks).
  { intros P Q1 Q2 Q3. apply (PPS_toks_Forall P Q1 Q2 (fun c Hc' => Q3 _ (chunk_scans c Hc')) _ _ _ _ _ HPP).
    split; [eapply Forall_impl; [|exact Hsc]; exact Q3 | exact Hst]. }
  assert (Htok : Forall tok_ok rtoks).
  { apply Hall; [intros s _; apply op_tok_ok | intros [C|[C|C]]; discriminate C | intros t Ht; exact (proj1 (atom_scans_tok_ok t Ht))]. }
  assert (Hns : Forall nosig rtoks).
  { apply Hall; [| split; discriminate | intros t Ht; exact (proj2 (atom_scans_tok_ok t Ht))].
    intros s0 Hp. unfold punct in Hp. cbn [In] in Hp. unfold nosig. cbn [op_tok text]. decompose [or] Hp; try contradiction; subst s0; split; discriminate. }
  assert (Hlay : lay_ok (lay_of sl)) by (intro k; apply slot_ok_trivia, lay_of_slot; exact Hsl).
  pose proof (PPS_render _ _ _ _ _ HPP (lay_of sl) 0 (lay_of_window sl) false (fun _ => top_stop w v 0 0)) as Hr.
  pose proof (PPS_eval o strv Hag _ _ _ _ _ HPP Hst Hwf x Hden) as Hev.
  assert (Hp : parse_single_value o (rtoks ++ [n; e]) = POk x).
  { apply (api_never_another_value o L (lay_of sl) 0 false x rtoks (0 + List.length sl) [] [n] e [] Hlay Hwf Hev Hr Htok).
    - constructor.
    - constructor; [|constructor]. rewrite H1. unfold end_types. cbn. tauto.
    - intros t r E0. injection E0 as <- _. exact H1.
    - exact H3. }
  apply (run_value_api_transfer o (rtoks ++ [n; e])).
  - apply Forall2_app.
    + apply spell_tseq; [symmetry; exact Sp | exact Hns].
    + assert (Hn : teq n n) by (repeat split; rewrite H2; discriminate).
      assert (He : teq e e) by (repeat split; rewrite H4; discriminate).
      constructor; [exact Hn|]. constructor; [exact He | constructor].
  - unfold run_value_api. cbn [fst snd].
    assert (Hset : settle (rtoks ++ [n; e]) = POk (rtoks ++ [n; e])).
    { assert (Hne : Forall (fun t => ty t <> ERRORTOKEN /\ ty t <> TERR) (rtoks ++ [n; e])).
      { apply Forall_app. split.
        - apply Hall; [intros s _; cbn [op_tok ty]; split; discriminate | split; discriminate|].
          intros t Ht. destruct (atom_scans_lexeme t Ht) as [_ Hty]. split; intro E0; rewrite E0 in Hty; decompose [or] Hty; discriminate.
        - repeat constructor; rewrite ?H1, ?H3; discriminate. }
      destruct (rtoks ++ [n; e]) as [|t0 r1] eqn:E0; [destruct rtoks; discriminate|].
      destruct (Forall_inv Hne) as [N1 N2]. cbn [settle]. destruct (ty t0); try reflexivity; congruence. }
    rewrite Hset, Hp. reflexivity.
Qed.

(* non-vacuity of the definedness hypothesis: the witness string of Proofs/PPrintStrProofs.v, split into two parenthesised
   literals; its literal tree is well formed for the oracle with the two run entries *)
From GinV Require Import Proofs.PPrintStrProofs.
Example pps_fox_lit : pformat_s_lit 36 (SStr pps_fox) =
  LParen (LStrs [str_tok (firstn 31 pps_fox); str_tok (skipn 31 pps_fox)]).
Proof. vm_compute. reflexivity. Qed.
Example pps_fox_lit_wf : lit_wf pps_oracle (pformat_s_lit 36 (SStr pps_fox)).
Proof.
  rewrite pps_fox_lit. cbn [lit_wf]. split; [discriminate|]. split; [repeat constructor|].
  cbn [prefixes_ne map]. repeat constructor; eexists; vm_compute; reflexivity.
Qed.
