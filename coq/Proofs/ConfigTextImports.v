(* The import header of config_text_imports (Model/ConfigTextImports.v), from characters:
   1. token level: an import statement on REAL tokens (keyword token with its own positions, canonical name tokens of the
      module, any NAME tokens for  import / as / leaf / alias, any NEWLINE token) is parsed into the SImport of
      C03_import_statement / C03_from_statement
   2. lexing an import line in the four forms
   3. the whole text with its header; the bridge to Serial.config_lines with imports *)
From Coq Require Import List String ZArith Bool Arith Ascii Lia Permutation.
From GinV Require Import Lib.Out Lib.PyStr Model.SelectorMap Model.Parser Model.ParserSpec Model.ParserSpec2 Model.Repr Model.ReprText.
From GinV Require Import Proofs.ParserLemmas Proofs.ParserSmall Proofs.ParserProofs Proofs.ParserSound Proofs.ParserApi.
From GinV Require Import Proofs.ParserSim Proofs.ReprProofs Proofs.StatementProofs.
From GinV Require Import Model.Lexer Proofs.LexerProofs Proofs.LexerParser Proofs.ReprTextProofs.
From GinV Require Import Model.PPrint Proofs.PPrintProofs Model.Serial Model.ConfigText Model.ConfigSerial Model.ConfigTextImports.
From GinV Require Import Proofs.ConfigTextProofs.
Import ListNotations.
Open Scope string_scope. Open Scope list_scope. Open Scope nat_scope.

(* ================================================================== *)
(* 1. token level *)
Lemma parse_selector_kw_real : forall kw kt t r,
  ty kt = NAME -> text kt = kw -> srow kt = erow kt -> selector_format_ok true false kw = true ->
  ty t = NAME -> text t <> "/" -> text t <> "." ->
  parse_selector true false false (kt :: t :: r) = POk (kw, t :: r).
Proof.
  intros kw kt t r Hk1 Hk2 Hk3 Hfmt Hty H1 H2. unfold parse_selector.
  unfold cur_ty. cbn [cur hd]. rewrite Hk1. cbn [ttype_eqb negb].
  cbn [List.length]. rewrite sel_loop_S. cbn [cur hd]. rewrite Hk1. cbn [negb andb orb ttype_eqb]. cbn [advance_one].
  rewrite settle_non_trivia; [| rewrite Hty; discriminate | rewrite Hty; discriminate].
  rewrite sel_loop_S. cbn [cur hd negb andb orb].
  apply String.eqb_neq in H1. apply String.eqb_neq in H2. rewrite H1, H2. cbn [orb app].
  rewrite skip_ws_stop; [| rewrite Hty; reflexivity].
  cbn [contiguous concat_strs]. rewrite Hk3, Nat.eqb_refl, Hk2, append_nil_r, Hfmt. reflexivity.
Qed.

(* the tokens behind the module: nothing, or  as <alias> *)
Definition alias_real (alias : option string) (atoks : list token) : Prop :=
  match alias with
  | None => atoks = []
  | Some a => exists ast alt, atoks = [ast; alt] /\ ty ast = NAME /\ text ast = "as" /\ ty alt = NAME /\ text alt = a /\
                              is_identifier a = true
  end.
Lemma alias_tail_real : forall module isf line alias atoks nlt rest,
  alias_real alias atoks -> ty nlt = NEWLINE -> text nlt <> "as" ->
  (if cur_is (atoks ++ nlt :: rest) "as"
   then match advance_one (atoks ++ nlt :: rest) with
        | PErr e => PErr e
        | POk ts3 => match parse_identifier false ts3 with
                     | PErr e => PErr e
                     | POk (al, ts4) => POk (SImport module isf (Some al) line, ts4)
                     end
        end
   else POk (SImport module isf None line, atoks ++ nlt :: rest))
  = POk (SImport module isf alias line, nlt :: rest).
Proof.
  intros module isf line alias atoks nlt rest Ha Hn1 Hn2. destruct alias as [a|]; cbn [alias_real] in Ha.
  - destruct Ha as [ast [alt [-> [A1 [A2 [A3 [A4 A5]]]]]]]. cbn [app]. rewrite cur_is_cons, A2. cbn [String.eqb Ascii.eqb Bool.eqb]. cbv iota.
    rewrite advance_one_solid; [| unfold solid; rewrite A3; tauto].
    unfold parse_identifier. cbn [cur hd]. rewrite A4, A5. cbn [negb].
    change (alt :: nlt :: rest) with (alt :: [] ++ nlt :: rest).
    rewrite advance_solid; [reflexivity | constructor | unfold solid; rewrite Hn1; tauto].
  - subst atoks. cbn [app]. rewrite cur_is_cons. apply String.eqb_neq in Hn2. rewrite Hn2. reflexivity.
Qed.
Lemma alias_head_real : forall alias atoks nlt rest, alias_real alias atoks -> ty nlt = NEWLINE ->
  exists t r, atoks ++ nlt :: rest = t :: r /\ (ty t = NAME \/ ty t = NEWLINE) /\ (ty t = NAME -> text t = "as").
Proof.
  intros alias atoks nlt rest Ha Hn. destruct alias as [a|]; cbn [alias_real] in Ha.
  - destruct Ha as [ast [alt [-> [A1 [A2 _]]]]]. exists ast, (alt :: nlt :: rest). split; [reflexivity|]. split; [left; exact A1 | intros _; exact A2].
  - subst atoks. exists nlt, rest. split; [reflexivity|]. split; [right; exact Hn | intro E; congruence].
Qed.

(* the tokens between module and alias: nothing ( import ), or  import <leaf>  ( from ) *)
Definition mid_real (isfrom : bool) (leaf : string) (mid : list token) : Prop :=
  if isfrom then exists imt lft, mid = [imt; lft] /\ ty imt = NAME /\ text imt = "import" /\ ty lft = NAME /\ text lft = leaf /\
                                 is_identifier leaf = true
  else mid = [].

Theorem import_step_real : forall o (isfrom : bool) (leaf : string) alias kt row col parts mid atoks nlt lead rest,
  ty kt = NAME -> text kt = (if isfrom then "from" else "import") -> srow kt = row -> erow kt = row ->
  wf_name parts -> selector_format_ok false false (name_text parts) = true ->
  mid_real isfrom leaf mid -> alias_real alias atoks -> ty nlt = NEWLINE -> text nlt <> "as" ->
  text nlt <> "/" -> text nlt <> "." -> Forall lead_tok lead ->
  parse_statement o false (lead ++ (kt :: name_tokens row col parts true ++ mid ++ atoks ++ [nlt]) ++ rest) =
  POk (Some ([SImport (if isfrom then name_text parts ++ "." ++ leaf else name_text parts)%string isfrom alias row], nlt :: rest, true)).
Proof.
  intros o isfrom leaf alias kt row col parts mid atoks nlt lead rest K1 K2 K3 K4 Hname Hfmt Hmid Hal Hn1 Hn2 Hn3 Hn4 Hlead.
  destruct (wf_name_alt _ Hname) as [Hne [_ Halt]].
  set (T := mid ++ atoks ++ nlt :: rest).
  assert (ET : (kt :: name_tokens row col parts true ++ mid ++ atoks ++ [nlt]) ++ rest = kt :: name_tokens row col parts true ++ T).
  { unfold T. cbn [app]. rewrite <- !app_assoc. reflexivity. }
  rewrite ET.
  destruct (name_tokens_head_ident row col parts T Hne Halt) as [t0 [r0 [E0 [Hty0 Hid0]]]].
  destruct (ident_not_special _ Hid0) as [N1 [N2 [N3 [N4 _]]]].
  set (kw := if isfrom then "from" else "import") in *.
  assert (Hkwfmt : selector_format_ok true false kw = true) by (unfold kw; destruct isfrom; reflexivity).
  assert (Hkw : (String.eqb kw "import" || String.eqb kw "from") = true) by (unfold kw; destruct isfrom; reflexivity).
  rewrite (parse_statement_import_core o _ (kt :: name_tokens row col parts true ++ T) kw (name_tokens row col parts true ++ T)
             (SImport (if isfrom then name_text parts ++ "." ++ leaf else name_text parts)%string isfrom alias row) (nlt :: rest)).
  - unfold cur_ty. cbn [cur hd]. rewrite Hn1. reflexivity.
  - apply skip_ws_lead; [exact Hlead | rewrite K1; reflexivity | rewrite K1; discriminate | rewrite K1; discriminate].
  - unfold cur_ty. cbn [cur hd]. rewrite K1. reflexivity.
  - rewrite E0. apply parse_selector_kw_real; try assumption. congruence.
  - rewrite E0, cur_is_cons. apply String.eqb_neq. exact N3.
  - rewrite E0, cur_is_cons. apply String.eqb_neq. exact N4.
  - exact Hkw.
  - cbn [cur hd]. rewrite K3. unfold kw, T. destruct isfrom; cbn [mid_real] in Hmid.
    + destruct Hmid as [imt [lft [-> [M1 [M2 [M3 [M4 M5]]]]]]]. cbn [app].
      destruct (alias_head_real alias atoks nlt rest Hal Hn1) as [t [r [E [Hty Htx]]]].
      rewrite (parse_import_from row _ (name_text parts) (imt :: lft :: atoks ++ nlt :: rest) (lft :: atoks ++ nlt :: rest) leaf (atoks ++ nlt :: rest)).
      * apply alias_tail_real; assumption.
      * apply parse_selector_name_gen; try assumption. exists imt, (lft :: atoks ++ nlt :: rest). split; [reflexivity|].
        rewrite M2, M1. repeat split; discriminate.
      * unfold expect_str. rewrite cur_is_cons, M2. cbn [String.eqb Ascii.eqb Bool.eqb]. cbv iota.
        apply advance_one_solid. unfold solid. rewrite M3. tauto.
      * unfold parse_identifier. cbn [cur hd]. rewrite M4, M5. cbn [negb]. rewrite E.
        change (lft :: t :: r) with (lft :: [] ++ t :: r). rewrite advance_solid; [reflexivity | constructor | unfold solid; tauto].
    + subst mid. cbn [app].
      destruct (alias_head_real alias atoks nlt rest Hal Hn1) as [t [r [E [Hty Htx]]]].
      rewrite (parse_import_import row _ (name_text parts) (atoks ++ nlt :: rest)).
      * apply alias_tail_real; assumption.
      * apply parse_selector_name_gen; try assumption. rewrite E. exists t, r. split; [reflexivity|].
        destruct Hty as [Hty|Hty].
        -- rewrite (Htx Hty), Hty. repeat split; discriminate.
        -- rewrite Hty. assert (text t <> "/" /\ text t <> ".") as [X1 X2].
           { destruct alias; cbn [alias_real] in Hal; [destruct Hal as [ast [alt [-> [A1 _]]]]; cbn [app] in E; injection E as <- _; congruence|].
             subst atoks. cbn [app] in E. injection E as <- _. split; assumption. }
           repeat split; try assumption; discriminate.
  - cbn [cur hd]. rewrite Hn1. reflexivity.
Qed.

(* ================================================================== *)
(* 2. lexing an import line *)
Open Scope char_scope. Open Scope list_scope. Open Scope nat_scope.
Lemma step_ident_sp : forall st w f rest, atbol st = false -> ident_chars w -> is_word f = false -> is_quote f = false ->
  step false st (" " :: w ++ f :: rest) =
  Next [mk NAME w (pos_after (lpos st) [" "])] (move st (pos_after (pos_after (lpos st) [" "]) w) false) (f :: rest).
Proof.
  intros st w f rest Hb [c [r [-> [Hc Hw]]]] Hf Hq. unfold step. rewrite Hb. cbn [app].
  assert (Ha : atom_start c (r ++ f :: rest) = true) by (unfold atom_start; rewrite Hc; reflexivity).
  change (step_tok false st (" " :: c :: r ++ f :: rest)) with (step_tok false st ([" "] ++ c :: r ++ f :: rest)).
  rewrite (step_tok_atom false st [" "] c (r ++ f :: rest) ltac:(repeat constructor) Ha).
  unfold scan_atom. rewrite Hc.
  change (c :: r ++ f :: rest) with ((c :: r) ++ f :: rest).
  rewrite (string_prefix_word (c :: r) f rest ltac:(discriminate) Hw Hf Hq), (span_prefix is_word (c :: r) f rest Hw Hf).
  reflexivity.
Qed.

(* the key lexer of Proofs/ConfigTextProofs.v with any terminator that is neither a word character nor a quote *)
Lemma lex_key_gen : forall parts b row col t rest', is_word t = false -> is_quote t = false -> alt_ok parts b ->
  Steps false (mid_st row col) (flat_map cs parts ++ t :: rest') (name_tokens row col parts b)
        (mid_st row (col + List.length (flat_map cs parts))) (t :: rest').
Proof.
  induction parts as [|p r IH]; intros b row col t rest' Ht1 Ht2 Halt.
  - cbn [flat_map app name_tokens List.length]. rewrite Nat.add_0_r. apply Steps_refl.
  - cbn [alt_ok] in Halt. destruct Halt as [Hp Hr]. rewrite name_tokens_cons. cbn [flat_map]. rewrite <- app_assoc.
    change ({| ty := if b then NAME else OP; text := p; srow := row; scol := col; erow := row; ecol := col + String.length p |}
            :: name_tokens row (col + String.length p) r (negb b))
      with ([{| ty := if b then NAME else OP; text := p; srow := row; scol := col; erow := row; ecol := col + String.length p |}]
            ++ name_tokens row (col + String.length p) r (negb b)).
    replace (col + List.length (cs p ++ flat_map cs r)) with ((col + String.length p) + List.length (flat_map cs r))
      by (rewrite app_length, length_cs; lia).
    eapply Steps_trans; [|exact (IH (negb b) row (col + String.length p) t rest' Ht1 Ht2 Hr)].
    apply Steps_one. destruct b.
    + destruct (ident_cs p Hp) as [c [w [Ew [Hc Hw]]]].
      assert (Hfol : exists f X, flat_map cs r ++ t :: rest' = f :: X /\ is_word f = false /\ is_quote f = false).
      { destruct r as [|s r']; [exists t, rest'; repeat split; assumption|].
        cbn [alt_ok negb] in Hr. destruct Hr as [[-> | ->] _]; cbn [flat_map cs list_ascii_of_string app];
          eexists _, _; repeat split; reflexivity. }
      destruct Hfol as [f [X [EX [Hf Hq]]]]. rewrite EX.
      rewrite (step_ident (mid_st row col) (cs p) f X eq_refl (ident_cs p Hp) Hf Hq).
      cbn [lpos mid_st]. unfold mk, move.
      rewrite (pos_after_nl_free (cs p) (row, col)) by (apply word_nl_free; exact Hw).
      cbn [fst snd lpos stack level mid_st]. unfold cs at 1. rewrite string_of_chars_text, length_cs. reflexivity.
    + destruct r as [|q r']; [cbn [alt_ok negb] in Hr; discriminate|].
      cbn [alt_ok negb] in Hr. destruct Hr as [Hq _]. destruct (ident_cs q Hq) as [a [w [Ew [Ha _]]]].
      cbn [flat_map]. rewrite Ew. rewrite <- app_assoc. cbn [app].
      assert (Hne : w ++ flat_map cs r' ++ t :: rest' <> []) by (intro E; apply app_eq_nil in E; destruct E as [_ E]; apply app_eq_nil in E; destruct E; discriminate).
      destruct Hp as [-> | ->]; cbn [cs list_ascii_of_string app].
      * rewrite (step_sep (mid_st row col) "/" a _ eq_refl (or_introl eq_refl) Ha Hne). cbn [lpos mid_st stack level String.length].
        unfold mk. cbn [pos_after adv fst snd string_of_list_ascii]. change (Ascii.eqb "/" nl) with false. cbv iota. cbn [fst snd].
        rewrite Nat.add_1_r. reflexivity.
      * rewrite (step_sep (mid_st row col) "." a _ eq_refl (or_intror eq_refl) Ha Hne). cbn [lpos mid_st stack level String.length].
        unfold mk. cbn [pos_after adv fst snd string_of_list_ascii]. change (Ascii.eqb "." nl) with false. cbv iota. cbn [fst snd].
        rewrite Nat.add_1_r. reflexivity.
Qed.

(* blank-separated identifiers up to the end of the line *)
Definition words_chars (ws : list string) : chars := flat_map (fun w => " " :: cs w) ws.
Definition word_tok (w : string) (t : token) : Prop := ty t = NAME /\ text t = w.
Lemma lex_words : forall ws st R, Forall (fun w => is_identifier w = true) ws -> atbol st = false ->
  exists toks st', Steps false st (words_chars ws ++ nl :: R) toks st' (nl :: R) /\ Forall2 word_tok ws toks /\
                   atbol st' = false /\ level st' = level st /\ stack st' = stack st.
Proof.
  induction ws as [|w r IH]; intros st R H Hb.
  - exists [], st. split; [apply Steps_refl|]. split; [constructor | auto].
  - pose proof (Forall_inv H) as Hw.
    assert (Hfol : exists f X, words_chars r ++ nl :: R = f :: X /\ is_word f = false /\ is_quote f = false).
    { destruct r; [exists nl, R | eexists " ", _]; repeat split; reflexivity. }
    destruct Hfol as [f [X [EX [Hf Hq]]]].
    pose proof (step_ident_sp st (cs w) f X Hb (ident_cs w Hw) Hf Hq) as S1.
    set (st1 := move st (pos_after (pos_after (lpos st) [" "]) (cs w)) false) in *.
    destruct (IH st1 R (Forall_inv_tail H) eq_refl) as [toks [st' [S2 [F2 [B [L K]]]]]].
    exists (mk NAME (cs w) (pos_after (lpos st) [" "]) :: toks), st'. split; [|split].
    + cbn [words_chars flat_map]. rewrite <- app_assoc. cbn [app]. fold (words_chars r). rewrite EX.
      change (mk NAME (cs w) (pos_after (lpos st) [" "]) :: toks) with ([mk NAME (cs w) (pos_after (lpos st) [" "])] ++ toks).
      eapply Steps_step; [exact S1|]. rewrite <- EX. exact S2.
    + constructor; [|exact F2]. split; [reflexivity|]. cbn [mk text]. unfold cs. apply string_of_chars_text.
    + repeat split; [exact B | rewrite L; reflexivity | rewrite K; reflexivity].
Qed.
Lemma words_nl_free : forall ws, Forall (fun w => is_identifier w = true) ws -> nl_free (words_chars ws).
Proof.
  induction ws as [|w r IH]; intro H; [reflexivity|]. cbn [words_chars flat_map].
  change (" " :: cs w) with ([" "] ++ cs w). rewrite <- app_assoc. apply nl_free_app; [reflexivity|]. apply nl_free_app; [|exact (IH (Forall_inv_tail H))].
  destruct (ident_cs w (Forall_inv H)) as [c [x [_ [_ Hx]]]]. exact (word_nl_free _ Hx).
Qed.
Lemma alt_nl_free' : forall parts b, alt_ok parts b -> nl_free (flat_map cs parts).
Proof.
  induction parts as [|p r IH]; intros b H; [reflexivity|]. cbn [alt_ok] in H. destruct H as [Hp Hr]. cbn [flat_map].
  apply nl_free_app; [|exact (IH _ Hr)]. destruct b.
  - destruct (ident_cs p Hp) as [c [w [_ [_ Hw]]]]. exact (word_nl_free _ Hw).
  - destruct Hp as [-> | ->]; reflexivity.
Qed.

(* an import line: keyword, the dotted module, further blank-separated identifiers ( import <leaf>, as <alias> ) *)
Theorem lex_import_line : forall row kw mparts words R,
  is_identifier kw = true -> mparts <> [] -> alt_ok mparts true -> Forall (fun w => is_identifier w = true) words ->
  exists kt wtoks nlt,
    Steps false (bol_st row) ((cs kw ++ " " :: flat_map cs mparts ++ words_chars words) ++ nl :: R)
          (kt :: name_tokens row (S (String.length kw)) mparts true ++ wtoks ++ [nlt]) (bol_st (S row)) R /\
    ty kt = NAME /\ text kt = kw /\ srow kt = row /\ erow kt = row /\ Forall2 word_tok words wtoks /\
    ty nlt = NEWLINE /\ text nlt = String nl EmptyString.
Proof.
  intros row kw mparts words R Hkw Hne Halt Hwords.
  destruct (ident_cs kw Hkw) as [c0 [k0 [Ek [Hc0 Hk0]]]]. destruct (alpha_tests c0 Hc0) as [_ [_ [_ [_ Hbp]]]].
  destruct mparts as [|p r]; [congruence|]. cbn [alt_ok] in Halt. destruct Halt as [Hp Hr].
  set (TAIL := words_chars words ++ nl :: R).
  assert (Htl : exists t T', TAIL = t :: T' /\ is_word t = false /\ is_quote t = false).
  { unfold TAIL. destruct words; [exists nl, R | eexists " ", _]; repeat split; reflexivity. }
  destruct Htl as [t [T' [ET [Ht1 Ht2]]]].
  set (LINE := cs kw ++ " " :: flat_map cs (p :: r) ++ words_chars words).
  assert (EL : LINE ++ nl :: R = cs kw ++ " " :: cs p ++ flat_map cs r ++ TAIL).
  { unfold LINE, TAIL. cbn [flat_map]. rewrite <- !app_assoc. cbn [app]. rewrite <- !app_assoc. reflexivity. }
  (* start of line, keyword *)
  assert (S1 : Steps false (bol_st row) (LINE ++ nl :: R) [] (mid_st row 0) (LINE ++ nl :: R)).
  { apply Steps_one. rewrite EL, Ek. cbn [app]. exact (step_bol_key row c0 _ Hbp). }
  pose proof (step_ident (mid_st row 0) (cs kw) " " (cs p ++ flat_map cs r ++ TAIL) eq_refl (ident_cs kw Hkw) eq_refl eq_refl) as S2.
  rewrite <- EL in S2.
  set (kt := mk NAME (cs kw) (lpos (mid_st row 0))) in *.
  assert (Hnk : nl_free (cs kw)) by (apply word_nl_free; exact Hk0).
  assert (Est2 : move (mid_st row 0) (pos_after (lpos (mid_st row 0)) (cs kw)) false = mid_st row (String.length kw)).
  { cbn [lpos mid_st]. rewrite (pos_after_nl_free (cs kw) (row, 0) Hnk). cbn [fst snd]. rewrite length_cs. reflexivity. }
  rewrite Est2 in S2.
  (* the first identifier of the module, behind the blank *)
  assert (Hfol : exists f X, flat_map cs r ++ TAIL = f :: X /\ is_word f = false /\ is_quote f = false).
  { destruct r as [|s r']; [exists t, T'; repeat split; assumption|].
    cbn [alt_ok negb] in Hr. destruct Hr as [[-> | ->] _]; cbn [flat_map cs list_ascii_of_string app]; eexists _, _; repeat split; reflexivity. }
  destruct Hfol as [f [X [EX [Hf Hq]]]].
  pose proof (step_ident_sp (mid_st row (String.length kw)) (cs p) f X eq_refl (ident_cs p Hp) Hf Hq) as S3.
  rewrite <- EX in S3.
  destruct (ident_cs p Hp) as [cp [wp [_ [_ Hwp]]]].
  assert (Hnp : nl_free (cs p)) by (apply word_nl_free; exact Hwp).
  assert (Etok : mk NAME (cs p) (pos_after (lpos (mid_st row (String.length kw))) [" "]) =
                 {| ty := NAME; text := p; srow := row; scol := S (String.length kw); erow := row; ecol := S (String.length kw) + String.length p |}).
  { cbn [lpos mid_st pos_after]. change (adv (row, String.length kw) " ") with (row, S (String.length kw)). unfold mk.
    rewrite (pos_after_nl_free (cs p) (row, S (String.length kw)) Hnp). cbn [fst snd]. unfold cs at 1. rewrite string_of_chars_text, length_cs. reflexivity. }
  assert (Est3 : move (mid_st row (String.length kw)) (pos_after (pos_after (lpos (mid_st row (String.length kw))) [" "]) (cs p)) false =
                 mid_st row (S (String.length kw) + String.length p)).
  { cbn [lpos mid_st pos_after]. change (adv (row, String.length kw) " ") with (row, S (String.length kw)).
    rewrite (pos_after_nl_free (cs p) (row, S (String.length kw)) Hnp). cbn [fst snd]. rewrite length_cs. reflexivity. }
  rewrite Etok, Est3 in S3.
  (* the rest of the module *)
  pose proof (lex_key_gen r false row (S (String.length kw) + String.length p) t T' Ht1 Ht2 Hr) as S4. rewrite <- ET in S4.
  set (st4 := mid_st row (S (String.length kw) + String.length p + List.length (flat_map cs r))) in *.
  (* the words, the end of the line *)
  destruct (lex_words words st4 R Hwords eq_refl) as [wtoks [st5 [S5 [F5 [B5 [L5 K5]]]]]]. fold TAIL in S5.
  pose proof (step_newline0 st5 R B5 ltac:(rewrite L5; reflexivity)) as S6.
  set (nlt := mk_nl NEWLINE false R (lpos st5)) in *. set (st6 := move st5 (next_line (lpos st5)) true) in *.
  assert (SS : Steps false (bol_st row) (LINE ++ nl :: R)
                 (kt :: name_tokens row (S (String.length kw)) (p :: r) true ++ wtoks ++ [nlt]) st6 R).
  { rewrite name_tokens_cons. cbn [negb].
    change (kt :: ({| ty := NAME; text := p; srow := row; scol := S (String.length kw); erow := row; ecol := S (String.length kw) + String.length p |}
                   :: name_tokens row (S (String.length kw) + String.length p) r false) ++ wtoks ++ [nlt])
      with ([] ++ [kt] ++ [{| ty := NAME; text := p; srow := row; scol := S (String.length kw); erow := row; ecol := S (String.length kw) + String.length p |}]
            ++ name_tokens row (S (String.length kw) + String.length p) r false ++ wtoks ++ [nlt]).
    eapply Steps_trans; [exact S1|]. eapply Steps_step; [exact S2|].
    eapply Steps_step; [exact S3|]. eapply Steps_trans; [exact S4|]. eapply Steps_trans; [exact S5|]. apply Steps_one. exact S6. }
  exists kt, wtoks, nlt. split.
  - destruct (Steps_consumed _ _ _ _ _ _ SS) as [c [Ec Hpos]].
    assert (Ec2 : c = LINE ++ [nl]) by (apply (app_inv_tail R); rewrite <- Ec, <- app_assoc; reflexivity).
    subst c. cbn [lpos bol_st] in Hpos. rewrite pos_after_snoc_nl in Hpos.
    assert (HL : nl_free LINE).
    { unfold LINE. apply nl_free_app; [exact Hnk|]. change (" " :: flat_map cs (p :: r) ++ words_chars words) with ([" "] ++ flat_map cs (p :: r) ++ words_chars words).
      apply nl_free_app; [reflexivity|]. apply nl_free_app; [|exact (words_nl_free words Hwords)].
      apply (alt_nl_free' (p :: r) true). cbn [alt_ok]. split; assumption. }
    replace (bol_st (S row)) with st6; [exact SS|].
    unfold st6, move, bol_st. unfold st6, move in Hpos. cbn [lpos] in Hpos. rewrite Hpos, K5, L5. cbn [stack level st4 mid_st].
    unfold next_line. rewrite pos_after_row, (nl_free_count LINE HL). cbn [fst]. rewrite Nat.add_0_r. reflexivity.
  - split; [reflexivity|]. split; [cbn [kt mk text]; unfold cs; apply string_of_chars_text|].
    split; [reflexivity|]. split; [cbn [kt mk erow lpos mid_st]; rewrite (pos_after_nl_free (cs kw) (row, 0) Hnk); reflexivity|].
    split; [exact F5|]. split; reflexivity.
Qed.

(* ================================================================== *)
(* 3. streams with import statements; the whole text *)
Open Scope string_scope. Open Scope list_scope. Open Scope nat_scope.
Inductive tkx :=
| TKold (it : tkitem)
| TKimp (isfrom : bool) (leaf : string) (alias : option string) (kt : token) (row col : nat) (parts : list string)
        (mid atoks : list token) (nlt : token).
Definition tkx_tokens (x : tkx) : list token :=
  match x with
  | TKold it => tk_tokens it
  | TKimp _ _ _ kt row col parts mid atoks nlt => kt :: name_tokens row col parts true ++ mid ++ atoks ++ [nlt]
  end.
Definition tkx_stmts (x : tkx) : list stmt :=
  match x with
  | TKold it => tk_stmts it
  | TKimp isfrom leaf alias _ row _ parts _ _ _ =>
      [SImport (if isfrom then name_text parts ++ "." ++ leaf else name_text parts)%string isfrom alias row]
  end.
Definition tkx_ok (o : oracle) (x : tkx) : Prop :=
  match x with
  | TKold it => tk_ok o it
  | TKimp isfrom leaf alias kt row col parts mid atoks nlt =>
      ty kt = NAME /\ text kt = (if isfrom then "from" else "import") /\ srow kt = row /\ erow kt = row /\
      wf_name parts /\ selector_format_ok false false (name_text parts) = true /\
      mid_real isfrom leaf mid /\ alias_real alias atoks /\ ty nlt = NEWLINE /\ text nlt = String nl ""
  end.
Fixpoint tkx_render (xs : list tkx) : list token := match xs with [] => [] | x :: r => tkx_tokens x ++ tkx_render r end.

Theorem tkx_parse_all : forall o eof, ty eof = ENDMARKER ->
  forall xs, Forall (tkx_ok o) xs -> forall lead pending prev acc fuel,
  Forall lead_tok lead -> Forall (lit_tok o) (tkx_render xs ++ [eof]) -> List.length xs < fuel ->
  parse_all fuel o pending (pend pending prev (lead ++ tkx_render xs ++ [eof])) acc = (acc ++ flat_map tkx_stmts xs, None).
Proof.
  intros o eof He. induction xs as [|x t IH]; intros Hxs lead pending prev acc fuel Hlead Hlit Hfuel.
  - destruct fuel as [|f]; [lia|]. rewrite parse_all_S. cbn [tkx_render app].
    rewrite parse_statement_pend; [|apply settle_lead; [exact Hlead | rewrite He; discriminate | rewrite He; discriminate]].
    rewrite parse_statement_eof; try assumption. cbn [flat_map]. rewrite app_nil_r. reflexivity.
  - pose proof (Forall_inv Hxs) as Hx. cbn [tkx_render] in *.
    destruct x as [[toks|row parts eqt vtoks nlt v]|isfrom leaf alias kt row col parts mid atoks nlt]; cbn [tkx_tokens tkx_stmts tkx_ok] in *.
    + cbn [tk_tokens tk_stmts flat_map app] in *. rewrite <- app_assoc in Hlit. rewrite <- app_assoc, app_assoc.
      apply IH; [exact (Forall_inv_tail Hxs) | apply Forall_app; split; [exact Hlead | exact Hx]
                 | exact (proj2 (proj1 (Forall_app _ _ _) Hlit)) | cbn [List.length] in Hfuel; lia].
    + destruct fuel as [|f]; [lia|]. rewrite parse_all_S. rewrite <- app_assoc.
      rewrite parse_statement_pend; [|apply tk_bind_settle; [exact (proj1 Hx) | exact Hlead]].
      assert (Hlit2 : Forall (lit_tok o) (vtoks ++ nlt :: tkx_render t ++ [eof])).
      { cbn [tk_tokens] in Hlit. rewrite <- !app_assoc in Hlit. apply Forall_app in Hlit. destruct Hlit as [_ Hlit].
        cbn [app] in Hlit. apply Forall_inv_tail in Hlit. rewrite <- app_assoc in Hlit. exact Hlit. }
      rewrite (tk_bind_step o row parts eqt vtoks nlt v lead _ Hx Hlead Hlit2).
      change (nlt :: tkx_render t ++ [eof]) with (pend true nlt ([] ++ tkx_render t ++ [eof])).
      rewrite IH; [| exact (Forall_inv_tail Hxs) | constructor | | cbn [List.length] in Hfuel; lia].
      * cbn [flat_map]. rewrite <- app_assoc. reflexivity.
      * apply Forall_app in Hlit2. destruct Hlit2 as [_ H2]. exact (Forall_inv_tail H2).
    + destruct Hx as [K1 [K2 [K3 [K4 [Hn [Hf [Hm [Ha [N1 N2]]]]]]]]].
      destruct fuel as [|f]; [lia|]. rewrite parse_all_S. rewrite <- app_assoc.
      rewrite parse_statement_pend; [|cbn [app]; apply settle_lead; [exact Hlead | rewrite K1; discriminate | rewrite K1; discriminate]].
      rewrite (import_step_real o isfrom leaf alias kt row col parts mid atoks nlt lead _ K1 K2 K3 K4 Hn Hf Hm Ha N1);
        try (rewrite N2; discriminate); [|exact Hlead].
      change (nlt :: tkx_render t ++ [eof]) with (pend true nlt ([] ++ tkx_render t ++ [eof])).
      rewrite IH; [| exact (Forall_inv_tail Hxs) | constructor | | cbn [List.length] in Hfuel; lia].
      * cbn [flat_map]. rewrite <- app_assoc. reflexivity.
      * rewrite <- app_assoc in Hlit. apply Forall_app in Hlit. exact (proj2 Hlit).
Qed.

(* the imports gin writes: identifiers separated by dots; a from-import has a leaf *)
Lemma rsplit_dot_spec : forall s a b, rsplit_dot s = Some (a, b) -> s = (a ++ "." ++ b)%string.
Proof.
  induction s as [|c r IH]; intros a b H; [discriminate|]. cbn [rsplit_dot] in H.
  destruct (rsplit_dot r) as [[a' b']|] eqn:E.
  - injection H as <- <-. rewrite (IH a' b' eq_refl). reflexivity.
  - destruct (Ascii.eqb c dot) eqn:Ec; [|discriminate]. injection H as <- <-. apply Ascii.eqb_eq in Ec. subst c. reflexivity.
Qed.
Definition import_ok (i : simport) : Prop :=
  (forall a, i_alias i = Some a -> is_identifier a = true) /\
  if i_from i
  then exists a b, rsplit_dot (i_module i) = Some (a, b) /\ wf_name (key_parts a) /\ selector_format_ok false false a = true /\
                   is_identifier b = true
  else wf_name (key_parts (i_module i)) /\ selector_format_ok false false (i_module i) = true.
Definition xitem_ok (o : oracle) (x : xitem) : Prop :=
  match x with XImport i => import_ok i | XItem it => item_ok o it end.

Lemma Qtok_name : forall o t, ty t = NAME -> text t <> "@" -> text t <> "%" -> Qtok o t.
Proof. intros o t H1 H2 H3. apply Qtok_not_string; [rewrite H1; discriminate | exact H2 | exact H3]. Qed.
Lemma ident_nosig : forall p, is_identifier p = true -> p <> "@" /\ p <> "%".
Proof. intros p H. split; intro E; subst p; discriminate H. Qed.
Lemma words_Q : forall o ws toks, Forall (fun w => is_identifier w = true) ws -> Forall2 word_tok ws toks -> Forall (Qtok o) toks.
Proof.
  intros o ws toks H F. induction F as [|w t ws toks [T1 T2] _ IH]; [constructor|]. constructor; [|exact (IH (Forall_inv_tail H))].
  destruct (ident_nosig w (Forall_inv H)) as [A B]. apply Qtok_name; [exact T1 | rewrite T2; exact A | rewrite T2; exact B].
Qed.

Lemma Forall2_two : forall (A B : Type) (P : A -> B -> Prop) x y l, Forall2 P [x; y] l -> exists a b, l = [a; b] /\ P x a /\ P y b.
Proof.
  intros A B P x y l H. inversion H as [|? a ? l1 Pa H1]; subst. inversion H1 as [|? b ? l2 Pb H2]; subst. inversion H2; subst.
  exists a, b. auto.
Qed.
Lemma Forall2_nil_l : forall (A B : Type) (P : A -> B -> Prop) l, Forall2 P [] l -> l = [].
Proof. intros A B P l H. inversion H. reflexivity. Qed.

Lemma lex_ximport : forall o i row R, import_ok i ->
  exists tx, tkx_ok o tx /\ tkx_stmts tx = [SImport (i_module i) (i_from i) (i_alias i) row] /\ Forall (Qtok o) (tkx_tokens tx) /\
    Steps false (bol_st row) (cs (import_format i) ++ nl :: R) (tkx_tokens tx) (bol_st (S row)) R.
Proof.
  intros o [m isfrom alias] row R [Hal Hm]. cbn [i_module i_from i_alias] in *.
  set (awords := match alias with Some a => ["as"; a] | None => [] end).
  assert (Haw : Forall (fun w => is_identifier w = true) awords) by (unfold awords; destruct alias as [a|]; [repeat constructor; exact (Hal a eq_refl) | constructor]).
  assert (Ealias : forall base, cs (match alias with Some a => (base ++ " as " ++ a)%string | None => base end) = cs base ++ words_chars awords).
  { intro base. unfold awords. destruct alias as [a|]; [|cbn [words_chars flat_map]; rewrite app_nil_r; reflexivity].
    rewrite !cs_app. cbn [words_chars flat_map]. rewrite app_nil_r. reflexivity. }
  assert (Hareal : forall wtoks pre, Forall2 word_tok (pre ++ awords) wtoks -> exists ptoks atoks, wtoks = ptoks ++ atoks /\ Forall2 word_tok pre ptoks /\ alias_real alias atoks).
  { intros wtoks pre F. apply Forall2_app_inv_l in F. destruct F as [ptoks [atoks [F1 [F2 ->]]]]. exists ptoks, atoks. split; [reflexivity|]. split; [exact F1|].
    unfold awords in F2. destruct alias as [a|]; cbn [alias_real].
    - destruct (Forall2_two _ _ _ _ _ _ F2) as [ast [alt [-> [[A1 A2] [B1 B2]]]]].
      exists ast, alt. repeat split; try assumption. exact (Hal a eq_refl).
    - exact (Forall2_nil_l _ _ _ _ F2). }
  unfold import_format. cbn [i_module i_from i_alias]. destruct isfrom.
  - destruct Hm as [a [b [Er [Hwa [Hfa Hb]]]]]. rewrite Er. rewrite Ealias.
    destruct (wf_name_alt _ Hwa) as [Hne [_ Halt]].
    destruct (lex_import_line row "from" (key_parts a) (["import"; b] ++ awords) R eq_refl Hne Halt) as [kt [wtoks [nlt [SS [K1 [K2 [K3 [K4 [F [N1 N2]]]]]]]]]].
    { apply Forall_app. split; [repeat constructor; exact Hb | exact Haw]. }
    destruct (Hareal wtoks ["import"; b] F) as [ptoks [atoks [-> [Fp Har]]]].
    destruct (Forall2_two _ _ _ _ _ _ Fp) as [imt [lft [-> [[I1 I2] [L1 L2]]]]].
    exists (TKimp true b alias kt row 5 (key_parts a) [imt; lft] atoks nlt). cbn [tkx_ok tkx_stmts tkx_tokens]. split; [|split; [|split]].
    + refine (conj K1 (conj K2 (conj K3 (conj K4 (conj Hwa (conj _ (conj _ (conj Har (conj N1 N2))))))))).
      * unfold name_text. rewrite key_parts_concat. exact Hfa.
      * exists imt, lft. repeat split; assumption.
    + unfold name_text. rewrite key_parts_concat, <- (rsplit_dot_spec m a b Er). reflexivity.
    + apply Forall_cons; [apply Qtok_name; [exact K1 | rewrite K2; discriminate | rewrite K2; discriminate]|].
      apply Forall_app. split; [exact (Qtok_name_tokens o (key_parts a) true row 5 Halt)|].
      apply Forall_app. split; [apply (words_Q o ["import"; b]); [repeat constructor; exact Hb | exact Fp]|].
      apply Forall_app. split.
      * destruct alias as [al|]; cbn [alias_real] in Har.
        -- destruct Har as [ast [alt [-> [A1 [A2 [A3 [A4 A5]]]]]]]. destruct (ident_nosig al A5) as [X Y].
           repeat (apply Forall_cons || apply Forall_nil); apply Qtok_name; try assumption; rewrite ?A2, ?A4; try discriminate; assumption.
        -- subst atoks. constructor.
      * apply Forall_cons; [|constructor]. apply Qtok_not_string; [rewrite N1; discriminate | rewrite N2; discriminate | rewrite N2; discriminate].
    + rewrite !cs_app. rewrite <- (cs_concat (key_parts a)), key_parts_concat in SS.
      change (cs "from " ++ cs a ++ cs " import " ++ cs b) with (cs "from" ++ " "%char :: cs a ++ cs " import " ++ cs b).
      replace ((cs "from" ++ " "%char :: cs a ++ cs " import " ++ cs b) ++ words_chars awords)
        with (cs "from" ++ " "%char :: cs a ++ words_chars (["import"; b] ++ awords)).
      * rewrite <- !app_assoc in SS. rewrite <- !app_assoc. exact SS.
      * unfold words_chars. rewrite flat_map_app. cbn [flat_map app]. rewrite <- !app_assoc. cbn [app]. rewrite <- !app_assoc. reflexivity.
  - destruct Hm as [Hwm Hfm]. rewrite Ealias. destruct (wf_name_alt _ Hwm) as [Hne [_ Halt]].
    destruct (lex_import_line row "import" (key_parts m) awords R eq_refl Hne Halt Haw) as [kt [wtoks [nlt [SS [K1 [K2 [K3 [K4 [F [N1 N2]]]]]]]]]].
    destruct (Hareal wtoks [] F) as [ptoks [atoks [-> [Fp Har]]]]. rewrite (Forall2_nil_l _ _ _ _ Fp) in *. cbn [app] in *.
    exists (TKimp false "" alias kt row 7 (key_parts m) [] atoks nlt). cbn [tkx_ok tkx_stmts tkx_tokens]. split; [|split; [|split]].
    + refine (conj K1 (conj K2 (conj K3 (conj K4 (conj Hwm (conj _ (conj eq_refl (conj Har (conj N1 N2))))))))).
      unfold name_text. rewrite key_parts_concat. exact Hfm.
    + unfold name_text. rewrite key_parts_concat. reflexivity.
    + apply Forall_cons; [apply Qtok_name; [exact K1 | rewrite K2; discriminate | rewrite K2; discriminate]|].
      apply Forall_app. split; [exact (Qtok_name_tokens o (key_parts m) true row 7 Halt)|]. cbn [app].
      apply Forall_app. split.
      * destruct alias as [al|]; cbn [alias_real] in Har.
        -- destruct Har as [ast [alt [-> [A1 [A2 [A3 [A4 A5]]]]]]]. destruct (ident_nosig al A5) as [X Y].
           repeat (apply Forall_cons || apply Forall_nil); apply Qtok_name; try assumption; rewrite ?A2, ?A4; try discriminate; assumption.
        -- subst atoks. constructor.
      * apply Forall_cons; [|constructor]. apply Qtok_not_string; [rewrite N1; discriminate | rewrite N2; discriminate | rewrite N2; discriminate].
    + rewrite !cs_app. rewrite <- (cs_concat (key_parts m)), key_parts_concat in SS.
      change (cs "import " ++ cs m) with (cs "import" ++ " "%char :: cs m). rewrite <- !app_assoc in SS. cbn [app] in SS. rewrite <- ?app_assoc in SS.
      rewrite <- !app_assoc. cbn [app]. rewrite <- ?app_assoc. exact SS.
Qed.

Lemma lex_xitem : forall o maxlen indent x row R, xitem_ok o x ->
  exists tx, tkx_ok o tx /\ tkx_stmts tx = xitem_stmts o x row /\ Forall (Qtok o) (tkx_tokens tx) /\
    Steps false (bol_st row) (cs (xitem_text maxlen indent x) ++ nl :: R) (tkx_tokens tx) (bol_st (row + xitem_lines maxlen indent x)) R.
Proof.
  intros o maxlen indent [i|it] row R H; cbn [xitem_ok xitem_text xitem_stmts xitem_lines] in *.
  - rewrite Nat.add_1_r. exact (lex_ximport o i row R H).
  - destruct (lex_item o maxlen indent it row R H) as [ti [H1 [H2 [H3 H4]]]]. exists (TKold ti). auto.
Qed.
Definition xitems_chars (maxlen indent : nat) (xs : list xitem) : chars := flat_map (fun x => cs (xitem_text maxlen indent x) ++ [nl]) xs.
Fixpoint xitems_lines (maxlen indent : nat) (xs : list xitem) : nat :=
  match xs with [] => 0 | x :: r => xitem_lines maxlen indent x + xitems_lines maxlen indent r end.
Lemma lex_xitems : forall o maxlen indent xs row R, Forall (xitem_ok o) xs ->
  exists txs, Forall (tkx_ok o) txs /\ flat_map tkx_stmts txs = xitems_stmts o maxlen indent xs row /\
    Forall (Qtok o) (tkx_render txs) /\
    Steps false (bol_st row) (xitems_chars maxlen indent xs ++ R) (tkx_render txs) (bol_st (row + xitems_lines maxlen indent xs)) R.
Proof.
  intros o maxlen indent. induction xs as [|x r IH]; intros row R H.
  - exists []. cbn [xitems_chars flat_map app tkx_render xitems_stmts xitems_lines]. rewrite Nat.add_0_r. repeat split; try constructor.
  - destruct (lex_xitem o maxlen indent x row (xitems_chars maxlen indent r ++ R) (Forall_inv H)) as [tx [H1 [H2 [H3 H4]]]].
    destruct (IH (row + xitem_lines maxlen indent x) R (Forall_inv_tail H)) as [txs [G1 [G2 [G3 G4]]]].
    exists (tx :: txs). split; [constructor; assumption|]. split; [|split].
    + cbn [flat_map xitems_stmts]. rewrite H2, G2. reflexivity.
    + cbn [tkx_render]. apply Forall_app. split; assumption.
    + cbn [xitems_chars flat_map tkx_render xitems_lines]. rewrite <- !app_assoc. cbn [app]. rewrite Nat.add_assoc.
      eapply Steps_trans; [exact H4 | exact G4].
Qed.
Lemma cs_xitems_text : forall maxlen indent xs, cs (xitems_text maxlen indent (xs ++ [XItem CBlank])) = xitems_chars maxlen indent xs.
Proof.
  intros maxlen indent. unfold xitems_text. induction xs as [|x r IH]; [reflexivity|].
  cbn [app map]. destruct (r ++ [XItem CBlank]) as [|y l] eqn:E; [destruct r; discriminate|].
  cbn [map]. rewrite join_strs_cons2. cbn [map] in IH. rewrite !cs_app, IH. cbn [xitems_chars flat_map]. rewrite <- app_assoc. reflexivity.
Qed.
Lemma xitems_stmts_app_blank : forall o maxlen indent xs row,
  xitems_stmts o maxlen indent (xs ++ [XItem CBlank]) row = xitems_stmts o maxlen indent xs row.
Proof.
  intros o maxlen indent. induction xs as [|x r IH]; intro row; cbn [app xitems_stmts xitem_stmts item_stmts]; [reflexivity|]. rewrite IH. reflexivity.
Qed.
Lemma needs_nl_xitems : forall maxlen indent xs, needs_nl (xitems_chars maxlen indent xs) = false.
Proof.
  intros maxlen indent xs. destruct xs as [|x r] using rev_ind; [reflexivity|].
  unfold xitems_chars. rewrite flat_map_app. cbn [flat_map]. rewrite app_nil_r, app_assoc.
  unfold needs_nl. destruct ((_ ++ _) ++ [nl]) eqn:E; [reflexivity|]. rewrite <- E, last_last, Ascii.eqb_refl. reflexivity.
Qed.

Theorem xitems_text_reads_back : forall o maxlen indent xs,
  Forall (xitem_ok o) xs -> supported (xitems_text maxlen indent (xs ++ [XItem CBlank])) = true ->
  exists ts, lex (xitems_text maxlen indent (xs ++ [XItem CBlank])) = Some ts /\
    exists fuel0, forall fuel, fuel0 <= fuel ->
      parse_all fuel o false ts [] = (xitems_stmts o maxlen indent (xs ++ [XItem CBlank]) 1, None).
Proof.
  intros o maxlen indent xs Hxs Hs.
  destruct (lex_xitems o maxlen indent xs 1 [] Hxs) as [txs [G1 [G2 [G3 G4]]]]. rewrite app_nil_r in G4.
  set (L := xitems_chars maxlen indent xs) in *. set (row := 1 + xitems_lines maxlen indent xs) in *.
  assert (E4 : step false (bol_st row) [] = Next [] (mid_st row 0) []) by reflexivity.
  assert (E5 : step false (mid_st row 0) [] = Done [mk_empty ENDMARKER (row, 0)]) by reflexivity.
  assert (SS : Steps false init_state L (tkx_render txs) (mid_st row 0) []).
  { rewrite <- (app_nil_r (tkx_render txs)). eapply Steps_trans; [exact G4|]. apply Steps_one. exact E4. }
  destruct (Steps_run _ _ _ _ _ _ SS (2 * List.length L + 2)) as [fuel' [Hm Er]].
  { unfold measure. cbn [atbol init_state]. lia. }
  set (eof := mk_empty ENDMARKER (row, 0)) in *.
  assert (Elex : lex_chars L = tkx_render txs ++ [eof]).
  { assert (En : needs_nl L = false) by apply needs_nl_xitems.
    unfold lex_chars, normalize. rewrite En, Er.
    destruct fuel' as [|f]; [unfold measure in Hm; lia|]. cbn [Lexer.run]. rewrite E5. reflexivity. }
  exists (tkx_render txs ++ [eof]). split.
  { unfold lex. rewrite Hs. unfold lex_raw. fold (cs (xitems_text maxlen indent (xs ++ [XItem CBlank]))). rewrite cs_xitems_text. fold L.
    rewrite Elex. reflexivity. }
  exists (S (List.length txs)). intros fuel Hfuel.
  assert (Hlit : Forall (lit_tok o) (tkx_render txs ++ [eof])).
  { pose proof (lex_chars_tok_ok L) as Hok. rewrite Elex in Hok.
    assert (HQ : Forall (Qtok o) (tkx_render txs ++ [eof])).
    { apply Forall_app. split; [exact G3|]. apply Forall_cons; [|apply Forall_nil]. apply Qtok_not_string; cbn; discriminate. }
    rewrite Forall_forall in *. intros t Ht. destruct (HQ t Ht) as [Q1 [Q2 Q3]]. unfold tk in *. cbn [fst snd] in *.
    split; [exact Q1|]. split; [exact Q2|]. split; [exact (Hok t Ht) | exact Q3]. }
  pose proof (tkx_parse_all o eof eq_refl txs G1 [] false eof [] fuel (Forall_nil _) Hlit ltac:(lia)) as HP.
  cbn [pend app] in HP. rewrite HP, G2, xitems_stmts_app_blank. reflexivity.
Qed.

(* the text with its import header *)
Lemma config_xitems_ends_blank : forall registry imports entries maxlen,
  config_xitems registry imports entries maxlen = [] \/ exists l, config_xitems registry imports entries maxlen = l ++ [XItem CBlank].
Proof.
  intros registry imports entries maxlen. unfold config_xitems.
  destruct (config_items_ends_blank registry entries maxlen) as [E | [its E]]; rewrite E; cbn [map].
  - destruct (header_imports imports) as [|i r]; [left; reflexivity|]. right. exists (map XImport (i :: r)). rewrite app_nil_r. reflexivity.
  - right. rewrite map_app. cbn [map]. eexists. rewrite !app_assoc. reflexivity.
Qed.

Theorem config_text_imports_reads_back : forall o registry imports entries maxlen indent,
  Forall import_ok (header_imports imports) -> Forall (item_ok o) (ConfigText.config_items registry entries maxlen) ->
  supported (config_text_imports registry imports entries maxlen indent) = true ->
  exists ts, lex (config_text_imports registry imports entries maxlen indent) = Some ts /\
    exists fuel0, forall fuel, fuel0 <= fuel ->
      parse_all fuel o false ts [] = (expected_stmts_imports o registry imports entries maxlen indent, None).
Proof.
  intros o registry imports entries maxlen indent Hi Hits Hs. unfold config_text_imports, expected_stmts_imports in *.
  assert (Hx : Forall (xitem_ok o) (config_xitems registry imports entries maxlen)).
  { unfold config_xitems. apply Forall_app. split; [apply Forall_map; exact Hi|]. apply Forall_app. split.
    - destruct (header_imports imports); [constructor | constructor; [exact I | constructor]].
    - apply Forall_map. exact Hits. }
  destruct (config_xitems_ends_blank registry imports entries maxlen) as [E | [xs E]]; rewrite E in *.
  - exact (xitems_text_reads_back o maxlen indent [] (Forall_nil _) Hs).
  - apply xitems_text_reads_back; [|exact Hs]. apply Forall_app in Hx. tauto.
Qed.

(* config_text is the instance without imports *)
Theorem config_text_is_imports_nil : forall registry entries maxlen indent,
  config_text_imports registry [] entries maxlen indent = ConfigText.config_text registry entries maxlen indent.
Proof.
  intros. unfold config_text_imports, config_xitems, xitems_text, ConfigText.config_text, items_text.
  change (header_imports []) with (@nil simport). cbn [map app]. rewrite map_map. reflexivity.
Qed.
Theorem expected_stmts_imports_nil : forall o registry entries maxlen indent,
  expected_stmts_imports o registry [] entries maxlen indent = expected_stmts o registry entries maxlen indent.
Proof.
  intros. unfold expected_stmts_imports, expected_stmts, config_xitems. change (header_imports []) with (@nil simport). cbn [map app].
  generalize 1. induction (ConfigText.config_items registry entries maxlen) as [|it r IH]; intro n; [reflexivity|].
  cbn [map xitems_stmts items_stmts xitem_stmts xitem_lines]. rewrite IH. reflexivity.
Qed.

(* ================================================================== *)
(* 4. the bridge to Serial.config_lines, with imports; the fixed point *)
From GinV Require Import Proofs.SerialProofs Proofs.SerialProofs2 Proofs.ConfigTextBridge.
Definition xitem_of (w : nat) (x : xitem) : SerialProofs.item :=
  match x with XImport i => ILine (import_format i) | XItem it => item_of w it end.
Lemma serial_items_header : forall registry imports es maxlen,
  SerialProofs.config_items registry imports es maxlen =
  map ILine (import_lines imports) ++ (match import_lines imports with [] => [] | _ :: _ => [ILine ""] end)
  ++ SerialProofs.config_items registry [] es maxlen.
Proof. intros. unfold SerialProofs.config_items. change (import_lines []) with (@nil string). reflexivity. Qed.
Theorem xitems_correspond : forall w registry imports entries maxlen,
  map (xitem_of w) (config_xitems registry imports entries maxlen) =
  SerialProofs.config_items registry imports (map (sentry_of w) entries) maxlen.
Proof.
  intros w registry imports entries maxlen. rewrite serial_items_header, <- (items_correspond w). unfold config_xitems, import_lines.
  fold (header_imports imports). rewrite !map_app, !map_map. f_equal. f_equal. destruct (header_imports imports); reflexivity.
Qed.
Theorem config_text_imports_is_config_lines : forall registry imports entries maxlen indent,
  Forall (entry_ascii (reg_of registry) (maxlen - indent)) entries ->
  config_text_imports registry imports entries maxlen indent =
  join_lines (Serial.config_lines registry imports (map (sentry_of (maxlen - indent)) entries) maxlen indent).
Proof.
  intros registry imports entries maxlen indent Ha. set (w := maxlen - indent) in *.
  pose proof (items_ascii_of_entries registry entries maxlen w Ha) as Hasc.
  rewrite config_lines_items, <- (xitems_correspond w), flat_map_map. unfold join_lines. rewrite join_flat_map.
  2:{ intros [i|[s| |key v]]; cbn [xitem_of item_of render_item]; try discriminate. apply format_binding_ne. }
  unfold config_text_imports, xitems_text. f_equal. unfold config_xitems. rewrite !map_app. f_equal; [|f_equal].
  - rewrite !map_map. reflexivity.
  - destruct (header_imports imports); reflexivity.
  - rewrite !map_map. apply map_ext_Forall. eapply Forall_impl; [|exact Hasc].
    intros [s| |key v] H; cbn [xitem_of xitem_text item_of render_item item_text join_strs]; try reflexivity.
    cbn [item_ascii] in H. apply andb_true_iff in H. destruct H as [H1 H2]. symmetry. exact (format_binding_join maxlen indent key v H1 H2).
Qed.
(* serialising the store read back, with the header imports as recorded imports, gives the identical text *)
Theorem config_text_imports_restored_fixpoint : forall registry imports entries maxlen indent,
  List.length imports + 3 <= 10 ^ 20 ->
  NoDup (map (fun e => (c_scope e, c_sel e)) entries) ->
  (forall e, In e entries -> c_section_ok e = true -> c_lit_params e <> []) ->
  Forall (entry_ascii (reg_of registry) (maxlen - indent)) entries ->
  config_text_imports registry (header_imports imports) (c_restored entries) maxlen indent =
  config_text_imports registry imports entries maxlen indent.
Proof.
  intros registry imports entries maxlen indent Hb Hnd Hnone Ha. set (w := maxlen - indent) in *.
  rewrite (config_text_imports_is_config_lines registry imports entries maxlen indent Ha).
  rewrite (config_text_imports_is_config_lines registry (header_imports imports) (c_restored entries) maxlen indent (entry_ascii_restored _ _ _ Ha)).
  fold w. rewrite <- restored_conv. f_equal. unfold header_imports.
  apply (SerialProofs2.C06_roundtrip_text registry imports (map (sentry_of w) entries) maxlen indent Hb).
  - rewrite keys_conv. exact Hnd.
  - intros e He Hp. rewrite other_entries_conv in He. apply in_map_iff in He. destruct He as [ce [<- Hce]].
    apply filter_In in Hce. destruct Hce as [Hin Hok]. apply (Permutation_in _ (sort_stable_perm _ _ _ _ _)) in Hin.
    rewrite section_params_conv in Hp. apply map_eq_nil in Hp. apply sort_stable_nil_iff in Hp. exact (Hnone ce Hin Hok Hp).
Qed.

(* ================================================================== *)
(* 5. non-vacuity: the example store with the four import forms *)
Definition cti_imports : list simport :=
  [{| i_module := "os.path"; i_from := false; i_alias := None |}; {| i_module := "json.decoder"; i_from := true; i_alias := None |};
   {| i_module := "math"; i_from := false; i_alias := Some "m" |}; {| i_module := "collections.abc"; i_from := true; i_alias := Some "cabc" |}].
Example cti_text : config_text_imports ct_ex_registry cti_imports ct_ex_entries 24 4 =
"from collections import abc as cabc
from json import decoder
import math as m
import os.path

# Macros:
# ======================
mm = 3

# Parameters for a/b/f:
# ======================
a/b/f.lr = -1
a/b/f.x = \
    {3: 'ab',
     'k': [-1,
           (2,),
           {'x': [1.5,
                  None,
                  True]}],
     'key2': (10,
              20,
              30)}

# Parameters for h:
# ======================
# None.
".
Proof. vm_compute. reflexivity. Qed.
Example cti_expected : expected_stmts_imports pp_ex_oracle ct_ex_registry cti_imports ct_ex_entries 24 4 =
  [SImport "collections.abc" true (Some "cabc") 1; SImport "json.decoder" true None 2; SImport "math" false (Some "m") 3;
   SImport "os.path" false None 4;
   SBind "" "mm" "" (OT "int" [OS "3"]) 8; SBind "a/b" "f" "lr" (OT "int" [OS "-1"]) 12; SBind "a/b" "f" "x" pp_ex_out 13].
Proof. vm_compute. reflexivity. Qed.
Ltac cti_wf := unfold wf_name; cbn [key_parts Ascii.eqb Bool.eqb orb slash dot]; split; [discriminate|]; split; [vm_compute; reflexivity|];
  repeat split; try reflexivity; try (left; reflexivity); try (right; reflexivity).
Example cti_imports_ok : Forall import_ok (header_imports cti_imports).
Proof.
  change (header_imports cti_imports) with
    [{| i_module := "collections.abc"; i_from := true; i_alias := Some "cabc" |}; {| i_module := "json.decoder"; i_from := true; i_alias := None |};
     {| i_module := "math"; i_from := false; i_alias := Some "m" |}; {| i_module := "os.path"; i_from := false; i_alias := None |}].
  repeat (apply Forall_cons || apply Forall_nil); unfold import_ok; cbn [i_alias i_from i_module].
  - split; [intros a E; injection E as <-; reflexivity|]. exists "collections", "abc". split; [reflexivity|]. split; [cti_wf|]. split; reflexivity.
  - split; [intros a E; discriminate E|]. exists "json", "decoder". split; [reflexivity|]. split; [cti_wf|]. split; reflexivity.
  - split; [intros a E; injection E as <-; reflexivity|]. split; [cti_wf | reflexivity].
  - split; [intros a E; discriminate E|]. split; [cti_wf | reflexivity].
Qed.
Example cti_reads_back_applies :
  exists ts, lex (config_text_imports ct_ex_registry cti_imports ct_ex_entries 24 4) = Some ts /\
    exists fuel0, forall fuel, fuel0 <= fuel ->
      parse_all fuel pp_ex_oracle false ts [] = (expected_stmts_imports pp_ex_oracle ct_ex_registry cti_imports ct_ex_entries 24 4, None).
Proof. apply config_text_imports_reads_back; [exact cti_imports_ok | exact ct_ex_items_ok | vm_compute; reflexivity]. Qed.
Example cti_reads_back_computes :
  option_map (fun ts => parse_all 12 pp_ex_oracle false ts []) (lex (config_text_imports ct_ex_registry cti_imports ct_ex_entries 24 4)) =
  Some (expected_stmts_imports pp_ex_oracle ct_ex_registry cti_imports ct_ex_entries 24 4, None).
Proof. vm_compute. reflexivity. Qed.
