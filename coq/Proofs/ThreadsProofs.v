(* C18: proofs about the interleaving semantics of Model/Threads.v *)
From Coq Require Import List String ZArith Bool Arith Lia.
From GinV Require Import Lib.Out Lib.PyStr Model.Values Model.Threads.
Import ListNotations.
Open Scope string_scope.
Open Scope list_scope.

Definition reachable (lo ls : bool) (progs : list (list action)) (g : gstate) : Prop :=
  exists pi, g = run_schedule lo ls (init_g progs) pi.

(* ------------------------------------------------------------------ *)
(* refutations / sanity of the model                                   *)
(* ------------------------------------------------------------------ *)

Theorem C18_singleton_orig_refuted : exists progs pi,
  let g := run_schedule true false (init_g progs) pi in
  finished g = true /\ List.length (filter (fun c => String.eqb (fst c) "s") (g_constructed g)) = 2 /\
  exists r0 r1, map (fun ts => th_results ts) (g_threads g) = [[r0]; [r1]] /\ r0 <> r1.
Proof.
  exists [[ASingleton "s"]; [ASingleton "s"]], [0;1;0;1;0;0;1;1].
  cbv zeta. split; [vm_compute; reflexivity|]. split; [vm_compute; reflexivity|].
  exists (OZ 0), (OZ 1). split; [vm_compute; reflexivity|]. discriminate.
Qed.

Theorem C18_unlocked_read_can_fail : exists progs pi, g_failed (run_schedule false true (init_g progs) pi) = true.
Proof.
  exists [[ARead]; [ACall ("", "f") [("x", 1%Z)]]], [0;1;0].
  vm_compute. reflexivity.
Qed.

(* ------------------------------------------------------------------ *)
(* generic lemmas                                                      *)
(* ------------------------------------------------------------------ *)

Lemma upd_thread_nil : forall t ts, upd_thread t ts [] = [].
Proof. intros [|t] ts; reflexivity. Qed.
Lemma upd_thread_0 : forall ts x l, upd_thread 0 ts (x :: l) = ts :: l.
Proof. reflexivity. Qed.
Lemma upd_thread_S : forall t ts x l, upd_thread (S t) ts (x :: l) = x :: upd_thread t ts l.
Proof. reflexivity. Qed.

Lemma nth_error_upd_eq : forall t ts' l ts,
  nth_error l t = Some ts -> nth_error (upd_thread t ts' l) t = Some ts'.
Proof.
  induction t as [|t IH]; intros ts' [|x l] ts H; try discriminate.
  - reflexivity.
  - rewrite upd_thread_S. cbn [nth_error] in *. eapply IH; eauto.
Qed.

Lemma nth_error_upd_neq : forall t ts' l u,
  u <> t -> nth_error (upd_thread t ts' l) u = nth_error l u.
Proof.
  induction t as [|t IH]; intros ts' [|x l] u H.
  - reflexivity.
  - rewrite upd_thread_0. destruct u; [congruence|reflexivity].
  - reflexivity.
  - rewrite upd_thread_S. destruct u; [reflexivity|]. cbn [nth_error]. apply IH. congruence.
Qed.

Section ALLemmas.
  Context {K V : Type}.
  Variable eqb : K -> K -> bool.
  Hypothesis eqb_spec : forall a b, eqb a b = true <-> a = b.

  Lemma eqb_rf : forall a, eqb a a = true.
  Proof. intros a. apply eqb_spec. reflexivity. Qed.
  Lemma eqb_nf : forall a b, a <> b -> eqb a b = false.
  Proof. intros a b H. destruct (eqb a b) eqn:E; [|reflexivity]. apply eqb_spec in E. contradiction. Qed.

  Lemma aget_aset_same : forall k (v : V) l, aget eqb k (aset eqb k v l) = Some v.
  Proof.
    intros k v l. induction l as [|[j w] r IH]; cbn [aset aget].
    - rewrite eqb_rf. reflexivity.
    - destruct (eqb k j) eqn:E; cbn [aget]; rewrite E; auto.
  Qed.

  Lemma aget_aset_other : forall k j (v : V) l, k <> j -> aget eqb j (aset eqb k v l) = aget eqb j l.
  Proof.
    intros k j v l Hn. induction l as [|[i w] r IH]; cbn [aset aget].
    - rewrite eqb_nf by congruence. reflexivity.
    - destruct (eqb k i) eqn:E; cbn [aget].
      + apply eqb_spec in E. subst i. rewrite eqb_nf by congruence. reflexivity.
      + rewrite IH. reflexivity.
  Qed.

  Lemma aget_app : forall k (l1 l2 : list (K * V)),
    aget eqb k (l1 ++ l2) = match aget eqb k l1 with Some x => Some x | None => aget eqb k l2 end.
  Proof.
    intros k l1 l2. induction l1 as [|[j w] r IH]; cbn [app aget]; [reflexivity|].
    destruct (eqb k j); auto.
  Qed.

  Lemma aget_aupdate : forall p (e d : list (K * V)),
    aget eqb p (aupdate eqb d e) = match aget eqb p (rev e) with Some x => Some x | None => aget eqb p d end.
  Proof.
    intros p e. unfold aupdate. induction e as [|[k v] e IH]; intros d; cbn [fold_left rev fst snd]; [reflexivity|].
    rewrite IH. rewrite aget_app. destruct (aget eqb p (rev e)); [reflexivity|].
    cbn [aget]. destruct (eqb p k) eqn:E.
    - apply eqb_spec in E. subst k. apply aget_aset_same.
    - apply aget_aset_other. intros ->. rewrite eqb_rf in E. discriminate.
  Qed.

  Lemma aget_In : forall k (v : V) l, aget eqb k l = Some v -> In (k, v) l.
  Proof.
    intros k v l. induction l as [|[j w] r IH]; cbn [aget]; [discriminate|].
    destruct (eqb k j) eqn:E; intros H.
    - apply eqb_spec in E. inversion H. subst. left. reflexivity.
    - right. auto.
  Qed.

  Lemma In_aget_nodup : forall k (v : V) l, NoDup (map fst l) -> In (k, v) l -> aget eqb k l = Some v.
  Proof.
    intros k v l. induction l as [|[j w] r IH]; cbn [aget map fst]; intros ND HI; [destruct HI|].
    inversion ND as [|? ? Hnin ND']; subst. destruct HI as [HI|HI].
    - inversion HI; subst. rewrite eqb_rf. reflexivity.
    - destruct (eqb k j) eqn:E.
      + apply eqb_spec in E. subst j. exfalso. apply Hnin. apply (in_map fst) in HI. exact HI.
      + auto.
  Qed.
End ALLemmas.

Lemma okey_eqb_spec : forall a b, okey_eqb a b = true <-> a = b.
Proof.
  intros [a1 a2] [b1 b2]. unfold okey_eqb. cbn [fst snd]. rewrite andb_true_iff, !String.eqb_eq.
  split; [intros [-> ->]; reflexivity|intros H; inversion H; auto].
Qed.

(* ------------------------------------------------------------------ *)
(* a decomposition of [step]: fetch the next atomic step, execute it   *)
(* ------------------------------------------------------------------ *)

Definition mk_ts (steps : list astep) (acts : list action) (ts : tstate) : tstate :=
  {| th_steps := steps; th_actions := acts; th_iter := th_iter ts; th_found := th_found ts;
     th_built := th_built ts; th_results := th_results ts |}.

Definition fetch (lo ls : bool) (ts : tstate) : tstate * option astep :=
  match th_steps ts with
  | s :: r => (mk_ts r (th_actions ts) ts, Some s)
  | [] => match th_actions ts with
          | [] => (ts, None)
          | a :: ar => match unfold_action lo ls a with
                       | s :: r => (mk_ts r ar ts, Some s)
                       | [] => (ts, None)
                       end
          end
  end.

(* the atomic step a thread would execute next *)
Definition next_step (lo ls : bool) (ts : tstate) : option astep := snd (fetch lo ls ts).

Definition gw (g : gstate) o l sl si no co f : gstate :=
  {| g_oper := o; g_lock := l; g_slock := sl; g_single := si; g_next_obj := no; g_constructed := co;
     g_failed := f; g_threads := g_threads g |}.

Definition exec (g : gstate) (t : tid) (ts : tstate) (s : astep) : option gstate :=
  let put g' ts' := Some (set_thread g' t ts') in
  match s with
  | SAcquire => match g_lock g with
                | None => put (gw g (g_oper g) (Some t) (g_slock g) (g_single g) (g_next_obj g) (g_constructed g) (g_failed g)) ts
                | Some _ => None
                end
  | SRelease => put (gw g (g_oper g) None (g_slock g) (g_single g) (g_next_obj g) (g_constructed g) (g_failed g)) ts
  | SSetDefault k =>
      let o := match oget k (g_oper g) with Some _ => g_oper g | None => oset k [] (g_oper g) end in
      put (gw g o (g_lock g) (g_slock g) (g_single g) (g_next_obj g) (g_constructed g) (g_failed g)) ts
  | SUpdate k vals =>
      let d := match oget k (g_oper g) with Some d => d | None => [] end in
      put (gw g (oset k (zupdate d vals) (g_oper g)) (g_lock g) (g_slock g) (g_single g) (g_next_obj g)
                  (g_constructed g) (g_failed g)) ts
  | SIterBegin =>
      put g {| th_steps := th_steps ts; th_actions := th_actions ts; th_iter := Some (List.length (g_oper g), 0);
               th_found := th_found ts; th_built := th_built ts; th_results := th_results ts |}
  | SIterNext =>
      match th_iter ts with
      | None => None
      | Some (size0, i) =>
          if negb (Nat.eqb (List.length (g_oper g)) size0) then
            put (gw g (g_oper g) (g_lock g) (g_slock g) (g_single g) (g_next_obj g) (g_constructed g) true)
                (add_result {| th_steps := []; th_actions := th_actions ts; th_iter := None; th_found := th_found ts;
                               th_built := th_built ts; th_results := th_results ts |} (OErr "RuntimeError"))
          else if Nat.ltb i size0 then
            put g {| th_steps := SIterNext :: th_steps ts; th_actions := th_actions ts; th_iter := Some (size0, S i);
                     th_found := th_found ts; th_built := th_built ts; th_results := th_results ts |}
          else
            put g (add_result {| th_steps := th_steps ts; th_actions := th_actions ts; th_iter := None;
                                 th_found := th_found ts; th_built := th_built ts; th_results := th_results ts |}
                              (oper_out (g_oper g)))
      end
  | SIterEnd => put g ts
  | SAcquireS => match g_slock g with
                 | None => put (gw g (g_oper g) (g_lock g) (Some t) (g_single g) (g_next_obj g) (g_constructed g) (g_failed g)) ts
                 | Some u => if Nat.eqb u t then put g ts else None
                 end
  | SReleaseS => put (gw g (g_oper g) (g_lock g) None (g_single g) (g_next_obj g) (g_constructed g) (g_failed g)) ts
  | SCheck n =>
      put g {| th_steps := th_steps ts; th_actions := th_actions ts; th_iter := th_iter ts;
               th_found := match sget n (g_single g) with Some _ => true | None => false end;
               th_built := None; th_results := th_results ts |}
  | SConstruct n =>
      if th_found ts then put g ts else
      put (gw g (g_oper g) (g_lock g) (g_slock g) (g_single g) (S (g_next_obj g))
                  ((n, g_next_obj g) :: g_constructed g) (g_failed g))
          {| th_steps := th_steps ts; th_actions := th_actions ts; th_iter := th_iter ts; th_found := false;
             th_built := Some (g_next_obj g); th_results := th_results ts |}
  | SStore n =>
      match th_built ts with
      | None => put g ts
      | Some obj => put (gw g (g_oper g) (g_lock g) (g_slock g) (sset n obj (g_single g)) (g_next_obj g)
                                (g_constructed g) (g_failed g)) ts
      end
  | SReadS n =>
      put g (add_result ts (match sget n (g_single g) with Some obj => OZ (Z.of_nat obj) | None => OErr "KeyError" end))
  end.

Lemma step_unfold : forall lo ls g t,
  step lo ls g t =
  match nth_error (g_threads g) t with
  | None => None
  | Some ts => match fetch lo ls ts with
               | (ts1, Some s) => exec g t ts1 s
               | (_, None) => None
               end
  end.
Proof.
  intros lo ls g t. unfold step, fetch.
  destruct (nth_error (g_threads g) t) as [ts|]; [|reflexivity].
  destruct (th_steps ts) as [|s r].
  - destruct (th_actions ts) as [|a ar]; [reflexivity|].
    destruct (unfold_action lo ls a) as [|s r]; reflexivity.
  - reflexivity.
Qed.

(* ------------------------------------------------------------------ *)
(* the invariant of the fully locked system (lo = ls = true)           *)
(* ------------------------------------------------------------------ *)

Definition sfound (n : string) (g : gstate) : bool :=
  match sget n (g_single g) with Some _ => true | None => false end.

(* thread-local phase: where the thread is inside its current action *)
Inductive thr_ok (g : gstate) (t : tid) (ts : tstate) : Prop :=
| ok_idle : th_steps ts = [] -> g_lock g <> Some t -> g_slock g <> Some t -> thr_ok g t ts
| ok_call1 k v : th_steps ts = [SSetDefault k; SUpdate k v; SRelease] ->
    g_lock g = Some t -> g_slock g <> Some t -> thr_ok g t ts
| ok_call2 k v : th_steps ts = [SUpdate k v; SRelease] ->
    g_lock g = Some t -> g_slock g <> Some t -> thr_ok g t ts
| ok_rel : th_steps ts = [SRelease] ->
    g_lock g = Some t -> g_slock g <> Some t -> thr_ok g t ts
| ok_read1 : th_steps ts = [SIterBegin; SIterNext; SRelease] ->
    g_lock g = Some t -> g_slock g <> Some t -> thr_ok g t ts
| ok_read2 i : th_steps ts = [SIterNext; SRelease] ->
    g_lock g = Some t -> g_slock g <> Some t -> th_iter ts = Some (List.length (g_oper g), i) -> thr_ok g t ts
| ok_s1 n : th_steps ts = [SCheck n; SConstruct n; SStore n; SReadS n; SReleaseS] ->
    g_lock g <> Some t -> g_slock g = Some t -> thr_ok g t ts
| ok_s2 n : th_steps ts = [SConstruct n; SStore n; SReadS n; SReleaseS] ->
    g_lock g <> Some t -> g_slock g = Some t ->
    th_found ts = sfound n g -> th_built ts = None -> thr_ok g t ts
| ok_s3a n obj : th_steps ts = [SStore n; SReadS n; SReleaseS] ->
    g_lock g <> Some t -> g_slock g = Some t ->
    th_built ts = None -> sget n (g_single g) = Some obj -> thr_ok g t ts
| ok_s3b n obj : th_steps ts = [SStore n; SReadS n; SReleaseS] ->
    g_lock g <> Some t -> g_slock g = Some t ->
    th_built ts = Some obj -> sget n (g_single g) = None -> In (n, obj) (g_constructed g) -> thr_ok g t ts
| ok_s4 n obj : th_steps ts = [SReadS n; SReleaseS] ->
    g_lock g <> Some t -> g_slock g = Some t -> sget n (g_single g) = Some obj -> thr_ok g t ts
| ok_s5 : th_steps ts = [SReleaseS] ->
    g_lock g <> Some t -> g_slock g = Some t -> thr_ok g t ts.

(* a construction that is not yet stored in the cache *)
Definition pend (ts : tstate) (n : string) (o : nat) : Prop :=
  th_steps ts = [SStore n; SReadS n; SReleaseS] /\ th_built ts = Some o.

Record Inv (g : gstate) : Prop := {
  inv_failed : g_failed g = false;
  inv_thr : forall t ts, nth_error (g_threads g) t = Some ts -> thr_ok g t ts;
  inv_lock : forall t, g_lock g = Some t -> nth_error (g_threads g) t <> None;
  inv_slock : forall t, g_slock g = Some t -> nth_error (g_threads g) t <> None;
  inv_nodup : NoDup (map fst (g_constructed g));
  inv_sub : forall n o, sget n (g_single g) = Some o -> In (n, o) (g_constructed g);
  inv_constr : forall n o, In (n, o) (g_constructed g) ->
      sget n (g_single g) = Some o \/ exists u tsu, nth_error (g_threads g) u = Some tsu /\ pend tsu n o }.

Lemma thr_ok_frame : forall g g' u ts,
  thr_ok g u ts ->
  (g_lock g' = Some u <-> g_lock g = Some u) ->
  (g_slock g' = Some u <-> g_slock g = Some u) ->
  (g_lock g = Some u -> List.length (g_oper g') = List.length (g_oper g)) ->
  (g_slock g = Some u -> g_single g' = g_single g) ->
  incl (g_constructed g) (g_constructed g') ->
  thr_ok g' u ts.
Proof.
  intros g g' u ts H HL HS HO HG HC.
  assert (NL : g_lock g <> Some u -> g_lock g' <> Some u) by (intros A B; apply A, HL, B).
  assert (NS : g_slock g <> Some u -> g_slock g' <> Some u) by (intros A B; apply A, HS, B).
  destruct H.
  - apply ok_idle; auto.
  - eapply ok_call1; eauto; [apply HL; auto].
  - eapply ok_call2; eauto; [apply HL; auto].
  - eapply ok_rel; eauto; [apply HL; auto].
  - eapply ok_read1; eauto; [apply HL; auto].
  - eapply ok_read2; eauto; [apply HL; auto|]. rewrite HO by auto. eauto.
  - eapply ok_s1; eauto; [apply HS; auto].
  - eapply ok_s2; eauto; [apply HS; auto|]. unfold sfound. rewrite HG by auto. assumption.
  - eapply ok_s3a; eauto; [apply HS; auto|]. rewrite HG by auto. eassumption.
  - eapply ok_s3b; eauto; [apply HS; auto|]. rewrite HG by auto. assumption.
  - eapply ok_s4; eauto; [apply HS; auto|]. rewrite HG by auto. eassumption.
  - eapply ok_s5; eauto; [apply HS; auto].
Qed.

(* the general preservation lemma: thread t moves from ts to ts', the shared part becomes g0 *)
Lemma Inv_step : forall g t ts g0 ts',
  Inv g -> nth_error (g_threads g) t = Some ts ->
  g_threads g0 = g_threads g ->
  g_failed g0 = false ->
  (forall u, u <> t -> (g_lock g0 = Some u <-> g_lock g = Some u)) ->
  (forall u, u <> t -> (g_slock g0 = Some u <-> g_slock g = Some u)) ->
  (g_lock g = Some t \/ List.length (g_oper g0) = List.length (g_oper g)) ->
  (g_slock g = Some t \/ g_single g0 = g_single g) ->
  incl (g_constructed g) (g_constructed g0) ->
  thr_ok g0 t ts' ->
  NoDup (map fst (g_constructed g0)) ->
  (forall n o, sget n (g_single g0) = Some o -> In (n, o) (g_constructed g0)) ->
  (forall n o, In (n, o) (g_constructed g0) ->
     sget n (g_single g0) = Some o \/ pend ts' n o \/
     exists u tsu, u <> t /\ nth_error (g_threads g) u = Some tsu /\ pend tsu n o) ->
  Inv (set_thread g0 t ts').
Proof.
  intros g t ts g0 ts' HI Hn HT HF HL HS HO HG HC Hok HND Hsub Hcon.
  assert (Hn0 : nth_error (g_threads g0) t = Some ts) by (rewrite HT; exact Hn).
  constructor; cbn [set_thread g_failed g_threads g_lock g_slock g_constructed g_single].
  - exact HF.
  - intros u tsu Hu. destruct (Nat.eq_dec u t) as [->|Hne].
    + rewrite (nth_error_upd_eq _ _ _ _ Hn0) in Hu. inversion Hu; subst tsu.
      eapply thr_ok_frame; [exact Hok|reflexivity|reflexivity|reflexivity|reflexivity|apply incl_refl].
    + rewrite nth_error_upd_neq in Hu by exact Hne. rewrite HT in Hu.
      eapply thr_ok_frame; [exact (inv_thr g HI u tsu Hu)| | | | |]; cbn [set_thread g_lock g_slock g_oper g_single g_constructed].
      * apply HL; exact Hne.
      * apply HS; exact Hne.
      * intros A. destruct HO as [B|B]; [congruence|exact B].
      * intros A. destruct HG as [B|B]; [congruence|exact B].
      * exact HC.
  - intros u Hu. destruct (Nat.eq_dec u t) as [->|Hne].
    + rewrite (nth_error_upd_eq _ _ _ _ Hn0). discriminate.
    + rewrite nth_error_upd_neq by exact Hne. rewrite HT. apply (inv_lock g HI). apply HL; assumption.
  - intros u Hu. destruct (Nat.eq_dec u t) as [->|Hne].
    + rewrite (nth_error_upd_eq _ _ _ _ Hn0). discriminate.
    + rewrite nth_error_upd_neq by exact Hne. rewrite HT. apply (inv_slock g HI). apply HS; assumption.
  - exact HND.
  - exact Hsub.
  - intros n o Hin. destruct (Hcon n o Hin) as [A|[A|(u & tsu & Hne & Hu & Hp)]].
    + left; exact A.
    + right. exists t, ts'. split; [apply (nth_error_upd_eq _ _ _ _ Hn0)|exact A].
    + right. exists u, tsu. split; [|exact Hp]. rewrite nth_error_upd_neq by exact Hne. rewrite HT. exact Hu.
Qed.

(* the common case: cache and construction log untouched *)
Lemma Inv_step_same : forall g t ts g0 ts',
  Inv g -> nth_error (g_threads g) t = Some ts ->
  g_threads g0 = g_threads g ->
  g_failed g0 = false ->
  (forall u, u <> t -> (g_lock g0 = Some u <-> g_lock g = Some u)) ->
  (forall u, u <> t -> (g_slock g0 = Some u <-> g_slock g = Some u)) ->
  (g_lock g = Some t \/ List.length (g_oper g0) = List.length (g_oper g)) ->
  g_single g0 = g_single g ->
  g_constructed g0 = g_constructed g ->
  thr_ok g0 t ts' ->
  (forall n o, pend ts n o -> pend ts' n o) ->
  Inv (set_thread g0 t ts').
Proof.
  intros g t ts g0 ts' HI Hn HT HF HL HS HO HG HC Hok Hp.
  eapply Inv_step; eauto.
  - rewrite HC. apply incl_refl.
  - rewrite HC. apply (inv_nodup g HI).
  - rewrite HC, HG. apply (inv_sub g HI).
  - rewrite HC, HG. intros n o Hin. destruct (inv_constr g HI n o Hin) as [A|(u & tsu & Hu & Hpu)]; [left; exact A|right].
    destruct (Nat.eq_dec u t) as [->|Hne].
    + left. apply Hp. congruence.
    + right. exists u, tsu. auto.
Qed.

Lemma sget_sset_same : forall {V} n (o : V) s, sget n (sset n o s) = Some o.
Proof. intros. unfold sget, sset. apply aget_aset_same. apply String.eqb_eq. Qed.
Lemma sget_sset_other : forall {V} n m (o : V) s, n <> m -> sget m (sset n o s) = sget m s.
Proof. intros. unfold sget, sset. apply aget_aset_other; [apply String.eqb_eq|assumption]. Qed.

Lemma pend_slock : forall g u tsu n o, thr_ok g u tsu -> pend tsu n o -> g_slock g = Some u.
Proof. intros g u tsu n o H [E _]. destruct H; try assumption; congruence. Qed.

Ltac side HI Hst :=
  first [ exact (inv_failed _ HI)
        | reflexivity
        | assumption
        | (intros ? ?; split; intros ?; congruence)
        | (right; reflexivity)
        | (left; assumption)
        | (intros ? ? [? ?]; congruence) ].

Lemma step_Inv : forall g t g', Inv g -> step true true g t = Some g' -> Inv g'.
Proof.
  intros g t g' HI Hs. rewrite step_unfold in Hs.
  destruct (nth_error (g_threads g) t) as [ts|] eqn:Hn; [|discriminate].
  pose proof (inv_thr g HI t ts Hn) as Hok. unfold fetch in Hs.
  destruct Hok as [Hst HL HS|k v Hst HL HS|k v Hst HL HS|Hst HL HS|Hst HL HS|i Hst HL HS Hit
                  |n Hst HL HS|n Hst HL HS Hfo Hbu|n obj Hst HL HS Hbu Hsg|n obj Hst HL HS Hbu Hsg Hin
                  |n obj Hst HL HS Hsg|Hst HL HS]; rewrite Hst in Hs.
  - (* idle: unfold the next action *)
    destruct (th_actions ts) as [|[k v| |n] ar] eqn:Ha; cbn [unfold_action app] in Hs; [discriminate|..]; cbn [exec] in Hs.
    + destruct (g_lock g) eqn:HL'; [discriminate|]. injection Hs as <-.
      eapply Inv_step_same with (g := g) (ts := ts); cbn [gw g_threads g_failed g_lock g_slock g_oper g_single g_constructed];
        try solve [side HI Hst].
      eapply ok_call1; cbn; eauto.
    + destruct (g_lock g) eqn:HL'; [discriminate|]. injection Hs as <-.
      eapply Inv_step_same with (g := g) (ts := ts); cbn [gw g_threads g_failed g_lock g_slock g_oper g_single g_constructed];
        try solve [side HI Hst].
      eapply ok_read1; cbn; eauto.
    + destruct (g_slock g) as [u|] eqn:HS'.
      * destruct (Nat.eqb u t) eqn:E; [|discriminate]. apply Nat.eqb_eq in E. subst u. exfalso. apply HS. reflexivity.
      * injection Hs as <-.
        eapply Inv_step_same with (g := g) (ts := ts); cbn [gw g_threads g_failed g_lock g_slock g_oper g_single g_constructed];
          try solve [side HI Hst].
        eapply ok_s1; cbn; eauto.
  - (* SSetDefault *)
    cbn [exec] in Hs. injection Hs as <-.
    eapply Inv_step_same with (g := g) (ts := ts); cbn [gw g_threads g_failed g_lock g_slock g_oper g_single g_constructed];
      try solve [side HI Hst].
    eapply ok_call2; cbn; eauto.
  - (* SUpdate *)
    cbn [exec] in Hs. injection Hs as <-.
    eapply Inv_step_same with (g := g) (ts := ts); cbn [gw g_threads g_failed g_lock g_slock g_oper g_single g_constructed];
      try solve [side HI Hst].
    eapply ok_rel; cbn; eauto.
  - (* SRelease *)
    cbn [exec] in Hs. injection Hs as <-.
    eapply Inv_step_same with (g := g) (ts := ts); cbn [gw g_threads g_failed g_lock g_slock g_oper g_single g_constructed];
      try solve [side HI Hst].
    eapply ok_idle; cbn; eauto. discriminate.
  - (* SIterBegin *)
    cbn [exec] in Hs. injection Hs as <-.
    eapply Inv_step_same with (g := g) (ts := ts); try solve [side HI Hst].
    eapply ok_read2; cbn; eauto.
  - (* SIterNext *)
    cbn [exec mk_ts th_iter] in Hs. rewrite Hit in Hs. rewrite Nat.eqb_refl in Hs. cbn [negb] in Hs.
    destruct (Nat.ltb i (List.length (g_oper g))); injection Hs as <-.
    + eapply Inv_step_same with (g := g) (ts := ts); try solve [side HI Hst].
      eapply ok_read2; cbn; eauto.
    + eapply Inv_step_same with (g := g) (ts := ts); try solve [side HI Hst].
      eapply ok_rel; cbn; eauto.
  - (* SCheck *)
    cbn [exec] in Hs. injection Hs as <-.
    eapply Inv_step_same with (g := g) (ts := ts); try solve [side HI Hst].
    eapply ok_s2; cbn; eauto.
  - (* SConstruct *)
    cbn [exec mk_ts th_found] in Hs. rewrite Hfo in Hs. destruct (sfound n g) eqn:Hf.
    + injection Hs as <-.
      eapply Inv_step_same with (g := g) (ts := ts); try solve [side HI Hst].
      unfold sfound in Hf. destruct (sget n (g_single g)) as [obj|] eqn:Hsg; [|discriminate].
      eapply ok_s3a; cbn; eauto.
    + injection Hs as <-.
      unfold sfound in Hf. destruct (sget n (g_single g)) as [obj|] eqn:Hsg; [discriminate|].
      assert (Hnp : forall o u tsu, nth_error (g_threads g) u = Some tsu -> pend tsu n o -> False).
      { intros o u tsu Hu Hp. pose proof (pend_slock g u tsu n o (inv_thr g HI u tsu Hu) Hp) as E.
        assert (u = t) by congruence. subst u. destruct Hp as [E1 _]. congruence. }
      eapply Inv_step with (g := g) (ts := ts); cbn [gw g_threads g_failed g_lock g_slock g_oper g_single g_constructed];
        try solve [side HI Hst].
      * apply incl_tl, incl_refl.
      * eapply ok_s3b; cbn; eauto.
      * cbn [map fst]. constructor; [|apply (inv_nodup g HI)].
        intros Hin. apply in_map_iff in Hin. destruct Hin as ([n' o] & E & Hin). cbn [fst] in E. subst n'.
        destruct (inv_constr g HI n o Hin) as [A|(u & tsu & Hu & Hp)]; [congruence|]. eapply Hnp; eauto.
      * intros n0 o Hg. right. apply (inv_sub g HI). exact Hg.
      * intros n0 o [E|Hin].
        -- inversion E; subst n0 o. right; left. split; reflexivity.
        -- destruct (inv_constr g HI n0 o Hin) as [A|(u & tsu & Hu & Hp)]; [left; exact A|].
           right; right. exists u, tsu. split; [|split; assumption].
           intros ->. destruct Hp as [E1 _]. congruence.
  - (* SStore, nothing built *)
    cbn [exec mk_ts th_built] in Hs. rewrite Hbu in Hs. injection Hs as <-.
    eapply Inv_step_same with (g := g) (ts := ts); try solve [side HI Hst].
    eapply ok_s4; cbn; eauto.
  - (* SStore of a fresh object *)
    cbn [exec mk_ts th_built] in Hs. rewrite Hbu in Hs. injection Hs as <-.
    eapply Inv_step with (g := g) (ts := ts); cbn [gw g_threads g_failed g_lock g_slock g_oper g_single g_constructed];
      try solve [side HI Hst].
    * apply incl_refl.
    * eapply ok_s4 with (obj := obj); cbn; eauto. apply sget_sset_same.
    * apply (inv_nodup g HI).
    * intros n0 o Hg. destruct (string_dec n n0) as [<-|Hne].
      -- rewrite sget_sset_same in Hg. congruence.
      -- rewrite sget_sset_other in Hg by exact Hne. apply (inv_sub g HI). exact Hg.
    * intros n0 o Hin0. left. destruct (inv_constr g HI n0 o Hin0) as [A|(u & tsu & Hu & Hp)].
      -- rewrite sget_sset_other; [exact A|]. intros <-. congruence.
      -- pose proof (pend_slock g u tsu n0 o (inv_thr g HI u tsu Hu) Hp) as E.
         assert (u = t) by congruence. subst u. assert (tsu = ts) by congruence. subst tsu.
         destruct Hp as [E1 E2]. rewrite Hst in E1. inversion E1; subst n0.
         assert (o = obj) by congruence. subst o. apply sget_sset_same.
  - (* SReadS *)
    cbn [exec] in Hs. injection Hs as <-.
    eapply Inv_step_same with (g := g) (ts := ts); try solve [side HI Hst].
    eapply ok_s5; cbn; eauto.
  - (* SReleaseS *)
    cbn [exec] in Hs. injection Hs as <-.
    eapply Inv_step_same with (g := g) (ts := ts); cbn [gw g_threads g_failed g_lock g_slock g_oper g_single g_constructed];
      try solve [side HI Hst].
    eapply ok_idle; cbn; eauto. discriminate.
Qed.

Lemma Inv_init : forall progs, Inv (init_g progs).
Proof.
  intros progs. constructor; cbn [init_g g_failed g_threads g_lock g_slock g_constructed g_single map].
  - reflexivity.
  - intros t ts H. apply ok_idle; cbn [init_g g_lock g_slock]; try discriminate.
    rewrite nth_error_map in H. destruct (nth_error progs t); inversion H. reflexivity.
  - discriminate.
  - discriminate.
  - constructor.
  - intros n o H. discriminate.
  - intros n o [].
Qed.

Lemma Inv_run_from : forall pi g, Inv g -> Inv (run_schedule true true g pi).
Proof.
  induction pi as [|t pi IH]; intros g HI; cbn [run_schedule]; [exact HI|].
  apply IH. destruct (step true true g t) as [g'|] eqn:E; [eapply step_Inv; eauto|exact HI].
Qed.

Lemma Inv_run : forall progs pi, Inv (run_schedule true true (init_g progs) pi).
Proof. intros. apply Inv_run_from, Inv_init. Qed.

Lemma Inv_reachable : forall progs g, reachable true true progs g -> Inv g.
Proof. intros progs g [pi ->]. apply Inv_run. Qed.

(* a thread is inside its critical section iff SRelease is among its remaining atomic steps *)
Lemma thr_ok_lock_iff : forall g t ts, thr_ok g t ts -> (In SRelease (th_steps ts) <-> g_lock g = Some t).
Proof.
  intros g t ts H. destruct H as [Hst HL HS|k v Hst HL HS|k v Hst HL HS|Hst HL HS|Hst HL HS|i Hst HL HS Hit
                  |n Hst HL HS|n Hst HL HS Hfo Hbu|n obj Hst HL HS Hbu Hsg|n obj Hst HL HS Hbu Hsg Hin
                  |n obj Hst HL HS Hsg|Hst HL HS]; rewrite Hst; cbn [In];
  (split; [intros A; try assumption; repeat (destruct A as [A|A]; try discriminate A); try contradiction
          |intros A; try contradiction; auto 6]).
Qed.

Lemma thr_ok_slock_iff : forall g t ts, thr_ok g t ts -> (In SReleaseS (th_steps ts) <-> g_slock g = Some t).
Proof.
  intros g t ts H. destruct H as [Hst HL HS|k v Hst HL HS|k v Hst HL HS|Hst HL HS|Hst HL HS|i Hst HL HS Hit
                  |n Hst HL HS|n Hst HL HS Hfo Hbu|n obj Hst HL HS Hbu Hsg|n obj Hst HL HS Hbu Hsg Hin
                  |n obj Hst HL HS Hsg|Hst HL HS]; rewrite Hst; cbn [In];
  (split; [intros A; try assumption; repeat (destruct A as [A|A]; try discriminate A); try contradiction
          |intros A; try contradiction; auto 7]).
Qed.

Theorem C18_mutual_exclusion : forall progs pi,
  let g := run_schedule true true (init_g progs) pi in
  (forall t ts, nth_error (g_threads g) t = Some ts -> In SRelease (th_steps ts) -> g_lock g = Some t) /\
  (forall t, g_lock g = Some t -> exists ts, nth_error (g_threads g) t = Some ts /\ In SRelease (th_steps ts)).
Proof.
  intros progs pi g. pose proof (Inv_run progs pi) as HI. fold g in HI. split.
  - intros t ts Hn Hin. apply (thr_ok_lock_iff g t ts (inv_thr g HI t ts Hn)). exact Hin.
  - intros t HL. pose proof (inv_lock g HI t HL) as Hn.
    destruct (nth_error (g_threads g) t) as [ts|] eqn:E; [|congruence].
    exists ts. split; [reflexivity|]. apply (thr_ok_lock_iff g t ts (inv_thr g HI t ts E)). exact HL.
Qed.

(* the same for the singleton lock of the repaired code *)
Theorem C18_mutual_exclusion_singletons : forall progs pi,
  let g := run_schedule true true (init_g progs) pi in
  (forall t ts, nth_error (g_threads g) t = Some ts -> In SReleaseS (th_steps ts) -> g_slock g = Some t) /\
  (forall t, g_slock g = Some t -> exists ts, nth_error (g_threads g) t = Some ts /\ In SReleaseS (th_steps ts)).
Proof.
  intros progs pi g. pose proof (Inv_run progs pi) as HI. fold g in HI. split.
  - intros t ts Hn Hin. apply (thr_ok_slock_iff g t ts (inv_thr g HI t ts Hn)). exact Hin.
  - intros t HL. pose proof (inv_slock g HI t HL) as Hn.
    destruct (nth_error (g_threads g) t) as [ts|] eqn:E; [|congruence].
    exists ts. split; [reflexivity|]. apply (thr_ok_slock_iff g t ts (inv_thr g HI t ts E)). exact HL.
Qed.

(* two distinct threads are never both inside the critical section *)
Corollary C18_at_most_one_in_cs : forall progs pi t u ts tu,
  let g := run_schedule true true (init_g progs) pi in
  nth_error (g_threads g) t = Some ts -> nth_error (g_threads g) u = Some tu ->
  In SRelease (th_steps ts) -> In SRelease (th_steps tu) -> t = u.
Proof.
  intros progs pi t u ts tu g Ht Hu It Iu.
  destruct (C18_mutual_exclusion progs pi) as [A _]. fold g in A.
  pose proof (A t ts Ht It). pose proof (A u tu Hu Iu). congruence.
Qed.

Theorem C18_no_failure : forall progs pi, g_failed (run_schedule true true (init_g progs) pi) = false.
Proof. intros. apply inv_failed, Inv_run. Qed.

(* ------------------------------------------------------------------ *)
(* what a step adds to the results of the stepping thread              *)
(* ------------------------------------------------------------------ *)

Definition result_spec (g g' : gstate) (ts ts' : tstate) : Prop :=
  match next_step true true ts with
  | Some SIterNext =>
      th_results ts' = th_results ts \/
      (th_results ts' = oper_out (g_oper g) :: th_results ts /\ g_oper g' = g_oper g)
  | Some (SReadS n) =>
      exists obj, th_results ts' = OZ (Z.of_nat obj) :: th_results ts /\ sget n (g_single g) = Some obj /\
                  g_constructed g' = g_constructed g /\ g_single g' = g_single g
  | _ => th_results ts' = th_results ts
  end.

Lemma step_result : forall g t g' ts,
  Inv g -> step true true g t = Some g' -> nth_error (g_threads g) t = Some ts ->
  exists ts', nth_error (g_threads g') t = Some ts' /\ result_spec g g' ts ts'.
Proof.
  intros g t g' ts HI Hs Hn. rewrite step_unfold in Hs. rewrite Hn in Hs.
  pose proof (inv_thr g HI t ts Hn) as Hok. unfold fetch in Hs. unfold result_spec, next_step, fetch.
  destruct Hok as [Hst HL HS|k v Hst HL HS|k v Hst HL HS|Hst HL HS|Hst HL HS|i Hst HL HS Hit
                  |n Hst HL HS|n Hst HL HS Hfo Hbu|n obj Hst HL HS Hbu Hsg|n obj Hst HL HS Hbu Hsg Hin
                  |n obj Hst HL HS Hsg|Hst HL HS]; rewrite Hst in Hs; rewrite Hst.
  - destruct (th_actions ts) as [|[k v| |n] ar] eqn:Ha; cbn [unfold_action app] in Hs; [discriminate|..]; cbn [exec] in Hs; cbn [unfold_action app snd].
    + destruct (g_lock g) eqn:HL'; [discriminate|]. injection Hs as <-.
      eexists; split; [eapply nth_error_upd_eq; exact Hn|]. cbn; reflexivity.
    + destruct (g_lock g) eqn:HL'; [discriminate|]. injection Hs as <-.
      eexists; split; [eapply nth_error_upd_eq; exact Hn|]. cbn; reflexivity.
    + destruct (g_slock g) as [u|] eqn:HS'.
      * destruct (Nat.eqb u t) eqn:E; [|discriminate]. apply Nat.eqb_eq in E. subst u. exfalso. apply HS. reflexivity.
      * injection Hs as <-.
        eexists; split; [eapply nth_error_upd_eq; exact Hn|]. cbn; reflexivity.
  - cbn [exec] in Hs. injection Hs as <-.
    eexists; split; [eapply nth_error_upd_eq; exact Hn|]. cbn; reflexivity.
  - cbn [exec] in Hs. injection Hs as <-.
    eexists; split; [eapply nth_error_upd_eq; exact Hn|]. cbn; reflexivity.
  - cbn [exec] in Hs. injection Hs as <-.
    eexists; split; [eapply nth_error_upd_eq; exact Hn|]. cbn; reflexivity.
  - cbn [exec] in Hs. injection Hs as <-.
    eexists; split; [eapply nth_error_upd_eq; exact Hn|]. cbn; reflexivity.
  - cbn [exec mk_ts th_iter] in Hs. rewrite Hit in Hs. rewrite Nat.eqb_refl in Hs. cbn [negb] in Hs.
    destruct (Nat.ltb i (List.length (g_oper g))); injection Hs as <-.
    + eexists; split; [eapply nth_error_upd_eq; exact Hn|]. cbn. left; reflexivity.
    + eexists; split; [eapply nth_error_upd_eq; exact Hn|]. cbn. right. split; reflexivity.
  - cbn [exec] in Hs. injection Hs as <-.
    eexists; split; [eapply nth_error_upd_eq; exact Hn|]. cbn; reflexivity.
  - cbn [exec mk_ts th_found] in Hs. destruct (th_found ts); injection Hs as <-.
    + eexists; split; [eapply nth_error_upd_eq; exact Hn|]. cbn; reflexivity.
    + eexists; split; [eapply nth_error_upd_eq; exact Hn|]. cbn; reflexivity.
  - cbn [exec mk_ts th_built] in Hs. rewrite Hbu in Hs. injection Hs as <-.
    eexists; split; [eapply nth_error_upd_eq; exact Hn|]. cbn; reflexivity.
  - cbn [exec mk_ts th_built] in Hs. rewrite Hbu in Hs. injection Hs as <-.
    eexists; split; [eapply nth_error_upd_eq; exact Hn|]. cbn; reflexivity.
  - cbn [exec] in Hs. injection Hs as <-.
    eexists; split; [eapply nth_error_upd_eq; exact Hn|]. cbn. exists obj.
    rewrite Hsg. repeat split; reflexivity.
  - cbn [exec] in Hs. injection Hs as <-.
    eexists; split; [eapply nth_error_upd_eq; exact Hn|]. cbn; reflexivity.
Qed.

Lemma cons_neq_self : forall {A} (x : A) l, x :: l <> l.
Proof. intros A x l H. apply (f_equal (@List.length A)) in H. cbn in H. lia. Qed.

(* every completed read returned a snapshot: the operative record at that very moment, which the step does not change *)
Theorem C18_read_is_snapshot : forall progs pi t g g',
  g = run_schedule true true (init_g progs) pi -> step true true g t = Some g' ->
  forall ts ts', nth_error (g_threads g) t = Some ts -> nth_error (g_threads g') t = Some ts' ->
  forall o, th_results ts' = o :: th_results ts ->
    (next_step true true ts = Some SIterNext /\ o = oper_out (g_oper g) /\ g_oper g' = g_oper g) \/
    (exists n obj, next_step true true ts = Some (SReadS n) /\ o = OZ (Z.of_nat obj) /\
                   In (n, obj) (g_constructed g)).
Proof.
  intros progs pi t g g' -> Hs ts ts' Hn Hn' o Ho.
  pose proof (Inv_run progs pi) as HI.
  destruct (step_result _ _ _ _ HI Hs Hn) as (ts2 & Hn2 & Hr). rewrite Hn' in Hn2. inversion Hn2; subst ts2.
  assert (Hsame : th_results ts' = th_results ts -> False).
  { intros Hr0. rewrite Hr0 in Ho. symmetry in Ho. apply cons_neq_self in Ho. exact Ho. }
  unfold result_spec in Hr.
  destruct (next_step true true ts) as [[]|]; try (exfalso; exact (Hsame Hr)).
  - left. destruct Hr as [Hr|[B C]]; [exfalso; exact (Hsame Hr)|]. rewrite B in Ho. inversion Ho. auto.
  - right. destruct Hr as (obj & B & C & D & E). exists name, obj. rewrite B in Ho. inversion Ho.
    repeat split; auto. apply (inv_sub _ HI). exact C.
Qed.

(* the statement as originally phrased is a consequence *)
Corollary C18_read_is_snapshot_weak : forall progs pi t g g',
  g = run_schedule true true (init_g progs) pi -> step true true g t = Some g' ->
  forall ts ts', nth_error (g_threads g) t = Some ts -> nth_error (g_threads g') t = Some ts' ->
  forall o, th_results ts' = o :: th_results ts -> (exists n, o = OZ n) \/ o = oper_out (g_oper g) \/ o = OErr "KeyError".
Proof.
  intros progs pi t g g' Hg Hs ts ts' Hn Hn' o Ho.
  destruct (C18_read_is_snapshot progs pi t g g' Hg Hs ts ts' Hn Hn' o Ho) as [(A & B & C)|(n & obj & A & B & C)].
  - right; left; exact B.
  - left. eexists; exact B.
Qed.

(* conversely a read, once it reaches its last SIterNext, cannot fail and yields the current record;
   and while a reader iterates nobody else modifies the record: *)
Lemma step_frame_oper : forall g t g' u tu i,
  Inv g -> step true true g t = Some g' ->
  nth_error (g_threads g) u = Some tu -> th_steps tu = [SIterNext; SRelease] -> th_iter tu = Some (List.length (g_oper g), i) ->
  u <> t -> g_oper g' = g_oper g.
Proof.
  intros g t g' u tu i HI Hs Hu Hst Hit Hne.
  assert (HLu : g_lock g = Some u).
  { apply (thr_ok_lock_iff g u tu (inv_thr g HI u tu Hu)). rewrite Hst. cbn; auto. }
  rewrite step_unfold in Hs. destruct (nth_error (g_threads g) t) as [ts|] eqn:Hn; [|discriminate].
  pose proof (inv_thr g HI t ts Hn) as Hok. unfold fetch in Hs.
  destruct Hok as [Hst' HL HS|k v Hst' HL HS|k v Hst' HL HS|Hst' HL HS|Hst' HL HS|i' Hst' HL HS Hit'
                  |n Hst' HL HS|n Hst' HL HS Hfo Hbu|n obj Hst' HL HS Hbu Hsg|n obj Hst' HL HS Hbu Hsg Hin
                  |n obj Hst' HL HS Hsg|Hst' HL HS]; try (exfalso; congruence); rewrite Hst' in Hs.
  - destruct (th_actions ts) as [|[k v| |n] ar] eqn:Ha; cbn [unfold_action app] in Hs; [discriminate|..]; cbn [exec] in Hs.
    + rewrite HLu in Hs. discriminate.
    + rewrite HLu in Hs. discriminate.
    + destruct (g_slock g) as [w|] eqn:HS'.
      * destruct (Nat.eqb w t); [|discriminate]. injection Hs as <-. reflexivity.
      * injection Hs as <-. reflexivity.
  - cbn [exec] in Hs. injection Hs as <-. reflexivity.
  - cbn [exec mk_ts th_found] in Hs. destruct (th_found ts); injection Hs as <-; reflexivity.
  - cbn [exec mk_ts th_built] in Hs. rewrite Hbu in Hs. injection Hs as <-. reflexivity.
  - cbn [exec mk_ts th_built] in Hs. rewrite Hbu in Hs. injection Hs as <-. reflexivity.
  - cbn [exec] in Hs. injection Hs as <-. reflexivity.
  - cbn [exec] in Hs. injection Hs as <-. reflexivity.
Qed.

(* ------------------------------------------------------------------ *)
(* singletons under the lock                                           *)
(* ------------------------------------------------------------------ *)

Lemma nodup_fst_fun : forall {A B} (l : list (A * B)) a b b',
  NoDup (map fst l) -> In (a, b) l -> In (a, b') l -> b = b'.
Proof.
  intros A B l a b b'. induction l as [|[x y] l IH]; cbn [map fst In]; intros ND H1 H2; [destruct H1|].
  inversion ND as [|? ? Hnin ND']; subst.
  destruct H1 as [H1|H1], H2 as [H2|H2].
  - congruence.
  - inversion H1; subst. exfalso. apply Hnin. apply (in_map fst) in H2. exact H2.
  - inversion H2; subst. exfalso. apply Hnin. apply (in_map fst) in H1. exact H1.
  - auto.
Qed.

Theorem C18_singleton_once : forall progs pi,
  let g := run_schedule true true (init_g progs) pi in
  (* each name is constructed at most once *)
  NoDup (map fst (g_constructed g)) /\
  (* every use (an SReadS step) yields the unique object constructed for that name *)
  (forall t g' ts name, step true true g t = Some g' -> nth_error (g_threads g) t = Some ts ->
     next_step true true ts = Some (SReadS name) ->
     exists obj ts', In (name, obj) (g_constructed g') /\
                     (forall obj', In (name, obj') (g_constructed g') -> obj' = obj) /\
                     g_constructed g' = g_constructed g /\
                     nth_error (g_threads g') t = Some ts' /\
                     th_results ts' = OZ (Z.of_nat obj) :: th_results ts) /\
  (* the cache only holds constructed objects *)
  (forall name obj, sget name (g_single g) = Some obj -> In (name, obj) (g_constructed g)).
Proof.
  intros progs pi g. pose proof (Inv_run progs pi) as HI. fold g in HI.
  split; [apply (inv_nodup g HI)|]. split; [|apply (inv_sub g HI)].
  intros t g' ts name Hs Hn Hnx.
  destruct (step_result _ _ _ _ HI Hs Hn) as (ts' & Hn' & Hr). unfold result_spec in Hr. rewrite Hnx in Hr.
  destruct Hr as (obj & A & B & C & D). exists obj, ts'.
  assert (Hin : In (name, obj) (g_constructed g')) by (rewrite C; apply (inv_sub g HI); exact B).
  repeat split; auto.
  intros obj' Hin'. eapply nodup_fst_fun; [|exact Hin'|exact Hin]. rewrite C. apply (inv_nodup g HI).
Qed.

(* the construction log only grows (any variant of the code) *)
Lemma step_constructed_incl : forall lo ls g t g',
  step lo ls g t = Some g' -> incl (g_constructed g) (g_constructed g').
Proof.
  intros lo ls g t g' Hs. rewrite step_unfold in Hs.
  destruct (nth_error (g_threads g) t) as [ts|]; [|discriminate].
  destruct (fetch lo ls ts) as [ts1 [s|]]; [|discriminate].
  destruct s; cbn [exec] in Hs;
    repeat match type of Hs with
           | match ?x with _ => _ end = _ => destruct x
           | (if ?x then _ else _) = _ => destruct x
           end; try discriminate; injection Hs as <-;
    cbn [set_thread gw g_constructed]; try apply incl_refl.
  apply incl_tl, incl_refl.
Qed.

Lemma run_constructed_incl : forall lo ls pi g, incl (g_constructed g) (g_constructed (run_schedule lo ls g pi)).
Proof.
  intros lo ls pi. induction pi as [|t pi IH]; intros g; cbn [run_schedule]; [apply incl_refl|].
  destruct (step lo ls g t) as [g'|] eqn:E; [|apply IH].
  eapply incl_tran; [eapply step_constructed_incl; exact E|apply IH].
Qed.

Lemma run_schedule_app : forall lo ls pi1 pi2 g,
  run_schedule lo ls g (pi1 ++ pi2) = run_schedule lo ls (run_schedule lo ls g pi1) pi2.
Proof. intros lo ls pi1. induction pi1 as [|t pi1 IH]; intros pi2 g; cbn [app run_schedule]; [reflexivity|apply IH]. Qed.

(* hence the object of a name never changes afterwards: all uses, at any time, get the same object *)
Corollary C18_singleton_stable : forall progs pi pi' name obj obj',
  In (name, obj) (g_constructed (run_schedule true true (init_g progs) pi)) ->
  In (name, obj') (g_constructed (run_schedule true true (init_g progs) (pi ++ pi'))) ->
  obj' = obj.
Proof.
  intros progs pi pi' name obj obj' H1 H2.
  eapply nodup_fst_fun; [apply (inv_nodup _ (Inv_run progs (pi ++ pi')))|exact H2|].
  rewrite run_schedule_app. eapply run_constructed_incl. exact H1.
Qed.

(* ------------------------------------------------------------------ *)
(* sequential equivalence                                              *)
(* ------------------------------------------------------------------ *)

Definition consistent (progs : list (list action)) : Prop :=
  forall k v1 v2 p x y, In (ACall k v1) (List.concat progs) -> In (ACall k v2) (List.concat progs) ->
    aget String.eqb p v1 = Some x -> aget String.eqb p v2 = Some y -> x = y.

Definition lookup (k : okey) (p : string) (o : oper) : option Z :=
  match oget k o with Some d => aget String.eqb p d | None => None end.

(* The statement with [consistent] as given is FALSE: [aget] reads the FIRST binding of a parameter in
   [vals], whereas the update (dict.update = fold of aset) leaves the LAST binding.  With a duplicated
   parameter name two "consistent" calls disagree on their effect and the final record depends on the order. *)
Definition cex_progs : list (list action) :=
  [[ACall ("", "f") [("p", 1%Z); ("p", 2%Z)]]; [ACall ("", "f") [("p", 1%Z)]]].
Eval vm_compute in
  (lookup ("", "f") "p" (g_oper (run_schedule true true (init_g cex_progs) [0;0;0;0;1;1;1;1])),
   lookup ("", "f") "p" (g_oper (run_schedule true true (init_g cex_progs) [1;1;1;1;0;0;0;0]))).

Theorem C18_sequential_equiv_as_stated_refuted : exists progs pi1 pi2,
  consistent progs /\
  finished (run_schedule true true (init_g progs) pi1) = true /\
  finished (run_schedule true true (init_g progs) pi2) = true /\
  exists k p, lookup k p (g_oper (run_schedule true true (init_g progs) pi1)) <>
              lookup k p (g_oper (run_schedule true true (init_g progs) pi2)).
Proof.
  exists cex_progs, [0;0;0;0;1;1;1;1], [1;1;1;1;0;0;0;0].
  split; [|split; [vm_compute; reflexivity|split; [vm_compute; reflexivity|]]].
  - intros k v1 v2 p x y H1 H2 A1 A2. cbn in H1, H2.
    destruct H1 as [H1|[H1|[]]], H2 as [H2|[H2|[]]]; inversion H1; inversion H2; subst;
      cbn in A1, A2; destruct (String.eqb p "p"); congruence.
  - exists ("", "f"), "p". vm_compute. discriminate.
Qed.

(* the effective value a call gives to parameter p: the last binding *)
Definition eff (p : string) (v : list (string * Z)) : option Z := aget String.eqb p (rev v).

(* repaired hypothesis: calls agree on their EFFECT where they overlap *)
Definition consistent_eff (progs : list (list action)) : Prop :=
  forall k v1 v2 p x y, In (ACall k v1) (List.concat progs) -> In (ACall k v2) (List.concat progs) ->
    eff p v1 = Some x -> eff p v2 = Some y -> x = y.

Lemma aget_zupdate : forall p d v,
  aget String.eqb p (zupdate d v) = match eff p v with Some x => Some x | None => aget String.eqb p d end.
Proof. intros. unfold zupdate, eff. apply aget_aupdate. apply String.eqb_eq. Qed.

Lemma oget_oset_same : forall k d o, oget k (oset k d o) = Some d.
Proof. intros. unfold oget, oset. apply aget_aset_same. apply okey_eqb_spec. Qed.
Lemma oget_oset_other : forall k k' d o, k <> k' -> oget k' (oset k d o) = oget k' o.
Proof. intros. unfold oget, oset. apply aget_aset_other; [apply okey_eqb_spec|assumption]. Qed.

Lemma okey_eq_dec : forall a b : okey, {a = b} + {a <> b}.
Proof. intros. decide equality; apply string_dec. Qed.

Lemma lookup_setdefault : forall k k' p o,
  lookup k' p (match oget k o with Some _ => o | None => oset k [] o end) = lookup k' p o.
Proof.
  intros k k' p o. destruct (oget k o) eqn:E; [reflexivity|]. unfold lookup.
  destruct (okey_eq_dec k k') as [<-|Hne].
  - rewrite oget_oset_same, E. reflexivity.
  - rewrite oget_oset_other by exact Hne. reflexivity.
Qed.

Lemma lookup_update_same : forall k p v o,
  lookup k p (oset k (zupdate (match oget k o with Some d => d | None => [] end) v) o) =
  match eff p v with Some x => Some x | None => lookup k p o end.
Proof.
  intros k p v o. unfold lookup at 1. rewrite oget_oset_same, aget_zupdate.
  destruct (eff p v); [reflexivity|]. unfold lookup. destruct (oget k o); reflexivity.
Qed.

Lemma lookup_update_other : forall k k' p d o, k <> k' -> lookup k' p (oset k d o) = lookup k' p o.
Proof. intros. unfold lookup. rewrite oget_oset_other by assumption. reflexivity. Qed.

Definition done_call (k : okey) (v : list (string * Z)) (o : oper) : Prop :=
  forall p x, eff p v = Some x -> lookup k p o = Some x.

Record SeqInv (progs : list (list action)) (g : gstate) : Prop := {
  sq_acts : forall u tu a, nth_error (g_threads g) u = Some tu -> In a (th_actions tu) -> In a (List.concat progs);
  sq_steps : forall u tu k v, nth_error (g_threads g) u = Some tu -> In (SUpdate k v) (th_steps tu) ->
               In (ACall k v) (List.concat progs);
  sq_sound : forall k p x, lookup k p (g_oper g) = Some x ->
               exists v, In (ACall k v) (List.concat progs) /\ eff p v = Some x;
  sq_compl : forall k v, In (ACall k v) (List.concat progs) ->
               (exists u tu, nth_error (g_threads g) u = Some tu /\
                             (In (ACall k v) (th_actions tu) \/ In (SUpdate k v) (th_steps tu)))
               \/ done_call k v (g_oper g) }.

Lemma SeqInv_step : forall progs g t ts g0 ts',
  SeqInv progs g -> nth_error (g_threads g) t = Some ts ->
  g_threads g0 = g_threads g ->
  (forall k p x, lookup k p (g_oper g0) = Some x ->
     lookup k p (g_oper g) = Some x \/ exists v, In (ACall k v) (List.concat progs) /\ eff p v = Some x) ->
  (forall k v, In (ACall k v) (List.concat progs) -> done_call k v (g_oper g) -> done_call k v (g_oper g0)) ->
  (forall a, In a (th_actions ts') -> In a (th_actions ts)) ->
  (forall k v, In (SUpdate k v) (th_steps ts') -> In (SUpdate k v) (th_steps ts) \/ In (ACall k v) (th_actions ts)) ->
  (forall k v, In (ACall k v) (th_actions ts) \/ In (SUpdate k v) (th_steps ts) ->
     In (ACall k v) (th_actions ts') \/ In (SUpdate k v) (th_steps ts') \/ done_call k v (g_oper g0)) ->
  SeqInv progs (set_thread g0 t ts').
Proof.
  intros progs g t ts g0 ts' HQ Hn HT Hsound Hkeep Hact Hstp Hpend.
  assert (Hn0 : nth_error (g_threads g0) t = Some ts) by (rewrite HT; exact Hn).
  constructor; cbn [set_thread g_threads g_oper].
  - intros u tu a Hu Ha. destruct (Nat.eq_dec u t) as [->|Hne].
    + rewrite (nth_error_upd_eq _ _ _ _ Hn0) in Hu. inversion Hu; subst tu.
      eapply (sq_acts _ _ HQ); [exact Hn|]. apply Hact. exact Ha.
    + rewrite nth_error_upd_neq in Hu by exact Hne. rewrite HT in Hu. eapply (sq_acts _ _ HQ); eauto.
  - intros u tu k v Hu Hs. destruct (Nat.eq_dec u t) as [->|Hne].
    + rewrite (nth_error_upd_eq _ _ _ _ Hn0) in Hu. inversion Hu; subst tu.
      destruct (Hstp k v Hs) as [A|A].
      * eapply (sq_steps _ _ HQ); eauto.
      * eapply (sq_acts _ _ HQ); eauto.
    + rewrite nth_error_upd_neq in Hu by exact Hne. rewrite HT in Hu. eapply (sq_steps _ _ HQ); eauto.
  - intros k p x Hl. destruct (Hsound k p x Hl) as [A|A]; [|exact A]. apply (sq_sound _ _ HQ). exact A.
  - intros k v Hin. destruct (sq_compl _ _ HQ k v Hin) as [(u & tu & Hu & Hp)|Hd].
    + destruct (Nat.eq_dec u t) as [->|Hne].
      * assert (tu = ts) by congruence. subst tu.
        destruct (Hpend k v Hp) as [A|[A|A]].
        -- left. exists t, ts'. split; [apply (nth_error_upd_eq _ _ _ _ Hn0)|left; exact A].
        -- left. exists t, ts'. split; [apply (nth_error_upd_eq _ _ _ _ Hn0)|right; exact A].
        -- right. exact A.
      * left. exists u, tu. split; [|exact Hp]. rewrite nth_error_upd_neq by exact Hne. rewrite HT. exact Hu.
    + right. apply Hkeep; assumption.
Qed.

(* steps that leave all lookups unchanged *)
Lemma SeqInv_step_same : forall progs g t ts g0 ts',
  SeqInv progs g -> nth_error (g_threads g) t = Some ts ->
  g_threads g0 = g_threads g ->
  (forall k p, lookup k p (g_oper g0) = lookup k p (g_oper g)) ->
  (forall a, In a (th_actions ts') -> In a (th_actions ts)) ->
  (forall k v, In (SUpdate k v) (th_steps ts') -> In (SUpdate k v) (th_steps ts) \/ In (ACall k v) (th_actions ts)) ->
  (forall k v, In (ACall k v) (th_actions ts) \/ In (SUpdate k v) (th_steps ts) ->
     In (ACall k v) (th_actions ts') \/ In (SUpdate k v) (th_steps ts')) ->
  SeqInv progs (set_thread g0 t ts').
Proof.
  intros progs g t ts g0 ts' HQ Hn HT Hl Hact Hstp Hpend.
  eapply SeqInv_step with (g := g) (ts := ts); eauto.
  - intros k p x A. left. rewrite <- Hl. exact A.
  - intros k v _ Hd p x A. rewrite Hl. apply Hd. exact A.
  - intros k v A. destruct (Hpend k v A); auto.
Qed.

Ltac seqside Hst Ha :=
  cbn [mk_ts add_result th_steps th_actions g_oper gw]; rewrite ?Hst, ?Ha; cbn [In];
  first [ reflexivity | assumption | solve [intuition congruence] ].

Lemma step_SeqInv : forall progs g t g',
  consistent_eff progs -> Inv g -> SeqInv progs g -> step true true g t = Some g' -> SeqInv progs g'.
Proof.
  intros progs g t g' HC HI HQ Hs. rewrite step_unfold in Hs.
  destruct (nth_error (g_threads g) t) as [ts|] eqn:Hn; [|discriminate].
  pose proof (inv_thr g HI t ts Hn) as Hok. unfold fetch in Hs.
  destruct Hok as [Hst HL HS|k v Hst HL HS|k v Hst HL HS|Hst HL HS|Hst HL HS|i Hst HL HS Hit
                  |n Hst HL HS|n Hst HL HS Hfo Hbu|n obj Hst HL HS Hbu Hsg|n obj Hst HL HS Hbu Hsg Hin
                  |n obj Hst HL HS Hsg|Hst HL HS]; rewrite Hst in Hs.
  - destruct (th_actions ts) as [|[k v| |n] ar] eqn:Ha; cbn [unfold_action app] in Hs; [discriminate|..]; cbn [exec] in Hs.
    + destruct (g_lock g) eqn:HL'; [discriminate|]. injection Hs as <-.
      eapply SeqInv_step_same with (g := g) (ts := ts); try solve [seqside Hst Ha].
    + destruct (g_lock g) eqn:HL'; [discriminate|]. injection Hs as <-.
      eapply SeqInv_step_same with (g := g) (ts := ts); try solve [seqside Hst Ha].
    + destruct (g_slock g) as [u|] eqn:HS'.
      * destruct (Nat.eqb u t) eqn:E; [|discriminate]. injection Hs as <-.
        eapply SeqInv_step_same with (g := g) (ts := ts); try solve [seqside Hst Ha].
      * injection Hs as <-.
        eapply SeqInv_step_same with (g := g) (ts := ts); try solve [seqside Hst Ha].
  - (* SSetDefault *)
    cbn [exec] in Hs. injection Hs as <-.
    eapply SeqInv_step_same with (g := g) (ts := ts); try solve [seqside Hst Hst].
    intros k' p. cbn [gw g_oper]. apply lookup_setdefault.
  - (* SUpdate *)
    cbn [exec] in Hs. injection Hs as <-.
    assert (Hkv : In (ACall k v) (List.concat progs)).
    { eapply (sq_steps _ _ HQ); [exact Hn|]. rewrite Hst. left; reflexivity. }
    eapply SeqInv_step with (g := g) (ts := ts); try solve [seqside Hst Hst]; cbn [gw g_oper].
    + intros k' p x Hl. destruct (okey_eq_dec k k') as [<-|Hne].
      * rewrite lookup_update_same in Hl. destruct (eff p v) eqn:E.
        -- right. exists v. split; [exact Hkv|congruence].
        -- left. exact Hl.
      * rewrite lookup_update_other in Hl by exact Hne. left. exact Hl.
    + intros k' v' Hin' Hd p x Hx. destruct (okey_eq_dec k k') as [<-|Hne].
      * rewrite lookup_update_same. destruct (eff p v) eqn:E.
        -- f_equal. eapply HC; [exact Hkv|exact Hin'|exact E|exact Hx].
        -- apply Hd. exact Hx.
      * rewrite lookup_update_other by exact Hne. apply Hd. exact Hx.
    + cbn [mk_ts th_steps th_actions]. rewrite Hst. cbn [In]. intros k' v' [A|[A|[A|[]]]]; try discriminate.
      * left. exact A.
      * inversion A; subst k' v'. right; right. intros p x Hx. rewrite lookup_update_same, Hx. reflexivity.
  - cbn [exec] in Hs. injection Hs as <-.
    eapply SeqInv_step_same with (g := g) (ts := ts); try solve [seqside Hst Hst].
  - cbn [exec] in Hs. injection Hs as <-.
    eapply SeqInv_step_same with (g := g) (ts := ts); try solve [seqside Hst Hst].
  - cbn [exec mk_ts th_iter] in Hs. rewrite Hit in Hs. rewrite Nat.eqb_refl in Hs. cbn [negb] in Hs.
    destruct (Nat.ltb i (List.length (g_oper g))); injection Hs as <-.
    + eapply SeqInv_step_same with (g := g) (ts := ts); try solve [seqside Hst Hst].
    + eapply SeqInv_step_same with (g := g) (ts := ts); try solve [seqside Hst Hst].
  - cbn [exec] in Hs. injection Hs as <-.
    eapply SeqInv_step_same with (g := g) (ts := ts); try solve [seqside Hst Hst].
  - cbn [exec mk_ts th_found] in Hs. destruct (th_found ts); injection Hs as <-.
    + eapply SeqInv_step_same with (g := g) (ts := ts); try solve [seqside Hst Hst].
    + eapply SeqInv_step_same with (g := g) (ts := ts); try solve [seqside Hst Hst].
  - cbn [exec mk_ts th_built] in Hs. rewrite Hbu in Hs. injection Hs as <-.
    eapply SeqInv_step_same with (g := g) (ts := ts); try solve [seqside Hst Hst].
  - cbn [exec mk_ts th_built] in Hs. rewrite Hbu in Hs. injection Hs as <-.
    eapply SeqInv_step_same with (g := g) (ts := ts); try solve [seqside Hst Hst].
  - cbn [exec] in Hs. injection Hs as <-.
    eapply SeqInv_step_same with (g := g) (ts := ts); try solve [seqside Hst Hst].
  - cbn [exec] in Hs. injection Hs as <-.
    eapply SeqInv_step_same with (g := g) (ts := ts); try solve [seqside Hst Hst].
Qed.

Lemma SeqInv_init : forall progs, SeqInv progs (init_g progs).
Proof.
  intros progs. constructor; cbn [init_g g_threads g_oper].
  - intros u tu a Hu Ha. rewrite nth_error_map in Hu. destruct (nth_error progs u) as [acts|] eqn:E; inversion Hu; subst tu.
    cbn [init_thread th_actions] in Ha. apply in_concat. exists acts. split; [eapply nth_error_In; exact E|exact Ha].
  - intros u tu k v Hu Hs. rewrite nth_error_map in Hu. destruct (nth_error progs u); inversion Hu; subst tu. destruct Hs.
  - intros k p x H. discriminate.
  - intros k v Hin. left. apply in_concat in Hin. destruct Hin as (acts & Hacts & Hin).
    apply In_nth_error in Hacts. destruct Hacts as [u Hu]. exists u, (init_thread acts). split.
    + apply map_nth_error. exact Hu.
    + left. exact Hin.
Qed.

Lemma SeqInv_run_from : forall progs, consistent_eff progs ->
  forall pi g, Inv g -> SeqInv progs g -> SeqInv progs (run_schedule true true g pi).
Proof.
  intros progs HC. induction pi as [|t pi IH]; intros g HI HQ; cbn [run_schedule]; [exact HQ|].
  destruct (step true true g t) as [g'|] eqn:E; [|apply IH; assumption].
  apply IH; [eapply step_Inv; eauto|eapply step_SeqInv; eauto].
Qed.

Lemma finished_thread : forall g u tu, finished g = true -> nth_error (g_threads g) u = Some tu ->
  th_steps tu = [] /\ th_actions tu = [].
Proof.
  intros g u tu Hf Hu. unfold finished in Hf. rewrite forallb_forall in Hf.
  specialize (Hf tu (nth_error_In _ _ Hu)). destruct (th_steps tu); [|discriminate]. destruct (th_actions tu); [|discriminate].
  split; reflexivity.
Qed.

(* extensional characterisation of the final record *)
Theorem C18_final_lookup : forall progs pi, consistent_eff progs ->
  let g := run_schedule true true (init_g progs) pi in
  finished g = true ->
  forall k p x, lookup k p (g_oper g) = Some x <-> exists v, In (ACall k v) (List.concat progs) /\ eff p v = Some x.
Proof.
  intros progs pi HC g Hf k p x.
  assert (HQ : SeqInv progs g) by (apply SeqInv_run_from; [exact HC|apply Inv_init|apply SeqInv_init]).
  split; [apply (sq_sound _ _ HQ)|].
  intros (v & Hin & Hx). destruct (sq_compl _ _ HQ k v Hin) as [(u & tu & Hu & Hp)|Hd]; [|apply Hd; exact Hx].
  destruct (finished_thread g u tu Hf Hu) as [E1 E2]. rewrite E1, E2 in Hp. destruct Hp as [[]|[]].
Qed.

(* lookups in the final record do not depend on the schedule (repaired hypothesis: [consistent_eff]) *)
Theorem C18_sequential_equiv : forall progs pi1 pi2, consistent_eff progs ->
  finished (run_schedule true true (init_g progs) pi1) = true ->
  finished (run_schedule true true (init_g progs) pi2) = true ->
  forall k p, (match oget k (g_oper (run_schedule true true (init_g progs) pi1)) with Some d => aget String.eqb p d | None => None end) =
              (match oget k (g_oper (run_schedule true true (init_g progs) pi2)) with Some d => aget String.eqb p d | None => None end).
Proof.
  intros progs pi1 pi2 HC F1 F2 k p.
  change (lookup k p (g_oper (run_schedule true true (init_g progs) pi1)) =
          lookup k p (g_oper (run_schedule true true (init_g progs) pi2))).
  pose proof (C18_final_lookup progs pi1 HC F1 k p) as H1.
  pose proof (C18_final_lookup progs pi2 HC F2 k p) as H2.
  destruct (lookup k p (g_oper (run_schedule true true (init_g progs) pi1))) as [x|] eqn:E1.
  - assert (A : lookup k p (g_oper (run_schedule true true (init_g progs) pi2)) = Some x) by (apply H2; apply H1; reflexivity).
    symmetry. exact A.
  - destruct (lookup k p (g_oper (run_schedule true true (init_g progs) pi2))) as [y|] eqn:E2; [|reflexivity].
    assert (A : None = Some y) by (apply H1; apply H2; reflexivity). discriminate A.
Qed.

(* the original hypothesis is enough when no call repeats a parameter name (true of Python keyword arguments) *)
Lemma aget_rev_nodup : forall p (v : list (string * Z)), NoDup (map fst v) -> aget String.eqb p (rev v) = aget String.eqb p v.
Proof.
  intros p v ND.
  assert (NDr : NoDup (map fst (rev v))).
  { rewrite map_rev. apply NoDup_rev. exact ND. }
  destruct (aget String.eqb p v) as [x|] eqn:E.
  - apply (In_aget_nodup String.eqb String.eqb_eq); [exact NDr|]. apply in_rev. rewrite rev_involutive.
    apply (aget_In String.eqb String.eqb_eq). exact E.
  - destruct (aget String.eqb p (rev v)) as [y|] eqn:E'; [|reflexivity].
    apply (aget_In String.eqb String.eqb_eq) in E'. apply in_rev in E'.
    apply (In_aget_nodup String.eqb String.eqb_eq _ _ _ ND) in E'. congruence.
Qed.

Corollary C18_sequential_equiv_nodup : forall progs pi1 pi2,
  (forall k v, In (ACall k v) (List.concat progs) -> NoDup (map fst v)) ->
  consistent progs ->
  finished (run_schedule true true (init_g progs) pi1) = true ->
  finished (run_schedule true true (init_g progs) pi2) = true ->
  forall k p, lookup k p (g_oper (run_schedule true true (init_g progs) pi1)) =
              lookup k p (g_oper (run_schedule true true (init_g progs) pi2)).
Proof.
  intros progs pi1 pi2 HN HC F1 F2 k p. apply C18_sequential_equiv; try assumption.
  intros k0 v1 v2 p0 x y I1 I2 E1 E2. unfold eff in E1, E2.
  rewrite aget_rev_nodup in E1 by (eapply HN; exact I1). rewrite aget_rev_nodup in E2 by (eapply HN; exact I2).
  exact (HC k0 v1 v2 p0 x y I1 I2 E1 E2).
Qed.


Print Assumptions C18_singleton_orig_refuted.
Print Assumptions C18_unlocked_read_can_fail.
Print Assumptions C18_mutual_exclusion.
Print Assumptions C18_mutual_exclusion_singletons.
Print Assumptions C18_at_most_one_in_cs.
Print Assumptions C18_no_failure.
Print Assumptions C18_read_is_snapshot.
Print Assumptions C18_read_is_snapshot_weak.
Print Assumptions step_frame_oper.
Print Assumptions C18_singleton_once.
Print Assumptions C18_singleton_stable.
Print Assumptions C18_sequential_equiv_as_stated_refuted.
Print Assumptions C18_final_lookup.
Print Assumptions C18_sequential_equiv.
Print Assumptions C18_sequential_equiv_nodup.
