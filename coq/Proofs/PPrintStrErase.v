(* pformat_s (Model/PPrintStr.v) is pformat (Model/PPrint.v) of the erased tree whenever pprint splits no str of the value
   -- in particular for values without strs, and for strs without blanks.  So the theorems about pformat (Props/PPrint.v) are
   the special case. *)
From Coq Require Import List String ZArith NArith Bool Arith Ascii Lia.
From GinV Require Import Lib.Out Lib.PyStr Model.Parser Model.ParserSpec Model.Repr Model.ReprText Model.Lexer.
From GinV Require Import Proofs.ReprProofs Proofs.ReprTextProofs Model.PPrint Proofs.PPrintProofs Model.StrLit Model.PPrintStr Model.PPrintStrLit Proofs.PPrintStrLayout.
Import ListNotations.
Open Scope string_scope. Open Scope list_scope.

(* no str of the value is split at width [w], wherever it stands *)
Definition unsplit (w : nat) (v : sv) : Prop :=
  forall s, In s (sv_strs v) -> forall i a top, pprint_str w s i a top = repr_str s.
Definition EQall (w : nat) (x : sv) : Prop := unsplit w x -> forall i a top, pformat_s_at w x i a top = pformat_at w (erase x) i a.

Lemma unsplit_items : forall w x r, unsplit w (SList (x :: r)) -> unsplit w x /\ unsplit w (SList r).
Proof. intros w x r H. split; intros s Hs; apply H; cbn [sv_strs flat_map]; apply in_or_app; [left | right]; exact Hs. Qed.
Lemma ps_items_eq : forall w ind alast l, Forall (EQall w) l -> unsplit w (SList l) -> ps_items w ind alast l = pp_items w ind alast (map erase l).
Proof.
  intros w ind alast. induction l as [|x r IH]; intros H Hu; [reflexivity|]. destruct (unsplit_items w x r Hu) as [Ux Ur].
  pose proof (Forall_inv H Ux) as Ex. specialize (IH (Forall_inv_tail H) Ur). destruct r as [|y r'].
  - cbn [ps_items pp_items map]. apply Ex.
  - change (ps_items w ind alast (x :: y :: r')) with (pformat_s_at w x ind 1 false ++ delimnl ind ++ ps_items w ind alast (y :: r'))%string.
    change (pp_items w ind alast (map erase (x :: y :: r'))) with (pformat_at w (erase x) ind 1 ++ delimnl ind ++ pp_items w ind alast (map erase (y :: r')))%string.
    rewrite Ex, IH. reflexivity.
Qed.
Lemma unsplit_ditems : forall w k x r, unsplit w (SDict ((k, x) :: r)) -> unsplit w x /\ unsplit w (SDict r).
Proof.
  intros w k x r H. split; intros s Hs; apply H; cbn [sv_strs flat_map fst snd]; apply in_or_app; [left; apply in_or_app; right | right]; exact Hs.
Qed.
Lemma ps_ditems_eq : forall w ind alast l, Forall (fun kv => EQall w (fst kv) /\ EQall w (snd kv)) l -> unsplit w (SDict l) ->
  ps_ditems w ind alast l = pp_ditems w ind alast (map (fun kv => (erase (fst kv), erase (snd kv))) l).
Proof.
  intros w ind alast. induction l as [|[k x] r IH]; intros H Hu; [reflexivity|]. destruct (unsplit_ditems w k x r Hu) as [Ux Ur].
  destruct (Forall_inv H) as [_ Ex]. cbn [fst snd] in Ex. specialize (Ex Ux). specialize (IH (Forall_inv_tail H) Ur). destruct r as [|y r'].
  - cbn [ps_ditems pp_ditems map fst snd]. unfold repr_string_s. rewrite Ex. reflexivity.
  - change (ps_ditems w ind alast ((k, x) :: y :: r'))
      with (repr_string_s k ++ ": " ++ pformat_s_at w x (ind + String.length (repr_string_s k) + 2) 1 false ++ delimnl ind ++ ps_ditems w ind alast (y :: r'))%string.
    cbn [map]. change (pp_ditems w ind alast ((erase k, erase x) :: map (fun kv => (erase (fst kv), erase (snd kv))) (y :: r')))
      with (repr_string (erase k) ++ ": " ++ pformat_at w (erase x) (ind + String.length (repr_string (erase k)) + 2) 1 ++ delimnl ind ++
            pp_ditems w ind alast (map (fun kv => (erase (fst kv), erase (snd kv))) (y :: r')))%string.
    unfold repr_string_s. rewrite Ex, IH. reflexivity.
Qed.

Theorem pformat_s_at_unsplit : forall w v, EQall w v.
Proof.
  intros w. induction v as [t|t|s|t|l IH|l IH|l IH] using sv_ind'; intros Hu i a top.
  - reflexivity.
  - reflexivity.
  - cbn [pformat_s_at erase pformat_at]. unfold repr_string_s. cbn [erase repr_string str_tok text].
    destruct (too_wide _ _ _ _); [|reflexivity]. apply Hu. left. reflexivity.
  - reflexivity.
  - rewrite pformat_s_at_SList. cbn [erase]. rewrite pformat_at_PList, (ps_items_eq w (S i) (S a) l IH Hu). reflexivity.
  - rewrite pformat_s_at_STuple. cbn [erase]. rewrite pformat_at_PTuple.
    assert (Hu' : unsplit w (SList l)) by exact Hu. rewrite (ps_items_eq w (S i) (a + tup_end l) l IH Hu').
    unfold repr_string_s, tup_end, tup_tr. cbn [erase]. destruct l as [|? [|? ?]]; reflexivity.
  - rewrite pformat_s_at_SDict. cbn [erase]. rewrite pformat_at_PDict, (ps_ditems_eq w (S i) (S a) l IH Hu). reflexivity.
Qed.
Theorem pformat_s_unsplit : forall w v, unsplit w v -> pformat_s w v = pformat w (erase v).
Proof. intros w v H. exact (pformat_s_at_unsplit w v H 0 0 true). Qed.
(* values without strs *)
Corollary pformat_s_str_free : forall w v, sv_strs v = [] -> pformat_s w v = pformat w (erase v).
Proof. intros w v H. apply pformat_s_unsplit. intros s Hs. rewrite H in Hs. destruct Hs. Qed.
