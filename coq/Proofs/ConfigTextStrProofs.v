(* config_text_s (Model/ConfigTextStr.v: config_str for values whose strs carry their content, value texts written by
   pformat_s with the splitting of long strs) is lexed and parsed into exactly the emitted bindings.
   1. the PPS counterpart of PP_indent (continuation lines)
   2. one binding: lex_bind_abs (any value text), binding_s_lexes
   3. items and the whole text *)
From Coq Require Import List String ZArith NArith Bool Arith Ascii Lia.
From GinV Require Import Lib.Out Lib.PyStr Model.SelectorMap Model.Parser Model.ParserSpec Model.ParserSpec2 Model.Repr Model.ReprText.
From GinV Require Import Proofs.ParserLemmas Proofs.ParserSmall Proofs.ParserProofs Proofs.ParserSound Proofs.ParserApi.
From GinV Require Import Proofs.ParserSim Proofs.ReprProofs Proofs.StatementProofs.
From GinV Require Import Model.Lexer Proofs.LexerProofs Proofs.LexerParser Proofs.ReprTextProofs.
From GinV Require Import Model.PPrint Proofs.PPrintProofs Model.Serial Model.ConfigText Proofs.ConfigTextProofs.
From GinV Require Import Model.StrLit Proofs.StrLitProofs Proofs.StrLitLex Model.PPrintStr Model.PPrintStrLit Proofs.PPrintStrLayout Model.ConfigTextStr.
Import ListNotations.
Open Scope char_scope. Open Scope list_scope. Open Scope nat_scope.

(* ================================================================== *)
(* 1. indentation of continuation lines *)
Lemma cs_str_of : forall l, cs (str_of l) = map ascii_of_N l.
Proof. intro l. unfold cs, str_of. apply list_ascii_of_string_of_list_ascii. Qed.
Lemma repr_nl_free : forall c, ascii_str c -> nl_free (cs (repr_str c)).
Proof.
  intros c Hc. unfold repr_str. rewrite cs_str_of.
  assert (Hb : Forall (fun x => (x <= 0x10FFFF)%N) c) by (eapply Forall_impl; [|exact Hc]; intros x Hx; cbv beta in Hx; lia).
  assert (Hp : Forall (fun x => (x < 128)%N \/ ascii_printable x = false) c) by (eapply Forall_impl; [|exact Hc]; intros x Hx; left; exact Hx).
  pose proof (proj2 (repr_str_single_line ascii_printable c Hb) Hp) as H.
  unfold nl_free. induction H as [|x l Hx _ IH]; [reflexivity|]. cbn [map forallb]. rewrite IH, andb_true_r.
  unfold printable_ascii in Hx. apply andb_true_iff in Hx. destruct Hx as [H1 H2]. apply N.leb_le in H1, H2.
  unfold not_nl. apply negb_true_iff. apply Ascii.eqb_neq. intro E. apply (f_equal N_of_ascii) in E.
  rewrite N_ascii_embedding in E by lia. vm_compute in E. lia.
Qed.
Lemma indent_strs : forall j k chunks, Forall ascii_str chunks -> indent_chars j (strs_chars k chunks) = strs_chars (j + k) chunks.
Proof.
  intros j k. induction chunks as [|c r IH]; intro H; [reflexivity|]. destruct r as [|d r'].
  - cbn [strs_chars]. apply indent_nl_free. exact (repr_nl_free c (Forall_inv H)).
  - change (strs_chars k (c :: d :: r')) with (cs (repr_str c) ++ [nl] ++ repeat " " k ++ strs_chars k (d :: r')).
    change (strs_chars (j + k) (c :: d :: r')) with (cs (repr_str c) ++ nl :: repeat " " (j + k) ++ strs_chars (j + k) (d :: r')).
    rewrite !indent_chars_app, (indent_nl_free j _ (repr_nl_free c (Forall_inv H))), (IH (Forall_inv_tail H)).
    cbn [indent_chars app]. rewrite Ascii.eqb_refl. cbn [app]. rewrite app_nil_r, repeat_app, <- app_assoc.
    rewrite (indent_nl_free j (repeat " " k)); [reflexivity|]. unfold nl_free. clear. induction k as [|k IH]; [reflexivity | exact IH].
Qed.
Definition sf_nlfree (f : sfrag) : Prop := Forall nl_free_atom (sf_atoms f) /\ Forall ascii_str (sf_strs f).
Theorem PPS_indent : forall j f c ts sl L, PPS f c ts sl L -> sf_okP nl_free_atom f -> PPS f (indent_chars j c) ts sl L.
Proof.
  intros j f c ts sl L H. induction H; intro Hok.
  - rewrite (indent_nl_free j _ (Forall_inv (proj1 Hok))). constructor.
  - change ("-" :: cs (text t)) with (["-"] ++ cs (text t)). rewrite indent_chars_app, (indent_nl_free j (cs (text t)) (Forall_inv (proj1 Hok))). constructor.
  - rewrite (indent_nl_free j _ (Forall_inv (proj1 Hok))). constructor.
  - rewrite (indent_strs j k chunks (chunks_ascii s chunks H0 (Forall_inv (proj2 Hok)))). apply S_strs; assumption.
  - change ("(" :: strs_chars k chunks ++ [")"]) with (["("] ++ strs_chars k chunks ++ [")"]). rewrite !indent_chars_app.
    rewrite (indent_strs j k chunks (chunks_ascii s chunks H0 (Forall_inv (proj2 Hok)))). apply S_paren; assumption.
  - change ("[" :: c ++ ["]"]) with (["["] ++ c ++ ["]"]). rewrite !indent_chars_app. apply S_list. exact (IHPPS Hok).
  - change ("(" :: (c ++ strail_c l) ++ [")"]) with (["("] ++ (c ++ strail_c l) ++ [")"]). rewrite !indent_chars_app.
    replace (indent_chars j (strail_c l)) with (strail_c l) by (destruct l as [|? [|? ?]]; reflexivity). apply S_tuple. exact (IHPPS Hok).
  - change ("{" :: c ++ ["}"]) with (["{"] ++ c ++ ["}"]). rewrite !indent_chars_app. apply S_dict. exact (IHPPS Hok).
  - constructor.
  - apply S_one. exact (IHPPS (proj1 (okP_cons _ _ _ Hok))).
  - destruct (okP_cons _ _ _ Hok) as [Ox Or]. rewrite !indent_chars_app. destruct (indent_sep j s) as [s' [-> <-]].
    apply S_cons; [exact (IHPPS1 Ox) | exact (IHPPS2 Or)].
  - constructor.
  - destruct (okP_dcons _ _ _ _ Hok) as [Ok [Ox _]]. rewrite !indent_chars_app. apply S_done; [exact (IHPPS1 Ok) | exact (IHPPS2 Ox)].
  - destruct (okP_dcons _ _ _ _ Hok) as [Ok [Ox Or]]. rewrite !indent_chars_app. destruct (indent_sep j s) as [s' [-> <-]].
    apply S_dcons; [exact (IHPPS1 Ok) | exact (IHPPS2 Ox) | exact (IHPPS3 Or)].
Qed.

(* ================================================================== *)
(* 2. one binding *)
(* one binding from its "=" on, for ANY value text [V] that is lexed as tokens [ts] rendering a literal tree of value [x] *)
Lemma lex_bind_abs : forall o d V ts x row parts k (cont : bool) R,
  lexes_as V ts d -> d <= 200 -> Forall (Qtok o) ts ->
  (exists lit lay n n', lay_ok lay /\ lit_wf o lit /\ py_eval o lit = Some x /\ render lit lay n false = (ts, n') /\ Forall tok_ok ts) ->
  (exists c0 r0, V = c0 :: r0) -> wf_name parts ->
  let text := flat_map cs parts ++ [" "; "="] ++ (if cont then [" "; "\"; nl] ++ repeat " " k else [" "]) ++ V in
  exists eqt vtoks nlt,
    tk_ok o (TKBind row parts eqt vtoks nlt x) /\ Forall (Qtok o) (tk_tokens (TKBind row parts eqt vtoks nlt x)) /\
    Steps false (bol_st row) (text ++ nl :: R) (tk_tokens (TKBind row parts eqt vtoks nlt x))
          (bol_st (S (row + count_nl_chars text))) R.
Proof.
  intros o d V ts x row parts k cont R Hlex Hd HQ Hrend [v0 [V' EV]] Hname text.
  destruct (wf_name_alt _ Hname) as [_ [_ Halt]]. destruct (key_first parts Hname) as [c0 [K [EK Hc0]]].
  destruct (alpha_tests c0 Hc0) as [_ [_ [_ [_ Hbp]]]].
  set (tail := (if cont then [" "; "\"; nl] ++ repeat " " k else [" "]) ++ V ++ nl :: R).
  assert (Etext : text ++ nl :: R = flat_map cs parts ++ " " :: "=" :: tail).
  { unfold text, tail. rewrite <- !app_assoc. reflexivity. }
  (* 1. start of the line, 2. the key, 3. "=" *)
  assert (S1 : Steps false (bol_st row) (text ++ nl :: R) [] (mid_st row 0) (text ++ nl :: R)).
  { apply Steps_one. rewrite Etext, EK. cbn [app]. exact (step_bol_key row c0 _ Hbp). }
  pose proof (lex_key parts true row 0 ("=" :: tail) Halt) as S2. rewrite <- Etext in S2.
  set (st2 := mid_st row (0 + List.length (flat_map cs parts))) in *.
  assert (Htail : exists x0 X0, tail = " " :: x0 :: X0).
  { unfold tail. destruct cont; [eexists _, _; reflexivity|]. rewrite EV. eexists _, _. reflexivity. }
  destruct Htail as [x0 [X0 Etail]].
  pose proof (step_eq st2 x0 X0 eq_refl) as S3. rewrite <- Etail in S3.
  set (eqt := mk OP ["="] (pos_after (lpos st2) [" "])) in *.
  set (st3 := {| lpos := pos_after (pos_after (lpos st2) [" "]) ["="]; atbol := false; stack := stack st2; level := level st2 |}) in *.
  (* 4. the value *)
  assert (S4 : exists vtoks st4, Steps false st3 tail vtoks st4 (nl :: R) /\ spell vtoks = spell ts /\
                                 atbol st4 = false /\ level st4 = 0 /\ stack st4 = []).
  { unfold tail. destruct cont.
    - assert (Hne : exists c1 r1, repeat " " k ++ V ++ nl :: R = c1 :: r1).
      { destruct k as [|k']; [rewrite EV; eexists _, _; reflexivity | eexists _, _; reflexivity]. }
      destruct Hne as [c1 [r1 E1]].
      pose proof (step_cont st3 c1 r1 eq_refl) as Sc. rewrite <- E1 in Sc.
      set (st3' := move st3 (next_line (pos_after (lpos st3) [" "])) false) in *.
      destruct (Hlex false st3' (repeat " " k) (nl :: R) eq_refl) as [vtoks [st4 [Sv [Sp [B4 [L4 K4]]]]]].
      { clear. induction k; constructor; [reflexivity | assumption]. }
      { cbn [level st3' move st3 st2 mid_st]. unfold MAXLEVEL. lia. }
      { exact (follows_cons nl R eq_refl). }
      exists vtoks, st4. split; [|split; [exact Sp | split; [exact B4 | split; [rewrite L4; reflexivity | rewrite K4; reflexivity]]]].
      change vtoks with ([] ++ vtoks). eapply Steps_step; [|exact Sv]. rewrite <- !app_assoc. cbn [app]. exact Sc.
    - destruct (Hlex false st3 [" "] (nl :: R) eq_refl) as [vtoks [st4 [Sv [Sp [B4 [L4 K4]]]]]].
      { repeat constructor. }
      { cbn [level st3 st2 mid_st]. unfold MAXLEVEL. lia. }
      { exact (follows_cons nl R eq_refl). }
      exists vtoks, st4. split; [exact Sv|]. split; [exact Sp|]. split; [exact B4|]. split; [rewrite L4; reflexivity | rewrite K4; reflexivity]. }
  destruct S4 as [vtoks [st4 [S4 [Sp [B4 [L4 K4]]]]]].
  (* 5. the end of the line *)
  pose proof (step_newline0 st4 R B4 L4) as S5.
  set (nlt := mk_nl NEWLINE false R (lpos st4)) in *.
  set (st5 := move st4 (next_line (lpos st4)) true) in *.
  assert (SS : Steps false (bol_st row) (text ++ nl :: R) (name_tokens row 0 parts true ++ eqt :: vtoks ++ [nlt]) st5 R).
  { change (name_tokens row 0 parts true ++ eqt :: vtoks ++ [nlt]) with ([] ++ name_tokens row 0 parts true ++ [eqt] ++ vtoks ++ [nlt]).
    eapply Steps_trans; [exact S1|]. eapply Steps_trans; [exact S2|]. eapply Steps_step; [exact S3|].
    eapply Steps_trans; [exact S4|]. apply Steps_one. exact S5. }
  exists eqt, vtoks, nlt. split; [|split].
  - cbn [tk_ok]. split; [exact Hname|]. split; [reflexivity|]. split; [reflexivity|]. split; [reflexivity|].
    destruct Hrend as [lit [lay [n [n' [A1 [A2 [A3 [A4 A5]]]]]]]]. exists lit, lay, n, n', ts. repeat split; try assumption. symmetry. exact Sp.
  - cbn [tk_tokens]. apply Forall_app. split; [exact (Qtok_name_tokens o parts true row 0 Halt)|].
    constructor; [apply Qtok_not_string; cbn; discriminate|]. apply Forall_app. split; [exact (spell_Q o _ _ Sp HQ)|].
    constructor; [apply Qtok_not_string; cbn; discriminate | constructor].
  - cbn [tk_tokens].
    destruct (Steps_consumed _ _ _ _ _ _ SS) as [c [Ec Hpos]].
    assert (Ec2 : c = text ++ [nl]).
    { apply (app_inv_tail R). rewrite <- Ec, <- app_assoc. reflexivity. }
    subst c. cbn [lpos bol_st] in Hpos. rewrite pos_after_snoc_nl in Hpos.
    replace (bol_st (S (row + count_nl_chars text))) with st5; [exact SS|].
    unfold st5, move, bol_st. cbn [lpos] in Hpos. unfold st5, move in Hpos. cbn [lpos] in Hpos. rewrite Hpos, K4, L4.
    unfold next_line. rewrite pos_after_row. reflexivity.
Qed.

(* the oracle gives no value to "-" followed by a str literal (ast.literal_eval has none) *)
Definition str_neg_all (o : oracle) : Prop := forall s w, olookup o ("-" ++ repr_str s)%string <> Some (Some w).
Definition sbind_ok (o : oracle) (w : nat) (key : string) (v : sv) : Prop :=
  wf_name (key_parts key) /\ lit_wf o (pformat_s_lit w v) /\ (exists x, denote o (erase v) = Some x) /\
  Forall atom_lexable (sv_atoms v) /\ Forall nl_free_atom (sv_atoms v) /\ Forall ascii_str (sv_strs v) /\ svd v < 200 /\
  Forall (fun t => ty t = STRING -> forall w', olookup o ("-" ++ text t)%string <> Some (Some w')) (sv_atoms v).

Lemma value_tokens_s : forall o strv w v V ts sl x,
  oracle_agrees_with_decode o strv -> str_neg_all o ->
  PPS (SFV v) V ts sl (L1 (pformat_s_lit w v)) -> lit_wf o (pformat_s_lit w v) -> denote o (erase v) = Some x ->
  Forall atom_lexable (sv_atoms v) -> Forall ascii_str (sv_strs v) ->
  Forall (fun t => ty t = STRING -> forall w', olookup o ("-" ++ text t)%string <> Some (Some w')) (sv_atoms v) ->
  lexes_as V ts (S (svd v)) /\ Forall (Qtok o) ts /\
  (exists lit lay n n', lay_ok lay /\ lit_wf o lit /\ py_eval o lit = Some x /\ render lit lay n false = (ts, n') /\ Forall tok_ok ts) /\
  exists c0 r0, V = c0 :: r0.
Proof.
  intros o strv w v V ts sl x Hag Hna HPP Hwf Hden Hat Hst Hneg.
  assert (Hsc : Forall atom_scans (sv_atoms v)) by (eapply Forall_impl; [|exact Hat]; exact atom_lexable_scans).
  assert (Hok : sf_ok (SFV v)) by (split; assumption).
  pose proof (top_stop w v 0 0) as Htop. fold (pformat_s_lit w v) in Htop.
  split; [exact (proj2 (PPS_lex _ _ _ _ _ HPP Hok) Htop)|]. split; [|split].
  - apply (PPS_toks_Forall (Qtok o)) with (f := SFV v) (c := V) (sl := sl) (L := L1 (pformat_s_lit w v)); [| | |exact HPP|].
    + intros s Hp. apply Qtok_not_string; cbn [op_tok ty text]; [discriminate | |];
        unfold punct in Hp; cbn [In] in Hp; decompose [or] Hp; try contradiction; subst s; discriminate.
    + apply Qtok_not_string; cbn [nl_tok ty text]; discriminate.
    + intros c Hc. destruct (atom_scans_tok_ok _ (chunk_scans c Hc)) as [_ [N1 N2]]. unfold Qtok, Qtk, tk. cbn [fst snd]. repeat split; try assumption.
      intros _ w'. exact (Hna c w').
    + split; [|exact Hst]. cbn [sf_atoms]. rewrite Forall_forall in *. intros t Ht.
      destruct (atom_scans_tok_ok t (Hsc t Ht)) as [_ [N1 N2]]. unfold Qtok, Qtk, tk. cbn [fst snd]. repeat split; try assumption. exact (Hneg t Ht).
  - pose proof (PPS_slots _ _ _ _ _ HPP) as Hsl.
    exists (pformat_s_lit w v), (lay_of sl), 0, (0 + List.length sl).
    split; [intro k; apply slot_ok_trivia, lay_of_slot; exact Hsl|]. split; [exact Hwf|].
    split; [exact (PPS_eval o strv Hag _ _ _ _ _ HPP Hst Hwf x Hden)|].
    split; [exact (PPS_render _ _ _ _ _ HPP (lay_of sl) 0 (lay_of_window sl) false (fun _ => Htop))|].
    apply (PPS_toks_Forall tok_ok) with (f := SFV v) (c := V) (sl := sl) (L := L1 (pformat_s_lit w v)); [intros s _; apply op_tok_ok | | | exact HPP |].
    + intros [C|[C|C]]; discriminate C.
    + intros c Hc. exact (proj1 (atom_scans_tok_ok _ (chunk_scans c Hc))).
    + split; [|exact Hst]. cbn [sf_atoms]. eapply Forall_impl; [|exact Hsc]. intros t Ht. exact (proj1 (atom_scans_tok_ok t Ht)).
  - destruct (PPS_first _ _ _ _ _ HPP Hok I) as [c0 [r0 [E _]]]. exists c0, r0. exact E.
Qed.

Lemma format_binding_s_shape : forall maxlen indent key v, Forall nl_free_atom (sv_atoms v) -> Forall ascii_str (sv_strs v) ->
  exists (cont : bool) V ts sl, PPS (SFV v) V ts sl (L1 (pformat_s_lit (maxlen - indent) v)) /\
    cs (format_binding_s maxlen indent key v) =
    cs key ++ [" "; "="] ++ (if cont then [" "; "\"; nl] ++ repeat " " indent else [" "]) ++ V.
Proof.
  intros maxlen indent key v Hnl Hst. unfold format_binding_s, pformat_s, pformat_s_lit.
  destruct (pformat_s_at_PPS (maxlen - indent) v 0 0 true) as [ts [sl HPP]].
  set (text := pformat_s_at (maxlen - indent) v 0 0 true) in *.
  destruct (negb (has_nl text) && (String.length key + String.length text <=? maxlen)).
  - exists false, (cs text), ts, sl. split; [exact HPP|]. rewrite !cs_app. reflexivity.
  - exists true, (indent_chars indent (cs text)), ts, sl. split; [exact (PPS_indent indent _ _ _ _ _ HPP (conj Hnl Hst))|].
    unfold indent_lines. rewrite !cs_app, cs_blanks, cs_indent_lines_from. reflexivity.
Qed.

(* ONE BINDING of config_text_s, in either form, with split strings in its value *)
Theorem binding_s_lexes : forall o strv maxlen indent key v row R,
  oracle_agrees_with_decode o strv -> str_neg_all o -> sbind_ok o (maxlen - indent) key v ->
  exists eqt vtoks nlt x, denote o (erase v) = Some x /\
    tk_ok o (TKBind row (key_parts key) eqt vtoks nlt x) /\
    Forall (Qtok o) (tk_tokens (TKBind row (key_parts key) eqt vtoks nlt x)) /\
    Steps false (bol_st row) (cs (format_binding_s maxlen indent key v) ++ nl :: R)
          (name_tokens row 0 (key_parts key) true ++ eqt :: vtoks ++ [nlt])
          (bol_st (row + S (count_nl (format_binding_s maxlen indent key v)))) R.
Proof.
  intros o strv maxlen indent key v row R Hag Hna [Hname [Hwf [[x Hden] [Hat [Hnl [Hst [Hd Hneg]]]]]]].
  destruct (format_binding_s_shape maxlen indent key v Hnl Hst) as [cont [V [ts [sl [HPP Ecs]]]]].
  destruct (value_tokens_s o strv _ v V ts sl x Hag Hna HPP Hwf Hden Hat Hst Hneg) as [Hlex [HQ [Hrend Hfirst]]].
  destruct (lex_bind_abs o (S (svd v)) V ts x row (key_parts key) indent cont R Hlex ltac:(lia) HQ Hrend Hfirst Hname)
    as [eqt [vtoks [nlt [Hk [HQ2 HS]]]]].
  rewrite <- cs_concat in HS. unfold name_text in *. rewrite key_parts_concat in HS. rewrite <- Ecs in HS.
  exists eqt, vtoks, nlt, x. split; [exact Hden|]. split; [exact Hk|]. split; [exact HQ2|].
  rewrite <- count_nl_cs, Nat.add_succ_r. exact HS.
Qed.

(* ================================================================== *)
(* 3. items, the whole text *)
Definition sitem_ok (o : oracle) (w : nat) (it : sitem) : Prop :=
  match it with
  | SComment s => exists body, cs s = "#" :: body /\ nl_free body
  | SBlank => True
  | SBindS key v => sbind_ok o w key v
  end.
Lemma lex_sitem : forall o strv maxlen indent it row R, oracle_agrees_with_decode o strv -> str_neg_all o ->
  sitem_ok o (maxlen - indent) it ->
  exists ti, tk_ok o ti /\ tk_stmts ti = sitem_stmts o it row /\ Forall (Qtok o) (tk_tokens ti) /\
    Steps false (bol_st row) (cs (sitem_text maxlen indent it) ++ nl :: R) (tk_tokens ti)
          (bol_st (row + sitem_lines maxlen indent it)) R.
Proof.
  intros o strv maxlen indent it row R Hag Hna Hit. destruct it as [s| |key v]; cbn [sitem_ok] in Hit.
  - exact (lex_item o maxlen indent (CComment s) row R Hit).
  - exact (lex_item o maxlen indent CBlank row R I).
  - destruct (binding_s_lexes o strv maxlen indent key v row R Hag Hna Hit) as [eqt [vtoks [nlt [x [Hden [Hk [HQ HS]]]]]]].
    exists (TKBind row (key_parts key) eqt vtoks nlt x). split; [exact Hk|]. split; [|split; [exact HQ | exact HS]].
    cbn [tk_stmts sitem_stmts]. rewrite Hden. unfold name_text. rewrite key_parts_concat. destruct (split_binding_key key) as [[sc se] ar]. reflexivity.
Qed.
Definition sitems_chars (maxlen indent : nat) (its : list sitem) : chars := flat_map (fun it => cs (sitem_text maxlen indent it) ++ [nl]) its.
Fixpoint sitems_lines (maxlen indent : nat) (its : list sitem) : nat :=
  match its with [] => 0 | it :: r => sitem_lines maxlen indent it + sitems_lines maxlen indent r end.
Lemma lex_sitems : forall o strv maxlen indent its row R, oracle_agrees_with_decode o strv -> str_neg_all o ->
  Forall (sitem_ok o (maxlen - indent)) its ->
  exists tis, Forall (tk_ok o) tis /\ flat_map tk_stmts tis = sitems_stmts o maxlen indent its row /\
    Forall (Qtok o) (tk_render tis) /\
    Steps false (bol_st row) (sitems_chars maxlen indent its ++ R) (tk_render tis) (bol_st (row + sitems_lines maxlen indent its)) R.
Proof.
  intros o strv maxlen indent its. induction its as [|it r IH]; intros row R Hag Hna H.
  - exists []. cbn [sitems_chars flat_map app tk_render sitems_stmts sitems_lines]. rewrite Nat.add_0_r. repeat split; try constructor.
  - destruct (lex_sitem o strv maxlen indent it row (sitems_chars maxlen indent r ++ R) Hag Hna (Forall_inv H)) as [ti [H1 [H2 [H3 H4]]]].
    destruct (IH (row + sitem_lines maxlen indent it) R Hag Hna (Forall_inv_tail H)) as [tis [G1 [G2 [G3 G4]]]].
    exists (ti :: tis). split; [constructor; assumption|]. split; [|split].
    + cbn [flat_map sitems_stmts]. rewrite H2, G2. reflexivity.
    + cbn [tk_render]. apply Forall_app. split; assumption.
    + cbn [sitems_chars flat_map tk_render sitems_lines]. rewrite <- !app_assoc. cbn [app]. rewrite Nat.add_assoc.
      eapply Steps_trans; [exact H4 | exact G4].
Qed.
Lemma cs_sitems_text : forall maxlen indent its, cs (sitems_text maxlen indent (its ++ [SBlank])) = sitems_chars maxlen indent its.
Proof.
  intros maxlen indent. unfold sitems_text. induction its as [|it r IH]; [reflexivity|].
  cbn [app map]. destruct (r ++ [SBlank]) as [|y l] eqn:E; [destruct r; discriminate|].
  cbn [map]. rewrite join_strs_cons2. cbn [map] in IH. rewrite !cs_app, IH. cbn [sitems_chars flat_map]. rewrite <- app_assoc. reflexivity.
Qed.
Lemma sitems_stmts_app_blank : forall o maxlen indent its row,
  sitems_stmts o maxlen indent (its ++ [SBlank]) row = sitems_stmts o maxlen indent its row.
Proof. intros o maxlen indent. induction its as [|it r IH]; intro row; cbn [app sitems_stmts sitem_stmts]; [reflexivity|]. rewrite IH. reflexivity. Qed.
Lemma needs_nl_sitems : forall maxlen indent its, needs_nl (sitems_chars maxlen indent its) = false.
Proof.
  intros maxlen indent its. destruct its as [|it r] using rev_ind; [reflexivity|].
  unfold sitems_chars. rewrite flat_map_app. cbn [flat_map]. rewrite app_nil_r, app_assoc.
  unfold needs_nl. destruct ((_ ++ _) ++ [nl]) eqn:E; [reflexivity|]. rewrite <- E, last_last, Ascii.eqb_refl. reflexivity.
Qed.

Open Scope string_scope. Open Scope list_scope.
Theorem sitems_text_reads_back : forall o strv maxlen indent its, oracle_agrees_with_decode o strv -> str_neg_all o ->
  Forall (sitem_ok o (maxlen - indent)) its -> supported (sitems_text maxlen indent (its ++ [SBlank])) = true ->
  exists ts, lex (sitems_text maxlen indent (its ++ [SBlank])) = Some ts /\
    exists fuel0, forall fuel, fuel0 <= fuel ->
      parse_all fuel o false ts [] = (sitems_stmts o maxlen indent (its ++ [SBlank]) 1, None).
Proof.
  intros o strv maxlen indent its Hag Hna Hits Hs.
  destruct (lex_sitems o strv maxlen indent its 1 [] Hag Hna Hits) as [tis [G1 [G2 [G3 G4]]]]. rewrite app_nil_r in G4.
  set (L := sitems_chars maxlen indent its) in *. set (row := 1 + sitems_lines maxlen indent its) in *.
  assert (E4 : step false (bol_st row) [] = Next [] (mid_st row 0) []) by reflexivity.
  assert (E5 : step false (mid_st row 0) [] = Done [mk_empty ENDMARKER (row, 0)]) by reflexivity.
  assert (SS : Steps false init_state L (tk_render tis) (mid_st row 0) []).
  { rewrite <- (app_nil_r (tk_render tis)). eapply Steps_trans; [exact G4|]. apply Steps_one. exact E4. }
  destruct (Steps_run _ _ _ _ _ _ SS (2 * List.length L + 2)) as [fuel' [Hm Er]].
  { unfold measure. cbn [atbol init_state]. lia. }
  set (eof := mk_empty ENDMARKER (row, 0)) in *.
  assert (Elex : lex_chars L = tk_render tis ++ [eof]).
  { assert (En : needs_nl L = false) by apply needs_nl_sitems.
    unfold lex_chars, normalize. rewrite En, Er.
    destruct fuel' as [|f]; [unfold measure in Hm; lia|]. cbn [Lexer.run]. rewrite E5. reflexivity. }
  exists (tk_render tis ++ [eof]). split.
  { unfold lex. rewrite Hs. unfold lex_raw. fold (cs (sitems_text maxlen indent (its ++ [SBlank]))). rewrite cs_sitems_text. fold L.
    rewrite Elex. reflexivity. }
  exists (S (List.length tis)). intros fuel Hfuel.
  assert (Hlit : Forall (lit_tok o) (tk_render tis ++ [eof])).
  { pose proof (lex_chars_tok_ok L) as Hok. rewrite Elex in Hok.
    assert (HQ : Forall (Qtok o) (tk_render tis ++ [eof])).
    { apply Forall_app. split; [exact G3|]. apply Forall_cons; [|apply Forall_nil]. apply Qtok_not_string; cbn; discriminate. }
    rewrite Forall_forall in *. intros t Ht. destruct (HQ t Ht) as [Q1 [Q2 Q3]]. unfold tk in *. cbn [fst snd] in *.
    split; [exact Q1|]. split; [exact Q2|]. split; [exact (Hok t Ht) | exact Q3]. }
  pose proof (tk_parse_all o eof eq_refl tis G1 [] false eof [] fuel (Forall_nil _) Hlit ltac:(lia)) as HP.
  cbn [pend app] in HP. rewrite HP, G2, sitems_stmts_app_blank. reflexivity.
Qed.

Lemma config_sitems_ends_blank : forall registry entries maxlen,
  config_sitems registry entries maxlen = [] \/ exists l, config_sitems registry entries maxlen = l ++ [SBlank].
Proof.
  intros registry entries maxlen. unfold config_sitems.
  set (macros := sort_stable _ full_key_ltb (filter _ entries)). set (others := filter _ (sort_stable _ full_key_ltb entries)).
  set (reg := fold_left _ registry sm_empty).
  assert (HD : forall (f : csentry -> list sitem) l, (forall e, exists g, f e = g ++ [SBlank]) -> flat_map f l = [] \/ exists l', flat_map f l = l' ++ [SBlank]).
  { intros f l Hf. induction l as [|e r IH]; [left; reflexivity|]. right. cbn [flat_map]. destruct (Hf e) as [g Eg].
    destruct IH as [-> | [l' ->]]; [rewrite app_nil_r; exists g; exact Eg | exists (f e ++ l'); rewrite app_assoc; reflexivity]. }
  match goal with |- context [flat_map ?F others] => destruct (HD F others) as [E | [l' E]] end.
  { intro e. eexists. rewrite !app_assoc. reflexivity. }
  - rewrite E, !app_nil_r. destruct macros as [|m ms]; [left; reflexivity|]. right. eexists. rewrite !app_assoc. reflexivity.
  - right. rewrite E. eexists. rewrite !app_assoc. reflexivity.
Qed.

(* END TO END for stores with long strings: the characters of config_text_s are lexed and parsed into exactly the emitted
   bindings, split strings included *)
Theorem config_text_s_reads_back : forall o strv registry entries maxlen indent,
  oracle_agrees_with_decode o strv -> str_neg_all o ->
  Forall (sitem_ok o (maxlen - indent)) (config_sitems registry entries maxlen) ->
  supported (config_text_s registry entries maxlen indent) = true ->
  exists ts, lex (config_text_s registry entries maxlen indent) = Some ts /\
    exists fuel0, forall fuel, fuel0 <= fuel ->
      parse_all fuel o false ts [] = (expected_stmts_s o registry entries maxlen indent, None).
Proof.
  intros o strv registry entries maxlen indent Hag Hna Hits Hs. unfold config_text_s, expected_stmts_s in *. fold (sitems_text maxlen indent (config_sitems registry entries maxlen)) in *.
  destruct (config_sitems_ends_blank registry entries maxlen) as [E | [its E]]; rewrite E in *.
  - exact (sitems_text_reads_back o strv maxlen indent [] Hag Hna (Forall_nil _) Hs).
  - apply (sitems_text_reads_back o strv); try assumption. apply Forall_app in Hits. tauto.
Qed.

(* non-vacuity by computation: a store whose value is the long string of Proofs/PPrintStrProofs.v; the text is what
   gin.config_str(40, 4) prints (the string split into two parenthesised literals on continuation lines) *)
From GinV Require Import Proofs.PPrintStrProofs.
Definition cts_ex_entries : list csentry :=
  [{| cs_scope := ""; cs_sel := "m.f"; cs_method := false; cs_params := [("a", CSLit (SStr pps_fox)); ("n", CSLit (SAtom (pp_tk NUMBER "3")))] |}].
Example cts_ex_text : config_text_s ["gin.macro"; "gin.constant"; "gin.singleton"; "m.f"] cts_ex_entries 40 4 =
"# Parameters for f:
# ======================================
f.a = \
    ('the quick brown fox jumps over '
     'the lazy dog and keeps running')
f.n = 3
".
Proof. vm_compute. reflexivity. Qed.
Definition cts_ex_oracle : oracle := ("3", Some (OT "int" [OS "3"])) :: pps_oracle ++
  [("'the quick brown fox jumps over the lazy dog and keeps running'", Some (OT "str" [OS "the quick brown fox jumps over the lazy dog and keeps running"]))].
Example cts_ex_reads_back_computes :
  option_map (fun ts => parse_all 10 cts_ex_oracle false ts [])
             (lex (config_text_s ["gin.macro"; "gin.constant"; "gin.singleton"; "m.f"] cts_ex_entries 40 4)) =
  Some (expected_stmts_s cts_ex_oracle ["gin.macro"; "gin.constant"; "gin.singleton"; "m.f"] cts_ex_entries 40 4, None) /\
  expected_stmts_s cts_ex_oracle ["gin.macro"; "gin.constant"; "gin.singleton"; "m.f"] cts_ex_entries 40 4 =
  [SBind "" "f" "a" (OT "str" [OS "the quick brown fox jumps over the lazy dog and keeps running"]) 3; SBind "" "f" "n" (OT "int" [OS "3"]) 6].
Proof. split; vm_compute; reflexivity. Qed.
