(* Structural lemmas about the SelectorMap model: association lists, the flat
   map, tree_walk / tree_set / tree_pop / collect.  No reference to Inv. *)
From Coq Require Import List String Bool Arith Lia.
From GinV Require Import Lib.PyStr Model.SelectorMap Model.SelectorMapSpec.
Import ListNotations.
Open Scope list_scope.

(* ------------------------------------------------------------------ *)
(* generic list facts *)

Lemma nonempty_has : forall {A} (l : list A), l <> [] -> exists x, In x l.
Proof. intros A [|x l] H; [congruence|]. exists x; left; reflexivity. Qed.

Lemma has_nonempty : forall {A} (l : list A) x, In x l -> l <> [].
Proof. intros A l x H E; subst; inversion H. Qed.

Lemma nodup_app : forall {A} (l1 l2 : list A),
  NoDup l1 -> NoDup l2 -> (forall x, In x l1 -> ~ In x l2) -> NoDup (l1 ++ l2).
Proof.
  intros A l1; induction l1 as [|a l1 IH]; intros l2 H1 H2 Hd; simpl; auto.
  inversion H1 as [|a' l' Hna Hnd]; subst.
  constructor.
  - intro Hin. apply in_app_or in Hin. destruct Hin as [Hin|Hin]; [auto|].
    apply (Hd a); [left; reflexivity|exact Hin].
  - apply IH; auto. intros x Hx. apply Hd. right; exact Hx.
Qed.

Lemma nodup_singleton_eq : forall {A} (l : list A) k,
  NoDup l -> (forall j, In j l <-> j = k) -> l = [k].
Proof.
  intros A l k Hnd H.
  destruct l as [|a l].
  - exfalso. destruct (H k) as [_ Hk]. apply (Hk eq_refl).
  - assert (Ha : a = k) by (apply H; left; reflexivity). subst a.
    destruct l as [|b l]; [reflexivity|].
    assert (Hb : b = k) by (apply H; right; left; reflexivity). subst b.
    inversion Hnd as [|x y Hn _]; subst. exfalso; apply Hn; left; reflexivity.
Qed.

Lemma app_tail_prefix : forall {A} (a' z a0 : list A) c,
  a' ++ z = a0 ++ [c] -> z <> [] -> exists z', a0 = a' ++ z'.
Proof.
  intros A a' z a0 c H Hz.
  destruct (exists_last Hz) as [z' [c' Hz']]. subst z.
  rewrite app_assoc in H. apply app_inj_tail in H. destruct H as [H _].
  exists z'. symmetry; exact H.
Qed.

Lemma rev_inj : forall {A} (a b : list A), rev a = rev b -> a = b.
Proof. intros A a b H. rewrite <- (rev_involutive a), <- (rev_involutive b), H; reflexivity. Qed.

Lemma app_eq_self_nil : forall {A} (a q : list A), a = a ++ q -> q = [].
Proof.
  intros A a q H. rewrite <- (app_nil_r a) in H at 1. apply app_inv_head in H. auto.
Qed.

(* ------------------------------------------------------------------ *)
(* key equality *)

Lemma key_eqb_spec : forall a b : key, reflect (a = b) (key_eqb a b).
Proof.
  unfold key_eqb. induction a as [|x a IH]; intros [|y b]; simpl.
  - constructor; reflexivity.
  - constructor; discriminate.
  - constructor; discriminate.
  - destruct (String.eqb_spec x y) as [E|E]; simpl.
    + destruct (IH b) as [E'|E']; constructor; congruence.
    + constructor; congruence.
Qed.

Lemma key_eqb_refl : forall a, key_eqb a a = true.
Proof. intro a. destruct (key_eqb_spec a a); congruence. Qed.

Lemma key_eq_dec : forall a b : key, {a = b} + {a <> b}.
Proof. intros a b. destruct (key_eqb_spec a b); auto. Qed.

(* prefix on paths *)
Definition prefix (q p : list string) : Prop := exists q', p = q ++ q'.

Lemma prefix_dec : forall q p, prefix q p \/ ~ prefix q p.
Proof.
  induction q as [|c q IH]; intros p.
  - left. exists p. reflexivity.
  - destruct p as [|d p].
    + right. intros [q' H]. discriminate.
    + destruct (string_dec c d) as [E|E].
      * subst d. destruct (IH p) as [[q' H]|H].
        -- left. exists q'. simpl. rewrite H. reflexivity.
        -- right. intros [q' H']. simpl in H'. inversion H'. apply H. exists q'. assumption.
      * right. intros [q' H']. simpl in H'. inversion H'. congruence.
Qed.

(* ------------------------------------------------------------------ *)
(* kget / kset / kdel *)
Section AssocLemmas.
  Context {A : Type}.
  Implicit Types (l : list (string * A)).

  Lemma kget_In : forall c l v, kget c l = Some v -> In (c, v) l.
  Proof.
    intros c l; induction l as [|[d w] r IH]; intros v H; simpl in *; [discriminate|].
    destruct (String.eqb_spec c d) as [E|E].
    - inversion H; subst. left; reflexivity.
    - right. apply IH. exact H.
  Qed.

  Lemma In_kget : forall c l v, NoDup (map fst l) -> In (c, v) l -> kget c l = Some v.
  Proof.
    intros c l; induction l as [|[d w] r IH]; intros v Hnd Hin; simpl in *; [contradiction|].
    inversion Hnd as [|x y Hn Hnd']; subst.
    destruct Hin as [Hin|Hin].
    - inversion Hin; subst. rewrite String.eqb_refl. reflexivity.
    - destruct (String.eqb_spec c d) as [E|E].
      + subst d. exfalso. apply Hn. apply (in_map fst) in Hin. exact Hin.
      + apply IH; assumption.
  Qed.

  Lemma kget_kset_eq : forall c v l, kget c (kset c v l) = Some v.
  Proof.
    intros c v l; induction l as [|[d w] r IH]; simpl.
    - rewrite String.eqb_refl. reflexivity.
    - destruct (String.eqb_spec c d) as [E|E]; simpl.
      + subst. rewrite String.eqb_refl. reflexivity.
      + destruct (String.eqb_spec c d); [contradiction|]. exact IH.
  Qed.

  Lemma kget_kset_neq : forall c d v l, d <> c -> kget d (kset c v l) = kget d l.
  Proof.
    intros c d v l Hne; induction l as [|[e w] r IH]; simpl.
    - destruct (String.eqb_spec d c); [contradiction|reflexivity].
    - destruct (String.eqb_spec c e) as [E|E]; simpl.
      + subst e. destruct (String.eqb_spec d c); [contradiction|reflexivity].
      + destruct (String.eqb_spec d e); [reflexivity|exact IH].
  Qed.

  Lemma In_kset_self : forall c v l, In (c, v) (kset c v l).
  Proof. intros. apply kget_In. apply kget_kset_eq. Qed.

  Lemma kset_fst_In : forall c v l d, In d (map fst (kset c v l)) <-> d = c \/ In d (map fst l).
  Proof.
    intros c v l d; induction l as [|[e w] r IH]; simpl.
    - intuition.
    - destruct (String.eqb_spec c e) as [E|E]; simpl.
      + subst e. intuition.
      + rewrite IH. intuition.
  Qed.

  Lemma kset_nodup : forall c v l, NoDup (map fst l) -> NoDup (map fst (kset c v l)).
  Proof.
    intros c v l; induction l as [|[e w] r IH]; intros Hnd; simpl.
    - constructor; [intros []|constructor].
    - inversion Hnd as [|x y Hn Hnd']; subst.
      destruct (String.eqb_spec c e) as [E|E]; simpl.
      + constructor; assumption.
      + constructor; [|apply IH; assumption].
        intro Hin. apply kset_fst_In in Hin. destruct Hin as [Hin|Hin]; [congruence|].
        apply Hn; exact Hin.
  Qed.

  Lemma In_kdel : forall c l x, In x (kdel c l) -> In x l.
  Proof.
    intros c l; induction l as [|[e w] r IH]; intros x H; simpl in *; [assumption|].
    destruct (String.eqb c e).
    - right; assumption.
    - destruct H as [H|H]; [left; assumption|right; apply IH; assumption].
  Qed.

  Lemma kdel_nodup : forall c l, NoDup (map fst l) -> NoDup (map fst (kdel c l)).
  Proof.
    intros c l; induction l as [|[e w] r IH]; intros Hnd; simpl; [constructor|].
    inversion Hnd as [|x y Hn Hnd']; subst.
    destruct (String.eqb c e); simpl; [assumption|].
    constructor; [|apply IH; assumption].
    intro Hin. apply Hn. apply in_map_iff in Hin. destruct Hin as [[e' w'] [E Hin]].
    simpl in E; subst e'. apply In_kdel in Hin. apply (in_map fst) in Hin. exact Hin.
  Qed.

  Lemma kget_kdel_eq : forall c l, NoDup (map fst l) -> kget c (kdel c l) = None.
  Proof.
    intros c l; induction l as [|[e w] r IH]; intros Hnd; simpl; [reflexivity|].
    inversion Hnd as [|x y Hn Hnd']; subst.
    destruct (String.eqb_spec c e) as [E|E]; simpl.
    - subst e. destruct (kget c r) eqn:G; [|reflexivity].
      exfalso. apply Hn. apply kget_In in G. apply (in_map fst) in G. exact G.
    - destruct (String.eqb_spec c e); [contradiction|]. apply IH; assumption.
  Qed.

  Lemma kget_kdel_neq : forall c d l, d <> c -> kget d (kdel c l) = kget d l.
  Proof.
    intros c d l Hne; induction l as [|[e w] r IH]; simpl; [reflexivity|].
    destruct (String.eqb_spec c e) as [E|E]; simpl.
    - subst e. destruct (String.eqb_spec d c); [contradiction|reflexivity].
    - destruct (String.eqb_spec d e); [reflexivity|exact IH].
  Qed.
End AssocLemmas.

(* ------------------------------------------------------------------ *)
(* fget / fset / fdel *)
Section FlatLemmas.
  Context {V : Type}.
  Implicit Types (m : flat V).

  Lemma fget_fset : forall k v m j,
    fget j (fset k v m) = if key_eqb j k then Some v else fget j m.
  Proof.
    intros k v m j; induction m as [|[e w] r IH]; simpl.
    - reflexivity.
    - destruct (key_eqb_spec k e) as [E|E]; simpl.
      + subst e. destruct (key_eqb_spec j k); reflexivity.
      + destruct (key_eqb_spec j e) as [E'|E'].
        * subst e. destruct (key_eqb_spec j k); [congruence|reflexivity].
        * exact IH.
  Qed.

  Lemma fset_dom_In : forall k v m j,
    In j (map fst (fset k v m)) <-> j = k \/ In j (map fst m).
  Proof.
    intros k v m j; induction m as [|[e w] r IH]; simpl.
    - intuition.
    - destruct (key_eqb_spec k e) as [E|E]; simpl.
      + subst e. intuition.
      + rewrite IH. intuition.
  Qed.

  Lemma fset_nodup : forall k v m, NoDup (map fst m) -> NoDup (map fst (fset k v m)).
  Proof.
    intros k v m; induction m as [|[e w] r IH]; intros Hnd; simpl.
    - constructor; [intros []|constructor].
    - inversion Hnd as [|x y Hn Hnd']; subst.
      destruct (key_eqb_spec k e) as [E|E]; simpl.
      + constructor; assumption.
      + constructor; [|apply IH; assumption].
        intro Hin. apply fset_dom_In in Hin. destruct Hin as [Hin|Hin]; [congruence|].
        apply Hn; exact Hin.
  Qed.

  Lemma fget_In_dom : forall k m, In k (map fst m) -> exists v, fget k m = Some v.
  Proof.
    intros k m; induction m as [|[e w] r IH]; intros H; simpl in *; [contradiction|].
    destruct (key_eqb_spec k e) as [E|E].
    - exists w; reflexivity.
    - destruct H as [H|H]; [congruence|]. apply IH; assumption.
  Qed.

  Lemma fget_Some_dom : forall k m v, fget k m = Some v -> In k (map fst m).
  Proof.
    intros k m; induction m as [|[e w] r IH]; intros v H; simpl in *; [discriminate|].
    destruct (key_eqb_spec k e) as [E|E].
    - left; congruence.
    - right. eapply IH; eassumption.
  Qed.

  Lemma fmem_existsb : forall k m, fmem k m = existsb (key_eqb k) (map fst m).
  Proof.
    intros k m. unfold fmem. induction m as [|[e w] r IH]; simpl; [reflexivity|].
    destruct (key_eqb k e); simpl; [reflexivity|exact IH].
  Qed.

  Lemma fmem_true_iff : forall k m, fmem k m = true <-> In k (map fst m).
  Proof.
    intros k m. unfold fmem. split.
    - destruct (fget k m) eqn:G; [|discriminate]. intros _. eapply fget_Some_dom; eassumption.
    - intros H. destruct (fget_In_dom _ _ H) as [v Hv]. rewrite Hv. reflexivity.
  Qed.

  Lemma fdel_dom_In : forall k m j, NoDup (map fst m) ->
    (In j (map fst (fdel k m)) <-> In j (map fst m) /\ j <> k).
  Proof.
    intros k m j; induction m as [|[e w] r IH]; intros Hnd; simpl.
    - intuition.
    - inversion Hnd as [|x y Hn Hnd']; subst.
      destruct (key_eqb_spec k e) as [E|E]; simpl.
      + subst e. split.
        * intros H. split; [right; assumption|]. intro; subst j. contradiction.
        * intros [[H|H] Hne]; [congruence|assumption].
      + rewrite (IH Hnd'). split.
        * intros [H|[H Hne]]; [subst j; split; [left; reflexivity|congruence]|].
          split; [right; assumption|assumption].
        * intros [[H|H] Hne]; [left; assumption|right; split; assumption].
  Qed.

  Lemma fdel_nodup : forall k m, NoDup (map fst m) -> NoDup (map fst (fdel k m)).
  Proof.
    intros k m; induction m as [|[e w] r IH]; intros Hnd; simpl; [constructor|].
    inversion Hnd as [|x y Hn Hnd']; subst.
    destruct (key_eqb k e); simpl; [assumption|].
    constructor; [|apply IH; assumption].
    intro Hin. apply (fdel_dom_In k r e Hnd') in Hin. apply Hn. apply Hin.
  Qed.

  Lemma fget_fdel : forall k m j, NoDup (map fst m) ->
    fget j (fdel k m) = if key_eqb j k then None else fget j m.
  Proof.
    intros k m j; induction m as [|[e w] r IH]; intros Hnd; simpl.
    - destruct (key_eqb j k); reflexivity.
    - inversion Hnd as [|x y Hn Hnd']; subst.
      destruct (key_eqb_spec k e) as [E|E]; simpl.
      + subst e. destruct (key_eqb_spec j k) as [E'|E'].
        * subst j. destruct (fget k r) eqn:G; [|reflexivity].
          exfalso. apply Hn. eapply fget_Some_dom; eassumption.
        * reflexivity.
      + destruct (key_eqb_spec j e) as [E'|E'].
        * subst e. destruct (key_eqb_spec j k); [congruence|reflexivity].
        * apply IH; assumption.
  Qed.
End FlatLemmas.

(* ------------------------------------------------------------------ *)
(* trees *)

Fixpoint tree_ind' (P : tree -> Prop)
  (H : forall tm ks, Forall (fun x => P (snd x)) ks -> P (Node tm ks)) (t : tree) : P t :=
  match t with
  | Node tm ks =>
      H tm ks ((fix go (l : list (string * tree)) : Forall (fun x => P (snd x)) l :=
                  match l with
                  | [] => Forall_nil _
                  | x :: r => Forall_cons x (tree_ind' P H (snd x)) (go r)
                  end) ks)
  end.

Definition otl (tm : option key) : list key := match tm with Some k => [k] | None => [] end.
Fixpoint ckids (l : list (string * tree)) : list key :=
  match l with [] => [] | (_, ch) :: r => collect ch ++ ckids r end.

Lemma collect_eq : forall tm ks, collect (Node tm ks) = otl tm ++ ckids ks.
Proof.
  intros tm ks. simpl. f_equal.
  all: induction ks as [|[c ch] r IH]; simpl; [reflexivity|rewrite IH; reflexivity].
Qed.

Lemma ckids_In : forall ks k, In k (ckids ks) <-> exists c ch, In (c, ch) ks /\ In k (collect ch).
Proof.
  induction ks as [|[c ch] r IH]; intros k; simpl.
  - split; [intros []|intros [c [ch [[] _]]]].
  - rewrite in_app_iff, IH. split.
    + intros [H|[c' [ch' [H1 H2]]]].
      * exists c, ch. split; [left; reflexivity|assumption].
      * exists c', ch'. split; [right; assumption|assumption].
    + intros [c' [ch' [[H1|H1] H2]]].
      * inversion H1; subst. left; assumption.
      * right. exists c', ch'. split; assumption.
Qed.

Lemma collect_In : forall tm ks k,
  In k (collect (Node tm ks)) <-> tm = Some k \/ exists c ch, In (c, ch) ks /\ In k (collect ch).
Proof.
  intros tm ks k. rewrite collect_eq, in_app_iff, ckids_In.
  destruct tm as [k0|]; simpl.
  - split.
    + intros [[H|[]]|H]; [left; congruence|right; exact H].
    + intros [H|H]; [left; left; congruence|right; exact H].
  - split.
    + intros [[]|H]; right; exact H.
    + intros [H|H]; [discriminate|right; exact H].
Qed.

Lemma collect_t_In : forall t k,
  In k (collect t) <-> t_term t = Some k \/ exists c ch, In (c, ch) (t_kids t) /\ In k (collect ch).
Proof. intros [tm ks] k. apply collect_In. Qed.

Lemma is_empty_eq : forall t, is_empty t = true -> t = empty_tree.
Proof. intros [[k|] [|x r]] H; simpl in H; try discriminate. reflexivity. Qed.

(* walking *)
Lemma walk_app : forall a q t,
  tree_walk (a ++ q) t = match tree_walk a t with Some x => tree_walk q x | None => None end.
Proof.
  induction a as [|c a IH]; intros q t; simpl; [reflexivity|].
  destruct (kget c (t_kids t)); [apply IH|reflexivity].
Qed.

Lemma walk_empty : forall q, q <> [] -> tree_walk q empty_tree = None.
Proof. intros [|c q] H; [congruence|reflexivity]. Qed.

Definition woe (q : list string) (t : tree) : tree :=
  match tree_walk q t with Some m => m | None => empty_tree end.

Lemma woe_empty : forall q, woe q empty_tree = empty_tree.
Proof. intros [|c q]; reflexivity. Qed.

Lemma walk_set_prefix : forall q q' full t,
  tree_walk q (tree_set (q ++ q') full t) = Some (tree_set q' full (woe q t)).
Proof.
  induction q as [|c q IH]; intros q' full t.
  - reflexivity.
  - simpl. rewrite kget_kset_eq. rewrite IH. unfold woe at 2. simpl.
    destruct (kget c (t_kids t)) as [ch|]; [reflexivity|].
    rewrite woe_empty. reflexivity.
Qed.

Lemma walk_set_other : forall p q full t,
  ~ prefix q p -> tree_walk q (tree_set p full t) = tree_walk q t.
Proof.
  induction p as [|d p IH]; intros q full t Hnp.
  - destruct q as [|c q]; [exfalso; apply Hnp; exists []; reflexivity|]. reflexivity.
  - destruct q as [|c q]; [exfalso; apply Hnp; exists (d :: p); reflexivity|].
    simpl. destruct (string_dec c d) as [E|E].
    + subst d. rewrite kget_kset_eq.
      assert (Hnp' : ~ prefix q p).
      { intros [q' H]. apply Hnp. exists q'. simpl. rewrite H. reflexivity. }
      rewrite IH by assumption.
      destruct (kget c (t_kids t)) as [ch|]; [reflexivity|].
      apply walk_empty. intro; subst q. apply Hnp'. exists p; reflexivity.
    + rewrite kget_kset_neq by assumption. reflexivity.
Qed.

Lemma tree_set_term_cons : forall c p full t, t_term (tree_set (c :: p) full t) = t_term t.
Proof. reflexivity. Qed.

Lemma tree_set_kids_nodup : forall p full t,
  NoDup (map fst (t_kids t)) -> NoDup (map fst (t_kids (tree_set p full t))).
Proof. intros [|c p] full t H; simpl; [assumption|]. apply kset_nodup; assumption. Qed.

Lemma collect_kid_In : forall t c ch k, In (c, ch) (t_kids t) -> In k (collect ch) -> In k (collect t).
Proof. intros t c ch k H1 H2. apply collect_t_In. right. exists c, ch. split; assumption. Qed.

Lemma tree_set_collect : forall p full t, In full (collect (tree_set p full t)).
Proof.
  induction p as [|c p IH]; intros full t.
  - apply collect_t_In. left. reflexivity.
  - apply (collect_kid_In _ c (tree_set p full
             (match kget c (t_kids t) with Some ch => ch | None => empty_tree end)));
      [simpl; apply In_kset_self|apply IH].
Qed.

(* terminals reached by walking are collected *)
Lemma walk_collect : forall q n m k,
  tree_walk q n = Some m -> t_term m = Some k -> In k (collect n).
Proof.
  induction q as [|c q IH]; intros n m k Hw Ht; simpl in Hw.
  - inversion Hw; subst. apply collect_t_In. left; assumption.
  - destruct (kget c (t_kids n)) as [ch|] eqn:G; [|discriminate].
    eapply collect_kid_In; [apply kget_In; eassumption|]. eapply IH; eassumption.
Qed.

Definition WF (t : tree) : Prop :=
  forall path n, tree_walk path t = Some n -> NoDup (map fst (t_kids n)).

Lemma WF_root : forall t, WF t -> NoDup (map fst (t_kids t)).
Proof. intros t H. apply (H [] t). reflexivity. Qed.

Lemma WF_kid : forall t c ch, WF t -> kget c (t_kids t) = Some ch -> WF ch.
Proof. intros t c ch H G path n Hw. apply (H (c :: path) n). simpl. rewrite G. exact Hw. Qed.

Lemma WF_walk : forall a t x, WF t -> tree_walk a t = Some x -> WF x.
Proof. intros a t x H Hw path n Hn. apply (H (a ++ path) n). rewrite walk_app, Hw. exact Hn. Qed.

Lemma collect_walk : forall n, WF n -> forall k, In k (collect n) ->
  exists q m, tree_walk q n = Some m /\ t_term m = Some k.
Proof.
  induction n as [tm ks IH] using tree_ind'. intros Hwf k Hin.
  apply collect_In in Hin. destruct Hin as [Hin|[c [ch [Hin Hk]]]].
  - exists [], (Node tm ks). split; [reflexivity|exact Hin].
  - assert (G : kget c ks = Some ch) by (apply In_kget; [apply (WF_root _ Hwf)|assumption]).
    rewrite Forall_forall in IH. specialize (IH (c, ch) Hin). simpl in IH.
    destruct (IH (WF_kid _ _ _ Hwf G) k Hk) as [q [m [Hw Ht]]].
    exists (c :: q), m. split; [|assumption]. simpl. rewrite G. exact Hw.
Qed.

Definition InjTerm (n : tree) : Prop :=
  forall q1 q2 m1 m2 k, tree_walk q1 n = Some m1 -> tree_walk q2 n = Some m2 ->
    t_term m1 = Some k -> t_term m2 = Some k -> q1 = q2.

Lemma ckids_nodup : forall ks,
  NoDup (map fst ks) ->
  (forall c ch, In (c, ch) ks -> NoDup (collect ch)) ->
  (forall c1 ch1 c2 ch2 k, In (c1, ch1) ks -> In (c2, ch2) ks ->
     In k (collect ch1) -> In k (collect ch2) -> c1 = c2) ->
  NoDup (ckids ks).
Proof.
  induction ks as [|[c ch] r IH]; intros Hnd Hch Hdisj; simpl; [constructor|].
  inversion Hnd as [|x y Hn Hnd']; subst.
  apply nodup_app.
  - apply (Hch c ch). left; reflexivity.
  - apply IH; [assumption| |].
    + intros c' ch' H. apply (Hch c' ch'). right; assumption.
    + intros c1 ch1 c2 ch2 k H1 H2. apply Hdisj; right; assumption.
  - intros k Hk Hk'. apply ckids_In in Hk'. destruct Hk' as [c2 [ch2 [Hin2 Hk2]]].
    assert (E : c = c2).
    { apply (Hdisj c ch c2 ch2 k); [left; reflexivity|right; assumption|assumption|assumption]. }
    subst c2. apply Hn. apply (in_map fst) in Hin2. exact Hin2.
Qed.

Lemma collect_nodup : forall n, WF n -> InjTerm n -> NoDup (collect n).
Proof.
  induction n as [tm ks IH] using tree_ind'. intros Hwf Hinj.
  rewrite Forall_forall in IH.
  assert (Hnd : NoDup (map fst ks)) by apply (WF_root _ Hwf).
  assert (Hget : forall c ch, In (c, ch) ks -> kget c ks = Some ch)
    by (intros c ch H; apply In_kget; assumption).
  assert (Hbelow : forall c ch k, In (c, ch) ks -> In k (collect ch) ->
            exists q m, tree_walk (c :: q) (Node tm ks) = Some m /\ t_term m = Some k).
  { intros c ch k Hin Hk. pose proof (Hget c ch Hin) as G.
    destruct (collect_walk ch (WF_kid _ _ _ Hwf G) k Hk) as [q [m [Hw Ht]]].
    exists q, m. split; [|assumption]. simpl. rewrite G. exact Hw. }
  rewrite collect_eq. apply nodup_app.
  - destruct tm; simpl; [constructor; [intros []|constructor]|constructor].
  - apply ckids_nodup; [assumption| |].
    + intros c ch Hin. pose proof (Hget c ch Hin) as G.
      apply (IH (c, ch) Hin); simpl.
      * eapply WF_kid; eassumption.
      * intros q1 q2 m1 m2 k H1 H2 T1 T2.
        assert (E : c :: q1 = c :: q2).
        { apply (Hinj (c :: q1) (c :: q2) m1 m2 k); simpl; try rewrite G; assumption. }
        inversion E; reflexivity.
    + intros c1 ch1 c2 ch2 k Hin1 Hin2 Hk1 Hk2.
      destruct (Hbelow c1 ch1 k Hin1 Hk1) as [q1 [m1 [W1 T1]]].
      destruct (Hbelow c2 ch2 k Hin2 Hk2) as [q2 [m2 [W2 T2]]].
      pose proof (Hinj _ _ _ _ _ W1 W2 T1 T2) as E. inversion E; reflexivity.
  - intros k Hk Hk'. destruct tm as [k0|]; simpl in Hk; [|contradiction].
    destruct Hk as [Hk|[]]. subst k0.
    apply ckids_In in Hk'. destruct Hk' as [c [ch [Hin Hkc]]].
    destruct (Hbelow c ch k Hin Hkc) as [q [m [W T]]].
    assert (E : [] = c :: q).
    { apply (Hinj [] (c :: q) (Node (Some k) ks) m k); [reflexivity|assumption|reflexivity|assumption]. }
    discriminate.
Qed.

(* ------------------------------------------------------------------ *)
(* tree_pop *)

Lemma walk_pop_defined : forall p t n, tree_walk p t = Some n -> exists t', tree_pop p t = Some t'.
Proof.
  induction p as [|c p IH]; intros t n Hw; simpl in *.
  - eexists; reflexivity.
  - destruct (kget c (t_kids t)) as [ch|]; [|discriminate].
    destruct (IH ch n Hw) as [ch' Hp]. rewrite Hp.
    destruct (is_empty ch'); eexists; reflexivity.
Qed.

Lemma pop_term_cons : forall c p t t', tree_pop (c :: p) t = Some t' -> t_term t' = t_term t.
Proof.
  intros c p t t' H. simpl in H.
  destruct (kget c (t_kids t)) as [ch|]; [|discriminate].
  destruct (tree_pop p ch) as [ch'|]; [|discriminate].
  destruct (is_empty ch'); inversion H; reflexivity.
Qed.

Lemma pop_term_nil : forall t t', tree_pop [] t = Some t' -> t_term t' = None.
Proof. intros t t' H. simpl in H. inversion H; reflexivity. Qed.

Lemma pop_kids_nodup : forall p t t',
  NoDup (map fst (t_kids t)) -> tree_pop p t = Some t' -> NoDup (map fst (t_kids t')).
Proof.
  intros [|c p] t t' Hnd H; simpl in H.
  - inversion H; subst; assumption.
  - destruct (kget c (t_kids t)) as [ch|]; [|discriminate].
    destruct (tree_pop p ch) as [ch'|]; [|discriminate].
    destruct (is_empty ch'); inversion H; subst; simpl.
    + apply kdel_nodup; assumption.
    + apply kset_nodup; assumption.
Qed.

Lemma walk_pop_other : forall p t t' q,
  WF t -> tree_pop p t = Some t' -> ~ prefix q p -> tree_walk q t' = tree_walk q t.
Proof.
  induction p as [|d p IH]; intros t t' q Hwf Hp Hnp.
  - destruct q as [|c q]; [exfalso; apply Hnp; exists []; reflexivity|].
    simpl in Hp. inversion Hp; subst. reflexivity.
  - destruct q as [|c q]; [exfalso; apply Hnp; exists (d :: p); reflexivity|].
    simpl in Hp.
    destruct (kget d (t_kids t)) as [ch|] eqn:G; [|discriminate].
    destruct (tree_pop p ch) as [ch'|] eqn:Pc; [|discriminate].
    pose proof (WF_kid _ _ _ Hwf G) as Hwfc.
    destruct (string_dec c d) as [E|E].
    + subst d.
      assert (Hnp' : ~ prefix q p).
      { intros [q' H]. apply Hnp. exists q'. simpl. rewrite H. reflexivity. }
      pose proof (IH ch ch' q Hwfc Pc Hnp') as Hq.
      destruct (is_empty ch') eqn:Em; inversion Hp; subst; simpl.
      * rewrite kget_kdel_eq by apply (WF_root _ Hwf). rewrite G.
        rewrite <- Hq. apply is_empty_eq in Em. subst ch'. symmetry. apply walk_empty.
        intro; subst q. apply Hnp'. exists p; reflexivity.
      * rewrite kget_kset_eq, G. exact Hq.
    + destruct (is_empty ch'); inversion Hp; subst; simpl.
      * rewrite kget_kdel_neq by assumption. reflexivity.
      * rewrite kget_kset_neq by assumption. reflexivity.
Qed.

Lemma walk_pop_prefix : forall q q' t t' n,
  WF t -> tree_pop (q ++ q') t = Some t' -> tree_walk q t' = Some n ->
  exists m, tree_walk q t = Some m /\ tree_pop q' m = Some n /\ (q <> [] -> is_empty n = false).
Proof.
  induction q as [|c q IH]; intros q' t t' n Hwf Hp Hw.
  - simpl in *. inversion Hw; subst. exists t. repeat split; [assumption|congruence].
  - simpl in Hp.
    destruct (kget c (t_kids t)) as [ch|] eqn:G; [|discriminate].
    destruct (tree_pop (q ++ q') ch) as [ch'|] eqn:Pc; [|discriminate].
    pose proof (WF_kid _ _ _ Hwf G) as Hwfc.
    destruct (is_empty ch') eqn:Em; inversion Hp; subst; simpl in Hw.
    + rewrite kget_kdel_eq in Hw by apply (WF_root _ Hwf). discriminate.
    + rewrite kget_kset_eq in Hw.
      destruct (IH q' ch ch' n Hwfc Pc Hw) as [m [Hm [Hpm Hne]]].
      exists m. simpl. rewrite G. repeat split; [assumption|assumption|].
      intros _. destruct q as [|c' q].
      * simpl in Hw. inversion Hw; subst. assumption.
      * apply Hne. discriminate.
Qed.

Lemma walk_pop_prefix2 : forall q q' t t' m,
  tree_pop (q ++ q') t = Some t' -> tree_walk q t = Some m ->
  exists m', tree_pop q' m = Some m' /\ (is_empty m' = false -> tree_walk q t' = Some m').
Proof.
  induction q as [|c q IH]; intros q' t t' m Hp Hw.
  - simpl in *. inversion Hw; subst. exists t'. split; [assumption|reflexivity].
  - simpl in Hp, Hw.
    destruct (kget c (t_kids t)) as [ch|] eqn:G; [|discriminate].
    destruct (tree_pop (q ++ q') ch) as [ch'|] eqn:Pc; [|discriminate].
    destruct (IH q' ch ch' m Pc Hw) as [m' [Hpm Hwm]].
    exists m'. split; [assumption|]. intros Hne. specialize (Hwm Hne).
    destruct (is_empty ch') eqn:Em.
    + exfalso. apply is_empty_eq in Em. subst ch'.
      destruct q as [|c' q]; simpl in Hwm.
      * inversion Hwm; subst. discriminate.
      * discriminate.
    + inversion Hp; subst. simpl. rewrite kget_kset_eq. assumption.
Qed.

Definition Pruned (m : tree) : Prop :=
  forall path x, path <> [] -> tree_walk path m = Some x -> collect x <> [].

Lemma Pruned_kid : forall t c ch, Pruned t -> kget c (t_kids t) = Some ch -> Pruned ch /\ collect ch <> [].
Proof.
  intros t c ch H G. split.
  - intros path x Hne Hw. apply (H (c :: path) x); [discriminate|]. simpl. rewrite G. exact Hw.
  - apply (H [c] ch); [discriminate|]. simpl. rewrite G. reflexivity.
Qed.

Lemma collect_kid_nonempty : forall t c ch, In (c, ch) (t_kids t) -> collect ch <> [] -> collect t <> [].
Proof.
  intros t c ch Hin Hne. destruct (nonempty_has _ Hne) as [k Hk].
  eapply has_nonempty. eapply collect_kid_In; eassumption.
Qed.

Lemma pop_nonempty : forall q m n,
  WF m -> Pruned m -> tree_pop q m = Some n -> is_empty n = false -> collect n <> [].
Proof.
  induction q as [|c q IH]; intros m n Hwf Hpr Hp Hne.
  - simpl in Hp. inversion Hp; subst. simpl in Hne.
    destruct (t_kids m) as [|[c ch] r] eqn:K; [discriminate|].
    assert (G : kget c (t_kids m) = Some ch) by (rewrite K; simpl; rewrite String.eqb_refl; reflexivity).
    apply (collect_kid_nonempty _ c ch); [left; reflexivity|].
    apply (Pruned_kid _ _ _ Hpr G).
  - simpl in Hp.
    destruct (kget c (t_kids m)) as [ch|] eqn:G; [|discriminate].
    destruct (tree_pop q ch) as [ch'|] eqn:Pc; [|discriminate].
    destruct (Pruned_kid _ _ _ Hpr G) as [Hprc _].
    pose proof (WF_kid _ _ _ Hwf G) as Hwfc.
    destruct (is_empty ch') eqn:Em; inversion Hp; subst.
    + destruct (t_term m) as [k0|] eqn:T.
      * eapply has_nonempty. apply collect_t_In. left. simpl. reflexivity.
      * simpl in Hne. destruct (kdel c (t_kids m)) as [|[d x] r] eqn:K; [discriminate|].
        assert (Hin : In (d, x) (t_kids m)) by (apply (In_kdel c); rewrite K; left; reflexivity).
        assert (Gd : kget d (t_kids m) = Some x) by (apply In_kget; [apply (WF_root _ Hwf)|assumption]).
        apply (collect_kid_nonempty _ d x); [simpl; left; reflexivity|].
        apply (Pruned_kid _ _ _ Hpr Gd).
    + apply (collect_kid_nonempty _ c ch'); [simpl; apply In_kset_self|].
      apply (IH ch ch'); assumption.
Qed.
