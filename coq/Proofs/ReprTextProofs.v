(* C06 at character level: the text Python's repr prints for a literal value (Model/ReprText.v) is lexed by
   Model/Lexer.v into exactly the tokens [repr_toks] of Model/Repr.v (up to positions), and the modelled API
   gin.config.parse_value reads back the value it denotes.
   1. scanners are local: what follows a lexeme -- a newline or one of , : ) ] } blank -- does not matter
   2. single steps of the tokenizer on atoms and punctuation; runs ([Steps])
   3. the tokens of repr_string v
   4. end to end *)
From Coq Require Import List String ZArith Bool Arith Ascii Lia.
From GinV Require Import Lib.Out Lib.PyStr Model.Parser Model.ParserSpec Model.Repr Model.ReprText.
From GinV Require Import Proofs.ParserLemmas Proofs.ParserSmall Proofs.ParserProofs Proofs.ParserSound Proofs.ParserApi.
From GinV Require Import Proofs.ParserSim Proofs.ReprProofs.
From GinV Require Import Model.Lexer Proofs.LexerProofs Proofs.LexerParser.
Import ListNotations.
Open Scope char_scope. Open Scope list_scope. Open Scope nat_scope.

(* ================================================================== *)
(* 1. locality of the scanners *)
(* the characters that may follow a value in a repr text, and the newline *)
Definition term (c : ascii) : bool :=
  Ascii.eqb c "," || Ascii.eqb c ":" || Ascii.eqb c ")" || Ascii.eqb c "]" || Ascii.eqb c "}" || Ascii.eqb c " "
  || Ascii.eqb c nl.
(* [R l l']: the same characters, then the final newline on the left and a terminator (and anything) on the right *)
Inductive R : chars -> chars -> Prop :=
| R_end : forall c1 r1, term c1 = true -> R [nl] (c1 :: r1)
| R_cons : forall x l l', R l l' -> R (x :: l) (x :: l').
Lemma R_app : forall X c1 r1, term c1 = true -> R (X ++ [nl]) (X ++ c1 :: r1).
Proof. induction X as [|x X IH]; intros c1 r1 H; cbn [app]; [apply R_end | apply R_cons, IH]; exact H. Qed.

(* a scanner carries its result from the left text to the right one *)
Definition carries (f : chars -> scan) : Prop :=
  forall l l', R l l' -> forall a rest, f l = Some (a, rest) -> exists rest', f l' = Some (a, rest') /\ R rest rest'.

Lemma carries_pre_res : forall a (r r' : scan),
  (forall b rest, r = Some (b, rest) -> exists rest', r' = Some (b, rest') /\ R rest rest') ->
  forall b rest, pre a r = Some (b, rest) -> exists rest', pre a r' = Some (b, rest') /\ R rest rest'.
Proof.
  intros a r r' H b rest E. destruct r as [[b0 rest0]|]; cbn [pre] in E; [|discriminate]. injection E as <- <-.
  destruct (H b0 rest0 eq_refl) as [rest' [-> HR]]. exists rest'. split; [reflexivity | exact HR].
Qed.
Lemma carries_andthen : forall g, carries g ->
  forall (r r' : scan), (forall b rest, r = Some (b, rest) -> exists rest', r' = Some (b, rest') /\ R rest rest') ->
  forall b rest, andthen r g = Some (b, rest) -> exists rest', andthen r' g = Some (b, rest') /\ R rest rest'.
Proof.
  intros g Hg r r' H b rest E. destruct r as [[a rest0]|]; cbn [andthen] in E; [|discriminate].
  destruct (H a rest0 eq_refl) as [rest0' [-> HR]]. cbn [andthen].
  exact (carries_pre_res a (g rest0) (g rest0') (Hg rest0 rest0' HR) b rest E).
Qed.

(* terminators fail every test the number scanners make *)
Lemma term_not : forall c, term c = true ->
  is_digit c = false /\ is_hex c = false /\ is_oct c = false /\ is_bin c = false /\ is_word c = false /\
  is_quote c = false /\ is_alpha_ c = false /\
  Ascii.eqb c "_" = false /\ Ascii.eqb c "." = false /\ Ascii.eqb c "0" = false /\ Ascii.eqb c "\" = false /\
  either "e" "E" c = false /\ either "j" "J" c = false /\ either "+" "-" c = false /\
  either "x" "X" c = false /\ either "o" "O" c = false /\ either "b" "B" c = false /\
  either "r" "R" c = false /\ either "u" "U" c = false.
Proof.
  intros c H. unfold term in H. repeat (apply orb_true_iff in H; destruct H as [H|H]);
    apply Ascii.eqb_eq in H; subst c; vm_compute; repeat split; reflexivity.
Qed.
Ltac tnot c H := let T := fresh "T" in pose proof (term_not c H) as T; decompose [and] T; clear T.
(* rewrite every test on the terminator [c] to false *)
Ltac tsimp c H :=
  let T := fresh "T" in pose proof (term_not c H) as T; decompose [and] T; clear T;
  repeat match goal with E : ?x = false |- context [?x] => rewrite E end.

Lemma term_nl : term nl = true. Proof. reflexivity. Qed.

Section Digits.
Variable ok : ascii -> bool.
Hypothesis ok_term : forall c, term c = true -> ok c = false.
Lemma digits_tail_carries : carries (digits_tail ok).
Proof.
  unfold carries. fix IH 3. intros l l' HR a rest E. destruct HR as [c1 r1 H1 | x l l' HR].
  - cbn [digits_tail] in *.
    rewrite (ok_term nl term_nl) in E. change (Ascii.eqb nl "_") with false in E. injection E as <- <-.
    rewrite (ok_term c1 H1). tsimp c1 H1. exists (c1 :: r1). split; [reflexivity | apply R_end; exact H1].
  - cbn [digits_tail] in *. destruct (ok x).
    + exact (carries_pre_res [x] _ _ (IH l l' HR) a rest E).
    + destruct (Ascii.eqb x "_").
      * destruct HR as [c1 r1 H1 | d l l' HR2].
        -- rewrite (ok_term nl term_nl) in E. discriminate.
        -- destruct (ok d); [|discriminate]. exact (carries_pre_res [x; d] _ _ (IH l l' HR2) a rest E).
      * injection E as <- <-. exists (x :: l'). split; [reflexivity | apply R_cons; exact HR].
Qed.
Lemma radix_start_carries : carries (radix_start ok).
Proof.
  intros l l' HR a rest E. destruct HR as [c1 r1 H1 | x l l' HR].
  - cbn [radix_start] in E. rewrite (ok_term nl term_nl) in E. change (Ascii.eqb nl "_") with false in E. discriminate.
  - cbn [radix_start] in *. destruct (ok x).
    + exact (carries_pre_res [x] _ _ (digits_tail_carries l l' HR) a rest E).
    + destruct (Ascii.eqb x "_"); [|discriminate].
      destruct HR as [c1 r1 H1 | d l l' HR2].
      * rewrite (ok_term nl term_nl) in E. discriminate.
      * destruct (ok d); [|discriminate]. exact (carries_pre_res [x; d] _ _ (digits_tail_carries l l' HR2) a rest E).
Qed.
End Digits.

Lemma term_digit : forall c, term c = true -> is_digit c = false. Proof. intros c H. tnot c H. assumption. Qed.
Lemma term_hex : forall c, term c = true -> is_hex c = false. Proof. intros c H. tnot c H. assumption. Qed.
Lemma term_oct : forall c, term c = true -> is_oct c = false. Proof. intros c H. tnot c H. assumption. Qed.
Lemma term_bin : forall c, term c = true -> is_bin c = false. Proof. intros c H. tnot c H. assumption. Qed.

Lemma no_digit_behind_carries : forall (r r' : scan),
  (forall b rest, r = Some (b, rest) -> exists rest', r' = Some (b, rest') /\ R rest rest') ->
  forall b rest, no_digit_behind r = Some (b, rest) -> exists rest', no_digit_behind r' = Some (b, rest') /\ R rest rest'.
Proof.
  intros r r' H b rest E. unfold no_digit_behind in E.
  destruct r as [[a [|d rest0]]|]; try discriminate.
  - destruct (H a [] eq_refl) as [rest' [_ HR]]. inversion HR.
  - destruct (is_digit d) eqn:Ed; [discriminate|]. injection E as <- <-.
    destruct (H a (d :: rest0) eq_refl) as [rest' [-> HR]]. exists rest'. split; [|exact HR].
    unfold no_digit_behind. inversion HR as [c1 r1 H1 E1 E2 | x l l' HR2 E1 E2]; subst;
      [rewrite (term_digit _ H1) | rewrite Ed]; reflexivity.
Qed.
Lemma opt_digits_carries : carries opt_digits.
Proof.
  intros l l' HR a rest E. destruct HR as [c1 r1 H1 | x l l' HR]; cbn [opt_digits] in *.
  - change (is_digit nl) with false in E. injection E as <- <-. rewrite (term_digit _ H1).
    exists (c1 :: r1). split; [reflexivity | apply R_end; exact H1].
  - destruct (is_digit x).
    + exact (carries_pre_res [x] _ _ (digits_tail_carries is_digit term_digit l l' HR) a rest E).
    + injection E as <- <-. exists (x :: l'). split; [reflexivity | apply R_cons; exact HR].
Qed.
Lemma scan_imag_carries : carries scan_imag.
Proof.
  intros l l' HR a rest E. destruct HR as [c1 r1 H1 | x l l' HR]; cbn [scan_imag] in *.
  - change (either "j" "J" nl) with false in E. injection E as <- <-. tsimp c1 H1.
    exists (c1 :: r1). split; [reflexivity | apply R_end; assumption].
  - destruct (either "j" "J" x); injection E as <- <-.
    + exists l'. split; [reflexivity | exact HR].
    + exists (x :: l'). split; [reflexivity | apply R_cons; exact HR].
Qed.
Lemma scan_exponent_carries : carries scan_exponent.
Proof.
  intros l l' HR a rest E. destruct HR as [c1 r1 H1 | x l l' HR]; cbn [scan_exponent] in *.
  - change (either "e" "E" nl) with false in E. tsimp c1 H1.
    exact (scan_imag_carries [nl] (c1 :: r1) (R_end c1 r1 H1) a rest E).
  - destruct (either "e" "E" x); [|exact (scan_imag_carries _ _ (R_cons x l l' HR) a rest E)].
    destruct HR as [c1 r1 H1 | s l l' HR2].
    + change (either "+" "-" nl) with false in E. change (is_digit nl) with false in E. injection E as <- <-.
      tsimp c1 H1. exists (x :: c1 :: r1). split; [reflexivity | apply R_cons, R_end; assumption].
    + destruct (either "+" "-" s).
      * destruct HR2 as [c1 r1 H1 | d l l' HR3]; [change (is_digit nl) with false in E; discriminate|].
        destruct (is_digit d); [|discriminate].
        refine (carries_pre_res [x; s; d] _ _ _ a rest E).
        apply (carries_andthen scan_imag scan_imag_carries).
        exact (digits_tail_carries is_digit term_digit l l' HR3).
      * destruct (is_digit s).
        -- refine (carries_pre_res [x; s] _ _ _ a rest E).
           apply (carries_andthen scan_imag scan_imag_carries).
           exact (digits_tail_carries is_digit term_digit l l' HR2).
        -- injection E as <- <-. exists (x :: s :: l'). split; [reflexivity | apply R_cons, R_cons; exact HR2].
Qed.
Lemma scan_fraction_carries : carries scan_fraction.
Proof.
  intros l l' HR a rest E. unfold scan_fraction in *.
  exact (carries_andthen scan_exponent scan_exponent_carries _ _ (opt_digits_carries l l' HR) a rest E).
Qed.
Lemma after_int_carries : carries after_int.
Proof.
  intros l l' HR a rest E. destruct HR as [c1 r1 H1 | x l l' HR]; cbn [after_int] in *.
  - change (Ascii.eqb nl ".") with false in E. tsimp c1 H1.
    exact (scan_exponent_carries [nl] (c1 :: r1) (R_end c1 r1 H1) a rest E).
  - destruct (Ascii.eqb x ".").
    + exact (carries_pre_res [x] _ _ (scan_fraction_carries l l' HR) a rest E).
    + exact (scan_exponent_carries _ _ (R_cons x l l' HR) a rest E).
Qed.
Lemma zeros_carries : carries zeros.
Proof.
  unfold carries. fix IH 3. intros l l' HR a rest E. destruct HR as [c1 r1 H1 | x l l' HR]; cbn [zeros] in *.
  - change (Ascii.eqb nl "0") with false in E. change (Ascii.eqb nl "_") with false in E. injection E as <- <-.
    tsimp c1 H1. exists (c1 :: r1). split; [reflexivity | apply R_end; assumption].
  - destruct (Ascii.eqb x "0"); [exact (carries_pre_res [x] _ _ (IH l l' HR) a rest E)|].
    destruct (Ascii.eqb x "_").
    + destruct HR as [c1 r1 H1 | d l l' HR2].
      * change (Ascii.eqb nl "0") with false in E. change (is_digit nl) with false in E. discriminate.
      * destruct (Ascii.eqb d "0"); [exact (carries_pre_res [x; d] _ _ (IH l l' HR2) a rest E)|].
        destruct (is_digit d); [|discriminate]. injection E as <- <-.
        exists (d :: l'). split; [reflexivity | apply R_cons; exact HR2].
    + injection E as <- <-. exists (x :: l'). split; [reflexivity | apply R_cons; exact HR].
Qed.
Lemma zero_tail_carries : carries (fun l1 => andthen (opt_digits l1) after_int).
Proof.
  intros l l' HR a rest E.
  exact (carries_andthen after_int after_int_carries _ _ (opt_digits_carries l l' HR) a rest E).
Qed.
Lemma scan_number_carries : forall c l l', R l l' -> forall a rest, scan_number (c :: l) = Some (a, rest) ->
  exists rest', scan_number (c :: l') = Some (a, rest') /\ R rest rest'.
Proof.
  intros c l l' HR a rest E. cbn [scan_number] in *.
  destruct (Ascii.eqb c "."); [exact (carries_pre_res [c] _ _ (scan_fraction_carries l l' HR) a rest E)|].
  destruct (Ascii.eqb c "0").
  - destruct HR as [c1 r1 H1 | x l l' HR].
    + change (either "x" "X" nl) with false in E. change (either "o" "O" nl) with false in E.
      change (either "b" "B" nl) with false in E. tsimp c1 H1.
      refine (carries_pre_res [c] _ _ _ a rest E).
      apply (carries_andthen _ zero_tail_carries). exact (zeros_carries _ _ (R_end c1 r1 H1)).
    + destruct (either "x" "X" x);
        [exact (carries_pre_res [c; x] _ _ (radix_start_carries is_hex term_hex l l' HR) a rest E)|].
      destruct (either "o" "O" x);
        [refine (carries_pre_res [c; x] _ _ _ a rest E); apply no_digit_behind_carries;
         exact (radix_start_carries is_oct term_oct l l' HR)|].
      destruct (either "b" "B" x);
        [refine (carries_pre_res [c; x] _ _ _ a rest E); apply no_digit_behind_carries;
         exact (radix_start_carries is_bin term_bin l l' HR)|].
      refine (carries_pre_res [c] _ _ _ a rest E).
      apply (carries_andthen _ zero_tail_carries). exact (zeros_carries _ _ (R_cons x l l' HR)).
  - refine (carries_pre_res [c] _ _ _ a rest E).
    apply (carries_andthen _ after_int_carries). exact (digits_tail_carries is_digit term_digit l l' HR).
Qed.

(* strings: the closing quote is found before the end *)
Section Strings.
Variable q : ascii.
Hypothesis q_quote : is_quote q = true.
Lemma nl_not_q : Ascii.eqb nl q = false.
Proof. destruct (Ascii.eqb nl q) eqn:E; [|reflexivity]. apply Ascii.eqb_eq in E. subst q. discriminate q_quote. Qed.
Lemma term_not_q : forall c, term c = true -> Ascii.eqb c q = false.
Proof.
  intros c H. destruct (Ascii.eqb c q) eqn:E; [|reflexivity]. apply Ascii.eqb_eq in E. subst q.
  tnot c H. congruence.
Qed.
Lemma str1_carries : carries (str1 q).
Proof.
  unfold carries. fix IH 3. intros l l' HR a rest E. destruct HR as [c1 r1 H1 | x l l' HR]; cbn [str1] in *.
  - rewrite Ascii.eqb_refl in E. discriminate.
  - destruct (Ascii.eqb x nl); [discriminate|].
    destruct (Ascii.eqb x q); [injection E as <- <-; exists l'; split; [reflexivity | exact HR]|].
    destruct (Ascii.eqb x "\").
    + destruct HR as [c1 r1 H1 | d l l' HR2]; [discriminate|].
      exact (carries_pre_res [x; d] _ _ (IH l l' HR2) a rest E).
    + exact (carries_pre_res [x] _ _ (IH l l' HR) a rest E).
Qed.
Lemma str3_carries : forall run, carries (str3 q run).
Proof.
  unfold carries. fix IH 4. intros run l l' HR a rest E. destruct HR as [c1 r1 H1 | x l l' HR]; cbn [str3] in *.
  - rewrite nl_not_q in E. change (Ascii.eqb nl "\") with false in E. discriminate.
  - destruct (Ascii.eqb x q).
    + destruct (Nat.eqb run 2); [injection E as <- <-; exists l'; split; [reflexivity | exact HR]|].
      exact (carries_pre_res [x] _ _ (IH (S run) l l' HR) a rest E).
    + destruct (Ascii.eqb x "\").
      * destruct HR as [c1 r1 H1 | d l l' HR2]; [discriminate|].
        exact (carries_pre_res [x; d] _ _ (IH 0 l l' HR2) a rest E).
      * exact (carries_pre_res [x] _ _ (IH 0 l l' HR) a rest E).
Qed.
Lemma scan_string_carries : forall l l', R l l' -> forall a rest, scan_string (q :: l) = Some (a, rest) ->
  exists rest', scan_string (q :: l') = Some (a, rest') /\ R rest rest'.
Proof.
  intros l l' HR a rest E. cbn [scan_string] in *.
  destruct HR as [c1 r1 H1 | q1 l l' HR].
  - cbn [pre str1] in E. rewrite Ascii.eqb_refl in E. discriminate.
  - destruct HR as [c1 r1 H1 | q2 l l' HR2].
    + rewrite nl_not_q, andb_false_r in E. rewrite (term_not_q c1 H1), andb_false_r.
      exact (carries_pre_res [q] _ _ (str1_carries _ _ (R_cons q1 _ _ (R_end c1 r1 H1))) a rest E).
    + destruct (Ascii.eqb q1 q && Ascii.eqb q2 q).
      * exact (carries_pre_res [q; q1; q2] _ _ (str3_carries 0 l l' HR2) a rest E).
      * exact (carries_pre_res [q] _ _ (str1_carries _ _ (R_cons q1 _ _ (R_cons q2 _ _ HR2))) a rest E).
Qed.
End Strings.

Lemma string_prefix_carries : forall l l', R l l' ->
  match string_prefix l with
  | Some (pfx, qrest) => exists qrest', string_prefix l' = Some (pfx, qrest') /\ R qrest qrest'
  | None => string_prefix l' = None
  end.
Proof.
  intros l l' HR. unfold string_prefix.
  destruct HR as [c1 r1 H1 | a l l' HR].
  { unfold is_b, is_r, is_u. tsimp c1 H1. destruct r1 as [|a [|q2 r']]; try reflexivity; destruct (is_quote a); try reflexivity.
    cbn [andb orb]. destruct (is_quote q2); reflexivity. }
  destruct HR as [c1 r1 H1 | b l l' HR2].
  - change (is_quote nl) with false. cbv iota. unfold is_b, is_r, is_u. tsimp c1 H1.
    destruct r1 as [|q2 r']; [reflexivity|].
    destruct (is_quote q2), (either "b" "B" a), (either "r" "R" a); reflexivity.
  - destruct (is_quote b).
    + destruct (is_b a || is_r a || is_u a); [|reflexivity].
      exists (b :: l'). split; [reflexivity | apply R_cons; exact HR2].
    + destruct HR2 as [c1 r1 H1 | c l l' HR3].
      * change (is_quote nl) with false. tsimp c1 H1. reflexivity.
      * destruct (is_quote c && (is_b a && is_r b || is_r a && is_b b)); [|reflexivity].
        exists (c :: l'). split; [reflexivity | apply R_cons; exact HR3].
Qed.

Lemma span_word_carries : forall l l', R l l' -> forall a rest, span is_word l = (a, rest) ->
  exists rest', span is_word l' = (a, rest') /\ R rest rest'.
Proof.
  intros l l' HR. induction HR as [c1 r1 H1 | x l l' HR IH]; intros a rest E; cbn [span] in *.
  - change (is_word nl) with false in E. injection E as <- <-. tsimp c1 H1.
    exists (c1 :: r1). split; [reflexivity | apply R_end; assumption].
  - destruct (is_word x).
    + destruct (span is_word l) as [a0 b0]. injection E as <- <-. destruct (IH a0 b0 eq_refl) as [rest' [-> HR']].
      exists rest'. split; [reflexivity | exact HR'].
    + injection E as <- <-. exists (x :: l'). split; [reflexivity | apply R_cons; exact HR].
Qed.

(* the dispatch of step_tok on a first character that opens a NAME, a NUMBER or a STRING *)
Definition atom_start (c : ascii) (r : chars) : bool :=
  is_alpha_ c || is_digit c || (Ascii.eqb c "." && match r with d :: _ => is_digit d | [] => false end) || is_quote c.
Definition scan_atom (l : chars) : ttype * scan :=
  match l with
  | c :: r =>
      if is_alpha_ c then
        match string_prefix l with
        | Some (pfx, qrest) => (STRING, pre pfx (scan_string qrest))
        | None => (NAME, Some (span is_word l))
        end
      else if is_digit c || (Ascii.eqb c "." && match r with d :: _ => is_digit d | [] => false end)
      then (NUMBER, scan_number l)
      else (STRING, scan_string l)
  | [] => (STRING, None)
  end.

Lemma string_prefix_quote : forall l pfx qrest, string_prefix l = Some (pfx, qrest) ->
  exists q r, qrest = q :: r /\ is_quote q = true.
Proof. intros l pfx qrest H. destruct (string_prefix_spec _ _ _ H) as [_ [H2 _]]. exact H2. Qed.

Lemma scan_atom_carries : forall c l l', R l l' -> atom_start c l = true ->
  forall t a rest, scan_atom (c :: l) = (t, Some (a, rest)) ->
  atom_start c l' = true /\ exists rest', scan_atom (c :: l') = (t, Some (a, rest')) /\ R rest rest'.
Proof.
  intros c l l' HR Hs t a rest E.
  assert (Hd : match l with d :: _ => is_digit d | [] => false end = match l' with d :: _ => is_digit d | [] => false end).
  { destruct HR as [c1 r1 H1 | x l l' HR]; [|reflexivity]. rewrite (term_digit _ H1). reflexivity. }
  split; [unfold atom_start in *; rewrite <- Hd; exact Hs|].
  unfold scan_atom in *. rewrite <- Hd. destruct (is_alpha_ c) eqn:Eal.
  - pose proof (string_prefix_carries _ _ (R_cons c l l' HR)) as Hp.
    destruct (string_prefix (c :: l)) as [[pfx qrest]|] eqn:Epf.
    + destruct Hp as [qrest' [-> HRq]]. injection E as <- E.
      destruct (string_prefix_quote _ _ _ Epf) as [q [r [-> Hq]]].
      inversion HRq as [|x r0 r0' HR2]; subst.
      * vm_compute in Hq. discriminate.
      * assert (Hc : forall b rest0, scan_string (q :: r) = Some (b, rest0) ->
                       exists rest', scan_string (q :: r0') = Some (b, rest') /\ R rest0 rest')
          by (intros b rest0; apply (scan_string_carries q Hq); exact HR2).
        destruct (carries_pre_res pfx _ _ Hc a rest E) as [rest' [-> HR']].
        exists rest'. split; [reflexivity | exact HR'].
    + rewrite Hp. injection E as <- E.
      destruct (span_word_carries _ _ (R_cons c l l' HR) a rest E) as [rest' [-> HR']].
      exists rest'. split; [reflexivity | exact HR'].
  - destruct (is_digit c || (Ascii.eqb c "." && match l with d :: _ => is_digit d | [] => false end)) eqn:En.
    + injection E as <- E. destruct (scan_number_carries c l l' HR a rest E) as [rest' [-> HR']].
      exists rest'. split; [reflexivity | exact HR'].
    + injection E as <- E.
      assert (Hq : is_quote c = true).
      { unfold atom_start in Hs. rewrite Eal in Hs. cbn [orb] in Hs. rewrite En in Hs. exact Hs. }
      destruct (scan_string_carries c Hq l l' HR a rest E) as [rest' [-> HR']].
      exists rest'. split; [reflexivity | exact HR'].
Qed.

Lemma scan_atom_splits : forall l t a rest, scan_atom l = (t, Some (a, rest)) -> l = a ++ rest.
Proof.
  intros l t a rest E. unfold scan_atom in E. destruct l as [|c r]; [discriminate|].
  destruct (is_alpha_ c) eqn:Eal.
  - destruct (string_prefix (c :: r)) as [[pfx qrest]|] eqn:Epf.
    + injection E as _ E. destruct (string_prefix_spec _ _ _ Epf) as [El [[q [r0 [-> Hq]]] _]].
      destruct (scan_string (q :: r0)) as [[b rest0]|] eqn:Es; cbn [pre] in E; [|discriminate]. injection E as <- <-.
      destruct (scan_string_spec _ _ _ _ Es) as [E2 _]. rewrite El, E2. apply app_assoc.
    + injection E as _ E. exact (proj1 (span_spec is_word (c :: r) _ _ E)).
  - destruct (is_digit c || _) eqn:En; injection E as _ E.
    + assert (Hn : nonl c).
      { apply orb_true_iff in En. destruct En as [H|H]; [exact (is_digit_nonl c H)|].
        apply andb_true_iff in H. destruct H as [H _]. apply Ascii.eqb_eq in H. subst c. intro; discriminate. }
      exact (proj1 (scan_number_splits c r Hn a rest E)).
    + exact (proj1 (scan_string_spec _ _ _ _ E)).
Qed.

(* ================================================================== *)
(* 2. single steps, runs *)
Lemma span_spaces : forall ws c r, spaces ws -> is_space c = false -> span is_space (ws ++ c :: r) = (ws, c :: r).
Proof.
  induction ws as [|x ws IH]; intros c r Hs Hc; cbn [app span].
  - rewrite Hc. reflexivity.
  - rewrite (Forall_inv Hs). rewrite (IH c r (Forall_inv_tail Hs) Hc). reflexivity.
Qed.
Lemma atom_start_tests : forall c r, atom_start c r = true ->
  is_space c = false /\ Ascii.eqb c "#" = false /\ Ascii.eqb c nl = false.
Proof.
  intros c r H. repeat split.
  - unfold is_space. destruct (Ascii.eqb c " ") eqn:E; [|reflexivity]. apply Ascii.eqb_eq in E. subst c. discriminate H.
  - destruct (Ascii.eqb c "#") eqn:E; [|reflexivity]. apply Ascii.eqb_eq in E. subst c. discriminate H.
  - destruct (Ascii.eqb c nl) eqn:E; [|reflexivity]. apply Ascii.eqb_eq in E. subst c. discriminate H.
Qed.

Lemma step_tok_atom : forall imp st ws c r, spaces ws -> atom_start c r = true ->
  step_tok imp st (ws ++ c :: r) =
  match scan_atom (c :: r) with
  | (t, Some (lx, rest')) =>
      Next [mk t lx (pos_after (lpos st) ws)] (move st (pos_after (pos_after (lpos st) ws) lx) false) rest'
  | (_, None) => Done [terr_token]
  end.
Proof.
  intros imp st ws c r Hs Ha. destruct (atom_start_tests c r Ha) as [H1 [H2 H3]].
  unfold step_tok. rewrite (span_spaces ws c r Hs H1). cbv zeta. rewrite H2, H3.
  unfold scan_atom. destruct (is_alpha_ c) eqn:Eal.
  - destruct (string_prefix (c :: r)) as [[pfx qrest]|]; [|destruct (span is_word (c :: r)); reflexivity].
    destruct (pre pfx (scan_string qrest)) as [[lx rest']|]; reflexivity.
  - destruct (is_digit c || (Ascii.eqb c "." && match r with d :: _ => is_digit d | [] => false end)) eqn:En.
    + destruct (scan_number (c :: r)) as [[lx rest']|]; reflexivity.
    + assert (Hq : is_quote c = true).
      { unfold atom_start in Ha. rewrite Eal in Ha. cbn [orb] in Ha. rewrite En in Ha. exact Ha. }
      rewrite Hq. destruct (scan_string (c :: r)) as [[lx rest']|]; reflexivity.
Qed.

(* an atom: its text, followed by the final newline, is scanned as one NAME / NUMBER / STRING lexeme *)
Definition atom_scans (t : token) : Prop :=
  exists c r, list_ascii_of_string (text t) = c :: r /\ atom_start c (r ++ [nl]) = true /\
              scan_atom (c :: r ++ [nl]) = (ty t, Some (c :: r, [nl])).

Lemma step_atom : forall imp st t ws c1 r1, atom_scans t -> atbol st = false -> spaces ws -> term c1 = true ->
  step imp st (ws ++ list_ascii_of_string (text t) ++ c1 :: r1) =
  Next [mk (ty t) (list_ascii_of_string (text t)) (pos_after (lpos st) ws)]
       (move st (pos_after (pos_after (lpos st) ws) (list_ascii_of_string (text t))) false) (c1 :: r1).
Proof.
  intros imp st t ws c1 r1 [c [r [EX [Ha Es]]]] Hb Hs H1. unfold step. rewrite Hb, EX. cbn [app].
  destruct (scan_atom_carries c _ _ (R_app r c1 r1 H1) Ha _ _ _ Es) as [Ha' [rest' [Es' HR]]].
  pose proof (scan_atom_splits _ _ _ _ Es') as Esp. cbn [app] in Esp. injection Esp as Esp.
  apply app_inv_head in Esp. subst rest'.
  rewrite (step_tok_atom imp st ws c _ Hs Ha'), Es'. reflexivity.
Qed.

(* punctuation *)
Definition op_start (c : ascii) : bool :=
  negb (Ascii.eqb c "#" || Ascii.eqb c nl || is_alpha_ c || is_digit c || Ascii.eqb c "." || is_quote c
        || Ascii.eqb c "\" || is_space c).
Lemma step_tok_op : forall imp st ws c rest, spaces ws -> op_start c = true ->
  step_tok imp st (ws ++ c :: rest) =
  match scan_op (c :: rest) with
  | None => Done [terr_token]
  | Some (op, rest') =>
      if is_open_op op && (MAXLEVEL <=? level st) then Done [terr_token] else
      Next [mk OP op (pos_after (lpos st) ws)]
           {| lpos := pos_after (pos_after (lpos st) ws) op; atbol := false; stack := stack st;
              level := new_level (level st) op |} rest'
  end.
Proof.
  intros imp st ws c rest Hs Ho. unfold op_start in Ho. apply negb_true_iff in Ho.
  repeat (apply orb_false_iff in Ho; let H := fresh "T" in destruct Ho as [Ho H]).
  unfold step_tok. rewrite (span_spaces ws c rest Hs T). cbv zeta.
  rewrite Ho, T5, T4, T3, T2, T1, T0. cbn [andb orb]. reflexivity.
Qed.
(* brackets and the comma are tokens whatever follows *)
Definition simple_op (c : ascii) : bool :=
  Ascii.eqb c "[" || Ascii.eqb c "]" || Ascii.eqb c "(" || Ascii.eqb c ")" || Ascii.eqb c "{" || Ascii.eqb c "}"
  || Ascii.eqb c ",".
Lemma scan_op_simple : forall c rest, simple_op c = true -> scan_op (c :: rest) = Some ([c], rest) /\ op_start c = true.
Proof.
  intros c rest H. unfold simple_op in H.
  repeat (apply orb_true_iff in H; destruct H as [H|H]); apply Ascii.eqb_eq in H; subst c;
    (split; [|reflexivity]); destruct rest as [|b [|d r]]; reflexivity.
Qed.
Lemma step_op_simple : forall imp st ws c rest, atbol st = false -> spaces ws -> simple_op c = true ->
  (is_open_op [c] = true -> level st < MAXLEVEL) ->
  step imp st (ws ++ c :: rest) =
  Next [mk OP [c] (pos_after (lpos st) ws)]
       {| lpos := pos_after (pos_after (lpos st) ws) [c]; atbol := false; stack := stack st;
          level := new_level (level st) [c] |} rest.
Proof.
  intros imp st ws c rest Hb Hs Hc Hl. unfold step. rewrite Hb.
  destruct (scan_op_simple c rest Hc) as [Eo Ho]. rewrite (step_tok_op imp st ws c rest Hs Ho), Eo.
  destruct (is_open_op [c]) eqn:E; [|reflexivity].
  specialize (Hl eq_refl). apply Nat.leb_gt in Hl. rewrite Hl. reflexivity.
Qed.
(* the colon of a dict item is followed by a blank; the minus by the first character of a NAME / NUMBER *)
Lemma step_colon : forall imp st ws rest, atbol st = false -> spaces ws ->
  step imp st (ws ++ ":" :: " " :: rest) =
  Next [mk OP [":"] (pos_after (lpos st) ws)]
       {| lpos := pos_after (pos_after (lpos st) ws) [":"]; atbol := false; stack := stack st; level := level st |}
       (" " :: rest).
Proof.
  intros imp st ws rest Hb Hs. unfold step. rewrite Hb.
  rewrite (step_tok_op imp st ws ":" (" " :: rest) Hs eq_refl).
  destruct rest as [|d r]; reflexivity.
Qed.
Lemma step_minus : forall imp st ws c rest, atbol st = false -> spaces ws ->
  Ascii.eqb c "=" = false -> Ascii.eqb c ">" = false ->
  step imp st (ws ++ "-" :: c :: rest) =
  Next [mk OP ["-"] (pos_after (lpos st) ws)]
       {| lpos := pos_after (pos_after (lpos st) ws) ["-"]; atbol := false; stack := stack st; level := level st |}
       (c :: rest).
Proof.
  intros imp st ws c rest Hb Hs H1 H2. unfold step. rewrite Hb.
  rewrite (step_tok_op imp st ws "-" (c :: rest) Hs eq_refl).
  assert (E : scan_op ("-" :: c :: rest) = Some (["-"], c :: rest)).
  { destruct rest as [|d r]; unfold scan_op, in_table, ops3, ops2, ops1;
      cbn [existsb string_of_list_ascii String.eqb Ascii.eqb Bool.eqb andb orb]; rewrite ?H1, ?H2; reflexivity. }
  rewrite E. reflexivity.
Qed.

(* runs of Next steps *)
Inductive Steps (imp : bool) : lstate -> chars -> list token -> lstate -> chars -> Prop :=
| Steps_refl : forall st l, Steps imp st l [] st l
| Steps_step : forall st l e st1 l1 toks st2 l2,
    step imp st l = Next e st1 l1 -> Steps imp st1 l1 toks st2 l2 -> Steps imp st l (e ++ toks) st2 l2.
Lemma Steps_one : forall imp st l e st1 l1, step imp st l = Next e st1 l1 -> Steps imp st l e st1 l1.
Proof. intros. rewrite <- (app_nil_r e). eapply Steps_step; [eassumption | apply Steps_refl]. Qed.
Lemma Steps_trans : forall imp st l t1 st1 l1 t2 st2 l2,
  Steps imp st l t1 st1 l1 -> Steps imp st1 l1 t2 st2 l2 -> Steps imp st l (t1 ++ t2) st2 l2.
Proof.
  intros imp st l t1 st1 l1 t2 st2 l2 H. induction H as [|st l e sta la toks stb lb E H IH]; intro H2; [exact H2|].
  rewrite <- app_assoc. eapply Steps_step; [exact E | exact (IH H2)].
Qed.
Lemma Steps_run : forall imp st l toks st' l', Steps imp st l toks st' l' ->
  forall fuel, measure st l < fuel ->
  exists fuel', measure st' l' < fuel' /\ run fuel imp st l = toks ++ run fuel' imp st' l'.
Proof.
  intros imp st l toks st' l' H. induction H as [|st l e sta la toks stb lb E H IH]; intros fuel Hm.
  - exists fuel. split; [exact Hm | reflexivity].
  - destruct fuel as [|f]; [lia|]. cbn [run]. rewrite E.
    pose proof (step_Step imp st l) as HS. rewrite E in HS. pose proof (Step_measure _ _ _ _ _ _ HS) as Hd.
    destruct (IH f ltac:(lia)) as [fuel' [Hm' Er]]. exists fuel'. split; [exact Hm'|].
    rewrite Er. apply app_assoc.
Qed.

Definition tk (t : token) : ttype * string := (ty t, text t).
Definition spell (ts : list token) : list (ttype * string) := map tk ts.
Lemma spell_app : forall a b, spell (a ++ b) = spell a ++ spell b.
Proof. intros. apply map_app. Qed.

Definition same_frame (st st' : lstate) : Prop :=
  atbol st' = false /\ level st' = level st /\ stack st' = stack st.
Lemma same_frame_trans : forall a b c, same_frame a b -> same_frame b c -> same_frame a c.
Proof. intros a b c [H1 [H2 H3]] [H4 [H5 H6]]. repeat split; congruence. Qed.
Definition follows (rest : chars) : Prop := exists c r, rest = c :: r /\ term c = true.

(* the text [l], wherever it stands in front of a terminator and behind blanks, is lexed as tokens spelled like [ts],
   opening at most [d] brackets *)
Definition lexes_as (l : chars) (ts : list token) (d : nat) : Prop :=
  forall imp st ws rest, atbol st = false -> spaces ws -> level st + d <= MAXLEVEL -> follows rest ->
  exists toks st', Steps imp st (ws ++ l ++ rest) toks st' rest /\ spell toks = spell ts /\ same_frame st st'.

Lemma lexes_as_mono : forall l ts d d', lexes_as l ts d -> d <= d' -> lexes_as l ts d'.
Proof. intros l ts d d' H Hd imp st ws rest Hb Hs Hl Hf. apply H; try assumption. lia. Qed.

Lemma string_of_chars_text : forall s, string_of_list_ascii (list_ascii_of_string s) = s.
Proof. exact string_of_list_ascii_of_string. Qed.

Lemma lexes_atom : forall t, atom_scans t -> lexes_as (list_ascii_of_string (text t)) [t] 0.
Proof.
  intros t Ht imp st ws rest Hb Hs _ [c1 [r1 [-> H1]]].
  eexists _, _. split; [apply Steps_one; exact (step_atom imp st t ws c1 r1 Ht Hb Hs H1)|].
  split; [|repeat split; reflexivity].
  unfold spell, tk. cbn [map mk ty text]. rewrite string_of_chars_text. reflexivity.
Qed.

Lemma lexes_simple_op : forall imp st ws c rest, atbol st = false -> spaces ws -> simple_op c = true ->
  (is_open_op [c] = true -> level st < MAXLEVEL) ->
  exists st', Steps imp st (ws ++ c :: rest) [mk OP [c] (pos_after (lpos st) ws)] st' rest /\
              atbol st' = false /\ level st' = new_level (level st) [c] /\ stack st' = stack st.
Proof.
  intros imp st ws c rest Hb Hs Hc Hl. eexists. split; [apply Steps_one; exact (step_op_simple imp st ws c rest Hb Hs Hc Hl)|].
  repeat split; reflexivity.
Qed.

Lemma atom_first : forall t, atom_scans t -> exists c r, list_ascii_of_string (text t) = c :: r /\
  Ascii.eqb c "=" = false /\ Ascii.eqb c ">" = false.
Proof.
  intros t [c [r [E [Ha _]]]]. exists c, r. split; [exact E|].
  split; (destruct (Ascii.eqb c _) eqn:Ec; [|reflexivity]); apply Ascii.eqb_eq in Ec; subst c; discriminate Ha.
Qed.
Lemma lexes_neg : forall t, atom_scans t -> lexes_as ("-" :: list_ascii_of_string (text t)) [op_tok "-"; t] 0.
Proof.
  intros t Ht imp st ws rest Hb Hs Hl Hf.
  destruct (atom_first t Ht) as [c [r [E [H1 H2]]]].
  pose proof (step_minus imp st ws c (r ++ rest) Hb Hs H1 H2) as S1.
  set (st1 := {| lpos := pos_after (pos_after (lpos st) ws) ["-"]; atbol := false; stack := stack st; level := level st |}) in *.
  destruct (lexes_atom t Ht imp st1 [] rest eq_refl (Forall_nil _) Hl Hf) as [toks [st' [S2 [Sp [F1 [F2 F3]]]]]].
  exists (mk OP ["-"] (pos_after (lpos st) ws) :: toks), st'. split; [|split].
  - change (mk OP ["-"] (pos_after (lpos st) ws) :: toks) with ([mk OP ["-"] (pos_after (lpos st) ws)] ++ toks).
    eapply Steps_trans; [apply Steps_one|exact S2]. cbn [app] in *. rewrite E. cbn [app]. exact S1.
  - unfold spell in *. cbn [map]. rewrite Sp. reflexivity.
  - repeat split; assumption.
Qed.

(* brackets around an inner text *)
Lemma lexes_brackets : forall o c inner ts d,
  simple_op o = true -> simple_op c = true -> is_open_op [o] = true -> is_open_op [c] = false -> is_close_op [c] = true ->
  (inner = [] /\ ts = [] \/ lexes_as inner ts d) ->
  lexes_as (o :: inner ++ [c]) (op_tok (String o EmptyString) :: ts ++ [op_tok (String c EmptyString)]) (S d).
Proof.
  intros o c inner ts d Ho Hc Oo Oc Cc Hin imp st ws rest Hb Hs Hl Hf.
  destruct (lexes_simple_op imp st ws o (inner ++ c :: rest) Hb Hs Ho ltac:(intros _; lia)) as [st1 [S1 [B1 [L1 K1]]]].
  unfold new_level in L1. rewrite Oo in L1.
  assert (Hmid : exists toks st2, Steps imp st1 (inner ++ c :: rest) toks st2 (c :: rest) /\ spell toks = spell ts /\
                                  same_frame st1 st2).
  { destruct Hin as [[-> ->]|Hin].
    - exists [], st1. split; [apply Steps_refl|]. split; [reflexivity | repeat split; assumption].
    - apply (Hin imp st1 [] (c :: rest) B1 (Forall_nil _)); [rewrite L1; lia|].
      exists c, rest. split; [reflexivity|]. unfold simple_op in Hc. unfold term.
      repeat (apply orb_true_iff in Hc; destruct Hc as [Hc|Hc]); apply Ascii.eqb_eq in Hc; subst c;
        try reflexivity; discriminate. }
  destruct Hmid as [toks [st2 [S2 [Sp [B2 [L2 K2]]]]]].
  destruct (lexes_simple_op imp st2 [] c rest B2 (Forall_nil _) Hc ltac:(intro E; rewrite E in Oc; discriminate))
    as [st3 [S3 [B3 [L3 K3]]]].
  unfold new_level in L3. rewrite Oc, Cc, L2, L1 in L3. cbn [Nat.pred] in L3.
  eexists _, st3. split; [|split].
  - replace (ws ++ (o :: inner ++ [c]) ++ rest) with (ws ++ o :: inner ++ c :: rest)
      by (cbn [app]; rewrite <- app_assoc; reflexivity).
    change (op_tok (String o EmptyString) :: ts ++ [op_tok (String c EmptyString)])
      with ([op_tok (String o EmptyString)] ++ ts ++ [op_tok (String c EmptyString)]).
    eapply Steps_trans; [exact S1|]. eapply Steps_trans; [exact S2 | exact S3].
  - unfold spell in *. cbn [map app]. rewrite !map_app, Sp. reflexivity.
  - repeat split; congruence.
Qed.

Lemma follows_cons : forall c r, term c = true -> follows (c :: r).
Proof. intros c r H. exists c, r. auto. Qed.

Lemma lexes_seq_op : forall a ta d c, lexes_as a ta d -> simple_op c = true -> is_open_op [c] = false ->
  is_close_op [c] = false -> term c = true ->
  forall imp st ws rest, atbol st = false -> spaces ws -> level st + d <= MAXLEVEL ->
  exists toks st', Steps imp st (ws ++ a ++ c :: rest) toks st' rest /\
                   spell toks = spell (ta ++ [op_tok (String c EmptyString)]) /\ same_frame st st'.
Proof.
  intros a ta d c Ha Hc Oc Cc Tc imp st ws rest Hb Hs Hl.
  destruct (Ha imp st ws (c :: rest) Hb Hs Hl (follows_cons c rest Tc)) as [t1 [st1 [S1 [Sp1 [B1 [L1 K1]]]]]].
  destruct (lexes_simple_op imp st1 [] c rest B1 (Forall_nil _) Hc ltac:(intro E; rewrite E in Oc; discriminate))
    as [st2 [S2 [B2 [L2 K2]]]].
  unfold new_level in L2. rewrite Oc, Cc in L2.
  eexists _, st2. split; [eapply Steps_trans; [exact S1 | exact S2]|]. split.
  - unfold spell in *. rewrite !map_app, Sp1. reflexivity.
  - repeat split; congruence.
Qed.
Lemma lexes_trailing_comma : forall a ta d, lexes_as a ta d -> lexes_as (a ++ [","]) (ta ++ [op_tok ","]) d.
Proof.
  intros a ta d Ha imp st ws rest Hb Hs Hl Hf.
  destruct (lexes_seq_op a ta d "," Ha eq_refl eq_refl eq_refl eq_refl imp st ws rest Hb Hs Hl) as [toks [st' [S [Sp F]]]].
  exists toks, st'. rewrite <- app_assoc. cbn [app]. auto.
Qed.

Definition sepc : chars := [","; " "].
Fixpoint join_chars (sep : chars) (l : list chars) : chars :=
  match l with
  | [] => []
  | [x] => x
  | x :: r => x ++ sep ++ join_chars sep r
  end.
Lemma lexes_join : forall (A : Type) (f : A -> chars) (g : A -> list token) d (l : list A), l <> [] ->
  Forall (fun x => lexes_as (f x) (g x) d) l ->
  lexes_as (join_chars sepc (map f l)) (join_toks [op_tok ","] (map g l)) d.
Proof.
  intros A f g d l. induction l as [|a l IH]; intros Hne HF; [congruence|].
  destruct l as [|b l']; [exact (Forall_inv HF)|].
  specialize (IH ltac:(discriminate) (Forall_inv_tail HF)). pose proof (Forall_inv HF) as Ha.
  set (J := join_chars sepc (map f (b :: l'))) in *. set (TJ := join_toks [op_tok ","] (map g (b :: l'))) in *.
  change (join_chars sepc (map f (a :: b :: l'))) with (f a ++ sepc ++ J).
  change (join_toks [op_tok ","] (map g (a :: b :: l'))) with (g a ++ [op_tok ","] ++ TJ).
  intros imp st ws rest Hb Hs Hl Hf.
  destruct (lexes_seq_op (f a) (g a) d "," Ha eq_refl eq_refl eq_refl eq_refl imp st ws ([" "] ++ J ++ rest) Hb Hs Hl)
    as [t1 [st1 [S1 [Sp1 [B1 [L1 K1]]]]]].
  destruct (IH imp st1 [" "] rest B1 ltac:(repeat constructor) ltac:(rewrite L1; exact Hl) Hf)
    as [t2 [st2 [S2 [Sp2 F2]]]].
  exists (t1 ++ t2), st2. split; [|split].
  - replace (ws ++ (f a ++ sepc ++ J) ++ rest) with (ws ++ f a ++ "," :: [" "] ++ J ++ rest)
      by (unfold sepc; cbn [app]; rewrite <- !app_assoc; reflexivity).
    eapply Steps_trans; [exact S1 | exact S2].
  - unfold spell in *. rewrite !map_app, Sp1, Sp2, !map_app. rewrite <- app_assoc. reflexivity.
  - exact (same_frame_trans _ _ _ (conj B1 (conj L1 K1)) F2).
Qed.
Lemma lexes_item : forall k tk0 v tv d, lexes_as k tk0 d -> lexes_as v tv d ->
  lexes_as (k ++ [":"; " "] ++ v) (tk0 ++ [op_tok ":"] ++ tv) d.
Proof.
  intros k tk0 v tv d Hk Hv imp st ws rest Hb Hs Hl Hf.
  destruct (Hk imp st ws (":" :: " " :: v ++ rest) Hb Hs Hl (follows_cons ":" _ eq_refl)) as [t1 [st1 [S1 [Sp1 [B1 [L1 K1]]]]]].
  pose proof (step_colon imp st1 [] (v ++ rest) B1 (Forall_nil _)) as S2. cbn [app] in S2.
  set (st2 := {| lpos := pos_after (pos_after (lpos st1) []) [":"]; atbol := false; stack := stack st1; level := level st1 |}) in *.
  destruct (Hv imp st2 [" "] rest eq_refl ltac:(repeat constructor) ltac:(cbn [level st2]; rewrite L1; exact Hl) Hf)
    as [t3 [st3 [S3 [Sp3 [B3 [L3 K3]]]]]].
  exists (t1 ++ [mk OP [":"] (pos_after (lpos st1) [])] ++ t3), st3. split; [|split].
  - replace (ws ++ (k ++ [":"; " "] ++ v) ++ rest) with (ws ++ k ++ ":" :: " " :: v ++ rest)
      by (cbn [app]; rewrite <- !app_assoc; reflexivity).
    eapply Steps_trans; [exact S1|]. eapply Steps_trans; [apply Steps_one; exact S2 | exact S3].
  - unfold spell in *. rewrite !map_app, Sp1, Sp3. reflexivity.
  - cbn [level stack st2] in *. repeat split; congruence.
Qed.

Definition cs (s : string) : chars := list_ascii_of_string s.
Fixpoint repr_chars (v : pv) : chars :=
  match v with
  | PAtom t => cs (text t)
  | PNeg t => "-" :: cs (text t)
  | PStr t => cs (text t)
  | PList l => "[" :: join_chars sepc (map repr_chars l) ++ ["]"]
  | PTuple l => "(" :: (join_chars sepc (map repr_chars l) ++ match l with [_] => [","] | _ => [] end) ++ [")"]
  | PDict l => "{" :: join_chars sepc (map (fun kv => repr_chars (fst kv) ++ [":"; " "] ++ repr_chars (snd kv)) l) ++ ["}"]
  end.

Lemma list_max_le : forall l n, In n l -> n <= list_max l.
Proof.
  induction l as [|a l IH]; intros n H; [contradiction|]. cbn [list_max fold_right]. destruct H as [->|H]; [lia|].
  specialize (IH n H). unfold list_max in IH. lia.
Qed.

Theorem lex_value : forall v, Forall atom_scans (pv_atoms v) -> lexes_as (repr_chars v) (repr_toks v) (pv_depth v).
Proof.
  induction v as [t|t|t|l IH|l IH|l IH] using pv_ind'; intro Hat; cbn [pv_atoms] in Hat.
  - exact (lexes_atom t (Forall_inv Hat)).
  - exact (lexes_neg t (Forall_inv Hat)).
  - exact (lexes_atom t (Forall_inv Hat)).
  - cbn [repr_chars repr_toks pv_depth]. apply (lexes_brackets "[" "]"); try reflexivity.
    destruct l as [|x l']; [left; split; reflexivity|]. right.
    apply lexes_join; [discriminate|]. rewrite Forall_forall in *. intros y Hy.
    apply (lexes_as_mono _ _ (pv_depth y)); [|apply list_max_le, in_map; exact Hy].
    apply (IH y Hy). apply Forall_forall. intros t Ht. apply Hat. apply in_flat_map. exists y. auto.
  - replace (repr_toks (PTuple l))
      with (op_tok "(" :: (join_toks [op_tok ","] (map repr_toks l) ++ match l with [_] => [op_tok ","] | _ => [] end)
                          ++ [op_tok ")"])
      by (cbn [repr_toks app]; rewrite <- app_assoc; reflexivity).
    cbn [repr_chars pv_depth]. apply (lexes_brackets "(" ")"); try reflexivity.
    destruct l as [|x l']; [left; split; reflexivity|]. right.
    assert (HJ : lexes_as (join_chars sepc (map repr_chars (x :: l'))) (join_toks [op_tok ","] (map repr_toks (x :: l')))
                          (list_max (map pv_depth (x :: l')))).
    { apply lexes_join; [discriminate|]. rewrite Forall_forall in *. intros y Hy.
      apply (lexes_as_mono _ _ (pv_depth y)); [|apply list_max_le, in_map; exact Hy].
      apply (IH y Hy). apply Forall_forall. intros t Ht. apply Hat. apply in_flat_map. exists y. auto. }
    destruct l' as [|y l'']; [apply lexes_trailing_comma; exact HJ|]. rewrite !app_nil_r. exact HJ.
  - cbn [repr_chars repr_toks pv_depth]. apply (lexes_brackets "{" "}"); try reflexivity.
    destruct l as [|x l']; [left; split; reflexivity|]. right.
    apply (lexes_join _ (fun kv => repr_chars (fst kv) ++ [":"; " "] ++ repr_chars (snd kv))
                        (fun kv => repr_toks (fst kv) ++ [op_tok ":"] ++ repr_toks (snd kv))); [discriminate|].
    rewrite Forall_forall in *. intros [k y] Hy. cbn [fst snd]. destruct (IH _ Hy) as [IHk IHy]. cbn [fst snd] in *.
    assert (Hd : Nat.max (pv_depth k) (pv_depth y) <=
                 list_max (map (fun kv => Nat.max (pv_depth (fst kv)) (pv_depth (snd kv))) (x :: l'))).
    { apply list_max_le. apply (in_map (fun kv => Nat.max (pv_depth (fst kv)) (pv_depth (snd kv))) _ _ Hy). }
    apply lexes_item.
    + apply (lexes_as_mono _ _ (pv_depth k)); [|lia]. apply IHk. apply Forall_forall. intros t Ht. apply Hat. apply in_flat_map.
      exists (k, y). split; [exact Hy | cbn [fst snd]; apply in_or_app; left; exact Ht].
    + apply (lexes_as_mono _ _ (pv_depth y)); [|lia]. apply IHy. apply Forall_forall. intros t Ht. apply Hat. apply in_flat_map.
      exists (k, y). split; [exact Hy | cbn [fst snd]; apply in_or_app; right; exact Ht].
Qed.

(* ================================================================== *)
(* 3. the whole text *)
(* at the beginning of the text: nothing to do in front of a character that is no blank, backslash, newline, "#" *)
Definition bol_plain (c : ascii) : bool :=
  negb (is_space c || Ascii.eqb c "\" || Ascii.eqb c nl || Ascii.eqb c "#").
Lemma step_bol_plain : forall imp c r, bol_plain c = true ->
  step imp init_state (c :: r) = Next [] (move init_state (1, 0) false) (c :: r).
Proof.
  intros imp c r H. unfold bol_plain in H. apply negb_true_iff in H.
  repeat (apply orb_false_iff in H; let T := fresh "T" in destruct H as [H T]).
  unfold step, step_bol. cbn [atbol init_state scan_indent]. rewrite H, T1. cbn [pos_after lpos app].
  rewrite T0, T. reflexivity.
Qed.
Lemma atom_start_bol : forall c r, atom_start c r = true -> bol_plain c = true.
Proof.
  intros c r H. destruct (atom_start_tests c r H) as [H1 [H2 H3]]. unfold bol_plain. rewrite H1, H2, H3.
  destruct (Ascii.eqb c "\") eqn:E; [|reflexivity]. apply Ascii.eqb_eq in E. subst c. discriminate H.
Qed.

Lemma scan_atom_ty : forall l t r, scan_atom l = (t, r) -> t = NAME \/ t = NUMBER \/ t = STRING.
Proof.
  intros l t r E. unfold scan_atom in E. destruct l as [|c r0]; [injection E as <- _; auto|].
  destruct (is_alpha_ c); [destruct (string_prefix (c :: r0)) as [[pfx q]|]; injection E as <- _; auto|].
  destruct (is_digit c || _); injection E as <- _; auto.
Qed.
Lemma string_of_inj : forall a b, string_of_list_ascii a = string_of_list_ascii b -> a = b.
Proof.
  intros a b H. rewrite <- (list_ascii_of_string_of_list_ascii a), <- (list_ascii_of_string_of_list_ascii b), H. reflexivity.
Qed.
Definition out_ty (o : outcome) : ttype := match o with Next (t :: _) _ _ => ty t | _ => TERR end.
Definition out_text (o : outcome) : string := match o with Next (t :: _) _ _ => text t | _ => EmptyString end.
(* what an atom looks like *)
Lemma atom_scans_lexeme : forall t, atom_scans t ->
  lexeme_ok (ty t) (cs (text t)) /\ (ty t = NAME \/ ty t = NUMBER \/ ty t = STRING).
Proof.
  intros t Ht. pose proof Ht as [c [r [EX [Ha Es]]]]. pose proof (scan_atom_ty _ _ _ Es) as Hty. split; [|exact Hty].
  set (st0 := move init_state (1, 0) false).
  pose proof (step_atom true st0 t [] nl [] Ht eq_refl (Forall_nil _) eq_refl) as H. cbn [app] in H.
  pose proof (step_Step true st0 (cs (text t) ++ [nl])) as HS. unfold cs in *. rewrite H in HS.
  remember (Next [mk (ty t) (list_ascii_of_string (text t)) (pos_after (lpos st0) [])]
                 (move st0 (pos_after (pos_after (lpos st0) []) (list_ascii_of_string (text t))) false) [nl]) as o eqn:Eo.
  destruct HS; try discriminate Eo; try (cbn [atbol st0 move] in *; discriminate).
  all: pose proof (f_equal out_ty Eo) as Ety; pose proof (f_equal out_text Eo) as Etx;
       cbn [out_ty out_text mk mk_nl ty text] in Ety, Etx.
  all: try (rewrite <- Ety in Hty; try destruct (level st0 =? 0); decompose [or] Hty; discriminate).
  subst t0. apply string_of_inj in Etx. subst lx. assumption.
Qed.
Lemma atom_scans_tok_ok : forall t, atom_scans t -> tok_ok t /\ text t <> "@"%string /\ text t <> "%"%string.
Proof.
  intros t Ht. destruct (atom_scans_lexeme t Ht) as [Hl Hty].
  assert (Hk : kind_ok t).
  { unfold kind_ok. destruct Hty as [E|[E|E]]; rewrite E in *; exists (cs (text t));
      (split; [symmetry; apply string_of_list_ascii_of_string | exact Hl]). }
  split; [exact (kind_tok_ok t Hk)|].
  destruct Ht as [c [r [EX [Ha _]]]].
  assert (Et : text t = String c (string_of_list_ascii r)).
  { rewrite <- (string_of_list_ascii_of_string (text t)), EX. reflexivity. }
  rewrite Et. split; intro E; injection E as E _; subst c; discriminate Ha.
Qed.

Lemma repr_chars_first : forall v, Forall atom_scans (pv_atoms v) -> exists c r, repr_chars v = c :: r /\ bol_plain c = true.
Proof.
  intros v H. destruct v as [t|t|t|l|l|l]; cbn [repr_chars pv_atoms] in *;
    try (eexists _, _; split; [reflexivity | reflexivity]).
  - destruct (Forall_inv H) as [c [r [EX [Ha _]]]]. exists c, r. split; [exact EX | exact (atom_start_bol _ _ Ha)].
  - destruct (Forall_inv H) as [c [r [EX [Ha _]]]]. exists c, r. split; [exact EX | exact (atom_start_bol _ _ Ha)].
Qed.
Lemma repr_chars_last : forall v, Forall atom_scans (pv_atoms v) -> exists a x, repr_chars v = a ++ [x] /\ x <> nl.
Proof.
  assert (Hatom : forall t, atom_scans t -> exists a x, cs (text t) = a ++ [x] /\ x <> nl).
  { intros t Ht. destruct (atom_scans_lexeme t Ht) as [Hl _].
    pose proof (lexeme_nonempty _ _ Hl) as Hne. pose proof (lexeme_not_nl_last _ _ Hl) as Hn.
    destruct (cs (text t)) as [|y X _] using rev_ind; [congruence|]. exists X, y. split; [reflexivity|].
    intros ->. exact (Hn X eq_refl). }
  intros v H. destruct v as [t|t|t|l|l|l]; cbn [repr_chars pv_atoms] in *.
  - exact (Hatom t (Forall_inv H)).
  - destruct (Hatom t (Forall_inv H)) as [a [x [E Hx]]]. exists ("-" :: a), x. rewrite E. auto.
  - exact (Hatom t (Forall_inv H)).
  - exists ("[" :: join_chars sepc (map repr_chars l)), "]". split; [reflexivity | discriminate].
  - eexists ("(" :: _), ")". split; [reflexivity | discriminate].
  - exists ("{" :: join_chars sepc (map (fun kv => repr_chars (fst kv) ++ [":"; " "] ++ repr_chars (snd kv)) l)), "}".
    split; [reflexivity | discriminate].
Qed.
Lemma needs_nl_snoc : forall a x, x <> nl -> needs_nl (a ++ [x]) = true.
Proof.
  intros a x H. unfold needs_nl. destruct (a ++ [x]) eqn:E; [destruct a; discriminate|]. rewrite <- E.
  rewrite last_last. apply negb_true_iff. apply Ascii.eqb_neq. exact H.
Qed.

Definition nl_token (p : pos) : token := mk_nl NEWLINE true [] p.
Theorem lex_chars_value : forall v, Forall atom_scans (pv_atoms v) -> pv_depth v <= MAXLEVEL ->
  exists toks n e, lex_chars (repr_chars v) = toks ++ [n; e] /\ spell toks = spell (repr_toks v) /\
    ty n = NEWLINE /\ text n = EmptyString /\ ty e = ENDMARKER /\ text e = EmptyString.
Proof.
  intros v Hat Hd.
  destruct (repr_chars_first v Hat) as [c [r [Ec Hc]]]. destruct (repr_chars_last v Hat) as [a [x [Ea Hx]]].
  unfold lex_chars, normalize. rewrite Ea, (needs_nl_snoc a x Hx), <- Ea.
  set (L := repr_chars v ++ [nl]). set (st1 := move init_state (1, 0) false).
  (* the value *)
  destruct (lex_value v Hat true st1 [] [nl] eq_refl (Forall_nil _) ltac:(cbn [level st1 move init_state]; lia)
              (follows_cons nl [] eq_refl)) as [toks [st2 [S2 [Sp [B2 [L2 K2]]]]]].
  cbn [app] in S2. fold L in S2.
  (* the steps around it *)
  assert (S1 : Steps true init_state L [] st1 L).
  { apply Steps_one. unfold L. rewrite Ec. cbn [app]. exact (step_bol_plain true c _ Hc). }
  assert (S3 : step true st2 [nl] = Next [nl_token (lpos st2)] (move st2 (next_line (lpos st2)) true) []).
  { unfold step. rewrite B2. unfold step_tok. cbn [span]. change (is_space nl) with false. cbv iota zeta.
    cbn [pos_after]. change (Ascii.eqb nl "#") with false. rewrite Ascii.eqb_refl. cbv iota.
    rewrite L2. reflexivity. }
  set (st3 := move st2 (next_line (lpos st2)) true) in *.
  assert (S4 : step true st3 [] = Next [] {| lpos := lpos st3; atbol := false; stack := []; level := level st3 |} []).
  { unfold step. cbn [atbol st3 move]. unfold step_bol. cbn [scan_indent pos_after].
    cbn [level st3 move]. rewrite L2. cbn [level st1 move init_state Nat.eqb negb stack].
    unfold st3. cbn [stack move]. rewrite K2. reflexivity. }
  set (st4 := {| lpos := lpos st3; atbol := false; stack := []; level := level st3 |}) in *.
  assert (S5 : step true st4 [] = Done [mk_empty ENDMARKER (lpos st4)]).
  { unfold step. cbn [atbol st4]. unfold step_tok. cbn [span pos_after level st4 st3 move]. rewrite L2. reflexivity. }
  assert (SS : Steps true init_state L (toks ++ [nl_token (lpos st2)]) st4 []).
  { change (toks ++ [nl_token (lpos st2)]) with ([] ++ toks ++ [nl_token (lpos st2)] ++ []).
    eapply Steps_trans; [exact S1|]. eapply Steps_trans; [exact S2|].
    eapply Steps_step; [exact S3|]. apply Steps_one. exact S4. }
  destruct (Steps_run _ _ _ _ _ _ SS (2 * List.length L + 2)) as [fuel' [Hm Er]].
  { unfold measure. cbn [atbol init_state]. lia. }
  rewrite Er. destruct fuel' as [|f]; [lia|]. cbn [run]. rewrite S5.
  exists toks, (nl_token (lpos st2)), (mk_empty ENDMARKER (lpos st4)).
  rewrite <- app_assoc. cbn [app]. repeat split; try reflexivity. exact Sp.
Qed.

(* repr_string, as characters *)
Lemma cs_app : forall a b, cs (a ++ b)%string = cs a ++ cs b.
Proof. induction a as [|c a IH]; intro b; cbn [String.append cs list_ascii_of_string app]; [reflexivity|]. f_equal. apply IH. Qed.
Lemma cs_join : forall l, cs (join_strs ", " l) = join_chars sepc (map cs l).
Proof.
  induction l as [|x l IH]; [reflexivity|]. destruct l as [|y l']; [reflexivity|].
  change (join_strs ", " (x :: y :: l')) with (x ++ ", " ++ join_strs ", " (y :: l'))%string.
  change (join_chars sepc (map cs (x :: y :: l'))) with (cs x ++ sepc ++ join_chars sepc (map cs (y :: l'))).
  rewrite !cs_app, IH. reflexivity.
Qed.
Lemma map_ext_Forall : forall (A B : Type) (f g : A -> B) l, Forall (fun x => f x = g x) l -> map f l = map g l.
Proof. intros A B f g l H. induction H; cbn [map]; [reflexivity | congruence]. Qed.
Theorem repr_chars_string : forall v, cs (repr_string v) = repr_chars v.
Proof.
  induction v as [t|t|t|l IH|l IH|l IH] using pv_ind'; cbn [repr_string repr_chars]; try reflexivity.
  - rewrite !cs_app, cs_join, map_map. rewrite (map_ext_Forall _ _ _ _ l IH). reflexivity.
  - rewrite !cs_app, cs_join, map_map. rewrite (map_ext_Forall _ _ _ _ l IH).
    destruct l as [|x [|y l']]; cbn [cs list_ascii_of_string app]; rewrite <- ?app_assoc, ?app_nil_r; reflexivity.
  - rewrite !cs_app, cs_join, map_map.
    rewrite (map_ext_Forall _ _ (fun kv => cs (repr_string (fst kv) ++ ": " ++ repr_string (snd kv))%string)
               (fun kv => repr_chars (fst kv) ++ [":"; " "] ++ repr_chars (snd kv)) l); [reflexivity|].
    eapply Forall_impl; [|exact IH]. intros [k x] [Hk Hx]. cbn [fst snd] in *. rewrite !cs_app, Hk, Hx. reflexivity.
Qed.

Lemma step_tok_dot : forall imp st r, match r with d :: _ => is_digit d | [] => false end = false ->
  (exists op p st' l', step_tok imp st ("." :: r) = Next [mk OP op p] st' l') \/
  step_tok imp st ("." :: r) = Done [terr_token].
Proof.
  intros imp st r H. unfold step_tok. cbn [span]. change (is_space ".") with false. cbv iota zeta.
  change (Ascii.eqb "." "#") with false. change (Ascii.eqb "." nl) with false. change (is_alpha_ ".") with false.
  change (is_digit ".") with false. rewrite Ascii.eqb_refl, H. cbn [orb andb].
  change (is_quote ".") with false. change (Ascii.eqb "." "\") with false. cbv iota.
  destruct (scan_op ("." :: r)) as [[op rest']|]; [|right; reflexivity].
  destruct (is_open_op op && (MAXLEVEL <=? level st)); [right; reflexivity | left].
  eexists _, _, _, _. reflexivity.
Qed.

Theorem atom_lexable_scans : forall t, atom_lexable t -> atom_scans t.
Proof.
  intros t [Hty [t' [n [e [Hlex [Et Ex]]]]]].
  destruct (lex_some _ _ Hlex) as [_ Hts]. unfold lex_raw in Hts. fold (cs (text t)) in Hts.
  (* the shape of the text *)
  pose proof (lex_kind _ _ Hlex t' (or_introl eq_refl)) as Hk. unfold kind_ok in Hk.
  assert (Hl : lexeme_ok (ty t) (cs (text t))).
  { rewrite <- Et in Hty. destruct Hty as [E|[E|E]]; rewrite E in Hk; destruct Hk as [lx [E1 E2]];
      rewrite <- Et, E; rewrite Ex in E1; unfold cs; rewrite E1, list_ascii_of_string_of_list_ascii; exact E2. }
  pose proof (lexeme_nonempty _ _ Hl) as Hne. pose proof (lexeme_not_nl_last _ _ Hl) as Hnl.
  destruct (cs (text t)) as [|c r] eqn:EX; [congruence|].
  assert (Hcls : is_alpha_ c = true \/ is_digit c = true \/ c = "." \/ is_quote c = true).
  { destruct Hty as [E|[E|E]]; rewrite E in Hl; cbn [lexeme_ok] in Hl.
    - destruct Hl as [c0 [r0 [E0 [Hc _]]]]. injection E0 as <- _. auto.
    - destruct Hl as [_ [c0 [r0 [E0 Hc]]]]. injection E0 as <- _. tauto.
    - destruct Hl as [pfx [q [body [E0 [Hq [Hp _]]]]]]. destruct pfx as [|p pfx]; cbn [app] in E0; injection E0 as <- _;
        [auto | left; exact (Forall_inv Hp)]. }
  assert (Hbol : bol_plain c = true).
  { destruct Hcls as [H|[H|[H|H]]]; unfold bol_plain, is_space;
      (destruct (Ascii.eqb c " ") eqn:E1; [apply Ascii.eqb_eq in E1; subst c; discriminate|]);
      (destruct (Ascii.eqb c "\") eqn:E2; [apply Ascii.eqb_eq in E2; subst c; discriminate|]);
      (destruct (Ascii.eqb c nl) eqn:E3; [apply Ascii.eqb_eq in E3; subst c; discriminate|]);
      (destruct (Ascii.eqb c "#") eqn:E4; [apply Ascii.eqb_eq in E4; subst c; discriminate|]); reflexivity. }
  (* the run *)
  assert (Hn : needs_nl (c :: r) = true).
  { destruct (c :: r) as [|y X _] using rev_ind; [discriminate|]. apply needs_nl_snoc. intros ->. exact (Hnl X eq_refl). }
  unfold lex_chars, normalize in Hts. rewrite Hn in Hts.
  remember (2 * List.length ((c :: r) ++ [nl]) + 2) as fuel eqn:Ef.
  destruct fuel as [|[|f]]; [cbn [List.length] in Ef; lia | cbn [List.length] in Ef; lia|].
  cbn [run app] in Hts. rewrite (step_bol_plain true c (r ++ [nl]) Hbol) in Hts. cbn [app] in Hts.
  set (st1 := move init_state (1, 0) false) in *.
  destruct (atom_start c (r ++ [nl])) eqn:Ha.
  - change (step true st1 (c :: r ++ [nl])) with (step_tok true st1 ([] ++ c :: r ++ [nl])) in Hts.
    rewrite (step_tok_atom true st1 [] c (r ++ [nl]) (Forall_nil _) Ha) in Hts.
    destruct (scan_atom (c :: r ++ [nl])) as [t0 [[lx rest']|]] eqn:Es; [|discriminate Hts].
    injection Hts as Hh _. pose proof (f_equal ty Hh) as E1. pose proof (f_equal text Hh) as E2.
    cbn [mk ty text] in E1, E2. rewrite Ex, <- (string_of_list_ascii_of_string (text t)) in E2.
    apply string_of_inj in E2. fold (cs (text t)) in E2. rewrite EX in E2. subst lx.
    pose proof (scan_atom_splits _ _ _ _ Es) as Esp.
    change (c :: r ++ [nl]) with ((c :: r) ++ [nl]) in Esp. apply app_inv_head in Esp. subst rest'.
    exists c, r. split; [exact EX|]. split; [exact Ha|]. rewrite Es, <- E1, Et. reflexivity.
  - (* only a dot without a digit behind it opens no atom; it is an operator *)
    exfalso. assert (Ec : c = ".").
    { unfold atom_start in Ha. destruct Hcls as [H|[H|[H|H]]]; try (rewrite H in Ha; rewrite ?orb_true_r in Ha; discriminate).
      exact H. }
    subst c. unfold atom_start in Ha. cbn [orb andb] in Ha. rewrite Ascii.eqb_refl in Ha.
    change (is_alpha_ ".") with false in Ha. change (is_digit ".") with false in Ha. change (is_quote ".") with false in Ha.
    cbn [orb andb] in Ha. rewrite orb_false_r in Ha.
    change (step true st1 ("." :: r ++ [nl])) with (step_tok true st1 ("." :: r ++ [nl])) in Hts.
    destruct (step_tok_dot true st1 (r ++ [nl]) Ha) as [[op [p [st' [l' Hd]]]]|Hd]; rewrite Hd in Hts.
    + cbn [app] in Hts. injection Hts as Hh _. pose proof (f_equal ty Hh) as E1. cbn [mk ty] in E1.
      rewrite Et in E1. destruct Hty as [E|[E|E]]; congruence.
    + discriminate Hts.
Qed.

(* ================================================================== *)
(* 4. the statements *)
Open Scope string_scope.
Open Scope list_scope.
Definition nosig (t : token) : Prop := text t <> "@" /\ text t <> "%".
Lemma repr_toks_Forall : forall (P : token -> Prop), (forall s, punct s -> P (op_tok s)) ->
  forall v, Forall P (pv_atoms v) -> Forall P (repr_toks v).
Proof.
  intros P HP.
  assert (Hop : forall s, punct s -> Forall P [op_tok s]) by (intros s Hs; constructor; [apply HP; exact Hs | constructor]).
  assert (P1 : punct "[") by (unfold punct; cbn; tauto). assert (P2 : punct "]") by (unfold punct; cbn; tauto).
  assert (P3 : punct "(") by (unfold punct; cbn; tauto). assert (P4 : punct ")") by (unfold punct; cbn; tauto).
  assert (P5 : punct "{") by (unfold punct; cbn; tauto). assert (P6 : punct "}") by (unfold punct; cbn; tauto).
  assert (P7 : punct ",") by (unfold punct; cbn; tauto). assert (P8 : punct ":") by (unfold punct; cbn; tauto).
  assert (P9 : punct "-") by (unfold punct; cbn; tauto).
  induction v as [t|t|t|l IH|l IH|l IH] using pv_ind'; cbn [pv_atoms repr_toks]; intro H.
  - exact H.
  - constructor; [apply HP; exact P9 | exact H].
  - exact H.
  - apply Forall_app; split; [apply Hop; exact P1|]. apply Forall_app; split; [|apply Hop; exact P2].
    apply Forall_join_toks; [apply Hop; exact P7|].
    induction IH as [|x r Hx _ IHr]; cbn [map flat_map] in *; [constructor|].
    apply Forall_app in H. destruct H as [H1 H2]. constructor; [exact (Hx H1) | exact (IHr H2)].
  - apply Forall_app; split; [apply Hop; exact P3|]. apply Forall_app; split.
    + apply Forall_join_toks; [apply Hop; exact P7|].
      induction IH as [|x r Hx _ IHr]; cbn [map flat_map] in *; [constructor|].
      apply Forall_app in H. destruct H as [H1 H2]. constructor; [exact (Hx H1) | exact (IHr H2)].
    + apply Forall_app; split; [|apply Hop; exact P4]. destruct l as [|? [|? ?]]; try constructor; [apply HP; exact P7 | constructor].
  - apply Forall_app; split; [apply Hop; exact P5|]. apply Forall_app; split; [|apply Hop; exact P6].
    apply Forall_join_toks; [apply Hop; exact P7|].
    induction IH as [|[k x] r [Hk Hx] _ IHr]; cbn [map flat_map fst snd] in *; [constructor|].
    apply Forall_app in H. destruct H as [H1 H2]. apply Forall_app in H1. destruct H1 as [H1 H1'].
    constructor; [|exact (IHr H2)].
    apply Forall_app; split; [exact (Hk H1)|]. apply Forall_app; split; [apply Hop; exact P8 | exact (Hx H1')].
Qed.
Lemma spell_tseq : forall a b, spell a = spell b -> Forall nosig a -> tseq a b.
Proof.
  induction a as [|x a IH]; intros b E H; destruct b as [|y b]; try discriminate E; [constructor|].
  unfold spell in E. cbn [map] in E. injection E as E1 E2 E3.
  constructor; [|apply IH; [exact E3 | exact (Forall_inv_tail H)]].
  destruct (Forall_inv H) as [N1 N2]. repeat split; assumption.
Qed.
Lemma spell_ty : forall a b, spell a = spell b -> map ty a = map ty b.
Proof. intros a b E. unfold spell in E. apply (f_equal (map fst)) in E. rewrite !map_map in E. exact E. Qed.
Lemma spell_text : forall a b, spell a = spell b -> map text a = map text b.
Proof. intros a b E. unfold spell in E. apply (f_equal (map snd)) in E. rewrite !map_map in E. exact E. Qed.

(* 4.1 the lexer reads repr_string v as the tokens repr_toks v, a NEWLINE with the empty text, the end marker *)
Theorem value_string_lexes : forall v,
  Forall atom_lexable (pv_atoms v) -> pv_depth v <= 200 -> supported (repr_string v) = true ->
  exists toks n e, lex (repr_string v) = Some (toks ++ [n; e]) /\
    map ty toks = map ty (repr_toks v) /\ map text toks = map text (repr_toks v) /\
    ty n = NEWLINE /\ text n = "" /\ ty e = ENDMARKER /\ text e = "".
Proof.
  intros v Hat Hd Hs.
  assert (Hsc : Forall atom_scans (pv_atoms v)) by (eapply Forall_impl; [|exact Hat]; exact atom_lexable_scans).
  destruct (lex_chars_value v Hsc Hd) as [toks [n [e [E [Sp [H1 [H2 [H3 H4]]]]]]]].
  exists toks, n, e. split.
  - unfold lex. rewrite Hs. unfold lex_raw. fold (cs (repr_string v)). rewrite repr_chars_string, E. reflexivity.
  - repeat split; try assumption; [exact (spell_ty _ _ Sp) | exact (spell_text _ _ Sp)].
Qed.

(* 4.2 end to end: the modelled API reads the text back as the value it denotes *)
Theorem value_string_reads_back : forall o v x,
  atoms_ok o v -> denote o v = Some x ->
  Forall atom_lexable (pv_atoms v) -> pv_depth v <= 200 -> supported (repr_string v) = true ->
  exists ts, lex (repr_string v) = Some ts /\ run_value_api (o, ts) = OT "Value" [x].
Proof.
  intros o v x Hok Hden Hat Hd Hs.
  assert (Hsc : Forall atom_scans (pv_atoms v)) by (eapply Forall_impl; [|exact Hat]; exact atom_lexable_scans).
  destruct (lex_chars_value v Hsc Hd) as [toks [n [e [E [Sp [H1 [H2 [H3 H4]]]]]]]].
  exists (toks ++ [n; e]). split.
  { unfold lex. rewrite Hs. unfold lex_raw. fold (cs (repr_string v)). rewrite repr_chars_string, E. reflexivity. }
  assert (Htok : Forall tok_ok (pv_atoms v))
    by (eapply Forall_impl; [|exact Hsc]; intros t Ht; exact (proj1 (atom_scans_tok_ok t Ht))).
  assert (Hns : Forall nosig (repr_toks v)).
  { apply repr_toks_Forall.
    - intros s Hp. unfold punct in Hp. cbn [In] in Hp. unfold nosig. cbn [op_tok text].
      decompose [or] Hp; try contradiction; subst s; split; discriminate.
    - eapply Forall_impl; [|exact Hsc]. intros t Ht. exact (proj2 (atom_scans_tok_ok t Ht)). }
  pose proof (value_repr_reads_back o v x n e Hok Hden Htok H1 H3) as Hp.
  apply (run_value_api_transfer o (repr_toks v ++ [n; e])).
  - apply Forall2_app.
    + apply spell_tseq; [symmetry; exact Sp | exact Hns].
    + assert (Hn : teq n n) by (repeat split; rewrite H2; discriminate).
      assert (He : teq e e) by (repeat split; rewrite H4; discriminate).
      constructor; [exact Hn|]. constructor; [exact He | constructor].
  - unfold run_value_api. cbn [fst snd].
    assert (Hset : settle (repr_toks v ++ [n; e]) = POk (repr_toks v ++ [n; e])).
    { assert (Hne : Forall (fun t => ty t <> ERRORTOKEN /\ ty t <> TERR) (repr_toks v ++ [n; e])).
      { apply Forall_app. split.
        - apply repr_toks_Forall; [intros s _; cbn [op_tok ty]; split; discriminate|].
          eapply Forall_impl; [|exact Hsc]. intros t Ht. destruct (atom_scans_lexeme t Ht) as [_ Hty].
          split; intro E0; rewrite E0 in Hty; decompose [or] Hty; discriminate.
        - repeat constructor; rewrite ?H1, ?H3; discriminate. }
      destruct (repr_toks v ++ [n; e]) as [|t0 r0] eqn:E0; [destruct (repr_toks v); discriminate|].
      destruct (Forall_inv Hne) as [N1 N2]. cbn [settle]. destruct (ty t0); try reflexivity; congruence. }
    rewrite Hset, Hp. reflexivity.
Qed.

Lemma atom_lexable_b_ok : forall t, atom_lexable_b t = true -> atom_lexable t.
Proof.
  intros t H. unfold atom_lexable_b in H. apply andb_true_iff in H. destruct H as [H1 H2]. split.
  - unfold in_types in H1. cbn [existsb] in H1. rewrite !orb_true_iff in H1.
    destruct H1 as [H|[H|[H|H]]]; try discriminate; apply ttype_eqb_eq in H; auto.
  - destruct (lex (text t)) as [[|t' [|n [|e [|x r]]]]|]; try discriminate H2.
    apply andb_true_iff in H2. destruct H2 as [E1 E2]. apply ttype_eqb_eq in E1. apply String.eqb_eq in E2.
    exists t', n, e. auto.
Qed.
