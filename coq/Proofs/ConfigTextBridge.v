(* The character-level text of Model/ConfigText.v IS the line-level text of Model/Serial.v (no imports), joined with
   newlines: so the theorems of Props/C06.v about Serial.config_lines transfer to the characters gin writes.
   1. strings: split / join at newlines, indentation, code-point length of ASCII strings
   2. format_binding: Serial's (list of lines, oracle lines) joined = PPrint's (one string)
   3. the items of both models correspond; config_text = join_lines (config_lines ...)
   4. transferred: order independence; the store read back ([c_restored]) and the fixed point *)
From Coq Require Import List String ZArith Bool Arith Ascii Lia Permutation.
From GinV Require Import Lib.Out Lib.PyStr Model.SelectorMap Model.Parser Model.ParserSpec Model.Repr Model.ReprText Model.Lexer.
From GinV Require Import Model.Serial Model.PPrint Model.ConfigText Model.ConfigSerial.
From GinV Require Import Proofs.ParserSmall Proofs.SerialProofs Proofs.SerialProofs2 Proofs.ReprProofs Proofs.ReprTextProofs Proofs.PPrintProofs.
Import ListNotations.
Open Scope string_scope.
Open Scope list_scope.

(* ================================================================== *)
(* 1. strings *)
Lemma app_nil_r_s : forall s : string, (s ++ "")%string = s.
Proof. induction s as [|c s IH]; [reflexivity|]. cbn [String.append]. rewrite IH. reflexivity. Qed.
Lemma lines_of_ne : forall s, lines_of s <> [].
Proof. intros [|c r]; cbn [lines_of]; [discriminate|]. destruct (Ascii.eqb c nl); [discriminate|]. destruct (lines_of r); discriminate. Qed.
Lemma lines_of_no_nl : forall s, has_nl s = false -> lines_of s = [s].
Proof.
  induction s as [|c r IH]; intro H; [reflexivity|]. cbn [has_nl lines_of] in *. apply orb_false_iff in H. destruct H as [H1 H2].
  rewrite H1, (IH H2). reflexivity.
Qed.
Lemma lines_of_nl : forall s, has_nl s = true -> exists a b ls, lines_of s = a :: b :: ls.
Proof.
  induction s as [|c r IH]; intro H; [discriminate|]. cbn [has_nl lines_of] in *. destruct (Ascii.eqb c nl) eqn:E.
  - destruct (lines_of r) as [|b ls] eqn:El; [exact (False_ind _ (lines_of_ne r El))|]. eexists _, _, _. reflexivity.
  - cbn [orb] in H. destruct (IH H) as [a [b [ls ->]]]. eexists _, _, _. reflexivity.
Qed.
Lemma repeat_char_blanks : forall k, repeat_char " "%char k = blanks k.
Proof. induction k as [|k IH]; [reflexivity|]. cbn [repeat_char blanks]. rewrite IH. reflexivity. Qed.
Lemma join_strs_cons2' : forall sep x y l, join_strs sep (x :: y :: l) = (x ++ sep ++ join_strs sep (y :: l))%string.
Proof. reflexivity. Qed.

Lemma indent_aux : forall k s, exists l ls, lines_of s = l :: ls /\
  indent_lines_from k s = (l ++ match ls with [] => "" | _ :: _ => nls ++ join_strs nls (map (indent_line k) ls) end)%string.
Proof.
  intros k. induction s as [|c r IH]; [exists "", []; split; reflexivity|].
  destruct IH as [l' [ls' [El IH]]]. cbn [lines_of indent_lines_from]. destruct (Ascii.eqb c nl) eqn:E.
  - apply Ascii.eqb_eq in E. subst c. exists "", (lines_of r). split; [reflexivity|]. rewrite El, IH.
    change (String nl (blanks k ^^ l' ^^ match ls' with [] => "" | _ :: _ => nls ^^ join_strs nls (map (indent_line k) ls') end) =
            String nl (join_strs nls (map (indent_line k) (l' :: ls')))).
    f_equal. cbn [map]. unfold indent_line at 2. rewrite repeat_char_blanks.
    destruct ls' as [|y q]; cbn [map].
    + cbn [join_strs]. rewrite !app_nil_r_s. reflexivity.
    + rewrite join_strs_cons2'. rewrite !append_assoc. reflexivity.
  - rewrite El. exists (String c l'), ls'. split; [reflexivity|]. rewrite IH. reflexivity.
Qed.
Lemma indent_join : forall k s, join_strs nls (map (indent_line k) (lines_of s)) = indent_lines k s.
Proof.
  intros k s. destruct (indent_aux k s) as [l [ls [El E]]]. rewrite El. unfold indent_lines. rewrite E.
  cbn [map]. unfold indent_line at 1. rewrite repeat_char_blanks. destruct ls as [|y q]; cbn [map].
  - cbn [join_strs]. rewrite app_nil_r_s. reflexivity.
  - rewrite join_strs_cons2', !append_assoc. reflexivity.
Qed.
Lemma indent_from_no_nl : forall k s, has_nl s = false -> indent_lines_from k s = s.
Proof.
  intros k. induction s as [|c r IH]; intro H; [reflexivity|]. cbn [has_nl indent_lines_from] in *.
  apply orb_false_iff in H. destruct H as [H1 H2]. rewrite H1, (IH H2). reflexivity.
Qed.

(* code points of 7-bit strings *)
Lemma cp_length_ascii : forall s, ascii_only s = true -> cp_length s = String.length s.
Proof.
  unfold ascii_only. induction s as [|c r IH]; intro H; [reflexivity|]. cbn [list_ascii_of_string forallb cp_length String.length] in *.
  apply andb_true_iff in H. destruct H as [H1 H2]. rewrite (IH H2). apply Nat.ltb_lt in H1.
  assert (E : Nat.leb 128 (nat_of_ascii c) = false) by (apply Nat.leb_gt; exact H1). rewrite E. reflexivity.
Qed.
Lemma cp_length_app : forall a b, cp_length (a ++ b)%string = (cp_length a + cp_length b)%nat.
Proof. induction a as [|c a IH]; intro b; [reflexivity|]. cbn [String.append cp_length]. rewrite IH. lia. Qed.

(* ================================================================== *)
(* 2. format_binding *)
Theorem format_binding_join : forall maxlen indent key v,
  ascii_only key = true -> ascii_only (pformat (maxlen - indent) v) = true ->
  join_lines (Serial.format_binding maxlen indent key (sval_of (maxlen - indent) (CLit v))) =
  PPrint.format_binding maxlen indent key v.
Proof.
  intros maxlen indent key v Hk Ht. unfold Serial.format_binding, PPrint.format_binding, join_lines. cbn [sval_of v_lines].
  set (text := pformat (maxlen - indent) v) in *.
  destruct (has_nl text) eqn:Hn.
  - destruct (lines_of_nl text Hn) as [a [b [ls E]]]. rewrite E. cbn [negb andb]. rewrite <- E.
    destruct (lines_of text) as [|x [|y q]] eqn:El; try discriminate E.
    change (join_strs nls ((key ^^ " = \") :: map (indent_line indent) (x :: y :: q)))
      with ((key ^^ " = \") ++ nls ++ join_strs nls (map (indent_line indent) (x :: y :: q)))%string.
    rewrite <- El, indent_join, !append_assoc. reflexivity.
  - rewrite (lines_of_no_nl text Hn). cbn [negb andb]. rewrite cp_length_app, (cp_length_ascii key Hk), (cp_length_ascii text Ht).
    destruct (Nat.leb (String.length key + String.length text)%nat maxlen).
    + cbn [join_strs]. reflexivity.
    + cbn [join_strs]. unfold indent_line, indent_lines. rewrite repeat_char_blanks, (indent_from_no_nl indent text Hn), !append_assoc. reflexivity.
Qed.

(* ================================================================== *)
(* 3. the items of the two models *)
Definition item_of (w : nat) (it : citem) : SerialProofs.item :=
  match it with
  | CComment s => ILine s
  | CBlank => ILine ""
  | CBind key v => IBind key (sval_of w (CLit v))
  end.

Lemma insert_stable_map : forall (A B K : Type) (f : A -> B) (k1 : A -> K) (k2 : B -> K) ltb,
  (forall x, k2 (f x) = k1 x) -> forall x l, insert_stable k2 ltb (f x) (map f l) = map f (insert_stable k1 ltb x l).
Proof.
  intros A B K f k1 k2 ltb H x l. induction l as [|y r IH]; [reflexivity|]. cbn [map insert_stable]. rewrite !H.
  destruct (ltb (k1 y) (k1 x)); cbn [map]; [rewrite IH|]; reflexivity.
Qed.
Lemma sort_stable_map : forall (A B K : Type) (f : A -> B) (k1 : A -> K) (k2 : B -> K) ltb,
  (forall x, k2 (f x) = k1 x) -> forall l, sort_stable k2 ltb (map f l) = map f (sort_stable k1 ltb l).
Proof.
  intros A B K f k1 k2 ltb H l. unfold sort_stable. induction l as [|x r IH]; [reflexivity|]. cbn [map fold_right].
  rewrite IH. apply insert_stable_map. exact H.
Qed.
Lemma filter_map_comm : forall (A B : Type) (f : A -> B) (p : B -> bool) l, filter p (map f l) = map f (filter (fun x => p (f x)) l).
Proof. intros A B f p l. induction l as [|x r IH]; [reflexivity|]. cbn [map filter]. destruct (p (f x)); cbn [map]; rewrite IH; reflexivity. Qed.
Lemma map_flat_map' : forall (A B C : Type) (h : B -> C) (g : A -> list B) l, map h (flat_map g l) = flat_map (fun x => map h (g x)) l.
Proof. intros A B C h g l. induction l as [|x r IH]; [reflexivity|]. cbn [flat_map]. rewrite map_app, IH. reflexivity. Qed.
Lemma flat_map_ext_Forall : forall (A B : Type) (f g : A -> list B) l, Forall (fun x => f x = g x) l -> flat_map f l = flat_map g l.
Proof. intros A B f g l H. induction H as [|x r Hx _ IH]; [reflexivity|]. cbn [flat_map]. rewrite Hx, IH. reflexivity. Qed.

Lemma sget_conv : forall w l, sget_value_in (map (fun kv => (fst kv, sval_of w (snd kv))) l) = option_map (sval_of w) (cget_value l).
Proof.
  intros w. induction l as [|[k v] r IH]; [reflexivity|]. cbn [map sget_value_in cget_value fst snd].
  destruct (String.eqb k "value"); [reflexivity | exact IH].
Qed.
Lemma macro_ok_conv : forall w e, macro_ok (sentry_of w e) = match c_macro_value e with Some _ => true | None => false end.
Proof.
  intros w e. unfold macro_ok, is_macro, sget_value, c_macro_value, c_is_macro. cbn [sentry_of e_sel e_scope e_params].
  rewrite sget_conv. destruct (String.eqb (c_sel e) "gin.macro" && negb (String.eqb (c_scope e) "")); [|reflexivity].
  cbn [andb]. destruct (cget_value (c_params e)) as [[v|]|]; reflexivity.
Qed.
Lemma section_ok_conv : forall w e, section_ok (sentry_of w e) = c_section_ok e.
Proof. intros w e. unfold section_ok, c_section_ok, is_macro, is_constant, c_is_macro, c_is_constant. cbn [sentry_of e_sel e_scope]. apply andb_comm. Qed.
Lemma section_name_conv : forall registry w e, section_name registry (sentry_of w e) = c_scoped_selector (reg_of registry) e.
Proof. intros. reflexivity. Qed.
Lemma lit_params_conv : forall w l,
  filter (fun kv : string * sval => v_repr_ok (snd kv)) (map (fun kv => (fst kv, sval_of w (snd kv))) l) =
  map (fun kv : string * pv => (fst kv, sval_of w (CLit (snd kv))))
      (flat_map (fun kv : string * cvalue => match snd kv with CLit v => [(fst kv, v)] | COpaque => [] end) l).
Proof.
  intros w. induction l as [|[k [v|]] r IH]; [reflexivity| |]; cbn [map filter flat_map fst snd sval_of v_repr_ok app]; rewrite IH; reflexivity.
Qed.
Lemma section_params_conv : forall w e,
  section_params (sentry_of w e) =
  map (fun kv : string * pv => (fst kv, sval_of w (CLit (snd kv)))) (sort_stable (fun kv => fst kv) String.ltb (c_lit_params e)).
Proof.
  intros w e. unfold section_params, c_lit_params. cbn [sentry_of e_params]. rewrite lit_params_conv.
  apply (sort_stable_map _ _ _ (fun kv : string * pv => (fst kv, sval_of w (CLit (snd kv)))) (fun kv => fst kv) (fun kv => fst kv)).
  reflexivity.
Qed.
Lemma macro_entries_conv : forall w entries,
  macro_entries (map (sentry_of w) entries) =
  map (sentry_of w) (sort_stable c_key full_key_ltb (filter (fun e => match c_macro_value e with Some _ => true | None => false end) entries)).
Proof.
  intros w entries. unfold macro_entries. rewrite filter_map_comm.
  rewrite (filter_ext _ (fun e => match c_macro_value e with Some _ => true | None => false end) (macro_ok_conv w)).
  apply (sort_stable_map _ _ _ (sentry_of w) c_key full_key). reflexivity.
Qed.
Lemma other_entries_conv : forall w entries,
  other_entries (map (sentry_of w) entries) = map (sentry_of w) (filter c_section_ok (sort_stable c_key full_key_ltb entries)).
Proof.
  intros w entries. unfold other_entries.
  rewrite (sort_stable_map _ _ _ (sentry_of w) c_key full_key full_key_ltb (fun _ => eq_refl)), filter_map_comm.
  rewrite (filter_ext _ c_section_ok (section_ok_conv w)). reflexivity.
Qed.

Theorem items_correspond : forall w registry entries maxlen,
  map (item_of w) (ConfigText.config_items registry entries maxlen) =
  SerialProofs.config_items registry [] (map (sentry_of w) entries) maxlen.
Proof.
  intros w registry entries maxlen. unfold ConfigText.config_items, SerialProofs.config_items.
  change (import_lines []) with (@nil string). cbn [map app].
  rewrite macro_entries_conv, other_entries_conv. fold (reg_of registry).
  set (macros := sort_stable c_key full_key_ltb _).
  change (filter (fun e : centry => negb (c_is_constant e) && negb (c_is_macro e && negb (String.eqb (c_scope e) ""))))
    with (filter c_section_ok).
  set (others := filter c_section_ok _).
  assert (Hm : Forall (fun e => c_macro_value e <> None) macros).
  { apply Forall_forall. intros e He. apply (Permutation_in _ (sort_stable_perm _ _ _ _ _)) in He. apply filter_In in He.
    destruct He as [_ He]. destruct (c_macro_value e); [discriminate | discriminate He]. }
  rewrite !map_app, !map_flat_map', !flat_map_map. f_equal; [|f_equal; [|f_equal]].
  - destruct macros; reflexivity.
  - apply flat_map_ext_Forall. eapply Forall_impl; [|exact Hm]. intros e He. unfold macro_items, sget_value. cbn [sentry_of e_params e_scope].
    rewrite sget_conv. unfold c_macro_value in *. destruct (c_is_macro e && negb (String.eqb (c_scope e) "")); [|congruence].
    destruct (cget_value (c_params e)) as [[v|]|]; try congruence. reflexivity.
  - destruct macros; reflexivity.
  - apply flat_map_ext. intro e. unfold section_items. rewrite section_name_conv, section_params_conv.
    cbn [map item_of app]. unfold c_rule, rule. f_equal. f_equal. rewrite !map_app, !map_map. cbn [fst snd]. f_equal.
    destruct (sort_stable (fun kv : string * pv => fst kv) String.ltb (c_lit_params e)); reflexivity.
Qed.

(* joining *)
Lemma join_strs_app : forall sep a b, a <> [] -> b <> [] ->
  join_strs sep (a ++ b) = (join_strs sep a ++ sep ++ join_strs sep b)%string.
Proof.
  intros sep a b Ha Hb. induction a as [|x a IH]; [congruence|]. destruct a as [|y a'].
  - destruct b as [|z b']; [congruence|]. reflexivity.
  - change ((x :: y :: a') ++ b) with (x :: y :: (a' ++ b)). rewrite !join_strs_cons2'.
    change (y :: a' ++ b) with ((y :: a') ++ b). rewrite (IH ltac:(discriminate)), !append_assoc. reflexivity.
Qed.
Lemma join_flat_map : forall (A : Type) sep (g : A -> list string) l, (forall x, g x <> []) ->
  join_strs sep (flat_map g l) = join_strs sep (map (fun x => join_strs sep (g x)) l).
Proof.
  intros A sep g l Hg. induction l as [|x r IH]; [reflexivity|]. cbn [flat_map map]. destruct r as [|y r'].
  - cbn [flat_map map join_strs]. rewrite app_nil_r. reflexivity.
  - rewrite join_strs_app; [| apply Hg | cbn [flat_map]; intro E; apply app_eq_nil in E; destruct E as [E _]; exact (Hg y E)].
    rewrite IH. reflexivity.
Qed.
Lemma format_binding_ne : forall maxlen indent key v, Serial.format_binding maxlen indent key v <> [].
Proof.
  intros maxlen indent key v. unfold Serial.format_binding. destruct (v_lines v) as [|one [|two r]]; try discriminate.
  destruct (Nat.leb _ _); discriminate.
Qed.

(* THE BRIDGE: the characters of config_text are the lines of Serial.config_lines (no imports) joined with newlines,
   for the oracle values [sval_of]: representable = literal tree, lines = those of pprint.pformat of the tree *)
Theorem config_text_is_config_lines_items : forall registry entries maxlen indent,
  Forall (fun it => item_ascii (maxlen - indent) it = true) (ConfigText.config_items registry entries maxlen) ->
  ConfigText.config_text registry entries maxlen indent =
  join_lines (Serial.config_lines registry [] (map (sentry_of (maxlen - indent)) entries) maxlen indent).
Proof.
  intros registry entries maxlen indent Hasc. set (w := maxlen - indent) in *.
  rewrite config_lines_items, <- (items_correspond w), flat_map_map.
  unfold join_lines. rewrite join_flat_map.
  2:{ intros [s| |key v]; cbn [item_of render_item]; try discriminate. apply format_binding_ne. }
  unfold ConfigText.config_text, items_text. f_equal. apply map_ext_Forall. eapply Forall_impl; [|exact Hasc].
  intros [s| |key v] H; cbn [item_of render_item item_text join_strs]; try reflexivity.
  cbn [item_ascii] in H. apply andb_true_iff in H. destruct H as [H1 H2]. symmetry.
  exact (format_binding_join maxlen indent key v H1 H2).
Qed.

(* the ASCII condition from the entries, and from [supported] *)
Lemma ascii_only_app : forall a b, ascii_only (a ++ b)%string = ascii_only a && ascii_only b.
Proof. intros a b. unfold ascii_only. fold (cs (a ++ b)%string). rewrite cs_app. apply forallb_app. Qed.
Definition entry_ascii (reg : SelectorMap.smap unit) (w : nat) (e : centry) : Prop :=
  ascii_only (c_scope e) = true /\ ascii_only (c_scoped_selector reg e) = true /\
  forall p v, In (p, CLit v) (c_params e) -> ascii_only p = true /\ ascii_only (pformat w v) = true.
Lemma cget_value_In : forall l v, cget_value l = Some v -> exists k, In (k, v) l.
Proof.
  induction l as [|[k x] r IH]; intros v H; [discriminate|]. cbn [cget_value] in H. destruct (String.eqb k "value").
  - injection H as <-. exists k. left. reflexivity.
  - destruct (IH v H) as [k' Hk]. exists k'. right. exact Hk.
Qed.
Lemma c_lit_params_In : forall e p v, In (p, v) (c_lit_params e) -> In (p, CLit v) (c_params e).
Proof.
  intros e p v H. unfold c_lit_params in H. apply in_flat_map in H. destruct H as [[k [x|]] [Hin H]]; cbn [fst snd] in H; [|destruct H].
  destruct H as [H|[]]. injection H as <- <-. exact Hin.
Qed.
Lemma Forall_sort_stable' : forall (A K : Type) (key : A -> K) ltb (P : A -> Prop) l, Forall P l -> Forall P (sort_stable key ltb l).
Proof. intros A K key ltb P l H. rewrite Forall_forall in *. intros x Hx. apply H. exact (Permutation_in _ (sort_stable_perm _ _ key ltb l) Hx). Qed.
Lemma Forall_filter' : forall (A : Type) (f : A -> bool) (P : A -> Prop) l, Forall P l -> Forall P (filter f l).
Proof. intros A f P l H. rewrite Forall_forall in *. intros x Hx. apply filter_In in Hx. apply H. tauto. Qed.
Lemma Forall_flat_map' : forall (A B : Type) (f : A -> list B) (P : A -> Prop) (Q : B -> Prop) l,
  Forall P l -> (forall x, P x -> Forall Q (f x)) -> Forall Q (flat_map f l).
Proof. intros A B f P Q l H Hf. induction H as [|x r Hx _ IH]; cbn [flat_map]; [constructor|]. apply Forall_app. split; [exact (Hf x Hx) | exact IH]. Qed.

Theorem items_ascii_of_entries : forall registry entries maxlen w,
  Forall (entry_ascii (reg_of registry) w) entries ->
  Forall (fun it => item_ascii w it = true) (ConfigText.config_items registry entries maxlen).
Proof.
  intros registry entries maxlen w H. unfold ConfigText.config_items. fold (reg_of registry).
  set (reg := reg_of registry) in *. set (macros := sort_stable c_key full_key_ltb _). set (others := filter _ (sort_stable c_key full_key_ltb entries)).
  assert (Hm : Forall (entry_ascii reg w) macros) by (apply Forall_sort_stable', Forall_filter'; exact H).
  assert (Ho : Forall (entry_ascii reg w) others) by (apply Forall_filter', Forall_sort_stable'; exact H).
  apply Forall_app. split; [destruct macros; repeat constructor|]. apply Forall_app. split.
  { apply (Forall_flat_map' _ _ _ (entry_ascii reg w)); [exact Hm|]. intros e [H1 [_ H3]].
    unfold c_macro_value. destruct (c_is_macro e && negb (String.eqb (c_scope e) "")); [|constructor].
    destruct (cget_value (c_params e)) as [[v|]|] eqn:Eg; try constructor; [|constructor].
    destruct (cget_value_In _ _ Eg) as [k Hk]. cbn [item_ascii]. rewrite H1, (proj2 (H3 k v Hk)). reflexivity. }
  apply Forall_app. split; [destruct macros; repeat constructor|].
  apply (Forall_flat_map' _ _ _ (entry_ascii reg w)); [exact Ho|]. intros e [_ [H2 H3]].
  apply Forall_cons; [reflexivity|]. apply Forall_cons; [reflexivity|]. apply Forall_app. split.
  - apply Forall_map. apply Forall_sort_stable'. apply Forall_forall. intros [p v] Hin. cbn [fst snd item_ascii].
    destruct (H3 p v (c_lit_params_In e p v Hin)) as [A1 A2]. rewrite !ascii_only_app, H2, A1, A2. reflexivity.
  - apply Forall_app. split; [|repeat constructor].
    destruct (sort_stable (fun kv : string * pv => fst kv) String.ltb (c_lit_params e)); repeat constructor.
Qed.

Theorem config_text_is_config_lines : forall registry entries maxlen indent,
  Forall (entry_ascii (reg_of registry) (maxlen - indent)) entries ->
  ConfigText.config_text registry entries maxlen indent =
  join_lines (Serial.config_lines registry [] (map (sentry_of (maxlen - indent)) entries) maxlen indent).
Proof. intros registry entries maxlen indent H. apply config_text_is_config_lines_items. apply items_ascii_of_entries. exact H. Qed.

(* ================================================================== *)
(* 4. transferred from Props/C06.v *)
Lemma keys_conv : forall w es, map (fun e => (e_scope e, e_sel e)) (map (sentry_of w) es) = map (fun e => (c_scope e, c_sel e)) es.
Proof. intros w es. rewrite map_map. reflexivity. Qed.
Lemma entry_ascii_perm : forall reg w es1 es2, Permutation es1 es2 -> Forall (entry_ascii reg w) es1 -> Forall (entry_ascii reg w) es2.
Proof. intros reg w es1 es2 Hp H. rewrite Forall_forall in *. intros e He. apply H. exact (Permutation_in _ (Permutation_sym Hp) He). Qed.

(* 4.1 the TEXT depends only on the set of entries *)
Theorem config_text_order_independent : forall registry es1 es2 maxlen indent,
  NoDup (map (fun e => (c_scope e, c_sel e)) es1) -> Permutation es1 es2 ->
  Forall (entry_ascii (reg_of registry) (maxlen - indent)) es1 ->
  ConfigText.config_text registry es1 maxlen indent = ConfigText.config_text registry es2 maxlen indent.
Proof.
  intros registry es1 es2 maxlen indent Hnd Hp Ha.
  rewrite (config_text_is_config_lines registry es1 maxlen indent Ha).
  rewrite (config_text_is_config_lines registry es2 maxlen indent (entry_ascii_perm _ _ _ _ Hp Ha)).
  f_equal. apply SerialProofs.C06_order_independent; [rewrite keys_conv; exact Hnd | apply Permutation_map; exact Hp].
Qed.

(* 4.2 the store a reader of the text ends up with, and the fixed point *)
Lemma sort_stable_nil_iff : forall (A K : Type) (key : A -> K) ltb (l : list A), sort_stable key ltb l = [] <-> l = [].
Proof.
  intros A K key ltb l. split; [|intros ->; reflexivity]. intro E. pose proof (sort_stable_perm _ _ key ltb l) as Hp. rewrite E in Hp.
  exact (Permutation_nil Hp).
Qed.
Lemma restore_entry_conv : forall w e, restore_entry (sentry_of w e) = sentry_of w (c_restore_entry e).
Proof.
  intros w e. unfold restore_entry, sentry_of. cbn [e_scope e_sel e_method e_params c_scope c_sel c_method c_params c_restore_entry].
  f_equal. change (section_params (sentry_of w e) = map (fun kv : string * cvalue => (fst kv, sval_of w (snd kv)))
                     (map (fun kv : string * pv => (fst kv, CLit (snd kv))) (sort_stable (fun kv => fst kv) String.ltb (c_lit_params e)))).
  rewrite section_params_conv, map_map. reflexivity.
Qed.
Lemma has_params_conv : forall w e, has_params (sentry_of w e) = c_has_params e.
Proof.
  intros w e. unfold has_params, c_has_params. rewrite section_params_conv.
  destruct (c_lit_params e) as [|x l] eqn:E; [reflexivity|].
  destruct (sort_stable (fun kv : string * pv => fst kv) String.ltb (x :: l)) eqn:Es; [|reflexivity].
  apply sort_stable_nil_iff in Es. discriminate Es.
Qed.
Theorem restored_conv : forall w entries, restored (map (sentry_of w) entries) = map (sentry_of w) (c_restored entries).
Proof.
  intros w entries. unfold restored, c_restored. rewrite macro_entries_conv, other_entries_conv, filter_map_comm.
  rewrite (filter_ext _ c_has_params (has_params_conv w)). rewrite map_app, !map_map.
  f_equal; apply map_ext; intro e; apply restore_entry_conv.
Qed.
Lemma entry_ascii_restore : forall reg w e, entry_ascii reg w e -> entry_ascii reg w (c_restore_entry e).
Proof.
  intros reg w e [H1 [H2 H3]]. split; [exact H1|]. split; [exact H2|]. intros p v Hin. cbn [c_restore_entry c_params] in Hin.
  apply in_map_iff in Hin. destruct Hin as [[p' v'] [E Hin]]. cbn [fst snd] in E. injection E as <- <-.
  apply (Permutation_in _ (sort_stable_perm _ _ _ _ _)) in Hin. exact (H3 p' v' (c_lit_params_In e p' v' Hin)).
Qed.
Lemma entry_ascii_restored : forall reg w entries, Forall (entry_ascii reg w) entries -> Forall (entry_ascii reg w) (c_restored entries).
Proof.
  intros reg w entries H. unfold c_restored. apply Forall_app. split; apply Forall_map.
  - eapply Forall_impl; [intros e He; exact (entry_ascii_restore reg w e He)|]. apply Forall_sort_stable', Forall_filter'. exact H.
  - eapply Forall_impl; [intros e He; exact (entry_ascii_restore reg w e He)|]. apply Forall_filter', Forall_filter', Forall_sort_stable'. exact H.
Qed.
Lemma small_bound : 0 + 3 <= 10 ^ 20.
Proof. apply (Nat.le_trans _ (10 ^ 1)); [cbn; repeat constructor|]. apply Nat.pow_le_mono_r; [discriminate | repeat constructor]. Qed.

(* serialising the store read back gives the identical TEXT (sections that print only "# None." are not restored:
   finding F18 -- hence the hypothesis that every emitted section has a representable parameter) *)
Theorem config_text_restored_fixpoint : forall registry entries maxlen indent,
  NoDup (map (fun e => (c_scope e, c_sel e)) entries) ->
  (forall e, In e entries -> c_section_ok e = true -> c_lit_params e <> []) ->
  Forall (entry_ascii (reg_of registry) (maxlen - indent)) entries ->
  ConfigText.config_text registry (c_restored entries) maxlen indent = ConfigText.config_text registry entries maxlen indent.
Proof.
  intros registry entries maxlen indent Hnd Hnone Ha. set (w := maxlen - indent) in *.
  rewrite (config_text_is_config_lines registry entries maxlen indent Ha).
  rewrite (config_text_is_config_lines registry (c_restored entries) maxlen indent (entry_ascii_restored _ _ _ Ha)).
  fold w. rewrite <- restored_conv. f_equal.
  pose proof (SerialProofs2.C06_roundtrip_text registry [] (map (sentry_of w) entries) maxlen indent small_bound) as HR.
  change (sorted_imports (import_manager [])) with (@nil simport) in HR. apply HR.
  - rewrite keys_conv. exact Hnd.
  - intros e He Hp. rewrite other_entries_conv in He. apply in_map_iff in He. destruct He as [ce [<- Hce]].
    apply filter_In in Hce. destruct Hce as [Hin Hok]. apply (Permutation_in _ (sort_stable_perm _ _ _ _ _)) in Hin.
    rewrite section_params_conv in Hp. apply map_eq_nil in Hp. apply sort_stable_nil_iff in Hp. exact (Hnone ce Hin Hok Hp).
Qed.

(* ================================================================== *)
(* 5. the statements read are the bindings of the entries, and these are the bindings of the restored store *)
From GinV Require Import Proofs.ParserLemmas Proofs.ConfigTextProofs.
Definition entry_keys_ok (reg : SelectorMap.smap unit) (e : centry) : Prop :=
  contains_char slash (c_minimal reg e) = false /\ contains_char dot (snd (split_scoped (c_scope e))) = false /\
  forall p v, In (p, v) (c_lit_params e) -> contains_char slash p = false /\ contains_char dot p = false.
Definition entry_denotes (o : oracle) (e : centry) : Prop :=
  (forall v, c_macro_value e = Some v -> exists x, denote o v = Some x) /\
  (forall p v, In (p, v) (c_lit_params e) -> exists x, denote o v = Some x).
Lemma entry_ok_denotes : forall o reg e, entry_ok o reg e -> entry_denotes o e.
Proof.
  intros o reg e [_ [H1 H2]]. split.
  - intros v Hv. destruct (H1 v Hv) as [_ [Hok _]]. exact (value_denotes o v Hok).
  - intros p v Hin. destruct (H2 p v Hin) as [_ [Hok _]]. exact (value_denotes o v Hok).
Qed.

Theorem stmts_are_bindings : forall o registry entries maxlen indent,
  Forall (entry_denotes o) entries -> Forall (entry_keys_ok (reg_of registry)) entries ->
  flat_map stmt_binding (expected_stmts o registry entries maxlen indent) = expected_bindings o registry entries.
Proof.
  intros o registry entries maxlen indent Hd Hk. unfold expected_stmts. rewrite items_stmts_bindings.
  unfold ConfigText.config_items, expected_bindings. fold (reg_of registry). set (reg := reg_of registry) in *.
  set (macros := sort_stable c_key full_key_ltb _). set (others := filter _ (sort_stable c_key full_key_ltb entries)).
  assert (HP : Forall (fun e => entry_denotes o e /\ entry_keys_ok reg e) entries).
  { rewrite Forall_forall in *. intros e He. split; [exact (Hd e He) | exact (Hk e He)]. }
  assert (Hm : Forall (fun e => entry_denotes o e /\ entry_keys_ok reg e) macros) by (apply Forall_sort_stable', Forall_filter'; exact HP).
  assert (Ho : Forall (fun e => entry_denotes o e /\ entry_keys_ok reg e) others) by (apply Forall_filter', Forall_sort_stable'; exact HP).
  rewrite !flat_map_app, !flat_map_flat_map.
  replace (flat_map (item_binding o) match macros with [] => [] | _ :: _ => [CComment "# Macros:"; CComment (c_rule maxlen)] end)
    with (@nil (string * string * string * option out)) by (destruct macros; reflexivity).
  replace (flat_map (item_binding o) match macros with [] => [] | _ :: _ => [CBlank] end)
    with (@nil (string * string * string * option out)) by (destruct macros; reflexivity).
  cbn [app]. f_equal.
  - apply flat_map_ext_Forall. eapply Forall_impl; [|exact Hm]. intros e [[D1 _] [_ [K2 _]]].
    destruct (c_macro_value e) as [v|]; [|reflexivity]. destruct (D1 v eq_refl) as [x Hx].
    cbn [flat_map item_binding app]. rewrite Hx, (macro_key_split (c_scope e) K2). destruct (split_scoped (c_scope e)). reflexivity.
  - apply flat_map_ext_Forall. eapply Forall_impl; [|exact Ho]. intros e [[_ D2] [K1 [_ K3]]].
    cbn [flat_map item_binding app]. rewrite !flat_map_app, flat_map_map.
    replace (flat_map (item_binding o) match sort_stable (fun kv : string * pv => fst kv) String.ltb (c_lit_params e) with
                                        | [] => [CComment "# None."] | _ :: _ => [] end)
      with (@nil (string * string * string * option out)) by (destruct (sort_stable _ _ (c_lit_params e)); reflexivity).
    cbn [flat_map item_binding app]. rewrite app_nil_r. rewrite <- flat_map_singleton. apply flat_map_ext_Forall.
    apply Forall_sort_stable'. apply Forall_forall. intros [p v] Hin. cbn [fst snd item_binding].
    destruct (D2 p v Hin) as [x Hx]. destruct (K3 p v Hin) as [S1 S2]. rewrite Hx, (section_key_split reg e p K1 S1 S2). reflexivity.
Qed.

(* the bindings of the restored store *)
Definition is_value_key (kv : string * pv) : bool := String.eqb (fst kv) "value".
Lemma cget_lit : forall l v, cget_value l = Some (CLit v) ->
  exists k, hd_error (filter is_value_key (flat_map (fun kv : string * cvalue => match snd kv with CLit x => [(fst kv, x)] | COpaque => [] end) l)) = Some (k, v).
Proof.
  induction l as [|[k x] r IH]; intros v H; [discriminate|]. cbn [cget_value] in H. cbn [flat_map fst snd].
  destruct (String.eqb k "value") eqn:E.
  - injection H as ->. cbn [app filter]. unfold is_value_key at 1. cbn [fst]. rewrite E. exists k. reflexivity.
  - destruct (IH v H) as [k' Hk']. exists k'. destruct x as [x|]; cbn [app]; [|exact Hk'].
    cbn [filter]. unfold is_value_key at 1. cbn [fst]. rewrite E. exact Hk'.
Qed.
Lemma cget_map_lit : forall L k v, hd_error (filter is_value_key L) = Some (k, v) ->
  cget_value (map (fun kv : string * pv => (fst kv, CLit (snd kv))) L) = Some (CLit v).
Proof.
  induction L as [|[k' x] r IH]; intros k v H; [discriminate|]. cbn [map cget_value fst snd filter] in *. unfold is_value_key in H at 1. cbn [fst] in H.
  destruct (String.eqb k' "value"); [injection H as _ ->; reflexivity | exact (IH k v H)].
Qed.
Lemma lit_params_restore : forall e, c_lit_params (c_restore_entry e) = sort_stable (fun kv => fst kv) String.ltb (c_lit_params e).
Proof.
  intro e. unfold c_lit_params at 1. cbn [c_restore_entry c_params]. generalize (sort_stable (fun kv : string * pv => fst kv) String.ltb (c_lit_params e)).
  induction l as [|[k x] r IH]; [reflexivity|]. cbn [map flat_map fst snd app]. rewrite IH. reflexivity.
Qed.
Lemma macro_value_restore : forall e v, c_macro_value e = Some v -> c_macro_value (c_restore_entry e) = Some v.
Proof.
  intros e v H. unfold c_macro_value in *. change (c_is_macro (c_restore_entry e)) with (c_is_macro e).
  change (c_scope (c_restore_entry e)) with (c_scope e). destruct (c_is_macro e && negb (String.eqb (c_scope e) "")); [|discriminate].
  destruct (cget_value (c_params e)) as [[x|]|] eqn:Eg; try discriminate. injection H as ->.
  destruct (cget_lit _ _ Eg) as [k Hk]. fold (c_lit_params e) in Hk. cbn [c_restore_entry c_params].
  rewrite (cget_map_lit _ k v); [reflexivity|].
  unfold is_value_key in *. rewrite (@sort_stable_filter_key _ _ (fun kv : string * pv => fst kv) String.ltb String.eqb
                                       (fun a b Hab => proj1 (String.eqb_eq a b) Hab) string_ltb_irrefl "value" (c_lit_params e)).
  exact Hk.
Qed.
Lemma section_macro_none : forall e, c_section_ok e = true -> c_macro_value (c_restore_entry e) = None.
Proof.
  intros e H. unfold c_macro_value. change (c_is_macro (c_restore_entry e)) with (c_is_macro e). change (c_scope (c_restore_entry e)) with (c_scope e).
  unfold c_section_ok in H. apply andb_true_iff in H. destruct H as [_ H]. apply negb_true_iff in H. rewrite H. reflexivity.
Qed.
Lemma flat_map_filter_nil : forall (A B : Type) (g : A -> list B) (p : A -> bool) l,
  (forall x, p x = false -> g x = []) -> flat_map g (filter p l) = flat_map g l.
Proof.
  intros A B g p l H. induction l as [|x r IH]; [reflexivity|]. cbn [filter flat_map]. destruct (p x) eqn:E; cbn [flat_map]; rewrite IH; [reflexivity|].
  rewrite (H x E). reflexivity.
Qed.

Theorem bindings_of_restored : forall o registry entries,
  expected_bindings o registry entries = store_bindings o (reg_of registry) (c_restored entries).
Proof.
  intros o registry entries. unfold expected_bindings, store_bindings, c_restored. fold (reg_of registry). set (reg := reg_of registry).
  set (macros := sort_stable c_key full_key_ltb _).
  change (filter (fun e : centry => negb (c_is_constant e) && negb (c_is_macro e && negb (String.eqb (c_scope e) "")))) with (filter c_section_ok).
  set (others := filter c_section_ok _).
  assert (Hm : Forall (fun e => c_macro_value e <> None) macros).
  { apply Forall_forall. intros e He. apply (Permutation_in _ (sort_stable_perm _ _ _ _ _)) in He. apply filter_In in He.
    destruct He as [_ He]. destruct (c_macro_value e); [discriminate | discriminate He]. }
  assert (Ho : Forall (fun e => c_section_ok e = true) others).
  { apply Forall_forall. intros e He. apply filter_In in He. tauto. }
  rewrite flat_map_app, !flat_map_map. f_equal.
  - apply flat_map_ext_Forall. eapply Forall_impl; [|exact Hm]. intros e He. unfold entry_bindings.
    destruct (c_macro_value e) as [v|] eqn:E; [|congruence]. rewrite (macro_value_restore e v E). reflexivity.
  - rewrite flat_map_filter_nil.
    + apply flat_map_ext_Forall. eapply Forall_impl; [|exact Ho]. intros e He. unfold entry_bindings.
      rewrite (section_macro_none e He), lit_params_restore. reflexivity.
    + intros e He. unfold entry_bindings. destruct (c_macro_value (c_restore_entry e)) eqn:E.
      * (* cannot be a macro with no literal parameter *)
        exfalso. unfold c_macro_value in E. destruct (c_is_macro (c_restore_entry e) && _); [|discriminate].
        cbn [c_restore_entry c_params] in E. unfold c_has_params in He. destruct (c_lit_params e); [discriminate E | discriminate He].
      * rewrite lit_params_restore. unfold c_has_params in He. destruct (c_lit_params e); [reflexivity | discriminate He].
Qed.

(* ================================================================== *)
(* 6. the assembled statements *)
(* reading the text gives exactly the bindings of the entries: (scope, selector as written, parameter, value) *)
Theorem config_text_reads_back_bindings : forall o registry entries maxlen indent,
  Forall (entry_ok o (reg_of registry)) entries -> Forall (entry_keys_ok (reg_of registry)) entries ->
  supported (ConfigText.config_text registry entries maxlen indent) = true ->
  exists ts, lex (ConfigText.config_text registry entries maxlen indent) = Some ts /\
    exists fuel0, forall fuel, fuel0 <= fuel ->
      exists stmts, parse_all fuel o false ts [] = (stmts, None) /\
                    flat_map stmt_binding stmts = expected_bindings o registry entries.
Proof.
  intros o registry entries maxlen indent Hok Hk Hs.
  destruct (config_text_reads_back_entries o registry entries maxlen indent Hok Hs) as [ts [Hl [fuel0 Hp]]].
  exists ts. split; [exact Hl|]. exists fuel0. intros fuel Hf. exists (expected_stmts o registry entries maxlen indent).
  split; [exact (Hp fuel Hf)|]. apply stmts_are_bindings; [|exact Hk].
  eapply Forall_impl; [|exact Hok]. intros e He. exact (entry_ok_denotes o _ e He).
Qed.
(* ROUND TRIP: reading the text gives the bindings of the store [c_restored entries], and serialising that store gives the
   identical text *)
Theorem config_text_roundtrip : forall o registry entries maxlen indent,
  Forall (entry_ok o (reg_of registry)) entries -> Forall (entry_keys_ok (reg_of registry)) entries ->
  Forall (entry_ascii (reg_of registry) (maxlen - indent)) entries ->
  NoDup (map (fun e => (c_scope e, c_sel e)) entries) ->
  (forall e, In e entries -> c_section_ok e = true -> c_lit_params e <> []) ->
  supported (ConfigText.config_text registry entries maxlen indent) = true ->
  (exists ts, lex (ConfigText.config_text registry entries maxlen indent) = Some ts /\
     exists fuel0, forall fuel, fuel0 <= fuel ->
       exists stmts, parse_all fuel o false ts [] = (stmts, None) /\
                     flat_map stmt_binding stmts = store_bindings o (reg_of registry) (c_restored entries)) /\
  ConfigText.config_text registry (c_restored entries) maxlen indent = ConfigText.config_text registry entries maxlen indent.
Proof.
  intros o registry entries maxlen indent Hok Hk Ha Hnd Hnone Hs. split.
  - destruct (config_text_reads_back_bindings o registry entries maxlen indent Hok Hk Hs) as [ts [Hl [fuel0 Hp]]].
    exists ts. split; [exact Hl|]. exists fuel0. intros fuel Hf. destruct (Hp fuel Hf) as [stmts [H1 H2]].
    exists stmts. split; [exact H1|]. rewrite H2. apply bindings_of_restored.
  - exact (config_text_restored_fixpoint registry entries maxlen indent Hnd Hnone Ha).
Qed.
