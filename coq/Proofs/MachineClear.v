(* C20 lifted to whole runs.
   (a) every reachable state has pairwise distinct constant keys, hence the repaired
       clear_config(clear_constants=False) keeps the constants' flat map;
   (b) a program that never enters interactive mode keeps the constants map in the class
       [built_ni], for which even the ORIGINAL clear_config succeeds and preserves them. *)
From Coq Require Import List String ZArith Bool Arith Lia.
From GinV Require Import Lib.Out Lib.PyStr Model.SelectorMap Model.Values Model.Gin Model.GinEngine.
From GinV Require Import Proofs.MachineFrame Proofs.MachineProofs.
Import ListNotations. Open Scope string_scope. Open Scope list_scope.

Fixpoint no_interactive (o : op) {struct o} : Prop :=
  match o with
  | OInteractive _ => False
  | OWith _ body | OUnlock body =>
      (fix all (l : list op) : Prop := match l with [] => True | x :: t => no_interactive x /\ all t end) body
  | _ => True
  end.
Definition all_noint :=
  fix all (l : list op) : Prop := match l with [] => True | x :: t => no_interactive x /\ all t end.
Lemma all_noint_cons : forall x t, all_noint (x :: t) = (no_interactive x /\ all_noint t).
Proof. reflexivity. Qed.

Definition cinv (s : state) : Prop := built_ni (constants s) /\ interactive s = false.

Lemma cinv_ext : forall s s', constants s' = constants s -> interactive s' = interactive s -> cinv s -> cinv s'.
Proof. intros s s' Hc Hi [B I]. unfold cinv. rewrite Hc, Hi. split; assumption. Qed.
Lemma cinv_ss : forall s s', same_static s s' -> cinv s -> cinv s'.
Proof. intros s s' (_&_&_&A4&A5&_) H. eapply cinv_ext; eassumption. Qed.

Lemma bind_split_cinv : forall s sc sel a v s' r, cinv s -> bind_split s sc sel a v = (s', r) -> cinv s'.
Proof.
  intros s sc sel a v s' r I H. apply bind_split_shape in H.
  destruct H as [[-> _]|[c [-> _]]]; [exact I|]. eapply cinv_ext; [| |exact I]; reflexivity.
Qed.
Lemma finalize_cinv : forall s s' r, cinv s -> finalize s = (s', r) -> cinv s'.
Proof.
  intros s s' r I H. apply finalize_shape in H.
  destruct H as [[[o ->] _]|[_ [[o [c ->]] _]]]; (eapply cinv_ext; [| |exact I]; reflexivity).
Qed.
Lemma register_cinv : forall s c b s' r, cinv s -> register s c b = (s', r) -> cinv s'.
Proof.
  intros s c b s' r I H. apply register_shape in H.
  destruct H as [[-> _]|[-> _]]; [exact I|]. eapply cinv_ext; [| |exact I]; reflexivity.
Qed.
Lemma define_constant_cinv : forall s n v s' r, cinv s -> define_constant s n v = (s', r) -> cinv s'.
Proof.
  intros s n v s' r [B I] H. destruct r as [[]|e].
  - split; [eapply define_constant_built; eassumption|].
    apply define_constant_shape in H. destruct H as [[-> _]|[-> _]]; exact I.
  - apply define_constant_shape in H. destruct H as [[-> _]|[_ H]]; [split; assumption|discriminate].
Qed.
Lemma clear_config_cinv : forall s b s' r, cinv s -> clear_config s b = (s', r) -> cinv s'.
Proof.
  intros s b s' r [B I] H. split; [eapply clear_config_built; eassumption|].
  apply clear_config_shape in H. destruct H as [x [o [-> _]]]. exact I.
Qed.
Lemma run_res_cinv : forall x o s' r, (forall s1 r1, x = (s1, r1) -> cinv s1) -> run_res x o = (s', r) -> cinv s'.
Proof.
  intros x o s' r Hx H. apply run_res_cases in H.
  destruct H as [[s1 [E [-> _]]]|[e [E _]]].
  - eapply cinv_ext; [| |eapply Hx; exact E]; reflexivity.
  - eapply Hx; exact E.
Qed.

Definition exec_cinv (f : nat) : Prop :=
  forall s o s' r, cinv s -> no_interactive o -> exec f s o = (s', r) -> cinv s'.

Lemma exec_body_cinv : forall f, exec_cinv f -> forall body s s' r,
  cinv s -> all_noint body -> exec_body f s body = (s', r) -> cinv s'.
Proof.
  intros f IH body. induction body as [|x t IHb]; intros s s' r I A H.
  - rewrite exec_body_nil in H. inversion H; subst. exact I.
  - rewrite exec_body_cons in H. rewrite all_noint_cons in A. destruct A as [A1 A2].
    destruct (exec f s x) as [s1 r1] eqn:E. pose proof (IH _ _ _ _ I A1 E) as I1.
    destruct r1 as [u|e]; [|inversion H; subst; exact I1].
    eapply IHb; [exact I1|exact A2|exact H].
Qed.

Lemma exec_cinv_all : forall fuel, exec_cinv fuel.
Proof.
  induction fuel as [|f IH]; intros s o s' r I A H.
  - rewrite exec_0 in H. inversion H; subst. exact I.
  - destruct o.
    + rewrite exec_OBind in H. destruct (resolve s v); [|inversion H; subst; exact I].
      destruct (parse_binding_key key) as [[scope sel] arg].
      eapply run_res_cinv; [|exact H]. intros s1 r1 E. eapply bind_split_cinv; eassumption.
    + rewrite exec_OBindT in H. destruct (resolve s v); [|inversion H; subst; exact I].
      eapply run_res_cinv; [|exact H]. intros s1 r1 E. eapply bind_split_cinv; eassumption.
    + rewrite exec_OParse in H. destruct (resolve s v); [|inversion H; subst; exact I].
      destruct (parse_binding_key key) as [[scope sel] arg].
      destruct (String.eqb arg "");
        (eapply run_res_cinv; [|exact H]; intros s1 r1 E; eapply bind_split_cinv; eassumption).
    + rewrite exec_OQuery in H. cbv zeta in H.
      destruct (if is_selector key then sm_matching (to_key key) (constants s) else []) as [|k [|k2 l]].
      * destruct (parse_binding_key key) as [[scope sel] arg].
        destruct (pbk_validate s scope sel arg) as [[ck a]|e]; [|inversion H; subst; exact I].
        destruct (cget ck (config s)) as [d|]; [|inversion H; subst; exact I].
        destruct (sget a d); inversion H; subst; exact I.
      * destruct (fget k (sm_flat (constants s))); inversion H; subst; exact I.
      * inversion H; subst; exact I.
    + rewrite exec_OCall in H. destruct (call f s sel args kwargs) as [s1 r1] eqn:E.
      apply call_frame in E. apply (cinv_ss _ _ E) in I.
      destruct r1; inversion H; subst; exact I.
    + rewrite exec_OCallVia in H. cbv zeta in H.
      destruct (reg_lookup s (last (split_slash target) "")); try (inversion H; subst; exact I).
      destruct (call_handle f s _ (c_sel c) args kwargs) as [s1 r1] eqn:E.
      apply call_handle_frame in E. apply (cinv_ss _ _ E) in I.
      destruct r1; inversion H; subst; exact I.
    + rewrite exec_OWith in H.
      destruct (enter_scope_value (current_scope s) a) as [new_scope valid]. cbv zeta in H.
      destruct (negb valid || negb (scope_valid new_scope)); [inversion H; subst; exact I|].
      destruct (exec_body f _ body) as [s2 r2] eqn:E.
      apply (exec_body_cinv f IH) in E; [inversion H; subst; exact E|exact I|exact A].
    + simpl in H. inversion H; subst. exact I.
    + simpl in H. inversion H; subst. exact I.
    + rewrite exec_OGetBindings in H. cbv zeta in H.
      destruct (reg_lookup s (last (split_slash target) "")); try (inversion H; subst; exact I).
      destruct resolve; [|inversion H; subst; exact I].
      destruct (eval f s _) as [s1 r1] eqn:E. apply eval_frame in E. apply (cinv_ss _ _ E) in I.
      destruct r1 as [w|e]; [|inversion H; subst; exact I].
      destruct w; inversion H; subst; exact I.
    + rewrite exec_OFinalize in H. eapply run_res_cinv; [|exact H]. intros s1 r1 E. eapply finalize_cinv; eassumption.
    + rewrite exec_OUnlock in H.
      destruct (exec_body f _ body) as [s2 r2] eqn:E.
      apply (exec_body_cinv f IH) in E; [inversion H; subst; exact E|exact I|exact A].
    + rewrite exec_OClear in H. eapply run_res_cinv; [|exact H]. intros s1 r1 E. eapply clear_config_cinv; eassumption.
    + simpl in H. inversion H; subst. exact I.
    + rewrite exec_OConstant in H. eapply run_res_cinv; [|exact H]. intros s1 r1 E. eapply define_constant_cinv; eassumption.
    + simpl in A. contradiction.
    + rewrite exec_ORegister in H. eapply run_res_cinv; [|exact H]. intros s1 r1 E. eapply register_cinv; eassumption.
    + rewrite exec_OHook in H. inversion H; subst. exact I.
    + simpl in H. inversion H; subst. exact I.
    + simpl in H. inversion H; subst. exact I.
    + simpl in H. inversion H; subst. exact I.
Qed.

Lemma run_top_cinv : forall fuel ops s, cinv s -> all_noint ops -> cinv (run_top fuel s ops).
Proof.
  intros fuel ops. induction ops as [|o ops IH]; intros s I A; simpl; [exact I|].
  rewrite all_noint_cons in A. destruct A as [A1 A2].
  destruct (exec fuel s o) as [s1 r1] eqn:E. apply (exec_cinv_all fuel _ _ _ _ I A1) in E.
  destruct r1; apply IH; assumption.
Qed.

Lemma setup_cinv : forall regs, cinv (setup regs).
Proof.
  intro regs. unfold setup.
  assert (G : forall l s, cinv s -> cinv (fold_left (fun s c => fst (register s c false)) l s)).
  { induction l as [|c l IHl]; intros s I; simpl; [exact I|].
    apply IHl. destruct (register s c false) as [s1 r1] eqn:E. simpl. eapply register_cinv; eassumption. }
  apply G. split; [apply built_init|reflexivity].
Qed.

(* every run that never enters interactive mode ends in a state where even the ORIGINAL
   clear_config(clear_constants=False) succeeds, keeps the constants, and agrees with the repaired one *)
Theorem clear_orig_keeps_constants_run : forall fuel regs ops, all_noint ops ->
  let s := run_top fuel (setup regs) ops in
  exists s', clear_config_orig s false = (s', Ok tt) /\ clear_config s false = (s', Ok tt) /\
    constants s' = constants s /\
    config s' = [] /\ operative s' = [] /\ singletons s' = [] /\ locked s' = false.
Proof.
  intros fuel regs ops A s.
  destruct (run_top_cinv fuel ops (setup regs) (setup_cinv regs) A) as [B _].
  destruct (clear_keeps_constants_partial _ B) as [s' [E [Ec [_ R]]]].
  exists s'. split; [exact E|]. split; [rewrite <- (clear_orig_agrees_on_built _ _ B); exact E|].
  split; [exact Ec|exact R].
Qed.


(* ================================================================== *)
(* (a) distinct constant keys in every reachable state                 *)
(* ================================================================== *)
Lemma kinv_ext : forall s s', constants s' = constants s -> kinv s -> kinv s'.
Proof. intros s s' Hc K. unfold kinv. rewrite Hc. exact K. Qed.
Lemma kinv_ss : forall s s', same_static s s' -> kinv s -> kinv s'.
Proof. intros s s' (_&_&_&_&A5&_) K. eapply kinv_ext; eassumption. Qed.

Lemma bind_split_kinv : forall s sc sel a v s' r, kinv s -> bind_split s sc sel a v = (s', r) -> kinv s'.
Proof.
  intros s sc sel a v s' r I H. apply bind_split_shape in H.
  destruct H as [[-> _]|[c [-> _]]]; exact I.
Qed.
Lemma finalize_kinv : forall s s' r, kinv s -> finalize s = (s', r) -> kinv s'.
Proof.
  intros s s' r I H. apply finalize_shape in H.
  destruct H as [[[o ->] _]|[_ [[o [c ->]] _]]]; exact I.
Qed.
Lemma register_kinv : forall s c b s' r, kinv s -> register s c b = (s', r) -> kinv s'.
Proof.
  intros s c b s' r I H. apply register_shape in H.
  destruct H as [[-> _]|[-> _]]; exact I.
Qed.
Lemma run_res_kinv : forall x o s' r, (forall s1 r1, x = (s1, r1) -> kinv s1) -> run_res x o = (s', r) -> kinv s'.
Proof.
  intros x o s' r Hx H. apply run_res_cases in H.
  destruct H as [[s1 [E [-> _]]]|[e [E _]]].
  - apply (kinv_ext s1); [reflexivity|eapply Hx; exact E].
  - eapply Hx; exact E.
Qed.

Definition exec_kinv (f : nat) : Prop := forall s o s' r, kinv s -> exec f s o = (s', r) -> kinv s'.

Lemma exec_body_kinv : forall f, exec_kinv f -> forall body s s' r,
  kinv s -> exec_body f s body = (s', r) -> kinv s'.
Proof.
  intros f IH body. induction body as [|x t IHb]; intros s s' r I H.
  - rewrite exec_body_nil in H. inversion H; subst. exact I.
  - rewrite exec_body_cons in H.
    destruct (exec f s x) as [s1 r1] eqn:E. pose proof (IH _ _ _ _ I E) as I1.
    destruct r1 as [u|e]; [|inversion H; subst; exact I1].
    eapply IHb; [exact I1|exact H].
Qed.

Lemma exec_kinv_all : forall fuel, exec_kinv fuel.
Proof.
  induction fuel as [|f IH]; intros s o s' r I H.
  - rewrite exec_0 in H. inversion H; subst. exact I.
  - destruct o.
    + rewrite exec_OBind in H. destruct (resolve s v); [|inversion H; subst; exact I].
      destruct (parse_binding_key key) as [[scope sel] arg].
      eapply run_res_kinv; [|exact H]. intros s1 r1 E. eapply bind_split_kinv; eassumption.
    + rewrite exec_OBindT in H. destruct (resolve s v); [|inversion H; subst; exact I].
      eapply run_res_kinv; [|exact H]. intros s1 r1 E. eapply bind_split_kinv; eassumption.
    + rewrite exec_OParse in H. destruct (resolve s v); [|inversion H; subst; exact I].
      destruct (parse_binding_key key) as [[scope sel] arg].
      destruct (String.eqb arg "");
        (eapply run_res_kinv; [|exact H]; intros s1 r1 E; eapply bind_split_kinv; eassumption).
    + rewrite exec_OQuery in H. cbv zeta in H.
      destruct (if is_selector key then sm_matching (to_key key) (constants s) else []) as [|k [|k2 l]].
      * destruct (parse_binding_key key) as [[scope sel] arg].
        destruct (pbk_validate s scope sel arg) as [[ck a]|e]; [|inversion H; subst; exact I].
        destruct (cget ck (config s)) as [d|]; [|inversion H; subst; exact I].
        destruct (sget a d); inversion H; subst; exact I.
      * destruct (fget k (sm_flat (constants s))); inversion H; subst; exact I.
      * inversion H; subst; exact I.
    + rewrite exec_OCall in H. destruct (call f s sel args kwargs) as [s1 r1] eqn:E.
      apply call_frame in E. apply (kinv_ss _ _ E) in I.
      destruct r1; inversion H; subst; exact I.
    + rewrite exec_OCallVia in H. cbv zeta in H.
      destruct (reg_lookup s (last (split_slash target) "")); try (inversion H; subst; exact I).
      destruct (call_handle f s _ (c_sel c) args kwargs) as [s1 r1] eqn:E.
      apply call_handle_frame in E. apply (kinv_ss _ _ E) in I.
      destruct r1; inversion H; subst; exact I.
    + rewrite exec_OWith in H.
      destruct (enter_scope_value (current_scope s) a) as [new_scope valid]. cbv zeta in H.
      destruct (negb valid || negb (scope_valid new_scope)); [inversion H; subst; exact I|].
      destruct (exec_body f _ body) as [s2 r2] eqn:E.
      apply (exec_body_kinv f IH) in E; [inversion H; subst; exact E|exact I].
    + simpl in H. inversion H; subst. exact I.
    + simpl in H. inversion H; subst. exact I.
    + rewrite exec_OGetBindings in H. cbv zeta in H.
      destruct (reg_lookup s (last (split_slash target) "")); try (inversion H; subst; exact I).
      destruct resolve; [|inversion H; subst; exact I].
      destruct (eval f s _) as [s1 r1] eqn:E. apply eval_frame in E. apply (kinv_ss _ _ E) in I.
      destruct r1 as [w|e]; [|inversion H; subst; exact I].
      destruct w; inversion H; subst; exact I.
    + rewrite exec_OFinalize in H. eapply run_res_kinv; [|exact H]. intros s1 r1 E. eapply finalize_kinv; eassumption.
    + rewrite exec_OUnlock in H.
      destruct (exec_body f _ body) as [s2 r2] eqn:E.
      apply (exec_body_kinv f IH) in E; [inversion H; subst; exact E|exact I].
    + rewrite exec_OClear in H. eapply run_res_kinv; [|exact H]. intros s1 r1 E. eapply clear_config_kinv; eassumption.
    + simpl in H. inversion H; subst. exact I.
    + rewrite exec_OConstant in H. eapply run_res_kinv; [|exact H]. intros s1 r1 E. eapply define_constant_kinv; eassumption.
    + rewrite exec_OInteractive in H.
      destruct (exec_body f _ body) as [s2 r2] eqn:E.
      apply (exec_body_kinv f IH) in E; [inversion H; subst; exact E|exact I].
    + rewrite exec_ORegister in H. eapply run_res_kinv; [|exact H]. intros s1 r1 E. eapply register_kinv; eassumption.
    + rewrite exec_OHook in H. inversion H; subst. exact I.
    + simpl in H. inversion H; subst. exact I.
    + simpl in H. inversion H; subst. exact I.
    + simpl in H. inversion H; subst. exact I.
Qed.

Lemma run_top_kinv : forall fuel ops s, kinv s -> kinv (run_top fuel s ops).
Proof.
  intros fuel ops. induction ops as [|o ops IH]; intros s I; simpl; [exact I|].
  destruct (exec fuel s o) as [s1 r1] eqn:E. apply (exec_kinv_all fuel _ _ _ _ I) in E.
  destruct r1; apply IH; exact E.
Qed.

Lemma setup_kinv : forall regs, kinv (setup regs).
Proof.
  intro regs. unfold setup.
  assert (G : forall l s, kinv s -> kinv (fold_left (fun s c => fst (register s c false)) l s)).
  { induction l as [|c l IHl]; intros s I; simpl; [exact I|].
    apply IHl. destruct (register s c false) as [s1 r1] eqn:E. simpl. eapply register_kinv; eassumption. }
  apply G. apply kinv_init.
Qed.

Theorem reachable_constants_nodup : forall fuel regs ops,
  NoDup (map fst (sm_flat (constants (run_top fuel (setup regs) ops)))).
Proof. intros. apply run_top_kinv. apply setup_kinv. Qed.

(* in every reachable state (any program, interactive mode included) the repaired
   clear_config(clear_constants=False) returns and keeps the constants' flat map *)
Theorem clear_keeps_constants_run : forall fuel regs ops,
  let s := run_top fuel (setup regs) ops in
  exists s', clear_config s false = (s', Ok tt) /\ sm_flat (constants s') = sm_flat (constants s) /\
    config s' = [] /\ operative s' = [] /\ singletons s' = [] /\ locked s' = false.
Proof.
  intros fuel regs ops s. destruct (clear_total s false) as [s' E]. exists s'.
  split; [exact E|]. split.
  - apply clear_keeps_constants; [apply reachable_constants_nodup|exact E].
  - destruct (clear_ok_pristine _ _ _ E) as (A1&A2&A3&A4&_). repeat split; assumption.
Qed.

Print Assumptions clear_keeps_constants_run.
Print Assumptions clear_orig_keeps_constants_run.
