(* END TO END: the characters of config_text (Model/ConfigText.v: the text gin.config_str() returns) are lexed
   (Model/Lexer.v) and parsed (Model/Parser.v: ConfigParser) into exactly the emitted bindings.
   1. token level: a stream made of trivia (COMMENT / NL) and flat bindings whose key tokens are the canonical
      [name_tokens], whose "=" and NEWLINE are any tokens of that kind, and whose value tokens agree in type and
      text with a rendering of a literal tree, is parsed into those bindings ([tk_parse_all])
   2. lexing one item: comment line, empty line, binding in both forms of format_binding
   3. lexing the whole text; the statements *)
From Coq Require Import List String ZArith Bool Arith Ascii Lia.
From GinV Require Import Lib.Out Lib.PyStr Model.Parser Model.ParserSpec Model.ParserSpec2 Model.Repr Model.ReprText.
From GinV Require Import Proofs.ParserLemmas Proofs.ParserSmall Proofs.ParserProofs Proofs.ParserSound Proofs.ParserApi.
From GinV Require Import Proofs.ParserSim Proofs.ReprProofs Proofs.StatementProofs.
From GinV Require Import Model.Lexer Proofs.LexerProofs Proofs.LexerParser Proofs.ReprTextProofs.
From GinV Require Import Model.SelectorMap Model.PPrint Proofs.PPrintProofs Model.Serial Model.ConfigText.
Import ListNotations.
Open Scope string_scope. Open Scope list_scope. Open Scope nat_scope.

(* ================================================================== *)
(* 1. token level *)
Inductive tkitem :=
| TKLead (toks : list token)
| TKBind (row : nat) (parts : list string) (eqt : token) (vtoks : list token) (nlt : token) (v : out).
Definition tk_tokens (it : tkitem) : list token :=
  match it with
  | TKLead toks => toks
  | TKBind row parts eqt vtoks nlt _ => name_tokens row 0 parts true ++ eqt :: vtoks ++ [nlt]
  end.
Definition tk_stmts (it : tkitem) : list stmt :=
  match it with
  | TKLead _ => []
  | TKBind row parts _ _ _ v => [let '(scope, sel, arg) := split_binding_key (name_text parts) in SBind scope sel arg v row]
  end.
Definition tk_ok (o : oracle) (it : tkitem) : Prop :=
  match it with
  | TKLead toks => Forall lead_tok toks
  | TKBind row parts eqt vtoks nlt v =>
      wf_name parts /\ ty eqt = OP /\ text eqt = "=" /\ ty nlt = NEWLINE /\
      exists lit lay n n' rtoks, lay_ok lay /\ lit_wf o lit /\ py_eval o lit = Some v /\
        render lit lay n false = (rtoks, n') /\ Forall tok_ok rtoks /\ spell rtoks = spell vtoks
  end.
Fixpoint tk_render (its : list tkitem) : list token :=
  match its with [] => [] | it :: r => tk_tokens it ++ tk_render r end.

Lemma spell_nosig : forall a b, spell a = spell b -> Forall nosig b -> Forall nosig a.
Proof.
  induction a as [|x a IH]; intros b E H; destruct b as [|y b]; try discriminate E; [constructor|].
  unfold spell in E. cbn [map] in E. injection E as E1 E2 E3. unfold tk in *.
  constructor; [|exact (IH b E3 (Forall_inv_tail H))]. destruct (Forall_inv H) as [N1 N2]. unfold nosig. rewrite E2. auto.
Qed.
Lemma tseq_refl : forall l, Forall nosig l -> tseq l l.
Proof. intros l H. induction H as [|x l [N1 N2] _ IH]; constructor; [repeat split; assumption | exact IH]. Qed.
Lemma lit_tok_nosig : forall o t, lit_tok o t -> nosig t.
Proof. intros o t [H1 [H2 _]]. split; assumption. Qed.

(* one binding statement on such tokens *)
Lemma tk_bind_step : forall o row parts eqt vtoks nlt v lead rest,
  tk_ok o (TKBind row parts eqt vtoks nlt v) -> Forall lead_tok lead ->
  Forall (lit_tok o) (vtoks ++ nlt :: rest) ->
  parse_statement o false (lead ++ tk_tokens (TKBind row parts eqt vtoks nlt v) ++ rest) =
  POk (Some (tk_stmts (TKBind row parts eqt vtoks nlt v), nlt :: rest, true)).
Proof.
  intros o row parts eqt vtoks nlt v lead rest [Hname [Heq1 [Heq2 [Hnl [lit [lay [n [n' [rtoks [Hlay [Hwf [Hev [Hr [Hok Hsp]]]]]]]]]]]]]] Hlead Hlit.
  destruct (wf_name_alt _ Hname) as [Hne [Hfmt Halt]].
  cbn [tk_tokens tk_stmts]. rewrite <- !app_assoc. cbn [app]. rewrite <- app_assoc. cbn [app].
  set (R := nlt :: rest) in *.
  destruct (name_tokens_head row 0 parts (eqt :: vtoks ++ R) Hne) as [t0 [r0 [E0 [Hty0 Hrow0]]]].
  (* the value: completeness on the rendering, transferred to the real tokens, the rest by soundness *)
  assert (HnsR : Forall nosig (vtoks ++ R)) by (eapply Forall_impl; [|exact Hlit]; intros t Ht; exact (lit_tok_nosig o t Ht)).
  apply Forall_app in HnsR. destruct HnsR as [Hnsv HnsR].
  assert (Hseq : tseq (rtoks ++ R) (vtoks ++ R)).
  { apply Forall2_app; [|exact (tseq_refl R HnsR)]. apply spell_tseq; [exact Hsp | exact (spell_nosig _ _ Hsp Hnsv)]. }
  assert (Hcan : parse_value (value_fuel (rtoks ++ R)) o false (rtoks ++ R) = POk (v, R)).
  { apply (C02_value_fuel o lit false lay n false v rtoks n' [] R); try assumption; [constructor | discriminate|].
    intros t r' E. injection E as <- <-. right. left. exact Hnl. }
  assert (Hval : parse_value (value_fuel (vtoks ++ R)) o false (vtoks ++ R) = POk (v, R)).
  { pose proof (parse_value_sim o false (value_fuel (rtoks ++ R)) _ _ Hseq) as Hs. rewrite Hcan in Hs.
    unfold value_fuel in *. rewrite <- (tseq_length _ _ Hseq).
    destruct (parse_value (S (S (List.length (rtoks ++ R)))) o false (vtoks ++ R)) as [[v' R']|e] eqn:Ev; cbn [rsim] in Hs; [|contradiction].
    destruct Hs as [Ev1 Hs]. cbn [fst snd] in Ev1, Hs. subst v'.
    destruct (C02_sound_gen _ o false _ _ _ 0 Ev Hlit) as [l0 [lay0 [n0 [toks0 [used [_ [_ [E [_ _]]]]]]]]].
    assert (EL : List.length used = List.length vtoks).
    { pose proof (f_equal (@List.length token) E) as EE. rewrite !app_length in EE. pose proof (tseq_length _ _ Hs). lia. }
    assert (Eu : used = vtoks /\ R' = R).
    { clear -E EL. revert vtoks E EL. induction used as [|a u IH]; intros [|b w] E EL; cbn [List.length] in EL; try discriminate.
      - cbn [app] in E. auto.
      - cbn [app] in E. injection E as -> E. destruct (IH w E ltac:(lia)) as [-> ->]. auto. }
    destruct Eu as [_ ->]. reflexivity. }
  destruct (render_first _ _ _ _ _ _ _ Hwf Hr Hok) as [v0 [vt' [Evr Hstart]]].
  assert (Hv0 : exists w0 wt, vtoks = w0 :: wt /\ solid w0).
  { subst rtoks. destruct vtoks as [|w0 wt]; [discriminate Hsp|]. exists w0, wt. split; [reflexivity|].
    unfold spell in Hsp. cbn [map] in Hsp. injection Hsp as E1 _ _. unfold tk in E1. pose proof (start_solid _ Hstart) as Hso.
    unfold solid in *. rewrite <- E1. exact Hso. }
  destruct Hv0 as [w0 [wt [Ew Hw0]]].
  pose proof (parse_statement_bind_core o
    (lead ++ name_tokens row 0 parts true ++ eqt :: vtoks ++ R)
    (name_tokens row 0 parts true ++ eqt :: vtoks ++ R)
    (name_text parts) (eqt :: vtoks ++ R) (vtoks ++ R) v R) as Hcore.
  rewrite Hcore; clear Hcore.
  - rewrite E0. cbn [cur hd]. rewrite Hrow0. unfold R. cbn [cur_ty cur hd]. unfold cur_ty. cbn [cur hd]. rewrite Hnl. reflexivity.
  - rewrite E0. apply skip_ws_lead; [exact Hlead | rewrite Hty0; reflexivity | rewrite Hty0; discriminate | rewrite Hty0; discriminate].
  - rewrite E0. unfold cur_ty. cbn [cur hd]. rewrite Hty0. reflexivity.
  - apply parse_selector_name_gen; try assumption.
    exists eqt, (vtoks ++ R). split; [reflexivity|]. rewrite Heq2, Heq1. repeat split; try discriminate.
  - unfold cur_is. cbn [cur hd]. rewrite Heq2. reflexivity.
  - rewrite Ew. cbn [app]. apply advance_one_solid. exact Hw0.
  - exact Hval.
  - unfold R. cbn [cur hd]. rewrite Hnl. reflexivity.
Qed.

Lemma tk_bind_settle : forall row parts eqt vtoks nlt v lead rest, wf_name parts -> Forall lead_tok lead ->
  settle (lead ++ tk_tokens (TKBind row parts eqt vtoks nlt v) ++ rest) =
  POk (lead ++ tk_tokens (TKBind row parts eqt vtoks nlt v) ++ rest).
Proof.
  intros row parts eqt vtoks nlt v lead rest Hname Hlead. destruct (wf_name_alt _ Hname) as [Hne _].
  cbn [tk_tokens]. rewrite <- !app_assoc.
  destruct (name_tokens_head row 0 parts ((eqt :: vtoks ++ [nlt]) ++ rest) Hne) as [t0 [r0 [E0 [Hty0 _]]]].
  rewrite E0. apply settle_lead; [exact Hlead | rewrite Hty0; discriminate | rewrite Hty0; discriminate].
Qed.

Definition pend (pending : bool) (prev : token) (s : list token) : list token := if pending then prev :: s else s.
Lemma parse_statement_pend : forall o pending prev ts, settle ts = POk ts ->
  parse_statement o pending (pend pending prev ts) = parse_statement o false ts.
Proof. intros o [|] prev ts H; [apply parse_statement_pending; exact H | reflexivity]. Qed.

Theorem tk_parse_all : forall o eof, ty eof = ENDMARKER ->
  forall its, Forall (tk_ok o) its -> forall lead pending prev acc fuel,
  Forall lead_tok lead -> Forall (lit_tok o) (tk_render its ++ [eof]) -> List.length its < fuel ->
  parse_all fuel o pending (pend pending prev (lead ++ tk_render its ++ [eof])) acc = (acc ++ flat_map tk_stmts its, None).
Proof.
  intros o eof He. induction its as [|it t IH]; intros Hits lead pending prev acc fuel Hlead Hlit Hfuel.
  - destruct fuel as [|f]; [lia|]. rewrite parse_all_S. cbn [tk_render app].
    rewrite parse_statement_pend; [|apply settle_lead; [exact Hlead | rewrite He; discriminate | rewrite He; discriminate]].
    rewrite parse_statement_eof; try assumption. cbn [flat_map]. rewrite app_nil_r. reflexivity.
  - pose proof (Forall_inv Hits) as Hit. cbn [tk_render] in *. destruct it as [toks|row parts eqt vtoks nlt v].
    + cbn [tk_tokens tk_stmts flat_map app] in *. rewrite <- app_assoc in Hlit. rewrite <- app_assoc, app_assoc.
      apply IH; [exact (Forall_inv_tail Hits) | apply Forall_app; split; [exact Hlead | exact Hit]
                 | exact (proj2 (proj1 (Forall_app _ _ _) Hlit)) | cbn [List.length] in Hfuel; lia].
    + destruct fuel as [|f]; [lia|]. rewrite parse_all_S. rewrite <- app_assoc.
      rewrite parse_statement_pend; [|apply tk_bind_settle; [exact (proj1 Hit) | exact Hlead]].
      assert (Hlit2 : Forall (lit_tok o) (vtoks ++ nlt :: tk_render t ++ [eof])).
      { cbn [tk_tokens] in Hlit. rewrite <- !app_assoc in Hlit. apply Forall_app in Hlit. destruct Hlit as [_ Hlit].
        cbn [app] in Hlit. apply Forall_inv_tail in Hlit. rewrite <- app_assoc in Hlit. exact Hlit. }
      rewrite (tk_bind_step o row parts eqt vtoks nlt v lead _ Hit Hlead Hlit2).
      change (nlt :: tk_render t ++ [eof]) with (pend true nlt ([] ++ tk_render t ++ [eof])).
      rewrite IH; [| exact (Forall_inv_tail Hits) | constructor | | cbn [List.length] in Hfuel; lia].
      * cbn [flat_map]. rewrite <- app_assoc. reflexivity.
      * apply Forall_app in Hlit2. destruct Hlit2 as [_ H2]. exact (Forall_inv_tail H2).
Qed.

(* ================================================================== *)
(* 2. lexing one item *)
Open Scope char_scope. Open Scope list_scope. Open Scope nat_scope.
(* the tokenizer at the beginning of line [row] / inside it, outside every bracket and block *)
Definition bol_st (row : nat) : lstate := {| lpos := (row, 0); atbol := true; stack := []; level := 0 |}.
Definition mid_st (row col : nat) : lstate := {| lpos := (row, col); atbol := false; stack := []; level := 0 |}.

Lemma Steps_consumed : forall imp st l toks st' l', Steps imp st l toks st' l' ->
  exists c, l = c ++ l' /\ lpos st' = pos_after (lpos st) c.
Proof.
  intros imp st l toks st' l' H. induction H as [|st l e st1 l1 toks st2 l2 E H IH]; [exists []; auto|].
  pose proof (step_Step imp st l) as HS. rewrite E in HS. destruct (Step_consumed _ _ _ _ _ _ HS) as [c [-> [Hp _]]].
  destruct IH as [c2 [-> Hp2]]. exists (c ++ c2). rewrite <- app_assoc. split; [reflexivity|].
  rewrite Hp2, Hp, pos_after_app. reflexivity.
Qed.
Lemma pos_after_nl_free : forall l p, nl_free l -> pos_after p l = (fst p, snd p + List.length l).
Proof.
  unfold nl_free. induction l as [|c l IH]; intros p H; cbn [pos_after List.length forallb] in *.
  - rewrite Nat.add_0_r. destruct p; reflexivity.
  - apply andb_true_iff in H. destruct H as [H1 H2]. unfold not_nl in H1. apply negb_true_iff in H1.
    rewrite (IH _ H2). unfold adv. rewrite H1. cbn [fst snd]. f_equal. lia.
Qed.
Fixpoint count_nl_chars (l : chars) : nat :=
  match l with [] => 0 | c :: r => (if Ascii.eqb c nl then 1 else 0) + count_nl_chars r end.
Lemma pos_after_row : forall l p, fst (pos_after p l) = fst p + count_nl_chars l.
Proof.
  induction l as [|c l IH]; intro p; cbn [pos_after count_nl_chars]; [lia|]. rewrite IH. unfold adv.
  destruct (Ascii.eqb c nl); cbn [fst]; lia.
Qed.
Lemma count_nl_cs : forall s, count_nl_chars (cs s) = count_nl s.
Proof. induction s as [|c s IH]; [reflexivity|]. cbn [cs list_ascii_of_string count_nl_chars count_nl]. fold (cs s). rewrite IH. reflexivity. Qed.
Lemma count_nl_chars_app : forall a b, count_nl_chars (a ++ b) = count_nl_chars a + count_nl_chars b.
Proof. induction a as [|c a IH]; intro b; cbn [app count_nl_chars]; [reflexivity|]. rewrite IH. lia. Qed.
Lemma length_cs : forall s, List.length (cs s) = String.length s.
Proof. induction s as [|c s IH]; [reflexivity|]. cbn [cs list_ascii_of_string List.length String.length]. f_equal. exact IH. Qed.
Lemma span_prefix : forall (p : ascii -> bool) a f r, forallb p a = true -> p f = false -> span p (a ++ f :: r) = (a, f :: r).
Proof.
  intros p. induction a as [|c a IH]; intros f r H Hf; cbn [app span forallb] in *; [rewrite Hf; reflexivity|].
  apply andb_true_iff in H. destruct H as [H1 H2]. rewrite H1, (IH f r H2 Hf). reflexivity.
Qed.

(* a comment line, an empty line *)
Lemma step_comment_line : forall row body r, nl_free body ->
  step false (bol_st row) ("#" :: body ++ nl :: r) =
  Next [mk COMMENT ("#" :: body) (row, 0); mk_nl NL false r (pos_after (row, 0) ("#" :: body))] (bol_st (S row)) r.
Proof.
  intros row body r H. unfold step, step_bol. cbn [atbol bol_st scan_indent]. change (is_space "#") with false.
  change (Ascii.eqb "#" "\") with false. cbv iota. cbn [pos_after lpos app]. cbv zeta.
  change (Ascii.eqb "#" nl) with false. rewrite Ascii.eqb_refl. cbv iota.
  change ("#" :: body ++ nl :: r) with (("#" :: body) ++ nl :: r).
  rewrite (span_prefix not_nl ("#" :: body) nl r); [|exact H | reflexivity].
  change (pos_after (adv (row, 0) "#") body) with (pos_after (row, 0) ("#" :: body)). change (lpos (bol_st row)) with (row, 0).
  rewrite (pos_after_nl_free ("#" :: body) (row, 0) H). reflexivity.
Qed.
Lemma step_blank_line : forall row r, step false (bol_st row) (nl :: r) = Next [mk_nl NL false r (row, 0)] (bol_st (S row)) r.
Proof. intros row r. reflexivity. Qed.
(* the first character of a binding key *)
Lemma step_bol_key : forall row c r, bol_plain c = true -> step false (bol_st row) (c :: r) = Next [] (mid_st row 0) (c :: r).
Proof.
  intros row c r H. destruct (bol_plain_tests c H) as [H1 [H2 [H3 H4]]].
  unfold step, step_bol. cbn [atbol bol_st scan_indent]. rewrite H1, H2. cbn [pos_after lpos app]. cbv zeta.
  rewrite H3, H4. reflexivity.
Qed.

(* character classes *)
Lemma word_not_quote : forall c, is_word c = true -> is_quote c = false.
Proof.
  intros c H. destruct (is_quote c) eqn:E; [|reflexivity]. unfold is_quote in E. apply orb_true_iff in E.
  destruct E as [E|E]; apply Ascii.eqb_eq in E; subst c; discriminate H.
Qed.
Lemma alpha_word : forall c, is_alpha_ c = true -> is_word c = true.
Proof. intros c H. unfold is_word. rewrite H. reflexivity. Qed.
Lemma not_word_prefix : forall c, is_word c = false -> is_b c = false /\ is_r c = false /\ is_u c = false.
Proof.
  intros c H. unfold is_b, is_r, is_u, either. repeat split;
    (destruct (Ascii.eqb c _ || Ascii.eqb c _) eqn:E; [|reflexivity]); apply orb_true_iff in E;
    destruct E as [E|E]; apply Ascii.eqb_eq in E; subst c; discriminate H.
Qed.
Lemma alpha_tests : forall c, is_alpha_ c = true ->
  Ascii.eqb c "/" = false /\ Ascii.eqb c "=" = false /\ Ascii.eqb c "." = false /\ is_digit c = false /\ bol_plain c = true.
Proof.
  intros c H. repeat split; try (destruct (Ascii.eqb c _) eqn:E; [apply Ascii.eqb_eq in E; subst c; discriminate H | reflexivity]).
  - destruct (is_digit c) eqn:E; [|reflexivity]. exfalso. unfold is_digit in E. unfold is_alpha_ in H.
    apply andb_true_iff in E. destruct E as [E1 E2]. apply Nat.leb_le in E1, E2.
    repeat (apply orb_true_iff in H; destruct H as [H|H]);
      try (apply andb_true_iff in H; destruct H as [H3 H4]; apply Nat.leb_le in H3, H4; lia).
    apply Nat.eqb_eq in H. lia.
  - unfold bol_plain, is_space.
    destruct (Ascii.eqb c " ") eqn:E1; [apply Ascii.eqb_eq in E1; subst c; discriminate H|].
    destruct (Ascii.eqb c "\") eqn:E2; [apply Ascii.eqb_eq in E2; subst c; discriminate H|].
    destruct (Ascii.eqb c nl) eqn:E3; [apply Ascii.eqb_eq in E3; subst c; discriminate H|].
    destruct (Ascii.eqb c "#") eqn:E4; [apply Ascii.eqb_eq in E4; subst c; discriminate H|]. reflexivity.
Qed.
Lemma word_not_nl : forall c, is_word c = true -> not_nl c = true.
Proof. intros c H. unfold not_nl. destruct (Ascii.eqb c nl) eqn:E; [apply Ascii.eqb_eq in E; subst c; discriminate H | reflexivity]. Qed.

(* an identifier in front of a character that is neither a word character nor a quote *)
Definition ident_chars (w : chars) : Prop := exists c r, w = c :: r /\ is_alpha_ c = true /\ forallb is_word w = true.
Lemma string_prefix_word : forall w f rest, w <> [] -> forallb is_word w = true -> is_word f = false -> is_quote f = false ->
  string_prefix (w ++ f :: rest) = None.
Proof.
  intros w f rest Hne Hw Hf Hq. destruct (not_word_prefix f Hf) as [Fb [Fr Fu]].
  destruct w as [|a [|q w']]; [congruence | |].
  - cbn [app string_prefix]. unfold string_prefix. rewrite Hq. destruct rest as [|q2 r']; [reflexivity|].
    rewrite Fb, Fr, !andb_false_r. reflexivity.
  - cbn [forallb] in Hw. apply andb_true_iff in Hw. destruct Hw as [_ Hw]. apply andb_true_iff in Hw. destruct Hw as [Hq1 Hw].
    cbn [app]. unfold string_prefix. rewrite (word_not_quote q Hq1).
    destruct w' as [|q2 w'']; cbn [app].
    + rewrite Hq. reflexivity.
    + cbn [forallb] in Hw. apply andb_true_iff in Hw. rewrite (word_not_quote q2 (proj1 Hw)). reflexivity.
Qed.
Lemma step_ident : forall st w f rest, atbol st = false -> ident_chars w -> is_word f = false -> is_quote f = false ->
  step false st (w ++ f :: rest) = Next [mk NAME w (lpos st)] (move st (pos_after (lpos st) w) false) (f :: rest).
Proof.
  intros st w f rest Hb [c [r [-> [Hc Hw]]]] Hf Hq. unfold step. rewrite Hb. cbn [app].
  assert (Ha : atom_start c (r ++ f :: rest) = true) by (unfold atom_start; rewrite Hc; reflexivity).
  change (step_tok false st (c :: r ++ f :: rest)) with (step_tok false st ([] ++ c :: r ++ f :: rest)).
  rewrite (step_tok_atom false st [] c (r ++ f :: rest) (Forall_nil _) Ha).
  unfold scan_atom. rewrite Hc.
  change (c :: r ++ f :: rest) with ((c :: r) ++ f :: rest).
  rewrite (string_prefix_word (c :: r) f rest ltac:(discriminate) Hw Hf Hq), (span_prefix is_word (c :: r) f rest Hw Hf).
  reflexivity.
Qed.
(* a separator of the key in front of the next identifier *)
Lemma step_sep : forall st c a r, atbol st = false -> c = "/" \/ c = "." -> is_alpha_ a = true -> r <> [] ->
  step false st (c :: a :: r) =
  Next [mk OP [c] (lpos st)] {| lpos := pos_after (lpos st) [c]; atbol := false; stack := stack st; level := level st |} (a :: r).
Proof.
  intros st c a r Hb Hc Ha Hr. destruct (alpha_tests a Ha) as [A1 [A2 [A3 [A4 _]]]].
  destruct r as [|b r']; [congruence|].
  unfold step. rewrite Hb. destruct Hc as [-> | ->].
  - change (step_tok false st ("/" :: a :: b :: r')) with (step_tok false st ([] ++ "/" :: a :: b :: r')).
    rewrite (step_tok_op false st [] "/" (a :: b :: r') (Forall_nil _) eq_refl).
    assert (E : scan_op ("/" :: a :: b :: r') = Some (["/"], a :: b :: r')).
    { unfold scan_op, in_table, ops3, ops2, ops1.
      cbn [existsb string_of_list_ascii String.eqb Ascii.eqb Bool.eqb andb orb]. rewrite ?A1, ?A2. reflexivity. }
    rewrite E. reflexivity.
  - unfold step_tok. cbn [span]. change (is_space ".") with false. cbv iota zeta. cbn [pos_after].
    change (Ascii.eqb "." "#") with false. change (Ascii.eqb "." nl) with false. change (is_alpha_ ".") with false.
    change (is_digit ".") with false. rewrite Ascii.eqb_refl, A4. cbn [orb andb].
    change (is_quote ".") with false. change (Ascii.eqb "." "\") with false. cbv iota.
    assert (E : scan_op ("." :: a :: b :: r') = Some (["."], a :: b :: r')).
    { unfold scan_op, in_table, ops3, ops2, ops1.
      cbn [existsb string_of_list_ascii String.eqb Ascii.eqb Bool.eqb andb orb]. rewrite ?A3. reflexivity. }
    rewrite E. reflexivity.
Qed.
(* " = " *)
Lemma step_eq : forall st x X, atbol st = false ->
  step false st (" " :: "=" :: " " :: x :: X) =
  Next [mk OP ["="] (pos_after (lpos st) [" "])]
       {| lpos := pos_after (pos_after (lpos st) [" "]) ["="]; atbol := false; stack := stack st; level := level st |} (" " :: x :: X).
Proof.
  intros st x X Hb. unfold step. rewrite Hb.
  change (step_tok false st (" " :: "=" :: " " :: x :: X)) with (step_tok false st ([" "] ++ "=" :: " " :: x :: X)).
  rewrite (step_tok_op false st [" "] "=" (" " :: x :: X) ltac:(repeat constructor) eq_refl). reflexivity.
Qed.

(* the key *)
Lemma cs_concat : forall l, cs (concat_strs l) = flat_map cs l.
Proof. induction l as [|x l IH]; [reflexivity|]. cbn [concat_strs flat_map]. rewrite cs_app, IH. reflexivity. Qed.
Lemma key_parts_concat : forall s, concat_strs (key_parts s) = s.
Proof.
  induction s as [|c s IH]; [reflexivity|]. cbn [key_parts]. destruct (Ascii.eqb c slash || Ascii.eqb c dot).
  - cbn [concat_strs String.append]. rewrite IH. reflexivity.
  - destruct (key_parts s) as [|p q]; cbn [concat_strs String.append] in *; rewrite <- IH; reflexivity.
Qed.
Lemma all_chars_forallb : forall f s, all_chars f s = forallb f (cs s).
Proof. intros f. induction s as [|c s IH]; [reflexivity|]. cbn [all_chars cs list_ascii_of_string forallb]. fold (cs s). rewrite IH. reflexivity. Qed.
Lemma ident_cs : forall p, is_identifier p = true -> ident_chars (cs p).
Proof.
  intros [|c r] H; [discriminate|]. cbn [is_identifier] in H. apply andb_true_iff in H. destruct H as [H1 H2].
  exists c, (cs r). split; [reflexivity|]. split; [exact H1|]. cbn [cs list_ascii_of_string forallb]. fold (cs r).
  rewrite (alpha_word c H1), <- all_chars_forallb, H2. reflexivity.
Qed.
Lemma word_nl_free : forall w, forallb is_word w = true -> nl_free w.
Proof.
  unfold nl_free. induction w as [|c w IH]; intro H; [reflexivity|]. cbn [forallb] in *. apply andb_true_iff in H.
  destruct H as [H1 H2]. rewrite (word_not_nl c H1), (IH H2). reflexivity.
Qed.

Lemma lex_key : forall parts b row col rest', alt_ok parts b ->
  Steps false (mid_st row col) (flat_map cs parts ++ " " :: rest') (name_tokens row col parts b)
        (mid_st row (col + List.length (flat_map cs parts))) (" " :: rest').
Proof.
  induction parts as [|p r IH]; intros b row col rest' Halt.
  - cbn [flat_map app name_tokens List.length]. rewrite Nat.add_0_r. apply Steps_refl.
  - cbn [alt_ok] in Halt. destruct Halt as [Hp Hr]. rewrite name_tokens_cons. cbn [flat_map]. rewrite <- app_assoc.
    change ({| ty := if b then NAME else OP; text := p; srow := row; scol := col; erow := row; ecol := col + String.length p |}
            :: name_tokens row (col + String.length p) r (negb b))
      with ([{| ty := if b then NAME else OP; text := p; srow := row; scol := col; erow := row; ecol := col + String.length p |}]
            ++ name_tokens row (col + String.length p) r (negb b)).
    replace (col + List.length (cs p ++ flat_map cs r)) with ((col + String.length p) + List.length (flat_map cs r))
      by (rewrite app_length, length_cs; lia).
    eapply Steps_trans; [|exact (IH (negb b) row (col + String.length p) rest' Hr)].
    apply Steps_one. destruct b.
    + (* an identifier *)
      destruct (ident_cs p Hp) as [c [w [Ew [Hc Hw]]]].
      assert (Hfol : exists f X, flat_map cs r ++ " " :: rest' = f :: X /\ is_word f = false /\ is_quote f = false).
      { destruct r as [|s r']; [exists " ", rest'; repeat split; reflexivity|].
        cbn [alt_ok negb] in Hr. destruct Hr as [[-> | ->] _]; cbn [flat_map cs list_ascii_of_string app];
          eexists _, _; repeat split; reflexivity. }
      destruct Hfol as [f [X [EX [Hf Hq]]]]. rewrite EX.
      rewrite (step_ident (mid_st row col) (cs p) f X eq_refl (ident_cs p Hp) Hf Hq).
      cbn [lpos mid_st]. unfold mk, move.
      rewrite (pos_after_nl_free (cs p) (row, col)) by (apply word_nl_free; exact Hw).
      cbn [fst snd lpos stack level mid_st]. unfold cs at 1. rewrite string_of_chars_text, length_cs. reflexivity.
    + (* a separator: the next part is an identifier *)
      destruct r as [|q r']; [cbn [alt_ok negb] in Hr; discriminate|].
      cbn [alt_ok negb] in Hr. destruct Hr as [Hq _]. destruct (ident_cs q Hq) as [a [w [Ew [Ha _]]]].
      cbn [flat_map]. rewrite Ew. rewrite <- app_assoc. cbn [app].
      assert (Hne : w ++ flat_map cs r' ++ " " :: rest' <> []) by (intro E; apply app_eq_nil in E; destruct E as [_ E]; apply app_eq_nil in E; destruct E; discriminate).
      destruct Hp as [-> | ->]; cbn [cs list_ascii_of_string app].
      * rewrite (step_sep (mid_st row col) "/" a _ eq_refl (or_introl eq_refl) Ha Hne). cbn [lpos mid_st stack level String.length].
        unfold mk. cbn [pos_after adv fst snd string_of_list_ascii]. change (Ascii.eqb "/" nl) with false. cbv iota. cbn [fst snd].
        rewrite Nat.add_1_r. reflexivity.
      * rewrite (step_sep (mid_st row col) "." a _ eq_refl (or_intror eq_refl) Ha Hne). cbn [lpos mid_st stack level String.length].
        unfold mk. cbn [pos_after adv fst snd string_of_list_ascii]. change (Ascii.eqb "." nl) with false. cbv iota. cbn [fst snd].
        rewrite Nat.add_1_r. reflexivity.
Qed.

(* the end of a logical line; a backslash continuation *)
Lemma step_newline0 : forall st R, atbol st = false -> level st = 0 ->
  step false st (nl :: R) = Next [mk_nl NEWLINE false R (lpos st)] (move st (next_line (lpos st)) true) R.
Proof.
  intros st R Hb Hl. unfold step. rewrite Hb. unfold step_tok. cbn [span]. change (is_space nl) with false. cbv iota zeta.
  cbn [pos_after]. change (Ascii.eqb nl "#") with false. rewrite Ascii.eqb_refl. cbv iota. rewrite Hl. reflexivity.
Qed.
Lemma step_cont : forall st c r, atbol st = false ->
  step false st (" " :: "\" :: nl :: c :: r) = Next [] (move st (next_line (pos_after (lpos st) [" "])) false) (c :: r).
Proof. intros st c r Hb. unfold step. rewrite Hb. reflexivity. Qed.

(* what the parser theorems ask of every token: no sigil, and the oracle gives no value to "-" + a string literal *)
Definition Qtk (o : oracle) (p : ttype * string) : Prop :=
  snd p <> "@"%string /\ snd p <> "%"%string /\
  (fst p = STRING -> forall w, olookup o ("-" ++ snd p)%string <> Some (Some w)).
Definition Qtok (o : oracle) (t : token) : Prop := Qtk o (tk t).
Lemma spell_Q : forall o a b, spell a = spell b -> Forall (Qtok o) b -> Forall (Qtok o) a.
Proof.
  intros o a b E H. unfold Qtok in *. apply Forall_map. apply Forall_map in H. unfold spell in E. rewrite E. exact H.
Qed.
Lemma Qtok_not_string : forall o t, ty t <> STRING -> text t <> "@"%string -> text t <> "%"%string -> Qtok o t.
Proof. intros o t H1 H2 H3. unfold Qtok, Qtk, tk. cbn [fst snd]. repeat split; try assumption. intro E. contradiction. Qed.
Definition str_neg_ok (o : oracle) (v : pv) : Prop :=
  Forall (fun t => ty t = STRING -> forall w, olookup o ("-" ++ text t)%string <> Some (Some w)) (pv_atoms v).

Lemma value_tokens : forall o v V ts sl x, PP (FV v) V ts sl ->
  atoms_ok o v -> denote o v = Some x -> Forall atom_lexable (pv_atoms v) -> str_neg_ok o v ->
  lexes_as V ts (pv_depth v) /\ Forall (Qtok o) ts /\
  (exists lit lay n n', lay_ok lay /\ lit_wf o lit /\ py_eval o lit = Some x /\ render lit lay n false = (ts, n') /\ Forall tok_ok ts) /\
  exists c0 r0, V = c0 :: r0.
Proof.
  intros o v V ts sl x HPP Hok Hden Hat Hneg.
  assert (Hsc : Forall atom_scans (pv_atoms v)) by (eapply Forall_impl; [|exact Hat]; exact atom_lexable_scans).
  split; [exact (PP_lex _ _ _ _ HPP Hsc)|]. split; [|split].
  - apply (PP_toks_Forall (Qtok o)) with (f := FV v) (c := V) (sl := sl); [| |exact HPP|].
    + intros s Hp. apply Qtok_not_string; cbn [op_tok ty text]; [discriminate | |];
        unfold punct in Hp; cbn [In] in Hp; decompose [or] Hp; try contradiction; subst s; discriminate.
    + apply Qtok_not_string; cbn [nl_tok ty text]; discriminate.
    + cbn [frag_atoms]. unfold str_neg_ok in Hneg. rewrite Forall_forall in *. intros t Ht.
      destruct (atom_scans_tok_ok t (Hsc t Ht)) as [_ [N1 N2]]. unfold Qtok, Qtk, tk. cbn [fst snd]. repeat split; try assumption.
      exact (Hneg t Ht).
  - pose proof (PP_slots _ _ _ _ HPP) as Hsl.
    exists (lit_of v), (lay_of sl), 0, (0 + List.length sl).
    split; [intro k; apply slot_ok_trivia, lay_of_slot; exact Hsl|]. split; [exact (value_wf o v Hok)|]. split; [exact Hden|].
    split; [exact (PP_render _ _ _ _ HPP (lay_of sl) 0 (lay_of_window sl) false)|].
    apply (PP_toks_Forall tok_ok) with (f := FV v) (c := V) (sl := sl); [intros s _; apply op_tok_ok | | exact HPP |].
    + intros [C|[C|C]]; discriminate C.
    + cbn [frag_atoms]. eapply Forall_impl; [|exact Hsc]. intros t Ht. exact (proj1 (atom_scans_tok_ok t Ht)).
  - destruct (PP_first _ _ _ _ HPP Hsc I) as [c0 [r0 [E _]]]. exists c0, r0. exact E.
Qed.

(* one binding, as format_binding writes it *)
Definition bind_ok (o : oracle) (key : string) (v : pv) : Prop :=
  wf_name (key_parts key) /\ atoms_ok o v /\ Forall atom_lexable (pv_atoms v) /\ Forall nl_free_atom (pv_atoms v) /\
  pv_depth v <= 200 /\ str_neg_ok o v.

Lemma key_first : forall parts, wf_name parts -> exists c0 K, flat_map cs parts = c0 :: K /\ is_alpha_ c0 = true.
Proof.
  intros parts H. destruct (wf_name_alt _ H) as [Hne [_ Halt]]. destruct parts as [|p r]; [congruence|].
  cbn [alt_ok] in Halt. destruct Halt as [Hp _]. destruct (ident_cs p Hp) as [c [w [Ew [Hc _]]]].
  cbn [flat_map]. rewrite Ew. cbn [app]. eexists _, _. split; [reflexivity | exact Hc].
Qed.

Lemma Qtok_name_tokens : forall o parts b row col, alt_ok parts b -> Forall (Qtok o) (name_tokens row col parts b).
Proof.
  intros o. induction parts as [|p r IH]; intros b row col H; [constructor|]. cbn [alt_ok] in H. destruct H as [Hp Hr].
  rewrite name_tokens_cons. constructor; [|exact (IH _ _ _ Hr)].
  destruct b; apply Qtok_not_string; cbn [ty text]; try discriminate.
  - destruct p as [|c s]; [discriminate Hp|]. cbn [is_identifier] in Hp. apply andb_true_iff in Hp. destruct Hp as [Hc _].
    intro E. injection E as -> _. discriminate Hc.
  - destruct p as [|c s]; [discriminate Hp|]. cbn [is_identifier] in Hp. apply andb_true_iff in Hp. destruct Hp as [Hc _].
    intro E. injection E as -> _. discriminate Hc.
  - destruct Hp as [-> | ->]; discriminate.
  - destruct Hp as [-> | ->]; discriminate.
Qed.

Lemma same_frame_mid : forall st row col, same_frame (mid_st row col) st -> atbol st = false /\ level st = 0 /\ stack st = [].
Proof. intros st row col [H1 [H2 H3]]. auto. Qed.

(* from the "=" on: the blank, the value [V] behind [pre] (nothing, or the continuation), the end of the line *)
Lemma lex_bind_gen : forall o v V ts sl x row parts k (cont : bool) R,
  PP (FV v) V ts sl -> atoms_ok o v -> denote o v = Some x -> Forall atom_lexable (pv_atoms v) -> pv_depth v <= 200 ->
  str_neg_ok o v -> wf_name parts ->
  let text := flat_map cs parts ++ [" "; "="] ++ (if cont then [" "; "\"; nl] ++ repeat " " k else [" "]) ++ V in
  exists eqt vtoks nlt,
    tk_ok o (TKBind row parts eqt vtoks nlt x) /\ Forall (Qtok o) (tk_tokens (TKBind row parts eqt vtoks nlt x)) /\
    Steps false (bol_st row) (text ++ nl :: R) (tk_tokens (TKBind row parts eqt vtoks nlt x))
          (bol_st (S (row + count_nl_chars text))) R.
Proof.
  intros o v V ts sl x row parts k cont R HPP Hok Hden Hat Hd Hneg Hname text.
  destruct (value_tokens o v V ts sl x HPP Hok Hden Hat Hneg) as [Hlex [HQ [Hrend [v0 [V' EV]]]]].
  destruct (wf_name_alt _ Hname) as [_ [_ Halt]]. destruct (key_first parts Hname) as [c0 [K [EK Hc0]]].
  destruct (alpha_tests c0 Hc0) as [_ [_ [_ [_ Hbp]]]].
  set (tail := (if cont then [" "; "\"; nl] ++ repeat " " k else [" "]) ++ V ++ nl :: R).
  assert (Etext : text ++ nl :: R = flat_map cs parts ++ " " :: "=" :: tail).
  { unfold text, tail. rewrite <- !app_assoc. reflexivity. }
  (* 1. start of the line, 2. the key, 3. "=" *)
  assert (S1 : Steps false (bol_st row) (text ++ nl :: R) [] (mid_st row 0) (text ++ nl :: R)).
  { apply Steps_one. rewrite Etext, EK. cbn [app]. exact (step_bol_key row c0 _ Hbp). }
  pose proof (lex_key parts true row 0 ("=" :: tail) Halt) as S2. rewrite <- Etext in S2.
  set (st2 := mid_st row (0 + List.length (flat_map cs parts))) in *.
  assert (Htail : exists x0 X0, tail = " " :: x0 :: X0).
  { unfold tail. destruct cont; [eexists _, _; reflexivity|]. rewrite EV. eexists _, _. reflexivity. }
  destruct Htail as [x0 [X0 Etail]].
  pose proof (step_eq st2 x0 X0 eq_refl) as S3. rewrite <- Etail in S3.
  set (eqt := mk OP ["="] (pos_after (lpos st2) [" "])) in *.
  set (st3 := {| lpos := pos_after (pos_after (lpos st2) [" "]) ["="]; atbol := false; stack := stack st2; level := level st2 |}) in *.
  (* 4. the value *)
  assert (S4 : exists vtoks st4, Steps false st3 tail vtoks st4 (nl :: R) /\ spell vtoks = spell ts /\
                                 atbol st4 = false /\ level st4 = 0 /\ stack st4 = []).
  { unfold tail. destruct cont.
    - assert (Hne : exists c1 r1, repeat " " k ++ V ++ nl :: R = c1 :: r1).
      { destruct k as [|k']; [rewrite EV; eexists _, _; reflexivity | eexists _, _; reflexivity]. }
      destruct Hne as [c1 [r1 E1]].
      pose proof (step_cont st3 c1 r1 eq_refl) as Sc. rewrite <- E1 in Sc.
      set (st3' := move st3 (next_line (pos_after (lpos st3) [" "])) false) in *.
      destruct (Hlex false st3' (repeat " " k) (nl :: R) eq_refl) as [vtoks [st4 [Sv [Sp [B4 [L4 K4]]]]]].
      { clear. induction k; constructor; [reflexivity | assumption]. }
      { cbn [level st3' move st3 st2 mid_st]. unfold MAXLEVEL. lia. }
      { exact (follows_cons nl R eq_refl). }
      exists vtoks, st4. split; [|split; [exact Sp | split; [exact B4 | split; [rewrite L4; reflexivity | rewrite K4; reflexivity]]]].
      change vtoks with ([] ++ vtoks). eapply Steps_step; [|exact Sv]. rewrite <- !app_assoc. cbn [app]. exact Sc.
    - destruct (Hlex false st3 [" "] (nl :: R) eq_refl) as [vtoks [st4 [Sv [Sp [B4 [L4 K4]]]]]].
      { repeat constructor. }
      { cbn [level st3 st2 mid_st]. unfold MAXLEVEL. lia. }
      { exact (follows_cons nl R eq_refl). }
      exists vtoks, st4. split; [exact Sv|]. split; [exact Sp|]. split; [exact B4|]. split; [rewrite L4; reflexivity | rewrite K4; reflexivity]. }
  destruct S4 as [vtoks [st4 [S4 [Sp [B4 [L4 K4]]]]]].
  (* 5. the end of the line *)
  pose proof (step_newline0 st4 R B4 L4) as S5.
  set (nlt := mk_nl NEWLINE false R (lpos st4)) in *.
  set (st5 := move st4 (next_line (lpos st4)) true) in *.
  assert (SS : Steps false (bol_st row) (text ++ nl :: R) (name_tokens row 0 parts true ++ eqt :: vtoks ++ [nlt]) st5 R).
  { change (name_tokens row 0 parts true ++ eqt :: vtoks ++ [nlt]) with ([] ++ name_tokens row 0 parts true ++ [eqt] ++ vtoks ++ [nlt]).
    eapply Steps_trans; [exact S1|]. eapply Steps_trans; [exact S2|]. eapply Steps_step; [exact S3|].
    eapply Steps_trans; [exact S4|]. apply Steps_one. exact S5. }
  exists eqt, vtoks, nlt. split; [|split].
  - cbn [tk_ok]. split; [exact Hname|]. split; [reflexivity|]. split; [reflexivity|]. split; [reflexivity|].
    destruct Hrend as [lit [lay [n [n' [A1 [A2 [A3 [A4 A5]]]]]]]]. exists lit, lay, n, n', ts. repeat split; try assumption. symmetry. exact Sp.
  - cbn [tk_tokens]. apply Forall_app. split; [exact (Qtok_name_tokens o parts true row 0 Halt)|].
    constructor; [apply Qtok_not_string; cbn; discriminate|]. apply Forall_app. split; [exact (spell_Q o _ _ Sp HQ)|].
    constructor; [apply Qtok_not_string; cbn; discriminate | constructor].
  - cbn [tk_tokens].
    destruct (Steps_consumed _ _ _ _ _ _ SS) as [c [Ec Hpos]].
    assert (Ec2 : c = text ++ [nl]).
    { apply (app_inv_tail R). rewrite <- Ec, <- app_assoc. reflexivity. }
    subst c. cbn [lpos bol_st] in Hpos. rewrite pos_after_snoc_nl in Hpos.
    replace (bol_st (S (row + count_nl_chars text))) with st5; [exact SS|].
    unfold st5, move, bol_st. cbn [lpos] in Hpos. unfold st5, move in Hpos. cbn [lpos] in Hpos. rewrite Hpos, K4, L4.
    unfold next_line. rewrite pos_after_row. reflexivity.
Qed.

(* format_binding, as characters: the key, " =", then a blank and the value, or the continuation and the indented value *)
Lemma format_binding_shape : forall maxlen indent key v, Forall nl_free_atom (pv_atoms v) ->
  exists (cont : bool) V ts sl, PP (FV v) V ts sl /\
    cs (PPrint.format_binding maxlen indent key v) =
    cs key ++ [" "; "="] ++ (if cont then [" "; "\"; nl] ++ repeat " " indent else [" "]) ++ V.
Proof.
  intros maxlen indent key v Hnl. unfold PPrint.format_binding, pformat.
  destruct (pformat_at_PP (maxlen - indent) v 0 0) as [ts [sl HPP]].
  set (text := pformat_at (maxlen - indent) v 0 0) in *.
  destruct (negb (has_nl text) && (String.length key + String.length text <=? maxlen)).
  - exists false, (cs text), ts, sl. split; [exact HPP|]. rewrite !cs_app. reflexivity.
  - exists true, (indent_chars indent (cs text)), ts, sl. split; [exact (PP_indent indent _ _ _ _ HPP Hnl)|].
    unfold indent_lines. rewrite !cs_app, cs_blanks, cs_indent_lines_from. reflexivity.
Qed.

Definition item_ok (o : oracle) (it : citem) : Prop :=
  match it with
  | CComment s => exists body, cs s = "#" :: body /\ nl_free body
  | CBlank => True
  | CBind key v => bind_ok o key v
  end.
Lemma nl_free_count : forall l, nl_free l -> count_nl_chars l = 0.
Proof.
  unfold nl_free. induction l as [|c l IH]; intro H; [reflexivity|]. cbn [forallb count_nl_chars] in *.
  apply andb_true_iff in H. destruct H as [H1 H2]. unfold not_nl in H1. apply negb_true_iff in H1. rewrite H1, (IH H2). reflexivity.
Qed.

(* (b) ONE BINDING: the characters format_binding writes for key = value, standing on line [row] and followed by a
   newline, are lexed into the canonical name tokens of the key, an "=" token, value tokens that agree in type and text
   with a rendering of the value's literal tree, and the NEWLINE; the tokenizer is then at the start of the line after *)
Theorem binding_lexes : forall o maxlen indent key v row R, bind_ok o key v ->
  exists eqt vtoks nlt x, denote o v = Some x /\
    tk_ok o (TKBind row (key_parts key) eqt vtoks nlt x) /\
    Forall (Qtok o) (tk_tokens (TKBind row (key_parts key) eqt vtoks nlt x)) /\
    Steps false (bol_st row) (cs (PPrint.format_binding maxlen indent key v) ++ nl :: R)
          (name_tokens row 0 (key_parts key) true ++ eqt :: vtoks ++ [nlt])
          (bol_st (row + S (count_nl (PPrint.format_binding maxlen indent key v)))) R.
Proof.
  intros o maxlen indent key v row R [Hname [Hok [Hat [Hnl [Hd Hneg]]]]]. destruct (value_denotes o v Hok) as [x Hden].
  destruct (format_binding_shape maxlen indent key v Hnl) as [cont [V [ts [sl [HPP Ecs]]]]].
  destruct (lex_bind_gen o v V ts sl x row (key_parts key) indent cont R HPP Hok Hden Hat Hd Hneg Hname)
    as [eqt [vtoks [nlt [Hk [HQ HS]]]]].
  rewrite <- cs_concat in HS. unfold name_text in *. rewrite key_parts_concat in HS. rewrite <- Ecs in HS.
  exists eqt, vtoks, nlt, x. split; [exact Hden|]. split; [exact Hk|]. split; [exact HQ|].
  rewrite <- count_nl_cs, Nat.add_succ_r. exact HS.
Qed.

Lemma lex_item : forall o maxlen indent it row R, item_ok o it ->
  exists ti, tk_ok o ti /\ tk_stmts ti = item_stmts o it row /\ Forall (Qtok o) (tk_tokens ti) /\
    Steps false (bol_st row) (cs (item_text maxlen indent it) ++ nl :: R) (tk_tokens ti)
          (bol_st (row + item_lines maxlen indent it)) R.
Proof.
  intros o maxlen indent it row R Hit. unfold item_lines. rewrite <- count_nl_cs.
  destruct it as [s| |key v]; cbn [item_ok item_text item_stmts] in *.
  - destruct Hit as [body [Es Hb]]. rewrite Es.
    exists (TKLead [mk COMMENT ("#" :: body) (row, 0); mk_nl NL false R (pos_after (row, 0) ("#" :: body))]).
    cbn [tk_ok tk_stmts tk_tokens].
    split; [apply Forall_cons; [right; left; reflexivity|]; apply Forall_cons; [left; reflexivity | apply Forall_nil]|].
    split; [reflexivity|]. split.
    + apply Forall_cons; [|apply Forall_cons; [|apply Forall_nil]]; apply Qtok_not_string;
        cbn [mk mk_nl ty text string_of_list_ascii andb]; try discriminate; intro E; injection E as E1 _; discriminate E1.
    + rewrite (nl_free_count ("#" :: body) Hb), Nat.add_1_r. apply Steps_one. exact (step_comment_line row body R Hb).
  - exists (TKLead [mk_nl NL false R (row, 0)]). cbn [tk_ok tk_stmts tk_tokens].
    split; [apply Forall_cons; [left; reflexivity | apply Forall_nil]|]. split; [reflexivity|]. split.
    + apply Forall_cons; [|apply Forall_nil]. apply Qtok_not_string; cbn [mk_nl ty text andb]; discriminate.
    + cbn [cs list_ascii_of_string count_nl_chars app]. rewrite Nat.add_1_r. apply Steps_one. exact (step_blank_line row R).
  - destruct Hit as [Hname [Hok [Hat [Hnl [Hd Hneg]]]]]. destruct (value_denotes o v Hok) as [x Hden]. rewrite Hden.
    destruct (format_binding_shape maxlen indent key v Hnl) as [cont [V [ts [sl [HPP Ecs]]]]].
    destruct (lex_bind_gen o v V ts sl x row (key_parts key) indent cont R HPP Hok Hden Hat Hd Hneg Hname)
      as [eqt [vtoks [nlt [Hk [HQ HS]]]]].
    rewrite <- cs_concat in HS. unfold name_text in *. rewrite key_parts_concat in HS. rewrite <- Ecs in HS.
    exists (TKBind row (key_parts key) eqt vtoks nlt x). split; [exact Hk|]. split; [|split; [exact HQ|]].
    + cbn [tk_stmts]. unfold name_text. rewrite key_parts_concat. destruct (split_binding_key key) as [[sc se] ar]. reflexivity.
    + rewrite Nat.add_succ_r. exact HS.
Qed.

(* ================================================================== *)
(* 3. the whole text *)
Definition items_chars (maxlen indent : nat) (its : list citem) : chars :=
  flat_map (fun it => cs (item_text maxlen indent it) ++ [nl]) its.
Fixpoint items_lines (maxlen indent : nat) (its : list citem) : nat :=
  match its with [] => 0 | it :: r => item_lines maxlen indent it + items_lines maxlen indent r end.

Lemma lex_items : forall o maxlen indent its row R, Forall (item_ok o) its ->
  exists tis, Forall (tk_ok o) tis /\ flat_map tk_stmts tis = items_stmts o maxlen indent its row /\
    Forall (Qtok o) (tk_render tis) /\
    Steps false (bol_st row) (items_chars maxlen indent its ++ R) (tk_render tis) (bol_st (row + items_lines maxlen indent its)) R.
Proof.
  intros o maxlen indent. induction its as [|it r IH]; intros row R H.
  - exists []. cbn [items_chars flat_map app tk_render items_stmts items_lines]. rewrite Nat.add_0_r.
    repeat split; try constructor.
  - destruct (lex_item o maxlen indent it row (items_chars maxlen indent r ++ R) (Forall_inv H)) as [ti [H1 [H2 [H3 H4]]]].
    destruct (IH (row + item_lines maxlen indent it) R (Forall_inv_tail H)) as [tis [G1 [G2 [G3 G4]]]].
    exists (ti :: tis). split; [constructor; assumption|]. split; [|split].
    + cbn [flat_map items_stmts]. rewrite H2, G2. reflexivity.
    + cbn [tk_render]. apply Forall_app. split; assumption.
    + cbn [items_chars flat_map tk_render items_lines]. rewrite <- !app_assoc. cbn [app]. rewrite Nat.add_assoc.
      eapply Steps_trans; [exact H4 | exact G4].
Qed.

Lemma join_strs_cons2 : forall sep x y l, join_strs sep (x :: y :: l) = (x ++ sep ++ join_strs sep (y :: l))%string.
Proof. reflexivity. Qed.
Lemma cs_items_text : forall maxlen indent its,
  cs (items_text maxlen indent (its ++ [CBlank])) = items_chars maxlen indent its.
Proof.
  intros maxlen indent. unfold items_text. induction its as [|it r IH]; [reflexivity|].
  cbn [app map]. destruct (r ++ [CBlank]) as [|y l] eqn:E; [destruct r; discriminate|].
  cbn [map]. rewrite join_strs_cons2. cbn [map] in IH. rewrite !cs_app, IH. cbn [items_chars flat_map]. rewrite <- app_assoc. reflexivity.
Qed.
Lemma items_stmts_app_blank : forall o maxlen indent its row,
  items_stmts o maxlen indent (its ++ [CBlank]) row = items_stmts o maxlen indent its row.
Proof.
  intros o maxlen indent. induction its as [|it r IH]; intro row; cbn [app items_stmts item_stmts]; [reflexivity|].
  rewrite IH. reflexivity.
Qed.

Lemma needs_nl_items : forall maxlen indent its, needs_nl (items_chars maxlen indent its) = false.
Proof.
  intros maxlen indent its. destruct its as [|it r] using rev_ind; [reflexivity|].
  unfold items_chars. rewrite flat_map_app. cbn [flat_map]. rewrite app_nil_r, app_assoc.
  unfold needs_nl. destruct ((_ ++ _) ++ [nl]) eqn:E; [reflexivity|]. rewrite <- E, last_last, Ascii.eqb_refl. reflexivity.
Qed.

Open Scope string_scope.
Open Scope list_scope.
(* the characters of a text made of items (as config_str assembles them: the last element is the empty string) are
   lexed and parsed into exactly the bindings of the items, with their line numbers *)
Theorem items_text_reads_back : forall o maxlen indent its,
  Forall (item_ok o) its -> supported (items_text maxlen indent (its ++ [CBlank])) = true ->
  exists ts, lex (items_text maxlen indent (its ++ [CBlank])) = Some ts /\
    exists fuel0, forall fuel, fuel0 <= fuel ->
      parse_all fuel o false ts [] = (items_stmts o maxlen indent (its ++ [CBlank]) 1, None).
Proof.
  intros o maxlen indent its Hits Hs.
  destruct (lex_items o maxlen indent its 1 [] Hits) as [tis [G1 [G2 [G3 G4]]]]. rewrite app_nil_r in G4.
  set (L := items_chars maxlen indent its) in *. set (row := 1 + items_lines maxlen indent its) in *.
  assert (E4 : step false (bol_st row) [] = Next [] (mid_st row 0) []) by reflexivity.
  assert (E5 : step false (mid_st row 0) [] = Done [mk_empty ENDMARKER (row, 0)]) by reflexivity.
  assert (SS : Steps false init_state L (tk_render tis) (mid_st row 0) []).
  { rewrite <- (app_nil_r (tk_render tis)). eapply Steps_trans; [exact G4|]. apply Steps_one. exact E4. }
  destruct (Steps_run _ _ _ _ _ _ SS (2 * List.length L + 2)) as [fuel' [Hm Er]].
  { unfold measure. cbn [atbol init_state]. lia. }
  set (eof := mk_empty ENDMARKER (row, 0)) in *.
  assert (Elex : lex_chars L = tk_render tis ++ [eof]).
  { assert (En : needs_nl L = false) by apply needs_nl_items.
    unfold lex_chars, normalize. rewrite En, Er.
    destruct fuel' as [|f]; [unfold measure in Hm; lia|]. cbn [Lexer.run]. rewrite E5. reflexivity. }
  exists (tk_render tis ++ [eof]). split.
  { unfold lex. rewrite Hs. unfold lex_raw. fold (cs (items_text maxlen indent (its ++ [CBlank]))). rewrite cs_items_text. fold L.
    rewrite Elex. reflexivity. }
  exists (S (List.length tis)). intros fuel Hfuel.
  assert (Hlit : Forall (lit_tok o) (tk_render tis ++ [eof])).
  { pose proof (lex_chars_tok_ok L) as Hok. rewrite Elex in Hok.
    assert (HQ : Forall (Qtok o) (tk_render tis ++ [eof])).
    { apply Forall_app. split; [exact G3|]. apply Forall_cons; [|apply Forall_nil]. apply Qtok_not_string; cbn; discriminate. }
    rewrite Forall_forall in *. intros t Ht. destruct (HQ t Ht) as [Q1 [Q2 Q3]]. unfold tk in *. cbn [fst snd] in *.
    split; [exact Q1|]. split; [exact Q2|]. split; [exact (Hok t Ht) | exact Q3]. }
  pose proof (tk_parse_all o eof eq_refl tis G1 [] false eof [] fuel (Forall_nil _) Hlit ltac:(lia)) as HP.
  cbn [pend app] in HP. rewrite HP, G2, items_stmts_app_blank. reflexivity.
Qed.

(* config_items is empty or ends with the empty string: every section, and the macro section, ends with one *)
Definition ends_blank (l : list citem) : Prop := l = [] \/ exists l', l = l' ++ [CBlank].
Lemma ends_blank_flat_map : forall (A : Type) (f : A -> list citem) l,
  (forall e, exists g, f e = g ++ [CBlank]) -> ends_blank (flat_map f l).
Proof.
  intros A f l Hf. induction l as [|e r IH]; [left; reflexivity|]. right. cbn [flat_map]. destruct (Hf e) as [g Eg].
  destruct IH as [-> | [l' ->]].
  - rewrite app_nil_r. exists g. exact Eg.
  - exists (f e ++ l'). rewrite app_assoc. reflexivity.
Qed.
Lemma ends_blank_app : forall a b, ends_blank b -> (b = [] -> ends_blank a) -> ends_blank (a ++ b).
Proof.
  intros a b [-> | [l' ->]] H; [rewrite app_nil_r; exact (H eq_refl)|]. right. exists (a ++ l'). rewrite app_assoc. reflexivity.
Qed.
Lemma config_items_ends_blank : forall registry entries maxlen, ends_blank (config_items registry entries maxlen).
Proof.
  intros registry entries maxlen. unfold config_items.
  set (macros := sort_stable c_key full_key_ltb _). set (others := filter _ (sort_stable c_key full_key_ltb entries)).
  set (reg := fold_left _ registry sm_empty).
  apply ends_blank_app.
  - apply ends_blank_app.
    + apply ends_blank_app.
      * apply ends_blank_flat_map. intro e. eexists. rewrite !app_assoc. reflexivity.
      * intros _. destruct macros; [left; reflexivity | right; exists []; reflexivity].
    + intro E. apply app_eq_nil in E. destruct E as [E _]. destruct macros; [left; reflexivity | discriminate E].
  - intro E. apply app_eq_nil in E. destruct E as [_ E]. apply app_eq_nil in E. destruct E as [E _].
    destruct macros; [left; reflexivity | discriminate E].
Qed.

(* END TO END: the text config_str returns is lexed and parsed into exactly the emitted bindings *)
Theorem config_text_reads_back : forall o registry entries maxlen indent,
  Forall (item_ok o) (config_items registry entries maxlen) ->
  supported (config_text registry entries maxlen indent) = true ->
  exists ts, lex (config_text registry entries maxlen indent) = Some ts /\
    exists fuel0, forall fuel, fuel0 <= fuel ->
      parse_all fuel o false ts [] = (expected_stmts o registry entries maxlen indent, None).
Proof.
  intros o registry entries maxlen indent Hits Hs. unfold config_text, expected_stmts in *.
  destruct (config_items_ends_blank registry entries maxlen) as [E | [its E]]; rewrite E in *.
  - exact (items_text_reads_back o maxlen indent [] (Forall_nil _) Hs).
  - apply items_text_reads_back; [|exact Hs]. apply Forall_app in Hits. tauto.
Qed.

(* ================================================================== *)
(* 4. non-vacuity: a store with a macro, a scoped section with a one-line and a continuation-form binding and an
      opaque value, and a section without representable parameters; the text is what gin.config_str(24, 4) returns *)
Definition ct_ex_registry : list string := ["gin.macro"; "gin.constant"; "gin.singleton"; "m.f"; "pkg.sub.h"].
Definition ct_ex_entries : list centry :=
  [{| c_scope := "mm"; c_sel := "gin.macro"; c_method := false; c_params := [("value", CLit (PAtom (pp_tk NUMBER "3")))] |};
   {| c_scope := "a/b"; c_sel := "m.f"; c_method := false;
      c_params := [("lr", CLit (PNeg (pp_tk NUMBER "1"))); ("x", CLit pp_ex_value); ("obj", COpaque)] |};
   {| c_scope := ""; c_sel := "pkg.sub.h"; c_method := false; c_params := [("obj", COpaque)] |}].
Example ct_ex_text : config_text ct_ex_registry ct_ex_entries 24 4 =
"# Macros:
# ======================
mm = 3

# Parameters for a/b/f:
# ======================
a/b/f.lr = -1
a/b/f.x = \
    {3: 'ab',
     'k': [-1,
           (2,),
           {'x': [1.5,
                  None,
                  True]}],
     'key2': (10,
              20,
              30)}

# Parameters for h:
# ======================
# None.
".
Proof. vm_compute. reflexivity. Qed.
(* the statements gin's ConfigParser yields for that text (lines 3, 7 and 8) *)
Example ct_ex_expected : expected_stmts pp_ex_oracle ct_ex_registry ct_ex_entries 24 4 =
  [SBind "" "mm" "" (OT "int" [OS "3"]) 3; SBind "a/b" "f" "lr" (OT "int" [OS "-1"]) 7; SBind "a/b" "f" "x" pp_ex_out 8].
Proof. vm_compute. reflexivity. Qed.
Example ct_ex_bindings : expected_bindings pp_ex_oracle ct_ex_registry ct_ex_entries =
  [("", "mm", "", Some (OT "int" [OS "3"])); ("a/b", "f", "lr", Some (OT "int" [OS "-1"])); ("a/b", "f", "x", Some pp_ex_out)].
Proof. vm_compute. reflexivity. Qed.
(* by computation ... *)
Example ct_ex_reads_back_computes :
  option_map (fun ts => parse_all 10 pp_ex_oracle false ts []) (lex (config_text ct_ex_registry ct_ex_entries 24 4)) =
  Some (expected_stmts pp_ex_oracle ct_ex_registry ct_ex_entries 24 4, None).
Proof. vm_compute. reflexivity. Qed.

Definition ct_ex_items : list citem := Eval vm_compute in config_items ct_ex_registry ct_ex_entries 24.
Lemma ct_ex_items_eq : config_items ct_ex_registry ct_ex_entries 24 = ct_ex_items.
Proof. vm_compute. reflexivity. Qed.
Ltac ct_comment := cbn [item_ok]; eexists; split; [reflexivity | vm_compute; reflexivity].
Ltac ct_wf_name := unfold wf_name; cbn [key_parts Ascii.eqb Bool.eqb orb slash dot]; split; [discriminate|]; split; [vm_compute; reflexivity|];
  repeat split; try reflexivity; try (left; reflexivity); try (right; reflexivity).
Ltac ct_str_neg := unfold str_neg_ok; cbn [pv_atoms flat_map fst snd app pp_ex_value];
  repeat (apply Forall_cons; [intros H w E; first [discriminate H | vm_compute in E; discriminate E] | ]); try apply Forall_nil.
Example ct_ex_items_ok : Forall (item_ok pp_ex_oracle) (config_items ct_ex_registry ct_ex_entries 24).
Proof.
  rewrite ct_ex_items_eq. unfold ct_ex_items.
  apply Forall_cons; [ct_comment|]. apply Forall_cons; [ct_comment|].
  apply Forall_cons.
  { cbn [item_ok]. split; [ct_wf_name|]. split; [cbn; repeat split; try (right; reflexivity); try discriminate; eexists; reflexivity|].
    split; [cbn [pv_atoms]; apply Forall_cons; [apply atom_lexable_b_ok; vm_compute; reflexivity | apply Forall_nil]|].
    split; [cbn [pv_atoms]; apply Forall_cons; [vm_compute; reflexivity | apply Forall_nil]|].
    split; [vm_compute; repeat constructor|]. apply Forall_cons; [intro E; discriminate E | apply Forall_nil]. }
  apply Forall_cons; [exact I|]. apply Forall_cons; [ct_comment|]. apply Forall_cons; [ct_comment|].
  apply Forall_cons.
  { cbn [item_ok]. split; [ct_wf_name|]. split; [cbn; repeat split; try (right; reflexivity); try discriminate; eexists; reflexivity|].
    split; [cbn [pv_atoms]; apply Forall_cons; [apply atom_lexable_b_ok; vm_compute; reflexivity | apply Forall_nil]|].
    split; [cbn [pv_atoms]; apply Forall_cons; [vm_compute; reflexivity | apply Forall_nil]|].
    split; [vm_compute; repeat constructor|]. apply Forall_cons; [intro E; discriminate E | apply Forall_nil]. }
  apply Forall_cons.
  { cbn [item_ok]. split; [ct_wf_name|]. split; [exact pp_ex_atoms_ok|]. split; [exact pp_ex_atoms_lexable|].
    split; [exact pp_ex_atoms_nl_free|]. split; [vm_compute; repeat constructor|].
    change (str_neg_ok pp_ex_oracle pp_ex_value). ct_str_neg. }
  apply Forall_cons; [exact I|]. apply Forall_cons; [ct_comment|]. apply Forall_cons; [ct_comment|].
  apply Forall_cons; [ct_comment|]. apply Forall_cons; [exact I|]. apply Forall_nil.
Qed.
(* ... and BY the theorem, from its hypotheses *)
Example ct_ex_reads_back_applies :
  exists ts, lex (config_text ct_ex_registry ct_ex_entries 24 4) = Some ts /\
    exists fuel0, forall fuel, fuel0 <= fuel ->
      parse_all fuel pp_ex_oracle false ts [] =
      ([SBind "" "mm" "" (OT "int" [OS "3"]) 3; SBind "a/b" "f" "lr" (OT "int" [OS "-1"]) 7; SBind "a/b" "f" "x" pp_ex_out 8], None).
Proof.
  rewrite <- ct_ex_expected. apply config_text_reads_back; [exact ct_ex_items_ok | vm_compute; reflexivity].
Qed.

(* ================================================================== *)
(* 5. the statements, without their line numbers, and how the written keys are cut *)
Definition stmt_binding (s : stmt) : list (string * string * string * option out) :=
  match s with SBind sc se ar v _ => [(sc, se, ar, Some v)] | _ => [] end.
Definition item_binding (o : oracle) (it : citem) : list (string * string * string * option out) :=
  match it with
  | CBind key v => match denote o v with Some x => [(split_binding_key key, Some x)] | None => [] end
  | _ => []
  end.
Theorem items_stmts_bindings : forall o maxlen indent items line,
  flat_map stmt_binding (items_stmts o maxlen indent items line) = flat_map (item_binding o) items.
Proof.
  intros o maxlen indent. induction items as [|it r IH]; intro line; [reflexivity|].
  cbn [items_stmts flat_map]. rewrite flat_map_app, IH. f_equal.
  destruct it as [s| |key v]; cbn [item_stmts item_binding]; try reflexivity.
  destruct (denote o v); [|reflexivity]. destruct (split_binding_key key) as [[sc se] ar]. reflexivity.
Qed.
(* a section binding  <scope>/<minimal selector>.<param>  is cut into exactly these three *)
Theorem section_key_split : forall reg e p,
  contains_char slash (c_minimal reg e) = false -> contains_char slash p = false -> contains_char dot p = false ->
  split_binding_key (c_scoped_selector reg e ++ "." ++ p) = (c_scope e, c_minimal reg e, p).
Proof.
  intros reg e p H1 H2 H3. unfold c_scoped_selector. rewrite append_assoc.
  exact (split_binding_key_spec_strong (c_scope e) (c_minimal reg e) p H1 H2 H3).
Qed.
(* a macro  name = value  is the binding of the selector behind the last "/" of the name, in the scope before it,
   with the empty parameter name *)
Theorem macro_key_split : forall name, contains_char dot (snd (split_scoped name)) = false ->
  split_binding_key name = (fst (split_scoped name), snd (split_scoped name), "").
Proof.
  intros name H. unfold split_binding_key. destruct (split_scoped name) as [sc se]. cbn [fst snd] in *.
  rewrite (rsplit1_none dot se H). reflexivity.
Qed.

(* ================================================================== *)
(* 6. the hypothesis "atoms lexable" holds for the atoms repr writes for non-negative ints and ASCII strs
      (Model/StrLit.v, Proofs/StrLitLex.v): int_token z, str_token pr s *)
From GinV Require Import Model.StrLit Proofs.StrLitProofs Proofs.StrLitLex.
Definition repr_atom (t : token) : Prop :=
  (exists z, (0 <= z)%Z /\ t = int_token z) \/
  (exists pr s, Forall (fun c => (c < 128)%N) s /\ no_fquote (to_chars (py_repr_str pr s)) = true /\ t = str_token pr s).
Theorem repr_atoms_lexable : forall v, Forall repr_atom (pv_atoms v) -> Forall atom_lexable (pv_atoms v).
Proof.
  intros v H. eapply Forall_impl; [|exact H]. intros t [[z [Hz ->]] | [pr [s [Hs [Hf ->]]]]]; apply atom_lexable_b_ok.
  - exact (repr_int_atom_lexable z Hz).
  - exact (repr_str_atom_lexable pr s Hs Hf).
Qed.

(* ================================================================== *)
(* 7. the hypothesis of config_text_reads_back from conditions on the ENTRIES: every scoped selector is free of
      newlines (for the "# Parameters for ...:" lines), every macro binding  name = value  and every section binding
      <scoped selector>.<param> = value  of a literal value satisfies bind_ok *)
From Coq Require Import Sorting.Permutation.
From GinV Require Import Proofs.SerialProofs.
Open Scope string_scope. Open Scope list_scope.
Definition entry_ok (o : oracle) (reg : SelectorMap.smap unit) (e : centry) : Prop :=
  nl_free (cs (c_scoped_selector reg e)) /\
  (forall v, c_macro_value e = Some v -> bind_ok o (c_scope e) v) /\
  (forall p v, In (p, v) (c_lit_params e) -> bind_ok o (c_scoped_selector reg e ++ "." ++ p) v).

Lemma Forall_sort_stable : forall (A K : Type) (key : A -> K) ltb (P : A -> Prop) l,
  Forall P l -> Forall P (sort_stable key ltb l).
Proof.
  intros A K key ltb P l H. rewrite Forall_forall in *. intros x Hx. apply H.
  exact (Permutation_in _ (sort_stable_perm' key ltb l) Hx).
Qed.
Lemma Forall_filter : forall (A : Type) (f : A -> bool) (P : A -> Prop) l, Forall P l -> Forall P (filter f l).
Proof. intros A f P l H. rewrite Forall_forall in *. intros x Hx. apply filter_In in Hx. apply H. tauto. Qed.
Lemma Forall_flat_map : forall (A B : Type) (f : A -> list B) (P : A -> Prop) (Q : B -> Prop) l,
  Forall P l -> (forall x, P x -> Forall Q (f x)) -> Forall Q (flat_map f l).
Proof. intros A B f P Q l H Hf. induction H as [|x r Hx _ IH]; cbn [flat_map]; [constructor|]. apply Forall_app. split; [exact (Hf x Hx) | exact IH]. Qed.
Lemma nl_free_app : forall a b, nl_free a -> nl_free b -> nl_free (a ++ b).
Proof. unfold nl_free. intros a b Ha Hb. rewrite forallb_app, Ha, Hb. reflexivity. Qed.
Lemma nl_free_repeat_char : forall c n, not_nl c = true -> nl_free (cs (repeat_char c n)).
Proof. unfold nl_free. intros c n H. induction n as [|n IH]; [reflexivity|]. cbn [repeat_char cs list_ascii_of_string forallb]. rewrite H. exact IH. Qed.
Lemma comment_ok : forall o body, nl_free (cs body) -> item_ok o (CComment ("# " ++ body)).
Proof.
  intros o body H. cbn [item_ok]. exists (" "%char :: cs body). split; [reflexivity|].
  unfold nl_free in *. cbn [forallb]. rewrite H. reflexivity.
Qed.

Theorem config_items_ok : forall o registry entries maxlen,
  Forall (entry_ok o (fold_left (fun m s => sm_set (to_key s) tt m) registry sm_empty)) entries ->
  Forall (item_ok o) (ConfigText.config_items registry entries maxlen).
Proof.
  intros o registry entries maxlen H. unfold ConfigText.config_items.
  set (reg := fold_left _ registry sm_empty) in *.
  set (macros := sort_stable c_key full_key_ltb _).
  set (others := filter _ (sort_stable c_key full_key_ltb entries)).
  assert (Hm : Forall (entry_ok o reg) macros) by (apply Forall_sort_stable, Forall_filter; exact H).
  assert (Ho : Forall (entry_ok o reg) others) by (apply Forall_filter, Forall_sort_stable; exact H).
  assert (Hrule : item_ok o (CComment (c_rule maxlen))).
  { unfold c_rule. apply comment_ok. apply nl_free_repeat_char. reflexivity. }
  apply Forall_app. split; [destruct macros; [constructor|]; apply Forall_cons; [apply (comment_ok o "Macros:"); reflexivity|];
                            apply Forall_cons; [exact Hrule | constructor]|].
  apply Forall_app. split.
  { apply (Forall_flat_map _ _ _ (entry_ok o reg)); [exact Hm|]. intros e [_ [He _]].
    destruct (c_macro_value e) as [v|]; [|constructor]. apply Forall_cons; [exact (He v eq_refl) | constructor]. }
  apply Forall_app. split; [destruct macros; [constructor | apply Forall_cons; [exact I | constructor]]|].
  apply (Forall_flat_map _ _ _ (entry_ok o reg)); [exact Ho|]. intros e [Hs [_ Hp]].
  apply Forall_cons.
  { change (CComment ("# Parameters for " ++ c_scoped_selector reg e ++ ":"))
      with (CComment ("# " ++ ("Parameters for " ++ c_scoped_selector reg e ++ ":"))).
    apply comment_ok. rewrite !cs_app. apply nl_free_app; [reflexivity|]. apply nl_free_app; [exact Hs | reflexivity]. }
  apply Forall_cons; [exact Hrule|]. apply Forall_app. split.
  { apply Forall_map. apply Forall_sort_stable. apply Forall_forall. intros [p v] Hin. cbn [fst snd item_ok]. exact (Hp p v Hin). }
  apply Forall_app. split; [|apply Forall_cons; [exact I | constructor]].
  destruct (sort_stable (fun kv : string * pv => fst kv) String.ltb (c_lit_params e)); [|constructor]. apply Forall_cons; [|constructor].
  apply (comment_ok o "None."). reflexivity.
Qed.

(* END TO END, with the conditions on the entries *)
Theorem config_text_reads_back_entries : forall o registry entries maxlen indent,
  Forall (entry_ok o (fold_left (fun m s => sm_set (to_key s) tt m) registry sm_empty)) entries ->
  supported (ConfigText.config_text registry entries maxlen indent) = true ->
  exists ts, lex (ConfigText.config_text registry entries maxlen indent) = Some ts /\
    exists fuel0, forall fuel, fuel0 <= fuel ->
      parse_all fuel o false ts [] = (expected_stmts o registry entries maxlen indent, None).
Proof. intros o registry entries maxlen indent H. apply config_text_reads_back. apply config_items_ok. exact H. Qed.
