(* F37: the header does not depend on the order in which the recorded imports are presented.
   The real _IMPORTS is a set; its iteration order varies between processes (string hashing).  The code before
   the repair sorted by (not feature, module, not from) only, so among statements that differ in the alias
   alone the stable sort kept the one the set happened to yield first.  The repaired key has the alias as last
   component and is injective on statements (given that no alias is the empty string, which the parser never
   produces and which `alias or ''` identifies with "no alias"), so the sorted list is a function of the
   multiset of statements. *)
From Coq Require Import List String ZArith Bool Arith Lia Permutation Sorted Ascii.
From GinV Require Import Lib.Out Lib.PyStr Model.SelectorMap Model.Serial Proofs.SerialProofs Proofs.SerialProofs2.
Import ListNotations.
Open Scope string_scope.
Open Scope list_scope.

(* ---- sorting by a key that is injective on the elements: repeated elements allowed ---- *)
Section SortInj.
  Context {A K : Type} (key : A -> K) (ltb : K -> K -> bool).

  Lemma sorted_unique_inj : strict_total ltb -> forall l1 l2,
    StronglySorted (key_le key ltb) l1 -> StronglySorted (key_le key ltb) l2 ->
    (forall x y, In x l1 -> In y l1 -> key x = key y -> x = y) ->
    Permutation l1 l2 -> l1 = l2.
  Proof.
    intros (_ & _ & Htot) l1. induction l1 as [|a r1 IH]; intros l2 Hs1 Hs2 Hinj Hp.
    - apply Permutation_nil in Hp. symmetry; exact Hp.
    - destruct l2 as [|b r2].
      + apply Permutation_sym, Permutation_nil in Hp. discriminate Hp.
      + inversion Hs1 as [|? ? Hs1r Hall1]; subst.
        inversion Hs2 as [|? ? Hs2r Hall2]; subst.
        assert (Hab : a = b).
        { assert (Ha : In a (b :: r2)) by (eapply Permutation_in; [exact Hp | left; reflexivity]).
          assert (Hb : In b (a :: r1)) by (eapply Permutation_in; [apply Permutation_sym, Hp | left; reflexivity]).
          destruct Ha as [Ha|Ha]; [symmetry; exact Ha|].
          destruct Hb as [Hb|Hb]; [exact Hb|].
          rewrite Forall_forall in Hall1, Hall2.
          specialize (Hall1 b Hb). specialize (Hall2 a Ha). unfold key_le in Hall1, Hall2.
          apply Hinj; [left; reflexivity | right; exact Hb|].
          apply (Htot (key a) (key b) Hall2 Hall1). }
        subst b. f_equal. apply IH; try assumption.
        * intros x y Hx Hy. apply Hinj; right; assumption.
        * eapply Permutation_cons_inv; exact Hp.
  Qed.

  Theorem sort_stable_canonical_inj : strict_total ltb -> forall l1 l2,
    (forall x y, In x l1 -> In y l1 -> key x = key y -> x = y) ->
    Permutation l1 l2 -> sort_stable key ltb l1 = sort_stable key ltb l2.
  Proof.
    intros Hst l1 l2 Hinj Hp.
    apply (sorted_unique_inj Hst).
    - apply sort_stable_sorted'; exact Hst.
    - apply sort_stable_sorted'; exact Hst.
    - intros x y Hx Hy. apply Hinj.
      + apply (Permutation_in _ (sort_stable_perm _ _ key ltb l1)), Hx.
      + apply (Permutation_in _ (sort_stable_perm _ _ key ltb l1)), Hy.
    - eapply perm_trans; [apply sort_stable_perm|].
      eapply perm_trans; [exact Hp | apply Permutation_sym, sort_stable_perm].
  Qed.
End SortInj.

(* ---- the repaired key determines the statement ---- *)
Lemma alias_str_inj : forall a b, i_alias a <> Some "" -> i_alias b <> Some "" ->
  alias_str a = alias_str b -> i_alias a = i_alias b.
Proof.
  intros a b Ha Hb H. unfold alias_str in H.
  destruct (i_alias a) as [x|], (i_alias b) as [y|]; subst; try reflexivity.
  - exfalso. apply Ha. reflexivity.
  - exfalso. apply Hb. reflexivity.
Qed.

Theorem import_sort_key_injective : forall a b, i_alias a <> Some "" -> i_alias b <> Some "" ->
  import_sort_key a = import_sort_key b -> a = b.
Proof.
  intros a b Ha Hb H. unfold import_sort_key in H. injection H as _ Hm Hf Hal.
  apply (alias_str_inj a b Ha Hb) in Hal.
  destruct a as [ma fa aa], b as [mb fb ab]. cbn [i_module i_from i_alias] in *.
  subst. f_equal. destruct fa, fb; try reflexivity; discriminate Hf.
Qed.

(* without the hypothesis it is not: `alias or ''` *)
Example import_sort_key_not_injective_on_empty_alias :
  import_sort_key {| i_module := "m"; i_from := false; i_alias := Some "" |} =
  import_sort_key {| i_module := "m"; i_from := false; i_alias := None |}.
Proof. reflexivity. Qed.

(* ---- the order of addition is a function of the multiset of statements ---- *)
Theorem import_manager_sort_order_independent : forall l1 l2,
  Permutation l1 l2 -> Forall (fun i => i_alias i <> Some "") l1 ->
  sort_stable (fun x : simport => x) import_key_ltb l1 = sort_stable (fun x : simport => x) import_key_ltb l2.
Proof.
  intros l1 l2 Hp Hal.
  rewrite !(sort_stable_key_ext _ _ _ (fun x : simport => x) import_key_ltb import_sort_key import_sort_key_ltb
              import_key_ltb_as_key).
  apply sort_stable_canonical_inj; [apply import_sort_key_ltb_strict_total | | exact Hp].
  rewrite Forall_forall in Hal. intros x y Hx Hy. apply import_sort_key_injective; apply Hal; assumption.
Qed.

Lemma is_dynamic_perm : forall l1 l2, Permutation l1 l2 -> is_dynamic l1 = is_dynamic l2.
Proof.
  intros l1 l2 Hp. apply is_dynamic_ext. intros m.
  split; apply Permutation_in, Permutation_map; [|apply Permutation_sym]; exact Hp.
Qed.
Lemma names0_perm : forall l1 l2, Permutation l1 l2 -> names0 l1 = names0 l2.
Proof. intros l1 l2 Hp. unfold names0. rewrite (is_dynamic_perm l1 l2 Hp). reflexivity. Qed.

(* (a) the statements the manager keeps (with their re-aliasing), in the order of addition *)
Theorem import_manager_order_independent : forall l1 l2,
  Permutation l1 l2 -> Forall (fun i => i_alias i <> Some "") l1 ->
  import_manager l1 = import_manager l2.
Proof.
  intros l1 l2 Hp Hal. rewrite !import_manager_unfold.
  rewrite (import_manager_sort_order_independent l1 l2 Hp Hal), (names0_perm l1 l2 Hp). reflexivity.
Qed.

(* hence the header, and the whole text *)
Corollary import_header_order_independent : forall l1 l2,
  Permutation l1 l2 -> Forall (fun i => i_alias i <> Some "") l1 ->
  map import_format (sorted_imports (import_manager l1)) = map import_format (sorted_imports (import_manager l2)).
Proof. intros l1 l2 Hp Hal. rewrite (import_manager_order_independent l1 l2 Hp Hal). reflexivity. Qed.

Corollary config_lines_import_order_independent : forall registry l1 l2 entries maxlen indent,
  Permutation l1 l2 -> Forall (fun i => i_alias i <> Some "") l1 ->
  config_lines registry l1 entries maxlen indent = config_lines registry l2 entries maxlen indent.
Proof.
  intros registry l1 l2 entries maxlen indent Hp Hal. rewrite !config_lines_body. unfold import_lines.
  rewrite (import_manager_order_independent l1 l2 Hp Hal). reflexivity.
Qed.

(* (b) the code before the repair: two statements that differ in the alias only; the header names whichever
   the set yields first *)
Example orig_import_header_order_dependent :
  let a := {| i_module := "_under"; i_from := false; i_alias := Some "al" |} in
  let b := {| i_module := "_under"; i_from := false; i_alias := Some "alpha" |} in
  map import_format (import_manager_noalias [a; b]) = ["import _under as al"] /\
  map import_format (import_manager_noalias [b; a]) = ["import _under as alpha"] /\
  import_manager [a; b] = import_manager [b; a].
Proof. vm_compute. repeat split; reflexivity. Qed.

(* the hypothesis on the empty alias is needed in the model: Some "" and None have the same key, the stable sort
   keeps them in input order and the first one wins *)
Example import_manager_order_dependent_on_empty_alias :
  let a := {| i_module := "m"; i_from := false; i_alias := Some "" |} in
  let b := {| i_module := "m"; i_from := false; i_alias := None |} in
  import_manager [a; b] = [a] /\ import_manager [b; a] = [b].
Proof. vm_compute. split; reflexivity. Qed.

Print Assumptions sort_stable_canonical_inj.
Print Assumptions import_sort_key_injective.
Print Assumptions import_manager_sort_order_independent.
Print Assumptions import_manager_order_independent.
Print Assumptions import_header_order_independent.
Print Assumptions config_lines_import_order_independent.
Print Assumptions orig_import_header_order_dependent.
Print Assumptions import_manager_order_dependent_on_empty_alias.
