(* C02 at the API: gin.config.parse_value over ConfigParser.parse_single_value (repaired code, F39).
   The value must be all there is: behind it only NEWLINE / NL / COMMENT / INDENT / DEDENT tokens up
   to the end marker.  The code before the repair returned the first complete value and ignored
   whatever followed ("1 + 2" gave 1). *)
From Coq Require Import List String ZArith Bool Arith Lia Ascii.
From GinV Require Import Lib.Out Lib.PyStr Model.Parser Model.ParserSpec.
From GinV Require Import Proofs.ParserLemmas Proofs.ParserSmall Proofs.ParserProofs Proofs.ParserSound.
Import ListNotations. Open Scope string_scope. Open Scope list_scope.

Lemma cur_ty_true : forall ts t, cur_ty ts t = true <-> ty (cur ts) = t.
Proof. intros ts t. unfold cur_ty. apply ttype_eqb_eq. Qed.
Lemma cur_ty_false : forall ts t, cur_ty ts t = false <-> ty (cur ts) <> t.
Proof.
  intros ts t. rewrite <- cur_ty_true. destruct (cur_ty ts t); split; intro H; try reflexivity;
    try discriminate; try (intro; discriminate). exfalso; apply H; reflexivity.
Qed.

(* ------------------------------------------------------------------ *)
(* 1. acceptance at the API = a value, then only end_types tokens, then the end marker *)
Theorem api_is_value_then_only_trivia : forall o ts v,
  parse_single_value o ts = POk v ->
  exists rest rest',
    parse_value (value_fuel ts) o false ts = POk (v, rest) /\
    skip (S (List.length rest)) end_types rest = POk rest' /\ ty (cur rest') = ENDMARKER.
Proof.
  intros o ts v H. unfold parse_single_value in H.
  destruct (parse_value (value_fuel ts) o false ts) as [[v0 rest]|e]; [|discriminate].
  destruct (skip (S (List.length rest)) end_types rest) as [rest'|e] eqn:Es; [|discriminate].
  destruct (cur_ty rest' ENDMARKER) eqn:Ec; [|unfold syntax_here in H; discriminate].
  injection H as <-. exists rest, rest'. repeat split; try assumption.
  apply cur_ty_true. exact Ec.
Qed.

Theorem api_accepts : forall o ts v rest rest',
  parse_value (value_fuel ts) o false ts = POk (v, rest) ->
  skip (S (List.length rest)) end_types rest = POk rest' -> ty (cur rest') = ENDMARKER ->
  parse_single_value o ts = POk v.
Proof.
  intros o ts v rest rest' H1 H2 H3. unfold parse_single_value. rewrite H1, H2.
  apply cur_ty_true in H3. rewrite H3. reflexivity.
Qed.

Theorem api_accepts_iff : forall o ts v,
  parse_single_value o ts = POk v <->
  exists rest rest',
    parse_value (value_fuel ts) o false ts = POk (v, rest) /\
    skip (S (List.length rest)) end_types rest = POk rest' /\ ty (cur rest') = ENDMARKER.
Proof.
  intros o ts v. split; [apply api_is_value_then_only_trivia|].
  intros [rest [rest' [H1 [H2 H3]]]]. exact (api_accepts _ _ _ _ _ H1 H2 H3).
Qed.

(* errors of the value parser and of the tokenizer behind the value propagate unchanged *)
Theorem api_value_error : forall o ts e,
  parse_value (value_fuel ts) o false ts = PErr e -> parse_single_value o ts = PErr e.
Proof. intros o ts e H. unfold parse_single_value. rewrite H. reflexivity. Qed.

(* ------------------------------------------------------------------ *)
(* 2. anything else behind the value is a SyntaxError at that token *)
Theorem api_rejects_trailing_junk : forall o ts v rest rest',
  parse_value (value_fuel ts) o false ts = POk (v, rest) ->
  skip (S (List.length rest)) end_types rest = POk rest' -> ty (cur rest') <> ENDMARKER ->
  parse_single_value o ts = PErr (ESyntax (srow (cur rest'))).
Proof.
  intros o ts v rest rest' H1 H2 H3. unfold parse_single_value. rewrite H1, H2.
  apply cur_ty_false in H3. rewrite H3. reflexivity.
Qed.

Lemma end_types_noerr : forall t, In (ty t) end_types -> ty t <> TERR /\ ty t <> ERRORTOKEN.
Proof.
  intros t H. unfold end_types in H. cbn [In] in H.
  split; intro E; rewrite E in H; decompose [or] H; try discriminate; contradiction.
Qed.

(* skip over end_types: all of them go, whatever stands behind them stays *)
Lemma skip_end_types_over : forall tl t r fuel,
  Forall (fun x => In (ty x) end_types) tl ->
  ~ In (ty t) end_types -> ty t <> TERR -> ty t <> ERRORTOKEN ->
  List.length tl < fuel ->
  skip fuel end_types (tl ++ t :: r) = POk (t :: r).
Proof.
  intros tl t r fuel Htl Ht H1 H2 Hf. apply skip_over; try assumption.
  - eapply Forall_impl; [|exact Htl]. cbn beta. intros x Hx. split.
    + apply in_types_true. exact Hx.
    + apply end_types_noerr. exact Hx.
  - apply in_types_false. exact Ht.
Qed.

Lemma skip_end_types_all : forall tl e more fuel,
  Forall (fun x => In (ty x) end_types) tl -> ty e = ENDMARKER -> List.length tl < fuel ->
  skip fuel end_types (tl ++ e :: more) = POk (e :: more).
Proof.
  intros tl e more fuel Htl He Hf. apply skip_end_types_over; try assumption; rewrite He.
  - unfold end_types. cbn [In]. intros H. decompose [or] H; try discriminate; contradiction.
  - discriminate.
  - discriminate.
Qed.

(* the first token behind the value that is not of an end type decides *)
Theorem api_rejects_first_junk : forall o ts v tl t r,
  parse_value (value_fuel ts) o false ts = POk (v, tl ++ t :: r) ->
  Forall (fun x => In (ty x) end_types) tl ->
  ~ In (ty t) end_types -> ty t <> ENDMARKER -> ty t <> TERR -> ty t <> ERRORTOKEN ->
  parse_single_value o ts = PErr (ESyntax (srow t)).
Proof.
  intros o ts v tl t r H Htl Ht He H1 H2.
  apply (api_rejects_trailing_junk o ts v (tl ++ t :: r) (t :: r)); [exact H| |exact He].
  apply skip_end_types_over; try assumption. rewrite app_length. cbn [List.length]. lia.
Qed.

(* no skipping at all: the token right behind the value *)
Theorem api_rejects_next_token : forall o ts v t r,
  parse_value (value_fuel ts) o false ts = POk (v, t :: r) ->
  ~ In (ty t) end_types -> ty t <> ENDMARKER ->
  parse_single_value o ts = PErr (ESyntax (srow t)).
Proof.
  intros o ts v t r H Ht He.
  apply (api_rejects_trailing_junk o ts v (t :: r) (t :: r)); [exact H| |exact He].
  rewrite skip_S. cbn [cur hd]. apply in_types_false in Ht. rewrite Ht. reflexivity.
Qed.

Corollary api_rejects_junk_token : forall o ts v t r,
  parse_value (value_fuel ts) o false ts = POk (v, t :: r) ->
  (ty t = NAME \/ ty t = NUMBER \/ ty t = STRING \/ ty t = OP) ->
  parse_single_value o ts = PErr (ESyntax (srow t)).
Proof.
  intros o ts v t r H Hty. apply (api_rejects_next_token o ts v t r H).
  - unfold end_types. cbn [In]. intros C. decompose [or] Hty; rewrite H0 in C || rewrite H1 in C;
      decompose [or] C; try discriminate; contradiction.
  - decompose [or] Hty; rewrite H0 || rewrite H1; discriminate.
Qed.

(* ------------------------------------------------------------------ *)
(* 3. completeness and exactness at the API *)
Theorem api_never_another_value : forall o l lay n inside v toks n' tr tl e more,
  lay_ok lay -> lit_wf o l -> py_eval o l = Some v -> render l lay n inside = (toks, n') ->
  Forall tok_ok toks ->
  Forall trivia_tok tr ->
  Forall (fun t => In (ty t) end_types) tl -> (forall t r, tl = t :: r -> ty t = NEWLINE) ->
  ty e = ENDMARKER ->
  parse_single_value o (toks ++ tr ++ tl ++ e :: more) = POk v.
Proof.
  intros o l lay n inside v toks n' tr tl e more Hlay Hwf Hev Hr Hok Htr Htl Hhd He.
  apply (api_accepts o _ v (tl ++ e :: more) (e :: more)).
  - apply (C02_value_fuel o l false lay n inside v toks n' tr (tl ++ e :: more)); try assumption.
    + destruct tl; discriminate.
    + intros t r' E. destruct tl as [|t0 tl']; cbn [app] in E; injection E as <- <-.
      * right; right. exact He.
      * right; left. exact (Hhd _ _ eq_refl).
  - apply skip_end_types_all; try assumption. rewrite app_length. cbn [List.length]. lia.
  - cbn [cur hd]. exact He.
Qed.

(* the shape asked for: tail of end_types tokens, then eof_token *)
Corollary api_never_another_value_eof : forall o l lay n v toks n' tl,
  lay_ok lay -> lit_wf o l -> py_eval o l = Some v -> render l lay n false = (toks, n') ->
  Forall tok_ok toks ->
  Forall (fun t => In (ty t) end_types) tl -> (forall t r, tl = t :: r -> ty t = NEWLINE) ->
  parse_single_value o (toks ++ tl ++ [eof_token]) = POk v.
Proof.
  intros o l lay n v toks n' tl Hlay Hwf Hev Hr Hok Htl Hhd.
  exact (api_never_another_value o l lay n false v toks n' [] tl eof_token [] Hlay Hwf Hev Hr Hok
           (Forall_nil _) Htl Hhd eq_refl).
Qed.

(* ------------------------------------------------------------------ *)
(* what the value parser hands back is never the empty list: its last act is always an advance / skip,
   and the generator raising StopIteration is an error, not a value *)
Lemma settle_ne : forall ts ts', settle ts = POk ts' -> ts' <> [].
Proof.
  induction ts as [|a r IH]; intros ts' H; cbn [settle] in H; [discriminate|].
  destruct (ty a); try (injection H as <-; discriminate).
  - destruct (_ || _ || _); [exact (IH _ H) | injection H as <-; discriminate].
  - destruct (String.eqb _ _); discriminate.
Qed.
Lemma advance_one_ne : forall ts ts', advance_one ts = POk ts' -> ts' <> [].
Proof. intros [|a r] ts' H; cbn [advance_one] in H; [discriminate | exact (settle_ne _ _ H)]. Qed.
Lemma skip_ne : forall fuel types ts ts', skip fuel types ts = POk ts' -> ts <> [] -> ts' <> [].
Proof.
  induction fuel as [|f IH]; intros types ts ts' H Hne.
  - cbn [skip] in H. injection H as <-. exact Hne.
  - rewrite skip_S in H. destruct (in_types (ty (cur ts)) types).
    + destruct (advance_one ts) as [ts1|e] eqn:Ea; [|discriminate].
      exact (IH _ _ _ H (advance_one_ne _ _ Ea)).
    + injection H as <-. exact Hne.
Qed.
Lemma advance_ne : forall wb ts ts', advance wb ts = POk ts' -> ts' <> [].
Proof.
  intros wb ts ts' H. unfold advance in H. destruct (advance_one ts) as [ts1|e] eqn:Ea; [|discriminate].
  exact (skip_ne _ _ _ _ H (advance_one_ne _ _ Ea)).
Qed.
Lemma basic_loop_ne : forall fuel o wb ts acc v rest, basic_loop fuel o wb ts acc = POk (v, rest) -> rest <> [].
Proof.
  induction fuel as [|f IH]; intros o wb ts acc v rest H; [cbn in H; discriminate|].
  rewrite basic_loop_S in H. cbv zeta in H.
  destruct (olookup o (acc_next acc (text (cur ts)))) as [[v0|]|]; try discriminate.
  destruct (advance wb ts) as [ts'|e] eqn:Ea; [|discriminate].
  destruct (cur_ty ts STRING && cur_ty ts' STRING).
  - exact (IH _ _ _ _ _ _ H).
  - injection H as _ <-. exact (advance_ne _ _ _ Ea).
Qed.
Lemma maybe_basic_ne : forall o wb ts v rest, maybe_basic o wb ts = POk (Some (v, rest)) -> rest <> [].
Proof.
  intros o wb ts v rest H. unfold maybe_basic in H.
  destruct (if cur_is ts "-" then advance wb ts else POk ts) as [ts1|e]; [|discriminate].
  destruct (in_types (ty (cur ts1)) [NAME; NUMBER; STRING]).
  - destruct (basic_loop _ o wb ts1 _) as [[v0 r0]|e] eqn:Eb; [|discriminate].
    injection H as <- <-. exact (basic_loop_ne _ _ _ _ _ _ _ Eb).
  - destruct (cur_is ts "-"); discriminate.
Qed.
Lemma sel_loop_ne : forall fuel parity ts parts toks p t ts',
  sel_loop fuel parity ts parts toks = POk (p, t, ts') -> ts <> [] -> ts' <> [].
Proof.
  induction fuel as [|f IH]; intros parity ts parts toks p t ts' H Hne.
  - cbn [sel_loop] in H. injection H as _ _ <-. exact Hne.
  - rewrite sel_loop_S in H. destruct (_ || _).
    + destruct (advance_one ts) as [ts1|e] eqn:Ea; [|discriminate].
      exact (IH _ _ _ _ _ _ _ H (advance_one_ne _ _ Ea)).
    + injection H as _ _ <-. exact Hne.
Qed.
Lemma parse_selector_ne : forall scoped allow wb ts s rest,
  parse_selector scoped allow wb ts = POk (s, rest) -> rest <> [].
Proof.
  intros scoped allow wb ts s rest H. unfold parse_selector in H.
  destruct (cur_ty ts NAME) eqn:En; cbn [negb] in H; [|discriminate].
  assert (Hne : ts <> []) by (intro E; subst ts; cbn in En; discriminate).
  destruct (sel_loop _ false ts [] []) as [[[parts toks] ts1]|e] eqn:El; [|discriminate].
  destruct (skip_ws wb ts1) as [ts2|e] eqn:Es; [|discriminate].
  destruct (contiguous toks && _); [|discriminate].
  injection H as _ <-. unfold skip_ws in Es.
  exact (skip_ne _ _ _ _ Es (sel_loop_ne _ _ _ _ _ _ _ _ El Hne)).
Qed.

Theorem parse_value_rest_ne : forall fuel o wb ts v rest,
  parse_value fuel o wb ts = POk (v, rest) -> rest <> [].
Proof.
  intros [|f] o wb ts v rest H; [cbn in H; discriminate|].
  destruct (closer (text (cur ts))) as [close|] eqn:Ecl.
  - rewrite (parse_value_container f o wb ts close Ecl) in H.
    destruct (advance wb ts) as [ts1|e]; [|discriminate].
    destruct (pv_loop _ _ _ _ _ _ _ _ _ _) as [[[[vals pairs] sc] ts2]|e]; [|discriminate].
    destruct (advance wb ts2) as [ts3|e] eqn:Ea; [|discriminate].
    destruct (String.eqb (text (cur ts)) "{" && negb (keys_hashable pairs)); [discriminate|].
    injection H as _ <-. exact (advance_ne _ _ _ Ea).
  - cbn [parse_value] in H. rewrite Ecl in H.
    destruct (maybe_basic o wb ts) as [[[v0 r0]|]|e] eqn:Em; [| |discriminate].
    + injection H as <- <-. exact (maybe_basic_ne _ _ _ _ _ Em).
    + match type of H with (if cur_is ?t "@" then _ else _) = _ => set (tsb := t) in H end.
      destruct (cur_is tsb "@").
      * destruct (advance_one tsb) as [ts1|e]; [|discriminate].
        destruct (parse_selector true true wb ts1) as [[name ts2]|e] eqn:Eps; [|discriminate].
        pose proof (parse_selector_ne _ _ _ _ _ _ Eps) as Hne2.
        destruct (cur_is ts2 "(").
        -- destruct (advance wb ts2) as [ts3|e]; [|discriminate].
           destruct (negb (cur_is ts3 ")")); [unfold syntax_here in H; discriminate|].
           destruct (advance_one ts3) as [ts4|e] eqn:Ea4; [|discriminate].
           destruct (skip_ws wb ts4) as [ts5|e] eqn:Es; [|discriminate].
           injection H as _ <-. unfold skip_ws in Es.
           exact (skip_ne _ _ _ _ Es (advance_one_ne _ _ Ea4)).
        -- destruct (skip_ws wb ts2) as [ts3|e] eqn:Es; [|discriminate].
           injection H as _ <-. unfold skip_ws in Es. exact (skip_ne _ _ _ _ Es Hne2).
      * destruct (cur_is tsb "%"); [|unfold syntax_here in H; discriminate].
        destruct (advance_one tsb) as [ts1|e]; [|discriminate].
        destruct (parse_selector true true wb ts1) as [[name ts2]|e] eqn:Eps; [|discriminate].
        injection H as _ <-. exact (parse_selector_ne _ _ _ _ _ _ Eps).
Qed.

(* hence acceptance at the API means there IS an ENDMARKER token, and between the value and it only
   tokens of the end types (and the blank ERRORTOKENs _advance_one_token drops) *)
Theorem api_accept_shape : forall o ts v,
  parse_single_value o ts = POk v ->
  exists rest skipped e more,
    parse_value (value_fuel ts) o false ts = POk (v, rest) /\
    rest = skipped ++ e :: more /\
    Forall (fun t => In (ty t) end_types \/ blank_err t) skipped /\ ty e = ENDMARKER.
Proof.
  intros o ts v H. destruct (api_is_value_then_only_trivia _ _ _ H) as [rest [rest' [H1 [H2 H3]]]].
  destruct (skip_inv _ _ _ _ H2) as [sk [E Hsk]].
  pose proof (skip_ne _ _ _ _ H2 (parse_value_rest_ne _ _ _ _ _ _ H1)) as Hne.
  destruct rest' as [|e more]; [congruence|]. cbn [cur hd] in H3.
  exists rest, sk, e, more. repeat split; try assumption.
  eapply Forall_impl; [|exact Hsk]. cbn beta. intros t [Ht|Ht]; [left; apply in_types_true; exact Ht | right; exact Ht].
Qed.

(* ------------------------------------------------------------------ *)
(* 4. soundness at the API *)
Theorem api_sound : forall o ts v,
  parse_single_value o ts = POk v -> Forall (lit_tok o) ts ->
  exists l lay n' toks used skipped e more,
    lit_wf o l /\ py_eval o l = Some v /\
    ts = used ++ skipped ++ e :: more /\
    render l lay 0 true = (toks, n') /\ Forall2 tok_sim toks used /\
    (forall k, Forall (skippable false) (lay k)) /\
    Forall (fun t => In (ty t) end_types \/ blank_err t) skipped /\ ty e = ENDMARKER.
Proof.
  intros o ts v H Hts.
  destruct (api_accept_shape _ _ _ H) as [rest [sk [e [more [H1 [E [Hsk He]]]]]]].
  destruct (C02_sound_gen _ _ _ _ _ _ 0 H1 Hts) as [l [lay [n' [toks [used [Hwf [Hev [Ets [Hr [Hsim Hlay]]]]]]]]]].
  exists l, lay, n', toks, used, sk, e, more. rewrite <- E. repeat split; assumption.
Qed.

(* the formulation with the parser's own skip *)
Theorem api_sound_skip : forall o ts v,
  parse_single_value o ts = POk v -> Forall (lit_tok o) ts ->
  exists l lay n' toks used rest rest',
    lit_wf o l /\ py_eval o l = Some v /\ ts = used ++ rest /\
    render l lay 0 true = (toks, n') /\ Forall2 tok_sim toks used /\
    (forall k, Forall (skippable false) (lay k)) /\
    skip (S (List.length rest)) end_types rest = POk rest' /\ ty (cur rest') = ENDMARKER.
Proof.
  intros o ts v H Hts.
  destruct (api_is_value_then_only_trivia _ _ _ H) as [rest [rest' [H1 [H2 H3]]]].
  destruct (C02_sound_gen _ _ _ _ _ _ 0 H1 Hts) as [l [lay [n' [toks [used [Hwf [Hev [Ets [Hr [Hsim Hlay]]]]]]]]]].
  exists l, lay, n', toks, used, rest, rest'. repeat split; assumption.
Qed.

(* exact form: on streams as the real tokenizer produces them (no ERRORTOKEN, no INDENT / DEDENT, canonical
   punctuation) the WHOLE input is literally a rendering of a literal tree in a layout of NL / COMMENT tokens,
   then NEWLINE / NL / COMMENT tokens, then the end marker *)
Theorem api_sound_exact : forall o ts v,
  parse_single_value o ts = POk v ->
  Forall (lit_tok o) ts -> Forall (plain_tok false) ts -> Forall canon_punct ts ->
  exists l lay toks n' skipped e more,
    lay_ok lay /\ lit_wf o l /\ py_eval o l = Some v /\ render l lay 0 true = (toks, n') /\
    ts = toks ++ skipped ++ e :: more /\
    Forall (fun t => ty t = NEWLINE \/ ty t = NL \/ ty t = COMMENT) skipped /\ ty e = ENDMARKER.
Proof.
  intros o ts v H Hts Hpl Hcn.
  destruct (api_accept_shape _ _ _ H) as [rest [sk [e [more [H1 [E [Hsk He]]]]]]].
  destruct (C02_sound_strong _ _ _ _ _ _ 0 H1 Hts Hpl Hcn) as [l [lay [toks [n' [Hlay [Hwf [Hev [Hr Ets]]]]]]]].
  exists l, lay, toks, n', sk, e, more. rewrite <- E. repeat split; try assumption.
  assert (Hp : Forall (plain_tok false) sk).
  { rewrite Ets, E in Hpl. apply Forall_app in Hpl. destruct Hpl as [_ Hpl].
    apply Forall_app in Hpl. tauto. }
  clear - Hsk Hp. induction sk as [|a sk IH]; constructor.
  - pose proof (Forall_inv Hsk) as Ha. pose proof (Forall_inv Hp) as [Hne Hid]. cbn beta in Ha.
    destruct (Hid eq_refl) as [Hi Hd].
    destruct Ha as [Ha|[Ha _]]; [|contradiction].
    unfold end_types in Ha. cbn [In] in Ha.
    destruct Ha as [Ha|[Ha|[Ha|[Ha|[Ha|[]]]]]]; try (rewrite <- Ha; tauto); congruence.
  - apply IH; [exact (Forall_inv_tail Hsk) | exact (Forall_inv_tail Hp)].
Qed.

(* ------------------------------------------------------------------ *)
(* 5. the code before the repair: the text "1 + 2" *)
Module C02_ApiExample.
Definition junk_stream : list token :=
  [ {| ty := NUMBER; text := "1"; srow := 1; scol := 0; erow := 1; ecol := 1 |};
    {| ty := OP; text := "+"; srow := 1; scol := 2; erow := 1; ecol := 3 |};
    {| ty := NUMBER; text := "2"; srow := 1; scol := 4; erow := 1; ecol := 5 |};
    {| ty := NEWLINE; text := ""; srow := 1; scol := 5; erow := 1; ecol := 6 |};
    {| ty := ENDMARKER; text := ""; srow := 2; scol := 0; erow := 2; ecol := 0 |} ].
Definition junk_oracle : oracle :=
  [("1", Some (OT "int" [OS "1"])); ("-1", Some (OT "int" [OS "-1"]));
   ("2", Some (OT "int" [OS "2"])); ("-2", Some (OT "int" [OS "-2"]))].
Lemma orig_accepts_junk :
  parse_single_value_orig junk_oracle junk_stream = POk (OT "int" [OS "1"]) /\
  parse_single_value junk_oracle junk_stream = PErr (ESyntax 1).
Proof. vm_compute. split; reflexivity. Qed.

(* non-vacuity of the completeness theorem: "[1,\n 2]  # c\n\n" *)
Definition num (s : string) (r c : nat) : token :=
  {| ty := NUMBER; text := s; srow := r; scol := c; erow := r; ecol := c + 1 |}.
Definition nl_tok : token := {| ty := NL; text := ""; srow := 1; scol := 3; erow := 1; ecol := 4 |}.
Definition ex_lay : layout := fun n => match n with 3 => [nl_tok] | _ => [] end.
Definition ex_lit : lit := LList [LBasic false (num "1" 1 1); LBasic false (num "2" 2 1)] false.
Definition ex_tr : list token := [ {| ty := COMMENT; text := "# c"; srow := 2; scol := 5; erow := 2; ecol := 8 |} ].
Definition ex_tl : list token :=
  [ {| ty := NEWLINE; text := ""; srow := 2; scol := 8; erow := 2; ecol := 9 |};
    {| ty := NL; text := ""; srow := 3; scol := 0; erow := 3; ecol := 1 |} ].
Definition ex_end : token := {| ty := ENDMARKER; text := ""; srow := 4; scol := 0; erow := 4; ecol := 0 |}.
Definition ex_stream : list token := fst (render ex_lit ex_lay 0 false) ++ ex_tr ++ ex_tl ++ [ex_end].

Lemma ex_complete_applies :
  parse_single_value junk_oracle ex_stream = POk (OT "L" [OT "int" [OS "1"]; OT "int" [OS "2"]]).
Proof.
  unfold ex_stream.
  apply (api_never_another_value junk_oracle ex_lit ex_lay 0 false _ _ 8 ex_tr ex_tl ex_end []).
  - intro n. unfold ex_lay. do 4 (destruct n as [|n]; [repeat constructor|]). constructor.
  - cbn. repeat split; try (intro; discriminate); tauto.
  - reflexivity.
  - reflexivity.
  - cbn. repeat (apply Forall_cons || apply Forall_nil); intros [H|[H|H]]; try discriminate H;
      repeat split; try (intro; discriminate); reflexivity.
  - constructor; [right; reflexivity | constructor].
  - unfold ex_tl, end_types. repeat (apply Forall_cons || apply Forall_nil); cbn; tauto.
  - intros t r E. injection E as <- _. reflexivity.
  - reflexivity.
Qed.
End C02_ApiExample.

Print Assumptions api_is_value_then_only_trivia.
Print Assumptions api_accepts_iff.
Print Assumptions api_rejects_trailing_junk.
Print Assumptions api_rejects_first_junk.
Print Assumptions api_rejects_junk_token.
Print Assumptions api_never_another_value.
Print Assumptions parse_value_rest_ne.
Print Assumptions api_accept_shape.
Print Assumptions api_sound.
Print Assumptions api_sound_exact.
Print Assumptions C02_ApiExample.orig_accepts_junk.
Print Assumptions C02_ApiExample.ex_complete_applies.
