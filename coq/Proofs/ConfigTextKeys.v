(* The written binding keys of config_text are well-formed names, from conditions on the INPUT: the selector of the
   entry is a dotted sequence of identifiers (PyStr.is_selector), its scope a "/"-joined list of identifiers, the
   parameter name an identifier.  The minimal selector is a non-empty dotted suffix of the selector. *)
From Coq Require Import List String ZArith Bool Arith Ascii Lia Permutation.
From GinV Require Import Lib.Out Lib.PyStr Model.SelectorMap Model.Parser Model.ParserSpec Model.ParserSpec2 Model.Repr Model.ReprText Model.Lexer.
From GinV Require Import Model.Serial Model.PPrint Model.ConfigText Model.ConfigSerial.
From GinV Require Import Proofs.ParserSmall Proofs.ParserLemmas Proofs.StatementProofs Proofs.StatementProofs2 Proofs.SerialProofs Proofs.MachineProofs.
Import ListNotations.
Open Scope string_scope.
Open Scope list_scope.

Definition ident (s : string) : Prop := is_identifier s = true.
Definition sepfree (w : string) : Prop := contains_char slash w = false /\ contains_char dot w = false.
Lemma ident_sepfree : forall p, ident p -> sepfree p.
Proof. intros p H. exact (ident_no_sep p H). Qed.

(* ---- key_parts on pieces without separators ---- *)
Lemma kp_ne : forall s, key_parts s <> [].
Proof. intros [|c r]; cbn [key_parts]; [discriminate|]. destruct (_ || _); [discriminate|]. destruct (key_parts r); discriminate. Qed.
Lemma sepfree_cons : forall a w, sepfree (String a w) -> (Ascii.eqb a slash || Ascii.eqb a dot) = false /\ sepfree w.
Proof.
  intros a w [H1 H2]. cbn [contains_char] in H1, H2. apply orb_false_iff in H1, H2. destruct H1 as [A1 B1], H2 as [A2 B2].
  rewrite Ascii.eqb_sym in A1. rewrite Ascii.eqb_sym in A2. rewrite A1, A2. split; [reflexivity | split; assumption].
Qed.
Lemma kp_nosep : forall w, sepfree w -> key_parts w = [w].
Proof.
  induction w as [|a w IH]; intro H; [reflexivity|]. destruct (sepfree_cons a w H) as [E Hw]. cbn [key_parts]. rewrite E, (IH Hw). reflexivity.
Qed.
Lemma kp_sep : forall w c K, sepfree w -> c = slash \/ c = dot ->
  key_parts (w ++ String c K) = w :: String c "" :: key_parts K.
Proof.
  induction w as [|a w IH]; intros c K H Hc.
  - cbn [String.append key_parts]. destruct Hc as [-> | ->]; reflexivity.
  - destruct (sepfree_cons a w H) as [E Hw]. cbn [String.append key_parts]. rewrite E, (IH c K Hw Hc). reflexivity.
Qed.
(* a written name is cut back into its parts *)
Lemma key_parts_alt : forall n parts, List.length parts <= n -> alt_ok parts true -> key_parts (concat_strs parts) = parts.
Proof.
  induction n as [|n IH]; intros parts Hn H.
  - destruct parts; [cbn [alt_ok] in H; discriminate H | cbn in Hn; lia].
  - destruct parts as [|p r]; [cbn [alt_ok] in H; discriminate H|]. cbn [alt_ok] in H. destruct H as [Hp Hr].
    destruct r as [|s r'].
    + cbn [concat_strs]. rewrite append_nil_r. apply kp_nosep, ident_sepfree, Hp.
    + cbn [alt_ok negb] in Hr. destruct Hr as [Hs Hr']. cbn [concat_strs].
      assert (Es : exists c, s = String c "" /\ (c = slash \/ c = dot)) by (destruct Hs as [-> | ->]; eexists; (split; [reflexivity | auto])).
      destruct Es as [c [-> Hc]]. change (String c "" ++ concat_strs r')%string with (String c (concat_strs r')).
      rewrite (kp_sep p c _ (ident_sepfree p Hp) Hc), (IH r'); [reflexivity | cbn [List.length] in Hn; lia | exact Hr'].
Qed.

(* ---- building well-formed names ---- *)
Lemma split_aux_cons_sep : forall sep s K cur, contains_char sep s = false ->
  split_aux sep (s ++ String sep K) cur = (cur ++ s)%string :: split_aux sep K "".
Proof.
  intros sep. induction s as [|c s IH]; intros K cur H.
  - cbn [String.append split_aux]. rewrite Ascii.eqb_refl, append_nil_r. reflexivity.
  - cbn [contains_char] in H. apply orb_false_iff in H. destruct H as [Hc Hs]. cbn [String.append split_aux].
    rewrite Ascii.eqb_sym in Hc. rewrite Hc, (IH K _ Hs), append_assoc. reflexivity.
Qed.
Lemma wf_name_single : forall a, ident a -> wf_name [a].
Proof.
  intros a Ha. destruct (ident_no_sep a Ha) as [Hs Hd]. unfold wf_name. split; [discriminate|]. split; [|cbn; auto].
  unfold name_text. cbn [concat_strs]. rewrite append_nil_r. unfold selector_format_ok, split_slash, split.
  rewrite (split_aux_nosep slash a "" Hs). cbn [removelast last forallb String.append andb orb].
  unfold is_selector, split_dot, split. rewrite (split_aux_nosep dot a "" Hd). cbn [forallb String.append]. rewrite Ha. reflexivity.
Qed.
Lemma wf_name_prepend : forall s parts, ident s -> wf_name parts -> wf_name (s :: "/" :: parts).
Proof.
  intros s parts Hs Hwf. destruct (wf_name_alt _ Hwf) as [Hne [Hfmt Halt]]. destruct (ident_no_sep s Hs) as [Hss _].
  unfold wf_name. split; [discriminate|]. split; [|cbn [alt_ok negb]; auto].
  unfold name_text in *. cbn [concat_strs]. change ("/" ++ concat_strs parts)%string with (String slash (concat_strs parts)).
  unfold selector_format_ok, split_slash, split in *. rewrite (split_aux_cons_sep slash s _ "" Hss). cbn [String.append].
  set (L := split_aux slash (concat_strs parts) "") in *. pose proof (split_aux_ne slash (concat_strs parts) "") as HL. fold L in HL.
  destruct L as [|l0 L']; [congruence|]. cbn [orb] in *. rewrite andb_true_r in *.
  change (removelast (s :: l0 :: L')) with (s :: removelast (l0 :: L')). change (last (s :: l0 :: L') "") with (last (l0 :: L') "").
  cbn [forallb]. rewrite Hs. exact Hfmt.
Qed.

Definition dot_tail (r : list string) : list string := flat_map (fun p => ["."; p]) r.
Fixpoint slash_parts (scs : list string) (parts : list string) : list string :=
  match scs with [] => parts | s :: r => s :: "/" :: slash_parts r parts end.
Lemma wf_dot_parts : forall a r, ident a -> Forall ident r -> wf_name (a :: dot_tail r).
Proof.
  intros a r Ha. induction r as [|p r IH] using rev_ind; intro Hr; [exact (wf_name_single a Ha)|].
  apply Forall_app in Hr. destruct Hr as [Hr Hp]. unfold dot_tail. rewrite flat_map_app. cbn [flat_map app].
  change (a :: flat_map (fun p0 => ["."; p0]) r ++ ["."; p]) with ((a :: dot_tail r) ++ ["."; p]).
  apply wf_name_extend; [exact (IH Hr) | exact (Forall_inv Hp)].
Qed.
Lemma wf_slash_parts : forall scs parts, Forall ident scs -> wf_name parts -> wf_name (slash_parts scs parts).
Proof.
  induction scs as [|s r IH]; intros parts Hs Hp; [exact Hp|]. cbn [slash_parts].
  apply wf_name_prepend; [exact (Forall_inv Hs) | exact (IH parts (Forall_inv_tail Hs) Hp)].
Qed.
Lemma text_dot_parts : forall r a, concat_strs (a :: dot_tail r) = join "." (a :: r).
Proof.
  induction r as [|b r IH]; intro a; [cbn; apply append_nil_r|].
  change (concat_strs (a :: dot_tail (b :: r))) with (a ++ "." ++ concat_strs (b :: dot_tail r))%string. rewrite IH. reflexivity.
Qed.
Lemma text_slash_parts : forall scs parts,
  concat_strs (slash_parts scs parts) = ((match scs with [] => "" | _ :: _ => join "/" scs ++ "/" end) ++ concat_strs parts)%string.
Proof.
  induction scs as [|s r IH]; intro parts; [reflexivity|]. cbn [slash_parts concat_strs]. rewrite IH.
  destruct r as [|t r']; [cbn [join String.append]; rewrite !append_assoc; reflexivity|].
  change (join "/" (s :: t :: r')) with (s ++ "/" ++ join "/" (t :: r'))%string. rewrite !append_assoc. reflexivity.
Qed.

(* ---- the minimal selector is a non-empty dotted suffix of the selector ---- *)
Lemma sm_minimal_suffix_ne : forall (k : key) (m : smap unit) k', k <> [] ->
  sm_minimal k m = Some k' -> exists n, n < List.length k /\ k' = skipn n k.
Proof.
  intros k m k' Hne H. assert (Hl : 0 < List.length k) by (destruct k; [congruence | cbn; lia]).
  unfold sm_minimal, sm_minimal_gen in H.
  destruct (fmem k (sm_flat m)); [|discriminate].
  destruct (min_loop true 0 (rev k) None (sm_tree m)) as [[start t]|]; [|discriminate].
  destruct (Nat.ltb 1 (t_len t)); [injection H as <-; exists 0; split; [exact Hl | reflexivity]|].
  destruct start as [[|i]|]; injection H as <-; try (exists 0; split; [exact Hl | reflexivity]).
  unfold last_n. exists (List.length k - S i). split; [lia | reflexivity].
Qed.
Lemma skipn_ne : forall (A : Type) n (l : list A), n < List.length l -> skipn n l <> [].
Proof. intros A n l H E. pose proof (f_equal (@List.length A) E) as EE. rewrite skipn_length in EE. cbn in EE. lia. Qed.
Lemma split_ne : forall sep s, split sep s <> [].
Proof. intros. apply split_aux_ne. Qed.

Theorem c_minimal_form : forall reg e, is_selector (c_sel e) = true ->
  exists a r, ident a /\ Forall ident r /\ c_minimal reg e = join "." (a :: r).
Proof.
  intros reg e Hsel. unfold is_selector in Hsel. set (ids := split_dot (c_sel e)) in *.
  assert (Hids : Forall ident ids) by (apply Forall_forall; intros x Hx; exact (proj1 (forallb_forall _ _) Hsel x Hx)).
  assert (Hne : ids <> []) by (apply split_ne).
  assert (Hsuf : forall n, n < List.length ids -> exists a r, ident a /\ Forall ident r /\ join_dot (skipn n ids) = join "." (a :: r)).
  { intros n Hn. pose proof (skipn_ne _ n ids Hn) as Hs. pose proof (Forall_skipn' _ ident n ids Hids) as Hf.
    destruct (skipn n ids) as [|a r]; [congruence|]. exists a, r. split; [exact (Forall_inv Hf)|]. split; [exact (Forall_inv_tail Hf) | reflexivity]. }
  assert (Hl : 0 < List.length ids) by (destruct ids; [congruence | cbn; lia]).
  unfold c_minimal.
  set (m0 := match sm_minimal (to_key (c_sel e)) reg with Some k => of_key k | None => c_sel e end).
  assert (Hm0 : exists a r, ident a /\ Forall ident r /\ m0 = join "." (a :: r)).
  { subst m0. destruct (sm_minimal (to_key (c_sel e)) reg) as [k|] eqn:Ek.
    - destruct (sm_minimal_suffix_ne _ _ _ Hne Ek) as [n [Hn ->]]. exact (Hsuf n Hn).
    - rewrite <- (of_key_to_key (c_sel e)). exact (Hsuf 0 Hl). }
  destruct (c_method e && negb (contains_char dot m0)); [|exact Hm0].
  unfold last_n. fold ids. apply Hsuf. lia.
Qed.

(* ---- the keys config_text writes ---- *)
From GinV Require Import Proofs.ReprProofs Proofs.ReprTextProofs Proofs.PPrintProofs Proofs.ConfigTextProofs Proofs.ConfigTextBridge.
Definition scope_ok (s : string) : Prop := exists scs, Forall ident scs /\ s = join "/" scs.

Lemma join_snoc : forall sep l x, join sep (l ++ [x]) = (match l with [] => x | _ :: _ => join sep l ++ sep ++ x end)%string.
Proof.
  intros sep. induction l as [|a l IH]; intro x; [reflexivity|]. destruct l as [|b l'].
  - reflexivity.
  - change (join sep ((a :: b :: l') ++ [x])) with (a ++ sep ++ join sep ((b :: l') ++ [x]))%string. rewrite IH.
    change (join sep (a :: b :: l')) with (a ++ sep ++ join sep (b :: l'))%string. rewrite !append_assoc. reflexivity.
Qed.
Lemma ident_ne : forall s, ident s -> exists c r, s = String c r.
Proof. intros [|c r] H; [discriminate H | eauto]. Qed.
Lemma scope_prefix : forall scs, Forall ident scs ->
  (if String.eqb (join "/" scs) "" then "" else join "/" scs ++ "/")%string = (match scs with [] => "" | _ :: _ => join "/" scs ++ "/" end)%string.
Proof.
  intros [|s r] H; [reflexivity|]. destruct (ident_ne s (Forall_inv H)) as [c [w ->]].
  destruct r; reflexivity.
Qed.

Theorem section_key_wf : forall reg e p, is_selector (c_sel e) = true -> scope_ok (c_scope e) -> ident p ->
  wf_name (key_parts (c_scoped_selector reg e ++ "." ++ p)) /\
  exists parts, alt_ok parts true /\ c_scoped_selector reg e = concat_strs parts.
Proof.
  intros reg e p Hsel [scs [Hscs Esc]] Hp. destruct (c_minimal_form reg e Hsel) as [a [r [Ha [Hr Em]]]].
  set (P1 := slash_parts scs (a :: dot_tail r)). set (P2 := slash_parts scs (a :: dot_tail (r ++ [p]))).
  assert (W1 : wf_name P1) by (apply wf_slash_parts; [exact Hscs | apply wf_dot_parts; assumption]).
  assert (W2 : wf_name P2).
  { apply wf_slash_parts; [exact Hscs|]. apply wf_dot_parts; [exact Ha|]. apply Forall_app. split; [exact Hr | constructor; [exact Hp | constructor]]. }
  assert (E1 : c_scoped_selector reg e = concat_strs P1).
  { unfold c_scoped_selector, P1. rewrite text_slash_parts, text_dot_parts, Em, Esc, (scope_prefix scs Hscs). reflexivity. }
  assert (E2 : (c_scoped_selector reg e ++ "." ++ p)%string = concat_strs P2).
  { unfold c_scoped_selector, P2. rewrite text_slash_parts, text_dot_parts, Em, Esc, (scope_prefix scs Hscs).
    change (a :: r ++ [p]) with ((a :: r) ++ [p]). rewrite join_snoc. cbn [app]. rewrite !append_assoc. reflexivity. }
  split.
  - rewrite E2. destruct (wf_name_alt _ W2) as [_ [_ A2]]. rewrite (key_parts_alt _ P2 (le_n _) A2). exact W2.
  - exists P1. destruct (wf_name_alt _ W1) as [_ [_ A1]]. split; [exact A1 | exact E1].
Qed.

Theorem macro_key_wf : forall s, scope_ok s -> s <> "" -> wf_name (key_parts s) /\ contains_char dot (snd (split_scoped s)) = false.
Proof.
  intros s [scs [Hscs ->]] Hne. destruct scs as [|x l] using rev_ind; [exfalso; apply Hne; reflexivity|]. clear IHl.
  apply Forall_app in Hscs. destruct Hscs as [Hl Hx]. pose proof (Forall_inv Hx) as Hxi. destruct (ident_no_sep x Hxi) as [Xs Xd].
  set (P := slash_parts l [x]).
  assert (W : wf_name P) by (apply wf_slash_parts; [exact Hl | exact (wf_name_single x Hxi)]).
  assert (E : join "/" (l ++ [x]) = concat_strs P).
  { unfold P. rewrite text_slash_parts, join_snoc. cbn [concat_strs]. rewrite append_nil_r. destruct l; [reflexivity | rewrite !append_assoc; reflexivity]. }
  split.
  - rewrite E. destruct (wf_name_alt _ W) as [_ [_ A]]. rewrite (key_parts_alt _ P (le_n _) A). exact W.
  - rewrite join_snoc. unfold split_scoped. destruct l as [|b l'].
    + rewrite (rsplit1_none slash x Xs). exact Xd.
    + change (join "/" (b :: l') ++ "/" ++ x)%string with (join "/" (b :: l') ++ String slash x)%string.
      rewrite (rsplit1_app slash _ x Xs). exact Xd.
Qed.

Lemma join_idents_noslash : forall a r, ident a -> Forall ident r -> contains_char slash (join "." (a :: r)) = false.
Proof.
  intros a r. revert a. induction r as [|b r IH]; intros a Ha Hr; [exact (proj1 (ident_no_sep a Ha))|].
  change (join "." (a :: b :: r)) with (a ++ "." ++ join "." (b :: r))%string. rewrite !contains_char_append.
  rewrite (proj1 (ident_no_sep a Ha)), (IH b (Forall_inv Hr) (Forall_inv_tail Hr)). reflexivity.
Qed.
Lemma alt_nl_free : forall parts b, alt_ok parts b -> nl_free (cs (concat_strs parts)).
Proof.
  induction parts as [|p r IH]; intros b H; [reflexivity|]. cbn [alt_ok] in H. destruct H as [Hp Hr]. cbn [concat_strs]. rewrite cs_app.
  apply nl_free_app; [|exact (IH _ Hr)]. destruct b.
  - destruct (ident_cs p Hp) as [c [w [_ [_ Hw]]]]. exact (word_nl_free _ Hw).
  - destruct Hp as [-> | ->]; reflexivity.
Qed.

(* the conditions on an entry, on the INPUT only *)
Definition value_ok (o : oracle) (v : pv) : Prop :=
  atoms_ok o v /\ Forall atom_lexable (pv_atoms v) /\ Forall nl_free_atom (pv_atoms v) /\ pv_depth v <= 200 /\ str_neg_ok o v.
Definition entry_input_ok (o : oracle) (e : centry) : Prop :=
  is_selector (c_sel e) = true /\ scope_ok (c_scope e) /\
  (forall p v, In (p, CLit v) (c_params e) -> ident p /\ value_ok o v).

Theorem entry_ok_from_input : forall o reg e, entry_input_ok o e -> entry_ok o reg e /\ entry_keys_ok reg e.
Proof.
  intros o reg e [Hsel [Hsc Hp]].
  assert (Hlit : forall p v, In (p, v) (c_lit_params e) -> ident p /\ value_ok o v) by (intros p v Hin; exact (Hp p v (c_lit_params_In e p v Hin))).
  destruct (c_minimal_form reg e Hsel) as [a [r [Ha [Hr Em]]]].
  split; [split; [|split]|split; [|split]].
  - destruct (section_key_wf reg e "x" Hsel Hsc eq_refl) as [_ [parts [A E]]]. rewrite E. exact (alt_nl_free parts true A).
  - intros v Hv. assert (Hne : c_scope e <> "").
    { unfold c_macro_value in Hv. destruct (String.eqb (c_scope e) "") eqn:E; [rewrite andb_false_r in Hv; discriminate Hv|].
      apply String.eqb_neq. exact E. }
    assert (Hval : value_ok o v).
    { unfold c_macro_value in Hv. destruct (c_is_macro e && _); [|discriminate]. destruct (cget_value (c_params e)) as [[x|]|] eqn:Eg; try discriminate.
      injection Hv as ->. destruct (cget_value_In _ _ Eg) as [k Hk]. exact (proj2 (Hp k v Hk)). }
    split; [exact (proj1 (macro_key_wf _ Hsc Hne)) | exact Hval].
  - intros p v Hin. destruct (Hlit p v Hin) as [Hpi Hval]. split; [exact (proj1 (section_key_wf reg e p Hsel Hsc Hpi)) | exact Hval].
  - rewrite Em. exact (join_idents_noslash a r Ha Hr).
  - destruct (String.eqb (c_scope e) "") eqn:E; [apply String.eqb_eq in E; rewrite E; reflexivity|].
    apply String.eqb_neq in E. exact (proj2 (macro_key_wf _ Hsc E)).
  - intros p v Hin. exact (ident_no_sep p (proj1 (Hlit p v Hin))).
Qed.

(* END TO END with conditions on the input only: registry-independent (the minimal selector is whatever sm_minimal says) *)
Theorem config_text_reads_back_input : forall o registry entries maxlen indent,
  Forall (entry_input_ok o) entries ->
  supported (ConfigText.config_text registry entries maxlen indent) = true ->
  exists ts, lex (ConfigText.config_text registry entries maxlen indent) = Some ts /\
    exists fuel0, forall fuel, fuel0 <= fuel ->
      exists stmts, parse_all fuel o false ts [] = (stmts, None) /\
                    stmts = expected_stmts o registry entries maxlen indent /\
                    flat_map stmt_binding stmts = expected_bindings o registry entries.
Proof.
  intros o registry entries maxlen indent H Hs.
  assert (H1 : Forall (entry_ok o (reg_of registry)) entries) by (eapply Forall_impl; [|exact H]; intros e He; exact (proj1 (entry_ok_from_input o _ e He))).
  assert (H2 : Forall (entry_keys_ok (reg_of registry)) entries) by (eapply Forall_impl; [|exact H]; intros e He; exact (proj2 (entry_ok_from_input o _ e He))).
  destruct (config_text_reads_back_entries o registry entries maxlen indent H1 Hs) as [ts [Hl [fuel0 Hp]]].
  exists ts. split; [exact Hl|]. exists fuel0. intros fuel Hf. exists (expected_stmts o registry entries maxlen indent).
  split; [exact (Hp fuel Hf)|]. split; [reflexivity|]. apply stmts_are_bindings; [|exact H2].
  eapply Forall_impl; [|exact H1]. intros e He. exact (entry_ok_denotes o _ e He).
Qed.

(* ---- non-vacuity: the store of Proofs/ConfigTextProofs.v without its "# None." section ---- *)
Definition ct2_entries : list centry := firstn 2 ct_ex_entries.
Ltac ct2_value_ok := unfold value_ok; split; [first [exact pp_ex_atoms_ok | cbn; repeat split; try (right; reflexivity); try discriminate; eexists; reflexivity]|];
  split; [first [exact pp_ex_atoms_lexable | cbn [pv_atoms]; apply Forall_cons; [apply atom_lexable_b_ok; vm_compute; reflexivity | apply Forall_nil]]|];
  split; [first [exact pp_ex_atoms_nl_free | cbn [pv_atoms]; apply Forall_cons; [vm_compute; reflexivity | apply Forall_nil]]|];
  split; [vm_compute; repeat constructor|];
  first [change (str_neg_ok pp_ex_oracle pp_ex_value); ct_str_neg | apply Forall_cons; [let E := fresh "E" in intro E; discriminate E | apply Forall_nil]].
Example ct2_input_ok : Forall (entry_input_ok pp_ex_oracle) ct2_entries.
Proof.
  unfold ct2_entries, ct_ex_entries. cbn [firstn]. apply Forall_cons; [|apply Forall_cons; [|apply Forall_nil]].
  - split; [vm_compute; reflexivity|]. split; [exists ["mm"]; split; [repeat constructor | reflexivity]|].
    intros p v Hin. cbn [c_params In] in Hin. destruct Hin as [E|[]]. injection E as <- <-. split; [reflexivity | ct2_value_ok].
  - split; [vm_compute; reflexivity|]. split; [exists ["a"; "b"]; split; [repeat constructor | reflexivity]|].
    intros p v Hin. cbn [c_params In] in Hin. destruct Hin as [E|[E|[E|[]]]]; try discriminate E; injection E as <- <-; (split; [reflexivity | ct2_value_ok]).
Qed.
Example ct2_reads_back_applies :
  exists ts, lex (ConfigText.config_text ct_ex_registry ct2_entries 24 4) = Some ts /\
    exists fuel0, forall fuel, fuel0 <= fuel ->
      exists stmts, parse_all fuel pp_ex_oracle false ts [] = (stmts, None) /\
        stmts = expected_stmts pp_ex_oracle ct_ex_registry ct2_entries 24 4 /\
        flat_map stmt_binding stmts = expected_bindings pp_ex_oracle ct_ex_registry ct2_entries.
Proof. apply config_text_reads_back_input; [exact ct2_input_ok | vm_compute; reflexivity]. Qed.
Example ct2_bindings : expected_bindings pp_ex_oracle ct_ex_registry ct2_entries =
  [("", "mm", "", Some (OT "int" [OS "3"])); ("a/b", "f", "lr", Some (OT "int" [OS "-1"])); ("a/b", "f", "x", Some pp_ex_out)] /\
  store_bindings pp_ex_oracle (reg_of ct_ex_registry) (c_restored ct2_entries) = expected_bindings pp_ex_oracle ct_ex_registry ct2_entries.
Proof. split; vm_compute; reflexivity. Qed.
Example ct2_ascii : Forall (entry_ascii (reg_of ct_ex_registry) (24 - 4)) ct2_entries.
Proof.
  unfold ct2_entries, ct_ex_entries. cbn [firstn]. apply Forall_cons; [|apply Forall_cons; [|apply Forall_nil]].
  - split; [vm_compute; reflexivity|]. split; [vm_compute; reflexivity|]. intros p v Hin. cbn [c_params In] in Hin.
    destruct Hin as [E|[]]. injection E as <- <-. split; vm_compute; reflexivity.
  - split; [vm_compute; reflexivity|]. split; [vm_compute; reflexivity|]. intros p v Hin. cbn [c_params In] in Hin.
    destruct Hin as [E|[E|[E|[]]]]; try discriminate E; injection E as <- <-; (split; vm_compute; reflexivity).
Qed.
Example ct2_fixpoint_applies :
  ConfigText.config_text ct_ex_registry (c_restored ct2_entries) 24 4 = ConfigText.config_text ct_ex_registry ct2_entries 24 4.
Proof.
  apply config_text_restored_fixpoint; [vm_compute; repeat constructor; intro H; cbn in H; intuition discriminate | | exact ct2_ascii].
  intros e Hin _. unfold ct2_entries, ct_ex_entries in Hin. cbn [firstn In] in Hin. destruct Hin as [<-|[<-|[]]]; vm_compute; discriminate.
Qed.
(* the section that prints only "# None." is lost on re-reading (F18): with it the fixed point fails *)
Example ct_ex_fixpoint_fails :
  ConfigText.config_text ct_ex_registry (c_restored ct_ex_entries) 24 4 <> ConfigText.config_text ct_ex_registry ct_ex_entries 24 4.
Proof. vm_compute. discriminate. Qed.
