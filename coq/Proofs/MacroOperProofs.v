(* C05 (macros are late-bound) and C07 (what the operative record holds): theorems about the Gin
   machine (Model/Gin.v, Model/GinEngine.v).  Axiom-free, stdlib only. *)
From Coq Require Import List String ZArith Bool Arith Lia.
From GinV Require Import Lib.Out Lib.PyStr Model.SelectorMap Model.Values Model.Gin Model.GinEngine Model.CallSpec
                         Proofs.CallLemmas Proofs.CallProofs Proofs.MachineFrame Proofs.MachineProofs.
Import ListNotations.
Open Scope string_scope.
Open Scope list_scope.

(* ================================================================== *)
(* an induction principle for the nested inductive [value]             *)
(* ================================================================== *)
Lemma value_ind_nested : forall P : value -> Prop,
  (forall l, Forall P l -> P (VList l)) ->
  (forall l, Forall P l -> P (VTuple l)) ->
  (forall l, Forall (fun kv => P (fst kv) /\ P (snd kv)) l -> P (VDict l)) ->
  (forall v, match v with VList _ | VTuple _ | VDict _ => False | _ => True end -> P v) ->
  forall v, P v.
Proof.
  intros P HL HT HD HA. fix IH 1. intros v. destruct v; try (apply HA; exact I).
  - apply HL. revert l. fix IHl 1. intros [|x t]; constructor; [apply IH|apply IHl].
  - apply HT. revert l. fix IHl 1. intros [|x t]; constructor; [apply IH|apply IHl].
  - apply HD. revert l. fix IHl 1. intros [|[k x] t]; constructor; [split; apply IH|apply IHl].
Qed.

(* ================================================================== *)
(* C05: macros are late-bound                                          *)
(* ================================================================== *)

(* ---- the inner loops of [resolve] ---- *)
Definition rs_list (s : state) :=
  fix go (l : list value) : res (list value) :=
    match l with
    | [] => Ok []
    | x :: t => match resolve s x with
                | Raise e => Raise e
                | Ok x' => match go t with Raise e => Raise e | Ok t' => Ok (x' :: t') end
                end
    end.
Definition rs_dict (s : state) :=
  fix go (l : list (value * value)) : res (list (value * value)) :=
    match l with
    | [] => Ok []
    | (k, x) :: t =>
        match resolve s k with
        | Raise e => Raise e
        | Ok k' => match resolve s x with
                   | Raise e => Raise e
                   | Ok x' => match go t with Raise e => Raise e | Ok t' => Ok ((k', x') :: t') end
                   end
        end
    end.

Lemma resolve_VList : forall s l, resolve s (VList l) =
  match rs_list s l with Ok l' => Ok (VList l') | Raise e => Raise e end.
Proof. reflexivity. Qed.
Lemma resolve_VTuple : forall s l, resolve s (VTuple l) =
  match rs_list s l with Ok l' => Ok (VTuple l') | Raise e => Raise e end.
Proof. reflexivity. Qed.
Lemma resolve_VDict : forall s l, resolve s (VDict l) =
  match rs_dict s l with
  | Ok l' => match vdict_build l' with Some d => Ok (VDict d) | None => Raise "TypeError" end
  | Raise e => Raise e
  end.
Proof. reflexivity. Qed.
Lemma resolve_VRef : forall s sc sel ev, resolve s (VRef sc sel ev) =
  match reg_lookup s sel with
  | LFound c => Ok (VRef sc (c_sel c) ev)
  | LAmbiguous => Raise "KeyError"
  | LNone => Raise "ValueError"
  end.
Proof. reflexivity. Qed.
Lemma resolve_VMacro : forall s name, resolve s (VMacro name) =
  match sm_matching (to_key name) (constants s) with
  | [] => Ok (VRef (split_slash name) "gin.macro" true)
  | [k] => Ok (VRef (split_slash (of_key k)) "gin.constant" true)
  | _ => Raise "ValueError"
  end.
Proof. reflexivity. Qed.

(* a use stores a REFERENCE, never a value *)
Theorem C05_use_is_reference : forall s name, sm_matching (to_key name) (constants s) = [] ->
  resolve s (VMacro name) = Ok (VRef (split_slash name) "gin.macro" true).
Proof. intros s name H. rewrite resolve_VMacro, H. reflexivity. Qed.

(* what a value resolves to depends on the registry and the constants only *)
Theorem resolve_depends_on_reg_constants : forall s1 s2 v,
  reg s1 = reg s2 -> constants s1 = constants s2 -> resolve s1 v = resolve s2 v.
Proof.
  intros s1 s2 v Hr Hc. induction v as [l IH|l IH|l IH|v Hv] using value_ind_nested.
  - rewrite !resolve_VList. replace (rs_list s1 l) with (rs_list s2 l); [reflexivity|].
    induction IH as [|x t Hx Ht IHt]; [reflexivity|]. simpl. rewrite Hx, IHt. reflexivity.
  - rewrite !resolve_VTuple. replace (rs_list s1 l) with (rs_list s2 l); [reflexivity|].
    induction IH as [|x t Hx Ht IHt]; [reflexivity|]. simpl. rewrite Hx, IHt. reflexivity.
  - rewrite !resolve_VDict. replace (rs_dict s1 l) with (rs_dict s2 l); [reflexivity|].
    induction IH as [|[k x] t [Hk Hx] Ht IHt]; [reflexivity|]. simpl in Hk, Hx. simpl.
    rewrite Hk, Hx, IHt. reflexivity.
  - destruct v; try contradiction; try reflexivity.
    + rewrite !resolve_VRef. unfold reg_lookup. rewrite Hr. reflexivity.
    + rewrite !resolve_VMacro. rewrite Hc. reflexivity.
Qed.

Theorem C05_resolve_ignores_store : forall s cfg v, resolve (set_config cfg s) v = resolve s v.
Proof. intros s cfg v. apply resolve_depends_on_reg_constants; reflexivity. Qed.

(* ... nor on the operative record, the lock, the scope stack, the singletons, the hooks *)
Theorem C05_resolve_ignores_dynamic_state : forall s v o sc sg b,
  resolve (set_operative o (set_scopes sc (set_singletons sg (set_locked b s)))) v = resolve s v.
Proof. intros. apply resolve_depends_on_reg_constants; reflexivity. Qed.

Theorem C05_constant_unique : forall s name k, sm_matching (to_key name) (constants s) = [k] ->
  resolve s (VMacro name) = Ok (VRef (split_slash (of_key k)) "gin.constant" true).
Proof. intros s name k H. rewrite resolve_VMacro, H. reflexivity. Qed.

Theorem C05_constant_ambiguous : forall s name k1 k2 r, sm_matching (to_key name) (constants s) = k1 :: k2 :: r ->
  resolve s (VMacro name) = Raise "ValueError".
Proof. intros s name k1 k2 r H. rewrite resolve_VMacro, H. reflexivity. Qed.

(* ---- a macro definition is a binding of gin.macro.value ---- *)
Lemma rsplit1_aux_none : forall sep s, contains_char sep s = false -> rsplit1_aux sep s = None.
Proof.
  intros sep s. induction s as [|c r IH]; intros H; [reflexivity|].
  simpl in H. apply orb_false_iff in H. destruct H as [H1 H2].
  simpl. rewrite (IH H2). rewrite Ascii.eqb_sym, H1. reflexivity.
Qed.

Lemma rsplit1_aux_suffix_free : forall sep c s a b, rsplit1_aux sep s = Some (a, b) ->
  contains_char c s = false -> contains_char c b = false.
Proof.
  intros sep c s. induction s as [|d r IH]; intros a b H Hc; [discriminate|].
  simpl in Hc. apply orb_false_iff in Hc. destruct Hc as [_ Hc].
  simpl in H. destruct (rsplit1_aux sep r) as [[a' b']|] eqn:E.
  - inversion H; subst. eapply IH; [reflexivity|exact Hc].
  - destruct (Ascii.eqb d sep); [|discriminate]. inversion H; subst. exact Hc.
Qed.

(* the key of a macro definition: no '.', hence no parameter part *)
Lemma parse_binding_key_dotfree : forall name, contains_char dot name = false ->
  exists scope sel, parse_binding_key name = (scope, sel, "") /\ parse_scoped_selector name = (scope, sel).
Proof.
  intros name H. unfold parse_binding_key.
  destruct (parse_scoped_selector name) as [scope sel] eqn:E.
  exists scope, sel. split; [|reflexivity].
  assert (Hs : contains_char dot sel = false).
  { unfold parse_scoped_selector in E. destruct (rsplit1_aux slash name) as [[a b]|] eqn:E1.
    - inversion E; subst. eapply rsplit1_aux_suffix_free; eassumption.
    - inversion E; subst. exact H. }
  rewrite (rsplit1_aux_none _ _ Hs). reflexivity.
Qed.

Lemma parse_binding_key_dotfree_arg : forall name, contains_char dot name = false ->
  snd (parse_binding_key name) = "".
Proof.
  intros name H. destruct (parse_binding_key_dotfree name H) as [scope [sel [E _]]]. rewrite E. reflexivity.
Qed.

Theorem C05_definition_is_binding : forall f s name v v', resolve s v = Ok v' -> contains_char dot name = false ->
  exec (S f) s (OParse name v) =
  (let '(scope, sel, arg) := parse_binding_key name in
   run_res (bind_split s (if String.eqb scope "" then sel else (scope ++ "/" ++ sel)%string) "gin.macro" "value" v') ONone).
Proof.
  intros f s name v v' Hr Hd. rewrite exec_OParse, Hr.
  destruct (parse_binding_key_dotfree name Hd) as [scope [sel [E _]]]. rewrite E. reflexivity.
Qed.

(* the same with the key split explicitly: scope/sel where sel is dot-free *)
Theorem C05_definition_is_binding_explicit : forall f s name v v' scope sel,
  resolve s v = Ok v' -> contains_char dot name = false -> parse_scoped_selector name = (scope, sel) ->
  exec (S f) s (OParse name v) =
  run_res (bind_split s (if String.eqb scope "" then sel else (scope ++ "/" ++ sel)%string) "gin.macro" "value" v') ONone.
Proof.
  intros f s name v v' scope sel Hr Hd Hp. rewrite exec_OParse, Hr.
  destruct (parse_binding_key_dotfree name Hd) as [scope' [sel' [E E']]]. rewrite Hp in E'. inversion E'; subst.
  rewrite E. reflexivity.
Qed.

(* ---- THE late-binding theorem ---- *)
Definition atomic (v : value) : Prop := match v with VNone | VBool _ | VInt _ | VStr _ => True | _ => False end.

Lemma eval_atomic : forall f s v, atomic v -> eval (S f) s v = (s, Ok v).
Proof. intros f s v H. destruct v; try contradiction; reflexivity. Qed.

Lemma split_slash_nonempty : forall name, split_slash name <> [].
Proof. intro name. unfold split_slash, split. apply split_aux_nonempty. Qed.

(* gin.macro called without caller arguments: every applicable binding is used, and recorded *)
Lemma prep_bindings_macro_nocall : forall cfg sc,
  prep_bindings cfg sc macro_cfg [] [] = get_bindings_for cfg sc "gin.macro" true.
Proof. reflexivity. Qed.
Lemma prep_operative_macro_nocall : forall nk, prep_operative macro_cfg [] [] nk = supdate [] nk.
Proof. reflexivity. Qed.

Lemma only_value_singleton : forall (B : pdict) v, NoDup (map fst B) -> sget "value" B = Some v ->
  (forall p x, sget p B = Some x -> p = "value") -> B = [("value", v)].
Proof.
  intros B v Hnd Hv Honly. destruct B as [|[k x] t]; [discriminate|].
  assert (Hk : k = "value").
  { apply (Honly k x). rewrite sget_cons, String.eqb_refl. reflexivity. }
  subst k. rewrite sget_cons in Hv. simpl in Hv. inversion Hv; subst x.
  destruct t as [|[k2 x2] t']; [reflexivity|]. exfalso.
  simpl in Hnd. inversion Hnd as [|a l Hna Hnd']; subst.
  assert (Hne : k2 <> "value") by (intros ->; apply Hna; left; reflexivity).
  apply Hne. apply (Honly k2 x2). rewrite !sget_cons.
  destruct (String.eqb_spec k2 "value"); [contradiction|]. rewrite String.eqb_refl. reflexivity.
Qed.

Lemma macro_call_bound : forall f s v, atomic v -> lookup_sel s "gin.macro" = Some macro_cfg ->
  get_bindings_for (config s) (current_scope s) "gin.macro" true = [("value", v)] ->
  call (S (S f)) s "gin.macro" [] [] =
  (oper_update s (scope_str (current_scope s), "gin.macro") [("value", v)], Ok v).
Proof.
  intros f s v Ha Hl Hb. rewrite call_S, Hl.
  change (existsb is_req (skipn (List.length (supplied_positional_names (c_sig macro_cfg) [])) [])) with false.
  cbv iota zeta. rewrite prep_bindings_macro_nocall, Hb.
  rewrite go_kw_cons, (eval_atomic f _ v Ha). reflexivity.
Qed.

Lemma macro_call_unbound : forall f s, lookup_sel s "gin.macro" = Some macro_cfg ->
  get_bindings_for (config s) (current_scope s) "gin.macro" true = [] ->
  call (S f) s "gin.macro" [] [] =
  (oper_update s (scope_str (current_scope s), "gin.macro") [], Raise "TypeError").
Proof.
  intros f s Hl Hb. rewrite call_S, Hl.
  change (existsb is_req (skipn (List.length (supplied_positional_names (c_sig macro_cfg) [])) [])) with false.
  cbv iota zeta. rewrite prep_bindings_macro_nocall, Hb. reflexivity.
Qed.

(* general form, for an arbitrary non-empty scope list, with the exact final state *)
Theorem macro_use_eval_exact : forall f s sc v, atomic v -> sc <> [] -> scope_valid sc = true ->
  lookup_sel s "gin.macro" = Some macro_cfg ->
  get_bindings_for (config s) sc "gin.macro" true = [("value", v)] ->
  eval (S (S (S (S f)))) s (VRef sc "gin.macro" true) =
  (oper_update s (scope_str sc, "gin.macro") [("value", v)], Ok v).
Proof.
  intros f s sc v Ha Hne Hv Hl Hb. rewrite eval_VRef_true, call_handle_S.
  destruct sc as [|x sc]; [contradiction|]. cbv zeta. rewrite Hv. simpl negb. cbv iota.
  rewrite (macro_call_bound f (set_scopes ((x :: sc) :: scopes s) s) v Ha Hl Hb). reflexivity.
Qed.

Theorem macro_use_unbound_exact : forall f s sc, sc <> [] -> scope_valid sc = true ->
  lookup_sel s "gin.macro" = Some macro_cfg ->
  get_bindings_for (config s) sc "gin.macro" true = [] ->
  eval (S (S (S f))) s (VRef sc "gin.macro" true) =
  (oper_update s (scope_str sc, "gin.macro") [], Raise "TypeError").
Proof.
  intros f s sc Hne Hv Hl Hb. rewrite eval_VRef_true, call_handle_S.
  destruct sc as [|x sc]; [contradiction|]. cbv zeta. rewrite Hv. simpl negb. cbv iota.
  rewrite (macro_call_unbound f (set_scopes ((x :: sc) :: scopes s) s) Hl Hb). reflexivity.
Qed.

Theorem C05_use_evaluates_to_current_binding : forall f s name v,
  atomic v -> scope_valid (split_slash name) = true -> split_slash name <> [] ->
  lookup_sel s "gin.macro" = Some macro_cfg ->
  sget "value" (get_bindings_for (config s) (split_slash name) "gin.macro" true) = Some v ->
  (forall p x, sget p (get_bindings_for (config s) (split_slash name) "gin.macro" true) = Some x -> p = "value") ->
  exists s', eval (S (S (S (S f)))) s (VRef (split_slash name) "gin.macro" true) = (s', Ok v) /\ same_static s s'.
Proof.
  intros f s name v Ha Hv Hne Hl Hval Honly.
  pose proof (only_value_singleton _ v (gbf_nodup _ _ _ _) Hval Honly) as Hb.
  eexists. split; [apply macro_use_eval_exact; assumption|apply ss_oper_update].
Qed.

(* the same without the (redundant) non-emptiness hypothesis and with the exact final state: the use also
   records the value in the operative record, under (scope = the macro's name, gin.macro) *)
Theorem C05_use_evaluates_to_current_binding_exact : forall f s name v,
  atomic v -> scope_valid (split_slash name) = true ->
  lookup_sel s "gin.macro" = Some macro_cfg ->
  sget "value" (get_bindings_for (config s) (split_slash name) "gin.macro" true) = Some v ->
  (forall p x, sget p (get_bindings_for (config s) (split_slash name) "gin.macro" true) = Some x -> p = "value") ->
  eval (S (S (S (S f)))) s (VRef (split_slash name) "gin.macro" true) =
  (oper_update s (scope_str (split_slash name), "gin.macro") [("value", v)], Ok v).
Proof.
  intros f s name v Ha Hv Hl Hval Honly.
  pose proof (only_value_singleton _ v (gbf_nodup _ _ _ _) Hval Honly) as Hb.
  apply macro_use_eval_exact; try assumption. apply split_slash_nonempty.
Qed.

Theorem C05_unbound_macro_raises : forall f s name, scope_valid (split_slash name) = true -> split_slash name <> [] ->
  lookup_sel s "gin.macro" = Some macro_cfg ->
  get_bindings_for (config s) (split_slash name) "gin.macro" true = [] ->
  exists s', eval (S (S (S (S f)))) s (VRef (split_slash name) "gin.macro" true) = (s', Raise "TypeError").
Proof.
  intros f s name Hv Hne Hl Hb. eexists. apply (macro_use_unbound_exact (S f)); assumption.
Qed.

(* ================================================================== *)
(* C07: what the operative record holds                                *)
(* ================================================================== *)
Theorem C07_oper_update_get : forall s k vals, cget k (operative (oper_update s k vals)) =
  Some (supdate (match cget k (operative s) with Some d => d | None => [] end) vals).
Proof.
  intros s k vals. unfold oper_update. simpl operative. rewrite cget_cset.
  destruct (ckey_eqb_spec k k) as [_|N]; [reflexivity|congruence].
Qed.

Theorem C07_oper_update_other : forall s k k' vals, ckey_eqb k' k = false ->
  cget k' (operative (oper_update s k vals)) = cget k' (operative s).
Proof.
  intros s k k' vals H. unfold oper_update. simpl operative. rewrite cget_cset, H. reflexivity.
Qed.

(* ---- filter on association lists ---- *)
Lemma keys_filter_in : forall (g : string * value -> bool) l p, In p (map fst (filter g l)) -> In p (map fst l).
Proof.
  intros g l p H. apply in_map_iff in H. destruct H as [[k x] [E H]]. simpl in E; subst k.
  apply filter_In in H. destruct H as [H _]. apply (in_map fst) in H. exact H.
Qed.

Lemma keys_filter_nodup : forall (g : string * value -> bool) l, NoDup (map fst l) -> NoDup (map fst (filter g l)).
Proof.
  intros g l. induction l as [|[k x] t IH]; intros H; [constructor|].
  simpl in H. inversion H as [|a l' Hna Hnd]; subst. simpl. destruct (g (k, x)); [|apply IH; exact Hnd].
  simpl. constructor; [|apply IH; exact Hnd]. intro Hin. apply Hna. eapply keys_filter_in; exact Hin.
Qed.

Lemma sget_filter_none : forall (g : string * value -> bool) l p, sget p l = None -> sget p (filter g l) = None.
Proof.
  intros g l p H. apply sget_none_iff. intro Hin. apply keys_filter_in in Hin.
  apply sget_none_iff in H. contradiction.
Qed.

Lemma sget_filter_nodup : forall (g : string * value -> bool) l p, NoDup (map fst l) ->
  sget p (filter g l) = match sget p l with Some v => if g (p, v) then Some v else None | None => None end.
Proof.
  intros g l p. induction l as [|[k x] t IH]; intros Hnd; [reflexivity|].
  simpl in Hnd. inversion Hnd as [|a l' Hna Hnd']; subst.
  simpl filter. rewrite sget_cons. destruct (String.eqb_spec p k) as [E|N].
  - subst k. destruct (g (p, x)) eqn:G.
    + rewrite sget_cons, String.eqb_refl. reflexivity.
    + apply sget_filter_none. apply sget_none_iff. exact Hna.
  - destruct (g (k, x)).
    + rewrite sget_cons. destruct (String.eqb_spec p k); [contradiction|]. apply IH; exact Hnd'.
    + apply IH; exact Hnd'.
Qed.

(* a key all of whose entries are rejected by the filter is absent (no uniqueness needed) *)
Lemma sget_filter_rejected : forall (g : string * value -> bool) l p, (forall v, g (p, v) = false) ->
  sget p (filter g l) = None.
Proof.
  intros g l p H. induction l as [|[k x] t IH]; [reflexivity|].
  simpl filter. destruct (g (k, x)) eqn:G; [|exact IH].
  rewrite sget_cons. destruct (String.eqb_spec p k) as [E|N]; [|exact IH].
  subst k. rewrite H in G. discriminate.
Qed.

(* the signature defaults always have distinct names *)
Lemma kwarg_defaults_nodup : forall sg, NoDup (map fst (kwarg_defaults sg)).
Proof.
  intro sg. unfold kwarg_defaults. apply keys_supdate_nodup.
  match goal with |- NoDup (map fst (fold_left _ ?l [])) => change (NoDup (map fst (supdate (@nil (string * value)) l))) end.
  apply keys_supdate_nodup. constructor.
Qed.

Lemma configurable_defaults_nodup : forall c, NoDup (map fst (configurable_defaults c)).
Proof. intro c. unfold configurable_defaults. apply keys_filter_nodup. apply kwarg_defaults_nodup. Qed.

Definition default_recordable (c : cfgable) (p : string) (v : value) : Prop :=
  (c_allow c = [] \/ str_in p (c_allow c) = true) /\ str_in p (c_deny c) = false /\ representable v = true.

(* the defaults that may be recorded: exactly the signature defaults that are configurable and representable;
   no hypothesis is needed (the names of the signature defaults are always distinct) *)
Theorem C07_configurable_defaults_spec_strong : forall c p v,
  (sget p (configurable_defaults c) = Some v <->
   sget p (kwarg_defaults (c_sig c)) = Some v /\ (c_allow c = [] \/ str_in p (c_allow c) = true) /\
   str_in p (c_deny c) = false /\ representable v = true).
Proof.
  intros c p v. unfold configurable_defaults.
  rewrite sget_filter_nodup by apply kwarg_defaults_nodup.
  destruct (sget p (kwarg_defaults (c_sig c))) as [w|]; [|split; [discriminate|intros [H _]; discriminate]].
  cbv beta. simpl fst. simpl snd.
  destruct (negb (negb (match c_allow c with [] => true | _ => false end) && negb (str_in p (c_allow c)))) eqn:G1;
  destruct (str_in p (c_deny c)) eqn:G2; destruct (representable w) eqn:G3; simpl;
    try (split; [discriminate|intros [H [_ [H2 H3]]]; inversion H; subst; congruence]).
  - split.
    + intros H; inversion H; subst. split; [reflexivity|]. split; [|split; [reflexivity|exact G3]].
      apply allow_test. apply negb_true_iff. exact G1.
    + intros [H _]. exact H.
  - split; [discriminate|]. intros [H [Ha _]]. apply allow_test in Ha. rewrite Ha in G1. discriminate.
Qed.

Theorem C07_configurable_defaults_spec : forall c p v, NoDup (map fst (kwarg_defaults (c_sig c))) ->
  (sget p (configurable_defaults c) = Some v <->
   sget p (kwarg_defaults (c_sig c)) = Some v /\ (c_allow c = [] \/ str_in p (c_allow c) = true) /\
   str_in p (c_deny c) = false /\ representable v = true).
Proof. intros c p v _. apply C07_configurable_defaults_spec_strong. Qed.

(* what one call contributes to its section *)
Theorem C07_prep_operative_spec : forall c args kwargs nk p, NoDup (map fst nk) -> NoDup (map fst (configurable_defaults c)) ->
  sget p (prep_operative c args kwargs nk) =
  if (str_in p (supplied_positional_names (c_sig c) args) && negb (str_in p (required_positions (supplied_positional_names (c_sig c) args) args)))
     || (str_in p (map fst kwargs) && negb (str_in p (map fst (filter (fun kv => is_req (snd kv)) kwargs))))
  then None
  else match sget p nk with Some v => Some v | None => sget p (configurable_defaults c) end.
Proof.
  intros c args kwargs nk p Hnk Hcd. unfold prep_operative.
  assert (Hd : NoDup (map fst (supdate (configurable_defaults c) nk))) by (apply keys_supdate_nodup; exact Hcd).
  rewrite drop_names_spec by (apply drop_names_nodup; exact Hd).
  rewrite drop_names_spec by exact Hd.
  rewrite sget_supdate_nodup by exact Hnk.
  destruct (str_in p (map fst kwargs) && negb (str_in p (map fst (filter (fun kv => is_req (snd kv)) kwargs))));
    [rewrite orb_true_r; reflexivity|].
  rewrite orb_false_r. reflexivity.
Qed.

(* the second hypothesis is redundant *)
Theorem C07_prep_operative_spec_strong : forall c args kwargs nk p, NoDup (map fst nk) ->
  sget p (prep_operative c args kwargs nk) =
  if (str_in p (supplied_positional_names (c_sig c) args) && negb (str_in p (required_positions (supplied_positional_names (c_sig c) args) args)))
     || (str_in p (map fst kwargs) && negb (str_in p (map fst (filter (fun kv => is_req (snd kv)) kwargs))))
  then None
  else match sget p nk with Some v => Some v | None => sget p (configurable_defaults c) end.
Proof. intros. apply C07_prep_operative_spec; [assumption|apply configurable_defaults_nodup]. Qed.

(* in an actual call nk = prep_bindings ..., whose keys are distinct: what the call records, in terms of the store *)
Theorem C07_call_contribution : forall cfg scope c args kwargs p,
  sget p (prep_operative c args kwargs (prep_bindings cfg scope c args kwargs)) =
  if (str_in p (supplied_positional_names (c_sig c) args) && negb (str_in p (required_positions (supplied_positional_names (c_sig c) args) args)))
     || (str_in p (map fst kwargs) && negb (str_in p (map fst (filter (fun kv => is_req (snd kv)) kwargs))))
  then None
  else match sget p (get_bindings_for cfg scope (c_sel c) true) with
       | Some v => Some v
       | None => sget p (configurable_defaults c)
       end.
Proof.
  intros cfg scope c args kwargs p.
  rewrite C07_prep_operative_spec_strong by apply prep_bindings_nodup.
  rewrite prep_bindings_sget_gen. unfold caller_req_kw.
  destruct (str_in p (map fst kwargs) && negb (str_in p (map fst (filter (fun kv => is_req (snd kv)) kwargs))));
    [rewrite orb_true_r; reflexivity|].
  rewrite orb_false_r.
  destruct (str_in p (supplied_positional_names (c_sig c) args) &&
            negb (str_in p (required_positions (supplied_positional_names (c_sig c) args) args))); reflexivity.
Qed.

Theorem C07_denied_default_not_recorded : forall c p, str_in p (c_deny c) = true -> sget p (configurable_defaults c) = None.
Proof.
  intros c p H. unfold configurable_defaults. apply sget_filter_rejected. intro v.
  simpl fst. rewrite H. simpl. rewrite andb_false_r. reflexivity.
Qed.

Theorem C07_not_allowed_default_not_recorded : forall c p, c_allow c <> [] -> str_in p (c_allow c) = false ->
  sget p (configurable_defaults c) = None.
Proof.
  intros c p Hne H. unfold configurable_defaults. apply sget_filter_rejected. intro v.
  simpl fst. rewrite H. destruct (c_allow c); [contradiction|]. reflexivity.
Qed.

Theorem C07_unrepresentable_default_not_recorded : forall c p,
  (forall v, sget p (kwarg_defaults (c_sig c)) = Some v -> representable v = false) ->
  sget p (configurable_defaults c) = None.
Proof.
  intros c p H. destruct (sget p (configurable_defaults c)) as [v|] eqn:E; [|reflexivity].
  apply C07_configurable_defaults_spec_strong in E. destruct E as [E [_ [_ R]]]. rewrite (H v E) in R. discriminate.
Qed.

(* ---- lifting a preorder on states through eval / call_handle / call ---- *)
Section Lift.
  Variable R : state -> state -> Prop.
  Hypothesis R_refl : forall s, R s s.
  Hypothesis R_trans : forall a b c, R a b -> R b c -> R a c.
  Hypothesis R_oper_update : forall s k v, R s (oper_update s k v).
  Hypothesis R_log_call : forall s c, R s (log_call c s).
  Hypothesis R_set_singletons : forall s x, R s (set_singletons x s).
  Hypothesis R_set_scopes : forall s x, R s (set_scopes x s).

  Definition ev_R (ev : evaluator) : Prop := forall s v s' r, ev s v = (s', r) -> R s s'.
  Definition ch_R (f : nat) : Prop :=
    forall s sc sel args kw s' r, call_handle f s sc sel args kw = (s', r) -> R s s'.
  Definition call_R (f : nat) : Prop :=
    forall s sel args kw s' r, call f s sel args kw = (s', r) -> R s s'.

  Lemma go_list_R : forall ev, ev_R ev -> forall l s s' r, go_list ev s l = (s', r) -> R s s'.
  Proof.
    intros ev Hev l. induction l as [|x t IH]; intros s s' r H.
    - simpl in H. inversion H; subst. apply R_refl.
    - rewrite go_list_cons in H.
      destruct (ev s x) as [s1 rx] eqn:E1. pose proof (Hev _ _ _ _ E1) as F1.
      destruct rx as [x'|e]; [|inversion H; subst; exact F1].
      destruct (go_list ev s1 t) as [s2 rt] eqn:E2.
      pose proof (IH _ _ _ E2) as F2.
      destruct rt; inversion H; subst; eapply R_trans; eassumption.
  Qed.

  Lemma go_dict_R : forall ev, ev_R ev -> forall l s y s' r, go_dict ev s l y = (s', r) -> R s s'.
  Proof.
    intros ev Hev l. induction l as [|[k x] t IH]; intros s y s' r H.
    - simpl in H. inversion H; subst. apply R_refl.
    - rewrite go_dict_cons in H. destruct (ev s x) as [s0 rx] eqn:E0. pose proof (Hev _ _ _ _ E0) as F0.
      destruct rx as [x'|e]; [|inversion H; subst; exact F0].
      destruct (ev s0 k) as [s1 rk] eqn:E1. pose proof (Hev _ _ _ _ E1) as F1.
      destruct rk as [k'|e]; [|inversion H; subst; eapply R_trans; eassumption].
      destruct (py_hashable k'); [|inversion H; subst; eapply R_trans; eassumption].
      pose proof (IH _ _ _ _ H) as F2.
      eapply R_trans; [exact F0|]. eapply R_trans; eassumption.
  Qed.

  Lemma go_kw_R : forall ev, ev_R ev -> forall l s s' r, go_kw ev s l = (s', r) -> R s s'.
  Proof.
    intros ev Hev l. induction l as [|[k x] t IH]; intros s s' r H.
    - simpl in H. inversion H; subst. apply R_refl.
    - rewrite go_kw_cons in H. destruct (ev s x) as [s1 rx] eqn:E1. pose proof (Hev _ _ _ _ E1) as F1.
      destruct rx as [x'|e]; [|inversion H; subst; exact F1].
      destruct (go_kw ev s1 t) as [s2 rt] eqn:E2.
      pose proof (IH _ _ _ E2) as F2.
      destruct rt; inversion H; subst; eapply R_trans; eassumption.
  Qed.

  Lemma call_tail_R : forall f c sel sstr args kwargs s rk s' r, ch_R f ->
    call_tail f c sel sstr args kwargs s rk = (s', r) -> R s s'.
  Proof.
    intros f c sel sstr args kwargs s rk s' r Hch H. unfold call_tail in H.
    destruct rk as [nk|e]; [|inversion H; subst; apply R_refl].
    destruct (merge_call c args kwargs nk) as [[new_args final_kwargs]|e]; [|inversion H; subst; apply R_refl].
    destruct (py_bind (c_sig c) new_args final_kwargs) as [env|]; [|inversion H; subst; apply R_refl].
    destruct (c_kind c).
    - inversion H; subst. apply R_log_call.
    - inversion H; subst. apply R_refl.
    - destruct (fget (to_key sstr) (sm_flat (constants s))); inversion H; subst; apply R_refl.
    - destruct (sget sstr (singletons s)); [inversion H; subst; apply R_refl|].
      destruct (sget "constructor" env) as [x|]; [|inversion H; subst; apply R_refl].
      destruct x; try (inversion H; subst; apply R_refl).
      destruct (call_handle f s scopes sel0 [] []) as [s1 r1] eqn:E.
      pose proof (Hch _ _ _ _ _ _ _ E) as F.
      destruct r1; inversion H; subst; [|exact F].
      eapply R_trans; [exact F|apply R_set_singletons].
  Qed.

  Lemma lift_all : forall fuel, ev_R (eval fuel) /\ ch_R fuel /\ call_R fuel.
  Proof.
    induction fuel as [|f [IHe [IHh IHc]]].
    - split; [|split].
      + intros s v s' r H. rewrite eval_0 in H. inversion H; subst. apply R_refl.
      + intros s sc sel a k s' r H. rewrite call_handle_0 in H. inversion H; subst. apply R_refl.
      + intros s sel a k s' r H. rewrite call_0 in H. inversion H; subst. apply R_refl.
    - split; [|split].
      + intros s v s' r H. destruct v; try (simpl in H; inversion H; subst; apply R_refl).
        * rewrite eval_VList in H. destruct (go_list (eval f) s l) as [s1 r1] eqn:E.
          inversion H; subst. eapply go_list_R; eassumption.
        * rewrite eval_VTuple in H. destruct (go_list (eval f) s l) as [s1 r1] eqn:E.
          inversion H; subst. eapply go_list_R; eassumption.
        * rewrite eval_VDict in H. destruct (go_dict (eval f) s l []) as [s1 r1] eqn:E.
          inversion H; subst. eapply go_dict_R; eassumption.
        * destruct ev.
          -- rewrite eval_VRef_true in H. eapply IHh; eassumption.
          -- rewrite eval_VRef_false in H. inversion H; subst. apply R_refl.
      + intros s sc sel args kw s' r H. rewrite call_handle_S in H.
        destruct sc as [|x sc]; [eapply IHc; eassumption|].
        cbv zeta in H. destruct (negb (scope_valid (x :: sc))).
        * inversion H; subst. eapply R_trans; apply R_set_scopes.
        * destruct (call f (set_scopes ((x :: sc) :: scopes s) s) sel args kw) as [s2 r2] eqn:E.
          apply IHc in E. inversion H; subst. clear H.
          eapply R_trans; [apply R_set_scopes|]. eapply R_trans; [exact E|apply R_set_scopes].
      + intros s sel args kw s' r H. rewrite call_S in H.
        destruct (lookup_sel s sel) as [c|]; [|inversion H; subst; apply R_refl].
        destruct (existsb is_req _); [inversion H; subst; apply R_refl|].
        cbv zeta in H.
        match type of H with (let '(_, _) := ?X in _) = _ => destruct X as [s1 rk] eqn:E end.
        apply (go_kw_R _ IHe) in E. apply call_tail_R in H; [|exact IHh].
        eapply R_trans; [apply R_oper_update|]. eapply R_trans; eassumption.
  Qed.
End Lift.

(* sections of the operative record are never removed *)
Definition oper_mono (s s' : state) : Prop :=
  forall k, cget k (operative s) <> None -> cget k (operative s') <> None.

Lemma om_refl : forall s, oper_mono s s.
Proof. intros s k H. exact H. Qed.
Lemma om_trans : forall a b c, oper_mono a b -> oper_mono b c -> oper_mono a c.
Proof. intros a b c H1 H2 k H. apply H2, H1, H. Qed.
Lemma om_oper_update : forall s k v, oper_mono s (oper_update s k v).
Proof.
  intros s k v k' H. unfold oper_update. simpl operative. rewrite cget_cset.
  destruct (ckey_eqb k' k); [discriminate|exact H].
Qed.
Lemma om_log_call : forall s c, oper_mono s (log_call c s).
Proof. intros s c k H. exact H. Qed.
Lemma om_set_singletons : forall s x, oper_mono s (set_singletons x s).
Proof. intros s x k H. exact H. Qed.
Lemma om_set_scopes : forall s x, oper_mono s (set_scopes x s).
Proof. intros s x k H. exact H. Qed.

Definition om_all := lift_all oper_mono om_refl om_trans om_oper_update om_log_call om_set_singletons om_set_scopes.

Theorem C07_sections_only_grow : forall fuel s sel args kw s' r k, call fuel s sel args kw = (s', r) ->
  cget k (operative s) <> None -> cget k (operative s') <> None.
Proof. intros fuel s sel args kw s' r k H. apply (proj2 (proj2 (om_all fuel)) _ _ _ _ _ _ H). Qed.

Theorem C07_sections_only_grow_eval : forall fuel s v s' r k, eval fuel s v = (s', r) ->
  cget k (operative s) <> None -> cget k (operative s') <> None.
Proof. intros fuel s v s' r k H. apply (proj1 (om_all fuel) _ _ _ _ H). Qed.

Theorem C07_sections_only_grow_handle : forall fuel s sc sel args kw s' r k,
  call_handle fuel s sc sel args kw = (s', r) -> cget k (operative s) <> None -> cget k (operative s') <> None.
Proof. intros fuel s sc sel args kw s' r k H. apply (proj1 (proj2 (om_all fuel)) _ _ _ _ _ _ _ H). Qed.

(* a call records its section, whatever the kind of the configurable and however the call ends (as soon as the
   wrapper got past its REQUIRED-surplus check) *)
Theorem C07_call_records_section_gen : forall f s sel args kwargs s' r c, lookup_sel s sel = Some c ->
  existsb is_req (skipn (List.length (supplied_positional_names (c_sig c) args)) args) = false ->
  call (S f) s sel args kwargs = (s', r) -> cget (scope_str (current_scope s), sel) (operative s') <> None.
Proof.
  intros f s sel args kwargs s' r c Hl Hreq H. rewrite call_S, Hl, Hreq in H. cbv zeta in H.
  match type of H with (let '(_, _) := ?X in _) = _ => destruct X as [s1 rk] eqn:E end.
  apply (go_kw_R oper_mono om_refl om_trans _ (proj1 (om_all f))) in E.
  apply (call_tail_R oper_mono om_refl om_trans om_log_call om_set_singletons) in H;
    [|exact (proj1 (proj2 (om_all f)))].
  apply H, E. rewrite C07_oper_update_get. discriminate.
Qed.

Theorem C07_call_records_section : forall f s sel args kwargs s' r c, lookup_sel s sel = Some c -> c_kind c = KProbe ->
  existsb is_req (skipn (List.length (supplied_positional_names (c_sig c) args)) args) = false ->
  call (S f) s sel args kwargs = (s', r) -> cget (scope_str (current_scope s), sel) (operative s') <> None.
Proof. intros f s sel args kwargs s' r c Hl _. apply C07_call_records_section_gen; exact Hl. Qed.

(* conversely a call that does not get that far leaves the operative record alone *)
Theorem C07_rejected_call_records_nothing : forall f s sel args kwargs c, lookup_sel s sel = Some c ->
  existsb is_req (skipn (List.length (supplied_positional_names (c_sig c) args)) args) = true ->
  call (S f) s sel args kwargs = (s, Raise "ValueError").
Proof. intros f s sel args kwargs c Hl Hreq. rewrite call_S, Hl, Hreq. reflexivity. Qed.

(* ---- ops that do not call a configurable leave the operative record alone ---- *)
Definition non_calling (o : op) : Prop :=
  match o with
  | OBind _ _ | OBindT _ _ _ _ | OParse _ _ | OQuery _ | OLocked | OCurScope | ODumpConfig | ODumpOperative | ODumpCalls
  | OConstant _ _ | ORegister _ | OHook _ | ORaise => True
  | _ => False
  end.

Lemma bind_split_operative : forall s sc sel a v s' r, bind_split s sc sel a v = (s', r) -> operative s' = operative s.
Proof.
  intros s sc sel a v s' r H. apply bind_split_shape in H. destruct H as [[-> _]|[c [-> _]]]; reflexivity.
Qed.
Lemma run_res_operative : forall s x o s' r, (forall s1 r1, x = (s1, r1) -> operative s1 = operative s) ->
  run_res x o = (s', r) -> operative s' = operative s.
Proof.
  intros s x o s' r Hx H. apply run_res_cases in H.
  destruct H as [[s1 [E [-> _]]]|[e [E _]]].
  - simpl. eapply Hx; exact E.
  - eapply Hx; exact E.
Qed.

Theorem C07_non_call_ops_keep_operative : forall f s o s' r,
  (match o with OBind _ _ | OBindT _ _ _ _ | OParse _ _ | OQuery _ | OLocked | OCurScope | ODumpConfig | ODumpOperative | ODumpCalls
              | OConstant _ _ | ORegister _ | OHook _ | ORaise => True | _ => False end) ->
  exec f s o = (s', r) -> operative s' = operative s.
Proof.
  intros f s o s' r Ho H. destruct f as [|f].
  - rewrite exec_0 in H. inversion H; reflexivity.
  - destruct o; try contradiction.
    + rewrite exec_OBind in H. destruct (resolve s v); [|inversion H; reflexivity].
      destruct (parse_binding_key key) as [[scope sel] arg].
      eapply run_res_operative; [|exact H]. intros s1 r1 E. eapply bind_split_operative; exact E.
    + rewrite exec_OBindT in H. destruct (resolve s v); [|inversion H; reflexivity].
      eapply run_res_operative; [|exact H]. intros s1 r1 E. eapply bind_split_operative; exact E.
    + rewrite exec_OParse in H. destruct (resolve s v); [|inversion H; reflexivity].
      destruct (parse_binding_key key) as [[scope sel] arg].
      destruct (String.eqb arg "");
        (eapply run_res_operative; [|exact H]; intros s1 r1 E; eapply bind_split_operative; exact E).
    + rewrite exec_OQuery in H. cbv zeta in H.
      destruct (if is_selector key then sm_matching (to_key key) (constants s) else []) as [|k [|k2 l]].
      * destruct (parse_binding_key key) as [[scope sel] arg].
        destruct (pbk_validate s scope sel arg) as [[ck a]|e]; [|inversion H; reflexivity].
        destruct (cget ck (config s)) as [d|]; [|inversion H; reflexivity].
        destruct (sget a d); inversion H; reflexivity.
      * destruct (fget k (sm_flat (constants s))); inversion H; reflexivity.
      * inversion H; reflexivity.
    + simpl in H. inversion H; reflexivity.
    + simpl in H. inversion H; reflexivity.
    + simpl in H. inversion H; reflexivity.
    + rewrite exec_OConstant in H. eapply run_res_operative; [|exact H]. intros s1 r1 E.
      apply define_constant_shape in E. destruct E as [[-> _]|[-> _]]; reflexivity.
    + rewrite exec_ORegister in H. eapply run_res_operative; [|exact H]. intros s1 r1 E.
      apply register_shape in E. destruct E as [[-> _]|[-> _]]; reflexivity.
    + rewrite exec_OHook in H. inversion H; reflexivity.
    + simpl in H. inversion H; reflexivity.
    + simpl in H. inversion H; reflexivity.
    + simpl in H. inversion H; reflexivity.
Qed.

(* never-called configurables have no section: a program of non-calling ops, run from the pristine state, leaves
   the operative record empty *)
Theorem C07_never_called_empty : forall fuel ops s, Forall non_calling ops ->
  operative (run_top fuel s ops) = operative s.
Proof.
  intros fuel ops. induction ops as [|o ops IH]; intros s Hf; [reflexivity|].
  inversion Hf as [|x l Ho Hf']; subst. simpl.
  destruct (exec fuel s o) as [s1 r1] eqn:E. apply (C07_non_call_ops_keep_operative _ _ _ _ _ Ho) in E.
  rewrite IH by exact Hf'. destruct r1; simpl; exact E.
Qed.

Corollary C07_never_called_empty_init : forall fuel ops, Forall non_calling ops ->
  operative (run_top fuel init_state ops) = [].
Proof. intros fuel ops H. rewrite C07_never_called_empty by exact H. reflexivity. Qed.

(* ================================================================== *)
(* C05: the validate-macros finalize hook                              *)
(* ================================================================== *)
Lemma all_config_values_in : forall s ck p k v, In (ck, p) (config s) -> In (k, v) p ->
  In (ck, k, v) (all_config_values s).
Proof.
  intros s ck p k v H1 H2. unfold all_config_values. apply in_flat_map. exists (ck, p). split; [exact H1|].
  simpl. apply in_map_iff. exists (k, v). split; [reflexivity|exact H2].
Qed.

Lemma all_config_values_inv : forall s t, In t (all_config_values s) ->
  exists p, In (fst (fst t), p) (config s) /\ In (snd (fst t), snd t) p.
Proof.
  intros s t H. unfold all_config_values in H. apply in_flat_map in H. destruct H as [[ck p] [H1 H2]].
  simpl in H2. apply in_map_iff in H2. destruct H2 as [[k v] [E H2]]. subst t. simpl. exists p. split; assumption.
Qed.

Lemma cget_some_in : forall ck (cfg : cdict) p, cget ck cfg = Some p -> exists ck', In (ck', p) cfg /\ ckey_eqb ck ck' = true.
Proof.
  intros ck cfg p. induction cfg as [|[j w] cfg IH]; intros H; [discriminate|].
  change (cget ck ((j, w) :: cfg)) with (if ckey_eqb ck j then Some w else cget ck cfg) in H.
  destruct (ckey_eqb ck j) eqn:E.
  - inversion H; subst. exists j. split; [left; reflexivity|exact E].
  - destruct (IH H) as [ck' [H1 H2]]. exists ck'. split; [right; exact H1|exact H2].
Qed.

Lemma match_gin_macro : forall {A} (sel : string) (a b : A),
  (match sel with "gin.macro" => a | _ => b end) = if String.eqb sel "gin.macro" then a else b.
Proof.
  intros.
  do 10 (destruct sel as [|[[] [] [] [] [] [] [] []] sel]; try reflexivity).
Qed.

Definition macro_ref_ok (s : state) (x : value) : bool :=
  match x with
  | VRef sc sel ev => if String.eqb sel "gin.macro" then amem ckey_eqb (scope_str sc, "gin.macro") (config s) && ev else true
  | _ => true
  end.

Lemma forallb_ext_all : forall {A} (f g : A -> bool) l, (forall x, f x = g x) -> forallb f l = forallb g l.
Proof.
  intros A f g l H. induction l as [|x t IH]; [reflexivity|].
  change (forallb f (x :: t)) with (f x && forallb f t). change (forallb g (x :: t)) with (g x && forallb g t).
  rewrite H, IH. reflexivity.
Qed.

Lemma macros_hook_ok_eq : forall s, macros_hook_ok s =
  forallb (fun t => forallb (macro_ref_ok s) (flat_values 50 (snd t))) (all_config_values s).
Proof.
  intro s. unfold macros_hook_ok. apply forallb_ext_all. intro t. apply forallb_ext_all. intro x.
  destruct x; try reflexivity. unfold macro_ref_ok. apply match_gin_macro.
Qed.

(* the hook accepts exactly the stores in which every (nested) macro reference is evaluated (`%m`, not a bare
   handle) and names a macro that has a section in the store *)
Theorem C05_macros_hook_iff : forall s, macros_hook_ok s = true <->
  (forall ck p k v sc ev, In (ck, p) (config s) -> In (k, v) p -> In (VRef sc "gin.macro" ev) (flat_values 50 v) ->
     amem ckey_eqb (scope_str sc, "gin.macro") (config s) = true /\ ev = true).
Proof.
  intro s. rewrite macros_hook_ok_eq. split.
  - intros H ck p k v sc ev H1 H2 H3.
    rewrite forallb_forall in H. pose proof (H _ (all_config_values_in _ _ _ _ _ H1 H2)) as Ht.
    cbv beta in Ht. change (snd (ck, k, v)) with v in Ht. rewrite forallb_forall in Ht. pose proof (Ht _ H3) as Hx.
    unfold macro_ref_ok in Hx. rewrite String.eqb_refl in Hx. apply andb_true_iff in Hx. exact Hx.
  - intros H. apply forallb_forall. intros t Ht. apply forallb_forall. intros x Hx.
    destruct (all_config_values_inv _ _ Ht) as [p [H1 H2]].
    destruct x; try reflexivity. unfold macro_ref_ok.
    destruct (String.eqb_spec sel "gin.macro") as [E|N]; [|reflexivity]. subst sel.
    destruct (H _ _ _ _ _ _ H1 H2 Hx) as [Ha He]. rewrite Ha, He. reflexivity.
Qed.

Theorem C05_macros_hook_spec : forall s, macros_hook_ok s = true ->
  forall ck p v sc ev, cget ck (config s) = Some p -> forall k, sget k p = Some v -> In (VRef sc "gin.macro" ev) (flat_values 50 v) ->
  amem ckey_eqb (scope_str sc, "gin.macro") (config s) = true /\ ev = true.
Proof.
  intros s H ck p v sc ev Hc k Hk Hin.
  destruct (cget_some_in _ _ _ Hc) as [ck' [H1 _]].
  apply sget_some_in in Hk.
  exact (proj1 (C05_macros_hook_iff s) H _ _ _ _ _ _ H1 Hk Hin).
Qed.

(* a value is among its own flattened values: the hook in particular covers top-level references *)
Lemma flat_values_self : forall n v, In v (flat_values n v).
Proof.
  intros n v. destruct n as [|n]; [left; reflexivity|].
  destruct v; simpl; try (left; reflexivity); apply in_or_app; right;
    first [left; reflexivity | apply in_or_app; right; left; reflexivity].
Qed.

(* ---- the hooks look inside containers, dictionary KEYS included (repaired code) ---- *)
Lemma flat_values_VDict : forall f l, flat_values (S f) (VDict l) =
  flat_map (fun kv => flat_values f (fst kv)) l ++ flat_map (fun kv => flat_values f (snd kv)) l ++ [VDict l].
Proof. reflexivity. Qed.
Lemma flat_values_VList : forall f l, flat_values (S f) (VList l) = flat_map (flat_values f) l ++ [VList l].
Proof. reflexivity. Qed.
Lemma flat_values_VTuple : forall f l, flat_values (S f) (VTuple l) = flat_map (flat_values f) l ++ [VTuple l].
Proof. reflexivity. Qed.

Theorem C05_flat_values_dict_iff : forall f l r,
  In r (flat_values (S f) (VDict l)) <->
  r = VDict l \/ exists k x, In (k, x) l /\ (In r (flat_values f k) \/ In r (flat_values f x)).
Proof.
  intros f l r. rewrite flat_values_VDict, !in_app_iff, !in_flat_map. split.
  - intros [[[k x] [H1 H2]]|[[[k x] [H1 H2]]|[H|[]]]].
    + right. exists k, x. split; [exact H1|left; exact H2].
    + right. exists k, x. split; [exact H1|right; exact H2].
    + left. symmetry; exact H.
  - intros [H|[k [x [H1 [H2|H2]]]]].
    + right; right; left. symmetry; exact H.
    + left. exists (k, x). split; assumption.
    + right; left. exists (k, x). split; assumption.
Qed.

Theorem C05_hook_sees_dict_keys : forall f k x l r,
  In r (flat_values f k) -> In r (flat_values (S f) (VDict ((k, x) :: l))).
Proof.
  intros f k x l r H. apply C05_flat_values_dict_iff. right. exists k, x. split; [left; reflexivity|left; exact H].
Qed.
Theorem C05_hook_sees_dict_values : forall f k x l r,
  In r (flat_values f x) -> In r (flat_values (S f) (VDict ((k, x) :: l))).
Proof.
  intros f k x l r H. apply C05_flat_values_dict_iff. right. exists k, x. split; [left; reflexivity|right; exact H].
Qed.

(* a macro used as a dictionary key of a bound value is checked by finalize *)
Corollary C05_finalize_rejects_bad_macro_key : forall s ck p k sc ev x l, locked s = false ->
  cget ck (config s) = Some p -> sget k p = Some (VDict ((VRef sc "gin.macro" ev, x) :: l)) ->
  (amem ckey_eqb (scope_str sc, "gin.macro") (config s) = false \/ ev = false) ->
  exists s', finalize s = (s', Raise "ValueError").
Proof.
  intros s ck p k sc ev x l L Hc Hk Hbad. apply finalize_builtin_hooks; [exact L|]. left.
  destruct (macros_hook_ok s) eqn:M; [|reflexivity]. exfalso.
  assert (Hin : In (VRef sc "gin.macro" ev) (flat_values 50 (VDict ((VRef sc "gin.macro" ev, x) :: l)))).
  { apply (C05_hook_sees_dict_keys 49). apply flat_values_self. }
  destruct (C05_macros_hook_spec s M _ _ _ _ _ Hc _ Hk Hin) as [Ha He].
  destruct Hbad as [Hb|Hb]; congruence.
Qed.

(* ---- the code before the repair: dictionary keys were not visited ---- *)
Fixpoint flat_values_orig (fuel : nat) (v : value) : list value :=
  match fuel with
  | O => [v]
  | S f =>
      match v with
      | VList l | VTuple l => flat_map (flat_values_orig f) l ++ [v]
      | VDict l => flat_map (fun kv => flat_values_orig f (snd kv)) l ++ [v]
      | _ => [v]
      end
  end.
Definition macros_hook_ok_orig (s : state) : bool :=
  forallb (fun t => forallb (fun x =>
             match x with
             | VRef sc "gin.macro" ev => amem ckey_eqb (scope_str sc, "gin.macro") (config s) && ev
             | _ => true
             end) (flat_values_orig 50 (snd t))) (all_config_values s).

(* the store `m.f.b = {%undefined: 0}`: the original hook accepted it (finalize succeeded and the error only
   surfaced when f was called); the repaired hook rejects it and finalize raises ValueError *)
Theorem C05_orig_finalize_ignored_dict_keys :
  let sg := {| s_args := ["b"]; s_defaults := []; s_varargs := false; s_kwonly := []; s_varkw := false |} in
  let pf := {| c_sel := "m.f"; c_kind := KProbe; c_sig := sg; c_allow := []; c_deny := []; c_method := false |} in
  let s := run_top 50 (setup [pf]) [OParse "f.b" (VDict [(VMacro "undefined", VInt 0)])] in
  config s = [(("", "m.f"), [("b", VDict [(VRef ["undefined"] "gin.macro" true, VInt 0)])])] /\
  locked s = false /\
  macros_hook_ok_orig s = true /\
  macros_hook_ok s = false /\
  exists s', finalize s = (s', Raise "ValueError").
Proof.
  vm_compute. split; [reflexivity|]. split; [reflexivity|]. split; [reflexivity|]. split; [reflexivity|].
  eexists. reflexivity.
Qed.

Corollary C05_macros_hook_toplevel : forall s, macros_hook_ok s = true ->
  forall ck p sc ev k, cget ck (config s) = Some p -> sget k p = Some (VRef sc "gin.macro" ev) ->
  amem ckey_eqb (scope_str sc, "gin.macro") (config s) = true /\ ev = true.
Proof.
  intros s H ck p sc ev k Hc Hk. eapply C05_macros_hook_spec; try eassumption. apply flat_values_self.
Qed.

(* finalize rejects a store with an unbound or unevaluated macro reference *)
Corollary C05_finalize_rejects_bad_macro : forall s ck p k v sc ev, locked s = false ->
  cget ck (config s) = Some p -> sget k p = Some v -> In (VRef sc "gin.macro" ev) (flat_values 50 v) ->
  (amem ckey_eqb (scope_str sc, "gin.macro") (config s) = false \/ ev = false) ->
  exists s', finalize s = (s', Raise "ValueError").
Proof.
  intros s ck p k v sc ev L Hc Hk Hin Hbad. apply finalize_builtin_hooks; [exact L|]. left.
  destruct (macros_hook_ok s) eqn:M; [|reflexivity]. exfalso.
  destruct (C05_macros_hook_spec s M _ _ _ _ _ Hc _ Hk Hin) as [Ha He].
  destruct Hbad as [Hb|Hb]; congruence.
Qed.

(* ================================================================== *)
(* C05, general form: a use evaluates to whatever the CURRENTLY bound   *)
(* value evaluates to, under the scope named after the macro            *)
(* ================================================================== *)
Lemma macro_call_gen : forall f s v, lookup_sel s "gin.macro" = Some macro_cfg ->
  get_bindings_for (config s) (current_scope s) "gin.macro" true = [("value", v)] ->
  call (S f) s "gin.macro" [] [] =
  eval f (oper_update s (scope_str (current_scope s), "gin.macro") [("value", v)]) v.
Proof.
  intros f s v Hl Hb. rewrite call_S, Hl.
  change (existsb is_req (skipn (List.length (supplied_positional_names (c_sig macro_cfg) [])) [])) with false.
  cbv iota zeta. rewrite prep_bindings_macro_nocall, Hb.
  rewrite go_kw_cons.
  change (prep_operative macro_cfg [] [] [("value", v)]) with [("value", v)].
  destruct (eval f (oper_update s (scope_str (current_scope s), "gin.macro") [("value", v)]) v) as [s1 [x'|e]];
    reflexivity.
Qed.

Theorem C05_use_evaluates_bound_value_gen : forall f s sc v, sc <> [] -> scope_valid sc = true ->
  lookup_sel s "gin.macro" = Some macro_cfg ->
  get_bindings_for (config s) sc "gin.macro" true = [("value", v)] ->
  eval (S (S (S f))) s (VRef sc "gin.macro" true) =
  (let '(s2, r) := eval f (oper_update (set_scopes (sc :: scopes s) s) (scope_str sc, "gin.macro") [("value", v)]) v in
   (set_scopes (tl (scopes s2)) s2, r)).
Proof.
  intros f s sc v Hne Hv Hl Hb. rewrite eval_VRef_true, call_handle_S.
  destruct sc as [|x sc]; [contradiction|]. cbv zeta. rewrite Hv. simpl negb. cbv iota.
  rewrite (macro_call_gen f (set_scopes ((x :: sc) :: scopes s) s) v Hl Hb). reflexivity.
Qed.

(* late binding, as independence from history: two states that agree on what is currently bound to the macro (and
   both know gin.macro) give the same value, whatever else differs (operative record, call log, lock, ...) *)
Corollary C05_late_binding_history_independent : forall f s1 s2 name v,
  atomic v -> scope_valid (split_slash name) = true ->
  lookup_sel s1 "gin.macro" = Some macro_cfg -> lookup_sel s2 "gin.macro" = Some macro_cfg ->
  get_bindings_for (config s1) (split_slash name) "gin.macro" true = [("value", v)] ->
  get_bindings_for (config s2) (split_slash name) "gin.macro" true = [("value", v)] ->
  snd (eval (S (S (S (S f)))) s1 (VRef (split_slash name) "gin.macro" true)) = Ok v /\
  snd (eval (S (S (S (S f)))) s2 (VRef (split_slash name) "gin.macro" true)) = Ok v.
Proof.
  intros f s1 s2 name v Ha Hv H1 H2 B1 B2.
  rewrite (macro_use_eval_exact f s1 _ v Ha (split_slash_nonempty name) Hv H1 B1).
  rewrite (macro_use_eval_exact f s2 _ v Ha (split_slash_nonempty name) Hv H2 B2). split; reflexivity.
Qed.

(* ================================================================== *)
(* a dict literal is built by dict(...) when the statement is PARSED   *)
(* ================================================================== *)
(* general: what a dict value resolves to *)
Lemma resolve_dict_is_python_dict : forall s l l', rs_dict s l = Ok l' ->
  resolve s (VDict l) = match vdict_build l' with Some d => Ok (VDict d) | None => Raise "TypeError" end.
Proof. intros s l l' H. rewrite resolve_VDict, H. reflexivity. Qed.
(* m.f.b = {%hk: 'a', 1: 'x', %hk: 'b', True: 'y', @g(): %undefined, @g(): 3, @s1/g(): 4}: the same macro / reference
   written twice and 1 / True are ONE item each (the earlier key and place, the later value; the value under the dropped
   key is gone: finalize has no unbound macro to complain about); a key that cannot be hashed: TypeError, nothing bound *)
Lemma parse_time_dict_example :
  let sg := {| s_args := ["b"]; s_defaults := []; s_varargs := false; s_kwonly := []; s_varkw := false |} in
  let pf := {| c_sel := "m.f"; c_kind := KProbe; c_sig := sg; c_allow := []; c_deny := []; c_method := false |} in
  let pg := {| c_sel := "n.g"; c_kind := KProbe; c_sig := sg; c_allow := []; c_deny := []; c_method := false |} in
  let s := run_top 50 (setup [pf; pg])
     [OParse "hk" (VInt 5);
      OParse "f.b" (VDict [(VMacro "hk", VStr "a"); (VInt 1, VStr "x"); (VMacro "hk", VStr "b"); (VBool true, VStr "y");
                           (VRef [] "g" true, VMacro "undefined"); (VRef [] "n.g" true, VInt 3); (VRef ["s1"] "g" true, VInt 4)])] in
  let s' := run_top 50 s [OParse "f.b" (VDict [(VInt 1, VInt 2); (VList [VInt 1], VMacro "undefined")])] in
  cget ("", "m.f") (config s) =
    Some [("b", VDict [(VRef ["hk"] "gin.macro" true, VStr "b"); (VInt 1, VStr "y");
                       (VRef [] "n.g" true, VInt 3); (VRef ["s1"] "n.g" true, VInt 4)])] /\
  macros_hook_ok s = true /\
  config s' = config s /\ hd ONone (obs s') = OErr "TypeError".
Proof. vm_compute. repeat split; reflexivity. Qed.

Print Assumptions C05_use_is_reference.
Print Assumptions C05_resolve_ignores_store.
Print Assumptions C05_constant_unique.
Print Assumptions C05_constant_ambiguous.
Print Assumptions C05_definition_is_binding.
Print Assumptions C05_use_evaluates_to_current_binding.
Print Assumptions C05_use_evaluates_to_current_binding_exact.
Print Assumptions C05_use_evaluates_bound_value_gen.
Print Assumptions C05_late_binding_history_independent.
Print Assumptions C05_unbound_macro_raises.
Print Assumptions C05_macros_hook_spec.
Print Assumptions C05_macros_hook_iff.
Print Assumptions C05_finalize_rejects_bad_macro.
Print Assumptions C05_flat_values_dict_iff.
Print Assumptions C05_hook_sees_dict_keys.
Print Assumptions C05_finalize_rejects_bad_macro_key.
Print Assumptions C05_orig_finalize_ignored_dict_keys.
Print Assumptions C07_oper_update_get.
Print Assumptions C07_oper_update_other.
Print Assumptions C07_configurable_defaults_spec.
Print Assumptions C07_configurable_defaults_spec_strong.
Print Assumptions C07_prep_operative_spec.
Print Assumptions C07_prep_operative_spec_strong.
Print Assumptions C07_call_contribution.
Print Assumptions C07_denied_default_not_recorded.
Print Assumptions C07_not_allowed_default_not_recorded.
Print Assumptions C07_call_records_section.
Print Assumptions C07_call_records_section_gen.
Print Assumptions C07_sections_only_grow.
Print Assumptions C07_non_call_ops_keep_operative.
Print Assumptions C07_never_called_empty_init.
Print Assumptions resolve_dict_is_python_dict.
Print Assumptions parse_time_dict_example.
