(* Proofs about the SelectorMap model (gin/selector_map.py): the representation
   invariant is established by every operation, the observations agree with
   the abstract specification, and minimal_selector (repaired) is minimal while
   the original one is not. *)
From Coq Require Import List String Bool Arith Lia.
From GinV Require Import Lib.PyStr Model.SelectorMap Model.SelectorMapSpec.
From GinV Require Import Proofs.SelectorMapLemmas.
Import ListNotations.
Open Scope list_scope.

Lemma last_n_rev : forall (k : key) a1 b1, rev k = a1 ++ b1 -> last_n (List.length a1) k = rev a1.
Proof.
  intros k a1 b1 H.
  assert (E : k = rev b1 ++ rev a1).
  { apply rev_inj. rewrite rev_app_distr, !rev_involutive. exact H. }
  subst k. unfold last_n. rewrite app_length, !rev_length.
  replace (List.length b1 + List.length a1 - List.length a1) with (List.length (rev b1))
    by (rewrite rev_length; lia).
  rewrite skipn_app, skipn_all, Nat.sub_diag. reflexivity.
Qed.

Lemma term_not_empty : forall m k, t_term m = Some k -> is_empty m = false.
Proof. intros [[k0|] ks] k H; simpl in *; [reflexivity|discriminate]. Qed.

Definition next_start (fix0 : bool) (i : nat) (start : option nat) (t : tree) : option nat :=
  if Nat.eqb (t_len t) 1
  then match start with None => Some (if fix0 then Nat.max i 1 else i) | Some j => Some j end
  else None.

Lemma min_loop_cons : forall fix0 i c p start t ch,
  kget c (t_kids t) = Some ch ->
  min_loop fix0 i (c :: p) start t = min_loop fix0 (S i) p (next_start fix0 i start t) ch.
Proof. intros fix0 i c p start t ch H. simpl. rewrite H. reflexivity. Qed.

Section P.
Variable V : Type.
Implicit Types (s : smap V).

Lemma sm_set_tree : forall s k v, sm_tree (sm_set k v s) = tree_set (rev k) k (sm_tree s).
Proof. reflexivity. Qed.

Lemma inv_WF : forall s, Inv s -> WF (sm_tree s).
Proof. intros s H path n Hw. exact (inv_kids s H path n Hw). Qed.

Lemma inv_WF_at : forall s a x, Inv s -> tree_walk a (sm_tree s) = Some x -> WF x.
Proof. intros s a x H Hw. eapply WF_walk; [apply inv_WF; eassumption|eassumption]. Qed.

Lemma inv_Pruned_at : forall s a x, Inv s -> tree_walk a (sm_tree s) = Some x -> Pruned x.
Proof.
  intros s a x HI Wx path y Hne Hw.
  apply (inv_pruned s HI (a ++ path) y).
  - intro E. apply app_eq_nil in E. destruct E; contradiction.
  - unfold node_at. rewrite walk_app, Wx. exact Hw.
Qed.

Lemma inv_InjTerm_at : forall s a x, Inv s -> tree_walk a (sm_tree s) = Some x -> InjTerm x.
Proof.
  intros s a x HI Wx q1 q2 m1 m2 k W1 W2 T1 T2.
  assert (H1 : a ++ q1 = rev k).
  { apply (inv_term s HI (a ++ q1) m1 k); [unfold node_at; rewrite walk_app, Wx; exact W1|exact T1]. }
  assert (H2 : a ++ q2 = rev k).
  { apply (inv_term s HI (a ++ q2) m2 k); [unfold node_at; rewrite walk_app, Wx; exact W2|exact T2]. }
  rewrite <- H2 in H1. apply app_inv_head in H1. exact H1.
Qed.

(* ------------------------------------------------------------------ *)
Theorem inv_empty : Inv (@sm_empty V).
Proof.
  assert (Hw : forall path n, tree_walk path empty_tree = Some n -> path = [] /\ n = empty_tree).
  { intros [|c p] n H; simpl in H; [inversion H; auto|discriminate]. }
  constructor; unfold dom, node_at, sm_empty; simpl.
  - constructor.
  - intros k [].
  - intros path n k H T. apply Hw in H. destruct H; subst. discriminate.
  - intros k [].
  - intros path n H. apply Hw in H. destruct H; subst. constructor.
  - intros path n Hne H. apply Hw in H. destruct H; congruence.
Qed.

Theorem dom_set : forall s k v j, In j (dom (sm_set k v s)) <-> j = k \/ In j (dom s).
Proof. intros s k v j. unfold dom, sm_set; simpl. apply fset_dom_In. Qed.

Theorem get_set : forall s k v j,
  fget j (sm_flat (sm_set k v s)) = if key_eqb j k then Some v else fget j (sm_flat s).
Proof. intros s k v j. unfold sm_set; simpl. apply fget_fset. Qed.

Theorem inv_set : forall s k v, Inv s -> k <> [] -> Inv (sm_set k v s).
Proof.
  intros s k v HI Hk.
  pose proof (inv_WF s HI) as Hwf.
  assert (Hself : exists n, tree_walk (rev k) (tree_set (rev k) k (sm_tree s)) = Some n
                            /\ t_term n = Some k).
  { pose proof (walk_set_prefix (rev k) [] k (sm_tree s)) as H. rewrite app_nil_r in H.
    eexists; split; [exact H|reflexivity]. }
  constructor.
  - unfold dom, sm_set; simpl. apply fset_nodup. apply (inv_nodup s HI).
  - intros j Hj. apply dom_set in Hj. destruct Hj as [Hj|Hj];
      [subst; assumption|apply (inv_nonempty s HI); assumption].
  - intros path n k' Hw Ht. unfold node_at in Hw. rewrite sm_set_tree in Hw.
    rewrite dom_set.
    destruct (prefix_dec path (rev k)) as [[q' Hp]|Hnp].
    + rewrite Hp in Hw. rewrite walk_set_prefix in Hw. inversion Hw; subst n; clear Hw.
      destruct q' as [|c q'].
      * simpl in Ht. inversion Ht; subst k'. split; [left; reflexivity|].
        rewrite app_nil_r in Hp. auto.
      * rewrite tree_set_term_cons in Ht. unfold woe in Ht.
        destruct (tree_walk path (sm_tree s)) as [m|] eqn:Wm; [|discriminate].
        destruct (inv_term s HI path m k' Wm Ht) as [H1 H2]. split; [right|]; assumption.
    + rewrite walk_set_other in Hw by assumption.
      destruct (inv_term s HI path n k' Hw Ht) as [H1 H2]. split; [right|]; assumption.
  - intros k0 Hk0. unfold node_at. rewrite sm_set_tree. apply dom_set in Hk0.
    destruct (key_eq_dec k0 k) as [E|E]; [subst k0; exact Hself|].
    destruct Hk0 as [Hk0|Hk0]; [contradiction|].
    destruct (inv_stored s HI k0 Hk0) as [n [Wn Tn]]. unfold node_at in Wn.
    destruct (prefix_dec (rev k0) (rev k)) as [[q' Hp]|Hnp].
    + rewrite Hp, walk_set_prefix. eexists; split; [reflexivity|].
      destruct q' as [|c q'].
      * exfalso; apply E; apply rev_inj; rewrite app_nil_r in Hp; auto.
      * rewrite tree_set_term_cons. unfold woe. rewrite Wn. exact Tn.
    + exists n. rewrite walk_set_other by assumption. split; assumption.
  - intros path n Hw. unfold node_at in Hw. rewrite sm_set_tree in Hw.
    destruct (prefix_dec path (rev k)) as [[q' Hp]|Hnp].
    + rewrite Hp, walk_set_prefix in Hw. inversion Hw; subst n. apply tree_set_kids_nodup.
      unfold woe. destruct (tree_walk path (sm_tree s)) as [m|] eqn:Wm;
        [apply (inv_kids s HI path m Wm)|constructor].
    + rewrite walk_set_other in Hw by assumption. apply (inv_kids s HI path n Hw).
  - intros path n Hne Hw. unfold node_at in Hw. rewrite sm_set_tree in Hw.
    destruct (prefix_dec path (rev k)) as [[q' Hp]|Hnp].
    + rewrite Hp, walk_set_prefix in Hw. inversion Hw; subst n.
      eapply has_nonempty. apply tree_set_collect.
    + rewrite walk_set_other in Hw by assumption. apply (inv_pruned s HI path n Hne Hw).
Qed.

(* ------------------------------------------------------------------ *)
Lemma sm_pop_inv : forall s k v s', sm_pop k s = Some (v, s') ->
  fget k (sm_flat s) = Some v /\
  exists t', tree_pop (rev k) (sm_tree s) = Some t' /\
             s' = {| sm_tree := t'; sm_flat := fdel k (sm_flat s) |}.
Proof.
  intros s k v s' H. unfold sm_pop in H.
  destruct (fget k (sm_flat s)) as [v0|]; [|discriminate].
  destruct (tree_pop (rev k) (sm_tree s)) as [t'|]; [|discriminate].
  inversion H; subst. split; [reflexivity|]. exists t'. split; reflexivity.
Qed.

Theorem pop_defined : forall s k, Inv s -> In k (dom s) -> exists v s', sm_pop k s = Some (v, s').
Proof.
  intros s k HI Hk. unfold sm_pop.
  destruct (fget_In_dom k (sm_flat s) Hk) as [v Hv]. rewrite Hv.
  destruct (inv_stored s HI k Hk) as [n [Wn _]].
  destruct (walk_pop_defined _ _ _ Wn) as [t' Ht']. rewrite Ht'. eauto.
Qed.

Theorem pop_value : forall s k v s', sm_pop k s = Some (v, s') -> fget k (sm_flat s) = Some v.
Proof. intros s k v s' H. apply sm_pop_inv in H. apply H. Qed.

Theorem dom_pop : forall s k v s', Inv s -> sm_pop k s = Some (v, s') ->
  forall j, In j (dom s') <-> (In j (dom s) /\ j <> k).
Proof.
  intros s k v s' HI H j. apply sm_pop_inv in H. destruct H as [_ [t' [_ Hs']]]. subst s'.
  unfold dom; simpl. apply fdel_dom_In. apply (inv_nodup s HI).
Qed.

Theorem get_pop : forall s k v s', Inv s -> sm_pop k s = Some (v, s') ->
  forall j, fget j (sm_flat s') = if key_eqb j k then None else fget j (sm_flat s).
Proof.
  intros s k v s' HI H j. apply sm_pop_inv in H. destruct H as [_ [t' [_ Hs']]]. subst s'.
  simpl. apply fget_fdel. apply (inv_nodup s HI).
Qed.

Theorem inv_pop : forall s k v s', Inv s -> sm_pop k s = Some (v, s') -> Inv s'.
Proof.
  intros s k v s' HI Hp.
  pose proof (dom_pop s k v s' HI Hp) as Hdom.
  apply sm_pop_inv in Hp. destruct Hp as [Hv [t' [Ht' Hs']]].
  pose proof (inv_WF s HI) as Hwf.
  constructor.
  - subst s'. unfold dom; simpl. apply fdel_nodup. apply (inv_nodup s HI).
  - intros j Hj. apply Hdom in Hj. apply (inv_nonempty s HI). apply Hj.
  - intros path n k' Hw Ht. unfold node_at in Hw. rewrite Hdom.
    subst s'; simpl in Hw.
    destruct (prefix_dec path (rev k)) as [[q' Hpq]|Hnp].
    + rewrite Hpq in Ht'.
      destruct (walk_pop_prefix path q' _ _ n Hwf Ht' Hw) as [m [Wm [Pm Hne]]].
      destruct q' as [|c q'].
      * apply pop_term_nil in Pm. congruence.
      * apply pop_term_cons in Pm. rewrite Pm in Ht.
        destruct (inv_term s HI path m k' Wm Ht) as [H1 H2].
        split; [|assumption]. split; [assumption|]. intro; subst k'.
        rewrite H2 in Hpq. apply app_eq_self_nil in Hpq. discriminate.
    + rewrite (walk_pop_other _ _ _ _ Hwf Ht' Hnp) in Hw.
      destruct (inv_term s HI path n k' Hw Ht) as [H1 H2].
      split; [|assumption]. split; [assumption|]. intro; subst k'.
      apply Hnp. exists []. rewrite app_nil_r. auto.
  - intros k0 Hk0. apply Hdom in Hk0. destruct Hk0 as [Hk0 Hne0].
    destruct (inv_stored s HI k0 Hk0) as [n [Wn Tn]]. unfold node_at in *.
    subst s'; simpl.
    destruct (prefix_dec (rev k0) (rev k)) as [[q' Hpq]|Hnp].
    + rewrite Hpq in Ht'. destruct (walk_pop_prefix2 _ _ _ _ _ Ht' Wn) as [m' [Pm Hw']].
      destruct q' as [|c q'].
      * exfalso; apply Hne0; apply rev_inj; rewrite app_nil_r in Hpq; auto.
      * apply pop_term_cons in Pm. rewrite Tn in Pm. exists m'. split; [|assumption].
        apply Hw'. eapply term_not_empty; eassumption.
    + exists n. rewrite (walk_pop_other _ _ _ _ Hwf Ht' Hnp). split; assumption.
  - intros path n Hw. unfold node_at in Hw. subst s'; simpl in Hw.
    destruct (prefix_dec path (rev k)) as [[q' Hpq]|Hnp].
    + rewrite Hpq in Ht'.
      destruct (walk_pop_prefix path q' _ _ n Hwf Ht' Hw) as [m [Wm [Pm _]]].
      eapply pop_kids_nodup; [|eassumption]. apply (inv_kids s HI path m Wm).
    + rewrite (walk_pop_other _ _ _ _ Hwf Ht' Hnp) in Hw. apply (inv_kids s HI path n Hw).
  - intros path n Hne Hw. unfold node_at in Hw. subst s'; simpl in Hw.
    destruct (prefix_dec path (rev k)) as [[q' Hpq]|Hnp].
    + rewrite Hpq in Ht'.
      destruct (walk_pop_prefix path q' _ _ n Hwf Ht' Hw) as [m [Wm [Pm Hnem]]].
      apply (pop_nonempty q' m n).
      * eapply inv_WF_at; eassumption.
      * eapply inv_Pruned_at; eassumption.
      * assumption.
      * apply Hnem; assumption.
    + rewrite (walk_pop_other _ _ _ _ Hwf Ht' Hnp) in Hw. apply (inv_pruned s HI path n Hne Hw).
Qed.

(* ------------------------------------------------------------------ *)
(* matching *)

Lemma collect_at : forall s a n, Inv s -> tree_walk a (sm_tree s) = Some n ->
  forall j, In j (collect n) <-> In j (dom s) /\ exists q, rev j = a ++ q.
Proof.
  intros s a n HI Wn j. split.
  - intros Hin.
    destruct (collect_walk n (inv_WF_at s a n HI Wn) j Hin) as [q [m [Wm Tm]]].
    destruct (inv_term s HI (a ++ q) m j) as [H1 H2];
      [unfold node_at; rewrite walk_app, Wn; exact Wm|exact Tm|].
    split; [assumption|]. exists q. auto.
  - intros [Hj [q Hq]].
    destruct (inv_stored s HI j Hj) as [m [Wm Tm]]. unfold node_at in Wm.
    rewrite Hq, walk_app, Wn in Wm. eapply walk_collect; eassumption.
Qed.

Theorem matching_spec : forall s p, Inv s -> p <> [] ->
  forall k, In k (sm_matching p s) <-> spec_matches (dom s) p k.
Proof.
  intros s p HI Hp k. unfold sm_matching, spec_matches. rewrite fmem_existsb.
  change (map fst (sm_flat s)) with (dom s).
  destruct (existsb (key_eqb p) (dom s)) eqn:Ex.
  - simpl. split; [intros [H|[]]; auto|intros ->; left; reflexivity].
  - destruct (tree_walk (rev p) (sm_tree s)) as [n|] eqn:Wn.
    + rewrite (collect_at s (rev p) n HI Wn). split; intros [H1 H2]; (split; [assumption|]).
      * destruct H2 as [q Hq]. exists (rev q). apply rev_inj.
        rewrite rev_app_distr, rev_involutive. assumption.
      * destruct H2 as [pre Hpre]. exists (rev pre). subst k. apply rev_app_distr.
    + split; [intros []|]. intros [H1 [pre Hpre]].
      destruct (inv_stored s HI k H1) as [m [Wm _]]. unfold node_at in Wm.
      subst k. rewrite rev_app_distr, walk_app, Wn in Wm. discriminate.
Qed.

Theorem matching_nodup : forall s p, Inv s -> NoDup (sm_matching p s).
Proof.
  intros s p HI. unfold sm_matching.
  destruct (fmem p (sm_flat s)).
  - constructor; [intros []|constructor].
  - destruct (tree_walk (rev p) (sm_tree s)) as [n|] eqn:Wn; [|constructor].
    apply collect_nodup.
    + eapply inv_WF_at; eassumption.
    + eapply inv_InjTerm_at; eassumption.
Qed.

Theorem get_match_unique : forall s p k, Inv s -> p <> [] ->
  (forall j, spec_matches (dom s) p j <-> j = k) ->
  sm_get_match p s = MOne k (fget k (sm_flat s)).
Proof.
  intros s p k HI Hp H. unfold sm_get_match.
  assert (E : sm_matching p s = [k]).
  { apply nodup_singleton_eq; [apply matching_nodup; assumption|].
    intro j. rewrite matching_spec by assumption. apply H. }
  rewrite E. reflexivity.
Qed.

Theorem get_match_none : forall s p, Inv s -> p <> [] ->
  (forall j, ~ spec_matches (dom s) p j) -> sm_get_match p s = MNone.
Proof.
  intros s p HI Hp H. unfold sm_get_match.
  destruct (sm_matching p s) as [|a l] eqn:E; [reflexivity|].
  exfalso. apply (H a). apply matching_spec; [assumption|assumption|]. rewrite E. left; reflexivity.
Qed.

Theorem get_match_ambiguous : forall s p j1 j2, Inv s -> p <> [] -> j1 <> j2 ->
  spec_matches (dom s) p j1 -> spec_matches (dom s) p j2 -> sm_get_match p s = MAmbiguous.
Proof.
  intros s p j1 j2 HI Hp Hne H1 H2. unfold sm_get_match.
  apply matching_spec in H1; [|assumption|assumption].
  apply matching_spec in H2; [|assumption|assumption].
  destruct (sm_matching p s) as [|a [|b l]].
  - destruct H1.
  - exfalso. destruct H1 as [H1|[]]. destruct H2 as [H2|[]]. congruence.
  - reflexivity.
Qed.

(* ------------------------------------------------------------------ *)
(* minimal_selector *)
Section Minimal.
  Variable s : smap V.
  Variable k : key.
  Hypothesis HI : Inv s.
  Hypothesis Hk : In k (dom s).

  (* some other stored name lies at or below the node at [a] *)
  Definition Branch (a : list string) : Prop :=
    exists j q, In j (dom s) /\ j <> k /\ rev j = a ++ q.
  (* only k lies at or below the node at [a] *)
  Definition Uniq (a : list string) : Prop :=
    forall j q, In j (dom s) -> rev j = a ++ q -> j = k.
  Definition BranchBelow (a1 : list string) : Prop :=
    forall a' z, a1 = a' ++ z -> z <> [] -> a' <> [] -> Branch a'.

  Lemma branch_mono : forall a z, Branch (a ++ z) -> Branch a.
  Proof.
    intros a z [j [q [H1 [H2 H3]]]]. exists j, (z ++ q). rewrite app_assoc. auto.
  Qed.

  Lemma stored_walk : forall j a q x, In j (dom s) -> rev j = a ++ q ->
    tree_walk a (sm_tree s) = Some x -> exists nj, tree_walk q x = Some nj /\ t_term nj = Some j.
  Proof.
    intros j a q x Hj Hq Wx.
    destruct (inv_stored s HI j Hj) as [m [Wm Tm]]. unfold node_at in Wm.
    rewrite Hq, walk_app, Wx in Wm. exists m. split; assumption.
  Qed.

  Lemma below_stored : forall a x q m j, tree_walk a (sm_tree s) = Some x ->
    tree_walk q x = Some m -> t_term m = Some j -> In j (dom s) /\ rev j = a ++ q.
  Proof.
    intros a x q m j Wx Wm Tm.
    destruct (inv_term s HI (a ++ q) m j) as [H1 H2];
      [unfold node_at; rewrite walk_app, Wx; exact Wm|exact Tm|]. auto.
  Qed.

  Lemma path_kid : forall a c b x, rev k = a ++ c :: b ->
    tree_walk a (sm_tree s) = Some x -> exists ch, kget c (t_kids x) = Some ch.
  Proof.
    intros a c b x Hpath Wx.
    destruct (stored_walk k a (c :: b) x Hk Hpath Wx) as [nk [Wk _]]. simpl in Wk.
    destruct (kget c (t_kids x)) as [ch|]; [eauto|discriminate].
  Qed.

  Lemma other_kid : forall a x c' ch', tree_walk a (sm_tree s) = Some x ->
    kget c' (t_kids x) = Some ch' -> exists j q, In j (dom s) /\ rev j = a ++ c' :: q.
  Proof.
    intros a x c' ch' Wx G.
    assert (Wc : tree_walk (a ++ [c']) (sm_tree s) = Some ch').
    { rewrite walk_app, Wx. simpl. rewrite G. reflexivity. }
    assert (Hne : collect ch' <> []).
    { apply (inv_pruned s HI (a ++ [c']) ch'); [|exact Wc].
      intro E. apply app_eq_nil in E. destruct E; discriminate. }
    destruct (nonempty_has _ Hne) as [j Hj].
    destruct (collect_walk ch' (inv_WF_at s _ _ HI Wc) j Hj) as [q [m [Wm Tm]]].
    exists j, q. apply (below_stored a x (c' :: q) m j Wx); [|exact Tm].
    simpl. rewrite G. exact Wm.
  Qed.

  Lemma uniq_step : forall a c b x, rev k = a ++ c :: b ->
    tree_walk a (sm_tree s) = Some x -> t_len x = 1 -> Uniq (a ++ [c]) -> Uniq a.
  Proof.
    intros a c b x Hpath Wx Hlen HU j q Hj Hq.
    destruct (path_kid a c b x Hpath Wx) as [ch G].
    destruct (stored_walk j a q x Hj Hq Wx) as [nj [Wj Tj]].
    destruct x as [tm ks]. unfold t_len in Hlen. simpl in Hlen, G.
    destruct ks as [|[c1 ch1] [|x2 r]].
    - simpl in G. discriminate.
    - destruct tm as [k0|]; simpl in Hlen; [discriminate|].
      simpl in G. destruct (String.eqb_spec c c1) as [E|E]; [|discriminate]. subst c1.
      destruct q as [|c2 q2]; simpl in Wj.
      + inversion Wj; subst nj. simpl in Tj. discriminate.
      + destruct (String.eqb_spec c2 c) as [E2|E2]; [|discriminate]. subst c2.
        apply (HU j q2 Hj). rewrite Hq, <- app_assoc. reflexivity.
    - destruct tm; simpl in Hlen; discriminate.
  Qed.

  Lemma branch_mid : forall a c b x, rev k = a ++ c :: b ->
    tree_walk a (sm_tree s) = Some x -> t_len x <> 1 -> Branch a.
  Proof.
    intros a c b x Hpath Wx Hlen.
    destruct (path_kid a c b x Hpath Wx) as [ch G].
    destruct (t_term x) as [j|] eqn:T.
    - destruct (below_stored a x [] x j Wx eq_refl T) as [Hj Hr].
      exists j, []. split; [assumption|]. split; [|assumption]. intro; subst j.
      rewrite app_nil_r in Hr. rewrite Hr in Hpath. apply app_eq_self_nil in Hpath. discriminate.
    - assert (H : exists c' ch', kget c' (t_kids x) = Some ch' /\ c' <> c).
      { pose proof (inv_kids s HI a x Wx) as Hnd.
        destruct x as [tm ks]; simpl in *. subst tm. unfold t_len in Hlen; simpl in Hlen.
        destruct ks as [|[c1 ch1] [|[c2 ch2] r]].
        - simpl in G. discriminate.
        - exfalso; apply Hlen; reflexivity.
        - simpl in Hnd. inversion Hnd as [|y1 y2 Hn _]; subst.
          destruct (string_dec c1 c) as [E|E].
          + exists c2, ch2. split.
            * simpl. destruct (String.eqb_spec c2 c1) as [E2|E2];
                [exfalso; apply Hn; left; auto|]. rewrite String.eqb_refl. reflexivity.
            * intro; subst. apply Hn; left; reflexivity.
          + exists c1, ch1. simpl. rewrite String.eqb_refl. split; auto. }
      destruct H as [c' [ch' [G' Hne]]].
      destruct (other_kid a x c' ch' Wx G') as [j [q [Hj Hr]]].
      exists j, (c' :: q). split; [assumption|]. split; [|assumption]. intro; subst j.
      rewrite Hr in Hpath. apply app_inv_head in Hpath. inversion Hpath. congruence.
  Qed.

  Lemma final_term : forall m, tree_walk (rev k) (sm_tree s) = Some m -> t_term m = Some k.
  Proof.
    intros m Wm. destruct (inv_stored s HI k Hk) as [n [Wn Tn]]. unfold node_at in Wn.
    rewrite Wm in Wn. inversion Wn; subst. assumption.
  Qed.

  Lemma branch_end : forall m, tree_walk (rev k) (sm_tree s) = Some m -> 1 < t_len m ->
    Branch (rev k).
  Proof.
    intros m Wm Hlen.
    destruct (t_kids m) as [|[c' ch'] r] eqn:K.
    - exfalso. unfold t_len in Hlen. rewrite K in Hlen. simpl in Hlen.
      destruct (t_term m); simpl in Hlen; lia.
    - assert (G : kget c' (t_kids m) = Some ch')
        by (rewrite K; simpl; rewrite String.eqb_refl; reflexivity).
      destruct (other_kid (rev k) m c' ch' Wm G) as [j [q [Hj Hr]]].
      exists j, (c' :: q). split; [assumption|]. split; [|assumption]. intro; subst j.
      apply app_eq_self_nil in Hr. discriminate.
  Qed.

  Lemma uniq_end : forall m, tree_walk (rev k) (sm_tree s) = Some m -> t_len m <= 1 ->
    Uniq (rev k).
  Proof.
    intros m Wm Hlen j q Hj Hq.
    pose proof (final_term m Wm) as Tm.
    assert (K : t_kids m = []).
    { unfold t_len in Hlen. rewrite Tm in Hlen. destruct (t_kids m); [reflexivity|simpl in Hlen; lia]. }
    destruct (stored_walk j (rev k) q m Hj Hq Wm) as [nj [Wj _]].
    destruct q as [|c q].
    - rewrite app_nil_r in Hq. apply rev_inj; assumption.
    - simpl in Wj. rewrite K in Wj. simpl in Wj. discriminate.
  Qed.

  Definition SI (a : list string) (start : option nat) : Prop :=
    match start with
    | None => BranchBelow a
    | Some j => exists a1 b1, rev k = a1 ++ b1 /\ List.length a1 = j /\ a1 <> [] /\
                              BranchBelow a1 /\ (Uniq a -> Uniq a1)
    end.

  Lemma SI_step : forall a c b x start, rev k = a ++ c :: b ->
    tree_walk a (sm_tree s) = Some x -> SI a start ->
    SI (a ++ [c]) (next_start true (List.length a) start x).
  Proof.
    intros a c b x start Hpath Wx HS. unfold next_start.
    destruct (Nat.eqb_spec (t_len x) 1) as [E|E].
    - destruct start as [j|].
      + simpl in HS |- *. destruct HS as [a1 [b1 [H1 [H2 [H3 [H4 H5]]]]]].
        exists a1, b1. repeat split; auto. intro HU. apply H5.
        apply (uniq_step a c b x Hpath Wx E HU).
      + simpl in HS. destruct a as [|c0 a0].
        * simpl. exists [c], b. repeat split.
          -- exact Hpath.
          -- discriminate.
          -- intros a' z H Hz Ha'. exfalso.
             apply (f_equal (@List.length string)) in H. rewrite app_length in H. simpl in H.
             destruct a'; [congruence|]. destruct z; [congruence|]. simpl in H. lia.
          -- auto.
        * simpl. exists (c0 :: a0), (c :: b). repeat split.
          -- exact Hpath.
          -- simpl. lia.
          -- discriminate.
          -- exact HS.
          -- intro HU. apply (uniq_step (c0 :: a0) c b x Hpath Wx E HU).
    - simpl. pose proof (branch_mid a c b x Hpath Wx E) as HB.
      intros a' z H Hz Ha'. symmetry in H.
      destruct (app_tail_prefix a' z a c H Hz) as [z' Hz']. subst a.
      eapply branch_mono; eassumption.
  Qed.

  Lemma min_loop_spec : forall b a x start,
    rev k = a ++ b -> tree_walk a (sm_tree s) = Some x -> SI a start ->
    exists start' m, min_loop true (List.length a) b start x = Some (start', m) /\
                     tree_walk (rev k) (sm_tree s) = Some m /\ SI (rev k) start'.
  Proof.
    induction b as [|c b IH]; intros a x start Hpath Wx HS.
    - rewrite app_nil_r in Hpath. rewrite Hpath. simpl. exists start, x. auto.
    - destruct (path_kid a c b x Hpath Wx) as [ch G].
      rewrite (min_loop_cons _ _ _ _ _ _ _ G).
      pose proof (SI_step a c b x start Hpath Wx HS) as HS'.
      specialize (IH (a ++ [c]) ch (next_start true (List.length a) start x)).
      rewrite app_length in IH. simpl in IH. rewrite Nat.add_1_r in IH.
      apply IH.
      + rewrite <- app_assoc. exact Hpath.
      + rewrite walk_app, Wx. simpl. rewrite G. reflexivity.
      + exact HS'.
  Qed.

  Lemma match_of_uniq : forall a1 b1, Uniq a1 -> rev k = a1 ++ b1 -> a1 <> [] ->
    sm_matching (rev a1) s = [k].
  Proof.
    intros a1 b1 HU Hpath Ha1.
    assert (Hr : rev a1 <> []).
    { intro E. apply Ha1. apply rev_inj. simpl. exact E. }
    apply nodup_singleton_eq; [apply matching_nodup; assumption|].
    intro j. rewrite matching_spec by assumption. unfold spec_matches.
    destruct (existsb (key_eqb (rev a1)) (dom s)) eqn:Ex.
    - apply existsb_exists in Ex. destruct Ex as [x [Hx Ex]].
      destruct (key_eqb_spec (rev a1) x) as [E|E]; [|discriminate]. subst x.
      assert (Ek : rev a1 = k).
      { apply (HU (rev a1) [] Hx). rewrite rev_involutive, app_nil_r. reflexivity. }
      rewrite Ek. reflexivity.
    - split.
      + intros [Hj [pre Hpre]]. apply (HU j (rev pre) Hj). subst j.
        rewrite rev_app_distr, rev_involutive. reflexivity.
      + intros ->. split; [assumption|]. exists (rev b1). apply rev_inj.
        rewrite rev_app_distr, !rev_involutive. assumption.
  Qed.

  Lemma not_match_of_branch : forall r', r' <> [] -> r' <> k -> Branch (rev r') ->
    sm_matching r' s <> [k].
  Proof.
    intros r' Hr Hrk [j [q [Hj [Hjk Hq]]]] Hm.
    assert (H : forall x, spec_matches (dom s) r' x -> x = k).
    { intros x Hx. apply matching_spec in Hx; [|assumption|assumption].
      rewrite Hm in Hx. destruct Hx as [Hx|[]]; auto. }
    unfold spec_matches in H. destruct (existsb (key_eqb r') (dom s)).
    - apply Hrk. apply (H r'). reflexivity.
    - apply Hjk. apply (H j). split; [assumption|]. exists (rev q). apply rev_inj.
      rewrite rev_app_distr, !rev_involutive. assumption.
  Qed.

  Theorem minimal_spec :
    exists r, sm_minimal k s = Some r /\ r <> [] /\ is_suffix r k /\ sm_matching r s = [k] /\
              forall r', r' <> [] -> proper_suffix r' r -> sm_matching r' s <> [k].
  Proof.
    assert (Hfm : fmem k (sm_flat s) = true) by (apply fmem_true_iff; exact Hk).
    assert (Hknil : k <> []) by (apply (inv_nonempty s HI); exact Hk).
    assert (Main : exists a1 b1, sm_minimal k s = Some (rev a1) /\ rev k = a1 ++ b1 /\
                     a1 <> [] /\ BranchBelow a1 /\ sm_matching (rev a1) s = [k]).
    { unfold sm_minimal, sm_minimal_gen. rewrite Hfm.
      destruct (min_loop_spec (rev k) [] (sm_tree s) None) as [start' [m [Hml [Wm HS]]]].
      - reflexivity.
      - reflexivity.
      - simpl. intros a' z H Hz Ha'. destruct a'; [congruence|discriminate].
      - simpl in Hml. rewrite Hml.
        assert (Hrk : rev k <> []).
        { intro E. apply Hknil. apply rev_inj. exact E. }
        assert (Hkk : sm_matching k s = [k]).
        { unfold sm_matching. rewrite Hfm. reflexivity. }
        destruct (Nat.ltb_spec 1 (t_len m)) as [Hlt|Hle].
        + exists (rev k), []. rewrite rev_involutive, app_nil_r.
          repeat split; auto.
          intros a' z H Hz Ha'. apply (branch_mono a' z). rewrite <- H.
          eapply branch_end; eassumption.
        + pose proof (uniq_end m Wm Hle) as HU.
          destruct start' as [[|i]|].
          * simpl in HS. destruct HS as [a1 [b1 [_ [H2 [H3 _]]]]].
            destruct a1; [congruence|discriminate].
          * simpl in HS. destruct HS as [a1 [b1 [H1 [H2 [H3 [H4 H5]]]]]].
            exists a1, b1. rewrite <- H2. rewrite (last_n_rev k a1 b1 H1).
            repeat split; auto. eapply match_of_uniq; eauto.
          * simpl in HS. exists (rev k), []. rewrite rev_involutive, app_nil_r.
            repeat split; auto. }
    destruct Main as [a1 [b1 [Hmin [Hpath [Ha1 [HBB Hmatch]]]]]].
    assert (Ek : k = rev b1 ++ rev a1).
    { apply rev_inj. rewrite rev_app_distr, !rev_involutive. exact Hpath. }
    exists (rev a1). split; [exact Hmin|]. split.
    { intro E. apply Ha1. apply rev_inj. simpl. exact E. }
    split; [exists (rev b1); exact Ek|]. split; [exact Hmatch|].
    intros r' Hr' [pre [Hpre Hr]].
    assert (Ea : a1 = rev r' ++ rev pre).
    { apply rev_inj. rewrite rev_app_distr, !rev_involutive. exact Hr. }
    assert (Hpre' : rev pre <> []).
    { intro E. apply Hpre. apply rev_inj. simpl. exact E. }
    assert (Hrr : rev r' <> []).
    { intro E. apply Hr'. apply rev_inj. simpl. exact E. }
    apply not_match_of_branch; [assumption| |apply (HBB (rev r') (rev pre) Ea Hpre' Hrr)].
    intro E. subst r'. rewrite Ea in Hpath. rewrite <- app_assoc in Hpath.
    apply app_eq_self_nil in Hpath. apply app_eq_nil in Hpath. destruct Hpath; contradiction.
  Qed.
End Minimal.
End P.

(* ------------------------------------------------------------------ *)
(* the original code (start = -i, with Python's l[-0:] == l) violates minimality *)
Open Scope string_scope.
Open Scope list_scope.
Theorem minimal_orig_refuted : exists (s : smap nat) k r r', Inv s /\ In k (dom s) /\
  sm_minimal_orig k s = Some r /\ r' <> [] /\ proper_suffix r' r /\ sm_matching r' s = [k].
Proof.
  exists (sm_set ["a";"b";"c"] 0 sm_empty), ["a";"b";"c"], ["a";"b";"c"], ["c"].
  split; [apply inv_set; [apply inv_empty|discriminate]|].
  split; [simpl; left; reflexivity|].
  split; [reflexivity|].
  split; [discriminate|].
  split; [exists ["a";"b"]; split; [discriminate|reflexivity]|].
  reflexivity.
Qed.

(* ------------------------------------------------------------------ *)
(* every reachable state satisfies the invariant *)
Inductive op (V : Type) := OpSet (k : key) (v : V) | OpPop (k : key) | OpClear | OpCopy.
Definition step {V} (s : smap V) (o : op V) : smap V :=
  match o with
  | OpSet _ k v => match k with [] => s | _ => sm_set k v s end
  | OpPop _ k => match sm_pop k s with Some (_, s') => s' | None => s end
  | OpClear _ => sm_clear s
  | OpCopy _ => sm_copy s
  end.

Lemma inv_step : forall V (s : smap V) (o : op V), Inv s -> Inv (step s o).
Proof.
  intros V s o HI. destruct o as [k v|k| |]; simpl.
  - destruct k as [|c k]; [assumption|]. apply inv_set; [assumption|discriminate].
  - destruct (sm_pop k s) as [[v s']|] eqn:E; [|assumption]. eapply inv_pop; eassumption.
  - apply inv_empty.
  - exact HI.
Qed.

Lemma inv_fold : forall V (ops : list (op V)) (s : smap V), Inv s -> Inv (fold_left step ops s).
Proof.
  intros V ops; induction ops as [|o ops IH]; intros s HI; simpl; [assumption|].
  apply IH. apply inv_step. assumption.
Qed.

Theorem inv_reachable : forall V (ops : list (op V)), Inv (fold_left step ops sm_empty).
Proof. intros V ops. apply inv_fold. apply inv_empty. Qed.

Print Assumptions minimal_spec.
Print Assumptions matching_spec.
Print Assumptions inv_reachable.
Print Assumptions inv_set.
Print Assumptions inv_pop.
Print Assumptions minimal_orig_refuted.
