(* Proofs about the serialiser model Model/Serial.v (config_str, ImportManager, markdown). *)
From Coq Require Import List String ZArith Bool Arith Lia Permutation Sorted Ascii.
From GinV Require Import Lib.Out Lib.PyStr Model.SelectorMap Model.Serial.
Import ListNotations.
Open Scope string_scope.
Open Scope list_scope.

(* ====================================================================== *)
(* 1. The stable sort                                                      *)
(* ====================================================================== *)

Definition strict_total {K} (ltb : K -> K -> bool) : Prop :=
  (forall a, ltb a a = false) /\
  (forall a b c, ltb a b = true -> ltb b c = true -> ltb a c = true) /\
  (forall a b, ltb a b = false -> ltb b a = false -> a = b).

Lemma strict_total_ext : forall K (f g : K -> K -> bool),
  (forall a b, f a b = g a b) -> strict_total f -> strict_total g.
Proof.
  intros K f g Hfg (Hi & Ht & Hc). repeat split.
  - intros a. rewrite <- Hfg. apply Hi.
  - intros a b c. rewrite <- !Hfg. apply Ht.
  - intros a b. rewrite <- !Hfg. apply Hc.
Qed.

Section SortFacts.
  Context {A K : Type} (key : A -> K) (ltb : K -> K -> bool).

  Lemma insert_stable_perm : forall x l, Permutation (insert_stable key ltb x l) (x :: l).
  Proof.
    intros x l. induction l as [|y r IH]; cbn [insert_stable].
    - apply Permutation_refl.
    - destruct (ltb (key y) (key x)).
      + eapply perm_trans; [apply perm_skip, IH | apply perm_swap].
      + apply Permutation_refl.
  Qed.

  Lemma sort_stable_perm' : forall l, Permutation (sort_stable key ltb l) l.
  Proof.
    intros l. unfold sort_stable. induction l as [|x r IH]; cbn [fold_right].
    - apply perm_nil.
    - eapply perm_trans; [apply insert_stable_perm | apply perm_skip, IH].
  Qed.

  Definition key_le (x y : A) : Prop := ltb (key y) (key x) = false.

  Lemma insert_stable_sorted : strict_total ltb -> forall x l,
    StronglySorted key_le l -> StronglySorted key_le (insert_stable key ltb x l).
  Proof.
    intros (Hirr & Htr & Htot) x l Hs. induction Hs as [|y r Hsr IH Hall]; cbn [insert_stable].
    - constructor; constructor.
    - destruct (ltb (key y) (key x)) eqn:Eyx.
      + constructor; [exact IH|].
        rewrite Forall_forall in Hall |- *. intros z Hz.
        apply (Permutation_in _ (insert_stable_perm x r)) in Hz.
        destruct Hz as [<-|Hz]; [|apply Hall, Hz].
        unfold key_le. destruct (ltb (key x) (key y)) eqn:Exy; [|reflexivity].
        rewrite <- (Hirr (key x)). symmetry. eapply Htr; eassumption.
      + constructor; [constructor; assumption|].
        constructor; [exact Eyx|].
        rewrite Forall_forall in Hall |- *. intros z Hz. unfold key_le.
        destruct (ltb (key z) (key x)) eqn:Ezx; [|reflexivity].
        specialize (Hall z Hz). unfold key_le in Hall.
        destruct (ltb (key y) (key z)) eqn:Eyz.
        * rewrite <- Eyx. symmetry. eapply Htr; eassumption.
        * rewrite <- Eyx. rewrite (Htot _ _ Eyz Hall). symmetry. exact Ezx.
  Qed.

  Lemma sort_stable_sorted' : strict_total ltb -> forall l,
    StronglySorted key_le (sort_stable key ltb l).
  Proof.
    intros Hst l. unfold sort_stable. induction l as [|x r IH]; cbn [fold_right].
    - constructor.
    - apply insert_stable_sorted; assumption.
  Qed.

  (* a sorted list with pairwise distinct keys is determined by its elements *)
  Lemma sorted_unique : strict_total ltb -> forall l1 l2,
    StronglySorted key_le l1 -> StronglySorted key_le l2 -> NoDup (map key l1) ->
    Permutation l1 l2 -> l1 = l2.
  Proof.
    intros (_ & _ & Htot) l1. induction l1 as [|a r1 IH]; intros l2 Hs1 Hs2 Hnd Hp.
    - apply Permutation_nil in Hp. symmetry; exact Hp.
    - destruct l2 as [|b r2].
      + apply Permutation_sym, Permutation_nil in Hp. discriminate Hp.
      + inversion Hs1 as [|? ? Hs1r Hall1]; subst.
        inversion Hs2 as [|? ? Hs2r Hall2]; subst.
        cbn [map] in Hnd. inversion Hnd as [|? ? Hnotin Hndr]; subst.
        assert (Hab : a = b).
        { assert (Ha : In a (b :: r2)) by (eapply Permutation_in; [exact Hp | left; reflexivity]).
          assert (Hb : In b (a :: r1)) by (eapply Permutation_in; [apply Permutation_sym, Hp | left; reflexivity]).
          destruct Ha as [Ha|Ha]; [symmetry; exact Ha|].
          destruct Hb as [Hb|Hb]; [exact Hb|].
          exfalso. apply Hnotin.
          rewrite Forall_forall in Hall1, Hall2.
          specialize (Hall1 b Hb). specialize (Hall2 a Ha). unfold key_le in Hall1, Hall2.
          rewrite (Htot (key a) (key b) Hall2 Hall1). apply in_map, Hb. }
        subst b. f_equal. apply IH; try assumption.
        eapply Permutation_cons_inv; exact Hp.
  Qed.
  (* an already sorted list (ties allowed) is a fixed point of the sort; no property of ltb needed *)
  Lemma sort_sorted_id : forall l, StronglySorted key_le l -> sort_stable key ltb l = l.
  Proof.
    intros l Hs. induction Hs as [|x r Hsr IH Hall]; [reflexivity|].
    unfold sort_stable. cbn [fold_right]. fold (sort_stable key ltb r). rewrite IH.
    destruct r as [|y r']; cbn [insert_stable]; [reflexivity|].
    inversion Hall as [|? ? Hxy _]; subst. unfold key_le in Hxy. rewrite Hxy. reflexivity.
  Qed.

  (* stability: the elements with a given key keep their input order *)
  Variable keqb : K -> K -> bool.
  Hypothesis keqb_eq : forall a b, keqb a b = true -> a = b.
  Hypothesis ltb_irrefl : forall a, ltb a a = false.

  Lemma insert_stable_filter_key : forall k x l,
    filter (fun y => keqb (key y) k) (insert_stable key ltb x l) =
    (if keqb (key x) k then [x] else []) ++ filter (fun y => keqb (key y) k) l.
  Proof.
    intros k x l. induction l as [|y r IH]; cbn [insert_stable].
    - cbn [filter]. destruct (keqb (key x) k); reflexivity.
    - destruct (ltb (key y) (key x)) eqn:Eyx.
      + cbn [filter]. rewrite IH.
        destruct (keqb (key y) k) eqn:Ey; [|reflexivity].
        destruct (keqb (key x) k) eqn:Ex; [|reflexivity].
        apply keqb_eq in Ey, Ex. rewrite Ey, Ex, ltb_irrefl in Eyx. discriminate Eyx.
      + cbn [filter]. destruct (keqb (key x) k); reflexivity.
  Qed.

  Lemma sort_stable_filter_key : forall k l,
    filter (fun y => keqb (key y) k) (sort_stable key ltb l) = filter (fun y => keqb (key y) k) l.
  Proof.
    intros k l. unfold sort_stable. induction l as [|x r IH]; [reflexivity|].
    cbn [fold_right]. rewrite insert_stable_filter_key, IH. cbn [filter].
    destruct (keqb (key x) k); reflexivity.
  Qed.
End SortFacts.

(* the sort is stable: equal keys keep their input order (like Python's sorted) *)
Theorem sort_stable_is_stable : forall A K (key : A -> K) ltb (keqb : K -> K -> bool),
  (forall a b, keqb a b = true -> a = b) -> (forall a, ltb a a = false) ->
  forall k (l : list A),
  filter (fun y => keqb (key y) k) (sort_stable key ltb l) = filter (fun y => keqb (key y) k) l.
Proof. intros A K key ltb keqb H1 H2 k l. apply sort_stable_filter_key; assumption. Qed.

Example sort_stable_is_stable_ex :
  sort_stable (fun x : nat * string => fst x) Nat.ltb [(1, "a"); (1, "b"); (0, "c")] = [(0, "c"); (1, "a"); (1, "b")].
Proof. reflexivity. Qed.

Theorem sort_stable_perm : forall A K (key : A -> K) ltb (l : list A),
  Permutation (sort_stable key ltb l) l.
Proof. intros A K key ltb l. apply sort_stable_perm'. Qed.

Theorem sort_stable_sorted : forall A K (key : A -> K) ltb (l : list A), strict_total ltb ->
  StronglySorted (fun x y => ltb (key y) (key x) = false) (sort_stable key ltb l).
Proof. intros A K key ltb l Hst. apply (sort_stable_sorted' key ltb Hst l). Qed.

Theorem sort_stable_canonical : forall A K (key : A -> K) ltb (l1 l2 : list A), strict_total ltb ->
  NoDup (map key l1) -> Permutation l1 l2 -> sort_stable key ltb l1 = sort_stable key ltb l2.
Proof.
  intros A K key ltb l1 l2 Hst Hnd Hp.
  apply (sorted_unique key ltb Hst).
  - apply sort_stable_sorted'; exact Hst.
  - apply sort_stable_sorted'; exact Hst.
  - eapply Permutation_NoDup; [|exact Hnd].
    apply Permutation_map, Permutation_sym, sort_stable_perm.
  - eapply perm_trans; [apply sort_stable_perm|].
    eapply perm_trans; [exact Hp | apply Permutation_sym, sort_stable_perm].
Qed.

(* ====================================================================== *)
(* 2. The orders used by the serialiser                                    *)
(* ====================================================================== *)

Lemma ascii_compare_refl : forall c, Ascii.compare c c = Eq.
Proof. intros c. unfold Ascii.compare. apply N.compare_refl. Qed.

Lemma string_compare_refl : forall s, String.compare s s = Eq.
Proof.
  induction s as [|c s IH]; cbn [String.compare]; [reflexivity|].
  rewrite ascii_compare_refl. exact IH.
Qed.

Lemma string_compare_lt_trans : forall a b c,
  String.compare a b = Lt -> String.compare b c = Lt -> String.compare a c = Lt.
Proof.
  induction a as [|x a IH]; intros [|y b] [|z c] Hab Hbc; cbn [String.compare] in *;
    try discriminate; try reflexivity.
  destruct (Ascii.compare x y) eqn:Exy; try discriminate.
  - apply Ascii.compare_eq_iff in Exy. subst y.
    destruct (Ascii.compare x z) eqn:Exz; try discriminate; [|reflexivity].
    eapply IH; eassumption.
  - destruct (Ascii.compare y z) eqn:Eyz; try discriminate.
    + apply Ascii.compare_eq_iff in Eyz. subst z. rewrite Exy. reflexivity.
    + assert (Hxz : Ascii.compare x z = Lt).
      { unfold Ascii.compare in *. rewrite N.compare_lt_iff in *. eapply N.lt_trans; eassumption. }
      rewrite Hxz. reflexivity.
Qed.

Lemma string_ltb_lt : forall a b, String.ltb a b = true <-> String.compare a b = Lt.
Proof. intros a b. unfold String.ltb. destruct (String.compare a b); split; congruence. Qed.

Theorem string_ltb_strict_total : strict_total String.ltb.
Proof.
  repeat split.
  - intros a. unfold String.ltb. rewrite string_compare_refl. reflexivity.
  - intros a b c Hab Hbc. rewrite string_ltb_lt in *. eapply string_compare_lt_trans; eassumption.
  - intros a b Hab Hba. unfold String.ltb in *.
    rewrite String.compare_antisym in Hab.
    destruct (String.compare b a) eqn:E; cbn [CompOpp] in *; try discriminate.
    symmetry. apply String.compare_eq_iff, E.
Qed.

Lemma string_ltb_irrefl : forall a, String.ltb a a = false.
Proof. apply string_ltb_strict_total. Qed.
Lemma string_ltb_trans : forall a b c, String.ltb a b = true -> String.ltb b c = true -> String.ltb a c = true.
Proof. apply string_ltb_strict_total. Qed.
Lemma string_ltb_total : forall a b, String.ltb a b = false -> String.ltb b a = false -> a = b.
Proof. apply string_ltb_strict_total. Qed.

Theorem key_ltb_strict_total : strict_total key_ltb.
Proof.
  repeat split.
  - induction a as [|x a IH]; cbn [key_ltb]; [reflexivity|].
    rewrite String.eqb_refl. exact IH.
  - induction a as [|x a IH]; intros [|y b] [|z c] Hab Hbc; cbn [key_ltb] in *;
      try discriminate; try reflexivity.
    destruct (String.eqb_spec x y) as [->|Nxy].
    + destruct (String.eqb_spec y z) as [->|Nyz]; [eapply IH; eassumption | exact Hbc].
    + destruct (String.eqb_spec y z) as [->|Nyz].
      * destruct (String.eqb_spec x z) as [->|Nxz]; [contradiction | exact Hab].
      * destruct (String.eqb_spec x z) as [->|Nxz].
        -- exfalso. pose proof (string_ltb_trans _ _ _ Hab Hbc) as Hzz.
           rewrite string_ltb_irrefl in Hzz. discriminate.
        -- eapply string_ltb_trans; eassumption.
  - induction a as [|x a IH]; intros [|y b] Hab Hba; cbn [key_ltb] in *;
      try discriminate; try reflexivity.
    rewrite (String.eqb_sym y x) in Hba.
    destruct (String.eqb_spec x y) as [->|Nxy].
    + f_equal. apply IH; assumption.
    + exfalso. apply Nxy. apply string_ltb_total; assumption.
Qed.

(* lexicographic product of two strict total orders *)
Definition lex_ltb {K1 K2} (lt1 : K1 -> K1 -> bool) (lt2 : K2 -> K2 -> bool) (a b : K1 * K2) : bool :=
  if lt1 (fst a) (fst b) then true else if lt1 (fst b) (fst a) then false else lt2 (snd a) (snd b).

Lemma lex_strict_total : forall K1 K2 (lt1 : K1 -> K1 -> bool) (lt2 : K2 -> K2 -> bool),
  strict_total lt1 -> strict_total lt2 -> strict_total (lex_ltb lt1 lt2).
Proof.
  intros K1 K2 lt1 lt2 (Hi1 & Ht1 & Hc1) (Hi2 & Ht2 & Hc2). unfold lex_ltb. repeat split.
  - intros [a1 a2]. cbn [fst snd]. rewrite Hi1. apply Hi2.
  - intros [a1 a2] [b1 b2] [c1 c2]. cbn [fst snd]. intros Hab Hbc.
    destruct (lt1 a1 b1) eqn:Eab.
    + destruct (lt1 b1 c1) eqn:Ebc.
      * rewrite (Ht1 _ _ _ Eab Ebc). reflexivity.
      * destruct (lt1 c1 b1) eqn:Ecb; [discriminate|].
        rewrite (Hc1 _ _ Ebc Ecb) in Eab. rewrite Eab. reflexivity.
    + destruct (lt1 b1 a1) eqn:Eba; [discriminate|].
      pose proof (Hc1 _ _ Eab Eba) as ->.
      destruct (lt1 b1 c1) eqn:Ebc; [reflexivity|].
      destruct (lt1 c1 b1) eqn:Ecb; [discriminate|].
      eapply Ht2; eassumption.
  - intros [a1 a2] [b1 b2]. cbn [fst snd]. intros Hab Hba.
    destruct (lt1 a1 b1) eqn:Eab; [discriminate|].
    destruct (lt1 b1 a1) eqn:Eba; [discriminate|].
    rewrite (Hc1 _ _ Eab Eba), (Hc2 _ _ Hab Hba). reflexivity.
Qed.

Definition pair_ltb (p q : string * string) : bool :=
  if String.eqb (fst p) (fst q) then String.ltb (snd p) (snd q) else String.ltb (fst p) (fst q).

Lemma pair_ltb_strict_total : strict_total pair_ltb.
Proof.
  apply (strict_total_ext _ (lex_ltb String.ltb String.ltb)).
  - intros [p1 p2] [q1 q2]. unfold lex_ltb, pair_ltb. cbn [fst snd].
    destruct (String.eqb_spec p1 q1) as [->|N].
    + rewrite string_ltb_irrefl. reflexivity.
    + destruct (String.ltb p1 q1) eqn:E1; [reflexivity|].
      destruct (String.ltb q1 p1) eqn:E2; [reflexivity|].
      exfalso. apply N. apply string_ltb_total; assumption.
  - apply lex_strict_total; apply string_ltb_strict_total.
Qed.

Theorem full_key_ltb_strict_total : strict_total full_key_ltb.
Proof.
  apply (strict_total_ext _ (lex_ltb key_ltb pair_ltb)).
  - intros a b. reflexivity.
  - apply lex_strict_total; [apply key_ltb_strict_total | apply pair_ltb_strict_total].
Qed.

Theorem full_key_injective : forall e1 e2, full_key e1 = full_key e2 ->
  e_scope e1 = e_scope e2 /\ e_sel e1 = e_sel e2.
Proof.
  intros e1 e2 H. unfold full_key in H. injection H as _ Hs Hl. split; assumption.
Qed.

(* the key of the header: __gin__ feature statements first (false < true), then by module *)
Definition bool_ltb (a b : bool) : bool := negb a && b.
Lemma bool_ltb_strict_total : strict_total bool_ltb.
Proof.
  repeat split.
  - intros []; reflexivity.
  - intros [] [] []; cbn; congruence.
  - intros [] []; cbn; congruence.
Qed.
Theorem sorted_key_ltb_strict_total : strict_total sorted_key_ltb.
Proof.
  apply (strict_total_ext _ (lex_ltb bool_ltb String.ltb)).
  - intros [a1 a2] [b1 b2]. unfold lex_ltb, sorted_key_ltb, bool_ltb. cbn [fst snd].
    destruct a1, b1; reflexivity.
  - apply lex_strict_total; [apply bool_ltb_strict_total | apply string_ltb_strict_total].
Qed.

(* ====================================================================== *)
(* 3. config_lines, structurally                                           *)
(* ====================================================================== *)

Definition reg_of (registry : list string) : smap unit :=
  fold_left (fun m s => sm_set (to_key s) tt m) registry sm_empty.
Definition macro_ok (e : sentry) : bool :=
  is_macro e && match sget_value e with Some v => v_repr_ok v | None => false end.
Definition section_ok (e : sentry) : bool := negb (is_macro e) && negb (is_constant e).
Definition macro_entries (entries : list sentry) : list sentry :=
  sort_stable full_key full_key_ltb (filter macro_ok entries).
Definition other_entries (entries : list sentry) : list sentry :=
  filter section_ok (sort_stable full_key full_key_ltb entries).
Definition import_lines (imports : list simport) : list string :=
  map import_format (sorted_imports (import_manager imports)).
(* the header name of a section: [scope/]minimal_selector *)
Definition section_name (registry : list string) (e : sentry) : string :=
  let minimal := match sm_minimal (to_key (e_sel e)) (reg_of registry) with Some k => of_key k | None => e_sel e end in
  let minimal := if e_method e && negb (contains_char dot minimal)
                 then join_dot (last_n 2 (split_dot (e_sel e))) else minimal in
  (if String.eqb (e_scope e) "" then "" else e_scope e ^^ "/") ^^ minimal.
Definition section_params (e : sentry) : list (string * sval) :=
  sort_stable (fun kv => fst kv) String.ltb (filter (fun kv => v_repr_ok (snd kv)) (e_params e)).

(* an item of the output: a fixed line, or a binding `key = value` rendered by format_binding *)
Inductive item : Type := ILine (s : string) | IBind (key : string) (v : sval).
Definition render_item (maxlen indent : nat) (it : item) : list string :=
  match it with ILine s => [s] | IBind k v => format_binding maxlen indent k v end.
Definition macro_items (e : sentry) : list item :=
  match sget_value e with Some v => [IBind (e_scope e) v] | None => [ILine "<KeyError>"] end.
Definition section_items (registry : list string) (maxlen : nat) (e : sentry) : list item :=
  [ILine ("# Parameters for " ^^ section_name registry e ^^ ":"); ILine (rule maxlen)]
  ++ map (fun kv => IBind (section_name registry e ^^ "." ^^ fst kv) (snd kv)) (section_params e)
  ++ (match section_params e with [] => [ILine "# None."] | _ => [] end)
  ++ [ILine ""].
Definition config_items (registry : list string) (imports : list simport) (entries : list sentry)
           (maxlen : nat) : list item :=
  map ILine (import_lines imports)
  ++ (match import_lines imports with [] => [] | _ => [ILine ""] end)
  ++ (match macro_entries entries with [] => [] | _ => [ILine "# Macros:"; ILine (rule maxlen)] end)
  ++ flat_map macro_items (macro_entries entries)
  ++ (match macro_entries entries with [] => [] | _ => [ILine ""] end)
  ++ flat_map (section_items registry maxlen) (other_entries entries).

(* config_lines, with its local definitions named *)
Lemma config_lines_unfold : forall registry imports entries maxlen indent,
  config_lines registry imports entries maxlen indent =
  import_lines imports ++ (match import_lines imports with [] => [] | _ => [""] end)
  ++ (match macro_entries entries with [] => [] | _ => ["# Macros:"; rule maxlen] end)
  ++ flat_map (fun e => match sget_value e with
                        | Some v => format_binding maxlen indent (e_scope e) v
                        | None => ["<KeyError>"]
                        end) (macro_entries entries)
  ++ (match macro_entries entries with [] => [] | _ => [""] end)
  ++ flat_map (fun e =>
       ["# Parameters for " ^^ section_name registry e ^^ ":"; rule maxlen]
       ++ flat_map (fun kv => format_binding maxlen indent (section_name registry e ^^ "." ^^ fst kv) (snd kv))
                   (section_params e)
       ++ (match section_params e with [] => ["# None."] | _ => [] end)
       ++ [""]) (other_entries entries).
Proof. intros. reflexivity. Qed.

Lemma flat_map_flat_map : forall A B C (f : A -> list B) (g : B -> list C) l,
  flat_map g (flat_map f l) = flat_map (fun x => flat_map g (f x)) l.
Proof.
  intros A B C f g l. induction l as [|x r IH]; cbn [flat_map]; [reflexivity|].
  rewrite flat_map_app, IH. reflexivity.
Qed.
Lemma flat_map_map : forall A B C (f : A -> B) (g : B -> list C) l,
  flat_map g (map f l) = flat_map (fun x => g (f x)) l.
Proof.
  intros A B C f g l. induction l as [|x r IH]; cbn [flat_map map]; [reflexivity|].
  rewrite IH. reflexivity.
Qed.
Lemma flat_map_singleton : forall A B (f : A -> B) l, flat_map (fun x => [f x]) l = map f l.
Proof.
  intros A B f l. induction l as [|x r IH]; cbn [flat_map map app]; [reflexivity|].
  rewrite IH. reflexivity.
Qed.

(* (a) the text is the rendering of the items: every value printed is an IBind of config_items *)
Theorem config_lines_items : forall registry imports entries maxlen indent,
  config_lines registry imports entries maxlen indent =
  flat_map (render_item maxlen indent) (config_items registry imports entries maxlen).
Proof.
  intros registry imports entries maxlen indent.
  rewrite config_lines_unfold. unfold config_items.
  rewrite !flat_map_app, !flat_map_flat_map, flat_map_map.
  f_equal; [|f_equal; [|f_equal; [|f_equal; [|f_equal]]]].
  - cbn [render_item]. rewrite flat_map_singleton, map_id. reflexivity.
  - destruct (import_lines imports); reflexivity.
  - destruct (macro_entries entries); reflexivity.
  - apply flat_map_ext. intros e. unfold macro_items.
    destruct (sget_value e); cbn [flat_map render_item app]; rewrite ?app_nil_r; reflexivity.
  - destruct (macro_entries entries); reflexivity.
  - apply flat_map_ext. intros e. unfold section_items.
    rewrite !flat_map_app, flat_map_map. cbn [flat_map render_item app].
    f_equal. f_equal. f_equal.
    destruct (section_params e); reflexivity.
Qed.

(* ---- order independence ---- *)
Lemma NoDup_map_filter : forall A B (f : A -> B) p l, NoDup (map f l) -> NoDup (map f (filter p l)).
Proof.
  intros A B f p l. induction l as [|x r IH]; cbn [map filter]; intros Hnd; [constructor|].
  inversion Hnd as [|? ? Hnotin Hndr]; subst.
  destruct (p x); cbn [map]; [|apply IH, Hndr].
  constructor; [|apply IH, Hndr].
  intros Hin. apply Hnotin. apply in_map_iff in Hin. destruct Hin as [y [Hy Hin]].
  apply filter_In in Hin. rewrite <- Hy. apply in_map, Hin.
Qed.
Lemma NoDup_map_compose : forall A B C (f : A -> B) (g : B -> C) l,
  NoDup (map (fun x => g (f x)) l) -> NoDup (map f l).
Proof.
  intros A B C f g l. induction l as [|x r IH]; cbn [map]; intros Hnd; [constructor|].
  inversion Hnd as [|? ? Hnotin Hndr]; subst. constructor; [|apply IH, Hndr].
  intros Hin. apply Hnotin. apply in_map_iff in Hin. destruct Hin as [y [Hy Hin]].
  apply in_map_iff. exists y. split; [rewrite Hy; reflexivity | exact Hin].
Qed.
Lemma Permutation_filter : forall A (p : A -> bool) l1 l2,
  Permutation l1 l2 -> Permutation (filter p l1) (filter p l2).
Proof.
  intros A p l1 l2 Hp. induction Hp as [|x l l' Hp IH|x y l|l l' l'' Hp1 IH1 Hp2 IH2]; cbn [filter].
  - constructor.
  - destruct (p x); [apply perm_skip|]; exact IH.
  - destruct (p x), (p y); try apply Permutation_refl. apply perm_swap.
  - eapply perm_trans; eassumption.
Qed.

Lemma NoDup_full_key : forall es, NoDup (map (fun e => (e_scope e, e_sel e)) es) -> NoDup (map full_key es).
Proof.
  intros es Hnd. apply (NoDup_map_compose _ _ _ full_key snd). exact Hnd.
Qed.

Theorem C06_order_independent : forall registry imports es1 es2 maxlen indent,
  NoDup (map (fun e => (e_scope e, e_sel e)) es1) -> Permutation es1 es2 ->
  config_lines registry imports es1 maxlen indent = config_lines registry imports es2 maxlen indent.
Proof.
  intros registry imports es1 es2 maxlen indent Hnd Hp.
  apply NoDup_full_key in Hnd.
  assert (Hm : macro_entries es1 = macro_entries es2).
  { unfold macro_entries. apply sort_stable_canonical.
    - apply full_key_ltb_strict_total.
    - apply NoDup_map_filter, Hnd.
    - apply Permutation_filter, Hp. }
  assert (Ho : other_entries es1 = other_entries es2).
  { unfold other_entries. f_equal. apply sort_stable_canonical.
    - apply full_key_ltb_strict_total.
    - exact Hnd.
    - exact Hp. }
  rewrite !config_lines_unfold, Hm, Ho. reflexivity.
Qed.

Theorem C06_params_order_independent : forall (ps1 ps2 : list (string * sval)),
  NoDup (map fst ps1) -> Permutation ps1 ps2 ->
  sort_stable (fun kv => fst kv) String.ltb (filter (fun kv => v_repr_ok (snd kv)) ps1) =
  sort_stable (fun kv => fst kv) String.ltb (filter (fun kv => v_repr_ok (snd kv)) ps2).
Proof.
  intros ps1 ps2 Hnd Hp. apply sort_stable_canonical.
  - apply string_ltb_strict_total.
  - apply (NoDup_map_filter _ _ (fun kv : string * sval => fst kv)). exact Hnd.
  - apply Permutation_filter, Hp.
Qed.

(* a section's lines do not depend on the order of its parameter dict *)
Corollary C06_section_params_order_independent : forall e1 e2,
  NoDup (map fst (e_params e1)) -> Permutation (e_params e1) (e_params e2) ->
  section_params e1 = section_params e2.
Proof. intros e1 e2 Hnd Hp. unfold section_params. apply C06_params_order_independent; assumption. Qed.

(* parameters of a section are printed in strictly increasing name order *)
Theorem C06_params_sorted : forall e,
  StronglySorted (fun x y => String.ltb (fst y) (fst x) = false) (section_params e).
Proof.
  intros e. unfold section_params.
  apply (sort_stable_sorted _ _ (fun kv : string * sval => fst kv) String.ltb).
  apply string_ltb_strict_total.
Qed.

(* ---- nothing non-representable is emitted ---- *)
Definition emitted_bindings registry imports entries maxlen : list (string * sval) :=
  flat_map (fun it => match it with IBind k v => [(k, v)] | ILine _ => [] end)
           (config_items registry imports entries maxlen).
Definition emitted_values registry imports entries maxlen : list sval :=
  map snd (emitted_bindings registry imports entries maxlen).

Lemma sget_value_in_In : forall l v, sget_value_in l = Some v -> exists k, In (k, v) l.
Proof.
  induction l as [|[k w] r IH]; cbn [sget_value_in]; intros v H; [discriminate|].
  destruct (String.eqb k "value").
  - injection H as ->. exists k. left; reflexivity.
  - destruct (IH v H) as [k' Hk']. exists k'. right; exact Hk'.
Qed.

(* every binding item comes from a representable parameter (or macro value) of some entry *)
Theorem config_items_bind_origin : forall registry imports entries maxlen key v,
  In (IBind key v) (config_items registry imports entries maxlen) ->
  v_repr_ok v = true /\ exists e name, In e entries /\ In (name, v) (e_params e).
Proof.
  intros registry imports entries maxlen key v Hin. unfold config_items in Hin.
  repeat (apply in_app_or in Hin; destruct Hin as [Hin|Hin]).
  - apply in_map_iff in Hin. destruct Hin as [s [Hs _]]. discriminate Hs.
  - destruct (import_lines imports); cbn [In] in Hin; [contradiction|].
    destruct Hin as [Hin|[]]; discriminate Hin.
  - destruct (macro_entries entries); cbn [In] in Hin; [contradiction|].
    destruct Hin as [Hin|[Hin|[]]]; discriminate Hin.
  - apply in_flat_map in Hin. destruct Hin as [e [He Hin]].
    unfold macro_entries in He.
    apply (Permutation_in _ (sort_stable_perm _ _ _ _ _)) in He.
    apply filter_In in He. destruct He as [He Hok].
    unfold macro_ok in Hok. apply andb_true_iff in Hok. destruct Hok as [_ Hok].
    unfold macro_items in Hin. destruct (sget_value e) as [w|] eqn:Ew; cbn [In] in Hin.
    + destruct Hin as [Hin|[]]. injection Hin as _ ->. split; [exact Hok|].
      unfold sget_value in Ew. apply sget_value_in_In in Ew. destruct Ew as [k Hk].
      exists e, k. split; assumption.
    + destruct Hin as [Hin|[]]. discriminate Hin.
  - destruct (macro_entries entries); cbn [In] in Hin; [contradiction|].
    destruct Hin as [Hin|[]]; discriminate Hin.
  - apply in_flat_map in Hin. destruct Hin as [e [He Hin]].
    unfold other_entries in He. apply filter_In in He. destruct He as [He _].
    apply (Permutation_in _ (sort_stable_perm _ _ _ _ _)) in He.
    unfold section_items in Hin.
    repeat (apply in_app_or in Hin; destruct Hin as [Hin|Hin]).
    + cbn [In] in Hin. destruct Hin as [Hin|[Hin|[]]]; discriminate Hin.
    + apply in_map_iff in Hin. destruct Hin as [[k w] [Hkw Hin]]. cbn [fst snd] in Hkw.
      injection Hkw as _ ->.
      unfold section_params in Hin.
      apply (Permutation_in _ (sort_stable_perm _ _ _ _ _)) in Hin.
      apply filter_In in Hin. cbn [snd] in Hin. destruct Hin as [Hin Hok].
      split; [exact Hok|]. exists e, k. split; assumption.
    + destruct (section_params e); cbn [In] in Hin; [|contradiction].
      destruct Hin as [Hin|[]]; discriminate Hin.
    + cbn [In] in Hin. destruct Hin as [Hin|[]]; discriminate Hin.
Qed.

(* (b) all values handed to format_binding are representable *)
Theorem C06_only_representable_emitted : forall registry imports entries maxlen,
  Forall (fun v => v_repr_ok v = true) (emitted_values registry imports entries maxlen).
Proof.
  intros registry imports entries maxlen. apply Forall_forall. intros v Hin.
  unfold emitted_values in Hin. apply in_map_iff in Hin. destruct Hin as [[k w] [Hv Hin]].
  cbn [snd] in Hv. subst w.
  unfold emitted_bindings in Hin. apply in_flat_map in Hin. destruct Hin as [it [Hit Hin]].
  destruct it as [s|k' v']; cbn [In] in Hin; [contradiction|].
  destruct Hin as [Hin|[]]. injection Hin as -> ->.
  eapply config_items_bind_origin; exact Hit.
Qed.

(* the form of the original placeholder: a non-representable value is never passed to format_binding *)
Corollary C06_nonrepresentable_not_emitted : forall registry imports entries maxlen v,
  v_repr_ok v = false -> ~ In v (emitted_values registry imports entries maxlen).
Proof.
  intros registry imports entries maxlen v Hv Hin.
  pose proof (C06_only_representable_emitted registry imports entries maxlen) as Hall.
  rewrite Forall_forall in Hall. rewrite (Hall v Hin) in Hv. discriminate Hv.
Qed.

(* conversely: every representable parameter of a non-macro, non-constant entry is emitted *)
Theorem C06_representable_emitted : forall registry imports entries maxlen e k v,
  In e entries -> section_ok e = true -> In (k, v) (e_params e) -> v_repr_ok v = true ->
  In (section_name registry e ^^ "." ^^ k, v) (emitted_bindings registry imports entries maxlen).
Proof.
  intros registry imports entries maxlen e k v He Hok Hkv Hv.
  unfold emitted_bindings. apply in_flat_map.
  exists (IBind (section_name registry e ^^ "." ^^ k) v). split; [|left; reflexivity].
  unfold config_items. do 5 (apply in_or_app; right).
  apply in_flat_map. exists e. split.
  - unfold other_entries. apply filter_In. split; [|exact Hok].
    apply (Permutation_in _ (Permutation_sym (sort_stable_perm _ _ _ _ _))). exact He.
  - unfold section_items. apply in_or_app; right. apply in_or_app; left.
    apply in_map_iff. exists (k, v). split; [reflexivity|].
    unfold section_params.
    apply (Permutation_in _ (Permutation_sym (sort_stable_perm _ _ _ _ _))).
    apply filter_In. split; [exact Hkv | exact Hv].
Qed.

(* ====================================================================== *)
(* 4. format_binding                                                       *)
(* ====================================================================== *)

Theorem format_binding_single : forall maxlen indent key one, cp_length (key ^^ one) <= maxlen ->
  format_binding maxlen indent key {| v_repr_ok := true; v_lines := [one] |} = [key ^^ " = " ^^ one].
Proof.
  intros maxlen indent key one Hle. unfold format_binding. cbn [v_lines].
  apply Nat.leb_le in Hle. rewrite Hle. reflexivity.
Qed.

Theorem format_binding_continuation : forall maxlen indent key ls v, v_lines v = ls -> List.length ls <> 1 ->
  format_binding maxlen indent key v = (key ^^ " = \") :: map (indent_line indent) ls.
Proof.
  intros maxlen indent key ls v Hv Hlen. unfold format_binding. rewrite Hv.
  destruct ls as [|a [|b r]]; [reflexivity | | reflexivity].
  exfalso. apply Hlen. reflexivity.
Qed.

(* a single line that does not fit is also continued *)
Theorem format_binding_too_long : forall maxlen indent key one v, v_lines v = [one] ->
  maxlen < cp_length (key ^^ one) ->
  format_binding maxlen indent key v = [key ^^ " = \"; indent_line indent one].
Proof.
  intros maxlen indent key one v Hv Hlt. unfold format_binding. rewrite Hv.
  apply Nat.leb_gt in Hlt. rewrite Hlt. reflexivity.
Qed.

Lemma prefix_append_same : forall a b c, String.prefix (a ^^ b) (a ^^ c) = String.prefix b c.
Proof.
  induction a as [|x a IH]; intros b c; [reflexivity|].
  cbn [String.append String.prefix]. destruct (ascii_dec x x) as [_|N]; [apply IH | contradiction].
Qed.

Lemma prefix_nil : forall c, String.prefix "" c = true.
Proof. destruct c; reflexivity. Qed.
Lemma prefix_append : forall a c, String.prefix a (a ^^ c) = true.
Proof.
  induction a as [|x a IH]; intros c; [apply prefix_nil|].
  cbn [String.append String.prefix]. destruct (ascii_dec x x) as [_|N]; [apply IH | contradiction].
Qed.

Theorem format_binding_first_line : forall maxlen indent key v, exists rest,
  format_binding maxlen indent key v = rest /\ rest <> [] /\
  String.prefix (key ^^ " = ") (hd "" rest) = true.
Proof.
  intros maxlen indent key v. eexists. split; [reflexivity|].
  unfold format_binding.
  destruct (v_lines v) as [|a [|b r]].
  - split; [discriminate|]. cbn [hd]. rewrite prefix_append_same. reflexivity.
  - destruct (cp_length (key ^^ a) <=? maxlen)%nat.
    + split; [discriminate|]. cbn [hd]. rewrite prefix_append_same. apply prefix_append.
    + split; [discriminate|]. cbn [hd]. rewrite prefix_append_same. reflexivity.
  - split; [discriminate|]. cbn [hd]. rewrite prefix_append_same. reflexivity.
Qed.

(* ====================================================================== *)
(* 5. markdown                                                             *)
(* ====================================================================== *)

(* the lines of the Markdown text that are code lines *)
Definition md_code (l : string) : bool := String.prefix "    " l && negb (String.eqb l "    # None.").

(* The statement without a side condition is FALSE: a comment whose text starts with four blanks
   renders to something that looks like a code line. *)
Example C06_markdown_verbatim_unconditional_false :
  filter md_code (markdown ["#     x"]) = ["    x"] /\
  map (fun l => "    " ^^ l) (filter (fun l => negb (String.prefix "#" l)) ["#     x"]) = [].
Proof. split; vm_compute; reflexivity. Qed.

(* the side condition on a comment line: what follows "# " is a rule, "None...", a header ending in
   ':', or at least does not start with four blanks *)
Definition md_comment_ok (l : string) : bool :=
  let d := drop2 l in
  starts_with "====" d || starts_with "None" d || ends_with_colon d || negb (String.prefix "    " d).

Lemma md_line_noncomment : forall l, String.prefix "#" l = false ->
  md_line l = "    " ^^ l /\ md_code ("    " ^^ l) = true.
Proof.
  intros l Hl. split.
  - unfold md_line, starts_with. rewrite Hl. reflexivity.
  - unfold md_code. apply andb_true_iff. split.
    + apply prefix_append.
    + destruct (String.eqb_spec ("    " ^^ l) "    # None.") as [E|N]; [|reflexivity].
      cbn [String.append] in E. injection E as E. subst l. vm_compute in Hl. discriminate Hl.
Qed.

Lemma md_line_comment : forall l, String.prefix "#" l = true -> md_comment_ok l = true ->
  md_code (md_line l) = false.
Proof.
  intros l Hl Hok. unfold md_line, starts_with in *. rewrite Hl. cbn [negb].
  unfold md_comment_ok, starts_with in Hok. cbv zeta in *.
  destruct (String.prefix "====" (drop2 l)); [reflexivity|].
  destruct (String.prefix "None" (drop2 l)); [reflexivity|].
  destruct (ends_with_colon (drop2 l)); [reflexivity|].
  cbn [orb] in Hok. apply negb_true_iff in Hok. unfold md_code. rewrite Hok. reflexivity.
Qed.

Theorem C06_markdown_verbatim : forall ls,
  Forall (fun l => String.prefix "#" l = true -> md_comment_ok l = true) ls ->
  filter (fun l => String.prefix "    " l && negb (String.eqb l "    # None.")) (markdown ls) =
  map (fun l => "    " ^^ l) (filter (fun l => negb (String.prefix "#" l)) ls).
Proof.
  intros ls Hall. change (fun l => String.prefix "    " l && negb (String.eqb l "    # None.")) with md_code.
  unfold markdown. induction Hall as [|l ls Hl Hall IH]; [reflexivity|].
  cbn [map filter]. destruct (String.prefix "#" l) eqn:El; cbn [negb].
  - rewrite (md_line_comment l El (Hl eq_refl)). exact IH.
  - destruct (md_line_noncomment l El) as [-> ->]. cbn [map]. rewrite IH. reflexivity.
Qed.

(* the comment lines that config_lines produces *)
Definition gin_comment (maxlen : nat) (l : string) : Prop :=
  l = "# Macros:" \/ l = "# None." \/ l = rule maxlen \/ exists s, l = "# Parameters for " ^^ s ^^ ":".

Lemma append_assoc_s : forall a b c, (a ^^ b) ^^ c = a ^^ b ^^ c.
Proof. induction a as [|x a IH]; intros b c; cbn [String.append]; [reflexivity | rewrite IH; reflexivity]. Qed.

Lemma ends_with_colon_append : forall a, ends_with_colon (a ^^ ":") = true.
Proof.
  induction a as [|x a IH]; [reflexivity|].
  cbn [String.append ends_with_colon]. destruct (a ^^ ":") eqn:E; [|exact IH].
  destruct a; discriminate E.
Qed.

Lemma gin_comment_md_ok : forall maxlen l, gin_comment maxlen l -> md_comment_ok l = true.
Proof.
  intros maxlen l [->|[->|[->|[s ->]]]].
  - reflexivity.
  - reflexivity.
  - unfold rule, md_comment_ok.
    change (drop2 ("# " ^^ repeat_char "=" (maxlen - 2))) with (repeat_char "=" (maxlen - 2)).
    cbv zeta. generalize (maxlen - 2) as n. intros n.
    destruct n as [|[|[|[|n]]]]; try reflexivity.
    change (repeat_char "=" (S (S (S (S n))))) with ("====" ^^ repeat_char "=" n).
    unfold starts_with. rewrite prefix_append. reflexivity.
  - unfold md_comment_ok.
    change (drop2 ("# Parameters for " ^^ s ^^ ":")) with ("Parameters for " ^^ s ^^ ":").
    cbv zeta. rewrite <- append_assoc_s, ends_with_colon_append.
    rewrite orb_true_r. reflexivity.
Qed.

(* ---- config_lines only produces such comment lines (for keys that do not start with '#') ---- *)
Lemma config_items_cases : forall registry imports entries maxlen it,
  In it (config_items registry imports entries maxlen) ->
  (exists i, it = ILine (import_format i)) \/ it = ILine "" \/ it = ILine "# Macros:" \/
  it = ILine (rule maxlen) \/ it = ILine "<KeyError>" \/ it = ILine "# None." \/
  (exists e, In e entries /\ it = ILine ("# Parameters for " ^^ section_name registry e ^^ ":")) \/
  (exists e v, In e entries /\ it = IBind (e_scope e) v) \/
  (exists e k v, In e entries /\ it = IBind (section_name registry e ^^ "." ^^ k) v).
Proof.
  intros registry imports entries maxlen it Hin. unfold config_items in Hin.
  repeat (apply in_app_or in Hin; destruct Hin as [Hin|Hin]).
  - apply in_map_iff in Hin. destruct Hin as [s [Hs Hin]].
    unfold import_lines in Hin. apply in_map_iff in Hin. destruct Hin as [i [Hi _]].
    left. exists i. rewrite <- Hs, Hi. reflexivity.
  - destruct (import_lines imports); cbn [In] in Hin; [contradiction|].
    destruct Hin as [Hin|[]]. right; left. symmetry; exact Hin.
  - destruct (macro_entries entries); cbn [In] in Hin; [contradiction|].
    destruct Hin as [Hin|[Hin|[]]]; [right; right; left | right; right; right; left]; symmetry; exact Hin.
  - apply in_flat_map in Hin. destruct Hin as [e [He Hin]].
    unfold macro_entries in He.
    apply (Permutation_in _ (sort_stable_perm _ _ _ _ _)) in He.
    apply filter_In in He. destruct He as [He _].
    unfold macro_items in Hin. destruct (sget_value e) as [w|]; cbn [In] in Hin; destruct Hin as [Hin|[]].
    + do 7 right. left. exists e, w. split; [exact He | symmetry; exact Hin].
    + do 4 right. left. symmetry; exact Hin.
  - destruct (macro_entries entries); cbn [In] in Hin; [contradiction|].
    destruct Hin as [Hin|[]]. right; left. symmetry; exact Hin.
  - apply in_flat_map in Hin. destruct Hin as [e [He Hin]].
    unfold other_entries in He. apply filter_In in He. destruct He as [He _].
    apply (Permutation_in _ (sort_stable_perm _ _ _ _ _)) in He.
    unfold section_items in Hin.
    repeat (apply in_app_or in Hin; destruct Hin as [Hin|Hin]).
    + cbn [In] in Hin. destruct Hin as [Hin|[Hin|[]]].
      * do 6 right. left. exists e. split; [exact He | symmetry; exact Hin].
      * do 3 right. left. symmetry; exact Hin.
    + apply in_map_iff in Hin. destruct Hin as [[k w] [Hkw _]]. cbn [fst snd] in Hkw.
      do 8 right. exists e, k, w. split; [exact He | symmetry; exact Hkw].
    + destruct (section_params e); cbn [In] in Hin; [|contradiction].
      destruct Hin as [Hin|[]]. do 5 right. left. symmetry; exact Hin.
    + cbn [In] in Hin. destruct Hin as [Hin|[]]. right; left. symmetry; exact Hin.
Qed.

Lemma prefix_hash_append : forall k x, String.prefix "#" k = false -> String.prefix "#" x = false ->
  String.prefix "#" (k ^^ x) = false.
Proof.
  intros [|c k] x Hk Hx; [exact Hx|].
  cbn [String.append String.prefix] in *. destruct (ascii_dec "#" c); [|reflexivity].
  rewrite prefix_nil in Hk. discriminate Hk.
Qed.

Lemma import_format_no_hash : forall i, String.prefix "#" (import_format i) = false.
Proof.
  intros i. unfold import_format.
  destruct (i_from i); [destruct (rsplit_dot (i_module i)) as [[a b]|]|]; destruct (i_alias i); reflexivity.
Qed.

Lemma format_binding_no_hash : forall maxlen indent key v l, 1 <= indent ->
  String.prefix "#" key = false -> In l (format_binding maxlen indent key v) -> String.prefix "#" l = false.
Proof.
  intros maxlen indent key v l Hind Hkey Hin.
  assert (Hfirst : forall x, String.prefix "#" (key ^^ " = " ^^ x) = false).
  { intros x. apply prefix_hash_append; [exact Hkey | reflexivity]. }
  assert (Hcont : forall x, String.prefix "#" (indent_line indent x) = false).
  { intros x. destruct indent as [|n]; [inversion Hind | reflexivity]. }
  unfold format_binding in Hin.
  assert (Hgen : forall ls, In l ((key ^^ " = \") :: map (indent_line indent) ls) -> String.prefix "#" l = false).
  { intros ls [<-|Hl]; [apply Hfirst|].
    apply in_map_iff in Hl. destruct Hl as [x [<- _]]. apply Hcont. }
  destruct (v_lines v) as [|a [|b r]].
  - apply (Hgen []), Hin.
  - destruct (cp_length (key ^^ a) <=? maxlen)%nat.
    + destruct Hin as [<-|[]]. apply Hfirst.
    + apply (Hgen [a]), Hin.
  - apply (Hgen (a :: b :: r)), Hin.
Qed.

(* binding keys do not start with '#': scopes and section names *)
Definition keys_hash_free (registry : list string) (entries : list sentry) : Prop :=
  forall e, In e entries ->
    String.prefix "#" (e_scope e) = false /\ String.prefix "#" (section_name registry e) = false.

Theorem config_lines_comments_gin : forall registry imports entries maxlen indent,
  1 <= indent -> keys_hash_free registry entries ->
  Forall (fun l => String.prefix "#" l = true -> gin_comment maxlen l)
         (config_lines registry imports entries maxlen indent).
Proof.
  intros registry imports entries maxlen indent Hind Hkeys.
  rewrite config_lines_items. apply Forall_forall. intros l Hin Hl.
  apply in_flat_map in Hin. destruct Hin as [it [Hit Hin]].
  apply config_items_cases in Hit.
  destruct Hit as [[i ->]|[->|[->|[->|[->|[->|[[e [He ->]]|[[e [v [He ->]]]|[e [k [v [He ->]]]]]]]]]]]];
    cbn [render_item In] in Hin.
  - destruct Hin as [<-|[]]. rewrite import_format_no_hash in Hl. discriminate Hl.
  - destruct Hin as [<-|[]]. discriminate Hl.
  - destruct Hin as [<-|[]]. left; reflexivity.
  - destruct Hin as [<-|[]]. right; right; left; reflexivity.
  - destruct Hin as [<-|[]]. discriminate Hl.
  - destruct Hin as [<-|[]]. right; left; reflexivity.
  - destruct Hin as [<-|[]]. right; right; right. eexists; reflexivity.
  - destruct (Hkeys e He) as [Hs _].
    rewrite (format_binding_no_hash _ _ _ _ _ Hind Hs Hin) in Hl. discriminate Hl.
  - destruct (Hkeys e He) as [_ Hn].
    assert (Hk : String.prefix "#" (section_name registry e ^^ "." ^^ k) = false)
      by (apply prefix_hash_append; [exact Hn | reflexivity]).
    rewrite (format_binding_no_hash _ _ _ _ _ Hind Hk Hin) in Hl. discriminate Hl.
Qed.

(* the text handed to markdown by [run]: the lines without the final empty one *)
Definition md_body (ls : list string) : list string :=
  match rev ls with EmptyString :: r => rev r | _ => ls end.

Lemma Forall_md_body : forall (P : string -> Prop) ls, Forall P ls -> Forall P (md_body ls).
Proof.
  intros P ls Hall. unfold md_body. destruct (rev ls) as [|[|c s] r] eqn:E; try exact Hall.
  apply Forall_rev in Hall. rewrite E in Hall. inversion Hall as [|? ? _ Hr]; subst.
  apply Forall_rev, Hr.
Qed.

(* C06_markdown_verbatim for the texts gin produces *)
Corollary C06_markdown_verbatim_config : forall registry imports entries maxlen indent,
  1 <= indent -> keys_hash_free registry entries ->
  let ls := md_body (config_lines registry imports entries maxlen indent) in
  filter (fun l => String.prefix "    " l && negb (String.eqb l "    # None.")) (markdown ls) =
  map (fun l => "    " ^^ l) (filter (fun l => negb (String.prefix "#" l)) ls).
Proof.
  intros registry imports entries maxlen indent Hind Hkeys ls. apply C06_markdown_verbatim.
  subst ls. apply Forall_md_body.
  eapply Forall_impl; [|apply config_lines_comments_gin; eassumption].
  intros l Hl Hp. eapply gin_comment_md_ok. apply Hl, Hp.
Qed.

(* ---- keys_hash_free holds when scopes do not start with '#' and selectors contain no '#' ---- *)
Definition hash : ascii := "#"%char.

Lemma contains_no_hash_prefix : forall x, contains_char hash x = false -> String.prefix "#" x = false.
Proof.
  intros [|c x] H; [reflexivity|].
  cbn [contains_char] in H. apply orb_false_iff in H. destruct H as [Hc _].
  cbn [String.prefix]. destruct (ascii_dec "#" c) as [E|N]; [|reflexivity].
  subst c. vm_compute in Hc. discriminate Hc.
Qed.

Lemma contains_char_append : forall h a b,
  contains_char h (a ^^ b) = contains_char h a || contains_char h b.
Proof.
  intros h a b. induction a as [|x a IH]; cbn [String.append contains_char]; [reflexivity|].
  rewrite IH, orb_assoc. reflexivity.
Qed.

Lemma split_aux_hash_free : forall sep s cur,
  contains_char hash s = false -> contains_char hash cur = false ->
  Forall (fun c => contains_char hash c = false) (split_aux sep s cur).
Proof.
  intros sep s. induction s as [|c s IH]; intros cur Hs Hcur; cbn [split_aux].
  - constructor; [exact Hcur | constructor].
  - cbn [contains_char] in Hs. apply orb_false_iff in Hs. destruct Hs as [Hc Hs].
    destruct (Ascii.eqb c sep).
    + constructor; [exact Hcur | apply IH; [exact Hs | reflexivity]].
    + apply IH; [exact Hs|].
      change (contains_char hash (cur ^^ String c "") = false).
      rewrite contains_char_append, Hcur. cbn [contains_char orb]. rewrite Hc. reflexivity.
Qed.

Lemma Forall_skipn' : forall A (P : A -> Prop) n l, Forall P l -> Forall P (skipn n l).
Proof.
  intros A P n. induction n as [|n IH]; intros l Hall; [exact Hall|].
  destruct l as [|x r]; [constructor|]. cbn [skipn]. apply IH. inversion Hall; assumption.
Qed.

Lemma join_dot_no_hash : forall l, Forall (fun c => contains_char hash c = false) l ->
  String.prefix "#" (join_dot l) = false.
Proof.
  intros l Hall. unfold join_dot. destruct Hall as [|x r Hx Hr]; [reflexivity|].
  apply contains_no_hash_prefix in Hx.
  destruct r as [|y q]; cbn [join]; [exact Hx|].
  change (String.prefix "#" (x ^^ "." ^^ join "." (y :: q)) = false).
  apply prefix_hash_append; [exact Hx | reflexivity].
Qed.

Lemma sm_minimal_suffix : forall (k : key) (m : smap unit) k',
  sm_minimal k m = Some k' -> exists n, k' = skipn n k.
Proof.
  intros k m k' H. unfold sm_minimal, sm_minimal_gen in H.
  destruct (fmem k (sm_flat m)); [|discriminate].
  destruct (min_loop true 0 (rev k) None (sm_tree m)) as [[start t]|]; [|discriminate].
  destruct (Nat.ltb 1 (t_len t)); [injection H as <-; exists 0; reflexivity|].
  destruct start as [[|i]|]; injection H as <-; try (exists 0; reflexivity).
  unfold last_n. eexists; reflexivity.
Qed.

Theorem keys_hash_free_of_selectors : forall registry entries,
  (forall e, In e entries ->
     String.prefix "#" (e_scope e) = false /\ contains_char hash (e_sel e) = false) ->
  keys_hash_free registry entries.
Proof.
  intros registry entries H e He. destruct (H e He) as [Hscope Hsel]. split; [exact Hscope|].
  assert (Hparts : Forall (fun c => contains_char hash c = false) (split_dot (e_sel e))).
  { unfold split_dot, split. apply split_aux_hash_free; [exact Hsel | reflexivity]. }
  unfold section_name. cbv zeta.
  set (m0 := match sm_minimal (to_key (e_sel e)) (reg_of registry) with
             | Some k => of_key k | None => e_sel e end).
  assert (Hm0 : String.prefix "#" m0 = false).
  { subst m0. destruct (sm_minimal (to_key (e_sel e)) (reg_of registry)) as [k|] eqn:Ek.
    - apply sm_minimal_suffix in Ek. destruct Ek as [n ->].
      unfold of_key, to_key. apply join_dot_no_hash, Forall_skipn', Hparts.
    - apply contains_no_hash_prefix, Hsel. }
  set (m1 := if e_method e && negb (contains_char dot m0)
             then join_dot (last_n 2 (split_dot (e_sel e))) else m0).
  assert (Hm1 : String.prefix "#" m1 = false).
  { subst m1. destruct (e_method e && negb (contains_char dot m0)); [|exact Hm0].
    unfold last_n. apply join_dot_no_hash, Forall_skipn', Hparts. }
  destruct (String.eqb (e_scope e) ""); [exact Hm1|].
  apply prefix_hash_append; [|exact Hm1].
  apply prefix_hash_append; [exact Hscope | reflexivity].
Qed.

(* ====================================================================== *)
(* 6. The import manager                                                   *)
(* ====================================================================== *)

Lemma str_in_In : forall s l, str_in s l = true <-> In s l.
Proof.
  intros s l. unfold str_in. rewrite existsb_exists. split.
  - intros [x [Hx He]]. apply String.eqb_eq in He. subst x. exact Hx.
  - intros Hin. exists s. split; [exact Hin | apply String.eqb_refl].
Qed.
Lemma str_in_not_In : forall s l, str_in s l = false -> ~ In s l.
Proof. intros s l H Hin. apply str_in_In in Hin. rewrite Hin in H. discriminate H. Qed.

(* nat_digits f is the decimal numeral of n when n < 10^f: injective there *)
Lemma append_single_inj : forall a b c d, a ^^ String c "" = b ^^ String d "" -> a = b /\ c = d.
Proof.
  induction a as [|x a IH]; intros [|y b] c d H; cbn [String.append] in H.
  - injection H as ->. split; reflexivity.
  - injection H as _ H. destruct b; discriminate H.
  - injection H as _ H. destruct a; discriminate H.
  - injection H as -> H. destruct (IH _ _ _ H) as [-> ->]. split; reflexivity.
Qed.
Lemma append_single_nonempty : forall a c, a ^^ String c "" <> "".
Proof. intros [|x a] c; discriminate. Qed.

Lemma digit_inj : forall a b, a < 10 -> b < 10 -> ascii_of_nat (48 + a) = ascii_of_nat (48 + b) -> a = b.
Proof.
  intros a b Ha Hb H. apply (f_equal nat_of_ascii) in H.
  rewrite !nat_ascii_embedding in H by lia. lia.
Qed.

Lemma nat_digits_inj : forall f n m, n < 10 ^ f -> m < 10 ^ f ->
  nat_digits f n = nat_digits f m -> n = m.
Proof.
  induction f as [|f IH]; intros n m Hn Hm H.
  - rewrite Nat.pow_0_r in Hn, Hm. lia.
  - rewrite Nat.pow_succ_r' in Hn, Hm. cbn [nat_digits] in H.
    apply append_single_inj in H. destruct H as [Hhi Hlo].
    assert (Hmod : n mod 10 = m mod 10).
    { apply digit_inj; [apply Nat.mod_upper_bound; lia | apply Nat.mod_upper_bound; lia | exact Hlo]. }
    pose proof (Nat.div_mod n 10 ltac:(lia)) as Dn.
    pose proof (Nat.div_mod m 10 ltac:(lia)) as Dm.
    assert (Hnonempty : forall x, 10 <= x -> x < 10 * 10 ^ f -> nat_digits f (x / 10) <> "").
    { intros x Hx1 Hx2. destruct f as [|f'].
      - rewrite Nat.pow_0_r in Hx2. lia.
      - cbn [nat_digits]. apply append_single_nonempty. }
    destruct (n <? 10)%nat eqn:En, (m <? 10)%nat eqn:Em.
    + apply Nat.ltb_lt in En, Em. rewrite (Nat.mod_small _ _ En), (Nat.mod_small _ _ Em) in Hmod. exact Hmod.
    + apply Nat.ltb_ge in Em. exfalso. apply (Hnonempty m Em Hm). symmetry; exact Hhi.
    + apply Nat.ltb_ge in En. exfalso. apply (Hnonempty n En Hn). exact Hhi.
    + assert (Hdiv : n / 10 = m / 10).
      { apply IH; [| |exact Hhi]; apply Nat.div_lt_upper_bound; lia. }
      rewrite Dn, Dm, Hdiv, Hmod. reflexivity.
Qed.

Lemma append_inj_l : forall c a b, c ^^ a = c ^^ b -> a = b.
Proof. induction c as [|x c IH]; intros a b H; cbn [String.append] in H; [exact H | injection H as H; apply IH, H]. Qed.

Lemma NoDup_map_inj_in : forall A B (f : A -> B) l, NoDup l ->
  (forall x y, In x l -> In y l -> f x = f y -> x = y) -> NoDup (map f l).
Proof.
  intros A B f l Hnd. induction Hnd as [|x l Hnotin Hnd IH]; intros Hinj; cbn [map]; [constructor|].
  constructor.
  - intros Hin. apply in_map_iff in Hin. destruct Hin as [y [Hy Hin]].
    apply Hnotin. rewrite (Hinj x y); [exact Hin | left; reflexivity | right; exact Hin | symmetry; exact Hy].
  - apply IH. intros a b Ha Hb. apply Hinj; right; assumption.
Qed.

Lemma uniquify_spec : forall fuel i cand names,
  str_in (uniquify fuel i cand names) names = false \/
  (forall j, i <= j < i + fuel -> In (cand ^^ nat_str j) names).
Proof.
  induction fuel as [|f IH]; intros i cand names; cbn [uniquify].
  - right. intros j Hj. lia.
  - cbv zeta. destruct (str_in (cand ^^ nat_str i) names) eqn:E.
    + destruct (IH (S i) cand names) as [Hl|Hr]; [left; exact Hl|].
      right. intros j Hj. destruct (Nat.eq_dec j i) as [->|Nji].
      * apply str_in_In, E.
      * apply Hr. lia.
    + left. exact E.
Qed.

(* The candidates cand2, cand3, ... are pairwise distinct only while the counter has at most 20
   digits (nat_str truncates), hence the bound; it is astronomically far from any real input. *)
Theorem uniquify_name_fresh : forall cand names, List.length names + 3 <= 10 ^ 20 ->
  ~ In (uniquify_name cand names) names.
Proof.
  intros cand names Hbound. unfold uniquify_name.
  destruct (str_in cand names) eqn:Ec; [|apply str_in_not_In, Ec].
  destruct (uniquify_spec (S (List.length names)) 2 cand names) as [Hl|Hr]; [apply str_in_not_In, Hl|].
  exfalso.
  set (B := 10 ^ 20) in *.
  set (L := map (fun j => cand ^^ nat_str j) (seq 2 (S (List.length names)))).
  assert (HndL : NoDup L).
  { subst L. apply NoDup_map_inj_in; [apply seq_NoDup|].
    intros x y Hx Hy Hxy. apply in_seq in Hx, Hy. apply append_inj_l in Hxy.
    unfold nat_str in Hxy. apply (nat_digits_inj 20); fold B; [lia | lia | exact Hxy]. }
  assert (Hincl : incl L names).
  { intros s Hs. subst L. apply in_map_iff in Hs. destruct Hs as [j [<- Hj]].
    apply in_seq in Hj. apply Hr. lia. }
  pose proof (NoDup_incl_length HndL Hincl) as Hlen.
  subst L. rewrite map_length, seq_length in Hlen. lia.
Qed.

(* one step of the import manager's loop *)
Definition im_step (acc : list simport * list string * list string) (st : simport) :=
  let '(out, mods, names) := acc in
  if str_in (i_module st) mods then acc else
  let u := uniquify_name (bound_name st) names in
  let st' := if String.eqb u (bound_name st) then st
             else {| i_module := i_module st; i_from := i_from st; i_alias := Some u |} in
  (out ++ [st'], mods ++ [i_module st], names ++ [bound_name st']).

Lemma import_manager_unfold : forall imports,
  import_manager imports =
  fst (fst (fold_left im_step (sort_stable (fun x => x) import_key_ltb imports) ([], [], names0 imports))).
Proof.
  intros imports. unfold import_manager. cbv zeta.
  change (fun acc st => let '(out, mods, names) := acc in _) with im_step.
  destruct (fold_left im_step (sort_stable (fun x => x) import_key_ltb imports) ([], [], names0 imports)) as [[o m] n].
  reflexivity.
Qed.

Definition im_inv (acc : list simport * list string * list string) : Prop :=
  let '(out, mods, names) := acc in
  mods = map i_module out /\ NoDup mods.

Lemma NoDup_snoc : forall A (l : list A) x, NoDup l -> ~ In x l -> NoDup (l ++ [x]).
Proof.
  intros A l x Hnd Hx. apply (Permutation_NoDup (l := x :: l)).
  - apply Permutation_cons_append.
  - constructor; assumption.
Qed.

Lemma im_step_inv : forall acc st, im_inv acc -> im_inv (im_step acc st).
Proof.
  intros [[out mods] names] st (Hm & Hnd). unfold im_step.
  destruct (str_in (i_module st) mods) eqn:Em; [split; assumption|].
  cbv zeta. unfold im_inv.
  set (u := uniquify_name (bound_name st) names).
  set (st' := if String.eqb u (bound_name st) then st
              else {| i_module := i_module st; i_from := i_from st; i_alias := Some u |}).
  assert (Hmod : i_module st' = i_module st) by (subst st'; destruct (String.eqb u (bound_name st)); reflexivity).
  split.
  - rewrite map_app, Hm. cbn [map]. rewrite Hmod. reflexivity.
  - apply NoDup_snoc; [exact Hnd | apply str_in_not_In, Em].
Qed.

Lemma fold_im_step_inv : forall l acc, im_inv acc -> im_inv (fold_left im_step l acc).
Proof.
  induction l as [|st l IH]; intros acc Hinv; cbn [fold_left]; [exact Hinv|].
  apply IH, im_step_inv, Hinv.
Qed.

Lemma im_inv_init : forall n0, im_inv ([], [], n0).
Proof. intros n0. split; constructor. Qed.

Theorem import_manager_unique_modules : forall imports, NoDup (map i_module (import_manager imports)).
Proof.
  intros imports. rewrite import_manager_unfold.
  pose proof (fold_im_step_inv (sort_stable (fun x => x) import_key_ltb imports) _ (im_inv_init (names0 imports))) as H.
  destruct (fold_left im_step (sort_stable (fun x => x) import_key_ltb imports) ([], [], names0 imports)) as [[o m] n].
  cbn [fst]. destruct H as (Hm & Hnd). rewrite <- Hm. exact Hnd.
Qed.

(* unique bound names, none of them a reserved one (names0): needs freshness of uniquify_name, hence
   the bound on the number of imports *)
Definition im_inv_names (B : nat) (k : nat) (n0 : list string)
           (acc : list simport * list string * list string) : Prop :=
  let '(out, mods, names) := acc in
  names = n0 ++ map bound_name out /\ NoDup names /\ List.length names + k + 2 <= B.

Lemma im_step_bound_name : forall st (u : string),
  bound_name (if String.eqb u (bound_name st) then st
              else {| i_module := i_module st; i_from := i_from st; i_alias := Some u |}) = u.
Proof.
  intros st u. destruct (String.eqb_spec u (bound_name st)) as [E|N]; [symmetry; exact E | reflexivity].
Qed.

Lemma fold_im_step_names : forall n0 l acc,
  im_inv_names (10 ^ 20) (List.length l) n0 acc -> im_inv_names (10 ^ 20) 0 n0 (fold_left im_step l acc).
Proof.
  set (B := 10 ^ 20). intros n0.
  induction l as [|st l IH]; intros [[out mods] names] Hinv; cbn [fold_left]; [exact Hinv|].
  apply IH. destruct Hinv as (Hn & Hnd & Hb). cbn [List.length] in Hb. unfold im_step.
  destruct (str_in (i_module st) mods); [repeat split; [assumption | assumption | lia]|].
  cbv zeta. unfold im_inv_names. rewrite im_step_bound_name. repeat split.
  - rewrite map_app, Hn, <- app_assoc. cbn [map]. rewrite im_step_bound_name. reflexivity.
  - apply NoDup_snoc; [exact Hnd|]. apply uniquify_name_fresh. fold B. lia.
  - rewrite app_length. cbn [List.length]. lia.
Qed.

Lemma names0_NoDup : forall imports, NoDup (names0 imports) /\ List.length (names0 imports) <= 1.
Proof.
  intros imports. unfold names0. destruct (is_dynamic imports); cbn [List.length]; split; try lia.
  - constructor; [intros [] | constructor].
  - constructor.
Qed.

(* the reserved names and the bound names of the output are pairwise distinct *)
Theorem import_manager_names_inv : forall imports, List.length imports + 3 <= 10 ^ 20 ->
  NoDup (names0 imports ++ map bound_name (import_manager imports)).
Proof.
  intros imports Hb. rewrite import_manager_unfold.
  pose proof (fold_im_step_names (names0 imports) (sort_stable (fun x => x) import_key_ltb imports)
                ([], [], names0 imports)) as H.
  destruct (fold_left im_step (sort_stable (fun x => x) import_key_ltb imports) ([], [], names0 imports)) as [[o m] n].
  cbn [fst]. destruct H as (Hn & Hnd & _).
  - destruct (names0_NoDup imports) as [Hnd0 Hlen0].
    repeat split; [cbn [map]; rewrite app_nil_r; reflexivity | exact Hnd0 |].
    rewrite (Permutation_length (sort_stable_perm _ _ _ _ imports)).
    set (B := 10 ^ 20) in *. lia.
  - rewrite <- Hn. exact Hnd.
Qed.

Lemma NoDup_app_r : forall A (l1 l2 : list A), NoDup (l1 ++ l2) -> NoDup l2.
Proof.
  intros A l1 l2. induction l1 as [|x l1 IH]; cbn [app]; intros H; [exact H|].
  inversion H; subst. apply IH. assumption.
Qed.

Theorem import_manager_unique_names : forall imports, List.length imports + 3 <= 10 ^ 20 ->
  NoDup (map bound_name (import_manager imports)).
Proof.
  intros imports Hb. apply (NoDup_app_r _ (names0 imports)). apply import_manager_names_inv, Hb.
Qed.

(* under dynamic registration no statement binds the reserved symbol gin *)
Theorem import_manager_gin_reserved : forall imports, List.length imports + 3 <= 10 ^ 20 ->
  is_dynamic imports = true -> ~ In "gin" (map bound_name (import_manager imports)).
Proof.
  intros imports Hb Hdyn. pose proof (import_manager_names_inv imports Hb) as Hnd.
  unfold names0 in Hnd. rewrite Hdyn in Hnd. cbn [app] in Hnd.
  inversion Hnd as [|? ? Hnotin _]; subst. exact Hnotin.
Qed.

(* every module of the input is imported exactly once, and nothing else is *)
Lemma fold_im_step_mods : forall (i : simport) l acc,
  (In i l \/ In (i_module i) (snd (fst acc))) ->
  In (i_module i) (snd (fst (fold_left im_step l acc))).
Proof.
  intros i. induction l as [|st l IH]; intros acc Hor; cbn [fold_left].
  - destruct Hor as [[]|H]; exact H.
  - apply IH.
    destruct Hor as [[->|Hin]|Hmods]; [right | left; exact Hin | right].
    + destruct acc as [[out mods] names]. unfold im_step. cbn [fst snd].
      destruct (str_in (i_module i) mods) eqn:E; cbn [fst snd].
      * apply str_in_In, E.
      * apply in_or_app. right. left. reflexivity.
    + destruct acc as [[out mods] names]. unfold im_step. cbn [fst snd] in *.
      destruct (str_in (i_module st) mods); cbn [fst snd]; [exact Hmods|].
      apply in_or_app. left. exact Hmods.
Qed.

Theorem import_manager_modules_complete : forall imports i, In i imports ->
  In (i_module i) (map i_module (import_manager imports)).
Proof.
  intros imports i Hi. rewrite import_manager_unfold.
  pose proof (fold_im_step_inv (sort_stable (fun x => x) import_key_ltb imports) _ (im_inv_init (names0 imports))) as Hinv.
  pose proof (fold_im_step_mods i (sort_stable (fun x => x) import_key_ltb imports) ([], [], names0 imports)) as Hgen.
  destruct (fold_left im_step (sort_stable (fun x => x) import_key_ltb imports) ([], [], names0 imports)) as [[o m] n].
  cbn [fst snd] in *. destruct Hinv as (Hm & _).
  rewrite <- Hm. apply Hgen.
  left. apply (Permutation_in _ (Permutation_sym (sort_stable_perm _ _ _ _ imports))). exact Hi.
Qed.

Lemma fold_im_step_mods_sound : forall (P : string -> Prop) l acc,
  (forall m, In m (snd (fst acc)) -> P m) -> (forall st, In st l -> P (i_module st)) ->
  forall m, In m (snd (fst (fold_left im_step l acc))) -> P m.
Proof.
  intros P. induction l as [|st l IH]; intros acc Hacc Hl; cbn [fold_left]; [exact Hacc|].
  apply IH; [|intros st' Hst'; apply Hl; right; exact Hst'].
  destruct acc as [[out mods] names]. unfold im_step. cbn [fst snd] in *.
  destruct (str_in (i_module st) mods); cbn [fst snd]; [exact Hacc|].
  intros m Hm. apply in_app_or in Hm. destruct Hm as [Hm|[<-|[]]]; [apply Hacc, Hm|].
  apply Hl. left; reflexivity.
Qed.

Theorem import_manager_modules_sound : forall imports m,
  In m (map i_module (import_manager imports)) -> In m (map i_module imports).
Proof.
  intros imports m Hin. rewrite import_manager_unfold in Hin.
  pose proof (fold_im_step_inv (sort_stable (fun x => x) import_key_ltb imports) _ (im_inv_init (names0 imports))) as Hinv.
  pose proof (fold_im_step_mods_sound (fun m => In m (map i_module imports))
                (sort_stable (fun x => x) import_key_ltb imports) ([], [], names0 imports)) as Hgen.
  destruct (fold_left im_step (sort_stable (fun x => x) import_key_ltb imports) ([], [], names0 imports)) as [[o mm] n].
  cbn [fst snd] in *. destruct Hinv as (Hm & _). rewrite <- Hm in Hin.
  apply Hgen; [intros ? [] | | exact Hin].
  intros st Hst. apply in_map.
  apply (Permutation_in _ (sort_stable_perm _ _ (fun x : simport => x) import_key_ltb imports)). exact Hst.
Qed.

(* the set of modules is preserved, hence so is "dynamic registration is on" *)
Lemma is_dynamic_In : forall l, is_dynamic l = true <-> In "__gin__.dynamic_registration" (map i_module l).
Proof.
  intros l. unfold is_dynamic. rewrite existsb_exists, in_map_iff. split.
  - intros [x [Hx He]]. apply String.eqb_eq in He. exists x. split; assumption.
  - intros [x [He Hx]]. exists x. split; [exact Hx | apply String.eqb_eq, He].
Qed.
Lemma is_dynamic_ext : forall l1 l2,
  (forall m, In m (map i_module l1) <-> In m (map i_module l2)) -> is_dynamic l1 = is_dynamic l2.
Proof.
  intros l1 l2 H. destruct (is_dynamic l1) eqn:E1, (is_dynamic l2) eqn:E2; try reflexivity.
  - apply is_dynamic_In, H, is_dynamic_In in E1. congruence.
  - apply is_dynamic_In, H, is_dynamic_In in E2. congruence.
Qed.
Theorem is_dynamic_import_manager : forall imports, is_dynamic (import_manager imports) = is_dynamic imports.
Proof.
  intros imports. apply is_dynamic_ext. intros m. split.
  - apply import_manager_modules_sound.
  - intros Hm. apply in_map_iff in Hm. destruct Hm as [i [<- Hi]].
    apply import_manager_modules_complete, Hi.
Qed.
Theorem is_dynamic_sorted_imports : forall l, is_dynamic (sorted_imports l) = is_dynamic l.
Proof.
  intros l. apply is_dynamic_ext. intros m. unfold sorted_imports.
  split; apply Permutation_in, Permutation_map; [|apply Permutation_sym]; apply sort_stable_perm.
Qed.

(* nat_str is NOT injective beyond 20 digits (the model's counter is truncated), which is why
   uniquify_name_fresh / import_manager_unique_names carry the bound; the same effect at fuel 1: *)
Example nat_digits_truncates : nat_digits 1 12 = nat_digits 1 2.
Proof. reflexivity. Qed.

(* ====================================================================== *)
(* Assumptions                                                             *)
(* ====================================================================== *)
Print Assumptions sort_stable_perm.
Print Assumptions sort_stable_sorted.
Print Assumptions sort_stable_canonical.
Print Assumptions sort_stable_is_stable.
Print Assumptions string_ltb_strict_total.
Print Assumptions key_ltb_strict_total.
Print Assumptions full_key_ltb_strict_total.
Print Assumptions full_key_injective.
Print Assumptions C06_order_independent.
Print Assumptions C06_params_order_independent.
Print Assumptions C06_params_sorted.
Print Assumptions config_lines_items.
Print Assumptions config_items_bind_origin.
Print Assumptions C06_only_representable_emitted.
Print Assumptions C06_nonrepresentable_not_emitted.
Print Assumptions C06_representable_emitted.
Print Assumptions format_binding_single.
Print Assumptions format_binding_continuation.
Print Assumptions format_binding_too_long.
Print Assumptions format_binding_first_line.
Print Assumptions C06_markdown_verbatim.
Print Assumptions config_lines_comments_gin.
Print Assumptions keys_hash_free_of_selectors.
Print Assumptions C06_markdown_verbatim_config.
Print Assumptions sorted_key_ltb_strict_total.
Print Assumptions uniquify_name_fresh.
Print Assumptions import_manager_names_inv.
Print Assumptions import_manager_gin_reserved.
Print Assumptions import_manager_modules_sound.
Print Assumptions is_dynamic_import_manager.
Print Assumptions is_dynamic_sorted_imports.
Print Assumptions import_manager_unique_names.
Print Assumptions import_manager_unique_modules.
Print Assumptions import_manager_modules_complete.
