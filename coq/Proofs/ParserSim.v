(* The value parser does not look at token positions -- except to report error lines, and in selectors ("@ref",
   "%macro": _parse_selector compares columns).  Two streams with the same token types and texts, free of the
   sigils "@" / "%", are accepted or rejected together and yield the same value. *)
From Coq Require Import List String ZArith Bool Arith Ascii Lia.
From GinV Require Import Lib.Out Lib.PyStr Model.Parser Model.ParserSpec.
From GinV Require Import Proofs.ParserLemmas.
Import ListNotations.
Open Scope string_scope. Open Scope list_scope.

Definition teq (a b : token) : Prop := ty a = ty b /\ text a = text b /\ text a <> "@" /\ text a <> "%".
Definition tseq : list token -> list token -> Prop := Forall2 teq.
(* same outcome: both fail (error lines may differ) or both succeed with related results *)
Definition rsim {A : Type} (R : A -> A -> Prop) (x y : pres A) : Prop :=
  match x, y with
  | POk a, POk b => R a b
  | PErr _, PErr _ => True
  | _, _ => False
  end.

Lemma tseq_length : forall a b, tseq a b -> List.length a = List.length b.
Proof. intros a b H. induction H; cbn [List.length]; congruence. Qed.
Lemma cur_teq : forall a b, tseq a b -> ty (cur a) = ty (cur b) /\ text (cur a) = text (cur b).
Proof. intros a b H. destruct H as [|x y a b [H1 [H2 _]] _]; cbn [cur hd]; auto. Qed.
Lemma cur_is_sim : forall a b s, tseq a b -> cur_is a s = cur_is b s.
Proof. intros a b s H. unfold cur_is. rewrite (proj2 (cur_teq _ _ H)). reflexivity. Qed.
Lemma cur_ty_sim : forall a b t, tseq a b -> cur_ty a t = cur_ty b t.
Proof. intros a b t H. unfold cur_ty. rewrite (proj1 (cur_teq _ _ H)). reflexivity. Qed.
Lemma cur_nosig : forall a b, tseq a b -> cur_is a "@" = false /\ cur_is a "%" = false.
Proof.
  intros a b H. unfold cur_is. destruct H as [|x y a b [_ [_ [H3 H4]]] _]; cbn [cur hd]; [split; reflexivity|].
  split; apply String.eqb_neq; assumption.
Qed.
Lemma syntax_here_sim : forall (A : Type) (R : A -> A -> Prop) a b, rsim R (syntax_here a) (syntax_here b).
Proof. intros. exact I. Qed.

Lemma settle_sim : forall a b, tseq a b -> rsim tseq (settle a) (settle b).
Proof.
  intros a b H. induction H as [|x y a b Hxy Hab IH]; cbn [settle]; [exact I|].
  assert (Hc : tseq (x :: a) (y :: b)) by (constructor; assumption).
  destruct Hxy as [H1 [H2 _]]. rewrite <- H1, <- H2. clear H1 H2.
  destruct (ty x); try exact Hc.
  - destruct (String.eqb (text x) " " || String.eqb (text x) (String (ascii_of_nat 9) "") || String.eqb (text x) "");
      [exact IH | exact Hc].
  - destruct (String.eqb (text x) "TokenError"); exact I.
Qed.
Lemma advance_one_sim : forall a b, tseq a b -> rsim tseq (advance_one a) (advance_one b).
Proof. intros a b H. destruct H; cbn [advance_one]; [exact I | apply settle_sim; assumption]. Qed.
Lemma skip_sim : forall fuel types a b, tseq a b -> rsim tseq (skip fuel types a) (skip fuel types b).
Proof.
  induction fuel as [|f IH]; intros types a b H; cbn [skip]; [exact H|].
  rewrite <- (proj1 (cur_teq _ _ H)). destruct (in_types (ty (cur a)) types); [|exact H].
  pose proof (advance_one_sim _ _ H) as Ha.
  destruct (advance_one a) as [a1|e1], (advance_one b) as [b1|e2]; cbn [rsim] in Ha; try contradiction; [|exact I].
  apply IH. exact Ha.
Qed.
Lemma skip_ws_sim : forall wb a b, tseq a b -> rsim tseq (skip_ws wb a) (skip_ws wb b).
Proof. intros wb a b H. unfold skip_ws. rewrite <- (tseq_length _ _ H). apply skip_sim. exact H. Qed.
Lemma advance_sim : forall wb a b, tseq a b -> rsim tseq (advance wb a) (advance wb b).
Proof.
  intros wb a b H. unfold advance. pose proof (advance_one_sim _ _ H) as Ha.
  destruct (advance_one a) as [a1|e1], (advance_one b) as [b1|e2]; cbn [rsim] in Ha; try contradiction; [|exact I].
  apply skip_ws_sim. exact Ha.
Qed.

Definition vsim (x y : out * list token) : Prop := fst x = fst y /\ tseq (snd x) (snd y).
Lemma basic_loop_sim : forall fuel o wb a b acc, tseq a b ->
  rsim vsim (basic_loop fuel o wb a acc) (basic_loop fuel o wb b acc).
Proof.
  induction fuel as [|f IH]; intros o wb a b acc H; cbn [basic_loop]; [exact I|].
  rewrite <- (proj2 (cur_teq _ _ H)).
  destruct (olookup o _) as [[v|]|]; [|exact I|exact I].
  rewrite <- (cur_ty_sim _ _ STRING H).
  pose proof (advance_sim wb _ _ H) as Ha.
  destruct (advance wb a) as [a1|e1], (advance wb b) as [b1|e2]; cbn [rsim] in Ha; try contradiction; [|exact I].
  rewrite <- (cur_ty_sim _ _ STRING Ha).
  destruct (cur_ty a STRING && cur_ty a1 STRING); [apply IH; exact Ha|].
  cbn [rsim]. split; [reflexivity | exact Ha].
Qed.
Definition osim (x y : option (out * list token)) : Prop :=
  match x, y with Some p, Some q => vsim p q | None, None => True | _, _ => False end.
Lemma maybe_basic_sim : forall o wb a b, tseq a b -> rsim osim (maybe_basic o wb a) (maybe_basic o wb b).
Proof.
  intros o wb a b H. unfold maybe_basic. rewrite <- (cur_is_sim _ _ "-" H).
  assert (Ha : rsim tseq (if cur_is a "-" then advance wb a else POk a) (if cur_is a "-" then advance wb b else POk b)).
  { destruct (cur_is a "-"); [apply advance_sim; exact H | exact H]. }
  destruct (if cur_is a "-" then advance wb a else POk a) as [a1|e1],
           (if cur_is a "-" then advance wb b else POk b) as [b1|e2]; cbn [rsim] in Ha; try contradiction; [|exact I].
  rewrite <- (proj1 (cur_teq _ _ Ha)). rewrite <- (tseq_length _ _ Ha).
  destruct (in_types (ty (cur a1)) [NAME; NUMBER; STRING]).
  - pose proof (basic_loop_sim (S (List.length a1)) o wb _ _ (if cur_is a "-" then "-" else "") Ha) as Hb.
    destruct (basic_loop _ o wb a1 _) as [r1|e1], (basic_loop _ o wb b1 _) as [r2|e2]; cbn [rsim] in Hb;
      try contradiction; [exact Hb | exact I].
  - destruct (cur_is a "-"); [exact I | exact I].
Qed.

Definition lsim (x y : list out * list (out * out) * bool * list token) : Prop :=
  fst x = fst y /\ tseq (snd x) (snd y).

Section Value.
Variables (o : oracle) (wb : bool).
Definition PVsim (f : nat) : Prop := forall a b, tseq a b -> rsim vsim (parse_value f o wb a) (parse_value f o wb b).

Lemma pv_loop_sim : forall f, PVsim f -> forall close d n a b vals pairs sc, tseq a b ->
  rsim lsim (pv_loop f o wb close d n a vals pairs sc) (pv_loop f o wb close d n b vals pairs sc).
Proof.
  intros f HP close d. induction n as [|n IH]; intros a b vals pairs sc H; [exact I|].
  rewrite !pv_loop_S. rewrite <- (cur_is_sim _ _ close H).
  destruct (cur_is a close); [cbn [rsim]; split; [reflexivity | exact H]|].
  cbv zeta.
  (* the item *)
  assert (Hitem : rsim (fun x y => fst x = fst y /\ tseq (snd x) (snd y))
            (if d then match parse_value f o wb a with
                       | PErr e => PErr e
                       | POk (k, ts') =>
                           if negb (cur_is ts' ":") then syntax_here ts' else
                           match advance wb ts' with
                           | PErr e => PErr e
                           | POk ts'' => match parse_value f o wb ts'' with
                                         | PErr e => PErr e
                                         | POk (v, ts3) => POk (v, Some (k, v), ts3)
                                         end
                           end
                       end
             else match parse_value f o wb a with PErr e => PErr e | POk (v, ts') => POk (v, None, ts') end)
            (if d then match parse_value f o wb b with
                       | PErr e => PErr e
                       | POk (k, ts') =>
                           if negb (cur_is ts' ":") then syntax_here ts' else
                           match advance wb ts' with
                           | PErr e => PErr e
                           | POk ts'' => match parse_value f o wb ts'' with
                                         | PErr e => PErr e
                                         | POk (v, ts3) => POk (v, Some (k, v), ts3)
                                         end
                           end
                       end
             else match parse_value f o wb b with PErr e => PErr e | POk (v, ts') => POk (v, None, ts') end)).
  { pose proof (HP _ _ H) as H1.
    destruct (parse_value f o wb a) as [[k1 a1]|e1], (parse_value f o wb b) as [[k2 b1]|e2]; cbn [rsim] in H1;
      try contradiction; [|destruct d; exact I].
    destruct H1 as [Ek H1]. cbn [fst snd] in Ek, H1. subst k2.
    destruct d; [|cbn [rsim fst snd]; split; [reflexivity | exact H1]].
    rewrite <- (cur_is_sim _ _ ":" H1). destruct (negb (cur_is a1 ":")); [exact I|].
    pose proof (advance_sim wb _ _ H1) as H2.
    destruct (advance wb a1) as [a2|e1], (advance wb b1) as [b2|e2]; cbn [rsim] in H2; try contradiction; [|exact I].
    pose proof (HP _ _ H2) as H3.
    destruct (parse_value f o wb a2) as [[v1 a3]|e1], (parse_value f o wb b2) as [[v2 b3]|e2]; cbn [rsim] in H3;
      try contradiction; [|exact I].
    destruct H3 as [Ev H3]. cbn [fst snd] in Ev, H3. subst v2. cbn [rsim fst snd]. split; [reflexivity | exact H3]. }
  match goal with
  | Hi : rsim _ ?X ?Y |- _ => destruct X as [[[v1 kv1] a1]|e1], Y as [[[v2 kv2] b1]|e2]; cbn [rsim] in Hi;
                              try contradiction; [|exact I]
  end.
  destruct Hitem as [E H1]. cbn [fst snd] in E, H1. injection E as <- <-.
  rewrite <- (cur_is_sim _ _ "," H1). rewrite <- (cur_is_sim _ _ close H1).
  destruct (cur_is a1 ",").
  - pose proof (advance_sim wb _ _ H1) as H2.
    destruct (advance wb a1) as [a2|e1], (advance wb b1) as [b2|e2]; cbn [rsim] in H2; try contradiction; [|exact I].
    apply IH. exact H2.
  - destruct (negb (cur_is a1 close)); [exact I|]. apply IH. exact H1.
Qed.

Lemma parse_value_sim : forall f, PVsim f.
Proof.
  induction f as [|f IH]; intros a b H; [exact I|].
  destruct (closer (text (cur a))) as [close|] eqn:Hc.
  - assert (Hc' : closer (text (cur b)) = Some close) by (rewrite <- (proj2 (cur_teq _ _ H)); exact Hc).
    rewrite (parse_value_container f o wb a close Hc), (parse_value_container f o wb b close Hc').
    rewrite <- (proj2 (cur_teq _ _ H)).
    pose proof (advance_sim wb _ _ H) as H1.
    destruct (advance wb a) as [a1|e1], (advance wb b) as [b1|e2]; cbn [rsim] in H1; try contradiction; [|exact I].
    rewrite <- (tseq_length _ _ H1).
    pose proof (pv_loop_sim f IH close (String.eqb (text (cur a)) "{") (S (List.length a1)) _ _ [] [] false H1) as H2.
    destruct (pv_loop f o wb close _ _ a1 [] [] false) as [[[[vs1 ps1] sc1] a2]|e1],
             (pv_loop f o wb close _ _ b1 [] [] false) as [[[[vs2 ps2] sc2] b2]|e2]; cbn [rsim] in H2;
      try contradiction; [|exact I].
    destruct H2 as [E H2]. cbn [fst snd] in E, H2. injection E as <- <- <-.
    pose proof (advance_sim wb _ _ H2) as H3.
    destruct (advance wb a2) as [a3|e1], (advance wb b2) as [b3|e2]; cbn [rsim] in H3; try contradiction; [|exact I].
    destruct (String.eqb (text (cur a)) "{" && negb (keys_hashable ps1)); [exact I|].
    cbn [rsim]. split; [reflexivity | exact H3].
  - assert (Hc' : closer (text (cur b)) = None) by (rewrite <- (proj2 (cur_teq _ _ H)); exact Hc).
    cbn [parse_value]. rewrite Hc, Hc'.
    pose proof (maybe_basic_sim o wb _ _ H) as H1.
    destruct (maybe_basic o wb a) as [[r1|]|e1], (maybe_basic o wb b) as [[r2|]|e2]; cbn [rsim osim] in H1;
      try contradiction; [exact H1 | | exact I].
    rewrite <- (cur_is_sim _ _ "-" H).
    assert (Hb : tseq (if cur_is a "-" then match advance wb a with POk t => t | PErr _ => a end else a)
                      (if cur_is a "-" then match advance wb b with POk t => t | PErr _ => b end else b)).
    { destruct (cur_is a "-"); [|exact H]. pose proof (advance_sim wb _ _ H) as H2.
      destruct (advance wb a), (advance wb b); cbn [rsim] in H2; try contradiction; [exact H2 | exact H]. }
    destruct (cur_nosig _ _ Hb) as [N1 N2].
    rewrite <- (cur_is_sim _ _ "@" Hb), <- (cur_is_sim _ _ "%" Hb), N1, N2. exact I.
Qed.
End Value.

Theorem parse_single_value_sim : forall o a b, tseq a b -> rsim eq (parse_single_value o a) (parse_single_value o b).
Proof.
  intros o a b H. unfold parse_single_value, value_fuel. rewrite <- (tseq_length _ _ H).
  pose proof (parse_value_sim o false (S (S (List.length a))) _ _ H) as H1.
  destruct (parse_value _ o false a) as [[v1 a1]|e1], (parse_value _ o false b) as [[v2 b1]|e2]; cbn [rsim] in H1;
    try contradiction; [|exact I].
  destruct H1 as [E H1]. cbn [fst snd] in E, H1. subst v2. rewrite <- (tseq_length _ _ H1).
  pose proof (skip_sim (S (List.length a1)) end_types _ _ H1) as H2.
  destruct (skip _ end_types a1) as [a2|e1], (skip _ end_types b1) as [b2|e2]; cbn [rsim] in H2; try contradiction; [|exact I].
  rewrite <- (cur_ty_sim _ _ ENDMARKER H2). destruct (cur_ty a2 ENDMARKER); [reflexivity | exact I].
Qed.
(* acceptance transfers, with the value *)
Corollary parse_single_value_transfer : forall o a b v, tseq a b ->
  parse_single_value o a = POk v -> parse_single_value o b = POk v.
Proof.
  intros o a b v H Ha. pose proof (parse_single_value_sim o a b H) as Hs. rewrite Ha in Hs.
  destruct (parse_single_value o b); cbn [rsim] in Hs; [congruence | contradiction].
Qed.
Corollary run_value_api_transfer : forall o a b v, tseq a b ->
  run_value_api (o, a) = OT "Value" [v] -> run_value_api (o, b) = OT "Value" [v].
Proof.
  intros o a b v H Ha. unfold run_value_api in *. cbn [fst snd] in *.
  pose proof (settle_sim _ _ H) as Hs.
  destruct (settle a) as [a1|e1]; [|destruct e1; discriminate].
  destruct (settle b) as [b1|e2]; cbn [rsim] in Hs; [|contradiction].
  destruct (parse_single_value o a1) as [v1|e1] eqn:E1; [|destruct e1; discriminate].
  injection Ha as ->. rewrite (parse_single_value_transfer o a1 b1 v Hs E1). reflexivity.
Qed.
