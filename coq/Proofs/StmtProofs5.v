(* C16 lifted to configs WITH includes at any depth: the streaming / prefix theorems over the flattened text, the
   location chain of an error raised inside an included file, and syntax (tokenizer, missing-file) errors inside
   included files.  Reuses the flatten machinery of Proofs/StmtProofs3.v. *)
From Coq Require Import List String ZArith Bool Arith Lia.
From GinV Require Import Lib.Out Lib.PyStr Model.SelectorMap Model.Parser Model.Stmt Model.StmtSpec
  Proofs.StmtProofs Proofs.StmtProofs2 Proofs.StmtProofs3 Proofs.StmtProofs4.
Import ListNotations.
Open Scope string_scope.
Open Scope list_scope.

(* ================================================================== *)
(* (1) a failed parse with includes applies exactly a prefix of the   *)
(*     FLATTENED text                                                 *)
(* ================================================================== *)
Lemma nth_error_split_firstn : forall (A : Type) (l : list A) i a, nth_error l i = Some a ->
  exists l1 l2, l = l1 ++ a :: l2 /\ firstn i l = l1.
Proof.
  intros A l i a H. destruct (nth_error_split l i H) as [l1 [l2 [E L]]]. exists l1, l2. split; [exact E|].
  subst l i. rewrite firstn_app, Nat.sub_diag, firstn_all. cbn [firstn]. apply app_nil_r.
Qed.

Theorem C16_failed_parse_with_includes_is_prefix : forall fuel env sk fname o pending ts s im ic gs flat trees s1 e,
  parse_groups fuel o pending ts = (gs, None) -> List.length gs < fuel ->
  flatten_both fuel env gs = Some (flat, trees) ->
  parse_tokens fuel env sk fname o pending ts s im ic = (s1, SErr e) ->
  exists gs1 g gs2 s0 im0 ic0 eF,
    flat = gs1 ++ g :: gs2 /\
    consume env sk fname no_inc gs1 s im ic = (s0, SOk (im0, ic0)) /\
    err_sim e eF /\
    ((resolve_group s0 sk fname g = SErr eF /\ sim s1 s0) \/
     exists g' pre st post s0' im' ic',
       resolve_group s0 sk fname g = SOk g' /\ g' = pre ++ st :: post /\
       apply_stmts env sk fname no_inc pre s0 im0 ic0 = (s0', SOk (im', ic')) /\
       apply_stmts env sk fname no_inc [st] s0' im' ic' = (s0', SErr eF) /\
       sim s1 s0').
Proof.
  intros fuel env sk fname o pending ts s im ic gs flat trees s1 e Hpg Hl Hfl Hp.
  destruct (C14_flatten_any_depth_gen fuel env sk fname fname o pending ts s s im ic im ic gs flat trees
              Hpg Hl Hfl (sim_refl s)) as [A B].
  rewrite Hp in A, B. cbn [fst snd] in A, B.
  destruct (consume env sk fname no_inc flat s im ic) as [sF rF] eqn:Hc. cbn [fst snd] in A, B.
  destruct rF as [[imF icF]|eF]; [contradiction|]. cbn [res_sim] in B.
  pose proof (flatten_both_no_includes _ _ _ _ _ Hfl) as Hn.
  destruct (C16_failed_parse_is_statement_prefix _ _ _ _ _ _ _ _ _ Hn Hc)
    as [i [g [Hi [s0 [im0 [ic0 [Hpre Hd]]]]]]].
  destruct (nth_error_split_firstn _ _ _ _ Hi) as [gs1 [gs2 [E F]]]. rewrite F in Hpre.
  exists gs1, g, gs2, s0, im0, ic0, eF. split; [exact E|]. split; [exact Hpre|]. split; [exact B|].
  destruct Hd as [[Hr Hs]|[g' [k [st [im' [ic' [Hr [Hk [Ha Hf]]]]]]]]].
  - left. subst sF. auto.
  - right. destruct (nth_error_split_firstn _ _ _ _ Hk) as [pre [post [E' F']]]. rewrite F' in Ha.
    exists g', pre, st, post, sF, im', ic'. auto.
Qed.

(* ================================================================== *)
(* same file name on both sides: errors are EQUAL, not just similar   *)
(* ================================================================== *)
Definition err_eq {A B : Type} (r : sres A) (r' : sres B) : Prop :=
  match r, r' with SOk _, SOk _ => True | SErr e, SErr e' => e = e' | _, _ => False end.

Lemma resolve_group_reg_consts : forall sk fname g s s', t_reg s = t_reg s' -> t_consts s = t_consts s' ->
  resolve_group s sk fname g = resolve_group s' sk fname g.
Proof.
  intros sk fname g s s' Hr Hc. induction g as [|st rest IH]; [reflexivity|].
  destruct st as [sc sel arg v line|sc sel line|m isf al line|v line];
    try (rewrite !resolve_group_other by (intros; discriminate); rewrite IH; reflexivity).
  rewrite !resolve_group_SBind, (resolve_value_reg_consts 100 s s' sk v Hr Hc), IH. reflexivity.
Qed.

Lemma apply_stmts_sim_eq : forall env sk fname inc inc' stmts s s' im ic im' ic',
  forallb (fun st => negb (is_include st)) stmts = true -> sim s s' ->
  sim (fst (apply_stmts env sk fname inc stmts s im ic)) (fst (apply_stmts env sk fname inc' stmts s' im' ic')) /\
  err_eq (snd (apply_stmts env sk fname inc stmts s im ic)) (snd (apply_stmts env sk fname inc' stmts s' im' ic')).
Proof.
  intros env sk fname inc inc' stmts. induction stmts as [|st rest IH]; intros s s' im ic im' ic' Hn Hs.
  - cbn [apply_stmts fst snd]. split; [exact Hs|exact I].
  - cbn [forallb] in Hn. apply andb_true_iff in Hn. destruct Hn as [Hst Hrest].
    assert (Hsk : forall sel, should_skip s sel sk = should_skip s' sel sk).
    { intros sel. apply should_skip_reg. exact (proj1 Hs). }
    assert (Hb : forall sc sel arg v line,
      sim (fst (match bind s sc sel arg v (fname, line) with
                | SErr e => (s, with_loc (fname, line) (SErr e))
                | SOk s1 => apply_stmts env sk fname inc rest s1 im ic end))
          (fst (match bind s' sc sel arg v (fname, line) with
                | SErr e => (s', with_loc (fname, line) (SErr e))
                | SOk s1 => apply_stmts env sk fname inc' rest s1 im' ic' end)) /\
      err_eq (snd (match bind s sc sel arg v (fname, line) with
                | SErr e => (s, with_loc (fname, line) (SErr e))
                | SOk s1 => apply_stmts env sk fname inc rest s1 im ic end))
          (snd (match bind s' sc sel arg v (fname, line) with
                | SErr e => (s', with_loc (fname, line) (SErr e))
                | SOk s1 => apply_stmts env sk fname inc' rest s1 im' ic' end))).
    { intros sc sel arg v line.
      pose proof (bind_sim s s' sc sel arg v (fname, line) (fname, line) Hs) as B.
      destruct (bind s sc sel arg v (fname, line)) as [a|e], (bind s' sc sel arg v (fname, line)) as [b|e'];
        try contradiction.
      - apply IH; assumption.
      - subst e'. rewrite !with_loc_SErr. cbn [fst snd err_eq]. split; [exact Hs|reflexivity]. }
    destruct st as [sc sel arg v line|sc sel line|m isf al line|v line]; cbn [apply_stmts].
    + destruct (String.eqb arg ""); [apply Hb|].
      rewrite <- Hsk. destruct (should_skip s sel sk); [apply IH; assumption|apply Hb].
    + rewrite <- Hsk. destruct (should_skip s sel sk); [apply IH; assumption|].
      destruct Hs as [H1 Hs']. rewrite <- H1. pose proof (conj H1 Hs') as Hs.
      destruct (sm_get_match (to_key sel) (t_reg s)) as [| |k [c|]];
        try (cbn [fst snd with_loc err_eq]; split; [exact Hs|reflexivity]).
      apply IH; assumption.
    + destruct (str_in m (e_modules env)).
      * pose proof (register_mod_sim env m s s' Hs) as B.
        destruct (register_mod env m s) as [a|e], (register_mod env m s') as [b|e']; try contradiction.
        -- apply IH; [assumption|apply sim_add_imports; exact B].
        -- subst e'. rewrite !with_loc_SErr. cbn [fst snd err_eq]. split; [exact Hs|reflexivity].
      * destruct (sk_truthy sk); [apply IH; assumption|].
        cbn [fst snd with_loc err_eq]. split; [exact Hs|reflexivity].
    + cbn in Hst. discriminate.
Qed.

(* ================================================================== *)
(* tagged flattening: every flattened group remembers the file it     *)
(* stands in and the chain of include statements that led to it       *)
(* ================================================================== *)
(* (owner file: resolved name, include chain innermost first, the group) *)
Definition tgroup := (string * list loc * list stmt)%type.
Definition tg_file (t : tgroup) : string := fst (fst t).
Definition chain_of (t : tgroup) : list loc := snd (fst t).
Definition tg_stmts (t : tgroup) : list stmt := snd t.
Definition add_chain (l : loc) (t : tgroup) : tgroup := (tg_file t, chain_of t ++ [l], tg_stmts t).

(* try_with_location once per enclosing include, innermost first *)
Definition wrap_chain (ch : list loc) (e : serr) : serr := fold_left (fun e l => with_loc_err l e) ch e.

Lemma wrap_chain_app : forall a b e, wrap_chain (a ++ b) e = wrap_chain b (wrap_chain a e).
Proof. intros a b e. unfold wrap_chain. apply fold_left_app. Qed.
(* the chain is appended to the inner chain; SyntaxErrors keep their own (file, line) *)
Theorem wrap_chain_other : forall ch c ch0, wrap_chain ch (SEOther c ch0) = SEOther c (ch0 ++ ch).
Proof.
  induction ch as [|l ch IH]; intros c ch0; [cbn; rewrite app_nil_r; reflexivity|].
  change (wrap_chain (l :: ch) (SEOther c ch0)) with (wrap_chain ch (SEOther c (ch0 ++ [l]))).
  rewrite IH, <- app_assoc. reflexivity.
Qed.
Theorem wrap_chain_syntax : forall ch f n, wrap_chain ch (SESyntax f n) = SESyntax f n.
Proof. induction ch as [|l ch IH]; intros f n; [reflexivity|]. exact (IH f n). Qed.

(* [flatten_px fuel env fname gs pe]: the groups [gs] of file [fname] (its parse having ended with [pe]: None = EOF,
   Some = the parse error that ended it) flattened through the includes, each group tagged; the second component is the
   error that ENDS the run once all the groups have been consumed successfully: a parse error of this file, or -- wrapped
   with the include locations -- a missing file / tokenizer error / parse error of an included file; the text after such
   an include is cut off.  Fuel exactly as parse_tokens threads it.  None: recursion budget insufficient, or a group
   mixing an include with other statements (the parser never yields one). *)
Fixpoint flatten_px (fuel : nat) (env : fenv) (fname : string) (gs : list (list stmt)) (pe : option perr)
         {struct fuel} : option (list tgroup * option serr) :=
  match gs with
  | [] => Some ([], option_map (perr_to_serr fname) pe)
  | g :: rest =>
      match fuel with
      | O => None
      | S f =>
          match as_include g with
          | None =>
              if forallb (fun st => negb (is_include st)) g then
                match flatten_px f env fname rest pe with
                | None => None
                | Some (tr, fin) => Some ((fname, [], g) :: tr, fin)
                end
              else None
          | Some (v, line) =>
              match resolve_file env (str_of_value v) with
              | None => Some ([], Some (with_loc_err (fname, line) (SEOther "OSError" [])))
              | Some (full, gf) =>
                  match settle (f_tokens gf) with
                  | PErr pe0 => Some ([], Some (with_loc_err (fname, line) (perr_to_serr full pe0)))
                  | POk ts0 =>
                      if Nat.ltb (List.length (fst (parse_groups f (f_oracle gf) false ts0))) f then
                        match flatten_px f env full (fst (parse_groups f (f_oracle gf) false ts0))
                                         (snd (parse_groups f (f_oracle gf) false ts0)) with
                        | None => None
                        | Some (t2, Some e2) =>
                            Some (map (add_chain (fname, line)) t2, Some (with_loc_err (fname, line) e2))
                        | Some (t2, None) =>
                            match flatten_px f env fname rest pe with
                            | None => None
                            | Some (tr, fin) => Some (map (add_chain (fname, line)) t2 ++ tr, fin)
                            end
                        end
                      else None
                  end
              end
          end
      end
  end.

Lemma flatten_px_nil : forall fuel env fname pe,
  flatten_px fuel env fname [] pe = Some ([], option_map (perr_to_serr fname) pe).
Proof. intros [|f] env fname pe; reflexivity. Qed.
Lemma flatten_px_cons : forall f env fname g rest pe,
  flatten_px (S f) env fname (g :: rest) pe =
  match as_include g with
  | None =>
      if forallb (fun st => negb (is_include st)) g then
        match flatten_px f env fname rest pe with
        | None => None
        | Some (tr, fin) => Some ((fname, [], g) :: tr, fin)
        end
      else None
  | Some (v, line) =>
      match resolve_file env (str_of_value v) with
      | None => Some ([], Some (with_loc_err (fname, line) (SEOther "OSError" [])))
      | Some (full, gf) =>
          match settle (f_tokens gf) with
          | PErr pe0 => Some ([], Some (with_loc_err (fname, line) (perr_to_serr full pe0)))
          | POk ts0 =>
              if Nat.ltb (List.length (fst (parse_groups f (f_oracle gf) false ts0))) f then
                match flatten_px f env full (fst (parse_groups f (f_oracle gf) false ts0))
                                 (snd (parse_groups f (f_oracle gf) false ts0)) with
                | None => None
                | Some (t2, Some e2) =>
                    Some (map (add_chain (fname, line)) t2, Some (with_loc_err (fname, line) e2))
                | Some (t2, None) =>
                    match flatten_px f env fname rest pe with
                    | None => None
                    | Some (tr, fin) => Some (map (add_chain (fname, line)) t2 ++ tr, fin)
                    end
                end
              else None
          end
      end
  end.
Proof. reflexivity. Qed.

(* consuming tagged groups: each under its own file name; an error gets its group's include chain *)
Fixpoint consume_tagged (env : fenv) (sk : skip_unknown) (tgs : list tgroup) (s : tstate) : tstate * option serr :=
  match tgs with
  | [] => (s, None)
  | t :: rest =>
      match resolve_group s sk (tg_file t) (tg_stmts t) with
      | SErr e => (s, Some (wrap_chain (chain_of t) e))
      | SOk g' =>
          let '(s1, r) := apply_stmts env sk (tg_file t) no_inc g' s [] [] in
          match r with
          | SErr e => (s1, Some (wrap_chain (chain_of t) e))
          | SOk _ => consume_tagged env sk rest s1
          end
      end
  end.
(* ... and then the error that ends the text, if any *)
Definition run_tagged (env : fenv) (sk : skip_unknown) (tgs : list tgroup) (fin : option serr) (s : tstate)
  : tstate * option serr :=
  let '(s1, r) := consume_tagged env sk tgs s in (s1, match r with Some e => Some e | None => fin end).

Lemma consume_tagged_app : forall env sk a b s,
  consume_tagged env sk (a ++ b) s =
  (let '(s1, r) := consume_tagged env sk a s in
   match r with Some e => (s1, Some e) | None => consume_tagged env sk b s1 end).
Proof.
  intros env sk a. induction a as [|t a IH]; intros b s; [reflexivity|].
  cbn [app consume_tagged]. destruct (resolve_group s sk (tg_file t) (tg_stmts t)) as [g'|e]; [|reflexivity].
  destruct (apply_stmts env sk (tg_file t) no_inc g' s [] []) as [s1 r]. destruct r as [x|e]; [apply IH|reflexivity].
Qed.

Lemma consume_tagged_add_chain : forall env sk l tgs s,
  consume_tagged env sk (map (add_chain l) tgs) s =
  (let '(s1, r) := consume_tagged env sk tgs s in (s1, option_map (with_loc_err l) r)).
Proof.
  intros env sk l tgs. induction tgs as [|t tgs IH]; intros s; [reflexivity|].
  destruct t as [[f ch] g]. cbn [map consume_tagged add_chain tg_file chain_of tg_stmts fst snd].
  destruct (resolve_group s sk f g) as [g'|e].
  - destruct (apply_stmts env sk f no_inc g' s [] []) as [s1 r]. destruct r as [x|e]; [apply IH|].
    rewrite wrap_chain_app. reflexivity.
  - rewrite wrap_chain_app. reflexivity.
Qed.

Definition err_match {A : Type} (r : sres A) (o : option serr) : Prop :=
  match r, o with SOk _, None => True | SErr e, Some e' => e = e' | _, _ => False end.

(* ---------- THE streaming theorem with includes ---------- *)
(* For ANY config (includes at any depth, semantic errors anywhere, parse / tokenizer errors and missing files in any
   file): parsing-and-applying statement by statement equals consuming the tagged flattened groups in order and then
   ending with the text's terminal error -- same registry, constants, store and lock (sim), and EXACTLY the same
   error, location chain included. *)
Theorem C16_stream_eq_with_includes_gen : forall fuel env sk fname o pending ts s s' im ic gs pe tg fin,
  parse_groups fuel o pending ts = (gs, pe) -> List.length gs < fuel ->
  flatten_px fuel env fname gs pe = Some (tg, fin) -> sim s s' ->
  sim (fst (parse_tokens fuel env sk fname o pending ts s im ic)) (fst (run_tagged env sk tg fin s')) /\
  err_match (snd (parse_tokens fuel env sk fname o pending ts s im ic)) (snd (run_tagged env sk tg fin s')).
Proof.
  induction fuel as [|f IH]; intros env sk fname o pending ts s s' im ic gs pe tg fin Hpg Hl Hfl Hs; [lia|].
  rewrite parse_tokens_S. rewrite parse_groups_S in Hpg.
  destruct (parse_statement o pending ts) as [[[[stmts ts1] p1]|]|e] eqn:Hps.
  - destruct (parse_groups f o p1 ts1) as [gs' e'] eqn:Hpg'. inversion Hpg; subst gs e'. clear Hpg.
    cbn [List.length] in Hl. assert (Hl' : List.length gs' < f) by lia.
    rewrite flatten_px_cons in Hfl.
    destruct (as_include stmts) as [[v line]|] eqn:Hai.
    + (* an include group *)
      apply as_include_some in Hai. subst stmts.
      rewrite resolve_group_other by (intros; discriminate). rewrite resolve_group_nil.
      rewrite C14_include_step. unfold inc_of.
      destruct (resolve_file env (str_of_value v)) as [[full gf]|] eqn:Hres.
      2:{ inversion Hfl; subst tg fin. cbn [run_tagged consume_tagged fst snd].
          rewrite with_loc_SErr. cbn [fst snd err_match]. split; [exact Hs|reflexivity]. }
      destruct (settle (f_tokens gf)) as [ts0|pe0] eqn:Hset.
      2:{ inversion Hfl; subst tg fin. cbn [run_tagged consume_tagged fst snd].
          destruct pe0 as [ln|c]; cbn [perr_to_serr]; rewrite with_loc_SErr; cbn [fst snd err_match];
            (split; [exact Hs|reflexivity]). }
      destruct (parse_groups f (f_oracle gf) false ts0) as [gs2 pe2] eqn:Hpg2. cbn [fst snd] in Hfl.
      destruct (Nat.ltb_spec (List.length gs2) f) as [Hl2|_]; [|discriminate].
      destruct (flatten_px f env full gs2 pe2) as [[t2 fin2]|] eqn:Hf2; [|discriminate].
      pose proof (IH env sk full (f_oracle gf) false ts0 s s' [] [] gs2 pe2 t2 fin2 Hpg2 Hl2 Hf2 Hs) as [A1 A2].
      unfold run_tagged in A1, A2.
      destruct (parse_tokens f env sk full (f_oracle gf) false ts0 s [] []) as [s2 r2].
      destruct (consume_tagged env sk t2 s') as [s2' r2'] eqn:Hc2. cbn [fst snd] in A1, A2.
      destruct fin2 as [e2|].
      * (* the included text ends with an error: the rest of the including file is cut *)
        inversion Hfl; subst tg fin. clear Hfl. unfold run_tagged. rewrite consume_tagged_add_chain, Hc2.
        destruct r2 as [[im2 ic2]|e2r].
        -- destruct r2' as [x|]; contradiction.
        -- cbv beta iota. rewrite with_loc_SErr. cbn [fst snd]. split; [exact A1|].
           destruct r2' as [x|]; cbn [err_match option_map] in *; subst; reflexivity.
      * destruct (flatten_px f env fname gs' pe) as [[tr finr]|] eqn:Hfr; [|discriminate].
        inversion Hfl; subst tg fin. clear Hfl. unfold run_tagged.
        rewrite consume_tagged_app, consume_tagged_add_chain, Hc2.
        destruct r2 as [[im2 ic2]|e2r], r2' as [x|]; try contradiction; cbv beta iota.
        -- cbn [apply_stmts option_map].
           apply (IH env sk fname o p1 ts1 s2 s2' im (ic ++ [INode (str_of_value v) im2 ic2]) gs' pe tr finr
                     Hpg' Hl' Hfr A1).
        -- rewrite with_loc_SErr. cbn [fst snd option_map err_match] in *. subst. split; [exact A1|reflexivity].
    + (* an include-free group *)
      destruct (forallb (fun st => negb (is_include st)) stmts) eqn:Hn; [|discriminate].
      destruct (flatten_px f env fname gs' pe) as [[tr finr]|] eqn:Hfr; [|discriminate].
      inversion Hfl; subst tg fin. clear Hfl. unfold run_tagged. cbn [consume_tagged tg_file tg_stmts chain_of fst snd].
      rewrite <- (resolve_group_reg_consts sk fname stmts s s' (proj1 Hs) (proj1 (proj2 Hs))).
      destruct (resolve_group s sk fname stmts) as [a|e] eqn:Ra.
      * assert (Ha : forallb (fun st => negb (is_include st)) a = true)
          by (rewrite (resolve_group_noinc _ _ _ _ _ Ra); exact Hn).
        rewrite (apply_stmts_inc_indep env sk fname (inc_of f env sk) no_inc a s im ic Ha).
        pose proof (apply_stmts_sim_eq env sk fname no_inc no_inc a s s' im ic [] [] Ha Hs) as [A1 A2].
        destruct (apply_stmts env sk fname no_inc a s im ic) as [s1 r1].
        destruct (apply_stmts env sk fname no_inc a s' [] []) as [s1' r1'].
        cbn [fst snd] in A1, A2.
        destruct r1 as [[im1 ic1]|e1], r1' as [[im1' ic1']|e1']; try contradiction.
        -- apply (IH env sk fname o p1 ts1 s1 s1' im1 ic1 gs' pe tr finr Hpg' Hl' Hfr A1).
        -- cbn [err_eq] in A2. subst e1'. cbn [fst snd wrap_chain fold_left err_match]. split; [exact A1|reflexivity].
      * cbn [fst snd wrap_chain fold_left err_match]. split; [exact Hs|reflexivity].
  - inversion Hpg; subst gs pe. rewrite flatten_px_nil in Hfl. inversion Hfl; subst tg fin.
    cbn [run_tagged consume_tagged option_map fst snd err_match]. split; [exact Hs|exact I].
  - inversion Hpg; subst gs pe. rewrite flatten_px_nil in Hfl. inversion Hfl; subst tg fin.
    cbn [run_tagged consume_tagged option_map fst snd err_match]. split; [exact Hs|reflexivity].
Qed.

(* in the requested form: same start state, and the parse_config_file entry point *)
Theorem C16_stream_eq_with_includes : forall fuel env sk fname o pending ts s im ic gs pe tg fin,
  parse_groups fuel o pending ts = (gs, pe) -> List.length gs < fuel ->
  flatten_px fuel env fname gs pe = Some (tg, fin) ->
  sim (fst (parse_tokens fuel env sk fname o pending ts s im ic)) (fst (run_tagged env sk tg fin s)) /\
  err_match (snd (parse_tokens fuel env sk fname o pending ts s im ic)) (snd (run_tagged env sk tg fin s)).
Proof.
  intros fuel env sk fname o pending ts s im ic gs pe tg fin Hpg Hl Hfl.
  apply (C16_stream_eq_with_includes_gen fuel env sk fname o pending ts s s im ic gs pe tg fin Hpg Hl Hfl (sim_refl s)).
Qed.

Theorem C16_parse_config_file_with_includes : forall env sk name full g s ts gs pe tg fin,
  resolve_file env name = Some (full, g) -> settle (f_tokens g) = POk ts ->
  parse_groups 60 (f_oracle g) false ts = (gs, pe) -> List.length gs < 60 ->
  flatten_px 60 env full gs pe = Some (tg, fin) ->
  sim (fst (parse_config_file env sk name s)) (fst (run_tagged env sk tg fin s)) /\
  err_match (snd (parse_config_file env sk name s)) (snd (run_tagged env sk tg fin s)).
Proof.
  intros env sk name full g s ts gs pe tg fin Hres Hset Hpg Hl Hfl.
  destruct (C16_stream_eq_with_includes 60 env sk full (f_oracle g) false ts s [] [] gs pe tg fin Hpg Hl Hfl) as [A B].
  unfold parse_config_file, parse_config. rewrite Hres, Hset.
  destruct (parse_tokens 60 env sk full (f_oracle g) false ts s [] []) as [s1 r1]. cbn [fst snd] in A, B.
  destruct r1 as [[im1 ic1]|e1]; cbn [fst snd]; split; assumption.
Qed.

(* ---------- flatten_px extends flatten_both ---------- *)
Lemma tg_stmts_add_chain : forall l t, tg_stmts (add_chain l t) = tg_stmts t.
Proof. reflexivity. Qed.

Lemma flatten_px_of_flatten_both : forall fuel env fname gs flat trees,
  flatten_both fuel env gs = Some (flat, trees) ->
  exists tg, flatten_px fuel env fname gs None = Some (tg, None) /\ map tg_stmts tg = flat.
Proof.
  induction fuel as [|f IH]; intros env fname gs flat trees H.
  - destruct gs; [|discriminate]. inversion H. exists []. split; reflexivity.
  - destruct gs as [|g rest]; [inversion H; exists []; split; reflexivity|].
    rewrite flatten_both_cons in H. rewrite flatten_px_cons.
    destruct (flatten_both f env rest) as [[frest trest]|] eqn:Hfr; [|discriminate].
    destruct (IH env fname rest frest trest Hfr) as [tr [Er Mr]].
    destruct (as_include g) as [[v line]|].
    + destruct (resolve_file env (str_of_value v)) as [[full gf]|]; [|discriminate].
      destruct (settle (f_tokens gf)) as [ts0|pe0]; [|discriminate].
      destruct (parse_groups f (f_oracle gf) false ts0) as [gs2 [pe2|]]; [discriminate|]. cbn [fst snd].
      destruct (Nat.ltb (List.length gs2) f); [|discriminate].
      destruct (flatten_both f env gs2) as [[f2 t2]|] eqn:Hf2; [|discriminate].
      destruct (IH env full gs2 f2 t2 Hf2) as [tg2 [E2 M2]]. rewrite E2, Er.
      inversion H; subst flat trees. eexists. split; [reflexivity|].
      rewrite map_app, map_map. rewrite (map_ext _ tg_stmts (tg_stmts_add_chain (fname, line))). rewrite M2, Mr. reflexivity.
    + destruct (forallb (fun st => negb (is_include st)) g); [|discriminate]. rewrite Er.
      inversion H; subst flat trees. eexists. split; [reflexivity|]. cbn [map tg_stmts snd]. rewrite Mr. reflexivity.
Qed.

(* the tagged groups are include-free *)
Lemma flatten_px_noinc : forall fuel env fname gs pe tg fin,
  flatten_px fuel env fname gs pe = Some (tg, fin) ->
  Forall (fun t => forallb (fun st => negb (is_include st)) (tg_stmts t) = true) tg.
Proof.
  induction fuel as [|f IH]; intros env fname gs pe tg fin H.
  - destruct gs; [|discriminate]. inversion H. constructor.
  - destruct gs as [|g rest]; [inversion H; constructor|].
    rewrite flatten_px_cons in H.
    destruct (as_include g) as [[v line]|].
    + destruct (resolve_file env (str_of_value v)) as [[full gf]|]; [|inversion H; constructor].
      destruct (settle (f_tokens gf)) as [ts0|pe0]; [|inversion H; constructor].
      destruct (Nat.ltb _ f); [|discriminate].
      destruct (flatten_px f env full _ _) as [[t2 fin2]|] eqn:Hf2; [|discriminate].
      assert (H2 : Forall (fun t => forallb (fun st => negb (is_include st)) (tg_stmts t) = true)
                          (map (add_chain (fname, line)) t2)).
      { apply Forall_map. eapply Forall_impl; [|eapply IH; exact Hf2]. intros t Ht. exact Ht. }
      destruct fin2 as [e2|]; [inversion H; subst; exact H2|].
      destruct (flatten_px f env fname rest pe) as [[tr finr]|] eqn:Hfr; [|discriminate].
      inversion H; subst. apply Forall_app. split; [exact H2|eapply IH; exact Hfr].
    + destruct (forallb (fun st => negb (is_include st)) g) eqn:Hn; [|discriminate].
      destruct (flatten_px f env fname rest pe) as [[tr finr]|] eqn:Hfr; [|discriminate].
      inversion H; subst. constructor; [exact Hn|eapply IH; exact Hfr].
Qed.

(* the shape of the chains: a group of the top file has the empty chain; any other group's chain ends (outermost) with
   an include statement of the top file -- and by construction one entry was appended per level on the way out *)
Lemma flatten_px_chain_top : forall fuel env fname gs pe tg fin t,
  flatten_px fuel env fname gs pe = Some (tg, fin) -> In t tg ->
  (chain_of t = [] /\ tg_file t = fname) \/ exists ch line, chain_of t = ch ++ [(fname, line)].
Proof.
  induction fuel as [|f IH]; intros env fname gs pe tg fin t H Hin.
  - destruct gs; [|discriminate]. inversion H; subst. destruct Hin.
  - destruct gs as [|g rest]; [inversion H; subst; destruct Hin|].
    rewrite flatten_px_cons in H.
    destruct (as_include g) as [[v line]|].
    + destruct (resolve_file env (str_of_value v)) as [[full gf]|]; [|inversion H; subst; destruct Hin].
      destruct (settle (f_tokens gf)) as [ts0|pe0]; [|inversion H; subst; destruct Hin].
      destruct (Nat.ltb _ f); [|discriminate].
      destruct (flatten_px f env full _ _) as [[t2 fin2]|] eqn:Hf2; [|discriminate].
      assert (H2 : In t (map (add_chain (fname, line)) t2) -> exists ch line, chain_of t = ch ++ [(fname, line)]).
      { intros Hm. apply in_map_iff in Hm. destruct Hm as [t0 [E _]]. subst t. exists (chain_of t0), line. reflexivity. }
      destruct fin2 as [e2|]; [inversion H; subst; right; apply H2; exact Hin|].
      destruct (flatten_px f env fname rest pe) as [[tr finr]|] eqn:Hfr; [|discriminate].
      inversion H; subst. apply in_app_or in Hin. destruct Hin as [Hin|Hin]; [right; apply H2; exact Hin|].
      eapply IH; eassumption.
    + destruct (forallb (fun st => negb (is_include st)) g); [|discriminate].
      destruct (flatten_px f env fname rest pe) as [[tr finr]|] eqn:Hfr; [|discriminate].
      inversion H; subst. destruct Hin as [E|Hin]; [subst t; left; split; reflexivity|eapply IH; eassumption].
Qed.

(* ================================================================== *)
(* (2) where a failure sits, and the location chain it carries        *)
(* ================================================================== *)
Definition stmt_line (st : stmt) : nat :=
  match st with SBind _ _ _ _ l => l | SBlock _ _ l => l | SImport _ _ _ l => l | SInclude _ l => l end.

Lemma bind_err_shape : forall s sc sel arg v l e, bind s sc sel arg v l = SErr e -> exists c, e = SEOther c [].
Proof.
  intros s sc sel arg v l e H. unfold bind in H.
  destruct (t_locked s); [inversion H; eexists; reflexivity|].
  destruct (sm_get_match (to_key sel) (t_reg s)) as [| |k [c|]]; try (inversion H; eexists; reflexivity).
  destruct (negb (cs_varkw c || str_in arg (cs_args c))); [inversion H; eexists; reflexivity|].
  destruct (negb (match cs_allow c with [] => true | _ :: _ => false end) && negb (str_in arg (cs_allow c)));
    [inversion H; eexists; reflexivity|].
  destruct (str_in arg (cs_deny c)); [inversion H; eexists; reflexivity|discriminate].
Qed.

(* a failing non-include statement raises an error whose chain is exactly its own (file, line) *)
Lemma apply_one_err_loc : forall env sk f inc st s im ic s' e,
  is_include st = false -> apply_stmts env sk f inc [st] s im ic = (s', SErr e) ->
  exists c, e = SEOther c [(f, stmt_line st)].
Proof.
  intros env sk f inc st s im ic s' e Hst H.
  destruct st as [sc sel arg v line|sc sel line|m isf al line|v line]; cbn [apply_stmts stmt_line] in *.
  - destruct (String.eqb arg "").
    + destruct (bind s _ "gin.macro" "value" v (f, line)) as [s0|e0] eqn:Hb; [discriminate|].
      destruct (bind_err_shape _ _ _ _ _ _ _ Hb) as [c Ec]. subst e0. inversion H. eexists; reflexivity.
    + destruct (should_skip s sel sk); [discriminate|].
      destruct (bind s sc sel arg v (f, line)) as [s0|e0] eqn:Hb; [discriminate|].
      destruct (bind_err_shape _ _ _ _ _ _ _ Hb) as [c Ec]. subst e0. inversion H. eexists; reflexivity.
  - destruct (should_skip s sel sk); [discriminate|].
    destruct (sm_get_match (to_key sel) (t_reg s)) as [| |k [c|]]; try discriminate; inversion H; eexists; reflexivity.
  - destruct (str_in m (e_modules env)).
    + destruct (register_mod env m s) as [s0|e0] eqn:Hr; [discriminate|].
      destruct (register_mod_err _ _ _ _ Hr) as [Ee _]. subst e0. inversion H. eexists; reflexivity.
    + destruct (sk_truthy sk); [discriminate|]. inversion H. eexists; reflexivity.
  - discriminate.
Qed.

Lemma consume_tagged_fails : forall env sk tg s s1 e,
  consume_tagged env sk tg s = (s1, Some e) ->
  exists t1 t t2 s0 e0, tg = t1 ++ t :: t2 /\ consume_tagged env sk t1 s = (s0, None) /\
    e = wrap_chain (chain_of t) e0 /\
    ((resolve_group s0 sk (tg_file t) (tg_stmts t) = SErr e0 /\ s1 = s0) \/
     exists g', resolve_group s0 sk (tg_file t) (tg_stmts t) = SOk g' /\
                apply_stmts env sk (tg_file t) no_inc g' s0 [] [] = (s1, SErr e0)).
Proof.
  intros env sk tg. induction tg as [|t rest IH]; intros s s1 e H; [discriminate|].
  cbn [consume_tagged] in H.
  destruct (resolve_group s sk (tg_file t) (tg_stmts t)) as [g'|e0] eqn:Hr.
  - destruct (apply_stmts env sk (tg_file t) no_inc g' s [] []) as [s2 r2] eqn:Ha. destruct r2 as [x|e0].
    + destruct (IH _ _ _ H) as [t1 [t' [t2 [s0 [e0 [E [Hc [He Hd]]]]]]]].
      exists (t :: t1), t', t2, s0, e0. split; [rewrite E; reflexivity|]. split; [|split; assumption].
      cbn [consume_tagged]. rewrite Hr, Ha. exact Hc.
    + inversion H; subst s2 e. exists [], t, rest, s, e0. split; [reflexivity|]. split; [reflexivity|].
      split; [reflexivity|]. right. exists g'. split; [exact Hr|exact Ha].
  - inversion H; subst s1 e. exists [], t, rest, s, e0. split; [reflexivity|]. split; [reflexivity|].
    split; [reflexivity|]. left. split; [exact Hr|reflexivity].
Qed.

(* A failed parse of ANY config: either every flattened group was applied and the text was ended by its terminal
   error (parse error of the top file; or missing file / tokenizer / parse error of an included file, already wrapped),
   or the failure sits in one tagged group t: the groups before it were applied, within t the statements before the
   failing one were applied, NOTHING after -- and the error is the local error wrapped with t's include chain; for a
   failing statement this is  SEOther class ((file of t, line of the statement) :: chain_of t), i.e. the inner chain
   extended by (including file, line of the include statement) once per level, innermost first. *)
Theorem C16_failed_parse_with_includes_located : forall fuel env sk fname o pending ts s im ic gs pe tg fin s1 e,
  parse_groups fuel o pending ts = (gs, pe) -> List.length gs < fuel ->
  flatten_px fuel env fname gs pe = Some (tg, fin) ->
  parse_tokens fuel env sk fname o pending ts s im ic = (s1, SErr e) ->
  (exists s0, consume_tagged env sk tg s = (s0, None) /\ fin = Some e /\ sim s1 s0) \/
  (exists t1 t t2 s0 e0, tg = t1 ++ t :: t2 /\ consume_tagged env sk t1 s = (s0, None) /\
     e = wrap_chain (chain_of t) e0 /\
     ((resolve_group s0 sk (tg_file t) (tg_stmts t) = SErr e0 /\ sim s1 s0) \/
      exists g' pre st post s0' im' ic' c,
        resolve_group s0 sk (tg_file t) (tg_stmts t) = SOk g' /\ g' = pre ++ st :: post /\
        apply_stmts env sk (tg_file t) no_inc pre s0 [] [] = (s0', SOk (im', ic')) /\
        apply_stmts env sk (tg_file t) no_inc [st] s0' im' ic' = (s0', SErr e0) /\
        sim s1 s0' /\
        e0 = SEOther c [(tg_file t, stmt_line st)] /\
        e = SEOther c ((tg_file t, stmt_line st) :: chain_of t))).
Proof.
  intros fuel env sk fname o pending ts s im ic gs pe tg fin s1 e Hpg Hl Hfl Hp.
  destruct (C16_stream_eq_with_includes fuel env sk fname o pending ts s im ic gs pe tg fin Hpg Hl Hfl) as [A B].
  rewrite Hp in A, B. unfold run_tagged in A, B.
  destruct (consume_tagged env sk tg s) as [sT rT] eqn:Hc. cbn [fst snd] in A, B.
  destruct rT as [eT|].
  - right. cbn [err_match] in B. subst eT.
    destruct (consume_tagged_fails _ _ _ _ _ _ Hc) as [t1 [t [t2 [s0 [e0 [E [Hc1 [He Hd]]]]]]]].
    exists t1, t, t2, s0, e0. split; [exact E|]. split; [exact Hc1|]. split; [exact He|].
    destruct Hd as [[Hr Hs]|[g' [Hr Ha]]]; [left; subst sT; auto|right].
    pose proof (flatten_px_noinc _ _ _ _ _ _ _ Hfl) as Hn. rewrite E in Hn. apply Forall_app in Hn.
    destruct Hn as [_ Hn]. inversion Hn as [|t0 r0 Ht _]; subst t0 r0.
    assert (Hg' : forallb (fun st => negb (is_include st)) g' = true)
      by (rewrite (resolve_group_noinc _ _ _ _ _ Hr); exact Ht).
    destruct (apply_stmts_prefix_noinc _ _ _ _ _ _ _ _ _ _ Hg' Ha) as [k [st [im' [ic' [Hk [Hpre Hf]]]]]].
    destruct (nth_error_split_firstn _ _ _ _ Hk) as [pre [post [E' F']]]. rewrite F' in Hpre.
    assert (Hst : is_include st = false).
    { rewrite forallb_forall in Hg'. specialize (Hg' st (nth_error_In _ _ Hk)). destruct (is_include st); [discriminate|reflexivity]. }
    destruct (apply_one_err_loc _ _ _ _ _ _ _ _ _ _ Hst Hf) as [c Ec].
    exists g', pre, st, post, sT, im', ic', c.
    split; [exact Hr|]. split; [exact E'|]. split; [exact Hpre|]. split; [exact Hf|]. split; [exact A|].
    split; [exact Ec|]. rewrite He, Ec, wrap_chain_other. reflexivity.
  - left. exists sT. destruct fin as [eF|]; cbn [err_match] in B; [|contradiction]. subst eF. auto.
Qed.

(* ---------- what a failed parse with includes has RECORDED of the imports ---------- *)
(* the tagged run records, group by group, the importable modules of the import statements it applies *)
Lemma consume_tagged_records : forall env sk tgs s s0,
  Forall (fun t => forallb (fun st => negb (is_include st)) (tg_stmts t) = true) tgs ->
  consume_tagged env sk tgs s = (s0, None) ->
  t_imports s0 = t_imports s ++ imports_of env (map tg_stmts tgs).
Proof.
  intros env sk tgs. induction tgs as [|t rest IH]; intros s s0 Hn H.
  - cbn [consume_tagged] in H. inversion H. unfold imports_of. cbn [map flat_map]. rewrite app_nil_r. reflexivity.
  - inversion Hn as [|t0 r0 Ht Hrest]; subst t0 r0. cbn [consume_tagged] in H.
    destruct (resolve_group s sk (tg_file t) (tg_stmts t)) as [g'|e0] eqn:Hr; [|discriminate].
    destruct (apply_stmts env sk (tg_file t) no_inc g' s [] []) as [s2 r2] eqn:Ha.
    destruct r2 as [[im2 ic2]|e2]; [|discriminate].
    assert (Hg' : forallb (fun st => negb (is_include st)) g' = true)
      by (rewrite (resolve_group_noinc _ _ _ _ _ Hr); exact Ht).
    destruct (apply_stmts_noinc_records _ _ _ _ _ _ _ _ _ _ _ Hg' Ha) as [_ B].
    rewrite (resolve_group_imports env _ _ _ _ _ Hr) in B.
    rewrite (IH _ _ Hrest H), B. unfold imports_of. cbn [map flat_map]. rewrite <- app_assoc. reflexivity.
Qed.

(* A failed parse of ANY config has recorded exactly the imports of the statements of the flattened text that took
   effect before the failure, in order: those of every group before the failing one and, within the failing group,
   those of the statements before the failing statement (all of them when the text was ended by its terminal error). *)
Theorem C16_failed_parse_with_includes_records_imports : forall fuel env sk fname o pending ts s im ic gs pe tg fin s1 e,
  parse_groups fuel o pending ts = (gs, pe) -> List.length gs < fuel ->
  flatten_px fuel env fname gs pe = Some (tg, fin) ->
  parse_tokens fuel env sk fname o pending ts s im ic = (s1, SErr e) ->
  (exists s0, consume_tagged env sk tg s = (s0, None) /\ fin = Some e /\
     t_imports s1 = t_imports s ++ imports_of env (map tg_stmts tg)) \/
  (exists t1 t t2 s0 e0, tg = t1 ++ t :: t2 /\ consume_tagged env sk t1 s = (s0, None) /\
     e = wrap_chain (chain_of t) e0 /\
     ((resolve_group s0 sk (tg_file t) (tg_stmts t) = SErr e0 /\
       t_imports s1 = t_imports s ++ imports_of env (map tg_stmts t1)) \/
      exists g' pre st post s0' im' ic',
        resolve_group s0 sk (tg_file t) (tg_stmts t) = SOk g' /\ g' = pre ++ st :: post /\
        apply_stmts env sk (tg_file t) no_inc pre s0 [] [] = (s0', SOk (im', ic')) /\
        apply_stmts env sk (tg_file t) no_inc [st] s0' im' ic' = (s0', SErr e0) /\
        t_imports s1 = t_imports s ++ imports_of env (map tg_stmts t1) ++ flat_map (stmt_imports env) pre)).
Proof.
  intros fuel env sk fname o pending ts s im ic gs pe tg fin s1 e Hpg Hl Hfl Hp.
  pose proof (flatten_px_noinc _ _ _ _ _ _ _ Hfl) as Hn.
  destruct (C16_failed_parse_with_includes_located fuel env sk fname o pending ts s im ic gs pe tg fin s1 e
              Hpg Hl Hfl Hp) as [[s0 [Hc [Hf Hs]]]|[t1 [t [t2 [s0 [e0 [E [Hc1 [He Hd]]]]]]]]].
  - left. exists s0. split; [exact Hc|]. split; [exact Hf|].
    rewrite (proj2 (proj2 (proj2 (proj2 Hs)))). eapply consume_tagged_records; eassumption.
  - right. exists t1, t, t2, s0, e0. split; [exact E|]. split; [exact Hc1|]. split; [exact He|].
    rewrite E in Hn. apply Forall_app in Hn. destruct Hn as [Hn1 Hn2].
    inversion Hn2 as [|t0 r0 Ht _]; subst t0 r0.
    pose proof (consume_tagged_records env sk t1 s s0 Hn1 Hc1) as R.
    destruct Hd as [[Hr Hs]|[g' [pre [st [post [s0' [im' [ic' [c [Hr [Eg [Hpre [Hf [Hs _]]]]]]]]]]]]]].
    + left. split; [exact Hr|]. rewrite (proj2 (proj2 (proj2 (proj2 Hs)))). exact R.
    + right. exists g', pre, st, post, s0', im', ic'. repeat (split; [assumption|]).
      assert (Hg' : forallb (fun st => negb (is_include st)) g' = true)
        by (rewrite (resolve_group_noinc _ _ _ _ _ Hr); exact Ht).
      rewrite Eg, forallb_app in Hg'. apply andb_true_iff in Hg'. destruct Hg' as [Hp' _].
      destruct (apply_stmts_noinc_records _ _ _ _ _ _ _ _ _ _ _ Hp' Hpre) as [_ B].
      rewrite (proj2 (proj2 (proj2 (proj2 Hs)))), B, R, <- app_assoc. reflexivity.
Qed.

(* ================================================================== *)
(* (3) a parse error INSIDE an included file, one level, explicit     *)
(* ================================================================== *)
(* the statements of the including file before the include and of the included file before its parse error have taken
   effect, nothing else (the rest gs3 of the including file, and whatever ended ITS parse, are irrelevant); the result
   is the first semantic error if there is one before the parse error, else the included file's parse error: a
   SyntaxError keeps the included file's own (name, line), any other class gets the include statement's location *)
Theorem C16_syntax_error_in_include_one_level :
  forall fuel env sk fname o pending ts s im ic gs1 v line gs3 pe full g ts0 gs2 pe2,
  parse_groups fuel o pending ts = (gs1 ++ [SInclude v line] :: gs3, pe) ->
  no_includes gs1 -> List.length gs1 < fuel ->
  resolve_file env (str_of_value v) = Some (full, g) -> settle (f_tokens g) = POk ts0 ->
  parse_groups (fuel - S (List.length gs1)) (f_oracle g) false ts0 = (gs2, Some pe2) -> no_includes gs2 ->
  List.length gs2 < fuel - S (List.length gs1) ->
  parse_tokens fuel env sk fname o pending ts s im ic =
  (let '(s1, r1) := consume env sk fname no_inc gs1 s im ic in
   match r1 with
   | SErr e => (s1, SErr e)
   | SOk _ =>
       let '(s2, r2) := consume env sk full no_inc gs2 s1 [] [] in
       (s2, SErr (with_loc_err (fname, line) (match r2 with SErr e => e | SOk _ => perr_to_serr full pe2 end)))
   end).
Proof.
  intros fuel env sk fname o pending ts s im ic gs1 v line gs3 pe full g ts0 gs2 pe2 Hpg Hn1 Hl Hres Hset Hpg2 Hn2 Hl2.
  destruct (parse_tokens_split gs1 fuel o pending ts _ _ Hpg Hn1) as [p' [t' [A B]]].
  rewrite B. clear B.
  destruct (consume env sk fname no_inc gs1 s im ic) as [s1 r1]. destruct r1 as [[im1 ic1]|e1]; [|reflexivity].
  remember (fuel - S (List.length gs1)) as f' eqn:Ef.
  assert (E : fuel - List.length gs1 = S f') by lia. rewrite E in *. clear E.
  rewrite parse_groups_S in A.
  destruct (parse_statement o p' t') as [[[[stmts ts1] pending1]|]|e] eqn:Hps; try discriminate.
  destruct (parse_groups f' o pending1 ts1) as [gs' e'] eqn:Hpg3. inversion A; subst stmts gs' e'. clear A.
  rewrite parse_tokens_S, Hps.
  rewrite resolve_group_other by (intros; discriminate). rewrite resolve_group_nil.
  rewrite C14_include_step. unfold inc_of. rewrite Hres, Hset.
  rewrite (C16_stream_eq f' env sk full (f_oracle g) false ts0 s1 [] [] gs2 (Some pe2) Hpg2 Hn2 Hl2).
  destruct (consume env sk full no_inc gs2 s1 [] []) as [s2 r2].
  destruct r2 as [[im2 ic2]|e2]; cbv beta iota; rewrite with_loc_SErr; reflexivity.
Qed.

(* ================================================================== *)
(* concrete instances: depth 2, failure in the innermost file         *)
(* ================================================================== *)
(* main.gin: f.x = 1 / include 'a.gin' / f.y = 3        a.gin: f.x = 2 / include 'c.gin'
   c.gin:    f.y = 7 / f.z = 1      -- f has no parameter z: a semantic error (ValueError) at c.gin:2
   applied: f.x=1, f.x=2, f.y=7; NOT applied: f.y=3.   chain: c.gin:2, then a.gin:2, then main.gin:2 *)
Module C16DeepExample.
  Import C14Example C14DeepExample.
  Definition f_main : gfile :=
    {| f_tokens := bind_line 1 "x" "1" ++ inc_line 2 "'a.gin'" ++ bind_line 3 "y" "3" ++ [tk ENDMARKER "" 4 0 0];
       f_oracle := orc |}.
  Definition f_a : gfile :=
    {| f_tokens := bind_line 1 "x" "2" ++ inc_line 2 "'c.gin'" ++ [tk ENDMARKER "" 3 0 0]; f_oracle := orc |}.
  Definition f_c : gfile :=
    {| f_tokens := bind_line 1 "y" "7" ++ bind_line 2 "z" "1" ++ [tk ENDMARKER "" 3 0 0]; f_oracle := orc |}.
  Definition env : fenv :=
    {| e_files := [((0, "main.gin"), f_main); ((0, "a.gin"), f_a); ((0, "c.gin"), f_c)];
       e_readers := [0]; e_prefixes := [""]; e_modules := []; e_mod_regs := [] |}.
  Definition gs_main : list (list stmt) :=
    [[SBind "" "f" "x" (OZ 1) 1]; [SInclude (OT "str" [OS "a.gin"]) 2]; [SBind "" "f" "y" (OZ 3) 3]].
  Definition tagged : list tgroup :=
    [("main.gin", [], [SBind "" "f" "x" (OZ 1) 1]);
     ("a.gin", [("main.gin", 2)], [SBind "" "f" "x" (OZ 2) 1]);
     ("c.gin", [("a.gin", 2); ("main.gin", 2)], [SBind "" "f" "y" (OZ 7) 1]);
     ("c.gin", [("a.gin", 2); ("main.gin", 2)], [SBind "" "f" "z" (OZ 1) 2]);
     ("main.gin", [], [SBind "" "f" "y" (OZ 3) 3])].

  (* the hypotheses of C16_failed_parse_with_includes_is_prefix / C16_stream_eq_with_includes / ..._located hold *)
  Example hyps :
    parse_groups 60 (f_oracle f_main) false (f_tokens f_main) = (gs_main, None) /\ List.length gs_main < 60 /\
    flatten_both 60 env gs_main = Some (map tg_stmts tagged, [INode "a.gin" [] [INode "c.gin" [] []]]) /\
    flatten_px 60 env "main.gin" gs_main None = Some (tagged, None).
  Proof. repeat split; try (vm_compute; reflexivity). vm_compute. lia. Qed.

  Example real_run :
    (let '(s, r) := parse_config_file env SkFalse "main.gin" ex_s in (t_store s, r)) =
    ([(("", "f"), [("x", OZ 2); ("y", OZ 7)])],
     SErr (SEOther "ValueError" [("c.gin", 2); ("a.gin", 2); ("main.gin", 2)])).
  Proof. vm_compute. reflexivity. Qed.
  Example tagged_run :
    (let '(s, r) := run_tagged env SkFalse tagged None ex_s in (t_store s, r)) =
    ([(("", "f"), [("x", OZ 2); ("y", OZ 7)])],
     Some (SEOther "ValueError" [("c.gin", 2); ("a.gin", 2); ("main.gin", 2)])).
  Proof. vm_compute. reflexivity. Qed.

  (* (3): the innermost file has a SYNTAX error instead:  d.gin: f.y = 7 / = 3 ;  e.gin: f.x = 2 / include 'd.gin' *)
  Definition orc2 : oracle := orc ++ [("'d.gin'", Some (OT "str" [OS "d.gin"])); ("'e.gin'", Some (OT "str" [OS "e.gin"]))].
  Definition f_d : gfile :=
    {| f_tokens := bind_line 1 "y" "7" ++ [tk OP "=" 2 0 1; tk NUMBER "3" 2 2 3; tk NEWLINE nlc 2 3 4; tk ENDMARKER "" 3 0 0];
       f_oracle := orc2 |}.
  Definition f_e : gfile :=
    {| f_tokens := bind_line 1 "x" "2" ++ inc_line 2 "'d.gin'" ++ [tk ENDMARKER "" 3 0 0]; f_oracle := orc2 |}.
  Definition f_main2 : gfile :=
    {| f_tokens := bind_line 1 "x" "1" ++ inc_line 2 "'e.gin'" ++ bind_line 3 "y" "3" ++ [tk ENDMARKER "" 4 0 0];
       f_oracle := orc2 |}.
  Definition env2 : fenv :=
    {| e_files := [((0, "main.gin"), f_main2); ((0, "e.gin"), f_e); ((0, "d.gin"), f_d)];
       e_readers := [0]; e_prefixes := [""]; e_modules := []; e_mod_regs := [] |}.
  Definition gs_main2 : list (list stmt) :=
    [[SBind "" "f" "x" (OZ 1) 1]; [SInclude (OT "str" [OS "e.gin"]) 2]; [SBind "" "f" "y" (OZ 3) 3]].
  Definition tagged2 : list tgroup :=
    [("main.gin", [], [SBind "" "f" "x" (OZ 1) 1]);
     ("e.gin", [("main.gin", 2)], [SBind "" "f" "x" (OZ 2) 1]);
     ("d.gin", [("e.gin", 2); ("main.gin", 2)], [SBind "" "f" "y" (OZ 7) 1])].
  Example hyps_syntax :
    parse_groups 60 (f_oracle f_main2) false (f_tokens f_main2) = (gs_main2, None) /\
    parse_groups 58 (f_oracle f_d) false (f_tokens f_d) = ([[SBind "" "f" "y" (OZ 7) 1]], Some (ESyntax 2)) /\
    flatten_both 60 env2 gs_main2 = None /\
    flatten_px 60 env2 "main.gin" gs_main2 None = Some (tagged2, Some (SESyntax "d.gin" 2)).
  Proof. repeat split; vm_compute; reflexivity. Qed.
  Example real_run_syntax :
    (let '(s, r) := parse_config_file env2 SkFalse "main.gin" ex_s in (t_store s, r)) =
    ([(("", "f"), [("x", OZ 2); ("y", OZ 7)])], SErr (SESyntax "d.gin" 2)).
  Proof. vm_compute. reflexivity. Qed.
End C16DeepExample.

(* ---------- the code before the repair lost imports that had taken effect (fix e251e03) ---------- *)
(* text:   import mod          (mod is importable: the statement takes effect)
           nosuch.a = 1        (unknown configurable: the parse fails here)
   and the same text as b.gin, included by  include 'b.gin' *)
Module C16OrigImports.
  Definition tk (t : ttype) (x : string) (r c e : nat) : token :=
    {| ty := t; text := x; srow := r; scol := c; erow := r; ecol := e |}.
  Definition nlc : string := String (Ascii.ascii_of_nat 10) "".
  Definition text : gfile :=
    {| f_tokens := [tk NAME "import" 1 0 6; tk NAME "mod" 1 7 10; tk NEWLINE nlc 1 10 11;
                    tk NAME "nosuch" 2 0 6; tk OP "." 2 6 7; tk NAME "a" 2 7 8; tk OP "=" 2 9 10;
                    tk NUMBER "1" 2 11 12; tk NEWLINE nlc 2 12 13; tk ENDMARKER "" 3 0 0];
       f_oracle := [("1", Some (OZ 1))] |}.
  Definition outer : gfile :=
    {| f_tokens := [tk NAME "include" 1 0 7; tk STRING "'b.gin'" 1 8 15; tk NEWLINE nlc 1 15 16; tk ENDMARKER "" 2 0 0];
       f_oracle := [("'b.gin'", Some (OT "str" [OS "b.gin"]))] |}.
  Definition env : fenv :=
    {| e_files := [((0, "b.gin"), text)]; e_readers := [0]; e_prefixes := [""]; e_modules := ["mod"]; e_mod_regs := [] |}.
  Definition s0 : tstate := init_tstate [] [].
  Definition err : serr := SEOther "ValueError" [("", 2)].
  Definition err_in : serr := SEOther "ValueError" [("b.gin", 2); ("", 1)].

  (* the text is the two statements *)
  Example statements :
    settle (f_tokens text) = POk (f_tokens text) /\
    parse_groups 60 (f_oracle text) false (f_tokens text) =
      ([[SImport "mod" false None 1]; [SBind "" "nosuch" "a" (OZ 1) 2]], None).
  Proof. split; vm_compute; reflexivity. Qed.
  (* before the repair: the same error, and NOTHING recorded of the import that took effect *)
  Example orig_loses :
    (let '(s, r) := parse_config_orig env SkFalse "" text s0 in (t_imports s, r)) = ([], SErr err) /\
    (let '(s, r) := parse_config_orig env SkFalse "" outer s0 in (t_imports s, r)) = ([], SErr err_in).
  Proof. split; vm_compute; reflexivity. Qed.
  (* the repaired code *)
  Example repaired_records :
    (let '(s, r) := parse_config env SkFalse "" text s0 in (t_imports s, r)) = (["mod"], SErr err) /\
    (let '(s, r) := parse_config env SkFalse "" outer s0 in (t_imports s, r)) = (["mod"], SErr err_in).
  Proof. split; vm_compute; reflexivity. Qed.
  (* on a parse that succeeds the two agree *)
  Example agree_on_success :
    let ok := {| f_tokens := firstn 3 (f_tokens text) ++ [tk ENDMARKER "" 2 0 0]; f_oracle := [] |} in
    (let '(s, r) := parse_config_orig env SkFalse "" ok s0 in (t_imports s, r)) = (["mod"], SOk (["mod"], [])) /\
    (let '(s, r) := parse_config env SkFalse "" ok s0 in (t_imports s, r)) = (["mod"], SOk (["mod"], [])).
  Proof. split; vm_compute; reflexivity. Qed.
End C16OrigImports.

(* the original code violated "a failed parse records the imports of the statements that took effect": after
   `import mod` / `nosuch.a = 1` (as a bindings string, and as an included file) it had recorded nothing *)
Theorem C16_orig_failed_parse_loses_imports :
  parse_groups 60 (f_oracle C16OrigImports.text) false (f_tokens C16OrigImports.text) =
    ([[SImport "mod" false None 1]; [SBind "" "nosuch" "a" (OZ 1) 2]], None) /\
  (* old model: the error, t_imports unchanged (empty) *)
  (let '(s, r) := parse_config_orig C16OrigImports.env SkFalse "" C16OrigImports.text C16OrigImports.s0 in (t_imports s, r))
    = (t_imports C16OrigImports.s0, SErr (SEOther "ValueError" [("", 2)])) /\
  (let '(s, r) := parse_config_orig C16OrigImports.env SkFalse "" C16OrigImports.outer C16OrigImports.s0 in (t_imports s, r))
    = (t_imports C16OrigImports.s0, SErr (SEOther "ValueError" [("b.gin", 2); ("", 1)])) /\
  (* new model: the same errors, and the import is recorded *)
  (let '(s, r) := parse_config C16OrigImports.env SkFalse "" C16OrigImports.text C16OrigImports.s0 in (t_imports s, r))
    = (t_imports C16OrigImports.s0 ++ ["mod"], SErr (SEOther "ValueError" [("", 2)])) /\
  (let '(s, r) := parse_config C16OrigImports.env SkFalse "" C16OrigImports.outer C16OrigImports.s0 in (t_imports s, r))
    = (t_imports C16OrigImports.s0 ++ ["mod"], SErr (SEOther "ValueError" [("b.gin", 2); ("", 1)])).
Proof. repeat split; vm_compute; reflexivity. Qed.

Print Assumptions C16_failed_parse_with_includes_is_prefix.
Print Assumptions apply_stmts_sim_eq.
Print Assumptions wrap_chain_other.
Print Assumptions wrap_chain_syntax.
Print Assumptions C16_stream_eq_with_includes_gen.
Print Assumptions C16_failed_parse_with_includes_records_imports.
Print Assumptions C16_stream_eq_with_includes.
Print Assumptions C16_parse_config_file_with_includes.
Print Assumptions flatten_px_of_flatten_both.
Print Assumptions flatten_px_noinc.
Print Assumptions flatten_px_chain_top.
Print Assumptions apply_one_err_loc.
Print Assumptions C16_failed_parse_with_includes_located.
Print Assumptions C16_syntax_error_in_include_one_level.
Print Assumptions C16_orig_failed_parse_loses_imports.
Print Assumptions C16DeepExample.hyps.
Print Assumptions C16DeepExample.real_run.
Print Assumptions C16DeepExample.hyps_syntax.
Print Assumptions C16DeepExample.real_run_syntax.
