(* C02 soundness: whenever the model parser returns a value, the tokens it consumed
   ARE a rendering of a tree of the literal grammar whose Python value is the value
   returned ("text that is not such a literal never yields some other value"). *)
From Coq Require Import List String ZArith Bool Arith Lia Ascii.
From GinV Require Import Lib.Out Lib.PyStr Model.Parser Model.ParserSpec.
From GinV Require Import Proofs.ParserLemmas Proofs.ParserSmall Proofs.ParserProofs.
Import ListNotations. Open Scope string_scope. Open Scope list_scope.

(* ------------------------------------------------------------------ *)
(* what the parser skips: COMMENT / NL (and INDENT / DEDENT outside blocks), and the
   blank ERRORTOKENs dropped by _advance_one_token *)
Definition blank_err (t : token) : Prop :=
  ty t = ERRORTOKEN /\ (text t = " " \/ text t = String (ascii_of_nat 9) "" \/ text t = "").
Definition skippable (wb : bool) (t : token) : Prop := In (ty t) (ws_types wb) \/ blank_err t.

Lemma settle_inv : forall ts ts', settle ts = POk ts' ->
  exists bl, ts = bl ++ ts' /\ Forall blank_err bl.
Proof.
  induction ts as [|a r IH]; intros ts' H; cbn [settle] in H; [discriminate|].
  destruct (ty a) eqn:Ety;
    try (injection H as <-; exists []; split; [reflexivity | constructor]).
  - destruct (String.eqb (text a) " " || String.eqb (text a) (String (ascii_of_nat 9) "")
              || String.eqb (text a) "") eqn:Eb.
    + destruct (IH _ H) as [bl [E Hb]]. exists (a :: bl). split.
      * cbn [app]. rewrite <- E. reflexivity.
      * constructor; [|exact Hb]. split; [exact Ety|].
        apply orb_true_iff in Eb. destruct Eb as [Eb|Eb].
        -- apply orb_true_iff in Eb. destruct Eb as [Eb|Eb]; apply String.eqb_eq in Eb; tauto.
        -- apply String.eqb_eq in Eb; tauto.
    + injection H as <-. exists []. split; [reflexivity | constructor].
  - destruct (String.eqb (text a) "TokenError"); discriminate.
Qed.

Lemma skip_inv : forall fuel types ts ts', skip fuel types ts = POk ts' ->
  exists tr, ts = tr ++ ts' /\ Forall (fun t => in_types (ty t) types = true \/ blank_err t) tr.
Proof.
  induction fuel as [|f IH]; intros types ts ts' H.
  - cbn [skip] in H. injection H as <-. exists []. split; [reflexivity | constructor].
  - rewrite skip_S in H. destruct (in_types (ty (cur ts)) types) eqn:Et.
    + destruct (advance_one ts) as [ts1|e] eqn:Ea; [|discriminate].
      destruct ts as [|a r]; [cbn in Ea; discriminate|]. cbn [advance_one] in Ea.
      destruct (settle_inv _ _ Ea) as [bl [E1 Hbl]]. destruct (IH _ _ _ H) as [tr [E2 Htr]].
      exists (a :: bl ++ tr). split.
      * rewrite E1, E2. cbn [app]. rewrite <- app_assoc. reflexivity.
      * constructor; [left; exact Et|]. apply Forall_app. split; [|exact Htr].
        eapply Forall_impl; [|exact Hbl]. intros x Hx. right. exact Hx.
    + injection H as <-. exists []. split; [reflexivity | constructor].
Qed.

Lemma advance_inv : forall wb ts ts', advance wb ts = POk ts' ->
  exists x tr, ts = x :: tr ++ ts' /\ Forall (skippable wb) tr.
Proof.
  intros wb ts ts' H. unfold advance in H.
  destruct (advance_one ts) as [ts1|e] eqn:Ea; [|discriminate].
  destruct ts as [|a r]; [cbn in Ea; discriminate|]. cbn [advance_one] in Ea.
  destruct (settle_inv _ _ Ea) as [bl [E1 Hbl]].
  unfold skip_ws in H. destruct (skip_inv _ _ _ _ H) as [tr [E2 Htr]].
  exists a, (bl ++ tr). split.
  - rewrite E1, E2. rewrite <- app_assoc. reflexivity.
  - apply Forall_app. split.
    + eapply Forall_impl; [|exact Hbl]. intros x Hx. right. exact Hx.
    + eapply Forall_impl; [|exact Htr]. intros x [Hx|Hx]; [left|right; exact Hx].
      apply in_types_true. exact Hx.
Qed.

(* ------------------------------------------------------------------ *)
(* render only looks at the layout between its start and end counters *)
Definition RP (l : lit) : Prop := forall lay1 n inside toks n',
  render l lay1 n inside = (toks, n') ->
  n <= n' /\ forall lay2, (forall k, k < n' -> lay1 k = lay2 k) -> render l lay2 n inside = (toks, n').

Lemma render_strs_loc : forall ts trf1 n toks n', render_strs trf1 ts n = (toks, n') ->
  n <= n' /\ forall trf2, (forall k, k < n' -> trf1 k = trf2 k) -> render_strs trf2 ts n = (toks, n').
Proof.
  induction ts as [|t r IH]; intros trf1 n toks n' H.
  - cbn [render_strs] in H. injection H as <- <-. split; [lia|]. intros; reflexivity.
  - apply render_strs_cons in H. destruct H as [toks1 [H1 ->]]. destruct (IH _ _ _ _ H1) as [Hm He].
    split; [lia|]. intros trf2 Hag. cbn [render_strs]. rewrite (He trf2 Hag).
    rewrite (Hag n) by lia. reflexivity.
Qed.

Lemma render_items_last : forall lay trailing x n tx nx,
  render x lay n true = (tx, nx) ->
  render_items lay trailing [x] n = (tx ++ (if trailing then op_tok "," :: lay nx else []), S nx).
Proof. intros lay trailing x n tx nx H. cbn [render_items]. rewrite H. reflexivity. Qed.

Lemma render_items_more : forall lay trailing x r n tx nx rb n1,
  r <> [] -> render x lay n true = (tx, nx) -> render_items lay trailing r (S nx) = (rb, n1) ->
  render_items lay trailing (x :: r) n = (tx ++ op_tok "," :: lay nx ++ rb, n1).
Proof.
  intros lay trailing x r n tx nx rb n1 Hne H1 H2. destruct r as [|y r']; [congruence|].
  change (render_items lay trailing (x :: y :: r') n) with
    (let '(tx, n1) := render x lay n true in
     let '(rest, n2) := render_items lay trailing (y :: r') (S n1) in
     (tx ++ [op_tok ","] ++ lay n1 ++ rest, n2)).
  rewrite H1, H2. reflexivity.
Qed.

Lemma render_ditems_last : forall lay trailing k v n tk n1 tv n2,
  render k lay n true = (tk, n1) -> render v lay (S n1) true = (tv, n2) ->
  render_ditems lay trailing [(k, v)] n =
    ((tk ++ op_tok ":" :: lay n1 ++ tv) ++ (if trailing then op_tok "," :: lay n2 else []), S n2).
Proof. intros lay trailing k v n tk n1 tv n2 H1 H2. cbn [render_ditems]. rewrite H1, H2. reflexivity. Qed.

Lemma render_ditems_more : forall lay trailing k v r n tk n1 tv n2 rb n3,
  r <> [] -> render k lay n true = (tk, n1) -> render v lay (S n1) true = (tv, n2) ->
  render_ditems lay trailing r (S n2) = (rb, n3) ->
  render_ditems lay trailing ((k, v) :: r) n = ((tk ++ op_tok ":" :: lay n1 ++ tv) ++ op_tok "," :: lay n2 ++ rb, n3).
Proof.
  intros lay trailing k v r n tk n1 tv n2 rb n3 Hne H1 H2 H3. destruct r as [|y r']; [congruence|].
  change (render_ditems lay trailing ((k, v) :: y :: r') n) with
    (let '(tk, n1) := render k lay n true in
     let '(tv, n2) := render v lay (S n1) true in
     let '(rest, n3) := render_ditems lay trailing (y :: r') (S n2) in
     ((tk ++ [op_tok ":"] ++ lay n1 ++ tv) ++ [op_tok ","] ++ lay n2 ++ rest, n3)).
  rewrite H1, H2, H3. reflexivity.
Qed.

Lemma render_items_loc : forall items, Forall RP items -> forall trailing lay1 n body n1,
  render_items lay1 trailing items n = (body, n1) ->
  n <= n1 /\ forall lay2, (forall k, k < n1 -> lay1 k = lay2 k) ->
                          render_items lay2 trailing items n = (body, n1).
Proof.
  intros items HP. induction HP as [|x r HPx HPr IH]; intros trailing lay1 n body n1 H.
  - cbn [render_items] in H. injection H as <- <-. split; [lia|]. intros; reflexivity.
  - destruct (render_items_cons _ _ _ _ _ _ _ H) as [tx [nx [Hrx Hc]]].
    destruct (HPx _ _ _ _ _ Hrx) as [Hm He].
    destruct Hc as [[-> [-> ->]]|[Hne [rb [Hrb ->]]]].
    + split; [lia|]. intros lay2 Hag.
      rewrite (render_items_last lay2 trailing x n tx nx) by (apply He; intros; apply Hag; lia).
      rewrite (Hag nx) by lia. reflexivity.
    + destruct (IH _ _ _ _ _ Hrb) as [Hm2 He2]. split; [lia|]. intros lay2 Hag.
      rewrite (render_items_more lay2 trailing x r n tx nx rb n1 Hne).
      * rewrite (Hag nx) by lia. reflexivity.
      * apply He. intros; apply Hag; lia.
      * apply He2. exact Hag.
Qed.

Lemma render_ditems_loc : forall items, Forall (fun kv => RP (fst kv) /\ RP (snd kv)) items ->
  forall trailing lay1 n body n1,
  render_ditems lay1 trailing items n = (body, n1) ->
  n <= n1 /\ forall lay2, (forall k, k < n1 -> lay1 k = lay2 k) ->
                          render_ditems lay2 trailing items n = (body, n1).
Proof.
  intros items HP. induction HP as [|[k v] r HPx HPr IH]; intros trailing lay1 n body n1 H.
  - cbn [render_ditems] in H. injection H as <- <-. split; [lia|]. intros; reflexivity.
  - destruct HPx as [HPk HPv]. cbn [fst snd] in HPk, HPv.
    destruct (render_ditems_cons _ _ _ _ _ _ _ _ H) as [tk [n2 [tv [n3 [Hrk [Hrv Hc]]]]]].
    destruct (HPk _ _ _ _ _ Hrk) as [Hmk Hek]. destruct (HPv _ _ _ _ _ Hrv) as [Hmv Hev].
    destruct Hc as [[-> [-> ->]]|[Hne [rb [Hrb ->]]]].
    + split; [lia|]. intros lay2 Hag.
      rewrite (render_ditems_last lay2 trailing k v n tk n2 tv n3).
      * rewrite (Hag n2), (Hag n3) by lia. reflexivity.
      * apply Hek. intros; apply Hag; lia.
      * apply Hev. intros; apply Hag; lia.
    + destruct (IH _ _ _ _ _ Hrb) as [Hm2 He2]. split; [lia|]. intros lay2 Hag.
      rewrite (render_ditems_more lay2 trailing k v r n tk n2 tv n3 rb n1 Hne).
      * rewrite (Hag n2), (Hag n3) by lia. reflexivity.
      * apply Hek. intros; apply Hag; lia.
      * apply Hev. intros; apply Hag; lia.
      * apply He2. exact Hag.
Qed.

Lemma render_loc : forall l, RP l.
Proof.
  induction l using lit_ind'; unfold RP; intros lay1 n inside toks n' Hr.
  - cbn [render] in Hr. injection Hr as <- <-. split; [lia|]. intros lay2 Hag. cbn [render].
    rewrite (Hag n), (Hag (S n)) by lia. reflexivity.
  - rewrite render_LStrs in Hr. destruct (render_strs_loc _ _ _ _ _ Hr) as [Hm He]. split; [exact Hm|].
    intros lay2 Hag. rewrite render_LStrs. apply He. intros k Hk. destruct inside; [apply Hag; exact Hk | reflexivity].
  - rewrite render_LList in Hr. destruct (render_items lay1 trailing items (S n)) as [body n1] eqn:Hb.
    injection Hr as <- <-. destruct (render_items_loc _ H _ _ _ _ _ Hb) as [Hm He]. split; [lia|].
    intros lay2 Hag. rewrite render_LList. rewrite (He lay2) by (intros; apply Hag; lia).
    rewrite (Hag n), (Hag n1) by lia. reflexivity.
  - rewrite render_LTuple in Hr. destruct (render_items lay1 trailing items (S n)) as [body n1] eqn:Hb.
    injection Hr as <- <-. destruct (render_items_loc _ H _ _ _ _ _ Hb) as [Hm He]. split; [lia|].
    intros lay2 Hag. rewrite render_LTuple. rewrite (He lay2) by (intros; apply Hag; lia).
    rewrite (Hag n), (Hag n1) by lia. reflexivity.
  - rewrite render_LParen in Hr. destruct (render l lay1 (S n) true) as [tx n1] eqn:Hb.
    injection Hr as <- <-. destruct (IHl _ _ _ _ _ Hb) as [Hm He]. split; [lia|].
    intros lay2 Hag. rewrite render_LParen. rewrite (He lay2) by (intros; apply Hag; lia).
    rewrite (Hag n), (Hag n1) by lia. reflexivity.
  - rewrite render_LDict in Hr. destruct (render_ditems lay1 trailing items (S n)) as [body n1] eqn:Hb.
    injection Hr as <- <-. destruct (render_ditems_loc _ H _ _ _ _ _ Hb) as [Hm He]. split; [lia|].
    intros lay2 Hag. rewrite render_LDict. rewrite (He lay2) by (intros; apply Hag; lia).
    rewrite (Hag n), (Hag n1) by lia. reflexivity.
Qed.

Lemma render_mono : forall l lay n inside toks n', render l lay n inside = (toks, n') -> n <= n'.
Proof. intros l lay n inside toks n' H. exact (proj1 (render_loc l _ _ _ _ _ H)). Qed.
Lemma render_ext : forall l lay1 lay2 n inside toks n', render l lay1 n inside = (toks, n') ->
  (forall k, k < n' -> lay1 k = lay2 k) -> render l lay2 n inside = (toks, n').
Proof. intros l lay1 lay2 n inside toks n' H Hag. exact (proj2 (render_loc l _ _ _ _ _ H) lay2 Hag). Qed.

Lemma Forall_true : forall {A} (P : A -> Prop) l, (forall x, P x) -> Forall P l.
Proof. intros A P l H. induction l; constructor; auto. Qed.

Lemma render_items_mono : forall lay trailing items n body n1,
  render_items lay trailing items n = (body, n1) -> n <= n1.
Proof.
  intros lay trailing items n body n1 H.
  exact (proj1 (render_items_loc items (Forall_true _ _ render_loc) _ _ _ _ _ H)).
Qed.
Lemma render_items_ext : forall lay1 lay2 trailing items n body n1,
  render_items lay1 trailing items n = (body, n1) -> (forall k, k < n1 -> lay1 k = lay2 k) ->
  render_items lay2 trailing items n = (body, n1).
Proof.
  intros lay1 lay2 trailing items n body n1 H Hag.
  exact (proj2 (render_items_loc items (Forall_true _ _ render_loc) _ _ _ _ _ H) lay2 Hag).
Qed.
Lemma render_ditems_mono : forall lay trailing items n body n1,
  render_ditems lay trailing items n = (body, n1) -> n <= n1.
Proof.
  intros lay trailing items n body n1 H.
  refine (proj1 (render_ditems_loc items (Forall_true _ _ _) _ _ _ _ _ H)).
  intro kv; split; apply render_loc.
Qed.
Lemma render_ditems_ext : forall lay1 lay2 trailing items n body n1,
  render_ditems lay1 trailing items n = (body, n1) -> (forall k, k < n1 -> lay1 k = lay2 k) ->
  render_ditems lay2 trailing items n = (body, n1).
Proof.
  intros lay1 lay2 trailing items n body n1 H Hag.
  refine (proj2 (render_ditems_loc items (Forall_true _ _ _) _ _ _ _ _ H) lay2 Hag).
  intro kv; split; apply render_loc.
Qed.

(* updating one slot of a layout *)
Definition upd (lay : layout) (k : nat) (s : list token) : layout :=
  fun j => if Nat.eqb j k then s else lay j.
Lemma upd_same : forall lay k s, upd lay k s k = s.
Proof. intros. unfold upd. rewrite Nat.eqb_refl. reflexivity. Qed.
Lemma upd_other : forall lay k s j, j <> k -> upd lay k s j = lay j.
Proof. intros lay k s j H. unfold upd. apply Nat.eqb_neq in H. rewrite H. reflexivity. Qed.

(* ------------------------------------------------------------------ *)
(* rendered punctuation is the canonical op_tok; the consumed punctuation token may carry
   any positions (the parser only looks at its text) *)
Definition punct (s : string) : Prop := In s ["-"; "["; "]"; "("; ")"; "{"; "}"; ","; ":"].
Definition tok_sim (a b : token) : Prop := a = b \/ (a = op_tok (text b) /\ punct (text b)).

Lemma sim_refl : forall l, Forall2 tok_sim l l.
Proof. induction l; constructor; [left; reflexivity | assumption]. Qed.
Lemma sim_punct : forall s c, text c = s -> punct s -> tok_sim (op_tok s) c.
Proof. intros s c E H. right. rewrite E. split; [reflexivity | exact H]. Qed.
Lemma cur_is_text : forall c r s, cur_is (c :: r) s = true -> text c = s.
Proof. intros c r s H. unfold cur_is in H. cbn [cur hd] in H. apply String.eqb_eq. exact H. Qed.

Lemma closer_inv : forall s c, closer s = Some c ->
  (s = "{" /\ c = "}") \/ (s = "(" /\ c = ")") \/ (s = "[" /\ c = "]").
Proof.
  intros s c H. unfold closer in H.
  destruct (String.eqb_spec s "{"); [injection H as <-; tauto|].
  destruct (String.eqb_spec s "("); [injection H as <-; tauto|].
  destruct (String.eqb_spec s "["); [injection H as <-; tauto|]. discriminate.
Qed.

Section Sound.
Variable o : oracle.
Variable wb : bool.
Variable G : token -> Prop.

(* per-token side conditions: not a reference / macro sigil; atoms are not spelled like
   punctuation (as in completeness); the oracle never evaluates "-" + a string literal *)
Definition base_ok (t : token) : Prop :=
  text t <> "@" /\ text t <> "%" /\ tok_ok t /\
  (ty t = STRING -> forall v, olookup o ("-" ++ text t) <> Some (Some v)).
Hypothesis G_base : forall t, G t -> base_ok t.

Definition slot_ok (t : token) : Prop := skippable wb t /\ G t.
Definition lay_good (lay : layout) : Prop := forall k, Forall slot_ok (lay k).

Lemma upd_good : forall lay k s, lay_good lay -> Forall slot_ok s -> lay_good (upd lay k s).
Proof.
  intros lay k s Hl Hs j. unfold upd. destruct (Nat.eqb j k); [exact Hs | apply Hl].
Qed.

Lemma advance_inv_G : forall ts ts', advance wb ts = POk ts' -> Forall G ts ->
  exists x tr, ts = x :: tr ++ ts' /\ Forall slot_ok tr /\ G x /\ Forall G ts'.
Proof.
  intros ts ts' H HG. destruct (advance_inv _ _ _ H) as [x [tr [E Htr]]].
  exists x, tr. rewrite E in HG. pose proof (Forall_inv HG) as Hx. apply Forall_inv_tail in HG.
  apply Forall_app in HG. destruct HG as [HGtr HGts].
  repeat split; try assumption.
  clear - Htr HGtr. induction tr; constructor.
  - split; [exact (Forall_inv Htr) | exact (Forall_inv HGtr)].
  - apply IHtr; [exact (Forall_inv_tail HGtr) | exact (Forall_inv_tail Htr)].
Qed.

Lemma G_suffix : forall a b, Forall G (a ++ b) -> Forall G b.
Proof. intros a b H. apply Forall_app in H. tauto. Qed.

Lemma G_no_sigil : forall ts, Forall G ts -> cur_is ts "@" = false /\ cur_is ts "%" = false.
Proof.
  intros [|t r] H; [split; reflexivity|].
  destruct (G_base _ (Forall_inv H)) as [H1 [H2 _]].
  unfold cur_is. cbn [cur hd]. split; apply String.eqb_neq; assumption.
Qed.

(* ---- atoms ---- *)
Lemma atom_inv : forall fuel ts acc v rest,
  basic_loop fuel o wb ts acc = POk (v, rest) -> cur_ty ts STRING = false -> Forall G ts ->
  exists x tr, ts = x :: tr ++ rest /\ Forall slot_ok tr /\ G x /\
               olookup o (acc_next acc (text x)) = Some (Some v).
Proof.
  intros [|f] ts acc v rest H Hs HG; [cbn [basic_loop] in H; discriminate|].
  rewrite basic_loop_S in H. cbv zeta in H.
  destruct (olookup o (acc_next acc (text (cur ts)))) as [[v1|]|] eqn:El;
    [| unfold syntax_here in H; discriminate | discriminate].
  destruct (advance wb ts) as [ts1|e] eqn:Ea; [|discriminate].
  rewrite Hs in H. cbn [andb] in H. injection H as <- <-.
  destruct (advance_inv_G _ _ Ea HG) as [x [tr [E [Htr [Hx _]]]]].
  exists x, tr. rewrite E in El. cbn [cur hd] in El. repeat split; assumption.
Qed.

Lemma strs_inv : forall fuel ts acc v rest,
  basic_loop fuel o wb ts acc = POk (v, rest) -> cur_ty ts STRING = true -> Forall G ts ->
  forall n lay0, lay_good lay0 ->
  exists strs lay n' used,
    Forall (fun t => ty t = STRING) strs /\ (exists more, strs = cur ts :: more) /\
    Forall (fun p => exists v', olookup o (fold_acc acc p) = Some (Some v')) (prefixes_ne strs) /\
    olookup o (fold_acc acc strs) = Some (Some v) /\
    ts = used ++ rest /\ render_strs lay strs n = (used, n') /\
    lay_good lay /\ (forall k, k < n -> lay k = lay0 k).
Proof.
  induction fuel as [|f IH]; intros ts acc v rest H Hs HG n lay0 Hl0; [cbn [basic_loop] in H; discriminate|].
  rewrite basic_loop_S in H. cbv zeta in H.
  destruct (olookup o (acc_next acc (text (cur ts)))) as [[v1|]|] eqn:El;
    [| unfold syntax_here in H; discriminate | discriminate].
  destruct (advance wb ts) as [ts1|e] eqn:Ea; [|discriminate].
  rewrite Hs in H. cbn [andb] in H.
  destruct (advance_inv_G _ _ Ea HG) as [x [tr [E [Htr [Hx HG1]]]]].
  assert (Ex : cur ts = x) by (rewrite E; reflexivity).
  assert (Hxs : ty x = STRING).
  { unfold cur_ty in Hs. rewrite Ex in Hs. apply ttype_eqb_eq. exact Hs. }
  rewrite Ex in *.
  destruct (cur_ty ts1 STRING) eqn:E1.
  - destruct (IH _ _ _ _ H E1 HG1 (S n) (upd lay0 n tr) (upd_good _ _ _ Hl0 Htr))
      as [strs [lay [n' [used [Hst [[more Em] [Hpre [Hv [Eu [Hr [Hg Hag]]]]]]]]]]].
    exists (x :: strs), lay, n', (x :: tr ++ used).
    split; [constructor; assumption|]. split; [exists strs; reflexivity|].
    split.
    { cbn [prefixes_ne]. constructor.
      - exists v1. exact El.
      - rewrite Forall_map. exact Hpre. }
    split; [exact Hv|]. split; [rewrite E, Eu; cbn [app]; rewrite <- app_assoc; reflexivity|].
    split.
    { cbn [render_strs]. rewrite Hr. rewrite (Hag n) by lia. rewrite upd_same. reflexivity. }
    split; [exact Hg|]. intros k Hk. rewrite (Hag k) by lia. apply upd_other. lia.
  - injection H as <- <-.
    exists [x], (upd lay0 n tr), (S n), (x :: tr).
    split; [constructor; [exact Hxs | constructor]|]. split; [exists []; reflexivity|].
    split; [cbn [prefixes_ne map]; constructor; [exists v1; exact El | constructor]|].
    split; [exact El|]. split; [exact E|].
    split; [cbn [render_strs]; rewrite upd_same, app_nil_r; reflexivity|].
    split; [apply upd_good; assumption|]. intros k Hk. apply upd_other. lia.
Qed.

(* ---- the statement proved by induction on the fuel ---- *)
Definition SoundAt (f : nat) : Prop := forall ts v rest,
  parse_value f o wb ts = POk (v, rest) -> Forall G ts ->
  forall n lay0, lay_good lay0 ->
  exists l lay n' toks used,
    lit_wf o l /\ py_eval o l = Some v /\
    ts = used ++ rest /\ render l lay n true = (toks, n') /\ Forall2 tok_sim toks used /\
    lay_good lay /\ (forall k, k < n -> lay k = lay0 k).

Lemma comma_punct : punct ",". Proof. unfold punct. cbn. tauto. Qed.
Lemma colon_punct : punct ":". Proof. unfold punct. cbn. tauto. Qed.

Lemma loop_items_inv : forall f close, SoundAt f ->
  forall fuel ts vals pairs sc vals' pairs' sc' ts',
  pv_loop f o wb close false fuel ts vals pairs sc = POk (vals', pairs', sc', ts') -> Forall G ts ->
  forall n lay0, lay_good lay0 ->
  exists items trailing vs lay n1 body used,
    Forall (lit_wf o) items /\ eval_items o items = Some vs /\ vals' = vals ++ vs /\ pairs' = pairs /\
    sc' = sc || has_comma items trailing /\ (items = [] -> trailing = false) /\
    cur_is ts' close = true /\
    ts = used ++ ts' /\ render_items lay trailing items n = (body, n1) /\ Forall2 tok_sim body used /\
    lay_good lay /\ (forall k, k < n -> lay k = lay0 k).
Proof.
  intros f close HS. induction fuel as [|k IH];
    intros ts vals pairs sc vals' pairs' sc' ts' H HG n lay0 Hl0; [cbn [pv_loop] in H; discriminate|].
  rewrite pv_loop_S in H. destruct (cur_is ts close) eqn:Ecl.
  - injection H as <- <- <- <-.
    exists [], false, [], lay0, n, [], [].
    rewrite app_nil_r, orb_false_r. cbn [has_comma]. repeat split; try reflexivity; try assumption; constructor.
  - cbv beta iota zeta in H.
    destruct (parse_value f o wb ts) as [[v1 ts1]|e] eqn:Ev; [|discriminate].
    destruct (HS _ _ _ Ev HG n lay0 Hl0)
      as [lx [lay1 [nx [tx [ux [Hwx [Hex [E1 [Hr1 [Hs1 [Hg1 Ha1]]]]]]]]]]].
    pose proof (render_mono _ _ _ _ _ _ Hr1) as Hm1.
    assert (HG1 : Forall G ts1) by (rewrite E1 in HG; exact (G_suffix _ _ HG)).
    destruct (cur_is ts1 ",") eqn:Ecomma.
    + destruct (advance wb ts1) as [ts2|e] eqn:Ea; [|discriminate].
      destruct (advance_inv_G _ _ Ea HG1) as [c [tr [E2 [Htr [_ HG2]]]]].
      assert (Ec : text c = ",") by (rewrite E2 in Ecomma; exact (cur_is_text _ _ _ Ecomma)).
      destruct (IH _ _ _ _ _ _ _ _ H HG2 (S nx) (upd lay1 nx tr) (upd_good _ _ _ Hg1 Htr))
        as [items [trailing [vs [lay2 [n1 [body [used
             [Hwf [Hev [Evals [Epairs [Esc [Htr0 [Hcl [E3 [Hrb [Hsb [Hg2 Ha2]]]]]]]]]]]]]]]]]].
      assert (Hrx2 : render lx lay2 n true = (tx, nx)).
      { apply (render_ext _ _ _ _ _ _ _ Hr1). intros j Hj. rewrite (Ha2 j) by lia.
        symmetry. apply upd_other. lia. }
      assert (Hnx : lay2 nx = tr) by (rewrite (Ha2 nx) by lia; apply upd_same).
      assert (Hag : forall j, j < n -> lay2 j = lay0 j).
      { intros j Hj. rewrite (Ha2 j) by lia. rewrite upd_other by lia. apply Ha1. exact Hj. }
      destruct items as [|y r'].
      * cbn [render_items] in Hrb. injection Hrb as <- <-. inversion Hsb; subst used.
        cbn [eval_items] in Hev. injection Hev as <-.
        exists [lx], true, [v1], lay2, (S nx), (tx ++ op_tok "," :: tr), (ux ++ c :: tr).
        split; [constructor; [exact Hwx | constructor]|].
        split; [cbn [eval_items]; rewrite Hex; reflexivity|].
        split; [rewrite Evals, app_nil_r; reflexivity|]. split; [exact Epairs|].
        split; [rewrite Esc; cbn [has_comma]; rewrite orb_true_r; reflexivity|].
        split; [discriminate|]. split; [exact Hcl|].
        split; [rewrite E1, E2, E3; norm; reflexivity|].
        split; [rewrite (render_items_last lay2 true lx n tx nx Hrx2), Hnx; reflexivity|].
        split; [apply Forall2_app; [exact Hs1|]; constructor;
                [exact (sim_punct _ _ Ec comma_punct) | apply sim_refl]|].
        split; assumption.
      * exists (lx :: y :: r'), trailing, (v1 :: vs), lay2, n1, (tx ++ op_tok "," :: tr ++ body),
               (ux ++ c :: tr ++ used).
        split; [constructor; assumption|].
        split; [cbn [eval_items] in *; rewrite Hex, Hev; reflexivity|].
        split; [rewrite Evals, <- app_assoc; reflexivity|]. split; [exact Epairs|].
        split; [rewrite Esc; cbn [has_comma]; rewrite !orb_true_r; reflexivity|].
        split; [discriminate|]. split; [exact Hcl|].
        split; [rewrite E1, E2, E3; norm; reflexivity|].
        split; [rewrite (render_items_more lay2 trailing lx (y :: r') n tx nx body n1 ltac:(discriminate) Hrx2 Hrb), Hnx;
                reflexivity|].
        split; [apply Forall2_app; [exact Hs1|]; constructor;
                [exact (sim_punct _ _ Ec comma_punct) | apply Forall2_app; [apply sim_refl | exact Hsb]]|].
        split; assumption.
    + destruct (cur_is ts1 close) eqn:Ecl1; cbn [negb] in H; [|unfold syntax_here in H; discriminate].
      destruct k as [|k']; [cbn [pv_loop] in H; discriminate|].
      rewrite pv_loop_S in H. rewrite Ecl1 in H. injection H as <- <- <- <-.
      exists [lx], false, [v1], lay1, (S nx), (tx ++ []), ux.
      split; [constructor; [exact Hwx | constructor]|].
      split; [cbn [eval_items]; rewrite Hex; reflexivity|].
      split; [reflexivity|]. split; [reflexivity|].
      split; [cbn [has_comma]; rewrite orb_false_r; reflexivity|].
      split; [discriminate|]. split; [exact Ecl1|]. split; [exact E1|].
      split; [exact (render_items_last lay1 false lx n tx nx Hr1)|].
      split; [rewrite app_nil_r; exact Hs1|].
      split; assumption.
Qed.

Lemma loop_ditems_inv : forall f close, SoundAt f ->
  forall fuel ts vals pairs sc vals' pairs' sc' ts',
  pv_loop f o wb close true fuel ts vals pairs sc = POk (vals', pairs', sc', ts') -> Forall G ts ->
  forall n lay0, lay_good lay0 ->
  exists items trailing kvs lay n1 body used,
    Forall (fun kv => lit_wf o (fst kv) /\ lit_wf o (snd kv)) items /\
    eval_ditems o items = Some kvs /\ vals' = vals ++ map snd kvs /\ pairs' = pairs ++ kvs /\
    sc' = sc || has_comma items trailing /\ (items = [] -> trailing = false) /\
    cur_is ts' close = true /\
    ts = used ++ ts' /\ render_ditems lay trailing items n = (body, n1) /\ Forall2 tok_sim body used /\
    lay_good lay /\ (forall k, k < n -> lay k = lay0 k).
Proof.
  intros f close HS. induction fuel as [|k IH];
    intros ts vals pairs sc vals' pairs' sc' ts' H HG n lay0 Hl0; [cbn [pv_loop] in H; discriminate|].
  rewrite pv_loop_S in H. destruct (cur_is ts close) eqn:Ecl.
  - injection H as <- <- <- <-.
    exists [], false, [], lay0, n, [], [].
    cbn [map]. rewrite !app_nil_r, orb_false_r. cbn [has_comma].
    repeat split; try reflexivity; try assumption; constructor.
  - cbv beta iota zeta in H.
    destruct (parse_value f o wb ts) as [[k1 ts1]|e] eqn:Ek; [|discriminate].
    destruct (cur_is ts1 ":") eqn:Ecol; cbn [negb] in H; [|unfold syntax_here in H; discriminate].
    destruct (advance wb ts1) as [ts2|e] eqn:Eac; [|discriminate].
    destruct (parse_value f o wb ts2) as [[v1 ts3]|e] eqn:Ev; [|discriminate].
    (* key *)
    destruct (HS _ _ _ Ek HG n lay0 Hl0)
      as [lk [lay1 [n2 [tk [uk [Hwk [Hek [E1 [Hr1 [Hs1 [Hg1 Ha1]]]]]]]]]]].
    pose proof (render_mono _ _ _ _ _ _ Hr1) as Hm1.
    assert (HG1 : Forall G ts1) by (rewrite E1 in HG; exact (G_suffix _ _ HG)).
    destruct (advance_inv_G _ _ Eac HG1) as [cc [trc [E2 [Htrc [_ HG2]]]]].
    assert (Ecc : text cc = ":") by (rewrite E2 in Ecol; exact (cur_is_text _ _ _ Ecol)).
    (* value *)
    destruct (HS _ _ _ Ev HG2 (S n2) (upd lay1 n2 trc) (upd_good _ _ _ Hg1 Htrc))
      as [lv [lay2 [n3 [tv [uv [Hwv [Hev [E3 [Hr2 [Hs2 [Hg2 Ha2]]]]]]]]]]].
    pose proof (render_mono _ _ _ _ _ _ Hr2) as Hm2.
    assert (HG3 : Forall G ts3) by (rewrite E3 in HG2; exact (G_suffix _ _ HG2)).
    assert (Hrk2 : render lk lay2 n true = (tk, n2)).
    { apply (render_ext _ _ _ _ _ _ _ Hr1). intros j Hj. rewrite (Ha2 j) by lia.
      symmetry. apply upd_other. lia. }
    assert (Hn2 : lay2 n2 = trc) by (rewrite (Ha2 n2) by lia; apply upd_same).
    assert (Hag2 : forall j, j < n -> lay2 j = lay0 j).
    { intros j Hj. rewrite (Ha2 j) by lia. rewrite upd_other by lia. apply Ha1. exact Hj. }
    destruct (cur_is ts3 ",") eqn:Ecomma.
    + destruct (advance wb ts3) as [ts4|e] eqn:Ea; [|discriminate].
      destruct (advance_inv_G _ _ Ea HG3) as [c [tr [E4 [Htr [_ HG4]]]]].
      assert (Ec : text c = ",") by (rewrite E4 in Ecomma; exact (cur_is_text _ _ _ Ecomma)).
      destruct (IH _ _ _ _ _ _ _ _ H HG4 (S n3) (upd lay2 n3 tr) (upd_good _ _ _ Hg2 Htr))
        as [items [trailing [kvs [lay3 [n1 [body [used
             [Hwf [Hevs [Evals [Epairs [Esc [Htr0 [Hcl [E5 [Hrb [Hsb [Hg3 Ha3]]]]]]]]]]]]]]]]]].
      assert (Hrk3 : render lk lay3 n true = (tk, n2)).
      { apply (render_ext _ _ _ _ _ _ _ Hrk2). intros j Hj. rewrite (Ha3 j) by lia.
        symmetry. apply upd_other. lia. }
      assert (Hrv3 : render lv lay3 (S n2) true = (tv, n3)).
      { apply (render_ext _ _ _ _ _ _ _ Hr2). intros j Hj. rewrite (Ha3 j) by lia.
        symmetry. apply upd_other. lia. }
      assert (Hn2' : lay3 n2 = trc) by (rewrite (Ha3 n2) by lia; rewrite upd_other by lia; exact Hn2).
      assert (Hn3 : lay3 n3 = tr) by (rewrite (Ha3 n3) by lia; apply upd_same).
      assert (Hag : forall j, j < n -> lay3 j = lay0 j).
      { intros j Hj. rewrite (Ha3 j) by lia. rewrite upd_other by lia. apply Hag2. exact Hj. }
      assert (Hsim : Forall2 tok_sim (tk ++ op_tok ":" :: trc ++ tv) (uk ++ cc :: trc ++ uv)).
      { apply Forall2_app; [exact Hs1|]. constructor; [exact (sim_punct _ _ Ecc colon_punct)|].
        apply Forall2_app; [apply sim_refl | exact Hs2]. }
      destruct items as [|y r'].
      * cbn [render_ditems] in Hrb. injection Hrb as <- <-. inversion Hsb; subst used.
        cbn [eval_ditems] in Hevs. injection Hevs as <-.
        exists [(lk, lv)], true, [(k1, v1)], lay3, (S n3),
               ((tk ++ op_tok ":" :: trc ++ tv) ++ op_tok "," :: tr), ((uk ++ cc :: trc ++ uv) ++ c :: tr).
        split; [constructor; [split; assumption | constructor]|].
        split; [cbn [eval_ditems]; rewrite Hek, Hev; reflexivity|].
        split; [rewrite Evals; cbn [map snd]; rewrite app_nil_r; reflexivity|].
        split; [rewrite Epairs, app_nil_r; reflexivity|].
        split; [rewrite Esc; cbn [has_comma]; rewrite orb_true_r; reflexivity|].
        split; [discriminate|]. split; [exact Hcl|].
        split; [rewrite E1, E2, E3, E4, E5; norm; reflexivity|].
        split; [rewrite (render_ditems_last lay3 true lk lv n tk n2 tv n3 Hrk3 Hrv3), Hn2', Hn3; reflexivity|].
        split; [apply Forall2_app; [exact Hsim|]; constructor;
                [exact (sim_punct _ _ Ec comma_punct) | apply sim_refl]|].
        split; assumption.
      * exists ((lk, lv) :: y :: r'), trailing, ((k1, v1) :: kvs), lay3, n1,
               ((tk ++ op_tok ":" :: trc ++ tv) ++ op_tok "," :: tr ++ body),
               ((uk ++ cc :: trc ++ uv) ++ c :: tr ++ used).
        split; [constructor; [split; assumption | assumption]|].
        split; [change (eval_ditems o ((lk, lv) :: y :: r')) with
                  (match py_eval o lk, py_eval o lv, eval_ditems o (y :: r') with
                   | Some a, Some b, Some rest => Some ((a, b) :: rest) | _, _, _ => None end);
                rewrite Hek, Hev, Hevs; reflexivity|].
        split; [rewrite Evals; cbn [map snd]; rewrite <- app_assoc; reflexivity|].
        split; [rewrite Epairs, <- app_assoc; reflexivity|].
        split; [rewrite Esc; cbn [has_comma]; rewrite !orb_true_r; reflexivity|].
        split; [discriminate|]. split; [exact Hcl|].
        split; [rewrite E1, E2, E3, E4, E5; norm; reflexivity|].
        split; [rewrite (render_ditems_more lay3 trailing lk lv (y :: r') n tk n2 tv n3 body n1
                           ltac:(discriminate) Hrk3 Hrv3 Hrb), Hn2', Hn3; reflexivity|].
        split; [apply Forall2_app; [exact Hsim|]; constructor;
                [exact (sim_punct _ _ Ec comma_punct) | apply Forall2_app; [apply sim_refl | exact Hsb]]|].
        split; assumption.
    + destruct (cur_is ts3 close) eqn:Ecl1; cbn [negb] in H; [|unfold syntax_here in H; discriminate].
      destruct k as [|k']; [cbn [pv_loop] in H; discriminate|].
      rewrite pv_loop_S in H. rewrite Ecl1 in H. injection H as <- <- <- <-.
      exists [(lk, lv)], false, [(k1, v1)], lay2, (S n3), ((tk ++ op_tok ":" :: trc ++ tv) ++ []), (uk ++ cc :: trc ++ uv).
      split; [constructor; [split; assumption | constructor]|].
      split; [cbn [eval_ditems]; rewrite Hek, Hev; reflexivity|].
      split; [reflexivity|]. split; [reflexivity|].
      split; [cbn [has_comma]; rewrite orb_false_r; reflexivity|].
      split; [discriminate|]. split; [exact Ecl1|].
      split; [rewrite E1, E2, E3; norm; reflexivity|].
      split; [rewrite (render_ditems_last lay2 false lk lv n tk n2 tv n3 Hrk2 Hr2), Hn2; reflexivity|].
      split; [rewrite app_nil_r; apply Forall2_app; [exact Hs1|]; constructor;
              [exact (sim_punct _ _ Ecc colon_punct) | apply Forall2_app; [apply sim_refl | exact Hs2]]|].
      split; assumption.
Qed.

(* ---- building well-formed trees ---- *)
Lemma lit_wf_LList_intro : forall items trailing, Forall (lit_wf o) items -> lit_wf o (LList items trailing).
Proof.
  intros items trailing H. cbn [lit_wf]. induction H as [|x r Hx Hr IH]; [exact I | split; assumption].
Qed.
Lemma lit_wf_LTuple_intro : forall items trailing, Forall (lit_wf o) items ->
  (List.length items = 1 -> trailing = true) -> (items = [] -> trailing = false) ->
  lit_wf o (LTuple items trailing).
Proof.
  intros items trailing H H1 H2. cbn [lit_wf]. split; [exact H1|]. split; [exact H2|].
  clear H1 H2. induction H as [|x r Hx Hr IH]; [exact I | split; assumption].
Qed.
Lemma lit_wf_LDict_intro : forall items trailing,
  Forall (fun kv => lit_wf o (fst kv) /\ lit_wf o (snd kv)) items -> lit_wf o (LDict items trailing).
Proof.
  intros items trailing H. cbn [lit_wf]. induction H as [|[k v] r [Hk Hv] Hr IH]; [exact I|].
  cbn [fst snd] in Hk, Hv. split; [exact Hk|]. split; assumption.
Qed.

(* layout bookkeeping for a bracketed construct: slot n after the opener, slot n1 after the closer *)
Lemma wrap_layout : forall lay0 lay1 n n1 tr0 tr1,
  lay_good lay1 -> (forall k, k < S n -> lay1 k = upd lay0 n tr0 k) -> S n <= n1 -> Forall slot_ok tr1 ->
  lay_good (upd lay1 n1 tr1) /\ upd lay1 n1 tr1 n = tr0 /\ upd lay1 n1 tr1 n1 = tr1 /\
  (forall k, k < n1 -> lay1 k = upd lay1 n1 tr1 k) /\ (forall k, k < n -> upd lay1 n1 tr1 k = lay0 k).
Proof.
  intros lay0 lay1 n n1 tr0 tr1 Hg Ha Hm Htr.
  split; [apply upd_good; assumption|].
  split; [rewrite upd_other by lia; rewrite (Ha n) by lia; apply upd_same|].
  split; [apply upd_same|].
  split; [intros k Hk; symmetry; apply upd_other; lia|].
  intros k Hk. rewrite upd_other by lia. rewrite (Ha k) by lia. apply upd_other. lia.
Qed.

Lemma open_punct : forall s c, closer s = Some c -> punct s /\ punct c.
Proof.
  intros s c H. destruct (closer_inv _ _ H) as [[-> ->]|[[-> ->]|[-> ->]]]; unfold punct; cbn; tauto.
Qed.

Lemma container_split : forall f ts close v rest,
  closer (text (cur ts)) = Some close -> parse_value (S f) o wb ts = POk (v, rest) -> Forall G ts ->
  exists t0 tr0 ts1 vals pairs sc ts2,
    ts = t0 :: tr0 ++ ts1 /\ closer (text t0) = Some close /\ Forall slot_ok tr0 /\ Forall G ts1 /\
    pv_loop f o wb close (String.eqb (text t0) "{") (S (List.length ts1)) ts1 [] [] false
      = POk (vals, pairs, sc, ts2) /\
    advance wb ts2 = POk rest /\ v = container_value (text t0) vals pairs sc /\
    String.eqb (text t0) "{" && negb (keys_hashable pairs) = false.
Proof.
  intros f ts close v rest Hc H HG.
  rewrite (parse_value_container f o wb ts close Hc) in H.
  destruct (advance wb ts) as [ts1|e] eqn:Ea0; [|discriminate].
  destruct (advance_inv_G _ _ Ea0 HG) as [t0 [tr0 [E0 [Htr0 [_ HG1]]]]].
  assert (Et0 : cur ts = t0) by (rewrite E0; reflexivity). rewrite Et0 in H, Hc.
  destruct (pv_loop f o wb close (String.eqb (text t0) "{") (S (List.length ts1)) ts1 [] [] false)
    as [[[[vals pairs] sc] ts2]|e] eqn:El; [|discriminate].
  destruct (advance wb ts2) as [ts3|e] eqn:Ea2; [|discriminate].
  destruct (String.eqb (text t0) "{" && negb (keys_hashable pairs)) eqn:Hhash; [discriminate|].
  injection H as <- <-.
  exists t0, tr0, ts1, vals, pairs, sc, ts2. repeat split; assumption.
Qed.

Lemma closer_tail : forall ts2 close rest, cur_is ts2 close = true -> advance wb ts2 = POk rest ->
  Forall G ts2 -> exists c tr1, ts2 = c :: tr1 ++ rest /\ text c = close /\ Forall slot_ok tr1.
Proof.
  intros ts2 close rest Hcl Ha HG. destruct (advance_inv_G _ _ Ha HG) as [c [tr1 [E [Htr _]]]].
  exists c, tr1. split; [exact E|]. split; [|exact Htr]. rewrite E in Hcl. exact (cur_is_text _ _ _ Hcl).
Qed.

Lemma sound_container : forall f, SoundAt f -> forall ts close v rest,
  closer (text (cur ts)) = Some close -> parse_value (S f) o wb ts = POk (v, rest) -> Forall G ts ->
  forall n lay0, lay_good lay0 ->
  exists l lay n' toks used,
    lit_wf o l /\ py_eval o l = Some v /\
    ts = used ++ rest /\ render l lay n true = (toks, n') /\ Forall2 tok_sim toks used /\
    lay_good lay /\ (forall k, k < n -> lay k = lay0 k).
Proof.
  intros f HS ts close v rest Hc H HG n lay0 Hl0.
  destruct (container_split _ _ _ _ _ Hc H HG)
    as [t0 [tr0 [ts1 [vals [pairs [sc [ts2 [E0 [Hc0 [Htr0 [HG1 [El [Ea2 [Ev Hhash]]]]]]]]]]]]]].
  destruct (open_punct _ _ Hc0) as [Hpo Hpc].
  pose proof (upd_good _ n _ Hl0 Htr0) as Hl0'.
  destruct (closer_inv _ _ Hc0) as [[Eo ->]|[[Eo ->]|[Eo ->]]]; rewrite Eo in El, Ev, Hpo, Hhash.
  - (* dict *)
    change (String.eqb "{" "{") with true in El.
    destruct (loop_ditems_inv f "}" HS _ _ _ _ _ _ _ _ _ El HG1 (S n) _ Hl0')
      as [items [trailing [kvs [lay1 [n1 [body [used
           [Hwf [Hevs [Evals [Epairs [Esc [Htz [Hcl [E1 [Hrb [Hsb [Hg1 Ha1]]]]]]]]]]]]]]]]]].
    assert (HG2 : Forall G ts2) by (rewrite E1 in HG1; exact (G_suffix _ _ HG1)).
    destruct (closer_tail _ _ _ Hcl Ea2 HG2) as [c [tr1 [E2 [Ec Htr1]]]].
    pose proof (render_ditems_mono _ _ _ _ _ _ Hrb) as Hm.
    destruct (wrap_layout lay0 lay1 n n1 tr0 tr1 Hg1 Ha1 Hm Htr1) as [Hg [Hn [Hn1 [Hag1 Hag0]]]].
    exists (LDict items trailing), (upd lay1 n1 tr1), (S n1),
           (op_tok "{" :: tr0 ++ body ++ op_tok "}" :: tr1), (t0 :: tr0 ++ used ++ c :: tr1).
    split; [apply lit_wf_LDict_intro; exact Hwf|].
    assert (Hhk : keys_hashable kvs = true).
    { rewrite Epairs in Hhash. cbn [app] in Hhash. change (String.eqb "{" "{") with true in Hhash.
      cbn [andb] in Hhash. apply negb_false_iff in Hhash. exact Hhash. }
    split; [rewrite py_eval_LDict, Hevs, Hhk, Ev, Epairs; reflexivity|].
    split; [rewrite E0, E1, E2; norm; reflexivity|].
    split; [rewrite render_LDict, (render_ditems_ext _ _ _ _ _ _ _ Hrb Hag1), Hn, Hn1; reflexivity|].
    split; [constructor; [exact (sim_punct _ _ Eo Hpo)|]; apply Forall2_app; [apply sim_refl|];
            apply Forall2_app; [exact Hsb|]; constructor; [exact (sim_punct _ _ Ec Hpc) | apply sim_refl]|].
    split; assumption.
  - (* ( ... ) *)
    change (String.eqb "(" "{") with false in El.
    destruct (loop_items_inv f ")" HS _ _ _ _ _ _ _ _ _ El HG1 (S n) _ Hl0')
      as [items [trailing [vs [lay1 [n1 [body [used
           [Hwf [Hevs [Evals [Epairs [Esc [Htz [Hcl [E1 [Hrb [Hsb [Hg1 Ha1]]]]]]]]]]]]]]]]]].
    assert (HG2 : Forall G ts2) by (rewrite E1 in HG1; exact (G_suffix _ _ HG1)).
    destruct (closer_tail _ _ _ Hcl Ea2 HG2) as [c [tr1 [E2 [Ec Htr1]]]].
    pose proof (render_items_mono _ _ _ _ _ _ Hrb) as Hm.
    cbn [app orb] in Evals, Esc. subst vals sc.
    assert (Hsim : forall bd, Forall2 tok_sim bd used ->
              Forall2 tok_sim (op_tok "(" :: tr0 ++ bd ++ op_tok ")" :: tr1) (t0 :: tr0 ++ used ++ c :: tr1)).
    { intros bd Hbd. constructor; [exact (sim_punct _ _ Eo Hpo)|]. apply Forall2_app; [apply sim_refl|].
      apply Forall2_app; [exact Hbd|]. constructor; [exact (sim_punct _ _ Ec Hpc) | apply sim_refl]. }
    assert (Htuple : (List.length items = 1 -> trailing = true) ->
              container_value "(" vs pairs (has_comma items trailing) = OT "T" vs ->
              exists l lay n' toks used0,
                lit_wf o l /\ py_eval o l = Some v /\ ts = used0 ++ rest /\
                render l lay n true = (toks, n') /\ Forall2 tok_sim toks used0 /\
                lay_good lay /\ (forall k, k < n -> lay k = lay0 k)).
    { intros Hone Hval.
      destruct (wrap_layout lay0 lay1 n n1 tr0 tr1 Hg1 Ha1 Hm Htr1) as [Hg [Hn [Hn1 [Hag1 Hag0]]]].
      exists (LTuple items trailing), (upd lay1 n1 tr1), (S n1),
             (op_tok "(" :: tr0 ++ body ++ op_tok ")" :: tr1), (t0 :: tr0 ++ used ++ c :: tr1).
      split; [apply lit_wf_LTuple_intro; assumption|].
      split; [rewrite py_eval_LTuple, Hevs, Ev, Hval; reflexivity|].
      split; [rewrite E0, E1, E2; norm; reflexivity|].
      split; [rewrite render_LTuple, (render_items_ext _ _ _ _ _ _ _ Hrb Hag1), Hn, Hn1; reflexivity|].
      split; [exact (Hsim _ Hsb)|]. split; assumption. }
    pose proof (eval_items_length _ _ _ Hevs) as Hlen.
    destruct items as [|x [|y r]].
    + apply Htuple; [discriminate|]. destruct vs; [reflexivity | discriminate].
    + destruct vs as [|v0 [|? ?]]; try discriminate. destruct trailing.
      * apply Htuple; [reflexivity | reflexivity].
      * (* parenthesised value *)
        clear Htuple.
        destruct (render_items_cons _ _ _ _ _ _ _ Hrb) as [tx [nx [Hrx [[_ [Eb En1]]|[Hne _]]]]];
          [|congruence].
        subst n1. rewrite app_nil_r in Eb. subst body.
        pose proof (render_mono _ _ _ _ _ _ Hrx) as Hmx.
        destruct (wrap_layout lay0 lay1 n nx tr0 tr1 Hg1 Ha1 Hmx Htr1) as [Hg [Hn [Hn1 [Hag1 Hag0]]]].
        cbn [eval_items] in Hevs. destruct (py_eval o x) as [vx|] eqn:Evx; [|discriminate].
        injection Hevs as <-.
        exists (LParen x), (upd lay1 nx tr1), (S nx),
               (op_tok "(" :: tr0 ++ tx ++ op_tok ")" :: tr1), (t0 :: tr0 ++ used ++ c :: tr1).
        split; [exact (Forall_inv Hwf)|].
        split; [cbn [py_eval]; rewrite Evx, Ev; reflexivity|].
        split; [rewrite E0, E1, E2; norm; reflexivity|].
        split; [rewrite render_LParen, (render_ext _ _ _ _ _ _ _ Hrx Hag1), Hn, Hn1; reflexivity|].
        split; [exact (Hsim _ Hsb)|]. split; assumption.
    + apply Htuple; [discriminate|]. destruct vs as [|v0 [|v1 vs]]; try discriminate. reflexivity.
  - (* list *)
    change (String.eqb "[" "{") with false in El.
    destruct (loop_items_inv f "]" HS _ _ _ _ _ _ _ _ _ El HG1 (S n) _ Hl0')
      as [items [trailing [vs [lay1 [n1 [body [used
           [Hwf [Hevs [Evals [Epairs [Esc [Htz [Hcl [E1 [Hrb [Hsb [Hg1 Ha1]]]]]]]]]]]]]]]]]].
    assert (HG2 : Forall G ts2) by (rewrite E1 in HG1; exact (G_suffix _ _ HG1)).
    destruct (closer_tail _ _ _ Hcl Ea2 HG2) as [c [tr1 [E2 [Ec Htr1]]]].
    pose proof (render_items_mono _ _ _ _ _ _ Hrb) as Hm.
    destruct (wrap_layout lay0 lay1 n n1 tr0 tr1 Hg1 Ha1 Hm Htr1) as [Hg [Hn [Hn1 [Hag1 Hag0]]]].
    exists (LList items trailing), (upd lay1 n1 tr1), (S n1),
           (op_tok "[" :: tr0 ++ body ++ op_tok "]" :: tr1), (t0 :: tr0 ++ used ++ c :: tr1).
    split; [apply lit_wf_LList_intro; exact Hwf|].
    split; [rewrite py_eval_LList, Hevs, Ev, Evals; reflexivity|].
    split; [rewrite E0, E1, E2; norm; reflexivity|].
    split; [rewrite render_LList, (render_items_ext _ _ _ _ _ _ _ Hrb Hag1), Hn, Hn1; reflexivity|].
    split; [constructor; [exact (sim_punct _ _ Eo Hpo)|]; apply Forall2_app; [apply sim_refl|];
            apply Forall2_app; [exact Hsb|]; constructor; [exact (sim_punct _ _ Ec Hpc) | apply sim_refl]|].
    split; assumption.
Qed.

(* ---- atoms and string runs ---- *)
(* since the repair of the leading-minus defect, maybe_basic answers "not a basic type" only
   when nothing was consumed: the reference / macro parsers start at the value's first token *)
Lemma maybe_basic_none_plain : forall ts, maybe_basic o wb ts = POk None -> cur_is ts "-" = false.
Proof.
  intros ts Em. unfold maybe_basic in Em. destruct (cur_is ts "-"); [|reflexivity].
  destruct (advance wb ts) as [ts1|e]; [|discriminate].
  destruct (in_types (ty (cur ts1)) [NAME; NUMBER; STRING]); [|unfold syntax_here in Em; discriminate].
  destruct (basic_loop _ o wb ts1 "-"); discriminate.
Qed.

Lemma pv_basic_inv : forall f ts v rest,
  closer (text (cur ts)) = None -> parse_value (S f) o wb ts = POk (v, rest) -> Forall G ts ->
  maybe_basic o wb ts = POk (Some (v, rest)).
Proof.
  intros f ts v rest Hc H HG. cbn [parse_value] in H. rewrite Hc in H.
  destruct (maybe_basic o wb ts) as [[r|]|e] eqn:Em; [injection H as ->; reflexivity | | discriminate].
  exfalso. rewrite (maybe_basic_none_plain _ Em) in H.
  destruct (G_no_sigil _ HG) as [H1 H2]. rewrite H1, H2 in H. unfold syntax_here in H. discriminate.
Qed.

Lemma name_or_number : forall t, in_types (ty t) [NAME; NUMBER; STRING] = true ->
  ttype_eqb (ty t) STRING = false -> ty t = NAME \/ ty t = NUMBER.
Proof. intros t H1 H2. destruct (ty t); try discriminate; tauto. Qed.

Lemma sound_basic : forall f ts v rest,
  closer (text (cur ts)) = None -> parse_value (S f) o wb ts = POk (v, rest) -> Forall G ts ->
  forall n lay0, lay_good lay0 ->
  exists l lay n' toks used,
    lit_wf o l /\ py_eval o l = Some v /\
    ts = used ++ rest /\ render l lay n true = (toks, n') /\ Forall2 tok_sim toks used /\
    lay_good lay /\ (forall k, k < n -> lay k = lay0 k).
Proof.
  intros f ts v rest Hc H HG n lay0 Hl0.
  pose proof (pv_basic_inv _ _ _ _ Hc H HG) as Em. clear H.
  unfold maybe_basic in Em. destruct (cur_is ts "-") eqn:Eneg.
  - (* leading minus *)
    destruct (advance wb ts) as [ts1|e] eqn:Ea; [|discriminate].
    destruct (in_types (ty (cur ts1)) [NAME; NUMBER; STRING]) eqn:Ety; [|discriminate].
    destruct (basic_loop (S (List.length ts1)) o wb ts1 "-") as [r|e] eqn:Eb; [|discriminate].
    injection Em as ->.
    destruct (advance_inv_G _ _ Ea HG) as [m [tr [E0 [Htr [_ HG1]]]]].
    assert (Em : text m = "-") by (rewrite E0 in Eneg; exact (cur_is_text _ _ _ Eneg)).
    destruct (cur_ty ts1 STRING) eqn:Es.
    + (* "-" before a string: the oracle never evaluates that *)
      exfalso. rewrite basic_loop_S in Eb. cbv zeta in Eb.
      destruct ts1 as [|y r1]; [discriminate Es|].
      cbn [cur hd] in Eb. unfold cur_ty in Es. cbn [cur hd] in Es. apply ttype_eqb_eq in Es.
      destruct (G_base _ (Forall_inv HG1)) as [_ [_ [_ Hns]]].
      change (acc_next "-" (text y)) with ("-" ++ text y)%string in Eb.
      destruct (olookup o ("-" ++ text y)) as [[v1|]|] eqn:El;
        [exact (Hns Es v1 eq_refl) | unfold syntax_here in Eb; discriminate | discriminate].
    + destruct (atom_inv _ _ _ _ _ Eb Es HG1) as [y [tr2 [E1 [Htr2 [Gy Hv]]]]].
      assert (Hty : ty y = NAME \/ ty y = NUMBER).
      { rewrite E1 in Ety, Es. apply name_or_number; [exact Ety | exact Es]. }
      change (acc_next "-" (text y)) with ("-" ++ text y)%string in Hv.
      exists (LBasic true y), (upd (upd lay0 n tr) (S n) tr2), (S (S n)),
             (op_tok "-" :: tr ++ y :: tr2), (m :: tr ++ y :: tr2).
      split.
      { cbn [lit_wf]. split; [exact Hty|]. destruct (G_base _ Gy) as [_ [_ [Hok _]]].
        assert (Hto : text_ok (text y)) by (apply Hok; tauto). exact (proj1 (proj2 Hto)). }
      split; [cbn [py_eval]; rewrite Hv; reflexivity|].
      split; [rewrite E0, E1; norm; reflexivity|].
      split.
      { cbn [render]. rewrite upd_same. rewrite (upd_other _ (S n) _ n) by lia. rewrite upd_same.
        norm. reflexivity. }
      split; [constructor; [apply (sim_punct _ _ Em); unfold punct; cbn; tauto | apply sim_refl]|].
      split; [apply upd_good; [apply upd_good|]; assumption|].
      intros k Hk. rewrite !upd_other by lia. reflexivity.
  - destruct (in_types (ty (cur ts)) [NAME; NUMBER; STRING]) eqn:Ety; [|discriminate].
    destruct (basic_loop (S (List.length ts)) o wb ts "") as [r|e] eqn:Eb; [|discriminate].
    injection Em as ->.
    destruct (cur_ty ts STRING) eqn:Es.
    + (* a run of strings *)
      destruct (strs_inv _ _ _ _ _ Eb Es HG n lay0 Hl0)
        as [strs [lay [n' [used [Hst [[more Emore] [Hpre [Hv [Eu [Hr [Hg Hag]]]]]]]]]]].
      assert (Hcur : In (cur ts) ts).
      { destruct ts as [|a r]; [discriminate Es | left; reflexivity]. }
      rewrite Forall_forall in HG. destruct (G_base _ (HG _ Hcur)) as [_ [_ [Hok _]]].
      assert (Hto : text_ok (text (cur ts))).
      { apply Hok. right; right. unfold cur_ty in Es. apply ttype_eqb_eq. exact Es. }
      destruct Hto as [Hne1 [Hne2 _]].
      exists (LStrs strs), lay, n', used, used.
      split.
      { cbn [lit_wf]. split; [rewrite Emore; discriminate|]. split; [exact Hst|].
        rewrite Emore in *. apply Forall_forall. intros p Hp.
        destruct (prefixes_ne_head _ _ _ Hp) as [p' ->].
        rewrite <- (fold_acc_strs_text _ p' Hne1 Hne2).
        rewrite Forall_forall in Hpre. exact (Hpre _ Hp). }
      split.
      { cbn [py_eval]. rewrite Emore in *. rewrite <- (fold_acc_strs_text _ more Hne1 Hne2), Hv. reflexivity. }
      split; [exact Eu|]. split; [rewrite render_LStrs; exact Hr|].
      split; [apply sim_refl|]. split; assumption.
    + destruct (atom_inv _ _ _ _ _ Eb Es HG) as [y [tr2 [E1 [Htr2 [Gy Hv]]]]].
      assert (Hty : ty y = NAME \/ ty y = NUMBER).
      { rewrite E1 in Ety, Es. apply name_or_number; [exact Ety | exact Es]. }
      change (acc_next "" (text y)) with (text y) in Hv.
      exists (LBasic false y), (upd lay0 (S n) tr2), (S (S n)), (y :: tr2), (y :: tr2).
      split.
      { cbn [lit_wf]. split; [exact Hty|]. rewrite E1 in Eneg. unfold cur_is in Eneg. cbn [cur hd] in Eneg.
        apply String.eqb_neq. exact Eneg. }
      split; [cbn [py_eval]; change ("" ++ text y)%string with (text y); rewrite Hv; reflexivity|].
      split; [exact E1|].
      split; [cbn [render]; rewrite upd_same; reflexivity|].
      split; [apply sim_refl|].
      split; [apply upd_good; assumption|].
      intros k Hk. rewrite upd_other by lia. reflexivity.
Qed.

Theorem sound_all : forall f, SoundAt f.
Proof.
  induction f as [|f IH]; intros ts v rest H HG n lay0 Hl0; [cbn [parse_value] in H; discriminate|].
  destruct (closer (text (cur ts))) as [close|] eqn:Hc.
  - exact (sound_container f IH ts close v rest Hc H HG n lay0 Hl0).
  - exact (sound_basic f ts v rest Hc H HG n lay0 Hl0).
Qed.

End Sound.

(* ================================================================== *)
(* Top-level statements *)

(* side conditions on the token stream (all per token, hence inherited by every suffix):
   no "@" / "%" sigil (references and macros are not literals), atoms are not spelled like
   punctuation (the tok_ok of completeness), and the oracle -- a table of ast.literal_eval
   results -- has no value for "-" followed by a string literal (Python has none).
   After the repair of the leading-minus defect the sigil clause is STILL needed (a value whose
   first token is "@" / "%" is read as a reference / macro: ex_ref, ex_macro below), but it now
   only ever matters for the FIRST token of a value (value_first_token below): "-@x" is
   rejected by the parser itself (minus_needs_number), no longer by this hypothesis.  The
   oracle clause is still needed: "-" + STRING still reaches the oracle (ex_neg_string). *)
Definition lit_tok (o : oracle) (t : token) : Prop := base_ok o t.

(* GENERAL FORM, no assumption on token kinds or positions: the consumed tokens are a rendering
   of a well-formed tree whose Python value is the value returned, up to
   - punctuation tokens being compared by text (render emits the canonical op_tok, the
     parser only looks at the text), and
   - the layout slots holding whatever the parser skips (COMMENT / NL, INDENT / DEDENT
     when not within a block, blank ERRORTOKENs). *)
Theorem C02_sound_gen : forall fuel o wb ts v rest n,
  parse_value fuel o wb ts = POk (v, rest) ->
  Forall (lit_tok o) ts ->
  exists l lay n' toks used,
    lit_wf o l /\ py_eval o l = Some v /\
    ts = used ++ rest /\ render l lay n true = (toks, n') /\ Forall2 tok_sim toks used /\
    (forall k, Forall (skippable wb) (lay k)).
Proof.
  intros fuel o wb ts v rest n H Hts.
  destruct (sound_all o wb (lit_tok o) (fun t Ht => Ht) fuel ts v rest H Hts n (fun _ => []))
    as [l [lay [n' [toks [used [Hwf [Hev [E [Hr [Hs [Hg _]]]]]]]]]]].
  { intro k. constructor. }
  exists l, lay, n', toks, used. repeat split; try assumption.
  intro k. eapply Forall_impl; [|exact (Hg k)]. intros t [Ht _]. exact Ht.
Qed.
Print Assumptions C02_sound_gen.

(* EXACT FORM: when the stream has no ERRORTOKEN (and, outside a block, no INDENT / DEDENT) and its
   punctuation tokens are the canonical ones that render emits, the consumed tokens are
   literally a rendering in a layout of NL / COMMENT tokens. *)
Definition plain_tok (wb : bool) (t : token) : Prop :=
  ty t <> ERRORTOKEN /\ (wb = false -> ty t <> INDENT /\ ty t <> DEDENT).
Definition canon_punct (t : token) : Prop := punct (text t) -> t = op_tok (text t).

Lemma sim_canon : forall a b, Forall2 tok_sim a b -> Forall canon_punct b -> a = b.
Proof.
  intros a b H. induction H as [|x y a b Hxy Hab IH]; intro Hc; [reflexivity|].
  rewrite (IH (Forall_inv_tail Hc)). f_equal.
  destruct Hxy as [->|[-> Hp]]; [reflexivity|]. symmetry. exact (Forall_inv Hc Hp).
Qed.

Lemma skippable_plain : forall wb t, skippable wb t -> plain_tok wb t -> trivia_tok t.
Proof.
  intros wb t [Hs|[He _]] [Hne Hid]; [|contradiction].
  unfold trivia_tok. destruct wb; cbn [ws_types In] in Hs.
  - destruct Hs as [Hs|[Hs|[]]]; rewrite <- Hs; tauto.
  - destruct (Hid eq_refl) as [Hi Hd].
    destruct Hs as [Hs|[Hs|[Hs|[Hs|[]]]]]; try (rewrite <- Hs; tauto); congruence.
Qed.

Theorem C02_sound_strong : forall fuel o wb ts v rest n,
  parse_value fuel o wb ts = POk (v, rest) ->
  Forall (lit_tok o) ts -> Forall (plain_tok wb) ts -> Forall canon_punct ts ->
  exists l lay toks n',
    lay_ok lay /\ lit_wf o l /\ py_eval o l = Some v /\
    render l lay n true = (toks, n') /\ ts = toks ++ rest.
Proof.
  intros fuel o wb ts v rest n H Hts Hpl Hcn.
  assert (HG : Forall (fun t => lit_tok o t /\ plain_tok wb t) ts).
  { apply Forall_forall. intros t Ht. rewrite Forall_forall in Hts, Hpl. split; auto. }
  destruct (sound_all o wb (fun t => lit_tok o t /\ plain_tok wb t) (fun t Ht => proj1 Ht)
              fuel ts v rest H HG n (fun _ => []))
    as [l [lay [n' [toks [used [Hwf [Hev [E [Hr [Hs [Hg _]]]]]]]]]]].
  { intro k. constructor. }
  exists l, lay, toks, n'.
  assert (Eq : toks = used).
  { apply sim_canon; [exact Hs|]. rewrite E in Hcn. apply Forall_app in Hcn. tauto. }
  split.
  { intro k. eapply Forall_impl; [|exact (Hg k)]. intros t [Hsk [_ Hp]].
    exact (skippable_plain _ _ Hsk Hp). }
  repeat split; try assumption. rewrite Eq. exact E.
Qed.
Print Assumptions C02_sound_strong.

(* the target shape *)
Theorem C02_sound : forall fuel o wb ts v rest,
  parse_value fuel o wb ts = POk (v, rest) ->
  Forall (lit_tok o) ts -> Forall (plain_tok wb) ts -> Forall canon_punct ts ->
  exists l lay n inside toks n' tr,
    lay_ok lay /\ lit_wf o l /\ py_eval o l = Some v /\ render l lay n inside = (toks, n') /\
    Forall trivia_tok tr /\ ts = toks ++ tr ++ rest.
Proof.
  intros fuel o wb ts v rest H H1 H2 H3.
  destruct (C02_sound_strong fuel o wb ts v rest 0 H H1 H2 H3) as [l [lay [toks [n' [A [B [C [D E]]]]]]]].
  exists l, lay, 0, true, toks, n', []. repeat split; try assumption. constructor.
Qed.
Print Assumptions C02_sound.

(* (1) the value returned is Python's value of the tree that was read *)
Corollary C02_sound_value : forall fuel o wb ts v rest,
  parse_value fuel o wb ts = POk (v, rest) -> Forall (lit_tok o) ts ->
  exists l, lit_wf o l /\ py_eval o l = Some v.
Proof.
  intros fuel o wb ts v rest H Hts.
  destruct (C02_sound_gen fuel o wb ts v rest 0 H Hts) as [l [_ [_ [_ [_ [Hwf [Hev _]]]]]]].
  exists l. split; assumption.
Qed.
Print Assumptions C02_sound_value.

(* ------------------------------------------------------------------ *)
(* more fuel never changes a successful result *)
Lemma pv_loop_fuel : forall f o wb close d,
  (forall ts r, parse_value f o wb ts = POk r -> parse_value (S f) o wb ts = POk r) ->
  forall n ts vals pairs sc res,
  pv_loop f o wb close d n ts vals pairs sc = POk res ->
  pv_loop (S f) o wb close d n ts vals pairs sc = POk res.
Proof.
  intros f o wb close d HP. induction n as [|k IH]; intros ts vals pairs sc res H;
    [cbn [pv_loop] in H; discriminate|].
  rewrite pv_loop_S in H. rewrite pv_loop_S.
  destruct (cur_is ts close); [exact H|].
  cbv beta iota zeta in H. cbv beta iota zeta.
  destruct d.
  - destruct (parse_value f o wb ts) as [[k1 ts1]|e] eqn:Ek; [|discriminate].
    rewrite (HP _ _ Ek).
    destruct (negb (cur_is ts1 ":")); [exact H|].
    destruct (advance wb ts1) as [ts2|e]; [|discriminate].
    destruct (parse_value f o wb ts2) as [[v1 ts3]|e] eqn:Ev; [|discriminate].
    rewrite (HP _ _ Ev).
    destruct (cur_is ts3 ",").
    + destruct (advance wb ts3); [|discriminate]. apply IH. exact H.
    + destruct (negb (cur_is ts3 close)); [exact H|]. apply IH. exact H.
  - destruct (parse_value f o wb ts) as [[v1 ts1]|e] eqn:Ev; [|discriminate].
    rewrite (HP _ _ Ev).
    destruct (cur_is ts1 ",").
    + destruct (advance wb ts1); [|discriminate]. apply IH. exact H.
    + destruct (negb (cur_is ts1 close)); [exact H|]. apply IH. exact H.
Qed.

Lemma parse_value_fuel_S : forall f o wb ts r,
  parse_value f o wb ts = POk r -> parse_value (S f) o wb ts = POk r.
Proof.
  induction f as [|f IH]; intros o wb ts r H; [cbn [parse_value] in H; discriminate|].
  destruct (closer (text (cur ts))) as [close|] eqn:Hc.
  - rewrite (parse_value_container _ _ _ _ _ Hc) in H. rewrite (parse_value_container _ _ _ _ _ Hc).
    destruct (advance wb ts) as [ts1|e]; [|discriminate].
    destruct (pv_loop f o wb close (String.eqb (text (cur ts)) "{") (S (List.length ts1)) ts1 [] [] false)
      as [res|e] eqn:El; [|discriminate].
    rewrite (pv_loop_fuel f o wb close _ (IH o wb) _ _ _ _ _ _ El). exact H.
  - cbn [parse_value] in H. rewrite Hc in H. cbn [parse_value]. rewrite Hc. exact H.
Qed.

Lemma parse_value_fuel_le : forall f f' o wb ts r, f <= f' ->
  parse_value f o wb ts = POk r -> parse_value f' o wb ts = POk r.
Proof.
  intros f f' o wb ts r Hle H. induction Hle as [|m Hle IH]; [exact H|].
  apply parse_value_fuel_S. exact IH.
Qed.

(* (2) agreement with completeness: on a rendered tree the parser can return nothing but
   Python's value (whatever the fuel), and stops exactly behind the literal's trivia *)
Theorem C02_agree : forall o l wb lay n inside v' toks n' tr rest fuel v rest2,
  lay_ok lay -> lit_wf o l -> py_eval o l = Some v' -> render l lay n inside = (toks, n') ->
  Forall tok_ok toks -> Forall trivia_tok tr ->
  rest <> [] -> (forall t r', rest = t :: r' -> follow_ok t) ->
  parse_value fuel o wb (toks ++ tr ++ rest) = POk (v, rest2) ->
  v = v' /\ rest2 = rest.
Proof.
  intros o l wb lay n inside v' toks n' tr rest fuel v rest2 Hlay Hwf Hev Hr Hok Htr Hne Hfol H.
  pose proof (C02_complete_strong o l wb lay n inside v' toks n' tr rest (Nat.max fuel (List.length toks))
                Hlay Hwf Hev Hr Hok Htr Hne Hfol (Nat.le_max_r _ _)) as Hc.
  pose proof (parse_value_fuel_le _ _ _ _ _ _ (Nat.le_max_l fuel (List.length toks)) H) as H'.
  rewrite Hc in H'. injection H' as -> ->. split; reflexivity.
Qed.
Print Assumptions C02_agree.

(* ------------------------------------------------------------------ *)
(* the repaired leading-minus rule: a '-' that is not followed by a NAME / NUMBER / STRING token is
   never accepted, so a value is a reference / macro exactly when its FIRST token is the sigil *)
Lemma minus_closer : forall ts, cur_is ts "-" = true -> closer (text (cur ts)) = None.
Proof. intros ts H. unfold cur_is in H. apply String.eqb_eq in H. rewrite H. reflexivity. Qed.

Theorem minus_needs_number_S : forall o wb ts ts1 f,
  cur_is ts "-" = true -> advance wb ts = POk ts1 ->
  in_types (ty (cur ts1)) [NAME; NUMBER; STRING] = false ->
  parse_value (S f) o wb ts = PErr (ESyntax (srow (cur ts1))).
Proof.
  intros o wb ts ts1 f H H0 H1. cbn [parse_value]. rewrite (minus_closer _ H).
  unfold maybe_basic. rewrite H, H0, H1. reflexivity.
Qed.

Theorem minus_needs_number : forall o wb ts ts1,
  cur_is ts "-" = true -> advance wb ts = POk ts1 ->
  in_types (ty (cur ts1)) [NAME; NUMBER; STRING] = false ->
  forall fuel, exists e, parse_value fuel o wb ts = PErr e.
Proof.
  intros o wb ts ts1 H H0 H1 [|f]; [eexists; reflexivity|].
  eexists. exact (minus_needs_number_S o wb ts ts1 f H H0 H1).
Qed.

(* positive form: a value that starts with '-' is a negated atom *)
Theorem minus_value_is_basic : forall fuel o wb ts v rest,
  cur_is ts "-" = true -> parse_value fuel o wb ts = POk (v, rest) ->
  exists ts1, advance wb ts = POk ts1 /\ in_types (ty (cur ts1)) [NAME; NUMBER; STRING] = true /\
              basic_loop (S (List.length ts1)) o wb ts1 "-" = POk (v, rest).
Proof.
  intros [|f] o wb ts v rest Hm H; [cbn [parse_value] in H; discriminate|].
  destruct (advance wb ts) as [ts1|e] eqn:Ea.
  - destruct (in_types (ty (cur ts1)) [NAME; NUMBER; STRING]) eqn:Et.
    + exists ts1. split; [reflexivity|]. split; [exact Et|].
      cbn [parse_value] in H. rewrite (minus_closer _ Hm) in H. unfold maybe_basic in H.
      rewrite Hm, Ea, Et in H.
      destruct (basic_loop (S (List.length ts1)) o wb ts1 "-") as [r|e]; [|discriminate].
      injection H as ->. reflexivity.
    + rewrite (minus_needs_number_S o wb ts ts1 f Hm Ea Et) in H. discriminate.
  - cbn [parse_value] in H. rewrite (minus_closer _ Hm) in H. unfold maybe_basic in H.
    rewrite Hm, Ea in H. discriminate.
Qed.

(* the first token decides what kind of value is read *)
Theorem value_first_token : forall fuel o wb ts v rest,
  parse_value fuel o wb ts = POk (v, rest) ->
  closer (text (cur ts)) <> None \/ cur_is ts "@" = true \/ cur_is ts "%" = true \/
  maybe_basic o wb ts = POk (Some (v, rest)).
Proof.
  intros [|f] o wb ts v rest H; [cbn [parse_value] in H; discriminate|].
  destruct (closer (text (cur ts))) eqn:Hc; [left; discriminate|]. right.
  cbn [parse_value] in H. rewrite Hc in H.
  destruct (maybe_basic o wb ts) as [[r|]|e] eqn:Em;
    [injection H as ->; right; right; reflexivity | | discriminate].
  rewrite (maybe_basic_none_plain o wb _ Em) in H.
  destruct (cur_is ts "@"); [left; reflexivity|].
  destruct (cur_is ts "%"); [right; left; reflexivity|].
  unfold syntax_here in H. discriminate.
Qed.
Print Assumptions minus_needs_number.
Print Assumptions minus_value_is_basic.
Print Assumptions value_first_token.

(* the parser BEFORE the repair (maybe_basic_orig): the consumed '-' was dropped *)
Fixpoint parse_value_orig (fuel : nat) (o : oracle) (wb : bool) (ts : list token) {struct fuel}
  : pres (out * list token) :=
  match fuel with
  | O => PErr (EOther "OutOfFuel")
  | S f =>
      match closer (text (cur ts)) with
      | Some close =>
          let is_dict := String.eqb (text (cur ts)) "{" in
          let is_tuple := String.eqb (text (cur ts)) "(" in
          match advance wb ts with
          | PErr e => PErr e
          | POk ts1 =>
              (* the item loop *)
              let loop := (fix loop (n : nat) (ts : list token) (vals : list out) (pairs : list (out * out))
                                    (saw_comma : bool) {struct n}
                             : pres (list out * list (out * out) * bool * list token) :=
                 match n with
                 | O => PErr (EOther "OutOfFuel")
                 | S n' =>
                     if cur_is ts close then POk (vals, pairs, saw_comma, ts) else
                     let item :=
                       if is_dict then
                         match parse_value_orig f o wb ts with
                         | PErr e => PErr e
                         | POk (k, ts') =>
                             if negb (cur_is ts' ":") then syntax_here ts' else
                             match advance wb ts' with
                             | PErr e => PErr e
                             | POk ts'' =>
                                 match parse_value_orig f o wb ts'' with
                                 | PErr e => PErr e
                                 | POk (v, ts3) => POk (v, Some (k, v), ts3)
                                 end
                             end
                         end
                       else match parse_value_orig f o wb ts with
                            | PErr e => PErr e
                            | POk (v, ts') => POk (v, None, ts')
                            end in
                     match item with
                     | PErr e => PErr e
                     | POk (v, kv, ts') =>
                         let vals' := vals ++ [v] in
                         let pairs' := match kv with Some p => pairs ++ [p] | None => pairs end in
                         if cur_is ts' "," then
                           match advance wb ts' with
                           | PErr e => PErr e
                           | POk ts'' => loop n' ts'' vals' pairs' true
                           end
                         else if negb (cur_is ts' close) then syntax_here ts'
                         else loop n' ts' vals' pairs' saw_comma
                     end
                 end) in
              match loop (S (List.length ts1)) ts1 [] [] false with
              | PErr e => PErr e
              | POk (vals, pairs, saw_comma, ts2) =>
                  match advance wb ts2 with
                  | PErr e => PErr e
                  | POk ts3 =>
                      if is_dict && negb (keys_hashable pairs) then PErr (EOther "TypeError") else
                      let v :=
                        if is_dict then build_dict pairs
                        else if is_tuple then
                          match vals with
                          | [x] => if saw_comma then OT "T" vals else x
                          | _ => OT "T" vals
                          end
                        else OT "L" vals in
                      POk (v, ts3)
                  end
              end
          end
      | None =>
          match maybe_basic_orig o wb ts with
          | PErr e => PErr e
          | POk (Some r) => POk r
          | POk None =>
              (* maybe_basic may have consumed a leading '-' : continue from where it stopped *)
              let tsb := if cur_is ts "-" then match advance wb ts with POk t => t | PErr _ => ts end else ts in
              if cur_is tsb "@" then
                match advance_one tsb with
                | PErr e => PErr e
                | POk ts1 =>
                    match parse_selector true true wb ts1 with
                    | PErr e => PErr e
                    | POk (name, ts2) =>
                        if cur_is ts2 "(" then
                          match advance wb ts2 with
                          | PErr e => PErr e
                          | POk ts3 =>
                              if negb (cur_is ts3 ")") then syntax_here ts3 else
                              match advance_one ts3 with
                              | PErr e => PErr e
                              | POk ts4 => match skip_ws wb ts4 with
                                           | PErr e => PErr e
                                           | POk ts5 => POk (OT "Ref" [OS name; OB true], ts5)
                                           end
                              end
                          end
                        else match skip_ws wb ts2 with
                             | PErr e => PErr e
                             | POk ts3 => POk (OT "Ref" [OS name; OB false], ts3)
                             end
                    end
                end
              else if cur_is tsb "%" then
                match advance_one tsb with
                | PErr e => PErr e
                | POk ts1 =>
                    match parse_selector true true wb ts1 with
                    | PErr e => PErr e
                    | POk (name, ts2) => POk (OT "Macro" [OS name], ts2)
                    end
                end
              else syntax_here tsb
          end
      end
  end.

(* ------------------------------------------------------------------ *)
(* Why the side conditions: the exact converse fails without them (all by computation) *)
Module C02_Sound_Examples.
Definition tk ty s := {| ty := ty; text := s; srow := 1; scol := 0; erow := 1; ecol := 0 |}.
Definition nl := tk NEWLINE "". Definition cm := tk COMMENT "# c".

(* references and macros are values of the parser that are not literals *)
Example ex_ref : parse_value 5 [] false [tk OP "@"; tk NAME "x"; nl] = POk (OT "Ref" [OS "x"; OB false], [nl]).
Proof. vm_compute. reflexivity. Qed.
Example ex_macro : parse_value 5 [] false [tk OP "%"; tk NAME "x"; nl] = POk (OT "Macro" [OS "x"], [nl]).
Proof. vm_compute. reflexivity. Qed.

(* the model would accept "-" + string if the oracle table had a value for that text
   (ast.literal_eval never has); no tree of the grammar renders to these tokens *)
Example ex_neg_string :
  parse_value 5 [("-'a'", Some (OS "?"))] false [tk OP "-"; tk STRING "'a'"; nl] = POk (OS "?", [nl]).
Proof. vm_compute. reflexivity. Qed.

(* blank ERRORTOKENs (any mode) and INDENT / DEDENT (outside a block) are skipped like trivia, yet
   are not trivia_tok: hence [skippable] in the general form and [plain_tok] in the exact one *)
Example ex_blank_errortoken :
  parse_value 5 [("1", Some (OZ 1))] true [tk OP "["; tk ERRORTOKEN " "; tk NUMBER "1"; tk OP "]"; nl]
  = POk (OT "L" [OZ 1], [nl]).
Proof. vm_compute. reflexivity. Qed.
Example ex_indent :
  parse_value 5 [("1", Some (OZ 1))] false [tk OP "["; tk INDENT "  "; tk NUMBER "1"; tk OP "]"; nl]
  = POk (OT "L" [OZ 1], [nl]).
Proof. vm_compute. reflexivity. Qed.

(* before the repair "-@x" read as the reference x; now it is a syntax error *)
Example ex_minus_ref_orig :
  parse_value_orig 5 [] false [tk OP "-"; tk OP "@"; tk NAME "x"; nl] = POk (OT "Ref" [OS "x"; OB false], [nl]).
Proof. vm_compute. reflexivity. Qed.
Example ex_minus_ref_repaired :
  parse_value 5 [] false [tk OP "-"; tk OP "@"; tk NAME "x"; nl] = PErr (ESyntax 1).
Proof. vm_compute. reflexivity. Qed.

(* trivia between a minus sign and its number is skipped even outside brackets: such a stream
   is a rendering only with inside = true, which is what the soundness theorems produce *)
Example ex_minus_comment :
  parse_value 5 [("-1", Some (OZ (-1)))] false [tk OP "-"; cm; tk NUMBER "1"; nl] = POk (OZ (-1), [nl]).
Proof. vm_compute. reflexivity. Qed.

(* render emits punctuation at fixed positions (op_tok); a real "[" sits elsewhere, is accepted
   by the parser, and is then not LITERALLY the first token of any rendering: hence tok_sim in
   the general form and canon_punct in the exact one *)
Lemma render_first_kind : forall o l lay n inside toks n',
  lit_wf o l -> render l lay n inside = (toks, n') ->
  exists t0 r, toks = t0 :: r /\
    (t0 = op_tok (text t0) \/ ty t0 = NAME \/ ty t0 = NUMBER \/ ty t0 = STRING).
Proof.
  intros o l lay n inside toks n' Hwf Hr.
  destruct l as [neg t|ts|items trailing|items trailing|x|items trailing].
  - cbn [render] in Hr. injection Hr as <- <-. cbn [lit_wf] in Hwf. destruct Hwf as [Hty _].
    destruct neg; cbn [app]; eexists _, _; (split; [reflexivity|]); [left; reflexivity | tauto].
  - rewrite render_LStrs in Hr. cbn [lit_wf] in Hwf. destruct Hwf as [Hne [Hstr _]].
    destruct ts as [|t more]; [congruence|].
    apply render_strs_cons in Hr. destruct Hr as [toks1 [_ ->]].
    eexists _, _. split; [reflexivity|]. right; right; right. exact (Forall_inv Hstr).
  - rewrite render_LList in Hr. destruct (render_items lay trailing items (S n)) as [body n1].
    injection Hr as <- <-. cbn [app]. eexists _, _. split; [reflexivity | left; reflexivity].
  - rewrite render_LTuple in Hr. destruct (render_items lay trailing items (S n)) as [body n1].
    injection Hr as <- <-. cbn [app]. eexists _, _. split; [reflexivity | left; reflexivity].
  - rewrite render_LParen in Hr. destruct (render x lay (S n) true) as [tx n1].
    injection Hr as <- <-. cbn [app]. eexists _, _. split; [reflexivity | left; reflexivity].
  - rewrite render_LDict in Hr. destruct (render_ditems lay trailing items (S n)) as [body n1].
    injection Hr as <- <-. cbn [app]. eexists _, _. split; [reflexivity | left; reflexivity].
Qed.

Definition real_open := {| ty := OP; text := "["; srow := 3; scol := 5; erow := 3; ecol := 6 |}.
Example ex_positions_parse :
  parse_value 5 [] false [real_open; tk OP "]"; nl] = POk (OT "L" [], [nl]).
Proof. vm_compute. reflexivity. Qed.
Example ex_positions_not_literally_rendered :
  ~ exists o l lay n inside toks n' tr rest,
      lit_wf o l /\ render l lay n inside = (toks, n') /\ [real_open; tk OP "]"; nl] = toks ++ tr ++ rest.
Proof.
  intros [o [l [lay [n [inside [toks [n' [tr [rest [Hwf [Hr E]]]]]]]]]]].
  destruct (render_first_kind _ _ _ _ _ _ _ Hwf Hr) as [t0 [r [-> Hk]]].
  cbn [app] in E. injection E as <- _.
  destruct Hk as [Hk|[Hk|[Hk|Hk]]]; discriminate Hk.
Qed.

(* non-vacuity of the exact form: a list with comments, NLs, a negative number, a two-piece
   string run and a trailing comma (the stream of ParserProofs.C02_Example) *)
Import C02_Example.
Definition stream := fst (render l1 lay 0 false) ++ [C02_Example.cm] ++ [C02_Example.tk NEWLINE ""; C02_Example.tk ENDMARKER ""].
Example ex_sound_applies :
  exists l lay toks n',
    lay_ok lay /\ lit_wf C02_Example.o l /\ py_eval C02_Example.o l = Some (OT "L" [OZ (-1); OS "ab"]) /\
    render l lay 0 true = (toks, n') /\
    stream = toks ++ [C02_Example.tk NEWLINE ""; C02_Example.tk ENDMARKER ""].
Proof.
  apply (C02_sound_strong 20 C02_Example.o false stream).
  - vm_compute. reflexivity.
  - unfold stream. cbn. repeat (apply Forall_cons || apply Forall_nil);
      (split; [discriminate|]; split; [discriminate|]; split;
       [intros [H|[H|H]]; try discriminate H; repeat split; try (intro; discriminate); reflexivity
       | intros H v; try discriminate H; cbn; discriminate]).
  - unfold stream. cbn. repeat (apply Forall_cons || apply Forall_nil);
      (split; [discriminate | intros _; split; discriminate]).
  - unfold stream. cbn. repeat (apply Forall_cons || apply Forall_nil);
      intros H; try reflexivity; exfalso; unfold punct in H; cbn in H;
      repeat (destruct H as [H|H]; [discriminate H|]); exact H.
Qed.
End C02_Sound_Examples.
Print Assumptions C02_Sound_Examples.ex_positions_not_literally_rendered.
Print Assumptions C02_Sound_Examples.ex_sound_applies.
