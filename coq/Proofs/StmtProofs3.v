(* C14 to any depth (flattening of nested includes, include tree), the multi-file entry point, and
   "unknown names are errors unless skip_unknown is passed" at every parsing entry point.
   Proofs about Model/Stmt.v, Model/StmtSpec.v, Model/StmtEngine.v; reuses Proofs/StmtProofs.v, StmtProofs2.v. *)
From Coq Require Import List String ZArith Bool Arith Lia.
From GinV Require Import Lib.Out Lib.PyStr Model.SelectorMap Model.Parser Model.Stmt Model.StmtSpec Model.StmtEngine
  Proofs.StmtProofs Proofs.StmtProofs2.
Import ListNotations.
Open Scope string_scope.
Open Scope list_scope.

(* ================================================================== *)
(* resolve_group changes nothing but the values of the bindings       *)
(* ================================================================== *)
Definition strip (st : stmt) : stmt :=
  match st with SBind sc sel arg _ line => SBind sc sel arg (OZ 0) line | x => x end.

Lemma resolve_group_strip : forall s sk fname g g',
  resolve_group s sk fname g = SOk g' -> map strip g' = map strip g.
Proof.
  intros s sk fname g. induction g as [|st rest IH]; intros g' H.
  - rewrite resolve_group_nil in H. inversion H. reflexivity.
  - destruct st as [sc sel arg v line|sc sel line|m isf al line|v line].
    + rewrite resolve_group_SBind in H.
      destruct (resolve_value 100 s sk v) as [v'|e]; [|rewrite with_loc_SErr in H; discriminate].
      destruct (resolve_group s sk fname rest) as [r'|e]; [|discriminate].
      inversion H. cbn [map strip]. rewrite (IH r' eq_refl). reflexivity.
    + rewrite resolve_group_other in H by (intros; discriminate).
      destruct (resolve_group s sk fname rest) as [r'|e]; [|discriminate].
      inversion H. cbn [map]. rewrite (IH r' eq_refl). reflexivity.
    + rewrite resolve_group_other in H by (intros; discriminate).
      destruct (resolve_group s sk fname rest) as [r'|e]; [|discriminate].
      inversion H. cbn [map]. rewrite (IH r' eq_refl). reflexivity.
    + rewrite resolve_group_other in H by (intros; discriminate).
      destruct (resolve_group s sk fname rest) as [r'|e]; [|discriminate].
      inversion H. cbn [map]. rewrite (IH r' eq_refl). reflexivity.
Qed.

Lemma strip_flat_map : forall (A : Type) (f : stmt -> list A), (forall st, f st = f (strip st)) ->
  forall a b, map strip a = map strip b -> flat_map f a = flat_map f b.
Proof.
  intros A f Hf a. induction a as [|x a IH]; intros [|y b] H; cbn [map] in H; try discriminate; [reflexivity|].
  inversion H as [[H1 H2]]. cbn [flat_map]. rewrite (Hf x), (Hf y), H1, (IH b H2). reflexivity.
Qed.

Lemma strip_existsb : forall (f : stmt -> bool), (forall st, f st = f (strip st)) ->
  forall a b, map strip a = map strip b -> existsb f a = existsb f b.
Proof.
  intros f Hf a. induction a as [|x a IH]; intros [|y b] H; cbn [map] in H; try discriminate; [reflexivity|].
  inversion H as [[H1 H2]]. cbn [existsb]. rewrite (Hf x), (Hf y), H1, (IH b H2). reflexivity.
Qed.

(* ================================================================== *)
(* the shapes of the groups the parser yields                         *)
(* ================================================================== *)
Definition as_include (g : list stmt) : option (out * nat) :=
  match g with [SInclude v line] => Some (v, line) | _ => None end.
Lemma as_include_some : forall g v line, as_include g = Some (v, line) -> g = [SInclude v line].
Proof.
  intros [|[sc sel arg v0 l0|sc sel l0|m isf al l0|v0 l0] [|st2 r]] v line H; cbn in H; try discriminate.
  inversion H. reflexivity.
Qed.

(* imports a file's own statements record on success: the importable modules, in order *)
Definition stmt_imports (env : fenv) (st : stmt) : list string :=
  match st with SImport m _ _ _ => if str_in m (e_modules env) then [m] else [] | _ => [] end.
Definition imports_of (env : fenv) (gs : list (list stmt)) : list string := flat_map (flat_map (stmt_imports env)) gs.

(* ================================================================== *)
(* flattening to any depth, with the include tree                     *)
(* ================================================================== *)
(* [flatten_both fuel env gs]: replace every include group by the (recursively flattened) groups of the file it
   resolves to, and build the list of include trees alongside.  The fuel is EXACTLY the fuel parse_tokens threads:
   the group at the head is handled at fuel S f, the file it includes and the remaining groups at fuel f.
   None: a file is missing / does not tokenise / does not parse to EOF / the recursion budget does not suffice /
   a group mixes an include with other statements (never produced by the parser: see parse_statement). *)
Fixpoint flatten_both (fuel : nat) (env : fenv) (gs : list (list stmt)) {struct fuel}
  : option (list (list stmt) * list itree) :=
  match gs with
  | [] => Some ([], [])
  | g :: rest =>
      match fuel with
      | O => None
      | S f =>
          match flatten_both f env rest with
          | None => None
          | Some (frest, trest) =>
              match as_include g with
              | None => if forallb (fun st => negb (is_include st)) g then Some (g :: frest, trest) else None
              | Some (v, line) =>
                  match resolve_file env (str_of_value v) with
                  | None => None
                  | Some (full, gf) =>
                      match settle (f_tokens gf) with
                      | PErr _ => None
                      | POk ts0 =>
                          match parse_groups f (f_oracle gf) false ts0 with
                          | (gs2, Some _) => None
                          | (gs2, None) =>
                              if Nat.ltb (List.length gs2) f then
                                match flatten_both f env gs2 with
                                | None => None
                                | Some (f2, t2) =>
                                    Some (f2 ++ frest, INode (str_of_value v) (imports_of env gs2) t2 :: trest)
                                end
                              else None
                          end
                      end
                  end
              end
          end
      end
  end.
Definition flatten_groups (fuel : nat) (env : fenv) (gs : list (list stmt)) : option (list (list stmt)) :=
  option_map fst (flatten_both fuel env gs).
Definition trees_of (fuel : nat) (env : fenv) (gs : list (list stmt)) : option (list itree) :=
  option_map snd (flatten_both fuel env gs).

Lemma flatten_both_nil : forall fuel env, flatten_both fuel env [] = Some ([], []).
Proof. intros [|f] env; reflexivity. Qed.
Lemma flatten_both_cons : forall f env g rest,
  flatten_both (S f) env (g :: rest) =
  match flatten_both f env rest with
  | None => None
  | Some (frest, trest) =>
      match as_include g with
      | None => if forallb (fun st => negb (is_include st)) g then Some (g :: frest, trest) else None
      | Some (v, line) =>
          match resolve_file env (str_of_value v) with
          | None => None
          | Some (full, gf) =>
              match settle (f_tokens gf) with
              | PErr _ => None
              | POk ts0 =>
                  match parse_groups f (f_oracle gf) false ts0 with
                  | (gs2, Some _) => None
                  | (gs2, None) =>
                      if Nat.ltb (List.length gs2) f then
                        match flatten_both f env gs2 with
                        | None => None
                        | Some (f2, t2) =>
                            Some (f2 ++ frest, INode (str_of_value v) (imports_of env gs2) t2 :: trest)
                        end
                      else None
                  end
              end
          end
      end
  end.
Proof. reflexivity. Qed.

(* the flattened list is include-free *)
Lemma flatten_both_no_includes : forall fuel env gs flat trees,
  flatten_both fuel env gs = Some (flat, trees) -> no_includes flat.
Proof.
  induction fuel as [|f IH]; intros env gs flat trees H.
  - destruct gs; [inversion H; constructor|discriminate].
  - destruct gs as [|g rest]; [inversion H; constructor|].
    rewrite flatten_both_cons in H.
    destruct (flatten_both f env rest) as [[frest trest]|] eqn:Hfr; [|discriminate].
    destruct (as_include g) as [[v line]|].
    + destruct (resolve_file env (str_of_value v)) as [[full gf]|]; [|discriminate].
      destruct (settle (f_tokens gf)) as [ts0|pe0]; [|discriminate].
      destruct (parse_groups f (f_oracle gf) false ts0) as [gs2 [pe2|]]; [discriminate|].
      destruct (Nat.ltb (List.length gs2) f); [|discriminate].
      destruct (flatten_both f env gs2) as [[f2 t2]|] eqn:Hf2; [|discriminate].
      inversion H; subst flat trees. apply no_includes_app; [eapply IH; exact Hf2|eapply IH; exact Hfr].
    + destruct (forallb (fun st => negb (is_include st)) g) eqn:Hn; [|discriminate].
      inversion H; subst flat trees. constructor; [exact Hn|eapply IH; exact Hfr].
Qed.

(* an include-free group list flattens to itself, with no trees *)
Lemma flatten_both_noinc : forall gs fuel env, no_includes gs -> List.length gs <= fuel ->
  flatten_both fuel env gs = Some (gs, []).
Proof.
  induction gs as [|g rest IH]; intros fuel env Hn Hl; [apply flatten_both_nil|].
  inversion Hn as [|g0 r0 Hg Hrest]; subst g0 r0. cbn [List.length] in Hl.
  destruct fuel as [|f]; [lia|]. rewrite flatten_both_cons. rewrite (IH f env Hrest) by lia.
  destruct (as_include g) as [[v line]|] eqn:Hai.
  - apply as_include_some in Hai. subst g. cbn in Hg. discriminate.
  - rewrite Hg. reflexivity.
Qed.

(* ---------- THE theorem: any number of includes, any nesting depth ---------- *)
Theorem C14_flatten_any_depth_gen : forall fuel env sk fname fname' o pending ts s s' im ic im' ic' gs flat trees,
  parse_groups fuel o pending ts = (gs, None) -> List.length gs < fuel ->
  flatten_both fuel env gs = Some (flat, trees) -> sim s s' ->
  sim (fst (parse_tokens fuel env sk fname o pending ts s im ic))
      (fst (consume env sk fname' no_inc flat s' im' ic')) /\
  res_sim (snd (parse_tokens fuel env sk fname o pending ts s im ic))
          (snd (consume env sk fname' no_inc flat s' im' ic')).
Proof.
  induction fuel as [|f IH];
    intros env sk fname fname' o pending ts s s' im ic im' ic' gs flat trees Hpg Hl Hfl Hs; [lia|].
  rewrite parse_tokens_S. rewrite parse_groups_S in Hpg.
  destruct (parse_statement o pending ts) as [[[[stmts ts1] p1]|]|e] eqn:Hps.
  - destruct (parse_groups f o p1 ts1) as [gs' e'] eqn:Hpg'. inversion Hpg; subst gs e'. clear Hpg.
    cbn [List.length] in Hl. assert (Hl' : List.length gs' < f) by lia.
    rewrite flatten_both_cons in Hfl.
    destruct (flatten_both f env gs') as [[frest trest]|] eqn:Hfr; [|discriminate].
    destruct (as_include stmts) as [[v line]|] eqn:Hai.
    + (* an include group *)
      apply as_include_some in Hai. subst stmts.
      destruct (resolve_file env (str_of_value v)) as [[full gf]|] eqn:Hres; [|discriminate].
      destruct (settle (f_tokens gf)) as [ts0|pe0] eqn:Hset; [|discriminate].
      destruct (parse_groups f (f_oracle gf) false ts0) as [gs2 [pe2|]] eqn:Hpg2; [discriminate|].
      destruct (Nat.ltb_spec (List.length gs2) f) as [Hl2|_]; [|discriminate].
      destruct (flatten_both f env gs2) as [[f2 t2]|] eqn:Hf2; [|discriminate].
      inversion Hfl; subst flat trees. clear Hfl.
      rewrite resolve_group_other by (intros; discriminate). rewrite resolve_group_nil.
      rewrite C14_include_step. unfold inc_of. rewrite Hres, Hset. rewrite consume_app.
      pose proof (IH env sk full fname' (f_oracle gf) false ts0 s s' [] [] im' ic' gs2 f2 t2 Hpg2 Hl2 Hf2 Hs)
        as [A1 A2].
      destruct (parse_tokens f env sk full (f_oracle gf) false ts0 s [] []) as [s2 r2].
      destruct (consume env sk fname' no_inc f2 s' im' ic') as [s2' r2'].
      cbn [fst snd] in A1, A2.
      destruct r2 as [[im2 ic2]|e2], r2' as [[im2' ic2']|e2']; try contradiction; cbv beta iota.
      * apply (IH env sk fname fname' o p1 ts1 s2 s2' im (ic ++ [INode (str_of_value v) im2 ic2]) im2' ic2'
                  gs' frest trest Hpg' Hl' Hfr A1).
      * rewrite with_loc_SErr. cbn [fst snd res_sim]. split; [exact A1|apply err_sim_with_loc_l; exact A2].
    + (* an include-free group *)
      destruct (forallb (fun st => negb (is_include st)) stmts) eqn:Hn; [|discriminate].
      inversion Hfl; subst flat trees. clear Hfl. cbn [consume].
      pose proof (resolve_group_sim sk fname fname' stmts s s' (proj1 Hs) (proj1 (proj2 Hs))) as R.
      destruct (resolve_group s sk fname stmts) as [a|e] eqn:Ra, (resolve_group s' sk fname' stmts) as [b|e'];
        try contradiction.
      * subst b.
        assert (Ha : forallb (fun st => negb (is_include st)) a = true)
          by (rewrite (resolve_group_noinc _ _ _ _ _ Ra); exact Hn).
        rewrite (apply_stmts_inc_indep env sk fname (inc_of f env sk) no_inc a s im ic Ha).
        pose proof (apply_stmts_sim env sk fname fname' no_inc no_inc a s s' im ic im' ic' Ha Hs) as [A1 A2].
        destruct (apply_stmts env sk fname no_inc a s im ic) as [s1 r1].
        destruct (apply_stmts env sk fname' no_inc a s' im' ic') as [s1' r1'].
        cbn [fst snd] in A1, A2.
        destruct r1 as [[im1 ic1]|e1], r1' as [[im1' ic1']|e1']; try contradiction.
        -- apply (IH env sk fname fname' o p1 ts1 s1 s1' im1 ic1 im1' ic1' gs' frest trest Hpg' Hl' Hfr A1).
        -- cbn [fst snd]. split; assumption.
      * cbn [fst snd]. split; [exact Hs|exact R].
  - inversion Hpg; subst gs. rewrite flatten_both_nil in Hfl. inversion Hfl; subst flat trees.
    cbn [consume fst snd res_sim]. split; [apply sim_add_imports_l; exact Hs|exact I].
  - discriminate.
Qed.

(* in the requested form *)
Theorem C14_flatten_any_depth : forall fuel env sk fname o pending ts s im ic gs flat,
  parse_groups fuel o pending ts = (gs, None) -> List.length gs < fuel ->
  flatten_groups fuel env gs = Some flat ->
  sim (fst (parse_tokens fuel env sk fname o pending ts s im ic))
      (fst (consume env sk fname no_inc flat s im ic)) /\
  res_sim (snd (parse_tokens fuel env sk fname o pending ts s im ic))
          (snd (consume env sk fname no_inc flat s im ic)).
Proof.
  intros fuel env sk fname o pending ts s im ic gs flat Hpg Hl Hfl. unfold flatten_groups in Hfl.
  destruct (flatten_both fuel env gs) as [[fl tr]|] eqn:Hb; [|discriminate]. cbn in Hfl. inversion Hfl; subst fl.
  apply (C14_flatten_any_depth_gen fuel env sk fname fname o pending ts s s im ic im ic gs flat tr Hpg Hl Hb (sim_refl s)).
Qed.

(* ---------- the include tree mirrors the include structure ---------- *)
Lemma apply_stmts_noinc_outputs : forall env sk fname inc stmts s im ic s1 im1 ic1,
  forallb (fun st => negb (is_include st)) stmts = true ->
  apply_stmts env sk fname inc stmts s im ic = (s1, SOk (im1, ic1)) ->
  im1 = im ++ flat_map (stmt_imports env) stmts /\ ic1 = ic.
Proof.
  intros env sk fname inc stmts. induction stmts as [|st rest IH]; intros s im ic s1 im1 ic1 Hn H.
  - cbn [apply_stmts] in H. inversion H. cbn [flat_map]. rewrite app_nil_r. auto.
  - cbn [forallb] in Hn. apply andb_true_iff in Hn. destruct Hn as [Hst Hrest].
    destruct st as [sc sel arg v line|sc sel line|m isf al line|v line]; cbn [apply_stmts] in H;
      cbn [flat_map stmt_imports app].
    + destruct (String.eqb arg "").
      * destruct (bind s _ "gin.macro" "value" v (fname, line)) as [s0|e];
          [eapply IH; eassumption|rewrite with_loc_SErr in H; discriminate].
      * destruct (should_skip s sel sk); [eapply IH; eassumption|].
        destruct (bind s sc sel arg v (fname, line)) as [s0|e];
          [eapply IH; eassumption|rewrite with_loc_SErr in H; discriminate].
    + destruct (should_skip s sel sk); [eapply IH; eassumption|].
      destruct (sm_get_match (to_key sel) (t_reg s)) as [| |k [c|]]; try discriminate. eapply IH; eassumption.
    + destruct (str_in m (e_modules env)).
      * destruct (IH _ _ _ _ _ _ Hrest H) as [A B]. subst im1. rewrite <- app_assoc. auto.
      * destruct (sk_truthy sk); [|discriminate]. cbn [app]. eapply IH; eassumption.
    + cbn in Hst. discriminate.
Qed.

Lemma stmt_imports_strip : forall env st, stmt_imports env st = stmt_imports env (strip st).
Proof. intros env [sc sel arg v line|sc sel line|m isf al line|v line]; reflexivity. Qed.

(* on success: the returned imports are the caller's plus the importable modules of the file's OWN statements, and
   the returned include list is the caller's plus one tree per top-level include, in order; each tree is
   INode (name as written) (imports of that file's own statements) (trees of ITS includes) *)
Theorem C14_tree_mirrors_includes : forall fuel env sk fname o pending ts s im ic gs flat trees s1 imR icR,
  parse_groups fuel o pending ts = (gs, None) -> List.length gs < fuel ->
  flatten_both fuel env gs = Some (flat, trees) ->
  parse_tokens fuel env sk fname o pending ts s im ic = (s1, SOk (imR, icR)) ->
  imR = im ++ imports_of env gs /\ icR = ic ++ trees.
Proof.
  induction fuel as [|f IH];
    intros env sk fname o pending ts s im ic gs flat trees s1 imR icR Hpg Hl Hfl H; [lia|].
  rewrite parse_tokens_S in H. rewrite parse_groups_S in Hpg.
  destruct (parse_statement o pending ts) as [[[[stmts ts1] p1]|]|e] eqn:Hps.
  - destruct (parse_groups f o p1 ts1) as [gs' e'] eqn:Hpg'. inversion Hpg; subst gs e'. clear Hpg.
    cbn [List.length] in Hl. assert (Hl' : List.length gs' < f) by lia.
    rewrite flatten_both_cons in Hfl.
    destruct (flatten_both f env gs') as [[frest trest]|] eqn:Hfr; [|discriminate].
    unfold imports_of. cbn [flat_map]. fold (imports_of env gs').
    destruct (as_include stmts) as [[v line]|] eqn:Hai.
    + apply as_include_some in Hai. subst stmts.
      destruct (resolve_file env (str_of_value v)) as [[full gf]|] eqn:Hres; [|discriminate].
      destruct (settle (f_tokens gf)) as [ts0|pe0] eqn:Hset; [|discriminate].
      destruct (parse_groups f (f_oracle gf) false ts0) as [gs2 [pe2|]] eqn:Hpg2; [discriminate|].
      destruct (Nat.ltb_spec (List.length gs2) f) as [Hl2|_]; [|discriminate].
      destruct (flatten_both f env gs2) as [[f2 t2]|] eqn:Hf2; [|discriminate].
      inversion Hfl; subst flat trees. clear Hfl.
      rewrite resolve_group_other in H by (intros; discriminate). rewrite resolve_group_nil in H.
      rewrite C14_include_step in H. unfold inc_of in H. rewrite Hres, Hset in H.
      destruct (parse_tokens f env sk full (f_oracle gf) false ts0 s [] []) as [s2 r2] eqn:Hp2.
      destruct r2 as [[im2 ic2]|e2]; cbv beta iota in H.
      * destruct (IH env sk full (f_oracle gf) false ts0 s [] [] gs2 f2 t2 s2 im2 ic2 Hpg2 Hl2 Hf2 Hp2) as [B1 B2].
        cbn [app] in B1, B2. subst im2 ic2.
        destruct (IH env sk fname o p1 ts1 s2 im (ic ++ [INode (str_of_value v) (imports_of env gs2) t2])
                     gs' frest trest s1 imR icR Hpg' Hl' Hfr H) as [C1 C2].
        subst imR icR. cbn [flat_map stmt_imports app]. rewrite <- app_assoc. auto.
      * rewrite with_loc_SErr in H. discriminate.
    + destruct (forallb (fun st => negb (is_include st)) stmts) eqn:Hn; [|discriminate].
      inversion Hfl; subst flat trees. clear Hfl.
      destruct (resolve_group s sk fname stmts) as [a|e] eqn:Ra; [|discriminate].
      assert (Ha : forallb (fun st => negb (is_include st)) a = true)
        by (rewrite (resolve_group_noinc _ _ _ _ _ Ra); exact Hn).
      destruct (apply_stmts env sk fname (inc_of f env sk) a s im ic) as [s0 r0] eqn:Hap.
      destruct r0 as [[im0 ic0]|e0]; [|discriminate].
      destruct (apply_stmts_noinc_outputs _ _ _ _ _ _ _ _ _ _ _ Ha Hap) as [B1 B2]. subst im0 ic0.
      rewrite (strip_flat_map _ (stmt_imports env) (stmt_imports_strip env) a stmts
                 (resolve_group_strip _ _ _ _ _ Ra)) in H.
      destruct (IH env sk fname o p1 ts1 s0 _ ic gs' frest trees s1 imR icR Hpg' Hl' Hfr H) as [C1 C2].
      subst imR icR. rewrite <- app_assoc. auto.
  - inversion Hpg; subst gs. rewrite flatten_both_nil in Hfl. inversion Hfl; subst flat trees.
    inversion H; subst. cbn [imports_of flat_map]. rewrite !app_nil_r. auto.
  - discriminate.
Qed.

(* ---------- the entry points ---------- *)
Theorem C14_parse_config_any_depth : forall env sk fname g s ts gs flat trees,
  settle (f_tokens g) = POk ts -> parse_groups 60 (f_oracle g) false ts = (gs, None) -> List.length gs < 60 ->
  flatten_both 60 env gs = Some (flat, trees) ->
  sim (fst (parse_config env sk fname g s)) (fst (consume env sk fname no_inc flat s [] [])) /\
  res_sim (snd (parse_config env sk fname g s)) (snd (consume env sk fname no_inc flat s [] [])) /\
  (forall s1 imR icR, parse_config env sk fname g s = (s1, SOk (imR, icR)) -> imR = imports_of env gs /\ icR = trees).
Proof.
  intros env sk fname g s ts gs flat trees Hset Hpg Hl Hfl. unfold parse_config. rewrite Hset.
  destruct (C14_flatten_any_depth_gen 60 env sk fname fname (f_oracle g) false ts s s [] [] [] [] gs flat trees
              Hpg Hl Hfl (sim_refl s)) as [A B].
  split; [exact A|]. split; [exact B|].
  intros s1 imR icR H. apply (C14_tree_mirrors_includes 60 env sk fname (f_oracle g) false ts s [] [] gs flat trees
                                s1 imR icR Hpg Hl Hfl H).
Qed.

Theorem C14_parse_config_file_any_depth : forall env sk name full g s ts gs flat trees,
  resolve_file env name = Some (full, g) ->
  settle (f_tokens g) = POk ts -> parse_groups 60 (f_oracle g) false ts = (gs, None) -> List.length gs < 60 ->
  flatten_both 60 env gs = Some (flat, trees) ->
  sim (fst (parse_config_file env sk name s)) (fst (consume env sk full no_inc flat s [] [])) /\
  res_sim (snd (parse_config_file env sk name s)) (snd (consume env sk full no_inc flat s [] [])) /\
  (forall s1 t, parse_config_file env sk name s = (s1, SOk t) -> t = INode name (imports_of env gs) trees).
Proof.
  intros env sk name full g s ts gs flat trees Hres Hset Hpg Hl Hfl.
  destruct (C14_parse_config_any_depth env sk full g s ts gs flat trees Hset Hpg Hl Hfl) as [A [B C]].
  unfold parse_config_file. rewrite Hres.
  destruct (parse_config env sk full g s) as [s' r]. cbn [fst snd] in A, B.
  destruct r as [[imR icR]|e].
  - cbn [fst snd]. split; [exact A|]. split; [exact B|].
    intros s1 t H. inversion H; subst s1 t. destruct (C s' imR icR eq_refl) as [C1 C2]. subst. reflexivity.
  - cbn [fst snd]. split; [exact A|]. split; [exact B|]. intros s1 t H. discriminate.
Qed.
