(* C14 to any depth (flattening of nested includes, include tree), the multi-file entry point, and
   "unknown names are errors unless skip_unknown is passed" at every parsing entry point.
   Proofs about Model/Stmt.v, Model/StmtSpec.v, Model/StmtEngine.v; reuses Proofs/StmtProofs.v, StmtProofs2.v. *)
From Coq Require Import List String ZArith Bool Arith Lia.
From GinV Require Import Lib.Out Lib.PyStr Model.SelectorMap Model.Parser Model.Stmt Model.StmtSpec Model.StmtEngine
  Proofs.StmtProofs Proofs.StmtProofs2.
Import ListNotations.
Open Scope string_scope.
Open Scope list_scope.

(* ================================================================== *)
(* resolve_group changes nothing but the values of the bindings       *)
(* ================================================================== *)
Definition strip (st : stmt) : stmt :=
  match st with SBind sc sel arg _ line => SBind sc sel arg (OZ 0) line | x => x end.

Lemma resolve_group_strip : forall s sk fname g g',
  resolve_group s sk fname g = SOk g' -> map strip g' = map strip g.
Proof.
  intros s sk fname g. induction g as [|st rest IH]; intros g' H.
  - rewrite resolve_group_nil in H. inversion H. reflexivity.
  - destruct st as [sc sel arg v line|sc sel line|m isf al line|v line].
    + rewrite resolve_group_SBind in H.
      destruct (resolve_value 100 s sk v) as [v'|e]; [|rewrite with_loc_SErr in H; discriminate].
      destruct (resolve_group s sk fname rest) as [r'|e]; [|discriminate].
      inversion H. cbn [map strip]. rewrite (IH r' eq_refl). reflexivity.
    + rewrite resolve_group_other in H by (intros; discriminate).
      destruct (resolve_group s sk fname rest) as [r'|e]; [|discriminate].
      inversion H. cbn [map]. rewrite (IH r' eq_refl). reflexivity.
    + rewrite resolve_group_other in H by (intros; discriminate).
      destruct (resolve_group s sk fname rest) as [r'|e]; [|discriminate].
      inversion H. cbn [map]. rewrite (IH r' eq_refl). reflexivity.
    + rewrite resolve_group_other in H by (intros; discriminate).
      destruct (resolve_group s sk fname rest) as [r'|e]; [|discriminate].
      inversion H. cbn [map]. rewrite (IH r' eq_refl). reflexivity.
Qed.

Lemma strip_flat_map : forall (A : Type) (f : stmt -> list A), (forall st, f st = f (strip st)) ->
  forall a b, map strip a = map strip b -> flat_map f a = flat_map f b.
Proof.
  intros A f Hf a. induction a as [|x a IH]; intros [|y b] H; cbn [map] in H; try discriminate; [reflexivity|].
  inversion H as [[H1 H2]]. cbn [flat_map]. rewrite (Hf x), (Hf y), H1, (IH b H2). reflexivity.
Qed.

Lemma strip_existsb : forall (f : stmt -> bool), (forall st, f st = f (strip st)) ->
  forall a b, map strip a = map strip b -> existsb f a = existsb f b.
Proof.
  intros f Hf a. induction a as [|x a IH]; intros [|y b] H; cbn [map] in H; try discriminate; [reflexivity|].
  inversion H as [[H1 H2]]. cbn [existsb]. rewrite (Hf x), (Hf y), H1, (IH b H2). reflexivity.
Qed.

(* ================================================================== *)
(* the shapes of the groups the parser yields                         *)
(* ================================================================== *)
Definition as_include (g : list stmt) : option (out * nat) :=
  match g with [SInclude v line] => Some (v, line) | _ => None end.
Lemma as_include_some : forall g v line, as_include g = Some (v, line) -> g = [SInclude v line].
Proof.
  intros [|[sc sel arg v0 l0|sc sel l0|m isf al l0|v0 l0] [|st2 r]] v line H; cbn in H; try discriminate.
  inversion H. reflexivity.
Qed.

(* (stmt_imports / imports_of -- the importable modules of a file's own import statements, in order -- are defined
   in Proofs/StmtProofs.v) *)

(* ================================================================== *)
(* flattening to any depth, with the include tree                     *)
(* ================================================================== *)
(* [flatten_both fuel env gs]: replace every include group by the (recursively flattened) groups of the file it
   resolves to, and build the list of include trees alongside.  The fuel is EXACTLY the fuel parse_tokens threads:
   the group at the head is handled at fuel S f, the file it includes and the remaining groups at fuel f.
   None: a file is missing / does not tokenise / does not parse to EOF / the recursion budget does not suffice /
   a group mixes an include with other statements (never produced by the parser: see parse_statement). *)
Fixpoint flatten_both (fuel : nat) (env : fenv) (gs : list (list stmt)) {struct fuel}
  : option (list (list stmt) * list itree) :=
  match gs with
  | [] => Some ([], [])
  | g :: rest =>
      match fuel with
      | O => None
      | S f =>
          match flatten_both f env rest with
          | None => None
          | Some (frest, trest) =>
              match as_include g with
              | None => if forallb (fun st => negb (is_include st)) g then Some (g :: frest, trest) else None
              | Some (v, line) =>
                  match resolve_file env (str_of_value v) with
                  | None => None
                  | Some (full, gf) =>
                      match settle (f_tokens gf) with
                      | PErr _ => None
                      | POk ts0 =>
                          match parse_groups f (f_oracle gf) false ts0 with
                          | (gs2, Some _) => None
                          | (gs2, None) =>
                              if Nat.ltb (List.length gs2) f then
                                match flatten_both f env gs2 with
                                | None => None
                                | Some (f2, t2) =>
                                    Some (f2 ++ frest, INode (str_of_value v) (imports_of env gs2) t2 :: trest)
                                end
                              else None
                          end
                      end
                  end
              end
          end
      end
  end.
Definition flatten_groups (fuel : nat) (env : fenv) (gs : list (list stmt)) : option (list (list stmt)) :=
  option_map fst (flatten_both fuel env gs).
Definition trees_of (fuel : nat) (env : fenv) (gs : list (list stmt)) : option (list itree) :=
  option_map snd (flatten_both fuel env gs).

Lemma flatten_both_nil : forall fuel env, flatten_both fuel env [] = Some ([], []).
Proof. intros [|f] env; reflexivity. Qed.
Lemma flatten_both_cons : forall f env g rest,
  flatten_both (S f) env (g :: rest) =
  match flatten_both f env rest with
  | None => None
  | Some (frest, trest) =>
      match as_include g with
      | None => if forallb (fun st => negb (is_include st)) g then Some (g :: frest, trest) else None
      | Some (v, line) =>
          match resolve_file env (str_of_value v) with
          | None => None
          | Some (full, gf) =>
              match settle (f_tokens gf) with
              | PErr _ => None
              | POk ts0 =>
                  match parse_groups f (f_oracle gf) false ts0 with
                  | (gs2, Some _) => None
                  | (gs2, None) =>
                      if Nat.ltb (List.length gs2) f then
                        match flatten_both f env gs2 with
                        | None => None
                        | Some (f2, t2) =>
                            Some (f2 ++ frest, INode (str_of_value v) (imports_of env gs2) t2 :: trest)
                        end
                      else None
                  end
              end
          end
      end
  end.
Proof. reflexivity. Qed.

(* the flattened list is include-free *)
Lemma flatten_both_no_includes : forall fuel env gs flat trees,
  flatten_both fuel env gs = Some (flat, trees) -> no_includes flat.
Proof.
  induction fuel as [|f IH]; intros env gs flat trees H.
  - destruct gs; [inversion H; constructor|discriminate].
  - destruct gs as [|g rest]; [inversion H; constructor|].
    rewrite flatten_both_cons in H.
    destruct (flatten_both f env rest) as [[frest trest]|] eqn:Hfr; [|discriminate].
    destruct (as_include g) as [[v line]|].
    + destruct (resolve_file env (str_of_value v)) as [[full gf]|]; [|discriminate].
      destruct (settle (f_tokens gf)) as [ts0|pe0]; [|discriminate].
      destruct (parse_groups f (f_oracle gf) false ts0) as [gs2 [pe2|]]; [discriminate|].
      destruct (Nat.ltb (List.length gs2) f); [|discriminate].
      destruct (flatten_both f env gs2) as [[f2 t2]|] eqn:Hf2; [|discriminate].
      inversion H; subst flat trees. apply no_includes_app; [eapply IH; exact Hf2|eapply IH; exact Hfr].
    + destruct (forallb (fun st => negb (is_include st)) g) eqn:Hn; [|discriminate].
      inversion H; subst flat trees. constructor; [exact Hn|eapply IH; exact Hfr].
Qed.

(* an include-free group list flattens to itself, with no trees *)
Lemma flatten_both_noinc : forall gs fuel env, no_includes gs -> List.length gs <= fuel ->
  flatten_both fuel env gs = Some (gs, []).
Proof.
  induction gs as [|g rest IH]; intros fuel env Hn Hl; [apply flatten_both_nil|].
  inversion Hn as [|g0 r0 Hg Hrest]; subst g0 r0. cbn [List.length] in Hl.
  destruct fuel as [|f]; [lia|]. rewrite flatten_both_cons. rewrite (IH f env Hrest) by lia.
  destruct (as_include g) as [[v line]|] eqn:Hai.
  - apply as_include_some in Hai. subst g. cbn in Hg. discriminate.
  - rewrite Hg. reflexivity.
Qed.

(* ---------- THE theorem: any number of includes, any nesting depth ---------- *)
Theorem C14_flatten_any_depth_gen : forall fuel env sk fname fname' o pending ts s s' im ic im' ic' gs flat trees,
  parse_groups fuel o pending ts = (gs, None) -> List.length gs < fuel ->
  flatten_both fuel env gs = Some (flat, trees) -> sim s s' ->
  sim (fst (parse_tokens fuel env sk fname o pending ts s im ic))
      (fst (consume env sk fname' no_inc flat s' im' ic')) /\
  res_sim (snd (parse_tokens fuel env sk fname o pending ts s im ic))
          (snd (consume env sk fname' no_inc flat s' im' ic')).
Proof.
  induction fuel as [|f IH];
    intros env sk fname fname' o pending ts s s' im ic im' ic' gs flat trees Hpg Hl Hfl Hs; [lia|].
  rewrite parse_tokens_S. rewrite parse_groups_S in Hpg.
  destruct (parse_statement o pending ts) as [[[[stmts ts1] p1]|]|e] eqn:Hps.
  - destruct (parse_groups f o p1 ts1) as [gs' e'] eqn:Hpg'. inversion Hpg; subst gs e'. clear Hpg.
    cbn [List.length] in Hl. assert (Hl' : List.length gs' < f) by lia.
    rewrite flatten_both_cons in Hfl.
    destruct (flatten_both f env gs') as [[frest trest]|] eqn:Hfr; [|discriminate].
    destruct (as_include stmts) as [[v line]|] eqn:Hai.
    + (* an include group *)
      apply as_include_some in Hai. subst stmts.
      destruct (resolve_file env (str_of_value v)) as [[full gf]|] eqn:Hres; [|discriminate].
      destruct (settle (f_tokens gf)) as [ts0|pe0] eqn:Hset; [|discriminate].
      destruct (parse_groups f (f_oracle gf) false ts0) as [gs2 [pe2|]] eqn:Hpg2; [discriminate|].
      destruct (Nat.ltb_spec (List.length gs2) f) as [Hl2|_]; [|discriminate].
      destruct (flatten_both f env gs2) as [[f2 t2]|] eqn:Hf2; [|discriminate].
      inversion Hfl; subst flat trees. clear Hfl.
      rewrite resolve_group_other by (intros; discriminate). rewrite resolve_group_nil.
      rewrite C14_include_step. unfold inc_of. rewrite Hres, Hset. rewrite consume_app.
      pose proof (IH env sk full fname' (f_oracle gf) false ts0 s s' [] [] im' ic' gs2 f2 t2 Hpg2 Hl2 Hf2 Hs)
        as [A1 A2].
      destruct (parse_tokens f env sk full (f_oracle gf) false ts0 s [] []) as [s2 r2].
      destruct (consume env sk fname' no_inc f2 s' im' ic') as [s2' r2'].
      cbn [fst snd] in A1, A2.
      destruct r2 as [[im2 ic2]|e2], r2' as [[im2' ic2']|e2']; try contradiction; cbv beta iota.
      * apply (IH env sk fname fname' o p1 ts1 s2 s2' im (ic ++ [INode (str_of_value v) im2 ic2]) im2' ic2'
                  gs' frest trest Hpg' Hl' Hfr A1).
      * rewrite with_loc_SErr. cbn [fst snd res_sim]. split; [exact A1|apply err_sim_with_loc_l; exact A2].
    + (* an include-free group *)
      destruct (forallb (fun st => negb (is_include st)) stmts) eqn:Hn; [|discriminate].
      inversion Hfl; subst flat trees. clear Hfl. cbn [consume].
      pose proof (resolve_group_sim sk fname fname' stmts s s' (proj1 Hs) (proj1 (proj2 Hs))) as R.
      destruct (resolve_group s sk fname stmts) as [a|e] eqn:Ra, (resolve_group s' sk fname' stmts) as [b|e'];
        try contradiction.
      * subst b.
        assert (Ha : forallb (fun st => negb (is_include st)) a = true)
          by (rewrite (resolve_group_noinc _ _ _ _ _ Ra); exact Hn).
        rewrite (apply_stmts_inc_indep env sk fname (inc_of f env sk) no_inc a s im ic Ha).
        pose proof (apply_stmts_sim env sk fname fname' no_inc no_inc a s s' im ic im' ic' Ha Hs) as [A1 A2].
        destruct (apply_stmts env sk fname no_inc a s im ic) as [s1 r1].
        destruct (apply_stmts env sk fname' no_inc a s' im' ic') as [s1' r1'].
        cbn [fst snd] in A1, A2.
        destruct r1 as [[im1 ic1]|e1], r1' as [[im1' ic1']|e1']; try contradiction.
        -- apply (IH env sk fname fname' o p1 ts1 s1 s1' im1 ic1 im1' ic1' gs' frest trest Hpg' Hl' Hfr A1).
        -- cbn [fst snd]. split; assumption.
      * cbn [fst snd]. split; [exact Hs|exact R].
  - inversion Hpg; subst gs. rewrite flatten_both_nil in Hfl. inversion Hfl; subst flat trees.
    cbn [consume fst snd res_sim]. split; [exact Hs|exact I].
  - discriminate.
Qed.

(* in the requested form *)
Theorem C14_flatten_any_depth : forall fuel env sk fname o pending ts s im ic gs flat,
  parse_groups fuel o pending ts = (gs, None) -> List.length gs < fuel ->
  flatten_groups fuel env gs = Some flat ->
  sim (fst (parse_tokens fuel env sk fname o pending ts s im ic))
      (fst (consume env sk fname no_inc flat s im ic)) /\
  res_sim (snd (parse_tokens fuel env sk fname o pending ts s im ic))
          (snd (consume env sk fname no_inc flat s im ic)).
Proof.
  intros fuel env sk fname o pending ts s im ic gs flat Hpg Hl Hfl. unfold flatten_groups in Hfl.
  destruct (flatten_both fuel env gs) as [[fl tr]|] eqn:Hb; [|discriminate]. cbn in Hfl. inversion Hfl; subst fl.
  apply (C14_flatten_any_depth_gen fuel env sk fname fname o pending ts s s im ic im ic gs flat tr Hpg Hl Hb (sim_refl s)).
Qed.

(* ---------- the include tree mirrors the include structure ---------- *)
Lemma apply_stmts_noinc_outputs : forall env sk fname inc stmts s im ic s1 im1 ic1,
  forallb (fun st => negb (is_include st)) stmts = true ->
  apply_stmts env sk fname inc stmts s im ic = (s1, SOk (im1, ic1)) ->
  im1 = im ++ flat_map (stmt_imports env) stmts /\ ic1 = ic.
Proof.
  intros env sk fname inc stmts. induction stmts as [|st rest IH]; intros s im ic s1 im1 ic1 Hn H.
  - cbn [apply_stmts] in H. inversion H. cbn [flat_map]. rewrite app_nil_r. auto.
  - cbn [forallb] in Hn. apply andb_true_iff in Hn. destruct Hn as [Hst Hrest].
    destruct st as [sc sel arg v line|sc sel line|m isf al line|v line]; cbn [apply_stmts] in H;
      cbn [flat_map stmt_imports app].
    + destruct (String.eqb arg "").
      * destruct (bind s _ "gin.macro" "value" v (fname, line)) as [s0|e];
          [eapply IH; eassumption|rewrite with_loc_SErr in H; discriminate].
      * destruct (should_skip s sel sk); [eapply IH; eassumption|].
        destruct (bind s sc sel arg v (fname, line)) as [s0|e];
          [eapply IH; eassumption|rewrite with_loc_SErr in H; discriminate].
    + destruct (should_skip s sel sk); [eapply IH; eassumption|].
      destruct (sm_get_match (to_key sel) (t_reg s)) as [| |k [c|]]; try discriminate. eapply IH; eassumption.
    + destruct (str_in m (e_modules env)).
      * destruct (register_mod env m s) as [s0|e]; [|rewrite with_loc_SErr in H; discriminate].
        destruct (IH _ _ _ _ _ _ Hrest H) as [A B]. subst im1. rewrite <- app_assoc. auto.
      * destruct (sk_truthy sk); [|discriminate]. cbn [app]. eapply IH; eassumption.
    + cbn in Hst. discriminate.
Qed.

Lemma stmt_imports_strip : forall env st, stmt_imports env st = stmt_imports env (strip st).
Proof. intros env [sc sel arg v line|sc sel line|m isf al line|v line]; reflexivity. Qed.

(* on success: the returned imports are the caller's plus the importable modules of the file's OWN statements, and
   the returned include list is the caller's plus one tree per top-level include, in order; each tree is
   INode (name as written) (imports of that file's own statements) (trees of ITS includes) *)
Theorem C14_tree_mirrors_includes : forall fuel env sk fname o pending ts s im ic gs flat trees s1 imR icR,
  parse_groups fuel o pending ts = (gs, None) -> List.length gs < fuel ->
  flatten_both fuel env gs = Some (flat, trees) ->
  parse_tokens fuel env sk fname o pending ts s im ic = (s1, SOk (imR, icR)) ->
  imR = im ++ imports_of env gs /\ icR = ic ++ trees.
Proof.
  induction fuel as [|f IH];
    intros env sk fname o pending ts s im ic gs flat trees s1 imR icR Hpg Hl Hfl H; [lia|].
  rewrite parse_tokens_S in H. rewrite parse_groups_S in Hpg.
  destruct (parse_statement o pending ts) as [[[[stmts ts1] p1]|]|e] eqn:Hps.
  - destruct (parse_groups f o p1 ts1) as [gs' e'] eqn:Hpg'. inversion Hpg; subst gs e'. clear Hpg.
    cbn [List.length] in Hl. assert (Hl' : List.length gs' < f) by lia.
    rewrite flatten_both_cons in Hfl.
    destruct (flatten_both f env gs') as [[frest trest]|] eqn:Hfr; [|discriminate].
    unfold imports_of. cbn [flat_map]. fold (imports_of env gs').
    destruct (as_include stmts) as [[v line]|] eqn:Hai.
    + apply as_include_some in Hai. subst stmts.
      destruct (resolve_file env (str_of_value v)) as [[full gf]|] eqn:Hres; [|discriminate].
      destruct (settle (f_tokens gf)) as [ts0|pe0] eqn:Hset; [|discriminate].
      destruct (parse_groups f (f_oracle gf) false ts0) as [gs2 [pe2|]] eqn:Hpg2; [discriminate|].
      destruct (Nat.ltb_spec (List.length gs2) f) as [Hl2|_]; [|discriminate].
      destruct (flatten_both f env gs2) as [[f2 t2]|] eqn:Hf2; [|discriminate].
      inversion Hfl; subst flat trees. clear Hfl.
      rewrite resolve_group_other in H by (intros; discriminate). rewrite resolve_group_nil in H.
      rewrite C14_include_step in H. unfold inc_of in H. rewrite Hres, Hset in H.
      destruct (parse_tokens f env sk full (f_oracle gf) false ts0 s [] []) as [s2 r2] eqn:Hp2.
      destruct r2 as [[im2 ic2]|e2]; cbv beta iota in H.
      * destruct (IH env sk full (f_oracle gf) false ts0 s [] [] gs2 f2 t2 s2 im2 ic2 Hpg2 Hl2 Hf2 Hp2) as [B1 B2].
        cbn [app] in B1, B2. subst im2 ic2.
        destruct (IH env sk fname o p1 ts1 s2 im (ic ++ [INode (str_of_value v) (imports_of env gs2) t2])
                     gs' frest trest s1 imR icR Hpg' Hl' Hfr H) as [C1 C2].
        subst imR icR. cbn [flat_map stmt_imports app]. rewrite <- app_assoc. auto.
      * rewrite with_loc_SErr in H. discriminate.
    + destruct (forallb (fun st => negb (is_include st)) stmts) eqn:Hn; [|discriminate].
      inversion Hfl; subst flat trees. clear Hfl.
      destruct (resolve_group s sk fname stmts) as [a|e] eqn:Ra; [|discriminate].
      assert (Ha : forallb (fun st => negb (is_include st)) a = true)
        by (rewrite (resolve_group_noinc _ _ _ _ _ Ra); exact Hn).
      destruct (apply_stmts env sk fname (inc_of f env sk) a s im ic) as [s0 r0] eqn:Hap.
      destruct r0 as [[im0 ic0]|e0]; [|discriminate].
      destruct (apply_stmts_noinc_outputs _ _ _ _ _ _ _ _ _ _ _ Ha Hap) as [B1 B2]. subst im0 ic0.
      rewrite (strip_flat_map _ (stmt_imports env) (stmt_imports_strip env) a stmts
                 (resolve_group_strip _ _ _ _ _ Ra)) in H.
      destruct (IH env sk fname o p1 ts1 s0 _ ic gs' frest trest s1 imR icR Hpg' Hl' Hfr H) as [C1 C2].
      subst imR icR. rewrite <- app_assoc. auto.
  - inversion Hpg; subst gs. rewrite flatten_both_nil in Hfl. inversion Hfl; subst flat trees.
    inversion H; subst. cbn [imports_of flat_map]. rewrite !app_nil_r. auto.
  - discriminate.
Qed.

(* ---------- the entry points ---------- *)
Theorem C14_parse_config_any_depth : forall env sk fname g s ts gs flat trees,
  settle (f_tokens g) = POk ts -> parse_groups 60 (f_oracle g) false ts = (gs, None) -> List.length gs < 60 ->
  flatten_both 60 env gs = Some (flat, trees) ->
  sim (fst (parse_config env sk fname g s)) (fst (consume env sk fname no_inc flat s [] [])) /\
  res_sim (snd (parse_config env sk fname g s)) (snd (consume env sk fname no_inc flat s [] [])) /\
  (forall s1 imR icR, parse_config env sk fname g s = (s1, SOk (imR, icR)) -> imR = imports_of env gs /\ icR = trees).
Proof.
  intros env sk fname g s ts gs flat trees Hset Hpg Hl Hfl. unfold parse_config. rewrite Hset.
  destruct (C14_flatten_any_depth_gen 60 env sk fname fname (f_oracle g) false ts s s [] [] [] [] gs flat trees
              Hpg Hl Hfl (sim_refl s)) as [A B].
  split; [exact A|]. split; [exact B|].
  intros s1 imR icR H. apply (C14_tree_mirrors_includes 60 env sk fname (f_oracle g) false ts s [] [] gs flat trees
                                s1 imR icR Hpg Hl Hfl H).
Qed.

Theorem C14_parse_config_file_any_depth : forall env sk name full g s ts gs flat trees,
  resolve_file env name = Some (full, g) ->
  settle (f_tokens g) = POk ts -> parse_groups 60 (f_oracle g) false ts = (gs, None) -> List.length gs < 60 ->
  flatten_both 60 env gs = Some (flat, trees) ->
  sim (fst (parse_config_file env sk name s)) (fst (consume env sk full no_inc flat s [] [])) /\
  res_sim (snd (parse_config_file env sk name s)) (snd (consume env sk full no_inc flat s [] [])) /\
  (forall s1 t, parse_config_file env sk name s = (s1, SOk t) -> t = INode name (imports_of env gs) trees).
Proof.
  intros env sk name full g s ts gs flat trees Hres Hset Hpg Hl Hfl.
  destruct (C14_parse_config_any_depth env sk full g s ts gs flat trees Hset Hpg Hl Hfl) as [A [B C]].
  unfold parse_config_file. rewrite Hres.
  destruct (parse_config env sk full g s) as [s' r]. cbn [fst snd] in A, B.
  destruct r as [[imR icR]|e].
  - cbn [fst snd]. split; [exact A|]. split; [exact B|].
    intros s1 t H. inversion H; subst s1 t. destruct (C s' imR icR eq_refl) as [C1 C2]. subst. reflexivity.
  - cbn [fst snd]. split; [exact A|]. split; [exact B|]. intros s1 t H. discriminate.
Qed.

(* ================================================================== *)
(* frames that hold WITH includes: registry, constants and lock       *)
(* ================================================================== *)
Definition frame3 (env : fenv) (s s' : tstate) : Prop :=
  reg_extends env s s' /\ t_consts s' = t_consts s /\ t_locked s' = t_locked s.
Lemma frame3_refl : forall env s, frame3 env s s.
Proof. intros env s. split; [apply reg_extends_refl|]. split; reflexivity. Qed.
Lemma frame3_trans : forall env a b c, frame3 env a b -> frame3 env b c -> frame3 env a c.
Proof.
  intros env a b c [A1 [A2 A3]] [B1 [B2 B3]]. split; [eapply reg_extends_trans; eassumption|]. split; congruence.
Qed.
Lemma frame3_add_imports : forall env l s, frame3 env s (add_imports l s).
Proof. intros env l s. split; [apply reg_extends_eq; reflexivity|]. split; reflexivity. Qed.
Lemma frame_gen_frame3 : forall env s s', frame_gen env s s' -> frame3 env s s'.
Proof. intros env s s' [A [B [_ C]]]. split; [exact A|]. split; assumption. Qed.
Lemma bind_frame3 : forall env s sc sel arg v l s', bind s sc sel arg v l = SOk s' -> frame3 env s s'.
Proof. intros env s sc sel arg v l s' H. apply frame_gen_frame3. eapply bind_frame_gen; exact H. Qed.
(* with side-effect-free imports the registry is untouched *)
Lemma frame3_pure : forall env s s', pure_imports env -> frame3 env s s' ->
  t_reg s' = t_reg s /\ t_consts s' = t_consts s /\ t_locked s' = t_locked s.
Proof. intros env s s' Hp [A [B C]]. split; [apply (reg_extends_pure env s s' Hp A)|]. auto. Qed.

Lemma apply_stmts_frame_inc : forall env sk fname inc stmts s im ic,
  (forall name s0, frame3 env s0 (fst (inc name s0))) ->
  frame3 env s (fst (apply_stmts env sk fname inc stmts s im ic)).
Proof.
  intros env sk fname inc stmts. induction stmts as [|st rest IH]; intros s im ic Hinc.
  - apply frame3_refl.
  - destruct st as [sc sel arg v line|sc sel line|m isf al line|v line]; cbn [apply_stmts].
    + destruct (String.eqb arg "").
      * destruct (bind s _ "gin.macro" "value" v (fname, line)) as [s0|e] eqn:Hb; [|apply frame3_refl].
        eapply frame3_trans; [eapply bind_frame3; exact Hb|apply IH; exact Hinc].
      * destruct (should_skip s sel sk); [apply IH; exact Hinc|].
        destruct (bind s sc sel arg v (fname, line)) as [s0|e] eqn:Hb; [|apply frame3_refl].
        eapply frame3_trans; [eapply bind_frame3; exact Hb|apply IH; exact Hinc].
    + destruct (should_skip s sel sk); [apply IH; exact Hinc|].
      destruct (sm_get_match (to_key sel) (t_reg s)) as [| |k [c|]]; try apply frame3_refl. apply IH; exact Hinc.
    + destruct (str_in m (e_modules env)).
      * destruct (register_mod env m s) as [s0|e] eqn:Hreg; [|apply frame3_refl].
        eapply frame3_trans; [apply frame_gen_frame3; eapply register_mod_frame_gen; exact Hreg|].
        eapply frame3_trans; [apply (frame3_add_imports env [m] s0)|apply IH; exact Hinc].
      * destruct (sk_truthy sk); [apply IH; exact Hinc|apply frame3_refl].
    + pose proof (Hinc (str_of_value v) s) as F. destruct (inc (str_of_value v) s) as [s0 r0]. cbn [fst] in F.
      destruct r0 as [t|e]; [|exact F].
      eapply frame3_trans; [exact F|apply IH; exact Hinc].
Qed.

(* parsing -- with any includes, at any fuel, succeeding or failing -- never changes constants or lock, and the
   registry only grows by what the imported modules register *)
Theorem parse_tokens_frame : forall fuel env sk fname o pending ts s im ic,
  frame3 env s (fst (parse_tokens fuel env sk fname o pending ts s im ic)).
Proof.
  induction fuel as [|f IH]; intros env sk fname o pending ts s im ic; [apply frame3_refl|].
  rewrite parse_tokens_S.
  destruct (parse_statement o pending ts) as [[[[stmts ts1] p1]|]|e]; [|apply frame3_refl|apply frame3_refl].
  destruct (resolve_group s sk fname stmts) as [a|e]; [|apply frame3_refl].
  assert (Hinc : forall name s0, frame3 env s0 (fst (inc_of f env sk name s0))).
  { intros name s0. unfold inc_of. destruct (resolve_file env name) as [[full gf]|]; [|apply frame3_refl].
    destruct (settle (f_tokens gf)) as [ts0|[ln|c]]; try apply frame3_refl.
    pose proof (IH env sk full (f_oracle gf) false ts0 s0 [] []) as F.
    destruct (parse_tokens f env sk full (f_oracle gf) false ts0 s0 [] []) as [s2 r2]. cbn [fst] in F.
    destruct r2 as [[im2 ic2]|e2]; exact F. }
  pose proof (apply_stmts_frame_inc env sk fname (inc_of f env sk) a s im ic Hinc) as F.
  destruct (apply_stmts env sk fname (inc_of f env sk) a s im ic) as [s1 r1]. cbn [fst] in F.
  destruct r1 as [[im1 ic1]|e1]; [|exact F].
  eapply frame3_trans; [exact F|apply IH].
Qed.

Theorem parse_config_frame : forall env sk fname g s, frame3 env s (fst (parse_config env sk fname g s)).
Proof.
  intros env sk fname g s. unfold parse_config.
  destruct (settle (f_tokens g)) as [ts|[ln|c]]; try apply frame3_refl. apply parse_tokens_frame.
Qed.

Theorem parse_config_file_frame : forall env sk name s, frame3 env s (fst (parse_config_file env sk name s)).
Proof.
  intros env sk name s. unfold parse_config_file. destruct (resolve_file env name) as [[full g]|]; [|apply frame3_refl].
  pose proof (parse_config_frame env sk full g s) as F.
  destruct (parse_config env sk full g s) as [s' r]. cbn [fst] in F. destruct r as [[im ic]|e]; exact F.
Qed.

(* ================================================================== *)
(* (B) the multi-file entry point parse_config_files_and_bindings     *)
(* ================================================================== *)
(* files in the order given, stopping at the first error *)
Fixpoint parse_files (env : fenv) (sk : skip_unknown) (files : list string) (s : tstate) : tstate * sres (list itree) :=
  match files with
  | [] => (s, SOk [])
  | f :: rest =>
      let '(s1, r) := parse_config_file env sk f s in
      match r with
      | SErr e => (s1, SErr e)
      | SOk t => let '(s2, r2) := parse_files env sk rest s1 in
                 (s2, match r2 with SErr e => SErr e | SOk ts => SOk (t :: ts) end)
      end
  end.

(* finalize, as modelled: lock; a second finalize is the RuntimeError *)
Definition finalize_step (fin : bool) (trees : list itree) (s2 : tstate) : tstate * out :=
  if fin then
    if t_locked s2 then (s2, OT "Err" [OS "RuntimeError"; OL []])
    else (set_locked true s2, OT "Ok" [OL (map itree_out trees)])
  else (s2, OT "Ok" [OL (map itree_out trees)]).

Definition files_step (env : fenv) (sk : skip_unknown) (acc : tstate * sres (list itree)) (f : string)
  : tstate * sres (list itree) :=
  let '(s, r) := acc in
  match r with
  | SErr e => (s, SErr e)
  | SOk trees =>
      let '(s', r') := parse_config_file env sk f s in
      match r' with SErr e => (s', SErr e) | SOk t => (s', SOk (trees ++ [t])) end
  end.

Lemma run_call2_files : forall env s files b fin sk,
  run_call2 env s (PFilesBindings files b fin sk) =
  (let '(s1, r) := fold_left (files_step env sk) files (s, SOk []) in
   match r with
   | SErr e => (s1, serr_out e)
   | SOk trees =>
       let '(s2, r2) := parse_config env sk "" b s1 in
       match r2 with SErr e => (s2, serr_out e) | SOk _ => finalize_step fin trees s2 end
   end).
Proof. reflexivity. Qed.

Lemma fold_files_err : forall env sk files s e, fold_left (files_step env sk) files (s, SErr e) = (s, SErr e).
Proof. intros env sk files. induction files as [|f rest IH]; intros s e; [reflexivity|]. cbn [fold_left files_step]. apply IH. Qed.

Lemma fold_files : forall env sk files s acc,
  fold_left (files_step env sk) files (s, SOk acc) =
  (let '(s1, r) := parse_files env sk files s in
   (s1, match r with SErr e => SErr e | SOk ts => SOk (acc ++ ts) end)).
Proof.
  intros env sk files. induction files as [|f rest IH]; intros s acc.
  - cbn [fold_left parse_files]. rewrite app_nil_r. reflexivity.
  - cbn [fold_left parse_files]. unfold files_step at 2.
    destruct (parse_config_file env sk f s) as [s' r']. destruct r' as [t|e].
    + rewrite IH. destruct (parse_files env sk rest s') as [s2 r2]. destruct r2 as [ts|e2]; [|reflexivity].
      rewrite <- app_assoc. reflexivity.
    + apply fold_files_err.
Qed.

(* the entry point = files in order (stop at first error), then the bindings, then finalize iff asked *)
Theorem C14_files_then_bindings_then_finalize : forall env s files b fin sk,
  run_call2 env s (PFilesBindings files b fin sk) =
  (let '(s1, r) := parse_files env sk files s in
   match r with
   | SErr e => (s1, serr_out e)
   | SOk trees =>
       let '(s2, r2) := parse_config env sk "" b s1 in
       match r2 with
       | SErr e => (s2, serr_out e)
       | SOk _ => finalize_step fin trees s2
       end
   end).
Proof.
  intros env s files b fin sk. rewrite run_call2_files, fold_files.
  destruct (parse_files env sk files s) as [s1 r]. destruct r as [ts|e]; reflexivity.
Qed.

Lemma parse_files_app : forall env sk a b s,
  parse_files env sk (a ++ b) s =
  (let '(s1, r) := parse_files env sk a s in
   match r with
   | SErr e => (s1, SErr e)
   | SOk ta => let '(s2, r2) := parse_files env sk b s1 in
               (s2, match r2 with SErr e => SErr e | SOk tb => SOk (ta ++ tb) end)
   end).
Proof.
  intros env sk a. induction a as [|f a IH]; intros b s.
  - cbn [app parse_files]. destruct (parse_files env sk b s) as [s2 r2]. destruct r2; reflexivity.
  - cbn [app parse_files]. destruct (parse_config_file env sk f s) as [s1 r1]. destruct r1 as [t|e]; [|reflexivity].
    rewrite IH. destruct (parse_files env sk a s1) as [s2 r2]. destruct r2 as [ta|e]; [|reflexivity].
    destruct (parse_files env sk b s2) as [s3 r3]. destruct r3; reflexivity.
Qed.

(* the first failing file ends the call: its error is the result, the state is the one it left, the later files,
   the bindings and finalize are never looked at *)
Theorem C14_entry_stops_at_first_error : forall env sk fs1 f fs2 b fin s s1 ts1 s2 e,
  parse_files env sk fs1 s = (s1, SOk ts1) -> parse_config_file env sk f s1 = (s2, SErr e) ->
  run_call2 env s (PFilesBindings (fs1 ++ f :: fs2) b fin sk) = (s2, serr_out e).
Proof.
  intros env sk fs1 f fs2 b fin s s1 ts1 s2 e H1 H2.
  rewrite C14_files_then_bindings_then_finalize, parse_files_app, H1. cbn [parse_files]. rewrite H2. reflexivity.
Qed.
(* in particular the result does not depend on them *)
Corollary C14_entry_later_files_untouched : forall env sk fs1 f fs2 fs2' b b' fin fin' s s1 ts1 s2 e,
  parse_files env sk fs1 s = (s1, SOk ts1) -> parse_config_file env sk f s1 = (s2, SErr e) ->
  run_call2 env s (PFilesBindings (fs1 ++ f :: fs2) b fin sk) =
  run_call2 env s (PFilesBindings (fs1 ++ f :: fs2') b' fin' sk).
Proof.
  intros env sk fs1 f fs2 fs2' b b' fin fin' s s1 ts1 s2 e H1 H2.
  rewrite (C14_entry_stops_at_first_error env sk fs1 f fs2 b fin s s1 ts1 s2 e H1 H2).
  rewrite (C14_entry_stops_at_first_error env sk fs1 f fs2' b' fin' s s1 ts1 s2 e H1 H2). reflexivity.
Qed.

Lemma parse_files_frame : forall env sk files s, frame3 env s (fst (parse_files env sk files s)).
Proof.
  intros env sk files. induction files as [|f rest IH]; intros s; [apply frame3_refl|].
  cbn [parse_files]. pose proof (parse_config_file_frame env sk f s) as F.
  destruct (parse_config_file env sk f s) as [s1 r1]. cbn [fst] in F. destruct r1 as [t|e]; [|exact F].
  pose proof (IH s1) as G. destruct (parse_files env sk rest s1) as [s2 r2]. cbn [fst] in *.
  eapply frame3_trans; eassumption.
Qed.

(* the state just before the finalize step has the lock (registry, constants) of the start state *)
Lemma entry_frame_no_finalize : forall env s files b sk,
  frame3 env s (fst (run_call2 env s (PFilesBindings files b false sk))).
Proof.
  intros env s files b sk. rewrite C14_files_then_bindings_then_finalize.
  pose proof (parse_files_frame env sk files s) as F.
  destruct (parse_files env sk files s) as [s1 r1]. cbn [fst] in F. destruct r1 as [ts|e]; [|exact F].
  pose proof (parse_config_frame env sk "" b s1) as G.
  destruct (parse_config env sk "" b s1) as [s2 r2]. cbn [fst] in G.
  destruct r2 as [[im ic]|e]; cbn [finalize_step fst]; eapply frame3_trans; eassumption.
Qed.

(* without finalize the lock is unchanged, whatever happens *)
Theorem C14_entry_no_finalize_keeps_lock : forall env s files b sk,
  t_locked (fst (run_call2 env s (PFilesBindings files b false sk))) = t_locked s.
Proof. intros env s files b sk. destruct (entry_frame_no_finalize env s files b sk) as [_ [_ H]]. exact H. Qed.

(* with finalize: same state as without except for the lock, which is set exactly when everything succeeded *)
Theorem C14_entry_finalize_locks_iff_ok : forall env s files b sk,
  let '(s0, o0) := run_call2 env s (PFilesBindings files b false sk) in
  let '(s1, o1) := run_call2 env s (PFilesBindings files b true sk) in
  match o0 with
  | OT "Ok" _ => if t_locked s then s1 = s0 /\ o1 = OT "Err" [OS "RuntimeError"; OL []]
                 else s1 = set_locked true s0 /\ o1 = o0
  | _ => s1 = s0 /\ o1 = o0
  end.
Proof.
  intros env s files b sk. rewrite !C14_files_then_bindings_then_finalize.
  pose proof (parse_files_frame env sk files s) as F.
  destruct (parse_files env sk files s) as [s1 r1]. cbn [fst] in F. destruct r1 as [ts|e].
  - pose proof (parse_config_frame env sk "" b s1) as G.
    destruct (parse_config env sk "" b s1) as [s2 r2]. cbn [fst] in G. destruct r2 as [[im ic]|e].
    + cbn [finalize_step].
      assert (L : t_locked s2 = t_locked s) by (destruct F as [_ [_ F3]], G as [_ [_ G3]]; congruence).
      rewrite L. destruct (t_locked s); auto.
    + destruct e as [f l|c ch]; cbn [serr_out]; auto.
  - destruct e as [f l|c ch]; cbn [serr_out]; auto.
Qed.

(* ================================================================== *)
(* (C) without skip_unknown, an unknown name is an error at every     *)
(*     parsing entry point                                            *)
(* ================================================================== *)
(* the statement targets a configurable no registered name matches *)
Definition unknown_target (s : tstate) (st : stmt) : bool :=
  match st with
  | SBind _ sel arg _ _ =>
      negb (String.eqb arg "") && match sm_matching (to_key sel) (t_reg s) with [] => true | _ :: _ => false end
  | SBlock _ sel _ => match sm_matching (to_key sel) (t_reg s) with [] => true | _ :: _ => false end
  | _ => false
  end.
Definition has_unknown (s : tstate) (gs : list (list stmt)) : Prop :=
  Exists (fun g => existsb (unknown_target s) g = true) gs.

Lemma unknown_target_strip : forall s st, unknown_target s st = unknown_target s (strip st).
Proof. intros s [sc sel arg v line|sc sel line|m isf al line|v line]; reflexivity. Qed.
Lemma unknown_target_reg : forall s s' st, t_reg s' = t_reg s -> unknown_target s' st = unknown_target s st.
Proof. intros s s' st H. destruct st; cbn [unknown_target]; rewrite ?H; reflexivity. Qed.

Lemma bind_unknown_errors : forall s sc sel arg v l, sm_matching (to_key sel) (t_reg s) = [] ->
  exists e, bind s sc sel arg v l = SErr e.
Proof.
  intros s sc sel arg v l H. unfold bind. destruct (t_locked s); [eexists; reflexivity|].
  rewrite (proj2 (get_match_none_matching _ _ _) H). eexists; reflexivity.
Qed.

Lemma apply_stmts_unknown_errors : forall env fname inc s0 stmts s im ic,
  pure_imports env ->
  forallb (fun st => negb (is_include st)) stmts = true ->
  existsb (unknown_target s0) stmts = true -> t_reg s = t_reg s0 ->
  exists e, snd (apply_stmts env SkFalse fname inc stmts s im ic) = SErr e.
Proof.
  intros env fname inc s0 stmts. induction stmts as [|st rest IH]; intros s im ic Hpure Hn Hu Hreg.
  - discriminate.
  - cbn [forallb] in Hn. apply andb_true_iff in Hn. destruct Hn as [Hst Hrest].
    cbn [existsb] in Hu. rewrite <- (unknown_target_reg s0 s st Hreg) in Hu.
    assert (Hb : forall sc sel arg v l s1, bind s sc sel arg v l = SOk s1 -> t_reg s1 = t_reg s0).
    { intros sc sel arg v l s1 Hbind. destruct (bind_ok_frame _ _ _ _ _ _ _ Hbind) as [B1 _]. congruence. }
    destruct st as [sc sel arg v line|sc sel line|m isf al line|v line]; cbn [apply_stmts]; cbn [unknown_target] in Hu.
    + destruct (String.eqb arg "") eqn:Ea; cbn [negb andb orb] in Hu.
      * destruct (bind s _ "gin.macro" "value" v (fname, line)) as [s1|e] eqn:Hbind.
        -- apply IH; try assumption. eapply Hb; exact Hbind.
        -- rewrite with_loc_SErr. eexists; reflexivity.
      * rewrite C15_skip_false.
        destruct (sm_matching (to_key sel) (t_reg s)) as [|k l] eqn:Em; cbn [orb] in Hu.
        -- destruct (bind_unknown_errors s sc sel arg v (fname, line) Em) as [e He]. rewrite He.
           rewrite with_loc_SErr. eexists; reflexivity.
        -- destruct (bind s sc sel arg v (fname, line)) as [s1|e] eqn:Hbind.
           ++ apply IH; try assumption. eapply Hb; exact Hbind.
           ++ rewrite with_loc_SErr. eexists; reflexivity.
    + rewrite C15_skip_false.
      destruct (sm_matching (to_key sel) (t_reg s)) as [|k l] eqn:Em; cbn [orb] in Hu.
      * rewrite (proj2 (get_match_none_matching _ _ _) Em). eexists; reflexivity.
      * destruct (sm_get_match (to_key sel) (t_reg s)) as [| |k' [c|]]; try (eexists; reflexivity).
        apply IH; assumption.
    + cbn [orb] in Hu.
      destruct (str_in m (e_modules env)); [rewrite (register_mod_pure env m s Hpure); apply IH; assumption|].
      cbn [sk_truthy].
      eexists; reflexivity.
    + cbn in Hst. discriminate.
Qed.

Lemma consume_unknown_errors : forall env fname s0 gs s im ic,
  pure_imports env -> no_includes gs -> has_unknown s0 gs -> t_reg s = t_reg s0 ->
  exists e, snd (consume env SkFalse fname no_inc gs s im ic) = SErr e.
Proof.
  intros env fname s0 gs. induction gs as [|g rest IH]; intros s im ic Hpure Hn Hu Hreg.
  - inversion Hu.
  - inversion Hn as [|g0 r0 Hg Hrest]; subst g0 r0. cbn [consume].
    destruct (resolve_group s SkFalse fname g) as [g'|e] eqn:Hr; [|eexists; reflexivity].
    assert (Hg' : forallb (fun st => negb (is_include st)) g' = true)
      by (rewrite (resolve_group_noinc _ _ _ _ _ Hr); exact Hg).
    destruct (apply_stmts env SkFalse fname no_inc g' s im ic) as [s1 r1] eqn:Ha.
    inversion Hu as [g0 r0 Hhead|g0 r0 Htail]; subst g0 r0.
    + rewrite <- (strip_existsb _ (unknown_target_strip s0) g' g (resolve_group_strip _ _ _ _ _ Hr)) in Hhead.
      destruct (apply_stmts_unknown_errors env fname no_inc s0 g' s im ic Hpure Hg' Hhead Hreg) as [e He].
      rewrite Ha in He. cbn [snd] in He. subst r1. eexists; reflexivity.
    + destruct r1 as [[im1 ic1]|e1]; [|eexists; reflexivity].
      apply IH; try assumption.
      destruct (apply_stmts_frame _ _ _ _ _ _ _ _ _ _ Hpure Hg' Ha) as [B1 _]. congruence.
Qed.

(* parse_config(text) without skip_unknown: an include-free text with a statement targeting an unknown name never
   succeeds *)
Theorem C15_parse_tokens_unknown_is_error : forall fuel env fname o pending ts s im ic gs pe,
  pure_imports env ->
  parse_groups fuel o pending ts = (gs, pe) -> no_includes gs -> has_unknown s gs ->
  exists e, snd (parse_tokens fuel env SkFalse fname o pending ts s im ic) = SErr e.
Proof.
  intros fuel env fname o pending ts s im ic gs pe Hpure Hpg Hn Hu.
  rewrite (C16_stream_eq_gen _ _ _ _ _ _ _ _ _ _ _ _ Hpg Hn).
  destruct (consume_unknown_errors env fname s gs s im ic Hpure Hn Hu eq_refl) as [e He].
  destruct (consume env SkFalse fname no_inc gs s im ic) as [s1 r]. cbn [snd] in He. subst r.
  eexists; reflexivity.
Qed.

Theorem C15_parse_config_unknown_is_error : forall env fname g s ts gs pe,
  pure_imports env ->
  settle (f_tokens g) = POk ts -> parse_groups 60 (f_oracle g) false ts = (gs, pe) -> no_includes gs ->
  has_unknown s gs ->
  exists e, snd (parse_config env SkFalse fname g s) = SErr e.
Proof.
  intros env fname g s ts gs pe Hpure Hset Hpg Hn Hu. unfold parse_config. rewrite Hset.
  eapply C15_parse_tokens_unknown_is_error; eassumption.
Qed.

Theorem C15_parse_config_file_unknown_is_error : forall env name full g s ts gs pe,
  pure_imports env ->
  resolve_file env name = Some (full, g) ->
  settle (f_tokens g) = POk ts -> parse_groups 60 (f_oracle g) false ts = (gs, pe) -> no_includes gs ->
  has_unknown s gs ->
  exists e, snd (parse_config_file env SkFalse name s) = SErr e.
Proof.
  intros env name full g s ts gs pe Hpure Hres Hset Hpg Hn Hu. unfold parse_config_file. rewrite Hres.
  destruct (C15_parse_config_unknown_is_error env full g s ts gs pe Hpure Hset Hpg Hn Hu) as [e He].
  destruct (parse_config env SkFalse full g s) as [s' r]. cbn [snd] in He. subst r. eexists; reflexivity.
Qed.

Lemma existsb_ext' : forall (A : Type) (f g : A -> bool) l, (forall x, f x = g x) -> existsb f l = existsb g l.
Proof. intros A f g l H. induction l as [|x r IH]; [reflexivity|]. cbn [existsb]. rewrite H, IH. reflexivity. Qed.

Lemma has_unknown_reg : forall s s' gs, t_reg s' = t_reg s -> has_unknown s gs -> has_unknown s' gs.
Proof.
  intros s s' gs H Hu. unfold has_unknown in *. eapply Exists_impl; [|exact Hu].
  intros g Hg. cbn beta in *. rewrite <- Hg. apply existsb_ext'. intros st. apply unknown_target_reg. exact H.
Qed.

(* the multi-file entry point: unknown name in the bindings string (whatever the files did) *)
Theorem C15_entry_unknown_binding_is_error : forall env s files b fin ts gs pe,
  pure_imports env ->
  settle (f_tokens b) = POk ts -> parse_groups 60 (f_oracle b) false ts = (gs, pe) -> no_includes gs ->
  has_unknown s gs ->
  exists e, snd (run_call2 env s (PFilesBindings files b fin SkFalse)) = serr_out e.
Proof.
  intros env s files b fin ts gs pe Hpure Hset Hpg Hn Hu. rewrite C14_files_then_bindings_then_finalize.
  pose proof (parse_files_frame env SkFalse files s) as F.
  destruct (parse_files env SkFalse files s) as [s1 r1]. cbn [fst] in F.
  destruct r1 as [trees|e]; [|eexists; reflexivity].
  destruct (C15_parse_config_unknown_is_error env "" b s1 ts gs pe Hpure Hset Hpg Hn
              (has_unknown_reg s s1 gs (proj1 (frame3_pure env s s1 Hpure F)) Hu)) as [e He].
  destruct (parse_config env SkFalse "" b s1) as [s2 r2]. cbn [snd] in He. subst r2. eexists; reflexivity.
Qed.

(* ... and in one of the files (the ones before it having succeeded) *)
Theorem C15_entry_unknown_in_file_is_error : forall env s fs1 f fs2 b fin s1 ts1 full g ts gs pe,
  pure_imports env ->
  parse_files env SkFalse fs1 s = (s1, SOk ts1) ->
  resolve_file env f = Some (full, g) ->
  settle (f_tokens g) = POk ts -> parse_groups 60 (f_oracle g) false ts = (gs, pe) -> no_includes gs ->
  has_unknown s gs ->
  exists e, snd (run_call2 env s (PFilesBindings (fs1 ++ f :: fs2) b fin SkFalse)) = serr_out e.
Proof.
  intros env s fs1 f fs2 b fin s1 ts1 full g ts gs pe Hpure H1 Hres Hset Hpg Hn Hu.
  pose proof (parse_files_frame env SkFalse fs1 s) as F. rewrite H1 in F. cbn [fst] in F.
  destruct (C15_parse_config_file_unknown_is_error env f full g s1 ts gs pe Hpure Hres Hset Hpg Hn
              (has_unknown_reg s s1 gs (proj1 (frame3_pure env s s1 Hpure F)) Hu)) as [e He].
  destruct (parse_config_file env SkFalse f s1) as [s2 r2] eqn:Hp. cbn [snd] in He. subst r2.
  rewrite (C14_entry_stops_at_first_error env SkFalse fs1 f fs2 b fin s s1 ts1 s2 e H1 Hp).
  eexists; reflexivity.
Qed.

(* ---------- the precise form: which error, and what has been applied ---------- *)
(* generic: the groups before succeeded, the group resolved, the statements before [st] in it succeeded, and [st]
   fails in the state reached: that state and that error are the outcome (nothing after is looked at) *)
Lemma consume_fails_at : forall env sk fname gs1 g gs3 pre st post s im ic s0 im0 ic0 s1 im1 ic1 e,
  consume env sk fname no_inc gs1 s im ic = (s0, SOk (im0, ic0)) ->
  resolve_group s0 sk fname g = SOk (pre ++ st :: post) ->
  apply_stmts env sk fname no_inc pre s0 im0 ic0 = (s1, SOk (im1, ic1)) ->
  apply_stmts env sk fname no_inc (st :: post) s1 im1 ic1 = (s1, SErr e) ->
  consume env sk fname no_inc (gs1 ++ g :: gs3) s im ic = (s1, SErr e).
Proof.
  intros env sk fname gs1 g gs3 pre st post s im ic s0 im0 ic0 s1 im1 ic1 e H1 Hr Hp Hf.
  rewrite consume_app, H1. cbn [consume]. rewrite Hr, apply_stmts_app, Hp, Hf. reflexivity.
Qed.

(* the first statement that targets a configurable that is unknown WHEN THE STATEMENT IS REACHED (imports before it
   may have registered names): the parse fails with ValueError located at that statement, and the state is exactly the
   one reached by the groups before it and the statements before it in its own group *)
Theorem C15_first_unknown_is_ValueError_at_point : forall env fname gf s ts gs1 g gs3 pe pre sc sel arg v line post
                                                          s0 im0 ic0 s1 im1 ic1,
  settle (f_tokens gf) = POk ts ->
  parse_groups 60 (f_oracle gf) false ts = (gs1 ++ g :: gs3, pe) -> no_includes (gs1 ++ g :: gs3) ->
  consume env SkFalse fname no_inc gs1 s [] [] = (s0, SOk (im0, ic0)) ->
  resolve_group s0 SkFalse fname g = SOk (pre ++ SBind sc sel arg v line :: post) ->
  apply_stmts env SkFalse fname no_inc pre s0 im0 ic0 = (s1, SOk (im1, ic1)) ->
  arg <> "" -> sm_matching (to_key sel) (t_reg s1) = [] -> t_locked s = false ->
  parse_config env SkFalse fname gf s = (s1, SErr (SEOther "ValueError" [(fname, line)])).
Proof.
  intros env fname gf s ts gs1 g gs3 pe pre sc sel arg v line post s0 im0 ic0 s1 im1 ic1
         Hset Hpg Hn H1 Hr Hp Harg Hm Hl.
  unfold parse_config. rewrite Hset. rewrite (C16_stream_eq_gen _ _ _ _ _ _ _ _ _ _ _ _ Hpg Hn).
  unfold no_includes in Hn. apply Forall_app in Hn. destruct Hn as [Hn1 Hn2].
  inversion Hn2 as [|g0 r0 Hg Hn3]; subst g0 r0.
  destruct (consume_frame_gen _ _ _ _ _ _ _ _ _ _ Hn1 H1) as [_ [_ [_ A4]]].
  assert (Hpre : forallb (fun st => negb (is_include st)) pre = true).
  { pose proof (resolve_group_noinc _ _ _ _ _ Hr) as E. rewrite Hg in E. rewrite forallb_app in E.
    apply andb_true_iff in E. apply E. }
  destruct (apply_stmts_frame_gen _ _ _ _ _ _ _ _ _ _ Hpre Hp) as [_ [_ [_ B4]]].
  rewrite (consume_fails_at env SkFalse fname gs1 g gs3 pre (SBind sc sel arg v line) post s [] [] s0 im0 ic0
             s1 im1 ic1 (SEOther "ValueError" [(fname, line)]) H1 Hr Hp); [reflexivity|].
  apply C15_uncovered_unknown_errors_exact.
  - exact Harg.
  - apply C15_skip_false.
  - apply get_match_none_matching. exact Hm.
  - congruence.
Qed.

(* with side-effect-free imports "unknown" can be read off the start state *)
Theorem C15_first_unknown_is_ValueError : forall env fname gf s ts gs1 g gs3 pe pre sc sel arg v line post
                                                 s0 im0 ic0 s1 im1 ic1,
  pure_imports env ->
  settle (f_tokens gf) = POk ts ->
  parse_groups 60 (f_oracle gf) false ts = (gs1 ++ g :: gs3, pe) -> no_includes (gs1 ++ g :: gs3) ->
  consume env SkFalse fname no_inc gs1 s [] [] = (s0, SOk (im0, ic0)) ->
  resolve_group s0 SkFalse fname g = SOk (pre ++ SBind sc sel arg v line :: post) ->
  apply_stmts env SkFalse fname no_inc pre s0 im0 ic0 = (s1, SOk (im1, ic1)) ->
  arg <> "" -> sm_matching (to_key sel) (t_reg s) = [] -> t_locked s = false ->
  parse_config env SkFalse fname gf s = (s1, SErr (SEOther "ValueError" [(fname, line)])).
Proof.
  intros env fname gf s ts gs1 g gs3 pe pre sc sel arg v line post s0 im0 ic0 s1 im1 ic1
         Hpure Hset Hpg Hn H1 Hr Hp Harg Hm Hl.
  eapply C15_first_unknown_is_ValueError_at_point; try eassumption.
  pose proof Hn as Hn'. unfold no_includes in Hn'. apply Forall_app in Hn'. destruct Hn' as [Hn1 Hn2].
  inversion Hn2 as [|g0 r0 Hg Hn3]; subst g0 r0.
  destruct (consume_frame _ _ _ _ _ _ _ _ _ _ Hpure Hn1 H1) as [A1 _].
  assert (Hpre : forallb (fun st => negb (is_include st)) pre = true).
  { pose proof (resolve_group_noinc _ _ _ _ _ Hr) as E. rewrite Hg in E. rewrite forallb_app in E.
    apply andb_true_iff in E. apply E. }
  destruct (apply_stmts_frame _ _ _ _ _ _ _ _ _ _ Hpure Hpre Hp) as [B1 _]. congruence.
Qed.

(* the same for an unknown block header (no lock condition: a block header binds nothing) *)
Theorem C15_first_unknown_block_is_ValueError_at_point : forall env fname gf s ts gs1 g gs3 pe pre sc sel line post
                                                       s0 im0 ic0 s1 im1 ic1,
  settle (f_tokens gf) = POk ts ->
  parse_groups 60 (f_oracle gf) false ts = (gs1 ++ g :: gs3, pe) -> no_includes (gs1 ++ g :: gs3) ->
  consume env SkFalse fname no_inc gs1 s [] [] = (s0, SOk (im0, ic0)) ->
  resolve_group s0 SkFalse fname g = SOk (pre ++ SBlock sc sel line :: post) ->
  apply_stmts env SkFalse fname no_inc pre s0 im0 ic0 = (s1, SOk (im1, ic1)) ->
  sm_matching (to_key sel) (t_reg s1) = [] ->
  parse_config env SkFalse fname gf s = (s1, SErr (SEOther "ValueError" [(fname, line)])).
Proof.
  intros env fname gf s ts gs1 g gs3 pe pre sc sel line post s0 im0 ic0 s1 im1 ic1 Hset Hpg Hn H1 Hr Hp Hm.
  unfold parse_config. rewrite Hset. rewrite (C16_stream_eq_gen _ _ _ _ _ _ _ _ _ _ _ _ Hpg Hn).
  rewrite (consume_fails_at env SkFalse fname gs1 g gs3 pre (SBlock sc sel line) post s [] [] s0 im0 ic0
             s1 im1 ic1 (SEOther "ValueError" [(fname, line)]) H1 Hr Hp); [reflexivity|].
  apply C15_uncovered_unknown_block_errors.
  - apply C15_skip_false.
  - apply get_match_none_matching. exact Hm.
Qed.

Theorem C15_first_unknown_block_is_ValueError : forall env fname gf s ts gs1 g gs3 pe pre sc sel line post
                                                       s0 im0 ic0 s1 im1 ic1,
  pure_imports env ->
  settle (f_tokens gf) = POk ts ->
  parse_groups 60 (f_oracle gf) false ts = (gs1 ++ g :: gs3, pe) -> no_includes (gs1 ++ g :: gs3) ->
  consume env SkFalse fname no_inc gs1 s [] [] = (s0, SOk (im0, ic0)) ->
  resolve_group s0 SkFalse fname g = SOk (pre ++ SBlock sc sel line :: post) ->
  apply_stmts env SkFalse fname no_inc pre s0 im0 ic0 = (s1, SOk (im1, ic1)) ->
  sm_matching (to_key sel) (t_reg s) = [] ->
  parse_config env SkFalse fname gf s = (s1, SErr (SEOther "ValueError" [(fname, line)])).
Proof.
  intros env fname gf s ts gs1 g gs3 pe pre sc sel line post s0 im0 ic0 s1 im1 ic1 Hpure Hset Hpg Hn H1 Hr Hp Hm.
  eapply C15_first_unknown_block_is_ValueError_at_point; try eassumption.
  pose proof Hn as Hn'. unfold no_includes in Hn'. apply Forall_app in Hn'. destruct Hn' as [Hn1 Hn2].
  inversion Hn2 as [|g0 r0 Hg Hn3]; subst g0 r0.
  destruct (consume_frame _ _ _ _ _ _ _ _ _ _ Hpure Hn1 H1) as [A1 _].
  assert (Hpre : forallb (fun st => negb (is_include st)) pre = true).
  { pose proof (resolve_group_noinc _ _ _ _ _ Hr) as E. rewrite Hg in E. rewrite forallb_app in E.
    apply andb_true_iff in E. apply E. }
  destruct (apply_stmts_frame _ _ _ _ _ _ _ _ _ _ Hpure Hpre Hp) as [B1 _]. congruence.
Qed.

(* ================================================================== *)
(* which group shapes the parser produces                             *)
(* ================================================================== *)
Ltac dmh :=
  match goal with
  | H : context [match ?x with _ => _ end] |- _ =>
      lazymatch x with
      | context [match _ with _ => _ end] => fail
      | _ => destruct x eqn:?
      end
  end.

Lemma block_members_noinc : forall fuel o sc sel ts acc r ts',
  forallb (fun st => negb (is_include st)) acc = true ->
  block_members fuel o sc sel ts acc = POk (r, ts') ->
  forallb (fun st => negb (is_include st)) r = true.
Proof.
  induction fuel as [|f IH]; intros o sc sel ts acc r ts' Hacc H; [discriminate|].
  cbn [block_members] in H.
  destruct (cur_ty ts DEDENT); [inversion H; subst; exact Hacc|].
  destruct (parse_identifier true ts) as [[arg ts1]|]; [|discriminate].
  destruct (expect_str "=" ts1) as [ts2|]; [|discriminate].
  destruct (parse_value (value_fuel ts2) o true ts2) as [[v ts3]|]; [|discriminate].
  destruct (expect_ty NEWLINE ts3) as [ts4|]; [|discriminate].
  destruct (skip_ws true ts4) as [ts5|]; [|discriminate].
  eapply IH; [|exact H]. rewrite forallb_app, Hacc. reflexivity.
Qed.

Lemma parse_block_noinc : forall o key line ts decl members ts',
  parse_block o key line ts = POk (decl, members, ts') ->
  forallb (fun st => negb (is_include st)) (decl :: members) = true.
Proof.
  intros o key line ts decl members ts' H. unfold parse_block in H.
  repeat (try discriminate; dmh).
  inversion H; subst. cbn [forallb is_include negb andb].
  eapply block_members_noinc; [|eassumption]. reflexivity.
Qed.

Lemma parse_import_noinc : forall key line ts st ts',
  parse_import key line ts = POk (st, ts') -> is_include st = false.
Proof.
  intros key line ts st ts' H. unfold parse_import in H. cbv zeta in H.
  repeat (try discriminate; dmh);
    repeat match goal with Hx : POk _ = POk _ |- _ => inversion Hx; subst; clear Hx end; reflexivity.
Qed.

(* every group the parser yields is either include-free (one binding / a block header with its members / one import)
   or consists of exactly one include statement *)
Theorem parse_statement_shape : forall o pending ts stmts ts' pending',
  parse_statement o pending ts = POk (Some (stmts, ts', pending')) ->
  forallb (fun st => negb (is_include st)) stmts = true \/ exists v line, stmts = [SInclude v line].
Proof.
  intros o pending ts stmts ts' pending' H. unfold parse_statement in H. cbv zeta in H.
  repeat (try discriminate; dmh);
    match goal with Hx : POk _ = POk _ |- _ => inversion Hx; subst; clear Hx end;
    repeat match goal with Hx : POk _ = POk _ |- _ => inversion Hx; subst; clear Hx end;
    try (left; reflexivity); try (right; eexists; eexists; reflexivity).
  all: left; first [ eapply parse_block_noinc; eassumption
                   | cbn [forallb]; erewrite parse_import_noinc by eassumption; reflexivity ].
Qed.

Definition group_shape_ok (g : list stmt) : Prop :=
  forallb (fun st => negb (is_include st)) g = true \/ exists v line, g = [SInclude v line].

Theorem parse_groups_shape : forall fuel o pending ts gs pe,
  parse_groups fuel o pending ts = (gs, pe) -> Forall group_shape_ok gs.
Proof.
  induction fuel as [|f IH]; intros o pending ts gs pe H.
  - cbn [parse_groups] in H. inversion H. constructor.
  - rewrite parse_groups_S in H.
    destruct (parse_statement o pending ts) as [[[[stmts ts1] p1]|]|e] eqn:Hps.
    + destruct (parse_groups f o p1 ts1) as [gs' e'] eqn:Hpg. inversion H; subst gs pe.
      constructor; [eapply parse_statement_shape; exact Hps|eapply IH; exact Hpg].
    + inversion H. constructor.
    + inversion H. constructor.
Qed.

(* ================================================================== *)
(* a concrete instance: nesting depth 2, two includes in one file     *)
(* ================================================================== *)
(* main.gin: f.x = 1 / include 'a.gin' / f.y = 3 / include 'b.gin'
   a.gin:    f.x = 2 / include 'c.gin'          c.gin: f.y = 7          b.gin: f.x = 9
   flattened: f.x=1 ; f.x=2 ; f.y=7 ; f.y=3 ; f.x=9     result: f.x = 9 (b.gin:1), f.y = 3 (main.gin:3) *)
Module C14DeepExample.
  Import C14Example.
  Definition inc_line (r : nat) (q : string) : list token :=
    [tk NAME "include" r 0 7; tk STRING q r 8 15; tk NEWLINE nlc r 15 16].
  Definition orc : oracle :=
    [("1", Some (OZ 1)); ("2", Some (OZ 2)); ("3", Some (OZ 3)); ("7", Some (OZ 7)); ("9", Some (OZ 9));
     ("'a.gin'", Some (OT "str" [OS "a.gin"])); ("'b.gin'", Some (OT "str" [OS "b.gin"]));
     ("'c.gin'", Some (OT "str" [OS "c.gin"]))].
  Definition f_main : gfile :=
    {| f_tokens := bind_line 1 "x" "1" ++ inc_line 2 "'a.gin'" ++ bind_line 3 "y" "3" ++ inc_line 4 "'b.gin'"
                   ++ [tk ENDMARKER "" 5 0 0]; f_oracle := orc |}.
  Definition f_a : gfile :=
    {| f_tokens := bind_line 1 "x" "2" ++ inc_line 2 "'c.gin'" ++ [tk ENDMARKER "" 3 0 0]; f_oracle := orc |}.
  Definition f_c : gfile := {| f_tokens := bind_line 1 "y" "7" ++ [tk ENDMARKER "" 2 0 0]; f_oracle := orc |}.
  Definition f_b : gfile := {| f_tokens := bind_line 1 "x" "9" ++ [tk ENDMARKER "" 2 0 0]; f_oracle := orc |}.
  Definition env : fenv :=
    {| e_files := [((0, "main.gin"), f_main); ((0, "a.gin"), f_a); ((0, "b.gin"), f_b); ((0, "c.gin"), f_c)];
       e_readers := [0]; e_prefixes := [""]; e_modules := []; e_mod_regs := [] |}.
  Definition gs_main : list (list stmt) :=
    [[SBind "" "f" "x" (OZ 1) 1]; [SInclude (OT "str" [OS "a.gin"]) 2];
     [SBind "" "f" "y" (OZ 3) 3]; [SInclude (OT "str" [OS "b.gin"]) 4]].
  Definition flat : list (list stmt) :=
    [[SBind "" "f" "x" (OZ 1) 1]; [SBind "" "f" "x" (OZ 2) 1]; [SBind "" "f" "y" (OZ 7) 1];
     [SBind "" "f" "y" (OZ 3) 3]; [SBind "" "f" "x" (OZ 9) 1]].
  Definition trees : list itree := [INode "a.gin" [] [INode "c.gin" [] []]; INode "b.gin" [] []].

  (* the hypotheses of C14_flatten_any_depth / C14_tree_mirrors_includes / C14_parse_config_file_any_depth hold *)
  Example hyps :
    resolve_file env "main.gin" = Some ("main.gin", f_main) /\
    settle (f_tokens f_main) = POk (f_tokens f_main) /\
    parse_groups 60 (f_oracle f_main) false (f_tokens f_main) = (gs_main, None) /\
    List.length gs_main < 60 /\
    flatten_both 60 env gs_main = Some (flat, trees) /\
    flatten_groups 60 env gs_main = Some flat /\ trees_of 60 env gs_main = Some trees.
  Proof. repeat split; try (vm_compute; reflexivity). vm_compute. lia. Qed.

  Example real_run :
    (let '(s, r) := parse_config_file env SkFalse "main.gin" ex_s in (t_store s, t_prov s, r)) =
    ([(("", "f"), [("x", OZ 9); ("y", OZ 3)])],
     [(("", "f"), [("x", ("b.gin", 1)); ("y", ("main.gin", 3))])],
     SOk (INode "main.gin" [] trees)).
  Proof. vm_compute. reflexivity. Qed.
  Example flat_run :
    (let '(s, r) := consume env SkFalse "main.gin" no_inc flat ex_s [] [] in (t_store s, r)) =
    ([(("", "f"), [("x", OZ 9); ("y", OZ 3)])], SOk ([], [])).
  Proof. vm_compute. reflexivity. Qed.

  (* (C) at work: with an empty registry the first statement targets an unknown name: ValueError, nothing applied *)
  Example unknown_run :
    parse_config_file env SkFalse "b.gin" (init_tstate [] []) =
    (init_tstate [] [], SErr (SEOther "ValueError" [("b.gin", 1)])).
  Proof. vm_compute. reflexivity. Qed.
  Example unknown_skipped_run :
    parse_config_file env SkTrue "b.gin" (init_tstate [] []) =
    (init_tstate [] [], SOk (INode "b.gin" [] [])).
  Proof. vm_compute. reflexivity. Qed.
End C14DeepExample.

Print Assumptions C14_flatten_any_depth_gen.
Print Assumptions C14_flatten_any_depth.
Print Assumptions flatten_both_no_includes.
Print Assumptions flatten_both_noinc.
Print Assumptions C14_tree_mirrors_includes.
Print Assumptions C14_parse_config_any_depth.
Print Assumptions C14_parse_config_file_any_depth.
Print Assumptions parse_tokens_frame.
Print Assumptions parse_config_frame.
Print Assumptions parse_config_file_frame.
Print Assumptions C14_files_then_bindings_then_finalize.
Print Assumptions C14_entry_stops_at_first_error.
Print Assumptions C14_entry_later_files_untouched.
Print Assumptions C14_entry_no_finalize_keeps_lock.
Print Assumptions C14_entry_finalize_locks_iff_ok.
Print Assumptions C15_parse_tokens_unknown_is_error.
Print Assumptions C15_parse_config_unknown_is_error.
Print Assumptions C15_parse_config_file_unknown_is_error.
Print Assumptions C15_entry_unknown_binding_is_error.
Print Assumptions C15_entry_unknown_in_file_is_error.
Print Assumptions C15_first_unknown_is_ValueError_at_point.
Print Assumptions C15_first_unknown_block_is_ValueError_at_point.
Print Assumptions C15_first_unknown_is_ValueError.
Print Assumptions C15_first_unknown_block_is_ValueError.
Print Assumptions parse_statement_shape.
Print Assumptions parse_groups_shape.
Print Assumptions C14DeepExample.hyps.
Print Assumptions C14DeepExample.real_run.
