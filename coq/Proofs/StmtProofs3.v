(* C14 to any depth (flattening of nested includes, include tree), the multi-file entry point, and
   "unknown names are errors unless skip_unknown is passed" at every parsing entry point.
   Proofs about Model/Stmt.v, Model/StmtSpec.v, Model/StmtEngine.v; reuses Proofs/StmtProofs.v, StmtProofs2.v. *)
From Coq Require Import List String ZArith Bool Arith Lia.
From GinV Require Import Lib.Out Lib.PyStr Model.SelectorMap Model.Parser Model.Stmt Model.StmtSpec Model.StmtEngine
  Proofs.StmtProofs Proofs.StmtProofs2.
Import ListNotations.
Open Scope string_scope.
Open Scope list_scope.

(* ================================================================== *)
(* resolve_group changes nothing but the values of the bindings       *)
(* ================================================================== *)
Definition strip (st : stmt) : stmt :=
  match st with SBind sc sel arg _ line => SBind sc sel arg (OZ 0) line | x => x end.

Lemma resolve_group_strip : forall s sk fname g g',
  resolve_group s sk fname g = SOk g' -> map strip g' = map strip g.
Proof.
  intros s sk fname g. induction g as [|st rest IH]; intros g' H.
  - rewrite resolve_group_nil in H. inversion H. reflexivity.
  - destruct st as [sc sel arg v line|sc sel line|m isf al line|v line].
    + rewrite resolve_group_SBind in H.
      destruct (resolve_value 100 s sk v) as [v'|e]; [|rewrite with_loc_SErr in H; discriminate].
      destruct (resolve_group s sk fname rest) as [r'|e]; [|discriminate].
      inversion H. cbn [map strip]. rewrite (IH r' eq_refl). reflexivity.
    + rewrite resolve_group_other in H by (intros; discriminate).
      destruct (resolve_group s sk fname rest) as [r'|e]; [|discriminate].
      inversion H. cbn [map]. rewrite (IH r' eq_refl). reflexivity.
    + rewrite resolve_group_other in H by (intros; discriminate).
      destruct (resolve_group s sk fname rest) as [r'|e]; [|discriminate].
      inversion H. cbn [map]. rewrite (IH r' eq_refl). reflexivity.
    + rewrite resolve_group_other in H by (intros; discriminate).
      destruct (resolve_group s sk fname rest) as [r'|e]; [|discriminate].
      inversion H. cbn [map]. rewrite (IH r' eq_refl). reflexivity.
Qed.

Lemma strip_flat_map : forall (A : Type) (f : stmt -> list A), (forall st, f st = f (strip st)) ->
  forall a b, map strip a = map strip b -> flat_map f a = flat_map f b.
Proof.
  intros A f Hf a. induction a as [|x a IH]; intros [|y b] H; cbn [map] in H; try discriminate; [reflexivity|].
  inversion H as [[H1 H2]]. cbn [flat_map]. rewrite (Hf x), (Hf y), H1, (IH b H2). reflexivity.
Qed.

Lemma strip_existsb : forall (f : stmt -> bool), (forall st, f st = f (strip st)) ->
  forall a b, map strip a = map strip b -> existsb f a = existsb f b.
Proof.
  intros f Hf a. induction a as [|x a IH]; intros [|y b] H; cbn [map] in H; try discriminate; [reflexivity|].
  inversion H as [[H1 H2]]. cbn [existsb]. rewrite (Hf x), (Hf y), H1, (IH b H2). reflexivity.
Qed.

(* ================================================================== *)
(* the shapes of the groups the parser yields                         *)
(* ================================================================== *)
Definition as_include (g : list stmt) : option (out * nat) :=
  match g with [SInclude v line] => Some (v, line) | _ => None end.
Lemma as_include_some : forall g v line, as_include g = Some (v, line) -> g = [SInclude v line].
Proof.
  intros [|[sc sel arg v0 l0|sc sel l0|m isf al l0|v0 l0] [|st2 r]] v line H; cbn in H; try discriminate.
  inversion H. reflexivity.
Qed.

(* imports a file's own statements record on success: the importable modules, in order *)
Definition stmt_imports (env : fenv) (st : stmt) : list string :=
  match st with SImport m _ _ _ => if str_in m (e_modules env) then [m] else [] | _ => [] end.
Definition imports_of (env : fenv) (gs : list (list stmt)) : list string := flat_map (flat_map (stmt_imports env)) gs.

(* ================================================================== *)
(* flattening to any depth, with the include tree                     *)
(* ================================================================== *)
(* [flatten_both fuel env gs]: replace every include group by the (recursively flattened) groups of the file it
   resolves to, and build the list of include trees alongside.  The fuel is EXACTLY the fuel parse_tokens threads:
   the group at the head is handled at fuel S f, the file it includes and the remaining groups at fuel f.
   None: a file is missing / does not tokenise / does not parse to EOF / the recursion budget does not suffice /
   a group mixes an include with other statements (never produced by the parser: see parse_statement). *)
Fixpoint flatten_both (fuel : nat) (env : fenv) (gs : list (list stmt)) {struct fuel}
  : option (list (list stmt) * list itree) :=
  match gs with
  | [] => Some ([], [])
  | g :: rest =>
      match fuel with
      | O => None
      | S f =>
          match flatten_both f env rest with
          | None => None
          | Some (frest, trest) =>
              match as_include g with
              | None => if forallb (fun st => negb (is_include st)) g then Some (g :: frest, trest) else None
              | Some (v, line) =>
                  match resolve_file env (str_of_value v) with
                  | None => None
                  | Some (full, gf) =>
                      match settle (f_tokens gf) with
                      | PErr _ => None
                      | POk ts0 =>
                          match parse_groups f (f_oracle gf) false ts0 with
                          | (gs2, Some _) => None
                          | (gs2, None) =>
                              if Nat.ltb (List.length gs2) f then
                                match flatten_both f env gs2 with
                                | None => None
                                | Some (f2, t2) =>
                                    Some (f2 ++ frest, INode (str_of_value v) (imports_of env gs2) t2 :: trest)
                                end
                              else None
                          end
                      end
                  end
              end
          end
      end
  end.
Definition flatten_groups (fuel : nat) (env : fenv) (gs : list (list stmt)) : option (list (list stmt)) :=
  option_map fst (flatten_both fuel env gs).
Definition trees_of (fuel : nat) (env : fenv) (gs : list (list stmt)) : option (list itree) :=
  option_map snd (flatten_both fuel env gs).

Lemma flatten_both_nil : forall fuel env, flatten_both fuel env [] = Some ([], []).
Proof. intros [|f] env; reflexivity. Qed.
Lemma flatten_both_cons : forall f env g rest,
  flatten_both (S f) env (g :: rest) =
  match flatten_both f env rest with
  | None => None
  | Some (frest, trest) =>
      match as_include g with
      | None => if forallb (fun st => negb (is_include st)) g then Some (g :: frest, trest) else None
      | Some (v, line) =>
          match resolve_file env (str_of_value v) with
          | None => None
          | Some (full, gf) =>
              match settle (f_tokens gf) with
              | PErr _ => None
              | POk ts0 =>
                  match parse_groups f (f_oracle gf) false ts0 with
                  | (gs2, Some _) => None
                  | (gs2, None) =>
                      if Nat.ltb (List.length gs2) f then
                        match flatten_both f env gs2 with
                        | None => None
                        | Some (f2, t2) =>
                            Some (f2 ++ frest, INode (str_of_value v) (imports_of env gs2) t2 :: trest)
                        end
                      else None
                  end
              end
          end
      end
  end.
Proof. reflexivity. Qed.

(* the flattened list is include-free *)
Lemma flatten_both_no_includes : forall fuel env gs flat trees,
  flatten_both fuel env gs = Some (flat, trees) -> no_includes flat.
Proof.
  induction fuel as [|f IH]; intros env gs flat trees H.
  - destruct gs; [inversion H; constructor|discriminate].
  - destruct gs as [|g rest]; [inversion H; constructor|].
    rewrite flatten_both_cons in H.
    destruct (flatten_both f env rest) as [[frest trest]|] eqn:Hfr; [|discriminate].
    destruct (as_include g) as [[v line]|].
    + destruct (resolve_file env (str_of_value v)) as [[full gf]|]; [|discriminate].
      destruct (settle (f_tokens gf)) as [ts0|pe0]; [|discriminate].
      destruct (parse_groups f (f_oracle gf) false ts0) as [gs2 [pe2|]]; [discriminate|].
      destruct (Nat.ltb (List.length gs2) f); [|discriminate].
      destruct (flatten_both f env gs2) as [[f2 t2]|] eqn:Hf2; [|discriminate].
      inversion H; subst flat trees. apply no_includes_app; [eapply IH; exact Hf2|eapply IH; exact Hfr].
    + destruct (forallb (fun st => negb (is_include st)) g) eqn:Hn; [|discriminate].
      inversion H; subst flat trees. constructor; [exact Hn|eapply IH; exact Hfr].
Qed.

(* an include-free group list flattens to itself, with no trees *)
Lemma flatten_both_noinc : forall gs fuel env, no_includes gs -> List.length gs <= fuel ->
  flatten_both fuel env gs = Some (gs, []).
Proof.
  induction gs as [|g rest IH]; intros fuel env Hn Hl; [apply flatten_both_nil|].
  inversion Hn as [|g0 r0 Hg Hrest]; subst g0 r0. cbn [List.length] in Hl.
  destruct fuel as [|f]; [lia|]. rewrite flatten_both_cons. rewrite (IH f env Hrest) by lia.
  destruct (as_include g) as [[v line]|] eqn:Hai.
  - apply as_include_some in Hai. subst g. cbn in Hg. discriminate.
  - rewrite Hg. reflexivity.
Qed.

(* ---------- THE theorem: any number of includes, any nesting depth ---------- *)
Theorem C14_flatten_any_depth_gen : forall fuel env sk fname fname' o pending ts s s' im ic im' ic' gs flat trees,
  parse_groups fuel o pending ts = (gs, None) -> List.length gs < fuel ->
  flatten_both fuel env gs = Some (flat, trees) -> sim s s' ->
  sim (fst (parse_tokens fuel env sk fname o pending ts s im ic))
      (fst (consume env sk fname' no_inc flat s' im' ic')) /\
  res_sim (snd (parse_tokens fuel env sk fname o pending ts s im ic))
          (snd (consume env sk fname' no_inc flat s' im' ic')).
Proof.
  induction fuel as [|f IH];
    intros env sk fname fname' o pending ts s s' im ic im' ic' gs flat trees Hpg Hl Hfl Hs; [lia|].
  rewrite parse_tokens_S. rewrite parse_groups_S in Hpg.
  destruct (parse_statement o pending ts) as [[[[stmts ts1] p1]|]|e] eqn:Hps.
  - destruct (parse_groups f o p1 ts1) as [gs' e'] eqn:Hpg'. inversion Hpg; subst gs e'. clear Hpg.
    cbn [List.length] in Hl. assert (Hl' : List.length gs' < f) by lia.
    rewrite flatten_both_cons in Hfl.
    destruct (flatten_both f env gs') as [[frest trest]|] eqn:Hfr; [|discriminate].
    destruct (as_include stmts) as [[v line]|] eqn:Hai.
    + (* an include group *)
      apply as_include_some in Hai. subst stmts.
      destruct (resolve_file env (str_of_value v)) as [[full gf]|] eqn:Hres; [|discriminate].
      destruct (settle (f_tokens gf)) as [ts0|pe0] eqn:Hset; [|discriminate].
      destruct (parse_groups f (f_oracle gf) false ts0) as [gs2 [pe2|]] eqn:Hpg2; [discriminate|].
      destruct (Nat.ltb_spec (List.length gs2) f) as [Hl2|_]; [|discriminate].
      destruct (flatten_both f env gs2) as [[f2 t2]|] eqn:Hf2; [|discriminate].
      inversion Hfl; subst flat trees. clear Hfl.
      rewrite resolve_group_other by (intros; discriminate). rewrite resolve_group_nil.
      rewrite C14_include_step. unfold inc_of. rewrite Hres, Hset. rewrite consume_app.
      pose proof (IH env sk full fname' (f_oracle gf) false ts0 s s' [] [] im' ic' gs2 f2 t2 Hpg2 Hl2 Hf2 Hs)
        as [A1 A2].
      destruct (parse_tokens f env sk full (f_oracle gf) false ts0 s [] []) as [s2 r2].
      destruct (consume env sk fname' no_inc f2 s' im' ic') as [s2' r2'].
      cbn [fst snd] in A1, A2.
      destruct r2 as [[im2 ic2]|e2], r2' as [[im2' ic2']|e2']; try contradiction; cbv beta iota.
      * apply (IH env sk fname fname' o p1 ts1 s2 s2' im (ic ++ [INode (str_of_value v) im2 ic2]) im2' ic2'
                  gs' frest trest Hpg' Hl' Hfr A1).
      * rewrite with_loc_SErr. cbn [fst snd res_sim]. split; [exact A1|apply err_sim_with_loc_l; exact A2].
    + (* an include-free group *)
      destruct (forallb (fun st => negb (is_include st)) stmts) eqn:Hn; [|discriminate].
      inversion Hfl; subst flat trees. clear Hfl. cbn [consume].
      pose proof (resolve_group_sim sk fname fname' stmts s s' (proj1 Hs) (proj1 (proj2 Hs))) as R.
      destruct (resolve_group s sk fname stmts) as [a|e] eqn:Ra, (resolve_group s' sk fname' stmts) as [b|e'];
        try contradiction.
      * subst b.
        assert (Ha : forallb (fun st => negb (is_include st)) a = true)
          by (rewrite (resolve_group_noinc _ _ _ _ _ Ra); exact Hn).
        rewrite (apply_stmts_inc_indep env sk fname (inc_of f env sk) no_inc a s im ic Ha).
        pose proof (apply_stmts_sim env sk fname fname' no_inc no_inc a s s' im ic im' ic' Ha Hs) as [A1 A2].
        destruct (apply_stmts env sk fname no_inc a s im ic) as [s1 r1].
        destruct (apply_stmts env sk fname' no_inc a s' im' ic') as [s1' r1'].
        cbn [fst snd] in A1, A2.
        destruct r1 as [[im1 ic1]|e1], r1' as [[im1' ic1']|e1']; try contradiction.
        -- apply (IH env sk fname fname' o p1 ts1 s1 s1' im1 ic1 im1' ic1' gs' frest trest Hpg' Hl' Hfr A1).
        -- cbn [fst snd]. split; assumption.
      * cbn [fst snd]. split; [exact Hs|exact R].
  - inversion Hpg; subst gs. rewrite flatten_both_nil in Hfl. inversion Hfl; subst flat trees.
    cbn [consume fst snd res_sim]. split; [apply sim_add_imports_l; exact Hs|exact I].
  - discriminate.
Qed.

(* in the requested form *)
Theorem C14_flatten_any_depth : forall fuel env sk fname o pending ts s im ic gs flat,
  parse_groups fuel o pending ts = (gs, None) -> List.length gs < fuel ->
  flatten_groups fuel env gs = Some flat ->
  sim (fst (parse_tokens fuel env sk fname o pending ts s im ic))
      (fst (consume env sk fname no_inc flat s im ic)) /\
  res_sim (snd (parse_tokens fuel env sk fname o pending ts s im ic))
          (snd (consume env sk fname no_inc flat s im ic)).
Proof.
  intros fuel env sk fname o pending ts s im ic gs flat Hpg Hl Hfl. unfold flatten_groups in Hfl.
  destruct (flatten_both fuel env gs) as [[fl tr]|] eqn:Hb; [|discriminate]. cbn in Hfl. inversion Hfl; subst fl.
  apply (C14_flatten_any_depth_gen fuel env sk fname fname o pending ts s s im ic im ic gs flat tr Hpg Hl Hb (sim_refl s)).
Qed.
