(* C03, remaining clauses: include statements, the indented block layout, whole files mixing
   all five statement kinds, and block layout = flat layout. *)
From Coq Require Import List String ZArith Bool Arith Lia Ascii.
From GinV Require Import Lib.Out Lib.PyStr Model.Parser Model.ParserSpec Model.ParserSpec2
                         Proofs.ParserSmall Proofs.ParserLemmas Proofs.ParserProofs Proofs.StatementProofs.
Import ListNotations.
Open Scope string_scope.
Open Scope list_scope.

(* ------------------------------------------------------------------ *)
(* a keyword read as a selector, followed by any token that is neither a separator nor skipped *)
Lemma parse_selector_keyword_gen : forall kw row t r,
  selector_format_ok true false kw = true ->
  ty t <> TERR -> ty t <> ERRORTOKEN -> in_types (ty t) (ws_types false) = false ->
  text t <> "/" -> text t <> "." ->
  parse_selector true false false (tok NAME kw row :: t :: r) = POk (kw, t :: r).
Proof.
  intros kw row t r Hfmt He1 He2 Hws H1 H2.
  unfold parse_selector.
  change (cur_ty (tok NAME kw row :: t :: r) NAME) with true. cbn [negb].
  cbn [List.length]. rewrite sel_loop_S.
  change (ty (cur (tok NAME kw row :: t :: r))) with NAME.
  change (cur (tok NAME kw row :: t :: r)) with (tok NAME kw row).
  cbn [negb andb orb ttype_eqb]. cbn [advance_one].
  rewrite settle_non_trivia; [| exact He1 | exact He2].
  rewrite sel_loop_S. cbn [cur hd negb andb orb].
  apply String.eqb_neq in H1. apply String.eqb_neq in H2. rewrite H1, H2. cbn [orb app].
  rewrite skip_ws_stop; [| exact Hws].
  cbn [contiguous tok srow erow text concat_strs]. rewrite Nat.eqb_refl. rewrite append_nil_r. rewrite Hfmt.
  reflexivity.
Qed.

(* ================================================================== *)
(* (1) include *)

(* `include 'a' 'b'  # comment` : NAME include, one or more adjacent STRING tokens, trivia, NEWLINE *)
Definition include_tokens_tr (row : nat) (strs trailing : list token) : list token :=
  [tok NAME "include" row] ++ strs ++ trailing ++ [tok NEWLINE "" row].

Lemma include_tokens_tr_nil : forall row strs, include_tokens_tr row strs [] = include_tokens row strs.
Proof. reflexivity. Qed.

(* the text of a STRING token carries its quotes: at least two characters *)
Definition str_tok_ok (t : token) : Prop := 2 <= String.length (text t).

Lemma len2_not_special : forall s, 2 <= String.length s ->
  s <> "" /\ s <> "-" /\ s <> "/" /\ s <> "." /\ s <> "=" /\ s <> ":".
Proof. intros s H. repeat split; intro E; subst s; cbn in H; lia. Qed.

Lemma include_tokens_app : forall row strs trailing rest,
  include_tokens_tr row strs trailing ++ rest =
  tok NAME "include" row :: strs ++ trailing ++ tok NEWLINE "" row :: rest.
Proof.
  intros row strs trailing rest. unfold include_tokens_tr. rewrite <- !app_assoc. cbn [app]. reflexivity.
Qed.

Lemma render_strs_plain : forall ts n, exists n', render_strs (fun _ => []) ts n = (ts, n').
Proof.
  induction ts as [|t r IH]; intro n; [exists n; reflexivity|].
  destruct (IH (S n)) as [n' E]. exists n'. cbn [render_strs]. rewrite E. reflexivity.
Qed.

Lemma prefixes_head : forall (t : token) more p, In p (prefixes_ne (t :: more)) -> exists q, p = t :: q.
Proof.
  intros t more p H. cbn [prefixes_ne] in H. destruct H as [<-|H]; [exists []; reflexivity|].
  apply in_map_iff in H. destruct H as [q [<- _]]. exists q. reflexivity.
Qed.

Lemma parse_statement_include_core : forall o tsp ts0 key ts1 v ts2,
  skip_ws false tsp = POk ts0 -> cur_ty ts0 ENDMARKER = false ->
  parse_selector true false false ts0 = POk (key, ts1) ->
  cur_is ts1 "=" = false -> cur_is ts1 ":" = false -> key = "include" ->
  maybe_basic o false ts1 = POk (Some (v, ts2)) -> is_str_value v = true ->
  in_types (ty (cur ts2)) [NEWLINE; DEDENT; ENDMARKER] = true ->
  parse_statement o false tsp = POk (Some ([SInclude v (srow (cur ts0))], ts2, negb (cur_ty ts2 ENDMARKER))).
Proof.
  intros o tsp ts0 key ts1 v ts2 H0 H1 H2 H3 H4 H5 H6 H7 H8. subst key.
  unfold parse_statement. rewrite H0, H1, H2, H3, H4.
  change (String.eqb "include" "import" || String.eqb "include" "from") with false.
  change (String.eqb "include" "include") with true. cbv iota.
  rewrite H6, H7, H8. reflexivity.
Qed.

Lemma fmt_include : selector_format_ok true false "include" = true. Proof. reflexivity. Qed.

(* the string run after `include`: exactly what _maybe_parse_basic_type consumes *)
Lemma maybe_basic_strs : forall o wb strs trailing rest v,
  Forall str_tok_ok strs -> Forall trivia_tok trailing -> follows rest ->
  lit_wf o (LStrs strs) -> py_eval o (LStrs strs) = Some v ->
  maybe_basic o wb (strs ++ trailing ++ rest) = POk (Some (v, rest)).
Proof.
  intros o wb strs trailing rest v Hlen Htr Hfol Hwf Hev.
  cbn [lit_wf] in Hwf. destruct Hwf as [Hne [Hstr Hpre]].
  destruct strs as [|t more]; [congruence|].
  pose proof (Forall_inv Hlen) as Ht. unfold str_tok_ok in Ht.
  destruct (len2_not_special _ Ht) as [N0 [N1 _]].
  cbn [py_eval] in Hev.
  assert (Hv : olookup o (strs_text (t :: more)) = Some (Some v)).
  { destruct (olookup o (strs_text (t :: more))) as [[w|]|]; try discriminate. injection Hev as <-. reflexivity. }
  rewrite maybe_basic_plain.
  - destruct (render_strs_plain (t :: more) 0) as [n' Hr].
    rewrite (basic_loop_strs o wb (fun _ => []) more t 0 (t :: more) n' _ "" v trailing rest); try assumption.
    + reflexivity.
    + intro k. constructor.
    + apply Forall_forall. intros p Hp. destruct (prefixes_head _ _ _ Hp) as [q ->].
      rewrite (fold_acc_strs_text t q N0 N1).
      rewrite Forall_forall in Hpre. exact (Hpre _ Hp).
    + rewrite (fold_acc_strs_text t more N0 N1). exact Hv.
    + rewrite !app_length. cbn [List.length]. lia.
  - cbn [app]. rewrite cur_is_cons. apply String.eqb_neq. exact N1.
  - cbn [app cur hd]. rewrite (Forall_inv Hstr). reflexivity.
Qed.

Theorem C03_include_statement_lead : forall o lead row strs trailing v rest,
  Forall lead_tok lead -> Forall str_tok_ok strs -> Forall trivia_tok trailing ->
  lit_wf o (LStrs strs) -> py_eval o (LStrs strs) = Some v -> is_str_value v = true ->
  parse_statement o false (lead ++ include_tokens_tr row strs trailing ++ rest) =
  POk (Some ([SInclude v row], tok NEWLINE "" row :: rest, true)).
Proof.
  intros o lead row strs trailing v rest Hlead Hlen Htr Hwf Hev Hstrv.
  rewrite include_tokens_app.
  pose proof Hwf as Hwf'. cbn [lit_wf] in Hwf'. destruct Hwf' as [Hne [Hstr _]].
  destruct strs as [|t more] eqn:Es; [congruence|]. rewrite <- Es in *.
  assert (E0 : strs ++ trailing ++ tok NEWLINE "" row :: rest =
               t :: more ++ trailing ++ tok NEWLINE "" row :: rest) by (rewrite Es; reflexivity).
  assert (Hty : ty t = STRING) by (rewrite Es in Hstr; exact (Forall_inv Hstr)).
  assert (Ht : 2 <= String.length (text t)) by (rewrite Es in Hlen; exact (Forall_inv Hlen)).
  destruct (len2_not_special _ Ht) as [_ [_ [N1 [N2 [N3 N4]]]]].
  rewrite (parse_statement_include_core o _
             (tok NAME "include" row :: strs ++ trailing ++ tok NEWLINE "" row :: rest)
             "include" (strs ++ trailing ++ tok NEWLINE "" row :: rest) v (tok NEWLINE "" row :: rest)).
  - reflexivity.
  - apply skip_ws_lead; [exact Hlead | reflexivity | discriminate | discriminate].
  - reflexivity.
  - rewrite E0. apply parse_selector_keyword_gen; try assumption; try (rewrite Hty; discriminate).
    + exact fmt_include.
    + rewrite Hty. reflexivity.
  - rewrite E0. rewrite cur_is_cons. apply String.eqb_neq. exact N3.
  - rewrite E0. rewrite cur_is_cons. apply String.eqb_neq. exact N4.
  - reflexivity.
  - apply maybe_basic_strs; try assumption.
    eexists _, _. split; [reflexivity|]. right. left. reflexivity.
  - exact Hstrv.
  - reflexivity.
Qed.

Theorem C03_include_statement : forall o row strs v rest,
  Forall str_tok_ok strs -> lit_wf o (LStrs strs) -> py_eval o (LStrs strs) = Some v -> is_str_value v = true ->
  parse_statement o false (include_tokens row strs ++ rest) =
  POk (Some ([SInclude v row], tok NEWLINE "" row :: rest, true)).
Proof.
  intros o row strs v rest H1 H2 H3 H4. rewrite <- include_tokens_tr_nil.
  exact (C03_include_statement_lead o [] row strs [] v rest (Forall_nil _) H1 (Forall_nil _) H2 H3 H4).
Qed.

Print Assumptions C03_include_statement_lead.

(* ================================================================== *)
(* (2) blocks *)

(* one member line  `param = value  # c`  preceded by blank / comment lines *)
Record bmember := { bm_lead : list token; bm_row : nat; bm_param : string; bm_vtoks : list token;
                    bm_trailing : list token; bm_value : out }.
Definition bmember_ok (o : oracle) (m : bmember) : Prop :=
  Forall trivia_tok (bm_lead m) /\ is_identifier (bm_param m) = true /\ Forall trivia_tok (bm_trailing m) /\
  Forall tok_ok (bm_vtoks m) /\
  exists lit lay n n', lay_ok lay /\ lit_wf o lit /\ py_eval o lit = Some (bm_value m) /\
                       render lit lay n false = (bm_vtoks m, n').
Definition bmember_tokens (m : bmember) : list token :=
  bm_lead m ++ [tok NAME (bm_param m) (bm_row m); tok OP "=" (bm_row m)] ++ bm_vtoks m ++ bm_trailing m ++
  [tok NEWLINE "" (bm_row m)].
Fixpoint members_tokens (ms : list bmember) : list token :=
  match ms with [] => [] | m :: t => bmember_tokens m ++ members_tokens t end.

(* the tokenizer's shape of
     scope/name:   # c
       # comment lines
       p1 = v1
       p2 = v2
   : header name, ":", optional COMMENT, NEWLINE, blank/comment lines, INDENT, the member lines,
   blank/comment lines, DEDENT *)
Definition block_tokens (row : nat) (parts : list string) (hcomment pre : list token) (indent : token)
                        (members : list bmember) (tail : list token) (dedent : token) : list token :=
  name_tokens row 0 parts true ++ [tok OP ":" row] ++ hcomment ++ [tok NEWLINE "" row] ++ pre ++ [indent] ++
  members_tokens members ++ tail ++ [dedent].

Definition block_stmts (row : nat) (parts : list string) (members : list bmember) : list stmt :=
  let '(scope, sel) := split_scoped (name_text parts) in
  SBlock scope sel row :: map (fun m => SBind scope sel (bm_param m) (bm_value m) (bm_row m)) members.

(* member line without its leading trivia, and the stream from a member on *)
Definition bmember_core (m : bmember) (rest : list token) : list token :=
  tok NAME (bm_param m) (bm_row m) :: tok OP "=" (bm_row m) ::
  bm_vtoks m ++ bm_trailing m ++ tok NEWLINE "" (bm_row m) :: rest.
Definition mstream (ms : list bmember) (tail : list token) (dedent : token) (rest : list token) : list token :=
  members_tokens ms ++ tail ++ dedent :: rest.
Definition mcore (ms : list bmember) (tail : list token) (dedent : token) (rest : list token) : list token :=
  match ms with
  | [] => dedent :: rest
  | m :: t => bmember_core m (mstream t tail dedent rest)
  end.

Lemma mstream_cons : forall m t tail d rest,
  mstream (m :: t) tail d rest = bm_lead m ++ bmember_core m (mstream t tail d rest).
Proof.
  intros m t tail d rest. unfold mstream, bmember_core. cbn [members_tokens]. unfold bmember_tokens.
  rewrite <- !app_assoc. cbn [app]. reflexivity.
Qed.

Lemma trivia_noerr_all : forall tr, Forall trivia_tok tr -> Forall (fun x => ty x <> TERR /\ ty x <> ERRORTOKEN) tr.
Proof. intros tr H. eapply Forall_impl; [|exact H]. cbn beta. intros x Hx. apply trivia_noerr; exact Hx. Qed.

Lemma settle_mstream : forall o ms tail d rest, Forall (bmember_ok o) ms -> Forall trivia_tok tail -> ty d = DEDENT ->
  settle (mstream ms tail d rest) = POk (mstream ms tail d rest).
Proof.
  intros o ms tail d rest Hms Htail Hd. destruct ms as [|m t].
  - unfold mstream. cbn [members_tokens app]. apply settle_app;
      [apply trivia_noerr_all; exact Htail | rewrite Hd; discriminate | rewrite Hd; discriminate].
  - rewrite mstream_cons. pose proof (Forall_inv Hms) as [Hl _]. unfold bmember_core.
    apply settle_app; [apply trivia_noerr_all; exact Hl | discriminate | discriminate].
Qed.

Lemma skip_ws_mstream : forall o ms tail d rest, Forall (bmember_ok o) ms -> Forall trivia_tok tail -> ty d = DEDENT ->
  skip_ws true (mstream ms tail d rest) = POk (mcore ms tail d rest).
Proof.
  intros o ms tail d rest Hms Htail Hd. destruct ms as [|m t].
  - unfold mstream, mcore. cbn [members_tokens app]. apply skip_ws_trivia; [exact Htail | | discriminate].
    intros t0 r0 E. injection E as <- <-. rewrite Hd. cbn [ws_types]. split.
    + intros [C|[C|[]]]; discriminate.
    + split; discriminate.
  - rewrite mstream_cons. pose proof (Forall_inv Hms) as [Hl _]. unfold mcore, bmember_core.
    apply skip_ws_solid; [exact Hl|]. unfold solid. cbn [tok ty]. tauto.
Qed.

Lemma block_members_S : forall f o scope sel ts acc,
  block_members (S f) o scope sel ts acc =
  if cur_ty ts DEDENT then POk (acc, ts) else
  match parse_identifier true ts with
  | PErr e => PErr e
  | POk (arg, ts1) =>
      match expect_str "=" ts1 with
      | PErr e => PErr e
      | POk ts2 =>
          match parse_value (value_fuel ts2) o true ts2 with
          | PErr e => PErr e
          | POk (v, ts3) =>
              match expect_ty NEWLINE ts3 with
              | PErr e => PErr e
              | POk ts4 =>
                  match skip_ws true ts4 with
                  | PErr e => PErr e
                  | POk ts5 => block_members f o scope sel ts5 (acc ++ [SBind scope sel arg v (srow (cur ts))])
                  end
              end
          end
      end
  end.
Proof. reflexivity. Qed.

Lemma members_run : forall o scope sel tail d rest, Forall trivia_tok tail -> ty d = DEDENT ->
  forall ms, Forall (bmember_ok o) ms -> forall acc fuel, List.length ms < fuel ->
  block_members fuel o scope sel (mcore ms tail d rest) acc =
  POk (acc ++ map (fun m => SBind scope sel (bm_param m) (bm_value m) (bm_row m)) ms, d :: rest).
Proof.
  intros o scope sel tail d rest Htail Hd ms. induction ms as [|m t IH]; intros Hms acc fuel Hfuel.
  - destruct fuel as [|f]; [cbn in Hfuel; lia|]. rewrite block_members_S.
    unfold mcore, cur_ty. cbn [cur hd]. rewrite Hd. cbn [ttype_eqb map]. rewrite app_nil_r. reflexivity.
  - destruct fuel as [|f]; [cbn in Hfuel; lia|]. rewrite block_members_S.
    pose proof (Forall_inv Hms) as [Hl [Hid [Htr [Hok [lit [lay [n [n' [Hlay [Hwf [Hev Hr]]]]]]]]]]].
    pose proof (Forall_inv_tail Hms) as Hms'.
    destruct (render_first _ _ _ _ _ _ _ Hwf Hr Hok) as [v0 [vt' [Ev Hstart]]].
    unfold mcore, bmember_core.
    change (cur_ty (tok NAME (bm_param m) (bm_row m) :: tok OP "=" (bm_row m) ::
                    bm_vtoks m ++ bm_trailing m ++ tok NEWLINE "" (bm_row m) :: mstream t tail d rest) DEDENT)
      with false. cbv iota.
    unfold parse_identifier.
    change (text (cur (tok NAME (bm_param m) (bm_row m) :: tok OP "=" (bm_row m) ::
                    bm_vtoks m ++ bm_trailing m ++ tok NEWLINE "" (bm_row m) :: mstream t tail d rest)))
      with (bm_param m).
    rewrite Hid. cbn [negb].
    change (tok NAME (bm_param m) (bm_row m) :: tok OP "=" (bm_row m) ::
              bm_vtoks m ++ bm_trailing m ++ tok NEWLINE "" (bm_row m) :: mstream t tail d rest)
      with (tok NAME (bm_param m) (bm_row m) :: [] ++ tok OP "=" (bm_row m) ::
              bm_vtoks m ++ bm_trailing m ++ tok NEWLINE "" (bm_row m) :: mstream t tail d rest) at 1.
    rewrite advance_solid; [| constructor | unfold solid; cbn [tok ty]; tauto].
    unfold expect_str.
    change (cur_is (tok OP "=" (bm_row m) :: bm_vtoks m ++ bm_trailing m ++
                    tok NEWLINE "" (bm_row m) :: mstream t tail d rest) "=") with true. cbv iota.
    assert (Ea : advance_one (tok OP "=" (bm_row m) :: bm_vtoks m ++ bm_trailing m ++
                              tok NEWLINE "" (bm_row m) :: mstream t tail d rest)
                 = POk (bm_vtoks m ++ bm_trailing m ++ tok NEWLINE "" (bm_row m) :: mstream t tail d rest)).
    { rewrite Ev. cbn [app]. apply advance_one_solid. apply start_solid. exact Hstart. }
    rewrite Ea.
    rewrite (C02_value_fuel o lit true lay n false (bm_value m) (bm_vtoks m) n' (bm_trailing m)
               (tok NEWLINE "" (bm_row m) :: mstream t tail d rest)); try assumption; [|discriminate|].
    2:{ intros t0 r0 E. injection E as <- <-. right. left. reflexivity. }
    unfold expect_ty.
    change (cur_ty (tok NEWLINE "" (bm_row m) :: mstream t tail d rest) NEWLINE) with true. cbv iota.
    cbn [advance_one]. rewrite (settle_mstream o t tail d rest Hms' Htail Hd).
    rewrite (skip_ws_mstream o t tail d rest Hms' Htail Hd).
    rewrite IH; [| exact Hms' | cbn [List.length] in Hfuel; lia].
    cbn [map cur hd tok srow]. rewrite <- app_assoc. reflexivity.
Qed.

Lemma parse_block_core : forall o key line ts ts1 ts2 ts3 ts4 ts5 ts6 members ts7,
  expect_str ":" ts = POk ts1 ->
  skip (S (List.length ts1)) [COMMENT] ts1 = POk ts2 ->
  expect_ty NEWLINE ts2 = POk ts3 ->
  skip (S (List.length ts3)) [COMMENT; NL] ts3 = POk ts4 ->
  expect_ty INDENT ts4 = POk ts5 ->
  skip (S (List.length ts5)) [COMMENT; NL] ts5 = POk ts6 ->
  block_members (S (List.length ts6)) o (fst (split_scoped key)) (snd (split_scoped key)) ts6 [] = POk (members, ts7) ->
  parse_block o key line ts = POk (SBlock (fst (split_scoped key)) (snd (split_scoped key)) line, members, ts7).
Proof.
  intros o key line ts ts1 ts2 ts3 ts4 ts5 ts6 members ts7 H1 H2 H3 H4 H5 H6 H7.
  unfold parse_block. rewrite H1, H2, H3, H4, H5, H6.
  destruct (split_scoped key) as [sc se]. cbn [fst snd] in *. rewrite H7. reflexivity.
Qed.

Lemma parse_statement_block_core : forall o tsp ts0 key ts1 decl members ts2,
  skip_ws false tsp = POk ts0 -> cur_ty ts0 ENDMARKER = false ->
  parse_selector true false false ts0 = POk (key, ts1) ->
  cur_is ts1 "=" = false -> cur_is ts1 ":" = true ->
  parse_block o key (srow (cur ts0)) ts1 = POk (decl, members, ts2) ->
  in_types (ty (cur ts2)) [NEWLINE; DEDENT; ENDMARKER] = true ->
  parse_statement o false tsp = POk (Some (decl :: members, ts2, negb (cur_ty ts2 ENDMARKER))).
Proof.
  intros o tsp ts0 key ts1 decl members ts2 H0 H1 H2 H3 H4 H5 H6.
  unfold parse_statement. rewrite H0, H1, H2, H3, H4, H5, H6. reflexivity.
Qed.

Lemma block_tokens_app : forall row parts hc pre indent ms tail d rest,
  block_tokens row parts hc pre indent ms tail d ++ rest =
  name_tokens row 0 parts true ++ tok OP ":" row :: hc ++ tok NEWLINE "" row :: pre ++ indent :: mstream ms tail d rest.
Proof.
  intros row parts hc pre indent ms tail d rest. unfold block_tokens, mstream.
  rewrite <- !app_assoc. cbn [app]. reflexivity.
Qed.

Lemma members_tokens_length : forall ms, List.length ms <= List.length (members_tokens ms).
Proof.
  induction ms as [|m t IH]; [cbn; lia|].
  cbn [members_tokens]. unfold bmember_tokens. rewrite !app_length. cbn [List.length]. lia.
Qed.

Lemma mcore_length : forall ms tail d rest, List.length ms <= List.length (mcore ms tail d rest).
Proof.
  intros [|m t] tail d rest; [cbn; lia|].
  unfold mcore, bmember_core, mstream. cbn [List.length]. rewrite !app_length. cbn [List.length]. rewrite !app_length.
  pose proof (members_tokens_length t). lia.
Qed.

Theorem C03_block_statement : forall o lead row parts hc pre indent ms tail dedent rest,
  Forall lead_tok lead -> wf_name parts ->
  Forall (fun t => ty t = COMMENT) hc -> Forall trivia_tok pre -> ty indent = INDENT ->
  Forall (bmember_ok o) ms -> Forall trivia_tok tail -> ty dedent = DEDENT ->
  parse_statement o false (lead ++ block_tokens row parts hc pre indent ms tail dedent ++ rest) =
  POk (Some (block_stmts row parts ms, dedent :: rest, true)).
Proof.
  intros o lead row parts hc pre indent ms tail d rest Hlead Hname Hhc Hpre Hind Hms Htail Hd.
  destruct (wf_name_alt _ Hname) as [Hne [Hfmt Halt]].
  rewrite block_tokens_app.
  set (Y := mstream ms tail d rest).
  set (X := tok OP ":" row :: hc ++ tok NEWLINE "" row :: pre ++ indent :: Y).
  destruct (name_tokens_head row 0 parts X Hne) as [t0 [r0 [E0 [Hty0 Hrow0]]]].
  assert (Hhc' : Forall (fun x => in_types (ty x) [COMMENT] = true /\ ty x <> TERR /\ ty x <> ERRORTOKEN) hc).
  { eapply Forall_impl; [|exact Hhc]. cbn beta. intros x Hx. rewrite Hx. repeat split; discriminate. }
  assert (Hpre' : Forall (fun x => in_types (ty x) [COMMENT; NL] = true /\ ty x <> TERR /\ ty x <> ERRORTOKEN) pre).
  { eapply Forall_impl; [|exact Hpre]. cbn beta. intros x [Hx|Hx]; rewrite Hx; repeat split; discriminate. }
  assert (Hblock : parse_block o (name_text parts) row X =
                   POk (SBlock (fst (split_scoped (name_text parts))) (snd (split_scoped (name_text parts))) row,
                        map (fun m => SBind (fst (split_scoped (name_text parts))) (snd (split_scoped (name_text parts)))
                                            (bm_param m) (bm_value m) (bm_row m)) ms,
                        d :: rest)).
  { apply (parse_block_core o (name_text parts) row X
             (hc ++ tok NEWLINE "" row :: pre ++ indent :: Y)
             (tok NEWLINE "" row :: pre ++ indent :: Y)
             (pre ++ indent :: Y) (indent :: Y) Y (mcore ms tail d rest)).
    - unfold expect_str, X. rewrite cur_is_cons. cbn [tok text]. cbn [String.eqb Ascii.eqb Bool.eqb]. cbv iota.
      cbn [advance_one]. apply settle_app; [| discriminate | discriminate].
      eapply Forall_impl; [|exact Hhc']. cbn beta. tauto.
    - apply skip_over; [exact Hhc' | reflexivity | discriminate | discriminate | rewrite app_length; cbn [List.length]; lia].
    - unfold expect_ty.
      change (cur_ty (tok NEWLINE "" row :: pre ++ indent :: Y) NEWLINE) with true. cbv iota.
      cbn [advance_one]. apply settle_app; [| rewrite Hind; discriminate | rewrite Hind; discriminate].
      eapply Forall_impl; [|exact Hpre']. cbn beta. tauto.
    - apply skip_over; [exact Hpre' | rewrite Hind; reflexivity | rewrite Hind; discriminate
                        | rewrite Hind; discriminate | rewrite app_length; cbn [List.length]; lia].
    - unfold expect_ty, cur_ty. cbn [cur hd]. rewrite Hind. cbn [ttype_eqb]. cbn [advance_one].
      exact (settle_mstream o ms tail d rest Hms Htail Hd).
    - exact (skip_ws_mstream o ms tail d rest Hms Htail Hd).
    - rewrite (members_run o _ _ tail d rest Htail Hd ms Hms []); [reflexivity|].
      pose proof (mcore_length ms tail d rest). lia. }
  rewrite (parse_statement_block_core o _ (name_tokens row 0 parts true ++ X) (name_text parts) X
             (SBlock (fst (split_scoped (name_text parts))) (snd (split_scoped (name_text parts))) row)
             (map (fun m => SBind (fst (split_scoped (name_text parts))) (snd (split_scoped (name_text parts)))
                                  (bm_param m) (bm_value m) (bm_row m)) ms)
             (d :: rest)).
  - unfold block_stmts. destruct (split_scoped (name_text parts)) as [sc se]. cbn [fst snd].
    unfold cur_ty. cbn [cur hd]. rewrite Hd. reflexivity.
  - rewrite E0. apply skip_ws_lead; [exact Hlead | rewrite Hty0; reflexivity | rewrite Hty0; discriminate
                                     | rewrite Hty0; discriminate].
  - rewrite E0. unfold cur_ty. cbn [cur hd]. rewrite Hty0. reflexivity.
  - apply parse_selector_name_gen; try assumption.
    unfold X. eexists _, _. split; [reflexivity|]. cbn [tok text ty]. repeat split; discriminate.
  - reflexivity.
  - reflexivity.
  - rewrite E0. cbn [cur hd]. rewrite Hrow0. exact Hblock.
  - cbn [cur hd]. rewrite Hd. reflexivity.
Qed.

Print Assumptions C03_block_statement.

(* ================================================================== *)
(* (3) whole files mixing all five statement kinds *)
Record rblock := { rb_lead : list token; rb_row : nat; rb_parts : list string; rb_hcomment : list token;
                   rb_pre : list token; rb_indent : token; rb_members : list bmember; rb_tail : list token;
                   rb_dedent : token }.
Definition rblock_ok (o : oracle) (b : rblock) : Prop :=
  Forall lead_tok (rb_lead b) /\ wf_name (rb_parts b) /\ Forall (fun t => ty t = COMMENT) (rb_hcomment b) /\
  Forall trivia_tok (rb_pre b) /\ ty (rb_indent b) = INDENT /\ Forall (bmember_ok o) (rb_members b) /\
  Forall trivia_tok (rb_tail b) /\ ty (rb_dedent b) = DEDENT.
Definition rblock_tokens (b : rblock) : list token :=
  rb_lead b ++ block_tokens (rb_row b) (rb_parts b) (rb_hcomment b) (rb_pre b) (rb_indent b) (rb_members b)
                            (rb_tail b) (rb_dedent b).

Inductive aitem :=
| ABase (it : ritem)                       (* binding / import / from-import *)
| AInclude (lead : list token) (row : nat) (strs trailing : list token) (v : out)
| ABlock (b : rblock).

Definition aitem_ok (o : oracle) (it : aitem) : Prop :=
  match it with
  | ABase it => ritem_ok o it
  | AInclude lead _ strs trailing v =>
      Forall lead_tok lead /\ Forall str_tok_ok strs /\ Forall trivia_tok trailing /\
      lit_wf o (LStrs strs) /\ py_eval o (LStrs strs) = Some v /\ is_str_value v = true
  | ABlock b => rblock_ok o b
  end.
Definition aitem_tokens (it : aitem) : list token :=
  match it with
  | ABase it => ritem_tokens it
  | AInclude lead row strs trailing _ => lead ++ include_tokens_tr row strs trailing
  | ABlock b => rblock_tokens b
  end.
(* the token the parser stops on: the statement's NEWLINE, or the block's DEDENT *)
Definition aitem_end (it : aitem) : token :=
  match it with
  | ABase it => tok NEWLINE "" (ritem_row it)
  | AInclude _ row _ _ _ => tok NEWLINE "" row
  | ABlock b => rb_dedent b
  end.
Definition aitem_stmts (it : aitem) : list stmt :=
  match it with
  | ABase it => [ritem_expected it]
  | AInclude _ row _ _ v => [SInclude v row]
  | ABlock b => block_stmts (rb_row b) (rb_parts b) (rb_members b)
  end.
Fixpoint render_all (its : list aitem) : list token :=
  match its with [] => [] | it :: t => aitem_tokens it ++ render_all t end.

Lemma aitem_step : forall o it rest, aitem_ok o it ->
  parse_statement o false (aitem_tokens it ++ rest) = POk (Some (aitem_stmts it, aitem_end it :: rest, true)).
Proof.
  intros o it rest H. destruct it as [it|lead row strs trailing v|b];
    cbn [aitem_tokens aitem_stmts aitem_end].
  - apply ritem_step; exact H.
  - destruct H as [H1 [H2 [H3 [H4 [H5 H6]]]]]. rewrite <- app_assoc.
    apply C03_include_statement_lead; assumption.
  - destruct H as [H1 [H2 [H3 [H4 [H5 [H6 [H7 H8]]]]]]]. unfold rblock_tokens. rewrite <- app_assoc.
    apply C03_block_statement; assumption.
Qed.

Lemma aitem_settle : forall o it rest, aitem_ok o it ->
  settle (aitem_tokens it ++ rest) = POk (aitem_tokens it ++ rest).
Proof.
  intros o it rest H. destruct it as [it|lead row strs trailing v|b]; cbn [aitem_tokens].
  - apply (ritem_settle o); exact H.
  - destruct H as [H1 _]. rewrite <- app_assoc. rewrite include_tokens_app.
    apply settle_lead; [exact H1 | discriminate | discriminate].
  - destruct H as [H1 [H2 _]]. unfold rblock_tokens. rewrite <- app_assoc. rewrite block_tokens_app.
    destruct (wf_name_alt _ H2) as [Hne _].
    match goal with |- context [name_tokens ?r 0 ?p true ++ ?X] =>
      destruct (name_tokens_head r 0 p X Hne) as [t0 [r0 [E0 [Hty0 _]]]] end.
    rewrite E0. apply settle_lead; [exact H1 | rewrite Hty0; discriminate | rewrite Hty0; discriminate].
Qed.

Lemma all_pending : forall o fl eof, Forall lead_tok fl -> ty eof = ENDMARKER ->
  forall its, Forall (aitem_ok o) its -> forall prev acc fuel, List.length its < fuel ->
  parse_all fuel o true (prev :: render_all its ++ fl ++ [eof]) acc = (acc ++ flat_map aitem_stmts its, None).
Proof.
  intros o fl eof Hfl He its. induction its as [|it t IH]; intros Hits prev acc fuel Hfuel.
  - destruct fuel as [|f]; [cbn in Hfuel; lia|]. rewrite parse_all_S. cbn [render_all app].
    rewrite parse_statement_eof_pending; try assumption. cbn [flat_map]. rewrite app_nil_r. reflexivity.
  - destruct fuel as [|f]; [cbn in Hfuel; lia|]. rewrite parse_all_S.
    cbn [render_all]. rewrite <- !app_assoc.
    rewrite parse_statement_pending; [| apply (aitem_settle o); exact (Forall_inv Hits)].
    rewrite aitem_step; [|exact (Forall_inv Hits)].
    rewrite IH; [| exact (Forall_inv_tail Hits) | cbn [List.length] in Hfuel; lia].
    cbn [flat_map]. rewrite <- app_assoc. reflexivity.
Qed.

Theorem C03_roundtrip_all : forall o its final_lead eof,
  Forall (aitem_ok o) its -> Forall lead_tok final_lead -> ty eof = ENDMARKER ->
  exists fuel0, forall fuel, fuel0 <= fuel ->
    parse_all fuel o false (render_all its ++ final_lead ++ [eof]) [] = (flat_map aitem_stmts its, None).
Proof.
  intros o its fl eof Hits Hfl He. exists (S (List.length its)). intros fuel Hfuel.
  destruct fuel as [|f]; [lia|]. rewrite parse_all_S. destruct its as [|it t].
  - cbn [render_all app]. rewrite parse_statement_eof; try assumption. reflexivity.
  - cbn [render_all]. rewrite <- !app_assoc.
    rewrite aitem_step; [|exact (Forall_inv Hits)].
    rewrite (all_pending o fl eof Hfl He t (Forall_inv_tail Hits)); [| cbn [List.length] in Hfuel; lia].
    reflexivity.
Qed.

Print Assumptions C03_roundtrip_all.

(* ================================================================== *)
(* (4) block layout = flat layout *)
Definition is_bind (s : stmt) : bool := match s with SBind _ _ _ _ _ => true | _ => false end.

(* --- the key  scope/sel  followed by  .param  splits into (scope, sel, param) --- *)
Lemma word_not_sep : forall c, is_word c = true -> Ascii.eqb slash c = false /\ Ascii.eqb dot c = false.
Proof.
  intros c H. split.
  - destruct (Ascii.eqb_spec slash c) as [E|E]; [|reflexivity]. subst c. vm_compute in H. discriminate.
  - destruct (Ascii.eqb_spec dot c) as [E|E]; [|reflexivity]. subst c. vm_compute in H. discriminate.
Qed.

Lemma words_no_sep : forall s, all_chars is_word s = true ->
  contains_char slash s = false /\ contains_char dot s = false.
Proof.
  induction s as [|c s IH]; intro H; [split; reflexivity|].
  cbn [all_chars] in H. apply andb_true_iff in H. destruct H as [Hc Hs].
  destruct (word_not_sep c Hc) as [E1 E2]. destruct (IH Hs) as [I1 I2].
  cbn [contains_char]. rewrite E1, E2, I1, I2. split; reflexivity.
Qed.

Lemma ident_no_sep : forall p, is_identifier p = true ->
  contains_char slash p = false /\ contains_char dot p = false.
Proof.
  intros [|c r] H; [discriminate|]. cbn [is_identifier] in H. apply andb_true_iff in H. destruct H as [Hc Hr].
  apply words_no_sep. cbn [all_chars]. unfold is_word. rewrite Hc. cbn [orb]. exact Hr.
Qed.

Lemma rsplit1_append : forall sep a b, contains_char sep b = false ->
  rsplit1 sep (a ++ b)%string =
  match rsplit1 sep a with Some (x, y) => Some (x, (y ++ b)%string) | None => None end.
Proof.
  intros sep a b Hb. induction a as [|c a IH]; cbn [String.append rsplit1].
  - apply rsplit1_none; exact Hb.
  - rewrite IH. destruct (rsplit1 sep a) as [[x y]|]; [reflexivity|].
    destruct (Ascii.eqb c sep); reflexivity.
Qed.

Lemma split_binding_key_extend : forall key p scope sel,
  split_scoped key = (scope, sel) -> is_identifier p = true ->
  split_binding_key (key ++ "." ++ p)%string = (scope, sel, p).
Proof.
  intros key p scope sel Hk Hp. destruct (ident_no_sep p Hp) as [Hs Hd].
  assert (Hsl : contains_char slash ("." ++ p)%string = false).
  { change ("." ++ p)%string with (String dot p). cbn [contains_char]. rewrite Hs. reflexivity. }
  assert (E : split_scoped (key ++ "." ++ p)%string = (scope, (sel ++ "." ++ p)%string)).
  { unfold split_scoped in *. rewrite (rsplit1_append _ _ _ Hsl).
    destruct (rsplit1 slash key) as [[x y]|].
    - injection Hk as <- <-. reflexivity.
    - injection Hk as <- <-. reflexivity. }
  unfold split_binding_key. rewrite E.
  change ("." ++ p)%string with (String dot p). rewrite (rsplit1_app _ _ _ Hd). reflexivity.
Qed.

Lemma concat_strs_app : forall a b, concat_strs (a ++ b) = (concat_strs a ++ concat_strs b)%string.
Proof.
  induction a as [|x a IH]; intro b; [reflexivity|].
  cbn [app concat_strs]. rewrite IH. rewrite append_assoc. reflexivity.
Qed.

Lemma name_text_extend : forall parts p, name_text (parts ++ ["."; p]) = (name_text parts ++ "." ++ p)%string.
Proof.
  intros parts p. unfold name_text. rewrite concat_strs_app. cbn [concat_strs]. rewrite append_nil_r. reflexivity.
Qed.

(* --- what a file binds: written names and values, in order --- *)
Definition block_binds (b : rblock) : list (list string * out) :=
  map (fun m => (rb_parts b ++ ["."; bm_param m], bm_value m)) (rb_members b).
Definition aitem_binds (it : aitem) : list (list string * out) :=
  match it with
  | ABase (RBind r) => [(rs_parts r, rs_value r)]
  | ABlock b => block_binds b
  | _ => []
  end.

Lemma filter_binds : forall sc se (ms : list bmember),
  filter is_bind (map (fun m => SBind sc se (bm_param m) (bm_value m) (bm_row m)) ms) =
  map (fun m => SBind sc se (bm_param m) (bm_value m) (bm_row m)) ms.
Proof. intros sc se ms. induction ms as [|m t IH]; [reflexivity|]. cbn [map filter is_bind]. rewrite IH. reflexivity. Qed.

Lemma block_binds_spec : forall o b, rblock_ok o b ->
  map strip_line (filter is_bind (block_stmts (rb_row b) (rb_parts b) (rb_members b))) = map stmt_of (block_binds b).
Proof.
  intros o b [_ [_ [_ [_ [_ [Hms _]]]]]]. unfold block_stmts, block_binds.
  destruct (split_scoped (name_text (rb_parts b))) as [sc se] eqn:Ek.
  cbn [filter is_bind]. rewrite filter_binds. rewrite !map_map.
  apply map_ext_in. intros m Hm. rewrite Forall_forall in Hms. destruct (Hms m Hm) as [_ [Hid _]].
  unfold stmt_of. cbn [fst snd strip_line]. rewrite name_text_extend.
  rewrite (split_binding_key_extend _ _ _ _ Ek Hid). reflexivity.
Qed.

Lemma aitem_binds_spec : forall o it, aitem_ok o it ->
  map strip_line (filter is_bind (aitem_stmts it)) = map stmt_of (aitem_binds it).
Proof.
  intros o it H. destruct it as [[r|lead row mparts alias|lead row mparts leaf alias]|lead row strs trailing v|b];
    cbn [aitem_stmts aitem_binds ritem_expected]; try reflexivity.
  - cbn [map]. rewrite <- strip_expected. unfold expected.
    destruct (split_binding_key (name_text (rs_parts r))) as [[sc se] arg]. reflexivity.
  - apply (block_binds_spec o); exact H.
Qed.

Lemma filter_flat_map : forall {A B} (f : B -> bool) (g : A -> list B) l,
  filter f (flat_map g l) = flat_map (fun x => filter f (g x)) l.
Proof.
  intros A B f g l. induction l as [|x l IH]; [reflexivity|].
  cbn [flat_map]. rewrite filter_app, IH. reflexivity.
Qed.

Lemma map_flat_map : forall {A B C} (h : B -> C) (g : A -> list B) l,
  map h (flat_map g l) = flat_map (fun x => map h (g x)) l.
Proof.
  intros A B C h g l. induction l as [|x l IH]; [reflexivity|].
  cbn [flat_map]. rewrite map_app, IH. reflexivity.
Qed.

Lemma all_binds_spec : forall o its, Forall (aitem_ok o) its ->
  map strip_line (filter is_bind (flat_map aitem_stmts its)) = map stmt_of (flat_map aitem_binds its).
Proof.
  intros o its H. rewrite filter_flat_map. rewrite !map_flat_map.
  induction its as [|it t IH]; [reflexivity|]. cbn [flat_map].
  rewrite (aitem_binds_spec o it (Forall_inv H)). rewrite (IH (Forall_inv_tail H)). reflexivity.
Qed.

(* two files of any five kinds of statements, in any layouts, binding the same written names to the same
   values in the same order (blocks or flat lines alike), yield the same bindings up to line numbers *)
Theorem C03_bindings_layout_irrelevant : forall o its1 its2 fl1 fl2 eof1 eof2,
  Forall (aitem_ok o) its1 -> Forall (aitem_ok o) its2 ->
  flat_map aitem_binds its1 = flat_map aitem_binds its2 ->
  Forall lead_tok fl1 -> Forall lead_tok fl2 -> ty eof1 = ENDMARKER -> ty eof2 = ENDMARKER ->
  exists fuel0, forall fuel, fuel0 <= fuel ->
    map strip_line (filter is_bind (fst (parse_all fuel o false (render_all its1 ++ fl1 ++ [eof1]) []))) =
    map strip_line (filter is_bind (fst (parse_all fuel o false (render_all its2 ++ fl2 ++ [eof2]) []))) /\
    snd (parse_all fuel o false (render_all its1 ++ fl1 ++ [eof1]) []) = None /\
    snd (parse_all fuel o false (render_all its2 ++ fl2 ++ [eof2]) []) = None.
Proof.
  intros o its1 its2 fl1 fl2 eof1 eof2 H1 H2 Hsame Hfl1 Hfl2 He1 He2.
  destruct (C03_roundtrip_all o its1 fl1 eof1 H1 Hfl1 He1) as [f1 Hf1].
  destruct (C03_roundtrip_all o its2 fl2 eof2 H2 Hfl2 He2) as [f2 Hf2].
  exists (f1 + f2). intros fuel Hfuel. rewrite Hf1 by lia. rewrite Hf2 by lia. cbn [fst snd].
  split; [|split; reflexivity].
  rewrite (all_binds_spec o its1 H1), (all_binds_spec o its2 H2), Hsame. reflexivity.
Qed.

(* the requested form: one block file against the flat file  scope/sel.param_i = value_i *)
Theorem C03_block_equals_flat : forall o b flat fl1 fl2 eof1 eof2,
  rblock_ok o b -> Forall (rstmt_ok o) flat ->
  map (fun r => (rs_parts r, rs_value r)) flat = block_binds b ->
  Forall lead_tok fl1 -> Forall lead_tok fl2 -> ty eof1 = ENDMARKER -> ty eof2 = ENDMARKER ->
  exists fuel0, forall fuel, fuel0 <= fuel ->
    map strip_line (filter is_bind (fst (parse_all fuel o false (rblock_tokens b ++ fl1 ++ [eof1]) []))) =
    map strip_line (fst (parse_all fuel o false (render_file flat ++ fl2 ++ [eof2]) [])) /\
    snd (parse_all fuel o false (rblock_tokens b ++ fl1 ++ [eof1]) []) = None /\
    snd (parse_all fuel o false (render_file flat ++ fl2 ++ [eof2]) []) = None.
Proof.
  intros o b flat fl1 fl2 eof1 eof2 Hb Hflat Hsame Hfl1 Hfl2 He1 He2.
  assert (Hits : Forall (aitem_ok o) [ABlock b]) by (constructor; [exact Hb | constructor]).
  destruct (C03_roundtrip_all o [ABlock b] fl1 eof1 Hits Hfl1 He1) as [f1 Hf1].
  destruct (C03_roundtrip_flat o flat fl2 eof2 Hflat Hfl2 He2) as [f2 Hf2].
  exists (f1 + f2). intros fuel Hfuel.
  specialize (Hf1 fuel ltac:(lia)). cbn [render_all aitem_tokens] in Hf1. rewrite app_nil_r in Hf1.
  rewrite Hf1. rewrite Hf2 by lia. cbn [fst snd flat_map aitem_stmts]. rewrite app_nil_r.
  split; [|split; reflexivity].
  rewrite (block_binds_spec o b Hb). rewrite strip_expected_map. rewrite Hsame. reflexivity.
Qed.

Print Assumptions C03_bindings_layout_irrelevant.
Print Assumptions C03_block_equals_flat.

(* ------------------------------------------------------------------ *)
(* the flat counterpart of a block always exists: scope/sel.param is a well-formed written name, so the
   flat file built from the block's own members satisfies rstmt_ok *)
Lemma split_aux_nosep : forall sep t cur, contains_char sep t = false ->
  split_aux sep t cur = [(cur ++ t)%string].
Proof.
  intros sep t. induction t as [|c t IH]; intros cur H.
  - cbn [split_aux]. rewrite append_nil_r. reflexivity.
  - cbn [contains_char] in H. apply orb_false_iff in H. destruct H as [Hc Ht].
    cbn [split_aux]. destruct (Ascii.eqb_spec c sep) as [E|E].
    + subst c. rewrite Ascii.eqb_refl in Hc. discriminate.
    + rewrite (IH _ Ht). rewrite append_assoc. reflexivity.
Qed.

Lemma split_aux_ne : forall sep s cur, split_aux sep s cur <> [].
Proof.
  intros sep s. induction s as [|c s IH]; intro cur; cbn [split_aux]; [discriminate|].
  destruct (Ascii.eqb c sep); [discriminate | apply IH].
Qed.

Lemma split_aux_app_nosep : forall sep t, contains_char sep t = false -> forall s cur,
  split_aux sep (s ++ t)%string cur =
  removelast (split_aux sep s cur) ++ [(last (split_aux sep s cur) "" ++ t)%string].
Proof.
  intros sep t Ht s. induction s as [|c s IH]; intro cur.
  - cbn [String.append split_aux removelast last app]. apply split_aux_nosep; exact Ht.
  - cbn [String.append split_aux]. destruct (Ascii.eqb c sep).
    + rewrite IH. pose proof (split_aux_ne sep s "") as Hne.
      destruct (split_aux sep s "") as [|l0 L]; [congruence|]. reflexivity.
    + apply IH.
Qed.

Lemma split_aux_dot_app : forall p, contains_char dot p = false -> forall u cur,
  split_aux dot (u ++ String dot p)%string cur = split_aux dot u cur ++ [p].
Proof.
  intros p Hp u. induction u as [|c u IH]; intro cur.
  - cbn [String.append split_aux]. rewrite Ascii.eqb_refl. rewrite (split_aux_nosep _ _ _ Hp). reflexivity.
  - cbn [String.append split_aux]. destruct (Ascii.eqb c dot); [rewrite IH; reflexivity | apply IH].
Qed.

Lemma fmt_extend : forall key p, selector_format_ok true false key = true -> is_identifier p = true ->
  selector_format_ok true false (key ++ "." ++ p)%string = true.
Proof.
  intros key p Hk Hp. destruct (ident_no_sep p Hp) as [Hs Hd].
  assert (Hsl : contains_char slash ("." ++ p)%string = false).
  { change ("." ++ p)%string with (String dot p). cbn [contains_char]. rewrite Hs. reflexivity. }
  unfold selector_format_ok, split_slash, split in *.
  rewrite (split_aux_app_nosep slash _ Hsl).
  set (L := split_aux slash key "") in *.
  rewrite removelast_last, last_last.
  cbn [orb] in *. rewrite andb_true_r in *. apply andb_true_iff in Hk. destruct Hk as [H1 H2].
  rewrite H1. cbn [andb].
  unfold is_selector, split_dot, split in *.
  change ("." ++ p)%string with (String dot p). rewrite (split_aux_dot_app _ Hd).
  rewrite forallb_app, H2. cbn [forallb]. rewrite Hp. reflexivity.
Qed.

Lemma alt_ok_app : forall l m b, alt_ok l b -> alt_ok m false -> alt_ok (l ++ m) b.
Proof.
  induction l as [|x l IH]; intros m b Hl Hm.
  - cbn [alt_ok] in Hl. subst b. exact Hm.
  - cbn [alt_ok app] in *. destruct Hl as [Hx Hl]. split; [exact Hx | apply IH; assumption].
Qed.

Lemma wf_name_extend : forall parts p, wf_name parts -> is_identifier p = true -> wf_name (parts ++ ["."; p]).
Proof.
  intros parts p Hwf Hp. destruct (wf_name_alt _ Hwf) as [Hne [Hfmt Halt]].
  assert (A : alt_ok (parts ++ ["."; p]) true).
  { apply alt_ok_app; [exact Halt|]. cbn [alt_ok negb]. split; [right; reflexivity|]. split; [exact Hp | reflexivity]. }
  unfold wf_name. split.
  - intro E. apply app_eq_nil in E. destruct E as [_ E]. discriminate.
  - split; [rewrite name_text_extend; apply fmt_extend; assumption | exact A].
Qed.

Definition flat_of (parts : list string) (m : bmember) : rstmt :=
  {| rs_lead := bm_lead m; rs_row := bm_row m; rs_parts := parts ++ ["."; bm_param m];
     rs_vtoks := bm_vtoks m; rs_trailing := bm_trailing m; rs_value := bm_value m |}.

Lemma flat_of_ok : forall o parts m, wf_name parts -> bmember_ok o m -> rstmt_ok o (flat_of parts m).
Proof.
  intros o parts m Hwf [Hl [Hid [Htr [Hok Hex]]]]. unfold rstmt_ok, flat_of. cbn.
  split. { eapply Forall_impl; [|exact Hl]. cbn beta. intros x [Hx|Hx]; unfold lead_tok; tauto. }
  split. { apply wf_name_extend; assumption. }
  split; [exact Htr|]. split; [exact Hok | exact Hex].
Qed.

(* rewriting a block as flat lines (same member layouts) gives the same bindings: no side conditions left *)
Corollary C03_block_equals_own_flat : forall o b fl1 fl2 eof1 eof2,
  rblock_ok o b -> Forall lead_tok fl1 -> Forall lead_tok fl2 -> ty eof1 = ENDMARKER -> ty eof2 = ENDMARKER ->
  exists fuel0, forall fuel, fuel0 <= fuel ->
    map strip_line (filter is_bind (fst (parse_all fuel o false (rblock_tokens b ++ fl1 ++ [eof1]) []))) =
    map strip_line (fst (parse_all fuel o false
                           (render_file (map (flat_of (rb_parts b)) (rb_members b)) ++ fl2 ++ [eof2]) [])) /\
    snd (parse_all fuel o false (rblock_tokens b ++ fl1 ++ [eof1]) []) = None /\
    snd (parse_all fuel o false (render_file (map (flat_of (rb_parts b)) (rb_members b)) ++ fl2 ++ [eof2]) []) = None.
Proof.
  intros o b fl1 fl2 eof1 eof2 Hb Hfl1 Hfl2 He1 He2.
  apply C03_block_equals_flat; try assumption.
  - destruct Hb as [_ [Hwf [_ [_ [_ [Hms _]]]]]]. apply Forall_forall. intros r Hr.
    apply in_map_iff in Hr. destruct Hr as [m [<- Hm]]. rewrite Forall_forall in Hms.
    apply flat_of_ok; [exact Hwf | exact (Hms m Hm)].
  - unfold block_binds. rewrite map_map. reflexivity.
Qed.

Print Assumptions C03_block_equals_own_flat.

(* ================================================================== *)
(* non-vacuity: a rendered two-member block preceded by a comment line

     # header comment
     a/b:            # cfg
       x = 1
       # inner comment
       y = 2
*)
Definition ex_o : oracle := [("1", Some (OZ 1)); ("2", Some (OZ 2))].
Definition ex_num (s : string) (row : nat) : token :=
  {| ty := NUMBER; text := s; srow := row; scol := 6; erow := row; ecol := 7 |}.
Definition ex_m1 : bmember :=
  {| bm_lead := []; bm_row := 3; bm_param := "x"; bm_vtoks := [ex_num "1" 3]; bm_trailing := []; bm_value := OZ 1 |}.
Definition ex_m2 : bmember :=
  {| bm_lead := [tok COMMENT "# inner comment" 4; tok NL "" 4]; bm_row := 5; bm_param := "y";
     bm_vtoks := [ex_num "2" 5]; bm_trailing := []; bm_value := OZ 2 |}.
Definition ex_block : rblock :=
  {| rb_lead := [tok COMMENT "# header comment" 1; tok NL "" 1]; rb_row := 2; rb_parts := ["a"; "/"; "b"];
     rb_hcomment := [tok COMMENT "# cfg" 2]; rb_pre := []; rb_indent := tok INDENT "  " 3;
     rb_members := [ex_m1; ex_m2]; rb_tail := []; rb_dedent := tok DEDENT "" 6 |}.

Lemma ex_member_ok : forall s row z lead p, olookup ex_o s = Some (Some z) -> Forall trivia_tok lead ->
  is_identifier p = true -> text_ok s ->
  bmember_ok ex_o {| bm_lead := lead; bm_row := row; bm_param := p; bm_vtoks := [ex_num s row];
                     bm_trailing := []; bm_value := z |}.
Proof.
  intros s row z lead p Ho Hl Hp Hs. unfold bmember_ok. cbn.
  split; [exact Hl|]. split; [exact Hp|]. split; [constructor|].
  split. { constructor; [|constructor]. intros _. exact Hs. }
  exists (LBasic false (ex_num s row)), (fun _ => []), 0, 2.
  split. { intro k. constructor. }
  split. { cbn. split; [tauto|]. destruct Hs as [_ [H _]]. exact H. }
  split; [|reflexivity]. cbn [py_eval].
  change (("" ++ text (ex_num s row))%string) with s. rewrite Ho. reflexivity.
Qed.

Example ex_block_ok : rblock_ok ex_o ex_block.
Proof.
  unfold rblock_ok, ex_block. cbn.
  split. { constructor; [|constructor; [|constructor]]; unfold lead_tok; cbn; tauto. }
  split. { unfold wf_name. split; [discriminate|]. split; [reflexivity|]. cbn. repeat split; auto. }
  split. { constructor; [reflexivity | constructor]. }
  split; [constructor|]. split; [reflexivity|].
  split.
  { constructor; [|constructor; [|constructor]].
    - apply ex_member_ok; [reflexivity | constructor | reflexivity |].
      unfold text_ok. cbn. repeat split; discriminate.
    - apply ex_member_ok; [reflexivity | | reflexivity |].
      + constructor; [right; reflexivity | constructor; [left; reflexivity | constructor]].
      + unfold text_ok. cbn. repeat split; discriminate. }
  split; [constructor | reflexivity].
Qed.

Definition ex_file : list token := render_all [ABlock ex_block] ++ [] ++ [tok ENDMARKER "" 6].

Example ex_block_parse :
  parse_all 5 ex_o false ex_file [] =
  ([SBlock "a" "b" 2; SBind "a" "b" "x" (OZ 1) 3; SBind "a" "b" "y" (OZ 2) 5], None).
Proof. vm_compute. reflexivity. Qed.

(* ... which is what the roundtrip theorem predicts *)
Example ex_block_expected :
  flat_map aitem_stmts [ABlock ex_block] = [SBlock "a" "b" 2; SBind "a" "b" "x" (OZ 1) 3; SBind "a" "b" "y" (OZ 2) 5].
Proof. vm_compute. reflexivity. Qed.

(* the same bindings written flat *)
Example ex_flat_parse :
  parse_all 5 ex_o false (render_file (map (flat_of ["a"; "/"; "b"]) [ex_m1; ex_m2]) ++ [] ++ [tok ENDMARKER "" 6]) [] =
  ([SBind "a" "b" "x" (OZ 1) 3; SBind "a" "b" "y" (OZ 2) 5], None).
Proof. vm_compute. reflexivity. Qed.

(* an include with two adjacent string pieces *)
Definition ex_str (s : string) : token := {| ty := STRING; text := s; srow := 1; scol := 8; erow := 1; ecol := 9 |}.
Definition ex_oi : oracle := [("'a'", Some (OT "str" [OS "a"])); ("'a' 'b'", Some (OT "str" [OS "ab"]))].
Example ex_include_ok :
  aitem_ok ex_oi (AInclude [] 1 [ex_str "'a'"; ex_str "'b'"] [tok COMMENT "# c" 1] (OT "str" [OS "ab"])).
Proof.
  cbn [aitem_ok]. split; [constructor|].
  split. { constructor; [|constructor; [|constructor]]; unfold str_tok_ok; cbn; lia. }
  split. { constructor; [right; reflexivity | constructor]. }
  split.
  { cbn [lit_wf]. split; [discriminate|]. split.
    - constructor; [reflexivity | constructor; [reflexivity | constructor]].
    - cbn [prefixes_ne map]. constructor; [eexists; reflexivity | constructor; [eexists; reflexivity | constructor]]. }
  split; reflexivity.
Qed.
Example ex_include_parse :
  parse_all 5 ex_oi false
    (render_all [AInclude [] 1 [ex_str "'a'"; ex_str "'b'"] [tok COMMENT "# c" 1] (OT "str" [OS "ab"])] ++ [] ++
     [tok ENDMARKER "" 2]) [] = ([SInclude (OT "str" [OS "ab"]) 1], None).
Proof. vm_compute. reflexivity. Qed.
