(* C03, remaining clauses: include statements, the indented block layout, whole files mixing
   all five statement kinds, and block layout = flat layout. *)
From Coq Require Import List String ZArith Bool Arith Lia Ascii.
From GinV Require Import Lib.Out Lib.PyStr Model.Parser Model.ParserSpec Model.ParserSpec2
                         Proofs.ParserSmall Proofs.ParserLemmas Proofs.ParserProofs Proofs.StatementProofs.
Import ListNotations.
Open Scope string_scope.
Open Scope list_scope.

(* ------------------------------------------------------------------ *)
(* a keyword read as a selector, followed by any token that is neither a separator nor skipped *)
Lemma parse_selector_keyword_gen : forall kw row t r,
  selector_format_ok true false kw = true ->
  ty t <> TERR -> ty t <> ERRORTOKEN -> in_types (ty t) (ws_types false) = false ->
  text t <> "/" -> text t <> "." ->
  parse_selector true false false (tok NAME kw row :: t :: r) = POk (kw, t :: r).
Proof.
  intros kw row t r Hfmt He1 He2 Hws H1 H2.
  unfold parse_selector.
  change (cur_ty (tok NAME kw row :: t :: r) NAME) with true. cbn [negb].
  cbn [List.length]. rewrite sel_loop_S.
  change (ty (cur (tok NAME kw row :: t :: r))) with NAME.
  change (cur (tok NAME kw row :: t :: r)) with (tok NAME kw row).
  cbn [negb andb orb ttype_eqb]. cbn [advance_one].
  rewrite settle_non_trivia; [| exact He1 | exact He2].
  rewrite sel_loop_S. cbn [cur hd negb andb orb].
  apply String.eqb_neq in H1. apply String.eqb_neq in H2. rewrite H1, H2. cbn [orb app].
  rewrite skip_ws_stop; [| exact Hws].
  cbn [contiguous tok srow erow text concat_strs]. rewrite Nat.eqb_refl. rewrite append_nil_r. rewrite Hfmt.
  reflexivity.
Qed.

(* ================================================================== *)
(* (1) include *)

(* `include 'a' 'b'  # comment` : NAME include, one or more adjacent STRING tokens, trivia, NEWLINE *)
Definition include_tokens_tr (row : nat) (strs trailing : list token) : list token :=
  [tok NAME "include" row] ++ strs ++ trailing ++ [tok NEWLINE "" row].

Lemma include_tokens_tr_nil : forall row strs, include_tokens_tr row strs [] = include_tokens row strs.
Proof. reflexivity. Qed.

(* the text of a STRING token carries its quotes: at least two characters *)
Definition str_tok_ok (t : token) : Prop := 2 <= String.length (text t).

Lemma len2_not_special : forall s, 2 <= String.length s ->
  s <> "" /\ s <> "-" /\ s <> "/" /\ s <> "." /\ s <> "=" /\ s <> ":".
Proof. intros s H. repeat split; intro E; subst s; cbn in H; lia. Qed.

Lemma include_tokens_app : forall row strs trailing rest,
  include_tokens_tr row strs trailing ++ rest =
  tok NAME "include" row :: strs ++ trailing ++ tok NEWLINE "" row :: rest.
Proof.
  intros row strs trailing rest. unfold include_tokens_tr. rewrite <- !app_assoc. cbn [app]. reflexivity.
Qed.

Lemma render_strs_plain : forall ts n, exists n', render_strs (fun _ => []) ts n = (ts, n').
Proof.
  induction ts as [|t r IH]; intro n; [exists n; reflexivity|].
  destruct (IH (S n)) as [n' E]. exists n'. cbn [render_strs]. rewrite E. reflexivity.
Qed.

Lemma prefixes_head : forall (t : token) more p, In p (prefixes_ne (t :: more)) -> exists q, p = t :: q.
Proof.
  intros t more p H. cbn [prefixes_ne] in H. destruct H as [<-|H]; [exists []; reflexivity|].
  apply in_map_iff in H. destruct H as [q [<- _]]. exists q. reflexivity.
Qed.

Lemma parse_statement_include_core : forall o tsp ts0 key ts1 v ts2,
  skip_ws false tsp = POk ts0 -> cur_ty ts0 ENDMARKER = false ->
  parse_selector true false false ts0 = POk (key, ts1) ->
  cur_is ts1 "=" = false -> cur_is ts1 ":" = false -> key = "include" ->
  maybe_basic o false ts1 = POk (Some (v, ts2)) -> is_str_value v = true ->
  in_types (ty (cur ts2)) [NEWLINE; DEDENT; ENDMARKER] = true ->
  parse_statement o false tsp = POk (Some ([SInclude v (srow (cur ts0))], ts2, negb (cur_ty ts2 ENDMARKER))).
Proof.
  intros o tsp ts0 key ts1 v ts2 H0 H1 H2 H3 H4 H5 H6 H7 H8. subst key.
  unfold parse_statement. rewrite H0, H1, H2, H3, H4.
  change (String.eqb "include" "import" || String.eqb "include" "from") with false.
  change (String.eqb "include" "include") with true. cbv iota.
  rewrite H6, H7, H8. reflexivity.
Qed.

Lemma fmt_include : selector_format_ok true false "include" = true. Proof. reflexivity. Qed.

(* the string run after `include`: exactly what _maybe_parse_basic_type consumes *)
Lemma maybe_basic_strs : forall o wb strs trailing rest v,
  Forall str_tok_ok strs -> Forall trivia_tok trailing -> follows rest ->
  lit_wf o (LStrs strs) -> py_eval o (LStrs strs) = Some v ->
  maybe_basic o wb (strs ++ trailing ++ rest) = POk (Some (v, rest)).
Proof.
  intros o wb strs trailing rest v Hlen Htr Hfol Hwf Hev.
  cbn [lit_wf] in Hwf. destruct Hwf as [Hne [Hstr Hpre]].
  destruct strs as [|t more]; [congruence|].
  pose proof (Forall_inv Hlen) as Ht. unfold str_tok_ok in Ht.
  destruct (len2_not_special _ Ht) as [N0 [N1 _]].
  cbn [py_eval] in Hev.
  assert (Hv : olookup o (strs_text (t :: more)) = Some (Some v)).
  { destruct (olookup o (strs_text (t :: more))) as [[w|]|]; try discriminate. injection Hev as <-. reflexivity. }
  rewrite maybe_basic_plain.
  - destruct (render_strs_plain (t :: more) 0) as [n' Hr].
    rewrite (basic_loop_strs o wb (fun _ => []) more t 0 (t :: more) n' _ "" v trailing rest); try assumption.
    + reflexivity.
    + intro k. constructor.
    + apply Forall_forall. intros p Hp. destruct (prefixes_head _ _ _ Hp) as [q ->].
      rewrite (fold_acc_strs_text t q N0 N1).
      rewrite Forall_forall in Hpre. exact (Hpre _ Hp).
    + rewrite (fold_acc_strs_text t more N0 N1). exact Hv.
    + rewrite !app_length. cbn [List.length]. lia.
  - cbn [app]. rewrite cur_is_cons. apply String.eqb_neq. exact N1.
  - cbn [app cur hd]. rewrite (Forall_inv Hstr). reflexivity.
Qed.

Theorem C03_include_statement_lead : forall o lead row strs trailing v rest,
  Forall lead_tok lead -> Forall str_tok_ok strs -> Forall trivia_tok trailing ->
  lit_wf o (LStrs strs) -> py_eval o (LStrs strs) = Some v -> is_str_value v = true ->
  parse_statement o false (lead ++ include_tokens_tr row strs trailing ++ rest) =
  POk (Some ([SInclude v row], tok NEWLINE "" row :: rest, true)).
Proof.
  intros o lead row strs trailing v rest Hlead Hlen Htr Hwf Hev Hstrv.
  rewrite include_tokens_app.
  pose proof Hwf as Hwf'. cbn [lit_wf] in Hwf'. destruct Hwf' as [Hne [Hstr _]].
  destruct strs as [|t more] eqn:Es; [congruence|]. rewrite <- Es in *.
  assert (E0 : strs ++ trailing ++ tok NEWLINE "" row :: rest =
               t :: more ++ trailing ++ tok NEWLINE "" row :: rest) by (rewrite Es; reflexivity).
  assert (Hty : ty t = STRING) by (rewrite Es in Hstr; exact (Forall_inv Hstr)).
  assert (Ht : 2 <= String.length (text t)) by (rewrite Es in Hlen; exact (Forall_inv Hlen)).
  destruct (len2_not_special _ Ht) as [_ [_ [N1 [N2 [N3 N4]]]]].
  rewrite (parse_statement_include_core o _
             (tok NAME "include" row :: strs ++ trailing ++ tok NEWLINE "" row :: rest)
             "include" (strs ++ trailing ++ tok NEWLINE "" row :: rest) v (tok NEWLINE "" row :: rest)).
  - reflexivity.
  - apply skip_ws_lead; [exact Hlead | reflexivity | discriminate | discriminate].
  - reflexivity.
  - rewrite E0. apply parse_selector_keyword_gen; try assumption; try (rewrite Hty; discriminate).
    + exact fmt_include.
    + rewrite Hty. reflexivity.
  - rewrite E0. rewrite cur_is_cons. apply String.eqb_neq. exact N3.
  - rewrite E0. rewrite cur_is_cons. apply String.eqb_neq. exact N4.
  - reflexivity.
  - apply maybe_basic_strs; try assumption.
    eexists _, _. split; [reflexivity|]. right. left. reflexivity.
  - exact Hstrv.
  - reflexivity.
Qed.

Theorem C03_include_statement : forall o row strs v rest,
  Forall str_tok_ok strs -> lit_wf o (LStrs strs) -> py_eval o (LStrs strs) = Some v -> is_str_value v = true ->
  parse_statement o false (include_tokens row strs ++ rest) =
  POk (Some ([SInclude v row], tok NEWLINE "" row :: rest, true)).
Proof.
  intros o row strs v rest H1 H2 H3 H4. rewrite <- include_tokens_tr_nil.
  exact (C03_include_statement_lead o [] row strs [] v rest (Forall_nil _) H1 (Forall_nil _) H2 H3 H4).
Qed.

Print Assumptions C03_include_statement_lead.

(* ================================================================== *)
(* (2) blocks *)

(* one member line  `param = value  # c`  preceded by blank / comment lines *)
Record bmember := { bm_lead : list token; bm_row : nat; bm_param : string; bm_vtoks : list token;
                    bm_trailing : list token; bm_value : out }.
Definition bmember_ok (o : oracle) (m : bmember) : Prop :=
  Forall trivia_tok (bm_lead m) /\ is_identifier (bm_param m) = true /\ Forall trivia_tok (bm_trailing m) /\
  Forall tok_ok (bm_vtoks m) /\
  exists lit lay n n', lay_ok lay /\ lit_wf o lit /\ py_eval o lit = Some (bm_value m) /\
                       render lit lay n false = (bm_vtoks m, n').
Definition bmember_tokens (m : bmember) : list token :=
  bm_lead m ++ [tok NAME (bm_param m) (bm_row m); tok OP "=" (bm_row m)] ++ bm_vtoks m ++ bm_trailing m ++
  [tok NEWLINE "" (bm_row m)].
Fixpoint members_tokens (ms : list bmember) : list token :=
  match ms with [] => [] | m :: t => bmember_tokens m ++ members_tokens t end.

(* the tokenizer's shape of
     scope/name:   # c
       # comment lines
       p1 = v1
       p2 = v2
   : header name, ":", optional COMMENT, NEWLINE, blank/comment lines, INDENT, the member lines,
   blank/comment lines, DEDENT *)
Definition block_tokens (row : nat) (parts : list string) (hcomment pre : list token) (indent : token)
                        (members : list bmember) (tail : list token) (dedent : token) : list token :=
  name_tokens row 0 parts true ++ [tok OP ":" row] ++ hcomment ++ [tok NEWLINE "" row] ++ pre ++ [indent] ++
  members_tokens members ++ tail ++ [dedent].

Definition block_stmts (row : nat) (parts : list string) (members : list bmember) : list stmt :=
  let '(scope, sel) := split_scoped (name_text parts) in
  SBlock scope sel row :: map (fun m => SBind scope sel (bm_param m) (bm_value m) (bm_row m)) members.

(* member line without its leading trivia, and the stream from a member on *)
Definition bmember_core (m : bmember) (rest : list token) : list token :=
  tok NAME (bm_param m) (bm_row m) :: tok OP "=" (bm_row m) ::
  bm_vtoks m ++ bm_trailing m ++ tok NEWLINE "" (bm_row m) :: rest.
Definition mstream (ms : list bmember) (tail : list token) (dedent : token) (rest : list token) : list token :=
  members_tokens ms ++ tail ++ dedent :: rest.
Definition mcore (ms : list bmember) (tail : list token) (dedent : token) (rest : list token) : list token :=
  match ms with
  | [] => dedent :: rest
  | m :: t => bmember_core m (mstream t tail dedent rest)
  end.

Lemma mstream_cons : forall m t tail d rest,
  mstream (m :: t) tail d rest = bm_lead m ++ bmember_core m (mstream t tail d rest).
Proof.
  intros m t tail d rest. unfold mstream, bmember_core. cbn [members_tokens]. unfold bmember_tokens.
  rewrite <- !app_assoc. cbn [app]. reflexivity.
Qed.

Lemma trivia_noerr_all : forall tr, Forall trivia_tok tr -> Forall (fun x => ty x <> TERR /\ ty x <> ERRORTOKEN) tr.
Proof. intros tr H. eapply Forall_impl; [|exact H]. cbn beta. intros x Hx. apply trivia_noerr; exact Hx. Qed.

Lemma settle_mstream : forall o ms tail d rest, Forall (bmember_ok o) ms -> Forall trivia_tok tail -> ty d = DEDENT ->
  settle (mstream ms tail d rest) = POk (mstream ms tail d rest).
Proof.
  intros o ms tail d rest Hms Htail Hd. destruct ms as [|m t].
  - unfold mstream. cbn [members_tokens app]. apply settle_app;
      [apply trivia_noerr_all; exact Htail | rewrite Hd; discriminate | rewrite Hd; discriminate].
  - rewrite mstream_cons. pose proof (Forall_inv Hms) as [Hl _]. unfold bmember_core.
    apply settle_app; [apply trivia_noerr_all; exact Hl | discriminate | discriminate].
Qed.

Lemma skip_ws_mstream : forall o ms tail d rest, Forall (bmember_ok o) ms -> Forall trivia_tok tail -> ty d = DEDENT ->
  skip_ws true (mstream ms tail d rest) = POk (mcore ms tail d rest).
Proof.
  intros o ms tail d rest Hms Htail Hd. destruct ms as [|m t].
  - unfold mstream, mcore. cbn [members_tokens app]. apply skip_ws_trivia; [exact Htail | | discriminate].
    intros t0 r0 E. injection E as <- <-. rewrite Hd. cbn [ws_types]. split.
    + intros [C|[C|[]]]; discriminate.
    + split; discriminate.
  - rewrite mstream_cons. pose proof (Forall_inv Hms) as [Hl _]. unfold mcore, bmember_core.
    apply skip_ws_solid; [exact Hl|]. unfold solid. cbn [tok ty]. tauto.
Qed.

Lemma block_members_S : forall f o scope sel ts acc,
  block_members (S f) o scope sel ts acc =
  if cur_ty ts DEDENT then POk (acc, ts) else
  match parse_identifier true ts with
  | PErr e => PErr e
  | POk (arg, ts1) =>
      match expect_str "=" ts1 with
      | PErr e => PErr e
      | POk ts2 =>
          match parse_value (value_fuel ts2) o true ts2 with
          | PErr e => PErr e
          | POk (v, ts3) =>
              match expect_ty NEWLINE ts3 with
              | PErr e => PErr e
              | POk ts4 =>
                  match skip_ws true ts4 with
                  | PErr e => PErr e
                  | POk ts5 => block_members f o scope sel ts5 (acc ++ [SBind scope sel arg v (srow (cur ts))])
                  end
              end
          end
      end
  end.
Proof. reflexivity. Qed.

Lemma members_run : forall o scope sel tail d rest, Forall trivia_tok tail -> ty d = DEDENT ->
  forall ms, Forall (bmember_ok o) ms -> forall acc fuel, List.length ms < fuel ->
  block_members fuel o scope sel (mcore ms tail d rest) acc =
  POk (acc ++ map (fun m => SBind scope sel (bm_param m) (bm_value m) (bm_row m)) ms, d :: rest).
Proof.
  intros o scope sel tail d rest Htail Hd ms. induction ms as [|m t IH]; intros Hms acc fuel Hfuel.
  - destruct fuel as [|f]; [cbn in Hfuel; lia|]. rewrite block_members_S.
    unfold mcore, cur_ty. cbn [cur hd]. rewrite Hd. cbn [ttype_eqb map]. rewrite app_nil_r. reflexivity.
  - destruct fuel as [|f]; [cbn in Hfuel; lia|]. rewrite block_members_S.
    pose proof (Forall_inv Hms) as [Hl [Hid [Htr [Hok [lit [lay [n [n' [Hlay [Hwf [Hev Hr]]]]]]]]]]].
    pose proof (Forall_inv_tail Hms) as Hms'.
    destruct (render_first _ _ _ _ _ _ _ Hwf Hr Hok) as [v0 [vt' [Ev Hstart]]].
    unfold mcore, bmember_core.
    change (cur_ty (tok NAME (bm_param m) (bm_row m) :: tok OP "=" (bm_row m) ::
                    bm_vtoks m ++ bm_trailing m ++ tok NEWLINE "" (bm_row m) :: mstream t tail d rest) DEDENT)
      with false. cbv iota.
    unfold parse_identifier.
    change (text (cur (tok NAME (bm_param m) (bm_row m) :: tok OP "=" (bm_row m) ::
                    bm_vtoks m ++ bm_trailing m ++ tok NEWLINE "" (bm_row m) :: mstream t tail d rest)))
      with (bm_param m).
    rewrite Hid. cbn [negb].
    change (tok NAME (bm_param m) (bm_row m) :: tok OP "=" (bm_row m) ::
              bm_vtoks m ++ bm_trailing m ++ tok NEWLINE "" (bm_row m) :: mstream t tail d rest)
      with (tok NAME (bm_param m) (bm_row m) :: [] ++ tok OP "=" (bm_row m) ::
              bm_vtoks m ++ bm_trailing m ++ tok NEWLINE "" (bm_row m) :: mstream t tail d rest) at 1.
    rewrite advance_solid; [| constructor | unfold solid; cbn [tok ty]; tauto].
    unfold expect_str.
    change (cur_is (tok OP "=" (bm_row m) :: bm_vtoks m ++ bm_trailing m ++
                    tok NEWLINE "" (bm_row m) :: mstream t tail d rest) "=") with true. cbv iota.
    assert (Ea : advance_one (tok OP "=" (bm_row m) :: bm_vtoks m ++ bm_trailing m ++
                              tok NEWLINE "" (bm_row m) :: mstream t tail d rest)
                 = POk (bm_vtoks m ++ bm_trailing m ++ tok NEWLINE "" (bm_row m) :: mstream t tail d rest)).
    { rewrite Ev. cbn [app]. apply advance_one_solid. apply start_solid. exact Hstart. }
    rewrite Ea.
    rewrite (C02_value_fuel o lit true lay n false (bm_value m) (bm_vtoks m) n' (bm_trailing m)
               (tok NEWLINE "" (bm_row m) :: mstream t tail d rest)); try assumption; [|discriminate|].
    2:{ intros t0 r0 E. injection E as <- <-. right. left. reflexivity. }
    unfold expect_ty.
    change (cur_ty (tok NEWLINE "" (bm_row m) :: mstream t tail d rest) NEWLINE) with true. cbv iota.
    cbn [advance_one]. rewrite (settle_mstream o t tail d rest Hms' Htail Hd).
    rewrite (skip_ws_mstream o t tail d rest Hms' Htail Hd).
    rewrite IH; [| exact Hms' | cbn [List.length] in Hfuel; lia].
    cbn [map cur hd tok srow]. rewrite <- app_assoc. reflexivity.
Qed.

Lemma parse_block_core : forall o key line ts ts1 ts2 ts3 ts4 ts5 ts6 members ts7,
  expect_str ":" ts = POk ts1 ->
  skip (S (List.length ts1)) [COMMENT] ts1 = POk ts2 ->
  expect_ty NEWLINE ts2 = POk ts3 ->
  skip (S (List.length ts3)) [COMMENT; NL] ts3 = POk ts4 ->
  expect_ty INDENT ts4 = POk ts5 ->
  skip (S (List.length ts5)) [COMMENT; NL] ts5 = POk ts6 ->
  block_members (S (List.length ts6)) o (fst (split_scoped key)) (snd (split_scoped key)) ts6 [] = POk (members, ts7) ->
  parse_block o key line ts = POk (SBlock (fst (split_scoped key)) (snd (split_scoped key)) line, members, ts7).
Proof.
  intros o key line ts ts1 ts2 ts3 ts4 ts5 ts6 members ts7 H1 H2 H3 H4 H5 H6 H7.
  unfold parse_block. rewrite H1, H2, H3, H4, H5, H6.
  destruct (split_scoped key) as [sc se]. cbn [fst snd] in *. rewrite H7. reflexivity.
Qed.

Lemma parse_statement_block_core : forall o tsp ts0 key ts1 decl members ts2,
  skip_ws false tsp = POk ts0 -> cur_ty ts0 ENDMARKER = false ->
  parse_selector true false false ts0 = POk (key, ts1) ->
  cur_is ts1 "=" = false -> cur_is ts1 ":" = true ->
  parse_block o key (srow (cur ts0)) ts1 = POk (decl, members, ts2) ->
  in_types (ty (cur ts2)) [NEWLINE; DEDENT; ENDMARKER] = true ->
  parse_statement o false tsp = POk (Some (decl :: members, ts2, negb (cur_ty ts2 ENDMARKER))).
Proof.
  intros o tsp ts0 key ts1 decl members ts2 H0 H1 H2 H3 H4 H5 H6.
  unfold parse_statement. rewrite H0, H1, H2, H3, H4, H5, H6. reflexivity.
Qed.

Lemma block_tokens_app : forall row parts hc pre indent ms tail d rest,
  block_tokens row parts hc pre indent ms tail d ++ rest =
  name_tokens row 0 parts true ++ tok OP ":" row :: hc ++ tok NEWLINE "" row :: pre ++ indent :: mstream ms tail d rest.
Proof.
  intros row parts hc pre indent ms tail d rest. unfold block_tokens, mstream.
  rewrite <- !app_assoc. cbn [app]. reflexivity.
Qed.

Lemma members_tokens_length : forall ms, List.length ms <= List.length (members_tokens ms).
Proof.
  induction ms as [|m t IH]; [cbn; lia|].
  cbn [members_tokens]. unfold bmember_tokens. rewrite !app_length. cbn [List.length]. lia.
Qed.

Lemma mcore_length : forall ms tail d rest, List.length ms <= List.length (mcore ms tail d rest).
Proof.
  intros [|m t] tail d rest; [cbn; lia|].
  unfold mcore, bmember_core, mstream. cbn [List.length]. rewrite !app_length. cbn [List.length]. rewrite !app_length.
  pose proof (members_tokens_length t). lia.
Qed.

Theorem C03_block_statement : forall o lead row parts hc pre indent ms tail dedent rest,
  Forall lead_tok lead -> wf_name parts ->
  Forall (fun t => ty t = COMMENT) hc -> Forall trivia_tok pre -> ty indent = INDENT ->
  Forall (bmember_ok o) ms -> Forall trivia_tok tail -> ty dedent = DEDENT ->
  parse_statement o false (lead ++ block_tokens row parts hc pre indent ms tail dedent ++ rest) =
  POk (Some (block_stmts row parts ms, dedent :: rest, true)).
Proof.
  intros o lead row parts hc pre indent ms tail d rest Hlead Hname Hhc Hpre Hind Hms Htail Hd.
  destruct (wf_name_alt _ Hname) as [Hne [Hfmt Halt]].
  rewrite block_tokens_app.
  set (Y := mstream ms tail d rest).
  set (X := tok OP ":" row :: hc ++ tok NEWLINE "" row :: pre ++ indent :: Y).
  destruct (name_tokens_head row 0 parts X Hne) as [t0 [r0 [E0 [Hty0 Hrow0]]]].
  assert (Hhc' : Forall (fun x => in_types (ty x) [COMMENT] = true /\ ty x <> TERR /\ ty x <> ERRORTOKEN) hc).
  { eapply Forall_impl; [|exact Hhc]. cbn beta. intros x Hx. rewrite Hx. repeat split; discriminate. }
  assert (Hpre' : Forall (fun x => in_types (ty x) [COMMENT; NL] = true /\ ty x <> TERR /\ ty x <> ERRORTOKEN) pre).
  { eapply Forall_impl; [|exact Hpre]. cbn beta. intros x [Hx|Hx]; rewrite Hx; repeat split; discriminate. }
  assert (Hblock : parse_block o (name_text parts) row X =
                   POk (SBlock (fst (split_scoped (name_text parts))) (snd (split_scoped (name_text parts))) row,
                        map (fun m => SBind (fst (split_scoped (name_text parts))) (snd (split_scoped (name_text parts)))
                                            (bm_param m) (bm_value m) (bm_row m)) ms,
                        d :: rest)).
  { apply (parse_block_core o (name_text parts) row X
             (hc ++ tok NEWLINE "" row :: pre ++ indent :: Y)
             (tok NEWLINE "" row :: pre ++ indent :: Y)
             (pre ++ indent :: Y) (indent :: Y) Y (mcore ms tail d rest)).
    - unfold expect_str, X. rewrite cur_is_cons. cbn [tok text]. cbn [String.eqb Ascii.eqb Bool.eqb]. cbv iota.
      cbn [advance_one]. apply settle_app; [| discriminate | discriminate].
      eapply Forall_impl; [|exact Hhc']. cbn beta. tauto.
    - apply skip_over; [exact Hhc' | reflexivity | discriminate | discriminate | rewrite app_length; cbn [List.length]; lia].
    - unfold expect_ty.
      change (cur_ty (tok NEWLINE "" row :: pre ++ indent :: Y) NEWLINE) with true. cbv iota.
      cbn [advance_one]. apply settle_app; [| rewrite Hind; discriminate | rewrite Hind; discriminate].
      eapply Forall_impl; [|exact Hpre']. cbn beta. tauto.
    - apply skip_over; [exact Hpre' | rewrite Hind; reflexivity | rewrite Hind; discriminate
                        | rewrite Hind; discriminate | rewrite app_length; cbn [List.length]; lia].
    - unfold expect_ty, cur_ty. cbn [cur hd]. rewrite Hind. cbn [ttype_eqb]. cbn [advance_one].
      exact (settle_mstream o ms tail d rest Hms Htail Hd).
    - exact (skip_ws_mstream o ms tail d rest Hms Htail Hd).
    - rewrite (members_run o _ _ tail d rest Htail Hd ms Hms []); [reflexivity|].
      pose proof (mcore_length ms tail d rest). lia. }
  rewrite (parse_statement_block_core o _ (name_tokens row 0 parts true ++ X) (name_text parts) X
             (SBlock (fst (split_scoped (name_text parts))) (snd (split_scoped (name_text parts))) row)
             (map (fun m => SBind (fst (split_scoped (name_text parts))) (snd (split_scoped (name_text parts)))
                                  (bm_param m) (bm_value m) (bm_row m)) ms)
             (d :: rest)).
  - unfold block_stmts. destruct (split_scoped (name_text parts)) as [sc se]. cbn [fst snd].
    unfold cur_ty. cbn [cur hd]. rewrite Hd. reflexivity.
  - rewrite E0. apply skip_ws_lead; [exact Hlead | rewrite Hty0; reflexivity | rewrite Hty0; discriminate
                                     | rewrite Hty0; discriminate].
  - rewrite E0. unfold cur_ty. cbn [cur hd]. rewrite Hty0. reflexivity.
  - apply parse_selector_name_gen; try assumption.
    unfold X. eexists _, _. split; [reflexivity|]. cbn [tok text ty]. repeat split; discriminate.
  - reflexivity.
  - reflexivity.
  - rewrite E0. cbn [cur hd]. rewrite Hrow0. exact Hblock.
  - cbn [cur hd]. rewrite Hd. reflexivity.
Qed.

Print Assumptions C03_block_statement.
