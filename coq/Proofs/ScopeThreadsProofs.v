(* C09, thread half: per-thread scope stacks are private.  Proofs about Model/ScopeThreads.v. *)
From Coq Require Import List String ZArith Bool Arith Lia.
From GinV Require Import Lib.Out Lib.PyStr Model.SelectorMap Model.Values Model.Gin Model.ScopeThreads.
Import ListNotations.
Open Scope string_scope.
Open Scope list_scope.

(* ---------- nget / nset ---------- *)
Lemma nget_nset_same : forall (V : Type) t (v : V) st, nget t (nset t v st) = Some v.
Proof.
  intros V t v st. unfold nget, nset.
  induction st as [|[j w] r IH]; cbn [aget aset].
  - rewrite Nat.eqb_refl. reflexivity.
  - destruct (Nat.eqb t j) eqn:E; cbn [aget]; rewrite E; auto.
Qed.

Lemma nget_nset_other : forall (V : Type) t u (v : V) st, u <> t -> nget u (nset t v st) = nget u st.
Proof.
  intros V t u v st Hne. unfold nget, nset.
  induction st as [|[j w] r IH]; cbn [aget aset].
  - destruct (Nat.eqb_spec u t) as [->|_]; [contradiction|reflexivity].
  - destruct (Nat.eqb_spec t j) as [->|Hn]; cbn [aget].
    + destruct (Nat.eqb_spec u j) as [->|_]; [contradiction|reflexivity].
    + rewrite IH. reflexivity.
Qed.

Lemma stack_of_nset_same : forall t v st, stack_of (nset t v st) t = v.
Proof. intros. unfold stack_of. rewrite nget_nset_same. reflexivity. Qed.

Lemma stack_of_nset_other : forall t u v st, u <> t -> stack_of (nset t v st) u = stack_of st u.
Proof. intros t u v st Hne. unfold stack_of. rewrite nget_nset_other by assumption. reflexivity. Qed.

(* every step writes back the stepping thread's own entry only *)
Lemma tstep_run_shape : forall cfg st u x, exists v, fst (tstep_run cfg st u x) = nset u v st.
Proof.
  intros cfg st u x. unfold tstep_run. destruct x as [a| | |sel p].
  - destruct (enter_scope_value (cur_of st u) a) as [ns valid].
    destruct (valid && scope_valid ns); eexists; reflexivity.
  - destruct (stack_of st u) as [|h [|h2 tl]]; eexists; reflexivity.
  - eexists; reflexivity.
  - eexists; reflexivity.
Qed.

(* a step of another thread never changes a thread's stack *)
Theorem other_thread_frame : forall cfg st t u x, u <> t ->
  stack_of (fst (tstep_run cfg st u x)) t = stack_of st t.
Proof.
  intros cfg st t u x Hne.
  destruct (tstep_run_shape cfg st u x) as [v Hv]. rewrite Hv.
  apply stack_of_nset_other. congruence.
Qed.

(* the pure, stack-level meaning of one step of a thread: (new own stack, observation) *)
Definition step_on_stack (cfg : cdict) (stk : list (list string)) (x : tstep) : list (list string) * out :=
  let cur := match stk with c :: _ => c | [] => [] end in
  match x with
  | TEnter a =>
      let '(new_scope, valid) := enter_scope_value cur a in
      if valid && scope_valid new_scope then (new_scope :: stk, OL (map OS new_scope))
      else (stk, OErr "ValueError")
  | TExit => (match stk with _ :: (_ :: _) as rest => rest | _ => stk end, ONone)
  | TObserve => (stk, OL (map OS cur))
  | TLookup sel p => (stk, match sget p (get_bindings_for cfg cur sel true) with
                           | Some v => value_out v | None => OT "Unbound" [] end)
  end.

Lemma tstep_run_step_on_stack : forall cfg st t x,
  tstep_run cfg st t x =
  (nset t (fst (step_on_stack cfg (stack_of st t) x)) st, snd (step_on_stack cfg (stack_of st t) x)).
Proof.
  intros cfg st t x. unfold tstep_run, step_on_stack, cur_of. destruct x as [a| | |sel p].
  - destruct (enter_scope_value _ a) as [ns valid].
    destruct (valid && scope_valid ns); reflexivity.
  - destruct (stack_of st t) as [|h [|h2 tl]]; reflexivity.
  - reflexivity.
  - reflexivity.
Qed.

(* a step's observation and resulting own stack depend only on the thread's own stack *)
Theorem step_depends_on_own_stack : forall cfg st st' t x, stack_of st t = stack_of st' t ->
  snd (tstep_run cfg st t x) = snd (tstep_run cfg st' t x) /\
  stack_of (fst (tstep_run cfg st t x)) t = stack_of (fst (tstep_run cfg st' t x)) t.
Proof.
  intros cfg st st' t x Heq.
  rewrite !tstep_run_step_on_stack. cbn [fst snd].
  rewrite !stack_of_nset_same, Heq. split; reflexivity.
Qed.

Lemma only_cons_same : forall t x r, only t ((t, x) :: r) = (t, x) :: only t r.
Proof. intros. unfold only. cbn [filter fst]. rewrite Nat.eqb_refl. reflexivity. Qed.

Lemma only_cons_other : forall t u x r, u <> t -> only t ((u, x) :: r) = only t r.
Proof.
  intros t u x r Hne. unfold only. cbn [filter fst].
  destruct (Nat.eqb_spec u t) as [->|_]; [contradiction|reflexivity].
Qed.

Lemma trun_cons : forall cfg st t x r,
  trun cfg st ((t, x) :: r) =
  (fst (trun cfg (fst (tstep_run cfg st t x)) r),
   (t, snd (tstep_run cfg st t x)) :: snd (trun cfg (fst (tstep_run cfg st t x)) r)).
Proof.
  intros. cbn [trun]. destruct (tstep_run cfg st t x) as [st1 o]. cbn [fst snd].
  destruct (trun cfg st1 r) as [st2 os]. reflexivity.
Qed.

Lemma C09_thread_private_gen : forall cfg t pi st st',
  stack_of st t = stack_of st' t ->
  obs_of t (snd (trun cfg st pi)) = obs_of t (snd (trun cfg st' (only t pi))) /\
  stack_of (fst (trun cfg st pi)) t = stack_of (fst (trun cfg st' (only t pi))) t.
Proof.
  intros cfg t pi. induction pi as [|[u x] r IH]; intros st st' Heq.
  - cbn. split; [reflexivity|assumption].
  - destruct (Nat.eq_dec u t) as [->|Hne].
    + rewrite only_cons_same, !trun_cons. cbn [fst snd].
      destruct (step_depends_on_own_stack cfg st st' t x Heq) as [Ho Hs].
      destruct (IH _ _ Hs) as [IH1 IH2].
      split; [|exact IH2].
      unfold obs_of in *. cbn [filter fst map snd]. rewrite Nat.eqb_refl. cbn [map snd].
      rewrite Ho, IH1. reflexivity.
    + rewrite only_cons_other by assumption. rewrite trun_cons. cbn [fst snd].
      assert (Hs : stack_of (fst (tstep_run cfg st u x)) t = stack_of st' t).
      { rewrite other_thread_frame by assumption. assumption. }
      destruct (IH _ _ Hs) as [IH1 IH2].
      split; [|exact IH2].
      unfold obs_of in *. cbn [filter fst].
      destruct (Nat.eqb_spec u t) as [->|_]; [contradiction|]. exact IH1.
Qed.

(* THE property (C09 thread half): for EVERY schedule pi (any number of threads, any interleaving), every
   thread t observes exactly what it observes when it runs alone, and ends with the same stack *)
Theorem C09_thread_private : forall cfg pi st t,
  obs_of t (snd (trun cfg st pi)) = obs_of t (snd (trun cfg st (only t pi))) /\
  stack_of (fst (trun cfg st pi)) t = stack_of (fst (trun cfg st (only t pi))) t.
Proof. intros. apply C09_thread_private_gen. reflexivity. Qed.

(* two different initial states that agree on t's stack give t the same observations under any two
   schedules with the same t-projection *)
Corollary C09_schedule_independent : forall cfg pi pi' st st' t,
  stack_of st t = stack_of st' t -> only t pi = only t pi' ->
  obs_of t (snd (trun cfg st pi)) = obs_of t (snd (trun cfg st' pi')) /\
  stack_of (fst (trun cfg st pi)) t = stack_of (fst (trun cfg st' pi')) t.
Proof.
  intros cfg pi pi' st st' t Hs Hp.
  destruct (C09_thread_private_gen cfg t pi st st' Hs) as [A1 A2].
  destruct (C09_thread_private cfg pi' st' t) as [B1 B2].
  rewrite A1, A2, B1, B2, Hp. split; reflexivity.
Qed.

(* ---------- the non-emptiness invariant ---------- *)
(* all stored stacks are non-empty *)
Definition stacks_nonempty (st : tstacks) : Prop := Forall (fun p => snd p <> []) st.

Lemma stacks_nonempty_stack_of : forall st t, stacks_nonempty st -> stack_of st t <> [].
Proof.
  intros st t H. unfold stack_of, nget.
  induction H as [|[j w] r Hw Hr IH]; cbn [aget].
  - discriminate.
  - destruct (Nat.eqb t j); [exact Hw|exact IH].
Qed.

Lemma stacks_nonempty_nset : forall st t v, stacks_nonempty st -> v <> [] -> stacks_nonempty (nset t v st).
Proof.
  intros st t v H Hv. unfold nset.
  induction H as [|[j w] r Hw Hr IH]; cbn [aset].
  - constructor; [exact Hv|constructor].
  - destruct (Nat.eqb t j); constructor; auto.
Qed.

Lemma step_on_stack_nonempty : forall cfg stk x, stk <> [] -> fst (step_on_stack cfg stk x) <> [].
Proof.
  intros cfg stk x Hne. unfold step_on_stack. destruct x as [a| | |sel p]; cbn [fst].
  - destruct (enter_scope_value _ a) as [ns valid].
    destruct (valid && scope_valid ns); cbn [fst]; [discriminate|exact Hne].
  - destruct stk as [|h [|h2 tl]]; [exact Hne|exact Hne|discriminate].
  - exact Hne.
  - exact Hne.
Qed.

Theorem tstep_run_nonempty : forall cfg st t x,
  stacks_nonempty st -> stacks_nonempty (fst (tstep_run cfg st t x)).
Proof.
  intros cfg st t x H. rewrite tstep_run_step_on_stack. cbn [fst].
  apply stacks_nonempty_nset; [exact H|].
  apply step_on_stack_nonempty. apply stacks_nonempty_stack_of. exact H.
Qed.

Theorem trun_nonempty : forall cfg pi st, stacks_nonempty st -> stacks_nonempty (fst (trun cfg st pi)).
Proof.
  intros cfg pi. induction pi as [|[u x] r IH]; intros st H.
  - exact H.
  - rewrite trun_cons. cbn [fst]. apply IH. apply tstep_run_nonempty. exact H.
Qed.

Lemma stacks_nonempty_nil : stacks_nonempty [].
Proof. constructor. Qed.

(* every reachable state has a non-empty stack for every thread *)
Corollary reachable_stack_nonempty : forall cfg pi t, stack_of (fst (trun cfg [] pi)) t <> [].
Proof.
  intros. apply stacks_nonempty_stack_of. apply trun_nonempty. apply stacks_nonempty_nil.
Qed.

(* ---------- balanced enter / exit ---------- *)
(* precise form: a rejected enter leaves the stack as it was (and says ValueError); an accepted one pushes exactly
   one scope, observes it, and the matching exit pops it again *)
Theorem enter_exit_precise : forall cfg st t a st1 o1,
  stack_of st t <> [] ->
  tstep_run cfg st t (TEnter a) = (st1, o1) ->
  (o1 = OErr "ValueError" /\ stack_of st1 t = stack_of st t) \/
  (exists sc, o1 = OL (map OS sc) /\ stack_of st1 t = sc :: stack_of st t /\
              stack_of (fst (tstep_run cfg st1 t TExit)) t = stack_of st t).
Proof.
  intros cfg st t a st1 o1 Hne Hstep.
  rewrite tstep_run_step_on_stack in Hstep. unfold step_on_stack in Hstep.
  destruct (enter_scope_value _ a) as [ns valid].
  destruct (valid && scope_valid ns); cbn [fst snd] in Hstep; inversion Hstep; subst st1 o1; clear Hstep.
  - right. exists ns. split; [reflexivity|]. rewrite stack_of_nset_same. split; [reflexivity|].
    rewrite tstep_run_step_on_stack. cbn [fst]. rewrite !stack_of_nset_same.
    unfold step_on_stack. cbn [fst].
    destruct (stack_of st t) as [|h tl]; [contradiction|reflexivity].
  - left. split; [reflexivity|]. apply stack_of_nset_same.
Qed.

(* balanced enter/exit restores the stack: a valid TEnter followed later by TExit.
   (hypothesis added: the thread's stack is non-empty, which holds in every reachable state) *)
Theorem enter_exit_restores : forall cfg st t a st1 o1,
  stack_of st t <> [] ->
  tstep_run cfg st t (TEnter a) = (st1, o1) ->
  stack_of (fst (tstep_run cfg st1 t TExit)) t = stack_of st t \/ o1 = OErr "ValueError".
Proof.
  intros cfg st t a st1 o1 Hne Hstep.
  destruct (enter_exit_precise cfg st t a st1 o1 Hne Hstep) as [[Ho _]|[sc [_ [_ Hs]]]]; auto.
Qed.

(* the same for reachable states, with no side condition *)
Corollary enter_exit_restores_reachable : forall cfg pi t a st1 o1,
  tstep_run cfg (fst (trun cfg [] pi)) t (TEnter a) = (st1, o1) ->
  (o1 = OErr "ValueError" /\ stack_of st1 t = stack_of (fst (trun cfg [] pi)) t) \/
  (o1 <> OErr "ValueError" /\
   stack_of (fst (tstep_run cfg st1 t TExit)) t = stack_of (fst (trun cfg [] pi)) t).
Proof.
  intros cfg pi t a st1 o1 Hstep.
  destruct (enter_exit_precise cfg _ t a st1 o1 (reachable_stack_nonempty cfg pi t) Hstep)
    as [[Ho Hs]|[sc [Ho [_ Hs]]]].
  - left. auto.
  - right. split; [subst o1; discriminate|exact Hs].
Qed.

(* the side condition is necessary: with an (unreachable) empty stored stack the exit does not pop *)
Example enter_exit_needs_nonempty :
  let st := [(0, @nil (list string))] in
  let st1 := fst (tstep_run [] st 0 (TEnter SNone)) in
  snd (tstep_run [] st 0 (TEnter SNone)) <> OErr "ValueError" /\
  stack_of (fst (tstep_run [] st1 0 TExit)) 0 <> stack_of st 0.
Proof. vm_compute. split; discriminate. Qed.

Print Assumptions other_thread_frame.
Print Assumptions step_depends_on_own_stack.
Print Assumptions C09_thread_private.
Print Assumptions C09_schedule_independent.
Print Assumptions reachable_stack_nonempty.
Print Assumptions enter_exit_precise.
Print Assumptions enter_exit_restores.
Print Assumptions enter_exit_restores_reachable.
