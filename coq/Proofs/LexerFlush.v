(* A character-level condition for "no INDENT token": no line of the text begins with a blank or a backslash.
   (Sufficient, not necessary: indented lines inside brackets or inside a triple-quoted string are harmless.) *)
From Coq Require Import List String ZArith Bool Arith Ascii Lia.
From GinV Require Import Lib.Out Lib.PyStr Model.Parser Model.ParserSpec.
From GinV Require Import Proofs.ParserLemmas Proofs.ParserSmall Proofs.ParserProofs Proofs.ParserSound Proofs.ParserApi.
From GinV Require Import Model.Lexer Proofs.LexerProofs Proofs.LexerParser.
Import ListNotations.
Open Scope char_scope. Open Scope list_scope. Open Scope nat_scope.

Definition line_start_ok (c : ascii) : bool := negb (is_space c || Ascii.eqb c "\").
(* [bol]: the head of [l] is the first character of a line *)
Fixpoint flush_from (bol : bool) (l : chars) : bool :=
  match l with
  | [] => true
  | c :: r => (if bol then line_start_ok c else true) && flush_from (Ascii.eqb c nl) r
  end.
Definition flush_left (s : string) : bool := flush_from true (list_ascii_of_string s).

Lemma flush_weaken : forall b l, flush_from b l = true -> flush_from false l = true.
Proof.
  intros b [|c r] H; [reflexivity|]. cbn [flush_from] in *. apply andb_true_iff in H. destruct H as [_ H]. exact H.
Qed.
Lemma flush_app : forall a b l, flush_from b (a ++ l) = true -> flush_from false l = true.
Proof.
  induction a as [|c a IH]; intros b l H; cbn [app] in H; [exact (flush_weaken b l H)|].
  cbn [flush_from] in H. apply andb_true_iff in H. destruct H as [_ H]. exact (IH _ _ H).
Qed.
Lemma flush_app_nl : forall a b l, flush_from b (a ++ nl :: l) = true -> flush_from true l = true.
Proof.
  induction a as [|c a IH]; intros b l H; cbn [app] in H.
  - cbn [flush_from] in H. rewrite Ascii.eqb_refl in H. apply andb_true_iff in H. tauto.
  - cbn [flush_from] in H. apply andb_true_iff in H. destruct H as [_ H]. exact (IH _ _ H).
Qed.
Lemma flush_snoc_nl : forall l b, flush_from b l = true -> flush_from b (l ++ [nl]) = true.
Proof.
  induction l as [|c l IH]; intros b H; cbn [app flush_from] in *.
  - destruct b; reflexivity.
  - apply andb_true_iff in H. destruct H as [H1 H2]. rewrite H1. exact (IH _ H2).
Qed.

Definition noindent (t : token) : Prop := ty t <> INDENT.
(* at the start of a flush line no INDENT is produced *)
Lemma step_bol_flush : forall imp st l e st' l', flush_from true l = true ->
  step_bol imp st l = Next e st' l' -> Forall noindent e.
Proof.
  intros imp st l e st' l' Hf H. unfold step_bol in H.
  assert (Hs : scan_indent l [] [] 0 0 = Some ([], [], 0, 0, l)).
  { destruct l as [|c r]; [reflexivity|]. cbn [flush_from] in Hf. apply andb_true_iff in Hf. destruct Hf as [Hc _].
    unfold line_start_ok in Hc. apply negb_true_iff, orb_false_iff in Hc. destruct Hc as [H1 H2].
    cbn [scan_indent]. rewrite H1, H2. reflexivity. }
  rewrite Hs in H. cbn [pos_after app] in H. cbv zeta in H.
  assert (Hind : forall rest,
    (if negb (level st =? 0) then Next [] (move st (lpos st) false) rest
     else if hd 0 (stack st) <? 0
          then if MAXINDENT <=? S (List.length (stack st)) then Done [terr_indent (fst (lpos st))]
               else Next [mk INDENT [] (lpos st)] {| lpos := lpos st; atbol := false; stack := 0 :: stack st; level := level st |} rest
          else if 0 <? hd 0 (stack st)
               then let (k, stk) := pop_to 0 (stack st) in
                    if 0 =? hd 0 stk
                    then Next (repeat (mk_empty DEDENT (lpos st)) k) {| lpos := lpos st; atbol := false; stack := stk; level := level st |} rest
                    else Done [terr_indent (fst (lpos st))]
               else Next [] (move st (lpos st) false) rest) = Next e st' l' -> Forall noindent e).
  { intros rest E. destruct (negb (level st =? 0)); [injection E as <- _ _; constructor|].
    change (hd 0 (stack st) <? 0) with false in E. cbv iota in E.
    destruct (0 <? hd 0 (stack st)); [|injection E as <- _ _; constructor].
    destruct (pop_to 0 (stack st)) as [k stk]. destruct (0 =? hd 0 stk); [|discriminate].
    injection E as <- _ _. apply Forall_repeat. discriminate. }
  destruct l as [|c r].
  - destruct (negb (level st =? 0)); injection H as <- _ _; [constructor | apply Forall_repeat; discriminate].
  - destruct (Ascii.eqb c nl); [injection H as <- _ _; repeat constructor; discriminate|].
    destruct (Ascii.eqb c "#").
    + destruct (span not_nl (c :: r)) as [cm r2]. destruct r2 as [|x r3]; injection H as <- _ _; repeat constructor; discriminate.
    + exact (Hind _ H).
Qed.

Definition flush_prop (st : lstate) (l : chars) (o : outcome) : Prop :=
  flush_from (atbol st) l = true ->
  match o with
  | Next e st' l' => flush_from (atbol st') l' = true /\ (atbol st = false -> Forall noindent e)
  | Done e => Forall noindent e
  end.
Lemma Step_flush : forall imp st l o, Step imp st l o -> flush_prop st l o.
Proof.
  intros imp st l o H Hf. unfold noindent.
  destruct H; cbn [move atbol]; try subst l.
  - repeat constructor; discriminate.
  - repeat constructor; discriminate.
  - repeat constructor; discriminate.
  - split; [exact (flush_app_nl _ _ _ Hf) | intro; congruence].
  - split; [rewrite app_assoc in Hf; exact (flush_app_nl _ _ _ Hf) | intro; congruence].
  - split; [reflexivity | intro; congruence].
  - split; [exact (flush_app _ _ _ Hf) | intro; congruence].
  - split; [rewrite app_assoc in Hf; exact (flush_app _ _ _ Hf) | intro; congruence].
  - split; [exact (flush_app _ _ _ Hf) | intro; congruence].
  - split; [rewrite app_assoc in Hf; exact (flush_app _ _ _ Hf)|]. intros _. repeat constructor. cbn [mk ty].
    intro E. subst t. cbn [In] in H1. decompose [or] H1; discriminate || contradiction.
  - split; [rewrite app_assoc in Hf; exact (flush_app _ _ _ Hf)|]. intros _. repeat constructor. discriminate.
  - split; [exact (flush_app_nl _ _ _ Hf)|]. intros _. repeat constructor. cbn [mk_nl ty]. destruct (level st =? 0); discriminate.
  - split; [|intros _; constructor].
    change (ws ++ "\" :: nl :: c :: r) with (ws ++ ["\"] ++ nl :: c :: r) in Hf. rewrite app_assoc in Hf.
    exact (flush_weaken _ _ (flush_app_nl _ _ _ Hf)).
Qed.

Section RunFn.
Variable imp : bool.
Variable Inv : list token -> lstate -> chars -> Prop.
Variable Fin : list token -> Prop.
Hypothesis Inv_next : forall acc st l e st' l', Inv acc st l -> step imp st l = Next e st' l' -> Inv (acc ++ e) st' l'.
Hypothesis Inv_done : forall acc st l e, Inv acc st l -> step imp st l = Done e -> Fin (acc ++ e).
Lemma run_ind_fn : forall fuel acc st l, measure st l < fuel -> Inv acc st l -> Fin (acc ++ run fuel imp st l).
Proof.
  induction fuel as [|f IH]; intros acc st l Hm HI; [lia|].
  cbn [run]. pose proof (step_Step imp st l) as HS. destruct (step imp st l) as [e st' l'|e] eqn:E.
  - rewrite app_assoc. apply IH; [pose proof (Step_measure _ _ _ _ _ _ HS); lia | exact (Inv_next _ _ _ _ _ _ HI E)].
  - exact (Inv_done _ _ _ _ HI E).
Qed.
End RunFn.

Theorem lex_chars_flush : forall l, flush_from true l = true -> Forall noindent (lex_chars l).
Proof.
  intros l Hf. unfold lex_chars.
  apply (run_ind_fn (needs_nl l) (fun acc st l0 => Forall noindent acc /\ flush_from (atbol st) l0 = true)
                    (Forall noindent)) with (acc := []).
  - intros acc st l0 e st' l' [H1 H2] E. pose proof (step_Step (needs_nl l) st l0) as HS. rewrite E in HS.
    destruct (Step_flush _ _ _ _ HS H2) as [H3 H4]. split; [|exact H3].
    apply Forall_app. split; [exact H1|]. destruct (atbol st) eqn:Hb; [|exact (H4 eq_refl)].
    unfold step in E. rewrite Hb in E. exact (step_bol_flush _ _ _ _ _ _ H2 E).
  - intros acc st l0 e [H1 H2] E. pose proof (step_Step (needs_nl l) st l0) as HS. rewrite E in HS.
    apply Forall_app. split; [exact H1 | exact (Step_flush _ _ _ _ HS H2)].
  - unfold measure, init_state. cbn [atbol]. lia.
  - split; [constructor|]. cbn [atbol init_state]. unfold normalize. destruct (needs_nl l); [apply flush_snoc_nl|]; exact Hf.
Qed.

Section UserLevel.
Variables (s : string) (ts : list token).
Hypothesis Hlex : lex s = Some ts.
Lemma lex_flush_no_indent : flush_left s = true -> Forall (fun t => ty t <> INDENT) ts.
Proof. intro H. rewrite (lex_is s ts Hlex). exact (lex_chars_flush _ H). Qed.
End UserLevel.

Open Scope string_scope.
Theorem lexer_api_sound_text : forall s ts o v,
  lex s = Some ts -> flush_left s = true ->
  run_value_api (o, ts) = OT "Value" [v] ->
  (forall t, In t ts -> text t <> "@" /\ text t <> "%") ->
  (forall t, In t ts -> ty t = STRING -> forall w, olookup o ("-" ++ text t) <> Some (Some w)) ->
  exists l lay toks n' used skipped e more,
    lay_ok lay /\ lit_wf o l /\ py_eval o l = Some v /\ render l lay 0 true = (toks, n') /\
    Forall2 tok_sim toks used /\ ts = (used ++ skipped ++ e :: more)%list /\
    Forall (fun t => ty t = NEWLINE \/ ty t = NL \/ ty t = COMMENT) skipped /\ ty e = ENDMARKER.
Proof.
  intros s ts o v Hlex Hf Hrun Hsig Horc.
  apply (lexer_api_sound s ts o v Hlex Hrun Hsig); [|exact Horc].
  pose proof (lex_flush_no_indent s ts Hlex Hf) as H. rewrite Forall_forall in H. exact H.
Qed.
