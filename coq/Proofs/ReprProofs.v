(* C06, value level: the text gin writes for a value (Python's repr, or any re-layout of it by pprint) is a
   rendering of the value's own literal tree, so the parser reads back exactly that value (C02 completeness);
   the order in which a dict's items are written does not matter. *)
From Coq Require Import List String ZArith Bool Arith Lia Ascii Sorting.Permutation.
From GinV Require Import Lib.Out Lib.PyStr Model.Parser Model.ParserSpec Model.Repr.
From GinV Require Import Proofs.ParserLemmas Proofs.ParserSmall Proofs.ParserProofs Proofs.ParserSound Proofs.ParserApi.
Import ListNotations. Open Scope string_scope. Open Scope list_scope.

(* ------------------------------------------------------------------ *)
(* nested induction principle for pv *)
Section PvInd.
  Variable P : pv -> Prop.
  Hypothesis HAtom : forall t, P (PAtom t).
  Hypothesis HNeg : forall t, P (PNeg t).
  Hypothesis HStr : forall t, P (PStr t).
  Hypothesis HList : forall l, Forall P l -> P (PList l).
  Hypothesis HTuple : forall l, Forall P l -> P (PTuple l).
  Hypothesis HDict : forall l, Forall (fun kv => P (fst kv) /\ P (snd kv)) l -> P (PDict l).

  Fixpoint pv_ind' (v : pv) : P v :=
    match v with
    | PAtom t => HAtom t
    | PNeg t => HNeg t
    | PStr t => HStr t
    | PList l =>
        HList l ((fix go (l : list pv) : Forall P l :=
                    match l with [] => Forall_nil P | x :: r => Forall_cons x (pv_ind' x) (go r) end) l)
    | PTuple l =>
        HTuple l ((fix go (l : list pv) : Forall P l :=
                     match l with [] => Forall_nil P | x :: r => Forall_cons x (pv_ind' x) (go r) end) l)
    | PDict l =>
        HDict l ((fix go (l : list (pv * pv)) : Forall (fun kv => P (fst kv) /\ P (snd kv)) l :=
                    match l with
                    | [] => Forall_nil _
                    | (k, x) :: r => Forall_cons (k, x) (conj (pv_ind' k) (pv_ind' x)) (go r)
                    end) l)
    end.
End PvInd.

(* the inner fixes of atoms_ok as Forall *)
Lemma atoms_ok_PList : forall o l, atoms_ok o (PList l) <-> Forall (atoms_ok o) l.
Proof.
  intros o l. cbn [atoms_ok]. induction l as [|x r IH]; split; intro H.
  - constructor.
  - exact I.
  - destruct H as [Hx Hr]. constructor; [exact Hx | apply IH; exact Hr].
  - inversion H; subst. split; [assumption | apply IH; assumption].
Qed.
Lemma atoms_ok_PTuple : forall o l, atoms_ok o (PTuple l) <-> Forall (atoms_ok o) l.
Proof.
  intros o l. cbn [atoms_ok]. induction l as [|x r IH]; split; intro H.
  - constructor.
  - exact I.
  - destruct H as [Hx Hr]. constructor; [exact Hx | apply IH; exact Hr].
  - inversion H; subst. split; [assumption | apply IH; assumption].
Qed.
Lemma atoms_ok_PDict : forall o l,
  atoms_ok o (PDict l) <->
  Forall (fun kv => atoms_ok o (fst kv) /\ atoms_ok o (snd kv)) l /\
  Forall (fun kv => forall a, denote o (fst kv) = Some a -> out_hashable a = true) l.
Proof.
  intros o l. cbn [atoms_ok]. unfold denote. induction l as [|[k x] r IH]; split; intro H.
  - split; constructor.
  - split; exact I.
  - destruct H as [[Hk [Hx Hr]] [Hh Hhr]]. destruct (proj1 IH (conj Hr Hhr)) as [I1 I2].
    split; constructor; try assumption. split; assumption.
  - destruct H as [H1 H2]. inversion H1 as [|? ? [Hk Hx] Hr]; subst. inversion H2 as [|? ? Hh Hhr]; subst.
    cbn [fst snd] in *. destruct (proj2 IH (conj Hr Hhr)) as [I1 I2].
    split; [split; [assumption|]; split; assumption | split; assumption].
Qed.

(* ------------------------------------------------------------------ *)
(* 1. repr is the trivia-free rendering of the value's own tree *)
Definition no_lay : layout := fun _ => [].

Lemma no_lay_ok : lay_ok no_lay.
Proof. intro n. constructor. Qed.

Definition renders_as_repr (v : pv) : Prop :=
  forall n inside, exists n', render (lit_of v) no_lay n inside = (repr_toks v, n').

Lemma join_toks_cons2 : forall sep x y r, join_toks sep (x :: y :: r) = x ++ sep ++ join_toks sep (y :: r).
Proof. reflexivity. Qed.
Lemma render_items_cons2 : forall lay trailing x y r n,
  render_items lay trailing (x :: y :: r) n =
  let '(tx, n1) := render x lay n true in
  let '(rest, n2) := render_items lay trailing (y :: r) (S n1) in
  (tx ++ [op_tok ","] ++ lay n1 ++ rest, n2).
Proof. reflexivity. Qed.
Lemma render_ditems_cons2 : forall lay trailing k v y r n,
  render_ditems lay trailing ((k, v) :: y :: r) n =
  let '(tk, n1) := render k lay n true in
  let '(tv, n2) := render v lay (S n1) true in
  let '(rest, n3) := render_ditems lay trailing (y :: r) (S n2) in
  ((tk ++ [op_tok ":"] ++ lay n1 ++ tv) ++ [op_tok ","] ++ lay n2 ++ rest, n3).
Proof. reflexivity. Qed.

Lemma render_items_repr : forall l, Forall renders_as_repr l -> forall n, l <> [] ->
  exists n', render_items no_lay false (map lit_of l) n = (join_toks [op_tok ","] (map repr_toks l), n').
Proof.
  induction l as [|x r IH]; intros H n Hne; [congruence|].
  inversion H as [|? ? Hx Hr]; subst.
  destruct (Hx n true) as [n1 E1].
  destruct r as [|y r'].
  - cbn [map render_items join_toks]. rewrite E1. rewrite app_nil_r. eexists; reflexivity.
  - destruct (IH Hr (S n1)) as [n2 E2]; [discriminate|].
    change (map lit_of (x :: y :: r')) with (lit_of x :: lit_of y :: map lit_of r').
    rewrite render_items_cons2. rewrite E1.
    change (lit_of y :: map lit_of r') with (map lit_of (y :: r')).
    rewrite E2. exists n2.
    cbn [map]. rewrite join_toks_cons2.
    unfold no_lay at 1. cbn [app]. reflexivity.
Qed.

Lemma render_items_repr_nil : forall trailing n, render_items no_lay trailing [] n = ([], n).
Proof. reflexivity. Qed.

Definition ditem_toks (kv : pv * pv) : list token := repr_toks (fst kv) ++ [op_tok ":"] ++ repr_toks (snd kv).
Definition ditem_lit (kv : pv * pv) : lit * lit := (lit_of (fst kv), lit_of (snd kv)).

Lemma render_ditems_repr : forall l,
  Forall (fun kv => renders_as_repr (fst kv) /\ renders_as_repr (snd kv)) l -> forall n, l <> [] ->
  exists n', render_ditems no_lay false (map ditem_lit l) n = (join_toks [op_tok ","] (map ditem_toks l), n').
Proof.
  induction l as [|[k x] r IH]; intros H n Hne; [congruence|].
  inversion H as [|? ? [Hk Hx] Hr]; subst. cbn [fst snd] in Hk, Hx.
  destruct (Hk n true) as [n1 E1]. destruct (Hx (S n1) true) as [n2 E2].
  destruct r as [|y r'].
  - cbn [map render_ditems join_toks ditem_lit fst snd]. rewrite E1, E2. rewrite app_nil_r.
    unfold ditem_toks. cbn [fst snd]. unfold no_lay at 1. cbn [app]. eexists; reflexivity.
  - destruct (IH Hr (S n2)) as [n3 E3]; [discriminate|].
    change (map ditem_lit ((k, x) :: y :: r')) with ((lit_of k, lit_of x) :: map ditem_lit (y :: r')).
    cbn [map] in E3 |- *. unfold ditem_lit at 1. cbn [fst snd]. rewrite render_ditems_cons2. rewrite E1, E2. fold (ditem_lit y).
    rewrite E3. exists n3.
    rewrite join_toks_cons2.
    change (ditem_toks (k, x)) with (repr_toks k ++ [op_tok ":"] ++ repr_toks x). unfold no_lay. cbn [app].
    rewrite <- !app_assoc. cbn [app]. reflexivity.
Qed.

Lemma if_no_lay : forall (inside : bool) n, (if inside then no_lay n else []) = [].
Proof. intros [] n; reflexivity. Qed.

Theorem repr_is_rendering_gen : forall v, renders_as_repr v.
Proof.
  induction v as [t|t|t|l IH|l IH|l IH] using pv_ind'; intros n inside.
  - cbn [lit_of render repr_toks]. rewrite if_no_lay. eexists; reflexivity.
  - cbn [lit_of render repr_toks]. rewrite !if_no_lay. eexists; reflexivity.
  - cbn [lit_of render repr_toks]. rewrite if_no_lay. eexists; reflexivity.
  - cbn [lit_of repr_toks]. rewrite render_LList.
    destruct l as [|x r].
    + cbn [map render_items join_toks]. rewrite if_no_lay. eexists; reflexivity.
    + destruct (render_items_repr (x :: r) IH (S n)) as [n1 E]; [discriminate|]. rewrite E.
      rewrite if_no_lay. unfold no_lay. cbn [app]. try rewrite !app_nil_r. eexists; reflexivity.
  - cbn [lit_of repr_toks]. rewrite render_LTuple.
    destruct l as [|x [|y r]].
    + cbn [map render_items join_toks]. rewrite if_no_lay. eexists; reflexivity.
    + inversion IH as [|? ? Hx _]; subst. destruct (Hx (S n) true) as [n1 E].
      cbn [map render_items join_toks]. rewrite E. rewrite if_no_lay. unfold no_lay. cbn [app].
      try rewrite !app_nil_r. rewrite <- !app_assoc. eexists; reflexivity.
    + destruct (render_items_repr (x :: y :: r) IH (S n)) as [n1 E]; [discriminate|]. rewrite E.
      rewrite if_no_lay. unfold no_lay. cbn [app]. try rewrite !app_nil_r. eexists; reflexivity.
  - cbn [lit_of repr_toks]. change (map (fun kv => (lit_of (fst kv), lit_of (snd kv))) l) with (map ditem_lit l).
    change (map (fun kv => repr_toks (fst kv) ++ [op_tok ":"] ++ repr_toks (snd kv)) l) with (map ditem_toks l).
    rewrite render_LDict.
    destruct l as [|x r].
    + cbn [map render_ditems join_toks]. rewrite if_no_lay. eexists; reflexivity.
    + destruct (render_ditems_repr (x :: r) IH (S n)) as [n1 E]; [discriminate|]. rewrite E.
      rewrite if_no_lay. unfold no_lay. cbn [app]. try rewrite !app_nil_r. eexists; reflexivity.
Qed.

Theorem value_repr_is_rendering : forall v n,
  exists n', render (lit_of v) (fun _ => []) n false = (repr_toks v, n').
Proof. intros v n. exact (repr_is_rendering_gen v n false). Qed.
Theorem value_repr_is_rendering_inside : forall v n inside,
  exists n', render (lit_of v) (fun _ => []) n inside = (repr_toks v, n').
Proof. intros v n inside. exact (repr_is_rendering_gen v n inside). Qed.

(* ------------------------------------------------------------------ *)
(* 2. trees over meaningful atoms are well formed and mean something *)
Lemma lit_wf_items : forall o items, Forall (lit_wf o) items ->
  (fix go (items : list lit) : Prop := match items with [] => True | x :: r => lit_wf o x /\ go r end) items.
Proof. intros o items H. induction H as [|x r Hx _ IH]; [exact I | split; assumption]. Qed.
Lemma lit_wf_ditems : forall o items, Forall (fun kv => lit_wf o (fst kv) /\ lit_wf o (snd kv)) items ->
  (fix go (items : list (lit * lit)) : Prop :=
     match items with [] => True | (k, v) :: r => lit_wf o k /\ lit_wf o v /\ go r end) items.
Proof.
  intros o items H. induction H as [|[k v] r [Hk Hv] _ IH]; [exact I|]. cbn [fst snd] in Hk, Hv.
  split; [assumption|]. split; assumption.
Qed.

Lemma Forall_map_impl : forall {A B} (P : A -> Prop) (Q : B -> Prop) (f : A -> B) l,
  Forall (fun a => P a -> Q (f a)) l -> Forall P l -> Forall Q (map f l).
Proof.
  intros A B P Q f l H. induction H as [|x r Hx _ IH]; intro HP; cbn [map]; [constructor|].
  inversion HP; subst. constructor; [apply Hx; assumption | apply IH; assumption].
Qed.

Theorem value_wf : forall o v, atoms_ok o v -> lit_wf o (lit_of v).
Proof.
  intros o. induction v as [t|t|t|l IH|l IH|l IH] using pv_ind'; intro H.
  - cbn [atoms_ok] in H. cbn [lit_of lit_wf]. tauto.
  - cbn [atoms_ok] in H. cbn [lit_of lit_wf]. tauto.
  - cbn [atoms_ok] in H. destruct H as [Hty Hx]. cbn [lit_of lit_wf]. split; [discriminate|]. split.
    + constructor; [exact Hty | constructor].
    + cbn [prefixes_ne map]. constructor; [|constructor]. cbn [strs_text]. exact Hx.
  - apply atoms_ok_PList in H. cbn [lit_of lit_wf]. apply lit_wf_items.
    exact (Forall_map_impl _ _ _ _ IH H).
  - apply atoms_ok_PTuple in H. cbn [lit_of lit_wf]. split; [|split].
    + destruct l as [|x [|y r]]; cbn [map List.length]; intro E; try discriminate. reflexivity.
    + destruct l as [|x [|y r]]; cbn [map]; intro E; try discriminate. reflexivity.
    + apply lit_wf_items. exact (Forall_map_impl _ _ _ _ IH H).
  - apply atoms_ok_PDict in H. destruct H as [H _]. cbn [lit_of lit_wf]. apply lit_wf_ditems.
    apply (Forall_map_impl (fun kv => atoms_ok o (fst kv) /\ atoms_ok o (snd kv))); [|exact H].
    eapply Forall_impl; [|exact IH]. cbn beta. intros [k x] [Hk Hx] [Ak Ax]. cbn [fst snd] in *. split; auto.
Qed.

Lemma eval_items_some : forall o items, Forall (fun l => exists x, py_eval o l = Some x) items ->
  exists vs, eval_items o items = Some vs.
Proof.
  intros o items H. induction H as [|l r [x Hx] _ [vs IH]]; [exists []; reflexivity|].
  exists (x :: vs). cbn [eval_items]. rewrite Hx, IH. reflexivity.
Qed.
Lemma eval_ditems_some : forall o items,
  Forall (fun kv => (exists x, py_eval o (fst kv) = Some x) /\ (exists x, py_eval o (snd kv) = Some x)) items ->
  exists kvs, eval_ditems o items = Some kvs.
Proof.
  intros o items H. induction H as [|[k v] r [[a Ha] [b Hb]] _ [kvs IH]]; [exists []; reflexivity|].
  cbn [fst snd] in Ha, Hb. exists ((a, b) :: kvs). cbn [eval_ditems]. rewrite Ha, Hb, IH. reflexivity.
Qed.

Lemma eval_ditems_keys_hashable : forall o items kvs, eval_ditems o items = Some kvs ->
  Forall (fun kv => forall a, py_eval o (fst kv) = Some a -> out_hashable a = true) items -> keys_hashable kvs = true.
Proof.
  intros o items. induction items as [|[k v] r IH]; intros kvs E H; cbn [eval_ditems] in E.
  - injection E as <-. reflexivity.
  - destruct (py_eval o k) as [a|] eqn:Ek; [|discriminate]. destruct (py_eval o v) as [b|]; [|discriminate].
    destruct (eval_ditems o r) as [rest|]; [|discriminate]. injection E as <-.
    inversion H as [|? ? Hk Hr]; subst. cbn [fst] in Hk. unfold keys_hashable. cbn [forallb fst].
    rewrite (Hk a Ek). exact (IH rest eq_refl Hr).
Qed.

Theorem value_denotes : forall o v, atoms_ok o v -> exists x, denote o v = Some x.
Proof.
  intros o. unfold denote. induction v as [t|t|t|l IH|l IH|l IH] using pv_ind'; intro H.
  - cbn [atoms_ok] in H. destruct H as [_ [_ [x Hx]]]. exists x. cbn [lit_of py_eval].
    change ("" ++ text t)%string with (text t). rewrite Hx. reflexivity.
  - cbn [atoms_ok] in H. destruct H as [_ [_ [x Hx]]]. exists x. cbn [lit_of py_eval]. rewrite Hx. reflexivity.
  - cbn [atoms_ok] in H. destruct H as [_ [x Hx]]. exists x. cbn [lit_of py_eval strs_text]. rewrite Hx. reflexivity.
  - apply atoms_ok_PList in H. cbn [lit_of]. rewrite py_eval_LList.
    destruct (eval_items_some o (map lit_of l)) as [vs E]; [exact (Forall_map_impl _ _ _ _ IH H)|].
    rewrite E. eexists; reflexivity.
  - apply atoms_ok_PTuple in H. cbn [lit_of]. rewrite py_eval_LTuple.
    destruct (eval_items_some o (map lit_of l)) as [vs E]; [exact (Forall_map_impl _ _ _ _ IH H)|].
    rewrite E. eexists; reflexivity.
  - apply atoms_ok_PDict in H. destruct H as [H Hh]. cbn [lit_of]. rewrite py_eval_LDict.
    destruct (eval_ditems_some o (map (fun kv => (lit_of (fst kv), lit_of (snd kv))) l)) as [kvs E].
    { apply (Forall_map_impl (fun kv => atoms_ok o (fst kv) /\ atoms_ok o (snd kv))); [|exact H].
      eapply Forall_impl; [|exact IH]. cbn beta. intros [k x] [Hk Hx] [Ak Ax]. cbn [fst snd] in *. split; auto. }
    rewrite E. rewrite (eval_ditems_keys_hashable o _ kvs E); [eexists; reflexivity|].
    apply Forall_map. eapply Forall_impl; [|exact Hh]. intros [k x] Hk. exact Hk.
Qed.

(* ------------------------------------------------------------------ *)
(* 3. the side condition of C02 completeness (tok_ok: a NAME / NUMBER / STRING token never spells a bracket, "-" or
   nothing) need only be asked of the ATOM tokens: the punctuation repr writes is made of OP tokens *)
Fixpoint pv_atoms (v : pv) : list token :=
  match v with
  | PAtom t => [t]
  | PNeg t => [t]
  | PStr t => [t]
  | PList l => flat_map pv_atoms l
  | PTuple l => flat_map pv_atoms l
  | PDict l => flat_map (fun kv => pv_atoms (fst kv) ++ pv_atoms (snd kv)) l
  end.

Lemma op_tok_ok : forall s, tok_ok (op_tok s).
Proof. intros s [H|[H|H]]; cbn in H; discriminate. Qed.

Lemma Forall_join_toks : forall (P : token -> Prop) sep ls,
  Forall P sep -> Forall (Forall P) ls -> Forall P (join_toks sep ls).
Proof.
  intros P sep ls Hsep H. induction H as [|x r Hx Hr IH]; [constructor|].
  destruct r as [|y r']; [exact Hx|]. rewrite join_toks_cons2.
  apply Forall_app; split; [exact Hx|]. apply Forall_app; split; [exact Hsep | exact IH].
Qed.
Lemma incl_join_toks : forall sep ls x, In x ls -> incl x (join_toks sep ls).
Proof.
  intros sep ls. induction ls as [|y r IH]; intros x Hin; [destruct Hin|].
  destruct r as [|z r'].
  - destruct Hin as [<-|[]]. apply incl_refl.
  - rewrite join_toks_cons2. destruct Hin as [<-|Hin].
    + apply incl_appl, incl_refl.
    + apply incl_appr, incl_appr. exact (IH _ Hin).
Qed.

Theorem repr_toks_ok : forall v, Forall tok_ok (pv_atoms v) -> Forall tok_ok (repr_toks v).
Proof.
  assert (Hop : forall s, Forall tok_ok [op_tok s]) by (intro s; constructor; [apply op_tok_ok | constructor]).
  induction v as [t|t|t|l IH|l IH|l IH] using pv_ind'; cbn [pv_atoms repr_toks]; intro H.
  - exact H.
  - constructor; [apply op_tok_ok | exact H].
  - exact H.
  - apply Forall_app; split; [apply Hop|]. apply Forall_app; split; [|apply Hop].
    apply Forall_join_toks; [apply Hop|].
    induction IH as [|x r Hx _ IHr]; cbn [map flat_map] in *; [constructor|].
    apply Forall_app in H. destruct H as [H1 H2]. constructor; [exact (Hx H1) | exact (IHr H2)].
  - apply Forall_app; split; [apply Hop|]. apply Forall_app; split.
    + apply Forall_join_toks; [apply Hop|].
      induction IH as [|x r Hx _ IHr]; cbn [map flat_map] in *; [constructor|].
      apply Forall_app in H. destruct H as [H1 H2]. constructor; [exact (Hx H1) | exact (IHr H2)].
    + apply Forall_app; split; [|apply Hop]. destruct l as [|? [|? ?]]; try constructor; [apply op_tok_ok | constructor].
  - apply Forall_app; split; [apply Hop|]. apply Forall_app; split; [|apply Hop].
    apply Forall_join_toks; [apply Hop|].
    induction IH as [|[k x] r [Hk Hx] _ IHr]; cbn [map flat_map fst snd] in *; [constructor|].
    apply Forall_app in H. destruct H as [H1 H2]. apply Forall_app in H1. destruct H1 as [H1 H1'].
    constructor; [|exact (IHr H2)].
    apply Forall_app; split; [exact (Hk H1)|]. apply Forall_app; split; [apply Hop | exact (Hx H1')].
Qed.

(* nothing is lost: the atom tokens are among the tokens of the repr *)
Theorem pv_atoms_in_repr : forall v, incl (pv_atoms v) (repr_toks v).
Proof.
  induction v as [t|t|t|l IH|l IH|l IH] using pv_ind'; cbn [pv_atoms repr_toks].
  - apply incl_refl.
  - apply incl_tl, incl_refl.
  - apply incl_refl.
  - apply incl_appr, incl_appl. intros t Ht. apply in_flat_map in Ht. destruct Ht as [x [Hx Ht]].
    rewrite Forall_forall in IH. apply (incl_join_toks _ _ (repr_toks x)); [apply in_map; exact Hx | exact (IH _ Hx _ Ht)].
  - apply incl_appr, incl_appl. intros t Ht. apply in_flat_map in Ht. destruct Ht as [x [Hx Ht]].
    rewrite Forall_forall in IH. apply (incl_join_toks _ _ (repr_toks x)); [apply in_map; exact Hx | exact (IH _ Hx _ Ht)].
  - apply incl_appr, incl_appl. intros t Ht. apply in_flat_map in Ht. destruct Ht as [[k x] [Hx Ht]].
    rewrite Forall_forall in IH. destruct (IH _ Hx) as [Hk Hv]. cbn [fst snd] in *.
    apply (incl_join_toks _ _ (repr_toks k ++ [op_tok ":"] ++ repr_toks x)).
    + apply (in_map (fun kv => repr_toks (fst kv) ++ [op_tok ":"] ++ repr_toks (snd kv)) _ _ Hx).
    + apply in_app_or in Ht. destruct Ht as [Ht|Ht].
      * apply in_or_app. left. exact (Hk _ Ht).
      * apply in_or_app. right. apply in_or_app. right. exact (Hv _ Ht).
Qed.
Corollary repr_toks_ok_iff : forall v, Forall tok_ok (repr_toks v) <-> Forall tok_ok (pv_atoms v).
Proof.
  intro v. split; [|apply repr_toks_ok]. intro H. rewrite Forall_forall in *. intros t Ht.
  apply H. exact (pv_atoms_in_repr v t Ht).
Qed.

(* the round trip on the repr text *)
Theorem value_repr_roundtrip : forall o v x rest wb,
  atoms_ok o v -> denote o v = Some x -> Forall tok_ok (pv_atoms v) ->
  rest <> [] -> (forall t r', rest = t :: r' -> follow_ok t) ->
  parse_value (value_fuel (repr_toks v ++ rest)) o wb (repr_toks v ++ rest) = POk (x, rest).
Proof.
  intros o v x rest wb Hat Hden Hok Hne Hfol.
  destruct (value_repr_is_rendering v 0) as [n' Hr].
  exact (C02_value_fuel o (lit_of v) wb (fun _ => []) 0 false x (repr_toks v) n' [] rest
           no_lay_ok (value_wf o v Hat) Hden Hr (repr_toks_ok v Hok) (Forall_nil _) Hne Hfol).
Qed.

(* 4. ... and on any re-layout of it *)
Theorem value_any_layout_roundtrip : forall o v x lay n inside toks n' tr rest wb,
  atoms_ok o v -> denote o v = Some x -> lay_ok lay -> render (lit_of v) lay n inside = (toks, n') ->
  Forall tok_ok toks -> Forall trivia_tok tr ->
  rest <> [] -> (forall t r', rest = t :: r' -> follow_ok t) ->
  parse_value (value_fuel (toks ++ tr ++ rest)) o wb (toks ++ tr ++ rest) = POk (x, rest).
Proof.
  intros o v x lay n inside toks n' tr rest wb Hat Hden Hlay Hr Hok Htr Hne Hfol.
  exact (C02_value_fuel o (lit_of v) wb lay n inside x toks n' tr rest
           Hlay (value_wf o v Hat) Hden Hr Hok Htr Hne Hfol).
Qed.

(* the side condition on a re-layout also follows from the one on the atoms: layouts add only NL / COMMENT tokens *)
Lemma trivia_tok_ok : forall t, trivia_tok t -> tok_ok t.
Proof. intros t [H|H] [C|[C|C]]; rewrite H in C; discriminate. Qed.
Lemma lay_tok_ok : forall lay k, lay_ok lay -> Forall tok_ok (lay k).
Proof. intros lay k H. eapply Forall_impl; [|exact (H k)]. exact trivia_tok_ok. Qed.
Lemma trin_tok_ok : forall lay (inside : bool) k, lay_ok lay -> Forall tok_ok (if inside then lay k else []).
Proof. intros lay [] k H; [apply lay_tok_ok; exact H | constructor]. Qed.

Definition layout_toks_ok (v : pv) : Prop :=
  Forall tok_ok (pv_atoms v) -> forall lay n inside toks n',
  lay_ok lay -> render (lit_of v) lay n inside = (toks, n') -> Forall tok_ok toks.

Lemma render_items_ok : forall lay trailing, lay_ok lay -> forall l,
  Forall layout_toks_ok l -> Forall tok_ok (flat_map pv_atoms l) -> forall n body n1,
  render_items lay trailing (map lit_of l) n = (body, n1) -> Forall tok_ok body.
Proof.
  intros lay trailing Hlay l IH. induction IH as [|x r Hx _ IHr]; intros Hat n body n1 Hr.
  - cbn in Hr. injection Hr as <- _. constructor.
  - cbn [flat_map] in Hat. apply Forall_app in Hat. destruct Hat as [H1 H2].
    cbn [map] in Hr. apply render_items_cons in Hr.
    destruct Hr as [tx [nx [Ex [[_ [-> _]] | [_ [rb [Erb ->]]]]]]].
    + apply Forall_app; split; [exact (Hx H1 _ _ _ _ _ Hlay Ex)|].
      destruct trailing; [|constructor]. constructor; [apply op_tok_ok | apply lay_tok_ok; exact Hlay].
    + apply Forall_app; split; [exact (Hx H1 _ _ _ _ _ Hlay Ex)|].
      constructor; [apply op_tok_ok|]. apply Forall_app; split; [apply lay_tok_ok; exact Hlay|].
      exact (IHr H2 _ _ _ Erb).
Qed.
Lemma render_ditems_ok : forall lay trailing, lay_ok lay -> forall l,
  Forall (fun kv => layout_toks_ok (fst kv) /\ layout_toks_ok (snd kv)) l ->
  Forall tok_ok (flat_map (fun kv => pv_atoms (fst kv) ++ pv_atoms (snd kv)) l) -> forall n body n1,
  render_ditems lay trailing (map ditem_lit l) n = (body, n1) -> Forall tok_ok body.
Proof.
  intros lay trailing Hlay l IH. induction IH as [|[k x] r [Hk Hx] _ IHr]; intros Hat n body n1 Hr.
  - cbn in Hr. injection Hr as <- _. constructor.
  - cbn [flat_map fst snd] in *. apply Forall_app in Hat. destruct Hat as [H1 H2].
    apply Forall_app in H1. destruct H1 as [H1 H1'].
    cbn [map] in Hr. unfold ditem_lit at 1 in Hr. cbn [fst snd] in Hr. apply render_ditems_cons in Hr.
    destruct Hr as [tk [n1' [tv [n2 [Ek [Ev Hr]]]]]].
    assert (Hitem : Forall tok_ok (tk ++ op_tok ":" :: lay n1' ++ tv)).
    { apply Forall_app; split; [exact (Hk H1 _ _ _ _ _ Hlay Ek)|]. constructor; [apply op_tok_ok|].
      apply Forall_app; split; [apply lay_tok_ok; exact Hlay | exact (Hx H1' _ _ _ _ _ Hlay Ev)]. }
    destruct Hr as [[_ [-> _]] | [_ [rb [Erb ->]]]].
    + apply Forall_app; split; [exact Hitem|].
      destruct trailing; [|constructor]. constructor; [apply op_tok_ok | apply lay_tok_ok; exact Hlay].
    + apply Forall_app; split; [exact Hitem|].
      constructor; [apply op_tok_ok|]. apply Forall_app; split; [apply lay_tok_ok; exact Hlay|].
      exact (IHr H2 _ _ _ Erb).
Qed.

Theorem layout_toks_ok_all : forall v, layout_toks_ok v.
Proof.
  induction v as [t|t|t|l IH|l IH|l IH] using pv_ind'; intros Hat lay n inside toks n' Hlay Hr;
    cbn [pv_atoms] in Hat.
  - cbn [lit_of render] in Hr. injection Hr as <- _. cbn [app]. constructor; [exact (Forall_inv Hat)|].
    apply trin_tok_ok; exact Hlay.
  - cbn [lit_of render] in Hr. injection Hr as <- _. cbn [app]. constructor; [apply op_tok_ok|].
    apply Forall_app; split; [apply trin_tok_ok; exact Hlay|]. constructor; [exact (Forall_inv Hat)|].
    apply trin_tok_ok; exact Hlay.
  - cbn [lit_of render] in Hr. injection Hr as <- _. constructor; [exact (Forall_inv Hat)|].
    rewrite app_nil_r. apply trin_tok_ok; exact Hlay.
  - cbn [lit_of] in Hr. rewrite render_LList in Hr.
    destruct (render_items lay false (map lit_of l) (S n)) as [body n1] eqn:Eb. injection Hr as <- _.
    cbn [app]. constructor; [apply op_tok_ok|]. apply Forall_app; split; [apply lay_tok_ok; exact Hlay|].
    apply Forall_app; split; [exact (render_items_ok lay false Hlay l IH Hat _ _ _ Eb)|].
    constructor; [apply op_tok_ok | apply trin_tok_ok; exact Hlay].
  - cbn [lit_of] in Hr. rewrite render_LTuple in Hr.
    destruct (render_items lay _ (map lit_of l) (S n)) as [body n1] eqn:Eb. injection Hr as <- _.
    cbn [app]. constructor; [apply op_tok_ok|]. apply Forall_app; split; [apply lay_tok_ok; exact Hlay|].
    apply Forall_app; split; [exact (render_items_ok lay _ Hlay l IH Hat _ _ _ Eb)|].
    constructor; [apply op_tok_ok | apply trin_tok_ok; exact Hlay].
  - cbn [lit_of] in Hr. change (map (fun kv => (lit_of (fst kv), lit_of (snd kv))) l) with (map ditem_lit l) in Hr.
    rewrite render_LDict in Hr.
    destruct (render_ditems lay false (map ditem_lit l) (S n)) as [body n1] eqn:Eb. injection Hr as <- _.
    cbn [app]. constructor; [apply op_tok_ok|]. apply Forall_app; split; [apply lay_tok_ok; exact Hlay|].
    apply Forall_app; split; [exact (render_ditems_ok lay false Hlay l IH Hat _ _ _ Eb)|].
    constructor; [apply op_tok_ok | apply trin_tok_ok; exact Hlay].
Qed.

Theorem value_any_layout_roundtrip_atoms : forall o v x lay n inside toks n' tr rest wb,
  atoms_ok o v -> denote o v = Some x -> Forall tok_ok (pv_atoms v) ->
  lay_ok lay -> render (lit_of v) lay n inside = (toks, n') -> Forall trivia_tok tr ->
  rest <> [] -> (forall t r', rest = t :: r' -> follow_ok t) ->
  parse_value (value_fuel (toks ++ tr ++ rest)) o wb (toks ++ tr ++ rest) = POk (x, rest).
Proof.
  intros o v x lay n inside toks n' tr rest wb Hat Hden Hok Hlay Hr Htr Hne Hfol.
  exact (value_any_layout_roundtrip o v x lay n inside toks n' tr rest wb Hat Hden Hlay Hr
           (layout_toks_ok_all v Hok lay n inside toks n' Hlay Hr) Htr Hne Hfol).
Qed.

(* ------------------------------------------------------------------ *)
(* 5. the API: what _format_value and a reader of the config string run *)
Theorem value_text_reads_back : forall o v x lay n inside toks n' tr tl e more,
  atoms_ok o v -> denote o v = Some x -> Forall tok_ok (pv_atoms v) ->
  lay_ok lay -> render (lit_of v) lay n inside = (toks, n') ->
  Forall trivia_tok tr ->
  Forall (fun t => In (ty t) end_types) tl -> (forall t r, tl = t :: r -> ty t = NEWLINE) ->
  ty e = ENDMARKER ->
  parse_single_value o (toks ++ tr ++ tl ++ e :: more) = POk x.
Proof.
  intros o v x lay n inside toks n' tr tl e more Hat Hden Hok Hlay Hr Htr Htl Hhd He.
  exact (api_never_another_value o (lit_of v) lay n inside x toks n' tr tl e more Hlay (value_wf o v Hat) Hden Hr
           (layout_toks_ok_all v Hok lay n inside toks n' Hlay Hr) Htr Htl Hhd He).
Qed.

Theorem value_repr_reads_back : forall o v x nl e,
  atoms_ok o v -> denote o v = Some x -> Forall tok_ok (pv_atoms v) ->
  ty nl = NEWLINE -> ty e = ENDMARKER ->
  parse_single_value o (repr_toks v ++ [nl; e]) = POk x.
Proof.
  intros o v x nl e Hat Hden Hok Hnl He.
  destruct (value_repr_is_rendering v 0) as [n' Hr].
  apply (value_text_reads_back o v x (fun _ => []) 0 false (repr_toks v) n' [] [nl] e [] Hat Hden Hok no_lay_ok Hr).
  - constructor.
  - constructor; [|constructor]. rewrite Hnl. unfold end_types. cbn. tauto.
  - intros t r E. injection E as <- _. exact Hnl.
  - exact He.
Qed.

(* ------------------------------------------------------------------ *)
(* 6. dict order.  First: out_eqb decides equality of observations. *)
Section OutInd.
  Variable P : out -> Prop.
  Hypothesis HS : forall s, P (OS s).
  Hypothesis HZ : forall z, P (OZ z).
  Hypothesis HL : forall l, Forall P l -> P (OL l).
  Hypothesis HT : forall t l, Forall P l -> P (OT t l).
  Fixpoint out_ind' (a : out) : P a :=
    match a with
    | OS s => HS s
    | OZ z => HZ z
    | OL l => HL l ((fix go (l : list out) : Forall P l :=
                       match l with [] => Forall_nil P | x :: r => Forall_cons x (out_ind' x) (go r) end) l)
    | OT t l => HT t l ((fix go (l : list out) : Forall P l :=
                           match l with [] => Forall_nil P | x :: r => Forall_cons x (out_ind' x) (go r) end) l)
    end.
End OutInd.

Fixpoint outs_eqb (l1 l2 : list out) : bool :=
  match l1, l2 with
  | [], [] => true
  | x :: r1, y :: r2 => out_eqb x y && outs_eqb r1 r2
  | _, _ => false
  end.
Lemma out_eqb_OL : forall xs ys, out_eqb (OL xs) (OL ys) = outs_eqb xs ys.
Proof.
  intros xs ys. reflexivity.
Qed.
Lemma out_eqb_OT : forall t u xs ys, out_eqb (OT t xs) (OT u ys) = String.eqb t u && outs_eqb xs ys.
Proof.
  intros t u xs ys. reflexivity.
Qed.
Lemma outs_eqb_iff : forall xs, Forall (fun a => forall b, out_eqb a b = true <-> a = b) xs ->
  forall ys, outs_eqb xs ys = true <-> xs = ys.
Proof.
  intros xs H. induction H as [|x r Hx _ IH]; intros [|y ys]; cbn [outs_eqb]; split; intro E;
    try reflexivity; try discriminate.
  - apply andb_true_iff in E. destruct E as [E1 E2]. apply Hx in E1. apply IH in E2. congruence.
  - injection E as <- <-. apply andb_true_iff. split; [apply Hx | apply IH]; reflexivity.
Qed.

Theorem out_eqb_iff : forall a b, out_eqb a b = true <-> a = b.
Proof.
  induction a as [s|z|l IH|t l IH] using out_ind'; intros b.
  - destruct b; cbn [out_eqb]; split; intro E; try discriminate.
    + apply String.eqb_eq in E. congruence.
    + injection E as <-. apply String.eqb_refl.
  - destruct b; cbn [out_eqb]; split; intro E; try discriminate.
    + apply Z.eqb_eq in E. congruence.
    + injection E as <-. apply Z.eqb_refl.
  - destruct b as [| |l'|]; try (split; intro E; discriminate).
    rewrite out_eqb_OL. rewrite (outs_eqb_iff l IH l'). split; intro E; congruence.
  - destruct b as [| | |u l']; try (split; intro E; discriminate).
    rewrite out_eqb_OT. rewrite andb_true_iff. rewrite (outs_eqb_iff l IH l'). rewrite String.eqb_eq.
    split; [intros [E1 E2]; congruence | intro E; injection E as <- <-; split; reflexivity].
Qed.
Corollary out_eqb_sound : forall a b, out_eqb a b = true -> a = b.
Proof. intros a b. apply out_eqb_iff. Qed.
Corollary out_eqb_refl : forall a, out_eqb a a = true.
Proof. intro a. apply out_eqb_iff. reflexivity. Qed.
Corollary out_eqb_false_iff : forall a b, out_eqb a b = false <-> a <> b.
Proof.
  intros a b. destruct (out_eqb a b) eqn:E; split; intro H; try reflexivity; try discriminate.
  - apply out_eqb_iff in E. contradiction.
  - intro C. apply out_eqb_iff in C. congruence.
Qed.
Corollary out_eqb_sym : forall a b, out_eqb a b = out_eqb b a.
Proof.
  intros a b. destruct (out_eqb b a) eqn:E.
  - apply out_eqb_iff in E. subst. apply out_eqb_refl.
  - apply out_eqb_false_iff. apply out_eqb_false_iff in E. congruence.
Qed.

(* ---- Python's key equality on observations ---- *)
Fixpoint outs_py_eqb (l1 l2 : list out) : bool :=
  match l1, l2 with
  | [], [] => true
  | x :: r1, y :: r2 => out_py_eqb x y && outs_py_eqb r1 r2
  | _, _ => false
  end.
Lemma out_py_eqb_unfold : forall a b, out_py_eqb a b =
  match out_num a, out_num b with
  | Some (r1, i1), Some (r2, i2) => num_eqb r1 r2 && num_eqb i1 i2
  | Some _, None | None, Some _ => false
  | None, None =>
      match a, b with
      | OT t xs, OT u ys => if String.eqb t "T" && String.eqb u "T" then outs_py_eqb xs ys else out_eqb a b
      | _, _ => out_eqb a b
      end
  end.
Proof. intros a b. destruct a; reflexivity. Qed.
Lemma num_eqb_refl : forall n, num_eqb n n = true.
Proof. intros [m e|x|]; cbn [num_eqb]; [apply Z.eqb_refl | destruct x; reflexivity | reflexivity]. Qed.
Lemma outs_py_eqb_refl : forall l, Forall (fun a => out_py_eqb a a = true) l -> outs_py_eqb l l = true.
Proof. intros l H. induction H as [|x r Hx _ IH]; [reflexivity|]. cbn [outs_py_eqb]. rewrite Hx, IH. reflexivity. Qed.
(* a key is equal to itself (the one float that is not, nan, is no value of an atom; the model takes one nan object) *)
Theorem out_py_eqb_refl : forall a, out_py_eqb a a = true.
Proof.
  induction a as [s|z|l IH|t l IH] using out_ind'; rewrite out_py_eqb_unfold.
  - cbn [out_num]. apply out_eqb_refl.
  - cbn [out_num]. apply out_eqb_refl.
  - cbn [out_num]. apply out_eqb_refl.
  - destruct (out_num (OT t l)) as [[r i]|].
    + rewrite !num_eqb_refl. reflexivity.
    + destruct (String.eqb t "T" && String.eqb t "T"); [apply outs_py_eqb_refl; exact IH | apply out_eqb_refl].
Qed.

(* keys pairwise different in Python (neither equals the other) *)
Definition keys_distinct (kvs : list (out * out)) : Prop :=
  forall i j, i < List.length kvs -> j < List.length kvs -> i <> j ->
  out_py_eqb (fst (nth i kvs (ONone, ONone))) (fst (nth j kvs (ONone, ONone))) = false.

(* the same as a list predicate: every item against every later one, both ways *)
Definition py_diff (a b : out * out) : Prop := out_py_eqb (fst a) (fst b) = false /\ out_py_eqb (fst b) (fst a) = false.
Fixpoint kd (l : list (out * out)) : Prop :=
  match l with [] => True | x :: r => Forall (py_diff x) r /\ kd r end.
Lemma keys_distinct_kd : forall l, keys_distinct l <-> kd l.
Proof.
  induction l as [|x r IH]; split; intro H.
  - exact I.
  - intros i j Hi. cbn in Hi. lia.
  - split.
    + apply Forall_forall. intros y Hy. destruct (In_nth _ _ (ONone, ONone) Hy) as [n [Hn En]]. split.
      * specialize (H 0 (S n)). cbn [nth List.length] in H. rewrite En in H. apply H; lia.
      * specialize (H (S n) 0). cbn [nth List.length] in H. rewrite En in H. apply H; lia.
    + apply IH. intros i j Hi Hj Hne. specialize (H (S i) (S j)). cbn [nth List.length] in H. apply H; lia.
  - destruct H as [Hx Hr]. apply IH in Hr. rewrite Forall_forall in Hx. intros [|i] [|j] Hi Hj Hne; cbn [List.length] in Hi, Hj.
    + congruence.
    + cbn [nth]. apply (Hx (nth j r (ONone, ONone))). apply nth_In. lia.
    + cbn [nth]. apply (Hx (nth i r (ONone, ONone))). apply nth_In. lia.
    + cbn [nth]. apply Hr; lia.
Qed.
Lemma kd_perm : forall l1 l2, Permutation l1 l2 -> kd l1 -> kd l2.
Proof.
  intros l1 l2 Hp. induction Hp as [|x l l' Hp IH|x y l|l l' l'' _ IH1 _ IH2]; intro H.
  - exact I.
  - destruct H as [Hx Hr]. split; [exact (Permutation_Forall Hp Hx) | exact (IH Hr)].
  - destruct H as [Hy [Hx Hr]]. inversion Hy as [|? ? [A B] Hy']; subst.
    split; [constructor; [split; assumption | exact Hx]|]. split; assumption.
  - exact (IH2 (IH1 H)).
Qed.

(* pairwise different keys are in particular different observations; not conversely: 1 and True are one key *)
Lemma keys_distinct_NoDup : forall kvs, keys_distinct kvs -> NoDup (map fst kvs).
Proof.
  intro kvs. rewrite (NoDup_nth (map fst kvs) (fst (ONone, ONone))). rewrite map_length. unfold keys_distinct.
  intros H i j Hi Hj. rewrite !map_nth. intro E. destruct (Nat.eq_dec i j) as [|Hne]; [assumption|].
  specialize (H i j Hi Hj Hne). rewrite E, out_py_eqb_refl in H. discriminate.
Qed.
Example NoDup_keys_not_distinct :
  let kvs := [(OT "int" [OS "1"], OS "a"); (OT "bool" [OS "True"], OS "b")] in
  NoDup (map fst kvs) /\ ~ keys_distinct kvs /\
  build_dict kvs = OT "D" [OL [OT "int" [OS "1"]; OS "b"]].
Proof.
  split; [|split].
  - repeat constructor; cbn; intuition discriminate.
  - intro H. specialize (H 0 1). cbn in H. assert (E : true = false) by (apply H; lia). discriminate.
  - vm_compute. reflexivity.
Qed.

Lemma dict_set_fresh : forall k v acc, Forall (fun jw => out_py_eqb k (fst jw) = false) acc ->
  dict_set k v acc = acc ++ [(k, v)].
Proof.
  intros k v acc H. induction H as [|[j w] r E _ IH]; [reflexivity|].
  cbn [dict_set app]. cbn [fst] in E. rewrite E, IH. reflexivity.
Qed.

Lemma fold_dict_set_distinct : forall items acc, kd (acc ++ items) ->
  fold_left (fun acc kv => dict_set (fst kv) (snd kv) acc) items acc = acc ++ items.
Proof.
  induction items as [|[k v] r IH]; intros acc H; cbn [fold_left]; [rewrite app_nil_r; reflexivity|].
  cbn [fst snd]. rewrite dict_set_fresh.
  - rewrite IH; rewrite <- app_assoc; [reflexivity | exact H].
  - clear IH. induction acc as [|a acc IHa]; [constructor|]. cbn [app kd] in H. destruct H as [Ha Hr].
    constructor; [|exact (IHa Hr)]. apply Forall_app in Ha. destruct Ha as [_ Ha]. inversion Ha as [|? ? [_ B] _]; subst.
    exact B.
Qed.

(* with pairwise different keys no entry is merged: the dict holds the items as written *)
Theorem build_dict_distinct : forall kvs, keys_distinct kvs ->
  build_dict kvs = OT "D" (map (fun kv => OL [fst kv; snd kv]) kvs).
Proof.
  intros kvs H. apply keys_distinct_kd in H. unfold build_dict. rewrite (fold_dict_set_distinct kvs [] H). reflexivity.
Qed.

Theorem dict_order_irrelevant : forall kvs1 kvs2,
  keys_distinct kvs1 -> Permutation kvs1 kvs2 ->
  keys_distinct kvs2 /\
  exists es1 es2, build_dict kvs1 = OT "D" es1 /\ build_dict kvs2 = OT "D" es2 /\
    es1 = map (fun kv => OL [fst kv; snd kv]) kvs1 /\ es2 = map (fun kv => OL [fst kv; snd kv]) kvs2 /\
    Permutation es1 es2.
Proof.
  intros kvs1 kvs2 Hd Hp.
  assert (Hd2 : keys_distinct kvs2).
  { apply keys_distinct_kd. apply (kd_perm _ _ Hp). apply keys_distinct_kd. exact Hd. }
  split; [exact Hd2|].
  eexists _, _. split; [apply build_dict_distinct; exact Hd|]. split; [apply build_dict_distinct; exact Hd2|].
  split; [reflexivity|]. split; [reflexivity|]. apply Permutation_map. exact Hp.
Qed.

(* the same for the values: writing the items of a dict value in another order (pprint sorts them by key)
   denotes a dict with the same entries *)
Lemma eval_ditems_perm : forall o l1 l2, Permutation l1 l2 -> forall k1, eval_ditems o l1 = Some k1 ->
  exists k2, eval_ditems o l2 = Some k2 /\ Permutation k1 k2.
Proof.
  intros o l1 l2 Hp. induction Hp as [|[k v] l l' Hp IH|[k v] [k' v'] l|l l' l'' Hp1 IH1 Hp2 IH2]; intros k1 E.
  - exists k1. split; [exact E | apply Permutation_refl].
  - cbn [eval_ditems] in *. destruct (py_eval o k) as [a|]; [|discriminate]. destruct (py_eval o v) as [b|]; [|discriminate].
    destruct (eval_ditems o l) as [rest|]; [|discriminate]. injection E as <-.
    destruct (IH rest eq_refl) as [k2 [E2 P2]]. rewrite E2. eexists; split; [reflexivity|]. apply perm_skip. exact P2.
  - cbn [eval_ditems] in *. destruct (py_eval o k') as [a'|]; [|discriminate]. destruct (py_eval o v') as [b'|]; [|discriminate].
    destruct (py_eval o k) as [a|]; [|discriminate]. destruct (py_eval o v) as [b|]; [|discriminate].
    destruct (eval_ditems o l) as [rest|]; [|discriminate]. injection E as <-.
    eexists; split; [reflexivity|]. apply perm_swap.
  - destruct (IH1 _ E) as [k2 [E2 P2]]. destruct (IH2 _ E2) as [k3 [E3 P3]]. exists k3. split; [exact E3|].
    eapply Permutation_trans; eassumption.
Qed.

Theorem dict_value_order_irrelevant : forall o l1 l2 x1,
  Permutation l1 l2 -> denote o (PDict l1) = Some x1 ->
  (forall kvs, eval_ditems o (map ditem_lit l1) = Some kvs -> keys_distinct kvs) ->
  exists x2 kvs1 kvs2, denote o (PDict l2) = Some x2 /\
    x1 = OT "D" (map (fun kv => OL [fst kv; snd kv]) kvs1) /\
    x2 = OT "D" (map (fun kv => OL [fst kv; snd kv]) kvs2) /\
    eval_ditems o (map ditem_lit l1) = Some kvs1 /\ eval_ditems o (map ditem_lit l2) = Some kvs2 /\
    Permutation kvs1 kvs2.
Proof.
  intros o l1 l2 x1 Hp Hden Hdist. unfold denote in *. cbn [lit_of] in *.
  change (map (fun kv => (lit_of (fst kv), lit_of (snd kv))) l1) with (map ditem_lit l1) in Hden.
  change (map (fun kv => (lit_of (fst kv), lit_of (snd kv))) l2) with (map ditem_lit l2).
  rewrite py_eval_LDict in *.
  destruct (eval_ditems o (map ditem_lit l1)) as [kvs1|] eqn:E1; [|discriminate].
  destruct (keys_hashable kvs1) eqn:Hh1; [|discriminate]. injection Hden as <-.
  destruct (eval_ditems_perm o _ _ (Permutation_map ditem_lit Hp) _ E1) as [kvs2 [E2 P2]].
  assert (Hh2 : keys_hashable kvs2 = true).
  { unfold keys_hashable in *. rewrite forallb_forall in *. intros kv Hin. apply Hh1.
    exact (Permutation_in _ (Permutation_sym P2) Hin). }
  destruct (dict_order_irrelevant kvs1 kvs2 (Hdist _ eq_refl) P2) as [_ [es1 [es2 [B1 [B2 [-> [-> _]]]]]]].
  exists (build_dict kvs2), kvs1, kvs2. rewrite E2, Hh2. repeat split; assumption.
Qed.
