(* Model/PPrintStr.v: first facts and the witness against the docstring of gin/config.py:_config_str
   ("long strings won't be split into a concatenation of shorter strings"): pprint DOES split a long str that contains
   blanks, and gin emits the split form.  The general read-back theorem for split strings (adjacent STRING tokens, LStrs /
   LParen of Model/ParserSpec.v, with the oracle tied to StrLit.decode_str_literals) is NOT proved here: what is here is
   the executable model (compared character for character with CPython by harness_new/pprint_str_corr.py), the case
   where everything fits, and the witness, read back by computation. *)
From Coq Require Import List String ZArith NArith Bool Arith Ascii Lia.
From GinV Require Import Lib.Out Lib.PyStr Model.Parser Model.ParserSpec Model.Repr Model.Lexer Model.ReprText Model.PPrint Model.StrLit Model.PPrintStr.
Import ListNotations.
Open Scope string_scope.
Open Scope list_scope.

(* what fits is written as repr writes it *)
Theorem pformat_s_fits : forall (w : nat) v, (String.length (repr_string (erase v)) <= w)%nat -> pformat_s w v = repr_string (erase v).
Proof.
  intros w v H. unfold pformat_s.
  assert (E : too_wide w (repr_string_s v) 0 0 = false) by (unfold too_wide, repr_string_s; apply Nat.ltb_ge; lia).
  destruct v; cbn [pformat_s_at]; rewrite E; reflexivity.
Qed.
(* atoms other than strs are never re-laid; the empty str neither *)
Theorem pformat_s_atom : forall w t, pformat_s w (SAtom t) = text t /\ pformat_s w (SRaw t) = text t /\ pformat_s w (SStr []) = "''".
Proof.
  intros w t. unfold pformat_s. cbn [pformat_s_at]. repeat split; destruct (too_wide _ _ _ _); reflexivity.
Qed.

(* ---- the witness: 'the quick brown fox jumps over the lazy dog and keeps running' ---- *)
Definition pps_fox : list N :=
  [116; 104; 101; 32; 113; 117; 105; 99; 107; 32; 98; 114; 111; 119; 110; 32; 102; 111; 120; 32; 106; 117; 109; 112; 115; 32; 111;
   118; 101; 114; 32; 116; 104; 101; 32; 108; 97; 122; 121; 32; 100; 111; 103; 32; 97; 110; 100; 32; 107; 101; 101; 112; 115; 32;
   114; 117; 110; 110; 105; 110; 103]%N.
Example pps_fox_repr : repr_string (erase (SStr pps_fox)) = "'the quick brown fox jumps over the lazy dog and keeps running'".
Proof. vm_compute. reflexivity. Qed.
(* pprint.pformat(s, width=36): two adjacent literals in parentheses *)
Example pps_fox_split : pformat_s 36 (SStr pps_fox) =
"('the quick brown fox jumps over '
 'the lazy dog and keeps running')".
Proof. vm_compute. reflexivity. Qed.
(* inside a list: no parentheses, the continuation aligned with the opening quote *)
Example pps_fox_in_list : pformat_s 36 (SList [SStr pps_fox]) =
"['the quick brown fox jumps over '
 'the lazy dog and keeps running']".
Proof. vm_compute. reflexivity. Qed.
(* gin.config_str(max_line_length=40, continuation_indent=4) after bind_parameter('m.f.a', s) prints exactly this:
   the long string IS split into a concatenation of shorter strings, contrary to the docstring of _config_str *)
Example pps_docstring_claim_false :
  format_binding_s 40 4 "f.a" (SStr pps_fox) =
"f.a = \
    ('the quick brown fox jumps over '
     'the lazy dog and keeps running')" /\
  pformat_s 36 (SStr pps_fox) <> repr_string (erase (SStr pps_fox)).
Proof. split; [vm_compute; reflexivity | vm_compute; discriminate]. Qed.
(* the split text is read back as the string: two STRING tokens inside parentheses; the oracle's entry for the run of the
   two literal texts is the decoded concatenation (what ast.literal_eval answers) *)
Definition pps_oracle : oracle :=
  [("'the quick brown fox jumps over '", Some (OT "str" [OS "the quick brown fox jumps over "]));
   ("'the quick brown fox jumps over ' 'the lazy dog and keeps running'",
    Some (OT "str" [OS "the quick brown fox jumps over the lazy dog and keeps running"]))].
Example pps_fox_reads_back :
  option_map (fun ts => run_value_api (pps_oracle, ts)) (lex (pformat_s 36 (SStr pps_fox))) =
  Some (OT "Value" [OT "str" [OS "the quick brown fox jumps over the lazy dog and keeps running"]]).
Proof. vm_compute. reflexivity. Qed.
Example pps_oracle_agrees_with_decode :
  option_map str_of (decode_str_literals [py_repr_str ascii_printable (firstn 31 pps_fox); py_repr_str ascii_printable (skipn 31 pps_fox)]) =
  Some "the quick brown fox jumps over the lazy dog and keeps running".
Proof. vm_compute. reflexivity. Qed.
